"""Per-property configuration of ./check (what is proved, what is generated, what is trusted)."""

ORACLES = "stdlib/third-party functions katib merely calls are oracles evaluated by the harness on the concrete input"

PROPS = {
    "C11": {
        "prop_files": ["Katib/Props/C11.lean", "Katib/Props/C11Guards.lean"],
        "n": {"quick": 20000, "thorough": 1000000},
        "rule": "seeded random metric logs (0-200 entries, 5 metric names, float syntaxes, non-numeric texts, equal/out-of-order/"
                "invalid timestamps) x strategy lists (0-4 names, duplicates); one case in three goes the controller's own way: the real manager client asks an in-process gRPC DB manager metric by metric (objective = first strategy, additional = the rest) and getMetrics runs on what it assembled; a case is non-trivial when both the log and the "
                "strategy list are non-empty; distinct = distinct op line",
        "trusted": ["the go/ast path-condition translator (kvh extract guards / pred / skip; what it is trusted for: DESIGN.md section 2)", "strconv.ParseFloat and time.Parse are oracles (key / ts on the op line); NaN/Inf never generated"],
        "modelled": ["getMetrics (trial_controller_util.go) as Katib.Metrics.getMetrics"],
        "level_text": "Lean theorems (C11_names, C11_summary, C11_interleaving, C11_error_iff, C11_unnamed_ignored) hold for every log and "
                      "strategy list of the model of getMetrics; C11_iteration_is_source: one iteration of the model assigns min / max / latest and returns the timestamp error under exactly the path conditions regenerated from the loop body of getMetrics on this run (6 sites); the model is tied to the Go function by a differential run on generated logs "
                      "and the observed Go outputs are judged by the executable property oracle",
        "level_note": "trusted: Lean kernel; harness/check; ParseFloat and time.Parse as oracles; model is hand-written (tie = sampling, plus the regenerated path conditions of the loop body)",
        "assumptions": ["ParseFloat key is order-isomorphic to the float order (math.Float64bits mapping, +-0 identified)",
                        "a text that parses as a float is never the literal 'unavailable'"],
    },
    "C05": {
        "prop_files": ["Katib/Props/C05.lean", 'Katib/Props/C05Guards.lean'],
        "n": {"quick": 30000, "thorough": 600000},
        "rule": "seeded random (spec, stored status, trial list) triples: 0-40 trials (some under deletion with their finalizer) with realistic or arbitrary condition subsets "
                "(True/False, duplicates), 0-2 metrics each with min/max/latest texts (numeric syntaxes, ties, negatives, 'unavailable', "
                "occasionally non-numeric), strategies min/max/latest/invalid, stale lists in the stored status; non-trivial = at least one "
                "trial carries an observation with a metric; distinct = distinct op line",
        "trusted": ["the go/ast path-condition translator (kvh extract guards / pred / skip; what it is trusted for: DESIGN.md section 2)", "strconv.ParseFloat as oracle (key per metric text)", "reflect.DeepEqual on the optimal trial's payload is evaluated Go-side"],
        "modelled": ["UpdateExperimentStatus, updateTrialsSummary, getObjectiveMetricValue (experiment/util/status_util.go) as Katib.Exp.updateStatus/summarise/objectiveOf"],
        "level_text": "Lean theorems (C05_lists, C05_partition, C05_counters, C05_classify, C05_optimal(+_minimize/_maximize), C05_order_invariant, "
                      "C05_objective_strategy) for every trial list of the model of updateTrialsSummary; tie to util.UpdateExperimentStatus by a "
                      "differential run, observed Go status judged by the executable oracle; regenerated-from-source tie C05_classify_is_source (the classification chain of updateTrialsSummary)",
        "level_note": "trusted: Lean kernel; harness/check; ParseFloat oracle; optimum statements assume every available objective text is numeric "
                      "(the property's quantifier); non-numeric texts are covered by the correspondence only",
        "assumptions": ["ParseFloat key order-isomorphic to float order", "trial names are unique (Kubernetes)"],
    },
    "C03": {
        "prop_files": ["Katib/Props/C03.lean", "Katib/Props/C03Ctl.lean", 'Katib/Props/C03World.lean', 'Katib/Props/C03Frozen.lean', 'Katib/Props/C04Resume.lean', 'Katib/Props/C03Restartable.lean', 'Katib/Props/C03Guards.lean'],
        "streams": [("C03", {"quick": 30000, "thorough": 600000}), ("SIM", {"quick": 240, "thorough": 8000})],
        "rule": "same generator as C05 with stored conditions in every completion state (none/Succeeded by 3 reasons/Failed/stale False verdicts), "
                "budgets maxTrialCount 1-6 or unset, maxFailedTrialCount 0-4 or unset, goal set/unset; non-trivial = at least one trial with a metric",
        "trusted": ["the go/ast path-condition translator (kvh extract guards / pred / skip; what it is trusted for: DESIGN.md section 2)", "strconv.ParseFloat as oracle"],
        "modelled": ["UpdateExperimentStatusCondition, Mark* / setCondition (experiments/v1beta1/util.go) as Katib.Exp.updateCondition, Katib.Cond.set"],
        "level_text": "Lean theorems C03_verdict (verdict = goal > failed > max-trials > suggestion-end > running, with reasons and completion time), "
                      "C03_exclusive, C03_running_false, C03_frozen, C03_precedence, C03_rules for every budget/counter/condition list; tie to "
                      "util.UpdateExperimentStatus by differential run + oracle. Stability over reconcile sequences: controller model (C03Ctl); C03_frozen_verdict_world (no hypothesis on the schedule: any lag, faults, aborts, budget edits, deletions): an Experiment that some snapshot shows Created and completed with a verdict that is not restartable (Failed, goal reached, suggestion end, any verdict under Never) still exists with the identical condition list and completion time (history relation EPast with the resourceVersion check, plan guard FGuard); C03_exclusive_world; C03_completed_is_created_world; regenerated-from-source ties: C03_restartable_is_source (IsCompletedExperimentRestartable), C03_reconcile_is_source (the experiment reconcile rebuilt from the path conditions of its calls).",
        "level_note": "trusted: Lean kernel; harness/check; ParseFloat oracle",
        "assumptions": ["condition status is True/False (katib never writes Unknown)"],
    },
    "C01": {
        "prop_files": ['Katib/Props/C01.lean', 'Katib/Props/C01World.lean', 'Katib/Props/C01Parallel.lean', 'Katib/Props/C03Guards.lean'],
        "streams": [('SIM', {'quick': 240, 'thorough': 8000})],
        "rule": "seeded random schedules of the three real reconcilers on the fake client (1-2 experiments, optionally equally named in two namespaces; maxTrialCount 1-4/unset, parallel 1-3, maxFailed, goal, three resume policies, early stopping, retain, push collector), ops = reconciles with per-kind monotone lagging views (random lag, stalled informers, one kind's cache held for several reconciles - also exactly at the Experiment copy from before its verdict), write-fault masks, abort points, algorithm reply faults (short/long/error, rules RPC error), job outcomes, metric arrival (also after the verdict), early stop, deployment ready, external removal of a completed trial's run object, a run-object-creating reconcile cut off before its status write with the job finishing before the retry; scripted RPC failures cycle through gRPC status codes; then fault-free settling to quiescence, a quiescence probe, optionally one or two budget raises each with a second settling, and optionally a teardown in which Trials are deleted and reconciled while the database call or the finalizer write fails; every op's write log and the whole store are compared with the Lean model; a case = one schedule; distinct = distinct op sequence",
        "trusted": ["the go/ast path-condition translator (kvh extract guards / pred / skip; what it is trusted for: DESIGN.md section 2)", "controller-runtime fake client stands in for the kube-apiserver (rv conflicts, status subresource, AlreadyExists)",
                    "fake algorithm / early-stopping / DB-manager services", "typed reads inside a reconcile come from a snapshot (informer cache), run objects are read live"],
        "modelled": ["ReconcileExperiment.Reconcile / ReconcileSuggestion.Reconcile / ReconcileTrial.Reconcile and helpers as Katib.Ctl.expPlan / sugPlan / trialPlan",
                     "API-server semantics as Katib.Ctl.applyCall", "the op/step state machine Katib.Ctl.step"],
        "level_text": 'C01_total: for every list of simulator operations (reconciles of the three controllers in any order, every typed kind read from an arbitrary earlier snapshot, any fault mask and abort point, any environment events) an unedited experiment with maxTrialCount = m never has more than m trials, its suggestion never more than m assignments nor requests > m, every trial is named by an assignment and assignments only grow by appending (invariant WInv + Past, resourceVersion identifies content); C01_parallel: over every such list the trials of an experiment that are not completed never exceed parallelTrialCount (#trials <= #assignments <= #completed + parallel; completion is permanent, so a stale view only under-counts completed trials); plan-level theorem for no-create-after-verdict; model tied to the real reconcilers by exact store/write-log correspondence on generated schedules; observed stores judged by the C01 oracle; regenerated-from-source ties: C01_reconcile_experiment_is_source, C01_reconcile_trials_is_source, C01_reconcile_suggestions_is_source (ReconcileExperiment / ReconcileTrials / ReconcileSuggestions rebuilt from the path conditions of their calls)',
        "level_note": "trusted: Lean kernel; harness/check; fake client as API server; views monotone per kind; the tie between Lean model and Go controllers is differential (sampling)",
        "assumptions": ["informer caches are monotone per kind", "run objects are removed by others only after their Trial completed", "algorithm service returns fresh names"],
    },
    "C04": {
        "prop_files": ['Katib/Props/C04.lean', 'Katib/Props/C04Quiescent.lean', 'Katib/Props/C04Schedules.lean', 'Katib/Props/C04Counters.lean', 'Katib/Props/C04Resume.lean', 'Katib/Props/C03Guards.lean'],
        "streams": [('SIM', {'quick': 240, 'thorough': 8000}), ('C04D', {'quick': 150, 'thorough': 3000})],
        "rule": "seeded random schedules of the three real reconcilers on the fake client (1-2 experiments, optionally equally named in two namespaces; maxTrialCount 1-4/unset, parallel 1-3, maxFailed, goal, three resume policies, early stopping, retain, push collector), ops = reconciles with per-kind monotone lagging views (random lag, stalled informers, one kind's cache held for several reconciles - also exactly at the Experiment copy from before its verdict), write-fault masks, abort points, algorithm reply faults (short/long/error, rules RPC error), job outcomes, metric arrival (also after the verdict), early stop, deployment ready, external removal of a completed trial's run object, a run-object-creating reconcile cut off before its status write with the job finishing before the retry; scripted RPC failures cycle through gRPC status codes; then fault-free settling to quiescence, a quiescence probe, optionally one or two budget raises each with a second settling, and optionally a teardown in which Trials are deleted and reconciled while the database call or the finalizer write fails; every op's write log and the whole store are compared with the Lean model; a case = one schedule; distinct = distinct op sequence; stream C04D: parallelTrialCount lowered right after a batch of Trials was created (optionally one of them already finished), the real deleteTrials branch, then the three real controllers to quiescence; only the outcome is judged (verdict reached, suggestionCount = requests = number of assignments after the deletion) - this branch is outside the Lean controller model",
        "trusted": ["the go/ast path-condition translator (kvh extract guards / pred / skip; what it is trusted for: DESIGN.md section 2)", "controller-runtime fake client stands in for the kube-apiserver (rv conflicts, status subresource, AlreadyExists)",
                    "fake algorithm / early-stopping / DB-manager services", "typed reads inside a reconcile come from a snapshot (informer cache), run objects are read live"],
        "modelled": ["ReconcileExperiment.Reconcile / ReconcileSuggestion.Reconcile / ReconcileTrial.Reconcile and helpers as Katib.Ctl.expPlan / sugPlan / trialPlan",
                     "API-server semantics as Katib.Ctl.applyCall", "the op/step state machine Katib.Ctl.step"],
        "level_text": 'C04_quiescent_verdict_partial: for every store (not only reachable ones) in which none of the three controllers has a write to issue on live reads, every run object has finished, collected metrics are stored and parse, the algorithm Deployment is ready and no Trial is early-stopped without an objective value, an Experiment with maxTrialCount carries a verdict (assumed store facts listed in the theorem: unique Trial keys, suggestionCount = |assignments|, unique assignment names, Suggestion of an unfinished Experiment not Succeeded, MetricsUnavailable Trials not Running, zero counters without Trials); no-hot-loop statements C04_no_noop_*; C04_wedge_counterexample for the excluded region; correspondence on generated schedules with fault-free settling and a quiescence probe; oracle demands a verdict at observed quiescence; C04_quiescent_verdict_on_schedules_resume: for an Experiment created with resume policy Never or LongRunning and an unedited maxTrialCount >= 1, on every schedule without Trial deletions, the hypotheses of the property itself (no controller writes any more, no job running, metrics of successful jobs in, Deployment ready, no early-stopped Trial without observation) imply a verdict; nothing else is assumed about the reached store (uses C01_total, C06_permanent, C06_unavailable_not_running, C08_names_unique_world, C04_zero_counters_without_trials, C16_longrunning_service_kept, C16_succeeded_only_after_verdict, C03_frozen_verdict_world); under FromVolume one store fact stays assumed (the Suggestion is not Succeeded)',
        "level_note": "trusted: Lean kernel; harness/check; fake client as API server; views monotone per kind; the tie between Lean model and Go controllers is differential (sampling)",
        "assumptions": ["informer caches are monotone per kind", "run objects are removed by others only after their Trial completed", "algorithm service returns fresh names"],
    },
    "C06": {
        "prop_files": ['Katib/Props/C06.lean', 'Katib/Props/C06World.lean', 'Katib/Props/C06Running.lean', 'Katib/Props/C06Objective.lean', 'Katib/Props/C06Job.lean', 'Katib/Props/C06Bridge.lean', 'Katib/Props/C06Guards.lean'],
        "streams": [('SIM', {'quick': 240, 'thorough': 8000}), ('C06J', {'quick': 4000, 'thorough': 200000})],
        "rule": "seeded random schedules of the three real reconcilers on the fake client (1-2 experiments, optionally equally named in two namespaces; maxTrialCount 1-4/unset, parallel 1-3, maxFailed, goal, three resume policies, early stopping, retain, push collector), ops = reconciles with per-kind monotone lagging views (random lag, stalled informers, one kind's cache held for several reconciles - also exactly at the Experiment copy from before its verdict), write-fault masks, abort points, algorithm reply faults (short/long/error, rules RPC error), job outcomes, metric arrival (also after the verdict), early stop, deployment ready, external removal of a completed trial's run object, a run-object-creating reconcile cut off before its status write with the job finishing before the retry; scripted RPC failures cycle through gRPC status codes; then fault-free settling to quiescence, a quiescence probe, optionally one or two budget raises each with a second settling, and optionally a teardown in which Trials are deleted and reconciled while the database call or the finalizer write fails; every op's write log and the whole store are compared with the Lean model; a case = one schedule; distinct = distinct op sequence; stream C06J: job status documents (0-4 entries of status.conditions with string members type/condition/state, status, reason, message, a stray `condition` member, lastProbeTime; no status / no conditions) x failure and success conditions of the two GJSON shapes Katib writes (`#(k==v)#|#(status==True)#`, `#(k==v)`) through the real GetDeployedJobStatus, Trial Running or not, run object named or not",
        "trusted": ["the go/ast path-condition translator (kvh extract guards / pred / skip; what it is trusted for: DESIGN.md section 2)", "controller-runtime fake client stands in for the kube-apiserver (rv conflicts, status subresource, AlreadyExists)",
                    "fake algorithm / early-stopping / DB-manager services", "typed reads inside a reconcile come from a snapshot (informer cache), run objects are read live"],
        "modelled": ["ReconcileExperiment.Reconcile / ReconcileSuggestion.Reconcile / ReconcileTrial.Reconcile and helpers as Katib.Ctl.expPlan / sugPlan / trialPlan",
                     "API-server semantics as Katib.Ctl.applyCall", "the op/step state machine Katib.Ctl.step", "GetDeployedJobStatus on the two condition-expression shapes as Katib.Job.jobStatus (GJSON itself is not modelled beyond them)"],
        "level_text": 'C06_permanent: over every list of simulator operations (no hypothesis on the schedule: arbitrary lagging reads, fault masks, abort points, environment events) a trial never disappears, every condition other than Running that was True in any earlier snapshot is True now (terminal verdicts are permanent) and no trial is both Succeeded and EarlyStopped (invariants TInv/KInv + history relation TPast); C06_verdict_guard: every status write of every reconcile obeys the verdict rules (Succeeded needs job success and an objective value and excludes other verdicts; failure first; MetricsUnavailable only without objective value); correspondence + oracle on generated schedules; job status documents: C06J_failure_first, C06J_succeeded_iff, C06J_only_expression_members_matter, C06_jobstate_is_document_model; regenerated-from-source ties C06_update_condition_is_source (UpdateTrialStatusCondition) and C06_reconcile_trial_is_source (reconcileTrial tail)',
        "level_note": "trusted: Lean kernel; harness/check; fake client as API server; views monotone per kind; the tie between Lean model and Go controllers is differential (sampling)",
        "assumptions": ["informer caches are monotone per kind", "run objects are removed by others only after their Trial completed", "algorithm service returns fresh names"],
    },
    "C07": {
        "prop_files": ['Katib/Props/C07.lean', 'Katib/Props/C07World.lean', 'Katib/Props/C07Named.lean', 'Katib/Props/C07Quiescent.lean', 'Katib/Props/C07Guards.lean'],
        "streams": [('SIM', {'quick': 240, 'thorough': 8000}), ('C07J', {'quick': 1500, 'thorough': 30000})],
        "rule": "seeded random schedules of the three real reconcilers on the fake client (1-2 experiments, optionally equally named in two namespaces; maxTrialCount 1-4/unset, parallel 1-3, maxFailed, goal, three resume policies, early stopping, retain, push collector), ops = reconciles with per-kind monotone lagging views (random lag, stalled informers, one kind's cache held for several reconciles - also exactly at the Experiment copy from before its verdict), write-fault masks, abort points, algorithm reply faults (short/long/error, rules RPC error), job outcomes, metric arrival (also after the verdict), early stop, deployment ready, external removal of a completed trial's run object, a run-object-creating reconcile cut off before its status write with the job finishing before the retry; scripted RPC failures cycle through gRPC status codes; then fault-free settling to quiescence, a quiescence probe, optionally one or two budget raises each with a second settling, and optionally a teardown in which Trials are deleted and reconciled while the database call or the finalizer write fails; every op's write log and the whole store are compared with the Lean model; a case = one schedule; distinct = distinct op sequence; stream C07J: hand-made Trials whose run spec carries the Trial's name and {the Trial's, another, no} namespace and {no, a plain, a controller} owner reference of its own, three reconciles of the real trial controller on the fake client, all Jobs of all namespaces judged",
        "trusted": ["the go/ast path-condition translator (kvh extract guards / pred / skip; what it is trusted for: DESIGN.md section 2)", "controller-runtime fake client stands in for the kube-apiserver (rv conflicts, status subresource, AlreadyExists)",
                    "fake algorithm / early-stopping / DB-manager services", "typed reads inside a reconcile come from a snapshot (informer cache), run objects are read live"],
        "modelled": ["ReconcileExperiment.Reconcile / ReconcileSuggestion.Reconcile / ReconcileTrial.Reconcile and helpers as Katib.Ctl.expPlan / sugPlan / trialPlan",
                     "API-server semantics as Katib.Ctl.applyCall", "the op/step state machine Katib.Ctl.step"],
        "level_text": 'C07_deleted_only_when_completed: over every list of simulator operations (no hypothesis on the schedule) a run object that existed in any earlier snapshot and is gone belongs to a Trial that still exists and is completed, and run-object keys are unique (at most one run object per Trial at any time); plan-level: C07_run_object_guard (created only for a not-completed Trial without run object, deleted only for a completed non-retained one), C07_at_most_one_create, C07_db_before_finalizer, C07_finalizer_release_only_after_db; correspondence + oracle on generated schedules; C07_quiescent_cleanup: for every store in which the trial controller has no write to issue for a Trial that is not being deleted, the Trial holds its finalizer and is Created, a completed Trial without retain has no run object and a Trial that is not completed has one; C07_retained_not_deleted: the plan of a retaining Trial never deletes the run object; regenerated-from-source ties C07_reconcile_is_source (trial Reconcile / finalizers), C07_create_is_source, C07_delete_is_source (reconcileJob)',
        "level_note": "trusted: Lean kernel; harness/check; fake client as API server; views monotone per kind; the tie between Lean model and Go controllers is differential (sampling)",
        "assumptions": ["informer caches are monotone per kind", "run objects are removed by others only after their Trial completed", "algorithm service returns fresh names"],
    },
    "C08": {
        "prop_files": ['Katib/Props/C08.lean', 'Katib/Props/C01World.lean', 'Katib/Props/C08Sync.lean', 'Katib/Props/C08World.lean', 'Katib/Props/C08Names.lean', 'Katib/Props/C08Guards.lean'],
        "streams": [('SIM', {'quick': 240, 'thorough': 8000}), ('C08S', {'quick': 3000, 'thorough': 100000})],
        "rule": "seeded random schedules of the three real reconcilers on the fake client (1-2 experiments, optionally equally named in two namespaces; maxTrialCount 1-4/unset, parallel 1-3, maxFailed, goal, three resume policies, early stopping, retain, push collector), ops = reconciles with per-kind monotone lagging views (random lag, stalled informers, one kind's cache held for several reconciles - also exactly at the Experiment copy from before its verdict), write-fault masks, abort points, algorithm reply faults (short/long/error, rules RPC error), job outcomes, metric arrival (also after the verdict), early stop, deployment ready, external removal of a completed trial's run object, a run-object-creating reconcile cut off before its status write with the job finishing before the retry; scripted RPC failures cycle through gRPC status codes; then fault-free settling to quiescence, a quiescence probe, optionally one or two budget raises each with a second settling, and optionally a teardown in which Trials are deleted and reconciled while the database call or the finalizer write fails; every op's write log and the whole store are compared with the Lean model; a case = one schedule; distinct = distinct op sequence; stream C08S: sequences of 1-6 real SyncAssignments calls with growing requests against a service that proposes points from a 2x2 space and (3 of 4 cases) leaves the naming to Katib, replies ok/short/long/error; names canonicalised by first appearance; model Katib.Drv.syncRound",
        "trusted": ["the go/ast path-condition translator (kvh extract guards / pred / skip; what it is trusted for: DESIGN.md section 2)", "controller-runtime fake client stands in for the kube-apiserver (rv conflicts, status subresource, AlreadyExists)",
                    "fake algorithm / early-stopping / DB-manager services", "typed reads inside a reconcile come from a snapshot (informer cache), run objects are read live"],
        "modelled": ["ReconcileExperiment.Reconcile / ReconcileSuggestion.Reconcile / ReconcileTrial.Reconcile and helpers as Katib.Ctl.expPlan / sugPlan / trialPlan",
                     "API-server semantics as Katib.Ctl.applyCall", "the op/step state machine Katib.Ctl.step"],
        "level_text": 'append-only / atomic-sync theorems about the suggestion reconciler plan (C08_sync_guard, C08_atomic, C08_wrong_size) and, over every list of simulator operations, C01_total: the assignment list of any earlier snapshot is a prefix of the current one, count = number of assignments <= requests bound; C08_count_and_bound_world (no hypothesis on the schedule): suggestionCount = number of assignments, which was requested in some snapshot; C08_names_unique_world (no hypothesis): the assignment names of every Suggestion are pairwise distinct in every snapshot (sequencing-aware plan predicate Prog.NamesB: the appending write follows the RPC whose reply it appends; model assumption: the algorithm service numbers its names from one counter); correspondence + oracle on generated schedules; regenerated-from-source tie C08_sync_is_source (SyncAssignments)',
        "level_note": "trusted: Lean kernel; harness/check; fake client as API server; views monotone per kind; the tie between Lean model and Go controllers is differential (sampling)",
        "assumptions": ["informer caches are monotone per kind", "run objects are removed by others only after their Trial completed", "algorithm service returns fresh names"],
    },
    "C09": {
        "prop_files": ['Katib/Props/C09.lean', 'Katib/Props/C09Sites.lean', 'Katib/Props/C09Skip.lean'],
        "streams": [('SIM', {'quick': 240, 'thorough': 8000}), ('C08S', {'quick': 2000, 'thorough': 60000})],
        "rule": "seeded random schedules of the three real reconcilers on the fake client (1-2 experiments, optionally equally named in two namespaces; maxTrialCount 1-4/unset, parallel 1-3, maxFailed, goal, three resume policies, early stopping, retain, push collector), ops = reconciles with per-kind monotone lagging views (random lag, stalled informers, one kind's cache held for several reconciles - also exactly at the Experiment copy from before its verdict), write-fault masks, abort points, algorithm reply faults (short/long/error, rules RPC error), job outcomes, metric arrival (also after the verdict), early stop, deployment ready, external removal of a completed trial's run object, a run-object-creating reconcile cut off before its status write with the job finishing before the retry; scripted RPC failures cycle through gRPC status codes; then fault-free settling to quiescence, a quiescence probe, optionally one or two budget raises each with a second settling, and optionally a teardown in which Trials are deleted and reconciled while the database call or the finalizer write fails; every op's write log and the whole store are compared with the Lean model; a case = one schedule; distinct = distinct op sequence; stream C08S (sequences of real SyncAssignments calls, request steps of up to 11): the request numbers the service receives are requests minus suggestionCount and requests",
        "trusted": ["the go/ast path-condition translator (kvh extract guards / pred / skip; what it is trusted for: DESIGN.md section 2)", "the go/ast List-call-site translator (kvh extract lists: label selectors of the controllers' Trial lists, regenerated into Katib/Gen/ListSites.lean)", "controller-runtime fake client stands in for the kube-apiserver (rv conflicts, status subresource, AlreadyExists)",
                    "fake algorithm / early-stopping / DB-manager services", "typed reads inside a reconcile come from a snapshot (informer cache), run objects are read live"],
        "modelled": ["ReconcileExperiment.Reconcile / ReconcileSuggestion.Reconcile / ReconcileTrial.Reconcile and helpers as Katib.Ctl.expPlan / sugPlan / trialPlan",
                     "API-server semantics as Katib.Ctl.applyCall", "the op/step state machine Katib.Ctl.step"],
        "level_text": 'request-content theorems about the suggestion reconciler model; correspondence + oracle on schedules with two namespaces / equal names; C09_trial_selectors_reserved / C09_trial_list_sites over the regenerated table of label-selected List calls: the Trial lists of the controllers select by the reserved experiment-name label only; C09_sent_is_source (continue guards of ConvertTrials)',
        "level_note": "trusted: Lean kernel; harness/check; fake client as API server; views monotone per kind; the tie between Lean model and Go controllers is differential (sampling)",
        "assumptions": ["informer caches are monotone per kind", "run objects are removed by others only after their Trial completed", "algorithm service returns fresh names"],
    },
    "C16": {
        "prop_files": ['Katib/Props/C16.lean', 'Katib/Props/C16World.lean', 'Katib/Props/C16Succeeded.lean', 'Katib/Props/C16Quiescent.lean', 'Katib/Props/C07Guards.lean', 'Katib/Props/C03Guards.lean', 'Katib/Props/C08Guards.lean'],
        "streams": [('SIM', {'quick': 240, 'thorough': 8000})],
        "rule": "seeded random schedules of the three real reconcilers on the fake client (1-2 experiments, optionally equally named in two namespaces; maxTrialCount 1-4/unset, parallel 1-3, maxFailed, goal, three resume policies, early stopping, retain, push collector), ops = reconciles with per-kind monotone lagging views (random lag, stalled informers, one kind's cache held for several reconciles - also exactly at the Experiment copy from before its verdict), write-fault masks, abort points, algorithm reply faults (short/long/error, rules RPC error), job outcomes, metric arrival (also after the verdict), early stop, deployment ready, external removal of a completed trial's run object, a run-object-creating reconcile cut off before its status write with the job finishing before the retry; scripted RPC failures cycle through gRPC status codes; then fault-free settling to quiescence, a quiescence probe, optionally one or two budget raises each with a second settling, and optionally a teardown in which Trials are deleted and reconciled while the database call or the finalizer write fails; every op's write log and the whole store are compared with the Lean model; a case = one schedule; distinct = distinct op sequence",
        "trusted": ["the go/ast path-condition translator (kvh extract guards / pred / skip; what it is trusted for: DESIGN.md section 2)", "controller-runtime fake client stands in for the kube-apiserver (rv conflicts, status subresource, AlreadyExists)",
                    "fake algorithm / early-stopping / DB-manager services", "typed reads inside a reconcile come from a snapshot (informer cache), run objects are read live"],
        "modelled": ["ReconcileExperiment.Reconcile / ReconcileSuggestion.Reconcile / ReconcileTrial.Reconcile and helpers as Katib.Ctl.expPlan / sugPlan / trialPlan",
                     "API-server semantics as Katib.Ctl.applyCall", "the op/step state machine Katib.Ctl.step"],
        "level_text": 'resume-policy theorems about the controller model; correspondence + oracle on schedules with budget raises; C16_quiescent_cleanup: for every store in which the experiment and suggestion controllers have no write to issue, a completed Experiment under Never / FromVolume has a completed or restarting Suggestion, and a Succeeded Suggestion has neither Deployment nor Service left; regenerated-from-source ties C16_suggestion_controller_is_source, C16_reconcile_suggestion_is_source, C16_cleanup_restart_guards_are_source',
        "level_note": "trusted: Lean kernel; harness/check; fake client as API server; views monotone per kind; the tie between Lean model and Go controllers is differential (sampling)",
        "assumptions": ["informer caches are monotone per kind", "run objects are removed by others only after their Trial completed", "algorithm service returns fresh names"],
    },
    "C19": {
        "prop_files": ["Katib/Props/C19.lean"],
        "n": {"quick": 6000, "thorough": 300000},
        "rule": "seeded random Report/Get/Delete requests through the DB manager's own gRPC handlers (cmd/db-manager/v1beta1/main.go, compiled by `go build -overlay` with a stdio driver from /verif/harness/dbm; nothing written to /repo) over the real mysql and postgres dbConn behind a recording database/sql driver, and directly against the dbConn (a difference is tagged): "
                "missing observation_log, entries without metric, empty/invalid/zoned timestamps, SQL metacharacters, placeholders and format verbs as data, "
                "canned result rows incl. unparsable times; statement text and bound arguments compared exactly; non-trivial = the request is not a plain delete",
        "trusted": ["time.Parse/Format as oracle (formatted value on the op line)", "the go/ast call-site translator (kvh extract db)"],
        "modelled": ["dbConn.RegisterObservationLog/GetObservationLog/DeleteObservationLog (mysql.go, postgres.go) as Katib.DB.register/get/delete",
                     "cmd/db-manager server methods only forward to these three functions (not modelled separately)"],
        "level_text": "Lean theorems: statement text is a function of the number of timestamped entries / the set of present filters only (C19_insert_text(+_independent), "
                      "C19_get_text, C19_delete), arguments carry the data in order (C19_insert_args), malformed requests yield an error and no statement "
                      "(C19_parse_error_no_statement, C19_get_bad_filter); C19_sites_constant over the call-site table regenerated from pkg/db on every run; "
                      "differential run against both real back ends",
        "level_note": "trusted: Lean kernel; harness/check; recording SQL driver; the syntactic taint classification of the translator",
        "assumptions": ["database/sql passes statement text and arguments unchanged to the driver"],
    },
    "C15": {
        "prop_files": ["Katib/Props/C15.lean", 'Katib/Props/C03Restartable.lean', 'Katib/Props/C15Guards.lean'],
        "n": {"quick": 4000, "thorough": 100000},
        "rule": "stored experiment (budget values, resume policy, status.trials 0-6, completion state none/MaxTrialsReached/GoalReached/Failed) x update: no spec edit, "
                "budget edits (change/remove any of the three), or an edit of one place of the spec enumerated by reflection over ExperimentSpec (every leaf, pointer->nil, "
                "slice drop, map add, the unstructured template), re-defaulted as the mutating webhook does; case k edits path k mod #paths so every path is covered; "
                "non-trivial = the spec was edited; every update also goes as an AdmissionRequest through ExperimentValidator.Handle (oldObject = the stored object, while the handler's own client holds an outdated copy); one case in eight validates against a katib-config from which the experiment's algorithm has been removed since creation",
        "trusted": ["the go/ast path-condition translator (kvh extract guards / pred / skip; what it is trusted for: DESIGN.md section 2)", "equality.Semantic.DeepEqual is an oracle for 'the rest of the spec is unchanged'", "IsCompletedExperimentRestartable evaluated Go-side (modelled and proved in C03/C16)"],
        "modelled": ["the oldInst != nil branch of DefaultValidator.ValidateExperiment as Katib.Upd.updErrs/admitUpdate"],
        "level_text": "Lean theorems C15_iff (admitted <=> untouched, or only budget fields differ + restartable-if-completed + maxTrialCount > status.trials), C15_noop, "
                      "C15_only_budget, C15_create_checks_kept for an arbitrary 'rest of spec' type; tie to the real validator over reflection-enumerated edits; regenerated-from-source ties C15_update_errors_are_source (update branch of ValidateExperiment) and C03_restartable_is_source",
        "level_note": "trusted: Lean kernel; harness/check; DeepEqual oracle; creation-time checks are an input (createOk) of the update model",
        "assumptions": ["the mutating webhook re-defaults the object before validation"],
    },
    "C10": {
        "prop_files": ["Katib/Props/C10.lean", "Katib/Props/C10Guards.lean"],
        "n": {"quick": 6000, "thorough": 200000},
        "rule": "four generators: (1) experiments (settings, objective, 0-3 parameters with every type/distribution incl. unknown ones, NAS config, budget, early stopping) "
                "+ settings held by the suggestion, sent through the real SyncAssignments and captured from the fake RPC client; (2) trial lists with strategies, assignments, "
                "labels, condition lists, times, observations through ConvertTrials; (3) 2-5 sync rounds with scripted settings replies (the status accumulates, the next request "
                "overlays); (4) reflection over ExperimentSpec: one leaf edited per case (case k = path k mod #paths), the converted request must change unless the path is in the "
                "consumed-locally allow-list; distinct = distinct op line",
        "trusted": ["the go/ast enum translator (kvh extract enums)", "the go/ast path-condition translator (kvh extract guards / pred / skip; what it is trusted for: DESIGN.md section 2)", "proto.Equal / String() of generated proto code", "strconv float formatting and time.Format as oracles"],
        "modelled": ["ConvertExperiment, ConvertTrials, convert* helpers, convertNasConfig, appendAlgorithmSettingsFromSuggestion, updateAlgorithmSettings as Katib.Conv.*"],
        "level_text": "Lean theorems: enum tables regenerated from the converter switches are name-matched, injective, round-trip and total up to an allow-list (decide); C10_metric_value_is_source / C10_trial_sent_is_source / C10_observation_sent_is_source: the value sent per metric strategy, the filter of ConvertTrials and the last-condition test are made under exactly the path conditions regenerated from convertTrialObservation (expression switch) and ConvertTrials on this run (8 sites); "
                      "settings override incl. across rounds (C10_settings_override, C10_settings_rounds), field fidelity (C10_fields, C10_params, C10_nas, C10_trials, "
                      "C10_last_condition), strategy-selected metric value (C10_metric_value); differential run against the real converters incl. reflection field coverage",
        "level_note": "trusted: Lean kernel; harness/check; translator; proto3 conflations are part of the statement (absent goal / counts arrive as 0)",
        "assumptions": ["the four allow-listed spec parts (metric strategies, maxFailedTrialCount, resumePolicy, trial template / collector) are consumed controller-side"],
    },
    "C17": {
        "prop_files": ["Katib/Props/C17.lean", 'Katib/Props/C08Guards.lean'],
        "streams": [("C17", {"quick": 4000, "thorough": 200000}), ("SIM", {"quick": 160, "thorough": 3000})],
        "rule": "suggestions (names, namespaces, labels incl. the reserved katib label keys, three resume policies, early stopping on/off/empty name) x generated katib-config "
                "suggestion entries (container name, 0-2 extra ports incl. the reserved name/number, custom serviceAccountName, volume mounts incl. suggestion-volume, mount path) "
                "through the real composer.General on a fake client; Deployment/Service/PVC/RBAC projected on the fields that tie them together; owner references checked Go-side; stream SIM (the controller schedules of C01-C16, with write faults and aborts between the ServiceAccount / Role / RoleBinding creations): at quiescence an early-stopping experiment whose algorithm Deployment exists has all three RBAC objects",
        "trusted": ["the go/ast path-condition translator (kvh extract guards / pred / skip; what it is trusted for: DESIGN.md section 2)", "sigs.k8s.io/yaml round trip of the generated katib-config", "owner-reference check (SetControllerReference) evaluated Go-side"],
        "modelled": ["General.DesiredDeployment/DesiredService/DesiredVolume/DesiredRBAC, desiredContainers, util.GetSuggestion*Name, GetAlgorithmEndpoint, SuggestionLabels as Katib.Comp.*"],
        "level_text": "Lean theorems C17_selector, C17_ports, C17_endpoint, C17_listening, C17_reserved_port_rejected, C17_volume, C17_ns, C17_rbac_partial (default service account) and "
                      "C17_rbac_counterexample (custom serviceAccountName: known finding) for every suggestion and config; differential run + cross-object coherence oracle; regenerated-from-source tie C17_volume_rbac_readiness_guards_are_source (ReconcileSuggestion)",
        "level_note": "trusted: Lean kernel; harness/check; katib-config parsing (katibconfig.GetSuggestionConfigData) exercised but not modelled",
        "assumptions": ["labels are compared as sets (Go maps)"],
    },
    "C12": {
        "prop_files": ["Katib/Props/C12.lean", 'Katib/Props/C12Guards.lean'],
        "n": {"quick": 4000, "thorough": 200000},
        "rule": "pods (1-3 containers named main/helper/istio-proxy/training incl. duplicates, explicit commands python/sh/bash/`sh -c`/`bash -c`/`sh -x`/binary, args, env, mounts, "
                "volumes, labels incl. a stale trial label) x Trials (seven collector kinds incl. Custom with a collector named like the primary container and Push; primaryPodLabels "
                "nil/matching/mismatching; stop rules nil/empty/1-2; filters; file and directory sources) x environment (katib-config collector entry present/absent, waitAllProcesses, "
                "Experiment present/absent, Suggestion present/absent, suggestion_trial_dir) through the real SidecarInjector.MutationRequired + Mutate on a fake client and, for the same pod as JSON, through the real admission handler SidecarInjector.Handle (the returned JSON patch is applied and must give the same pod; refusals must coincide); every fourth case "
                "drives MutationRequired over a generated acyclic ownership graph (Job/ReplicaSet/Deployment/StatefulSet objects, dangling owners, Trial references of other API groups); the pod template sets shareProcessNamespace to nothing / true / false",
        "trusted": ["the go/ast path-condition translator (kvh extract guards / pred / skip; what it is trusted for: DESIGN.md section 2)", "sigs.k8s.io/yaml round trip of the generated katib-config", "fake client as API server", "filepath.Dir / filepath.Join / env-derived DB manager address computed Go-side and passed in"],
        "modelled": ["SidecarInjector.Mutate, getMetricsCollectorContainer, getMetricsCollectorArgs, mutateMetricsCollectorVolume, mutateSuggestionVolume, mutatePodMetadata, mutatePodEnv, "
                     "wrapWorkerContainer, isPrimaryPod, needWrapWorkerContainer, getKatibJob as Katib.Pod.*"],
        "level_text": "Lean theorems C12_light(+_keeps) (non-primary and push pods: labels only, never rejected), C12_full (original containers kept in order, exactly one collector appended, "
                      "process-namespace sharing, labels), C12_volume, C12_args(+_path), C12_command_verbatim, C12_unrelated, C12_owner_walk for every pod/Trial/environment; differential run of the "
                      "real webhook against the model + pod-level oracle; regenerated-from-source ties C12_mutate_is_source, C12_volume_wrap_guards_are_source (SidecarInjector.Mutate)",
        "level_note": "trusted: Lean kernel; harness/check; pods whose primary container has no explicit command (image-registry lookup) and JSON patch generation in Handle are not modelled",
        "assumptions": ["the primary container has an explicit command (otherwise the webhook asks the image registry)", "ownership graphs are acyclic (the API server guarantees it via UIDs)"],
    },
    "C14": {
        "prop_files": ["Katib/Props/C14.lean", "Katib/Props/C14Template.lean", "Katib/Props/C14Guards.lean"],
        "n": {"quick": 6000, "thorough": 300000},
        "rule": "generated Experiments before defaulting (names incl. dots, upper case, trailing hyphen/newline, 40/41 characters; budgets nil/-1..6, and clean experiments with exactly one budget field off; objective, algorithm, early stopping, "
                "resume policy valid/invalid/nil; 0-3 parameters of every type with valid, empty, mixed and duplicated spaces and names; NAS config; inline Job/TFJob/CRD templates and "
                "ConfigMap templates with declared/undeclared/unused placeholders, metadata references (Name, Labels[k] present/absent, unknown keys), missing apiVersion, fixed name, "
                "unconvertible Job fields; collector kinds x nil/partial sources, ports, filters) plus one random field of the spec zeroed by reflection, x three katib-config contents; run "
                "through the real SetDefault + ValidateExperiment (recover) and, as JSON, through the real admission handlers ExperimentDefaulter.Handle (patch applied, must equal the directly defaulted object) and ExperimentValidator.Handle (decision must coincide), and for admitted objects through util.GetSuggestion*Name and GetRunSpecWithHyperParameters on two feasible "
                "assignments; every sixth case checks the naming rule / the DNS label predicates on random strings against the validator and k8s.io/apimachinery validation",
        "trusted": ["the go/ast path-condition translator (kvh extract guards / pred / skip; what it is trusted for: DESIGN.md section 2)", "engines as oracle bits: regexp, JSON/YAML conversion of the dry-run template, batch/v1 Job conversion (asked from the real validator on a clean experiment), katib-config "
                    "lookups, strconv.Atoi", "the harness's own dry-run substitution (compared with the model's dry-run text on every case)", "fake client as API server"],
        "modelled": ["Experiment.SetDefault (parallel count, resume policy, template conditions, collector sources, distributions) and DefaultValidator.ValidateExperiment for creation "
                     "(all validate* helpers; nil dereferences as the outcome crash) as Katib.Adm.*; name rules on character lists; applyParameters through Katib.Tpl.placeholders"],
        "level_text": "partial: Lean theorems C14_no_crash (validation of a defaulted Experiment never dereferences nil, any content, any engine answers), C14_pointers, C14_budget, C14_names, "
                      "C14_trial_names for every Experiment / name; C14_template_partial (admitted + every parameter consumed + every metadata reference resolvable => for every assignment of "
                      "values the generator's placeholder map is built without error: links the admission model to the C02 generator model); C14_algorithm_name_counterexample and the "
                      "instantiate-battery oracle witness four known findings; C14_name_error_is_source / C14_budget_errors_are_source / C14_objective_errors_are_source / C14_algorithm_errors_are_source / C14_early_stopping_errors_are_source: the model raises the name error, the five budget errors and the objective, algorithm and early-stopping errors under exactly the path conditions regenerated from ValidateExperiment, validateObjective, validateAlgorithm and validateEarlyStopping on this run; exact differential run "
                      "of the real webhooks (error paths in order) against the model",
        "level_note": "partial: that the substituted template text parses (JSON/YAML engine) is decided per case by running the real generator (oracle), not by a theorem; objective metric "
                      "strategies and NAS operations are not modelled; updates (oldInst) are C15",
        "assumptions": ["Go's regexp `$` matches only at the end of the text (checked by the name stream)"],
    },
    "C18": {
        "prop_files": ["Katib/Props/C18.lean"],
        "n": {"quick": 1500, "thorough": 60000},
        "rule": "search spaces the service's ValidateAlgorithmSettings accepts (1-4 parameters: int with no / dividing / arbitrary step and negative bounds, double with fractional and negative "
                "bounds and no / dividing / non-dividing step, categorical incl. spaces/commas/non-ASCII, discrete) x random|tpe|cmaes|sobol with settings (random_state, n_startup_trials 1-3, "
                "n_ei_candidates, sigma, restart_strategy) x 2-6 rounds (thorough: up to 11) of the real SuggestionService.GetSuggestions: Katib creates trials from any subset of the unclaimed "
                "assignments in any order under random names, states move created->running->{succeeded with finite values incl. 1e300/-0, failed, killed, early-stopped, metrics-unavailable, "
                "unknown} and sometimes arbitrarily, each request carries all (sometimes a subset) of the trials shuffled and asks for 0-3 assignments; a case = one service lifetime; feasibleSpace.distribution unset or any of the five values",
        "trusted": ["goptuna samplers (third party, floating point, random): their output is an input of the model and is judged by the feasibility oracle",
                    "strconv round trip of the returned values (assumed by comparing canonical strings; exercised on every re-identified trial)"],
        "modelled": ["SuggestionService.GetSuggestions bookkeeping: toGoptunaState, syncTrials, findGoptunaTrialIDByParam, sampleNextParam's trial creation, trialMapping, as Katib.Gop.request; "
                     "ToExternalRepr of stepped distributions in exact arithmetic as Katib.Gop.snap"],
        "level_text": "partial: Lean theorems C18_survives_history (every history of own suggestions, any states / order / subset, unboundedly many rounds: syncTrials and re-identification never "
                      "fail; invariant with a ghost origin map), C18_count, C18_snap_feasible (dividing step: in range and on grid) and C18_snap_counterexample (known finding); exact "
                      "differential run of the real service (per-name Goptuna state and parameters via the verif accessors) + feasibility oracle in exact decimal arithmetic on every reply",
        "level_note": "partial: feasibility of the samplers' output is judged per reply (oracle), not proved: the samplers are third-party floating-point code; doubles on a step grid are accepted "
                      "within 1e-9 relative tolerance",
        "assumptions": ["Katib creates at most one trial per assignment and never changes a trial's assignments", "bounds and steps are short decimals (shortest float representation)"],
    },
    "C13": {
        "prop_files": ["Katib/Props/C13.lean", "Katib/Props/C13Guards.lean"],
        "n": {"quick": 8000, "thorough": 300000},
        "rule": "TEXT logs (default filter and four custom two-group filters incl. two filters at once; several metrics per line, noise lines, lines without space, valid/invalid/missing "
                "first-token timestamps, random byte lines, lines of 3-9 kB) and JSON-lines logs (records up to 70 kB; string / numeric / missing / wrong-typed timestamps with 0-10 fractional digits, negative and huge "
                "numbers, non-string metric values, empty and invalid lines) x tracked-metric lists (1-3 names, duplicates; rarely empty); written to a temp file and read by the real "
                "CollectObservationLog; non-trivial = at least one tracked metric",
        "trusted": ["the go/ast path-condition translator (kvh extract guards / pred / skip; what it is trusted for: DESIGN.md section 2)", "regexp, strings.Contains/SplitN/TrimSpace, time.Parse, encoding/json, strconv are oracles evaluated by the harness independently of the collector code"],
        "modelled": ["parseLogsInTextFormat, parseLogsInJsonFormat, newObservationLog, parseTimestamp as Katib.Log.parseText/parseJson/finish/epochNanos"],
        "level_text": "partial: Lean theorems C13_text (exactly the tracked occurrences in line/filter/match order with value and timestamp), C13_only_tracked, C13_fallback, C13_total(+_json), "
                      "C13_json_line, C13_json_invalid, C13_epoch_partial; C13_epoch_order_counterexample witnesses the known finding (fraction read as nanoseconds); C13_text_timestamp/append/prefilter_is_source, C13_unavailable_is_source, C13_json_error/timestamp/append_is_source: the model takes the first token as timestamp, appends a record, returns the unavailable entry and the JSON error under exactly the path conditions regenerated from the three Go functions on this run (6 sites); differential run on "
                      "generated files incl. byte fuzz",
        "level_note": "partial: regexp/JSON/time engines are oracles; Go crash-freedom beyond the modelled index site is evidence from the byte-fuzz stream, not a theorem",
        "assumptions": ["filters compile and have two groups (enforced by the experiment validator)", "the collector always passes the objective metric first (non-empty list)"],
    },
    "C20": {
        "prop_files": ["Katib/Props/C20.lean"],
        "n": {"quick": 2800, "thorough": 60000},
        "rule": "every route of the UI server except the index/static ones and fetch_trial_logs (real clientset) x {user header present/absent} x USERID_PREFIX variants x RBAC script (also: only the first review of a request allowed = resource-granular RBAC; second review fails) "
                "{deny all, allow all, allow namespace a, allow namespace b} x request namespace {a, b}, served by the real handlers through httptest on a fake client holding "
                "experiments, trials, suggestions and template ConfigMaps in two namespaces; SubjectAccessReviews are answered by the script, every API call is recorded; case k uses "
                "route k mod #routes so all routes are covered; body routes optionally carry a stray namespace query parameter naming the other namespace",
        "trusted": ["the go/ast route/handler translator (kvh extract ui)", "fake client + interceptor as API server and SubjectAccessReview oracle"],
        "modelled": ["per route: ordered IsAuthorized calls with guard shape and data accesses with namespace expression (regenerated table Katib.Gen.uiRoutes); Katib.Ui.guardedFrom / exec / gateStatus"],
        "level_text": "partial: C20_guarded_sound (a statically guarded handler touches only namespaces with an allowing review and nothing after 401/403) and C20_no_header_no_access for every "
                      "event list; C20_all_routes / C20_template_routes / C20_repaired_routes_guarded by decide over the table regenerated from cmd/ui and pkg/ui on every run; dynamic tie: "
                      "gate answers of the real handlers equal the table's, and every recorded trace is judged by the trace oracle",
        "level_note": "partial: fetch_trial_logs is covered statically only (needs a clientset); the static skeleton abstracts control flow to top/branch/loop positions",
        "assumptions": ["every gate's namespace expression evaluates to the request's namespace parameter (true for the generated requests)"],
    },
    "C02": {
        "prop_files": ["Katib/Props/C02.lean", "Katib/Props/C02Guards.lean"],
        "n": {"quick": 4000, "thorough": 200000},
        "rule": "template trees (depth <= 4, placeholders repeated and nested in maps/arrays, literals with $, ${, }, <&>, non-ASCII, backslashes, partial placeholder syntax) x 1-4 declared "
                "trial parameters (free-form names: letters, '-', '.', '/', '~', '+', non-ASCII) referencing assignments or trial metadata (Name, Namespace, Kind, APIVersion, Labels[k], Annotations[k], illegal ones) x assignments (clean values; "
                "rarely missing/extra) through the real GetRunSpecWithHyperParameters from an inline trialSpec or a ConfigMap (JSON, or YAML whose scalars are re-typed by the YAML engine: the oracle there is textual substitution then YAML parse; a YAML text that a value would break falls back to JSON); plus batches of 1-4 assignments turned into "
                "Trials by the real getTrialInstance on one Experiment object (labels, owner, rules); distinct = distinct op line; the Experiment carries typed spec.parameters for the referenced names (int / double / categorical / discrete) and values also come in float notation (100.0, 0.0, 1e2, +5, 007)",
        "trusted": ["the go/ast path-condition translator (kvh extract guards / pred / skip; what it is trusted for: DESIGN.md section 2)", "JSON/YAML (de)serialisation (ConvertUnstructuredToString / ConvertStringToUnstructured) and the reference regexps are oracles",
                    "the harness's independent tree substitution (tree=) is the oracle for ConfigMap/YAML templates"],
        "modelled": ["DefaultGenerator.applyParameters (placeholder map, count check, strings.Replace loop) as Katib.Tpl.placeholders/applyAll/replaceAll; getTrialInstance as Katib.Tpl.trialInstance"],
        "level_text": "C02_iteration_is_source: one iteration of the model of applyParameters consumes an assignment, takes the name / namespace / kind / apiVersion / annotation / label and returns each error under exactly the path conditions regenerated from the loop body (expression switch included) on this run (13 sites); Lean theorems on strings: C02_replace_one, C02_apply_all (every occurrence of every declared placeholder replaced, nothing else changes), C02_any_order (map iteration "
                      "order irrelevant), C02_no_placeholder_left; placeholder-map errors (C02_missing_assignment_error, C02_count_check, C02_meta_values); record level C02_trial_fields; "
                      "differential run of the real generator (inline: exact text; ConfigMap: tree oracle) and of getTrialInstance batches",
        "level_note": "trusted: Lean kernel; harness/check; JSON/YAML engines; hypotheses of the string theorems = the property's quantifier (names without $ and }, values and literals without $)",
        "assumptions": ["assignment values are free of JSON/YAML metacharacters and placeholder syntax", "placeholders occur in string values, not in map keys"],
    },
}
