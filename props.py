"""Per-property configuration of ./check (what is proved, what is generated, what is trusted)."""

ORACLES = "stdlib/third-party functions katib merely calls are oracles evaluated by the harness on the concrete input"

PROPS = {
    "C11": {
        "prop_files": ["Katib/Props/C11.lean"],
        "n": {"quick": 20000, "thorough": 1000000},
        "rule": "seeded random metric logs (0-200 entries, 5 metric names, float syntaxes, non-numeric texts, equal/out-of-order/"
                "invalid timestamps) x strategy lists (0-4 names, duplicates); a case is non-trivial when both the log and the "
                "strategy list are non-empty; distinct = distinct op line",
        "trusted": ["strconv.ParseFloat and time.Parse are oracles (key / ts on the op line); NaN/Inf never generated"],
        "modelled": ["getMetrics (trial_controller_util.go) as Katib.Metrics.getMetrics"],
        "level_text": "Lean theorems (C11_names, C11_summary, C11_interleaving, C11_error_iff, C11_unnamed_ignored) hold for every log and "
                      "strategy list of the model of getMetrics; the model is tied to the Go function by a differential run on generated logs "
                      "and the observed Go outputs are judged by the executable property oracle",
        "level_note": "trusted: Lean kernel; harness/check; ParseFloat and time.Parse as oracles; model is hand-written (tie = sampling)",
        "assumptions": ["ParseFloat key is order-isomorphic to the float order (math.Float64bits mapping, +-0 identified)",
                        "a text that parses as a float is never the literal 'unavailable'"],
    },
}
