#!/usr/bin/env python3
"""Regenerates MANIFEST.json from props.py (keeps it valid against /root/.vp/MANIFEST.schema.json)."""
import json, os, sys
V = os.path.dirname(os.path.abspath(__file__))
sys.path.insert(0, V)
from props import PROPS
ALL = [f"C{i:02d}" for i in range(1, 21)]
hooks_commits = [l.split()[0] for l in os.popen("git -C /repo log --format='%h %s' | grep '^[0-9a-f]* verif:'").read().strip().split("\n") if l]
m = {
    "version": 1,
    "setup_cmd": "./check --setup",
    "hooks": {
        "guard": "verif (Go build tag; hook files are `//go:build verif`, add-only new files named verif_hooks.go)",
        "enable": "go build -tags verif (the harness module /verif/harness replaces github.com/kubeflow/katib => /repo)",
        "baseline_off_cmd": "for m in $(cat /w/out/gomods.txt); do MF=$(cd /repo/$m && . /w/out/goenv.sh && gomodflag); (cd /repo/$m && go test $MF -json -vet=off -count=1 -timeout 25m ./...); done",
        "source_commits": hooks_commits,
        "add_only": True,
    },
    "engines": [
        {"name": "lean", "path": "/verif/lean", "serves_properties": sorted(PROPS), "kind_free_text": "Lean 4.33 lake project: executable models, property theorems, oracles, line-protocol driver"},
        {"name": "kvh", "path": "/verif/harness", "serves_properties": sorted(PROPS), "kind_free_text": "Go harness built from /repo with -tags verif: generators, real-code runner, go/ast translators"},
    ],
    "checks": [],
    "notes": "see DESIGN.md; ./check Cxx --tier quick|thorough; known findings in known_findings.json",
    "not_applicable": [],
}
for pid in ALL:
    if pid in PROPS:
        c = PROPS[pid]
        m["checks"].append({
            "property_id": pid,
            "quick_cmd": f"./check {pid} --tier quick",
            "thorough_cmd": f"./check {pid} --tier thorough",
            "evidence_file": f"/verif/evidence/{pid}.json",
            "replay_cmd_template": f"./check {pid} --replay {{path}}",
            "engine": "lean+kvh",
            "level_claimed": {"category": "proof", "text": c["level_text"], "design_ref": c.get("design_ref", "DESIGN.md §5 " + pid)},
            "level_note": c["level_note"],
            "technique": c.get("technique", "Lean 4 theorems about an executable model + Go/Lean differential correspondence with property oracle"),
        })
    else:
        m["not_applicable"].append({"property_id": pid, "reason": "not claimed yet: model/proofs/correspondence for this property are still under construction (see DESIGN.md §10 build order)"})
json.dump(m, open(os.path.join(V, "MANIFEST.json"), "w"), indent=1)
print("checks:", [c["property_id"] for c in m["checks"]])
