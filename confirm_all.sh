#!/bin/bash
# confirm_all.sh [ID...] : confirm seeded changes in scratch worktrees /tmp/wt/<ID> at /repo's current HEAD.
# For each: patch applies, builds (with and without -tags verif), whole suite has the same per-test pass/fail set as the clean tree,
# demo fails with the change and passes without. Writes /tmp/seed/<ID>/confirm.txt.
export GOFLAGS=-mod=mod GOPROXY=off GOSUMDB=off GOTOOLCHAIN=local
HEAD=$(git -C /repo rev-parse HEAD)
declare -A DEMO
DEMO[C01]="pkg/controller.v1beta1/experiment/c01demo|./pkg/controller.v1beta1/experiment/c01demo/|"
DEMO[C02]="pkg/controller.v1beta1/experiment/c02demo|./pkg/controller.v1beta1/experiment/c02demo/|"
DEMO[C03]="SPECIAL|./pkg/controller.v1beta1/experiment/c03demo/ ./pkg/controller.v1beta1/experiment/util/|-run TestC03"
DEMO[C04]="TREE|./pkg/controller.v1beta1/experiment/c04demo/ ./pkg/controller.v1beta1/experiment/util/|-run TestC04|Test"
DEMO[C05]="pkg/controller.v1beta1/experiment/util|./pkg/controller.v1beta1/experiment/util/|-run TestC05"
DEMO[C06]="pkg/controller.v1beta1/trial/c06demo|./pkg/controller.v1beta1/trial/c06demo/|"
DEMO[C07]="pkg/controller.v1beta1/trial/c07demo|./pkg/controller.v1beta1/trial/c07demo/|"
DEMO[C08]="pkg/controller.v1beta1/suggestion/c08demo|./pkg/controller.v1beta1/suggestion/c08demo/|"
DEMO[C09]="pkg/controller.v1beta1/suggestion/c09demo|./pkg/controller.v1beta1/suggestion/c09demo/|"
DEMO[C10]="pkg/controller.v1beta1/suggestion/suggestionclient|./pkg/controller.v1beta1/suggestion/suggestionclient/|-run TestSeedC10"
DEMO[C11]="pkg/controller.v1beta1/trial/c11demo|./pkg/controller.v1beta1/trial/c11demo/|"
DEMO[C12]="pkg/webhook/v1beta1/pod|./pkg/webhook/v1beta1/pod/|-run TestSeedC12"
DEMO[C13]="pkg/metricscollector/v1beta1/file-metricscollector|./pkg/metricscollector/v1beta1/file-metricscollector/|"
DEMO[C14]="pkg/webhook/v1beta1/experiment/validator|./pkg/webhook/v1beta1/experiment/validator/|-run TestC14"
DEMO[C15]="pkg/webhook/v1beta1/experiment/validator|./pkg/webhook/v1beta1/experiment/validator/|-run TestC15"
DEMO[C16]="pkg/controller.v1beta1/c16demo|./pkg/controller.v1beta1/c16demo/|"
DEMO[C17]="pkg/controller.v1beta1/suggestion/composer/c17demo|./pkg/controller.v1beta1/suggestion/composer/c17demo/|"
DEMO[C18]="pkg/suggestion/v1beta1/goptuna|./pkg/suggestion/v1beta1/goptuna/|-run TestC18"
DEMO[C19]="pkg/db/v1beta1/postgres|./pkg/db/v1beta1/postgres/|"
DEMO[C20]="pkg/ui/v1beta1|./pkg/ui/v1beta1/|-run TestC20"

DEMO[C01b]="F:budget_lagging_cache_test.go=pkg/controller.v1beta1/seeddemo_c01b|./pkg/controller.v1beta1/seeddemo_c01b/|"
DEMO[C02b]="F:trial_labels_demo_test.go=pkg/controller.v1beta1/experiment/seeddemo|./pkg/controller.v1beta1/experiment/seeddemo/|"
DEMO[C03b]="F:status_util_goal_order_test.go=pkg/controller.v1beta1/experiment/util|./pkg/controller.v1beta1/experiment/util/|"
DEMO[C04b]="F:quiescence_earlystopping_test.go=pkg/controller.v1beta1/experiment/c04bdemo,status_util_earlystopped_test.go=pkg/controller.v1beta1/experiment/util|./pkg/controller.v1beta1/experiment/c04bdemo/ ./pkg/controller.v1beta1/experiment/util/|"
DEMO[C05b]="F:status_util_optimal_demo_test.go=pkg/controller.v1beta1/experiment/util|./pkg/controller.v1beta1/experiment/util/|-run TestOptimalTrialFollowsRefreshedObservation"
DEMO[C06b]="F:c06b_demo_test.go=pkg/controller.v1beta1/trial/c06bdemo|./pkg/controller.v1beta1/trial/c06bdemo/|"
DEMO[C07b]="F:c07b_demo_test.go=pkg/controller.v1beta1/trial/c07bdemo|./pkg/controller.v1beta1/trial/c07bdemo/|"
DEMO[C08b]="F:stale_read_test.go=pkg/controller.v1beta1/suggestion/c08bdemo|./pkg/controller.v1beta1/suggestion/c08bdemo/|"
DEMO[C09b]="F:labels_c09b_test.go=pkg/controller.v1beta1/util,c09b_e2e_test.go=pkg/controller.v1beta1/c09bdemo|./pkg/controller.v1beta1/util/ ./pkg/controller.v1beta1/c09bdemo/|"
DEMO[C10b]="F:c10b_settings_roundtrip_test.go=pkg/controller.v1beta1/suggestion/suggestionclient|./pkg/controller.v1beta1/suggestion/suggestionclient/|-run TestC10b"
DEMO[C11b]="F:getmetrics_demo_test.go=pkg/controller.v1beta1/trial/c11bdemo|./pkg/controller.v1beta1/trial/c11bdemo/|"
DEMO[C12b]="F:mutate_multipod_demo_test.go=pkg/webhook/v1beta1/pod|./pkg/webhook/v1beta1/pod/|-run TestDemoNonPrimaryPodsOnlyGetTrialLabels"
DEMO[C13b]="F:keyword_prefilter_demo_test.go=pkg/metricscollector/v1beta1/file-metricscollector|./pkg/metricscollector/v1beta1/file-metricscollector/|"
DEMO[C14b]="F:admission_soundness_demo_test.go=pkg/webhook/v1beta1/experiment/validator|./pkg/webhook/v1beta1/experiment/validator/|-run TestDemo"
DEMO[C15b]="F:resume_policy_update_demo_test.go=pkg/webhook/v1beta1/experiment/validator|./pkg/webhook/v1beta1/experiment/validator/|-run TestDemo"
DEMO[C16b]="TREE|./pkg/controller.v1beta1/c16bdemo/ ./pkg/apis/controller/experiments/v1beta1/|-run C16b|Restart"
DEMO[C17b]="F:pvc_owner_test.go=pkg/controller.v1beta1/suggestion/composer/c17bdemo|./pkg/controller.v1beta1/suggestion/composer/c17bdemo/|"
DEMO[C18b]="F:history_roundtrip_demo_test.go=pkg/suggestion/v1beta1/goptuna|./pkg/suggestion/v1beta1/goptuna/|-run TestGoSuggestionSurvivesItsOwnHistory"
DEMO[C19b]="F:seed_c19b_demo_test.go=pkg/db/v1beta1/postgres|./pkg/db/v1beta1/postgres/|-run SeedC19b"
DEMO[C20b]="TREE|./pkg/ui/v1beta1/|-run TestTrialInfoIsBoundToAuthorizedNamespace"

DEMO[C01c]="TREE|./pkg/controller.v1beta1/experiment/c01cdemo/|"
DEMO[C02c]="F:generator_configmap_scalar_demo_test.go=pkg/controller.v1beta1/experiment/manifest|./pkg/controller.v1beta1/experiment/manifest/|-run TestDemo"
DEMO[C03c]="F:c03c_demo_test.go=pkg/controller.v1beta1/experiment|./pkg/controller.v1beta1/experiment/|-overlay @S@/demo/overlay.json -run TestC03c"
DEMO[C04c]="F:restart_quiescence_test.go=pkg/controller.v1beta1/experiment/c04cdemo|./pkg/controller.v1beta1/experiment/c04cdemo/|"
DEMO[C05c]="F:status_util_c05c_demo_test.go=pkg/controller.v1beta1/experiment/util|./pkg/controller.v1beta1/experiment/util/|-run TestC05c"
DEMO[C06c]="F:reconcile_c06c_demo_test.go=pkg/controller.v1beta1/trial/c06cdemo,job_util_c06c_demo_test.go=pkg/controller.v1beta1/trial/util|./pkg/controller.v1beta1/trial/c06cdemo/ ./pkg/controller.v1beta1/trial/util/|"
DEMO[C07c]="F:finalizer_demo_test.go=pkg/controller.v1beta1/trial/c07cdemo|./pkg/controller.v1beta1/trial/c07cdemo/|"
DEMO[C08c]="F:seed_c08c_demo_test.go=pkg/controller.v1beta1/suggestion/suggestionclient|./pkg/controller.v1beta1/suggestion/suggestionclient/|-run TestSeedC08c"
DEMO[C09c]="F:restart_trials_test.go=pkg/controller.v1beta1/suggestion/c09cdemo|./pkg/controller.v1beta1/suggestion/c09cdemo/|"
DEMO[C10c]="F:seed_c10c_demo_test.go=pkg/controller.v1beta1/suggestion/suggestionclient|./pkg/controller.v1beta1/suggestion/suggestionclient/|-run SeedC10c"
DEMO[C11c]="F:c11c_demo_test.go=pkg/controller.v1beta1/trial/c11cdemo|./pkg/controller.v1beta1/trial/c11cdemo/|"
DEMO[C12c]="F:push_collector_pod_without_primary_container_test.go=pkg/webhook/v1beta1/pod|./pkg/webhook/v1beta1/pod/|-run TestSeedC12c"
DEMO[C13c]="F:seed_c13c_demo_test.go=pkg/metricscollector/v1beta1/file-metricscollector|./pkg/metricscollector/v1beta1/file-metricscollector/|"
DEMO[C14c]="F:admission_soundness_demo_test.go=pkg/webhook/v1beta1/experiment/validator|./pkg/webhook/v1beta1/experiment/validator/|-run TestAdmittedExperiment"
DEMO[C15c]="F:seed_c15c_demo_test.go=pkg/webhook/v1beta1/experiment/validator|./pkg/webhook/v1beta1/experiment/validator/|-run TestSeedC15c"
DEMO[C16c]="F:cleanup_fault_test.go=pkg/controller.v1beta1/suggestion/c16cdemo|./pkg/controller.v1beta1/suggestion/c16cdemo/|"
DEMO[C17c]="F:c17c_demo_test.go=pkg/controller.v1beta1/suggestion/composer/c17cdemo|./pkg/controller.v1beta1/suggestion/composer/c17cdemo/|"
DEMO[C18c]="F:seed_c18c_stepped_double_test.go=pkg/suggestion/v1beta1/goptuna|./pkg/suggestion/v1beta1/goptuna/|-run TestSeedC18c"
DEMO[C19c]="F:utc_offset_demo_test.go=pkg/db/v1beta1/mysql|./pkg/db/v1beta1/mysql/|-run Demo"
DEMO[C20c]="F:authzn_userprefix_test.go=pkg/ui/v1beta1|./pkg/ui/v1beta1/|"

DEMO[C01d]="F:budget_demo_test.go=pkg/controller.v1beta1/experiment/c01ddemo,status_summary_demo_test.go=pkg/controller.v1beta1/experiment/util|./pkg/controller.v1beta1/experiment/c01ddemo/ ./pkg/controller.v1beta1/experiment/util/|"
DEMO[C02d]="F:seed_c02d_demo_test.go=pkg/controller.v1beta1/experiment/manifest|./pkg/controller.v1beta1/experiment/manifest/|-run TestSeedC02dPlaceholderNamesWithPunctuation"
DEMO[C03d]="F:c03d_demo_test.go=pkg/controller.v1beta1/experiment/seeddemo|./pkg/controller.v1beta1/experiment/seeddemo/|"
DEMO[C04d]="F:restart_fault_test.go=pkg/controller.v1beta1/experiment/c04ddemo|./pkg/controller.v1beta1/experiment/c04ddemo/|"
DEMO[C05d]="F:status_util_terminating_trial_test.go=pkg/controller.v1beta1/experiment/util|./pkg/controller.v1beta1/experiment/util/|-run TestTrialsSummaryCoversTerminatingTrial"
DEMO[C06d]="F:c06d_demo_test.go=pkg/controller.v1beta1/trial/c06ddemo|./pkg/controller.v1beta1/trial/c06ddemo/|"
DEMO[C07d]="F:c07d_demo_test.go=pkg/controller.v1beta1/trial/verifdemo|./pkg/controller.v1beta1/trial/verifdemo/|"
DEMO[C08d]="F:c08d_demo_test.go=pkg/controller.v1beta1/suggestion/suggestionclient|./pkg/controller.v1beta1/suggestion/suggestionclient/|-run TestC08dAssignmentNamesStayUnique"
DEMO[C09d]="F:c09d_demo_test.go=pkg/controller.v1beta1/suggestion/suggestionclient|./pkg/controller.v1beta1/suggestion/suggestionclient/|-run TestC09d"
DEMO[C10d]="F:seed_c10d_demo_test.go=pkg/controller.v1beta1/suggestion/suggestionclient|./pkg/controller.v1beta1/suggestion/suggestionclient/|-run TestSeedC10d"
DEMO[C11d]="F:c11d_demo_test.go=pkg/controller.v1beta1/trial/managerclient|./pkg/controller.v1beta1/trial/managerclient/|-run TestObservation"
DEMO[C12d]="F:seed_c12d_demo_test.go=pkg/webhook/v1beta1/pod|./pkg/webhook/v1beta1/pod/|-run TestSeedC12d"
DEMO[C13d]="F:long_line_demo_test.go=pkg/metricscollector/v1beta1/file-metricscollector|./pkg/metricscollector/v1beta1/file-metricscollector/|-run TestDemo"
DEMO[C14d]="F:c14d_budget_demo_test.go=pkg/webhook/v1beta1/experiment/validator|./pkg/webhook/v1beta1/experiment/validator/|-run TestC14d"
DEMO[C15d]="F:c15d_demo_test.go=pkg/webhook/v1beta1/experiment/validator|./pkg/webhook/v1beta1/experiment/validator/|-run TestC15d"
DEMO[C16d]="F:restart_demo_test.go=pkg/controller.v1beta1/experiment/c16ddemo|./pkg/controller.v1beta1/experiment/c16ddemo/|"
DEMO[C17d]="F:c17d_demo_test.go=pkg/controller.v1beta1/suggestion/composer/c17ddemo|./pkg/controller.v1beta1/suggestion/composer/c17ddemo/|"
DEMO[C18d]="F:late_success_demo_test.go=pkg/suggestion/v1beta1/goptuna|./pkg/suggestion/v1beta1/goptuna/|-run TestDemoLateSuccessAfterFailure"
DEMO[C19d]="F:c19d_demo_test.go=cmd/db-manager/v1beta1,c19d_demo_backends_test.go=cmd/db-manager/v1beta1|./cmd/db-manager/v1beta1/|-run TestC19dDemo"
DEMO[C20d]="F:c20d_demo_test.go=pkg/ui/v1beta1|./pkg/ui/v1beta1/|-run TestC20dDemo"

DEMO[C01e]="F:c01e_demo_test.go=pkg/controller.v1beta1/suggestion/suggestionclient,c01e_e2e_demo_test.go=pkg/controller.v1beta1/suggestion/suggestionclient|./pkg/controller.v1beta1/suggestion/suggestionclient/|-run TestC01e"
DEMO[C02e]="F:seed_c02e_demo_test.go=pkg/controller.v1beta1/experiment/manifest|./pkg/controller.v1beta1/experiment/manifest/|-run TestSeedC02e"
DEMO[C03e]="F:restart_twice_demo_test.go=pkg/apis/controller/experiments/v1beta1,e2e/restart_twice_reconcile_test.go=pkg/controller.v1beta1/experiment/restartdemo|./pkg/apis/controller/experiments/v1beta1/ ./pkg/controller.v1beta1/experiment/restartdemo/|"
DEMO[C04e]="F:wedge_demo_test.go=pkg/controller.v1beta1/experiment/wedgedemo|./pkg/controller.v1beta1/experiment/wedgedemo/|"
DEMO[C05e]="F:status_util_c05e_demo_test.go=pkg/controller.v1beta1/experiment/util|./pkg/controller.v1beta1/experiment/util/|-run TestC05e"
DEMO[C06e]="F:c06e_e2e_test.go=pkg/controller.v1beta1/trial/c06edemo,c06e_managerclient_test.go=pkg/controller.v1beta1/trial/managerclient|./pkg/controller.v1beta1/trial/c06edemo/ ./pkg/controller.v1beta1/trial/managerclient/|-run TestC06eObjectiveQueryFault"
DEMO[C07e]="F:c07e_demo_test.go=pkg/controller.v1beta1/trial/c07edemo|./pkg/controller.v1beta1/trial/c07edemo/|"
DEMO[C08e]="F:c08e_demo_test.go=pkg/controller.v1beta1/suggestion/suggestionclient|./pkg/controller.v1beta1/suggestion/suggestionclient/|-run TestC08eStoredAssignmentsAreNotRewritten"
DEMO[C09e]="F:c09e_demo_test.go=pkg/controller.v1beta1/suggestion/suggestionclient|./pkg/controller.v1beta1/suggestion/suggestionclient/|-run TestC09eSameNameOtherNamespace"
DEMO[C10e]="F:c10e_demo_test.go=pkg/controller.v1beta1/suggestion/suggestionclient|./pkg/controller.v1beta1/suggestion/suggestionclient/|-run TestC10e"
DEMO[C11e]="F:managerclient_fault_demo_test.go=pkg/controller.v1beta1/trial/managerclient|./pkg/controller.v1beta1/trial/managerclient/|-run TestGetTrialObservationLogCompleteOrError"
DEMO[C12e]="F:owner_chain_demo_test.go=pkg/webhook/v1beta1/pod|./pkg/webhook/v1beta1/pod/|-run TestDemoOwnerChain"
DEMO[C13e]="F:seed_c13e_demo_test.go=pkg/metricscollector/v1beta1/file-metricscollector|./pkg/metricscollector/v1beta1/file-metricscollector/|-run TestSeedC13eSeveralFilters"
DEMO[C14e]="F:c14e_admission_soundness_test.go=pkg/webhook/v1beta1/experiment/validator|./pkg/webhook/v1beta1/experiment/validator/|-run TestC14eAdmittedNasExperimentInstantiates"
DEMO[C15e]="F:validator_c15e_demo_test.go=pkg/webhook/v1beta1/experiment/validator|./pkg/webhook/v1beta1/experiment/validator/|-run TestC15e"
DEMO[C16e]="F:c16e_restartable_demo_test.go=pkg/controller.v1beta1/experiment/util,c16edemo/c16e_scenario_test.go=pkg/controller.v1beta1/experiment/c16edemo|./pkg/controller.v1beta1/experiment/util/ ./pkg/controller.v1beta1/experiment/c16edemo/|-run TestC16e"
DEMO[C17e]="F:c17e_demo_test.go=pkg/controller.v1beta1/suggestion/composer/c17edemo|./pkg/controller.v1beta1/suggestion/composer/c17edemo/|"
DEMO[C18e]="F:seed_c18e_demo_test.go=pkg/suggestion/v1beta1/goptuna|./pkg/suggestion/v1beta1/goptuna/|-run TestSeedC18e"
DEMO[C19e]="F:zero_time_demo_test.go=pkg/db/v1beta1/mysql|./pkg/db/v1beta1/mysql/|-run TestDemoZeroTimeEntriesAreStored"
DEMO[C20e]="F:authzn_sequence_test.go=pkg/ui/v1beta1|./pkg/ui/v1beta1/|-run TestC20e"

DEMO[C01f]="F:namesake_budget_test.go=pkg/controller.v1beta1/experiment/c01fdemo|./pkg/controller.v1beta1/experiment/c01fdemo/|"
DEMO[C02f]="F:generator_c02f_demo_test.go=pkg/controller.v1beta1/experiment/manifest|./pkg/controller.v1beta1/experiment/manifest/|-run TestC02fDemo"
DEMO[C03f]="F:status_util_earlystopped_demo_test.go=pkg/controller.v1beta1/experiment/util|./pkg/controller.v1beta1/experiment/util/|-run TestEarlyStoppedTrialCountsAsFinished"
DEMO[C04f]="F:c04f_demo_test.go=pkg/controller.v1beta1/trial/c04fdemo|./pkg/controller.v1beta1/trial/c04fdemo/|"
DEMO[C05f]="F:status_util_c05f_demo_test.go=pkg/controller.v1beta1/experiment/util|./pkg/controller.v1beta1/experiment/util/|-run TestC05f"
DEMO[C06f]="TREE|./pkg/controller.v1beta1/trial/c06fdemo/|"
DEMO[C07f]="F:c07f_demo_test.go=pkg/controller.v1beta1/trial|pkg/controller.v1beta1/trial/trial_controller.go pkg/controller.v1beta1/trial/trial_controller_status.go pkg/controller.v1beta1/trial/trial_controller_util.go pkg/controller.v1beta1/trial/c07f_demo_test.go|-run TestC07fObservationLogsRemovedBeforeFinalizerReleased"
DEMO[C08f]="F:c08f_demo_test.go=pkg/controller.v1beta1/suggestion/suggestionclient,c08f_controller_demo_test.go=pkg/controller.v1beta1/suggestion/c08fdemo|./pkg/controller.v1beta1/suggestion/suggestionclient/ ./pkg/controller.v1beta1/suggestion/c08fdemo/|-run C08f"
DEMO[C09f]="F:c09f_demo_test.go=pkg/controller.v1beta1/suggestion/suggestionclient|./pkg/controller.v1beta1/suggestion/suggestionclient/|-run TestC09fRequestNumbers"
DEMO[C10f]="F:metric_strategy_demo_test.go=pkg/controller.v1beta1/suggestion/suggestionclient|./pkg/controller.v1beta1/suggestion/suggestionclient/|-run TestDemoMetricStrategyIndependentExtremes"
DEMO[C11f]="F:c11f_interleaving_demo_test.go=pkg/controller.v1beta1/trial/c11fdemo|./pkg/controller.v1beta1/trial/c11fdemo/|"
DEMO[C12f]="F:share_process_namespace_demo_test.go=pkg/webhook/v1beta1/pod|./pkg/webhook/v1beta1/pod/|-run TestDemoPrimaryPodAlwaysSharesProcessNamespace"
DEMO[C13f]="F:c13f_demo_test.go=pkg/metricscollector/v1beta1/file-metricscollector|./pkg/metricscollector/v1beta1/file-metricscollector/|-run TestC13fDemo"
DEMO[C14f]="F:restart_admission_soundness_test.go=pkg/webhook/v1beta1/experiment/validator|./pkg/webhook/v1beta1/experiment/validator/|-run TestRestartAdmissionSoundness"
DEMO[C15f]="F:stale_old_experiment_demo_test.go=pkg/webhook/v1beta1/experiment|./pkg/webhook/v1beta1/experiment/|-run TestDemo"
DEMO[C16f]="F:resume_policy_demo_test.go=pkg/controller.v1beta1/experiment/c16fdemo|./pkg/controller.v1beta1/experiment/c16fdemo/|"
DEMO[C17f]="F:rbac_fault_demo_test.go=pkg/controller.v1beta1/suggestion/seeddemo|./pkg/controller.v1beta1/suggestion/seeddemo/|"
DEMO[C18f]="F:logdist_demo_test.go=pkg/suggestion/v1beta1/goptuna|./pkg/suggestion/v1beta1/goptuna/|-run TestDemoC18f"
DEMO[C19f]="F:c19f_demo_test.go=pkg/db/v1beta1/mysql|./pkg/db/v1beta1/mysql/|-run TestC19f"
DEMO[C20f]="F:c20f_demo_test.go=pkg/ui/v1beta1|./pkg/ui/v1beta1/|-run TestC20f"

suite() { # per-test pass/fail set, timing removed
  go test -json -vet=off -count=1 -timeout 25m ./... 2>/dev/null | python3 -c '
import sys, json
res = {}
for l in sys.stdin:
    try: e = json.loads(l)
    except Exception: continue
    if e.get("Action") in ("pass", "fail") : res[(e.get("Package"), e.get("Test") or "")] = e["Action"]
for k in sorted(res): print(k[0], k[1], res[k])'
}
DEMO[C01g]="F:budget_labels_test.go=pkg/controller.v1beta1/experiment/c01gdemo,labels_precedence_test.go=pkg/controller.v1beta1/util|./pkg/controller.v1beta1/experiment/c01gdemo/ ./pkg/controller.v1beta1/util/|-run TestTrial"
DEMO[C02g]="F:seed_c02g_demo_test.go=pkg/controller.v1beta1/experiment/manifest|./pkg/controller.v1beta1/experiment/manifest/|-run TestSeedC02g"
DEMO[C03g]="F:verdict_stability_reconcile_test.go=pkg/controller.v1beta1/experiment/verdictdemo,restartable_demo_test.go=pkg/controller.v1beta1/experiment/util|./pkg/controller.v1beta1/experiment/verdictdemo/ ./pkg/controller.v1beta1/experiment/util/|-run Verdict"
DEMO[C04g]="F:quiescence_label_demo_test.go=pkg/controller.v1beta1/experiment/seedc04g|./pkg/controller.v1beta1/experiment/seedc04g/|"
DEMO[C05g]="F:status_util_c05g_demo_test.go=pkg/controller.v1beta1/experiment/util|./pkg/controller.v1beta1/experiment/util/|-run TestC05g"
DEMO[C06g]="F:job_util_c06g_demo_test.go=pkg/controller.v1beta1/trial/util,trial_c06g_demo_test.go=pkg/controller.v1beta1/trial/c06gdemo|./pkg/controller.v1beta1/trial/util/ ./pkg/controller.v1beta1/trial/c06gdemo/|-run TestC06g"
DEMO[C07g]="F:c07g_demo_test.go=pkg/controller.v1beta1/trial/c07gdemo|./pkg/controller.v1beta1/trial/c07gdemo/|"
DEMO[C08g]="F:seed_c08g_demo_test.go=pkg/controller.v1beta1/suggestion/suggestionclient|./pkg/controller.v1beta1/suggestion/suggestionclient/|-run TestSeedC08g"
DEMO[C09g]="F:c09g_demo_test.go=pkg/controller.v1beta1/suggestion/suggestionclient|./pkg/controller.v1beta1/suggestion/suggestionclient/|-run TestC09g"
DEMO[C10g]="F:recreated_experiment_demo_test.go=pkg/controller.v1beta1/suggestion/suggestionclient|./pkg/controller.v1beta1/suggestion/suggestionclient/|-run TestDemoRecreatedExperimentSearchSpace"
DEMO[C11g]="F:c11g_demo_test.go=pkg/controller.v1beta1/trial|./pkg/controller.v1beta1/trial/trial_controller.go ./pkg/controller.v1beta1/trial/trial_controller_status.go ./pkg/controller.v1beta1/trial/trial_controller_util.go ./pkg/controller.v1beta1/trial/c11g_demo_test.go|-run TestC11g"
DEMO[C12g]="F:seed_c12g_demo_test.go=pkg/webhook/v1beta1/pod|./pkg/webhook/v1beta1/pod/|-run TestSeedC12g"
DEMO[C13g]="F:seed_c13g_demo_test.go=pkg/metricscollector/v1beta1/file-metricscollector|./pkg/metricscollector/v1beta1/file-metricscollector/|-run TestSeedC13g"
DEMO[C14g]="F:admission_update_demo_test.go=pkg/webhook/v1beta1/experiment|./pkg/webhook/v1beta1/experiment/|-run TestAdmittedUpdateIsRunnable"
DEMO[C15g]="F:c15g_nasconfig_update_demo_test.go=pkg/webhook/v1beta1/experiment/validator|./pkg/webhook/v1beta1/experiment/validator/|-run TestC15gNasConfigIsImmutableOnUpdate"
DEMO[C16g]="F:c16g_demo_test.go=pkg/controller.v1beta1/experiment|./pkg/controller.v1beta1/experiment/experiment_controller.go ./pkg/controller.v1beta1/experiment/experiment_controller_status.go ./pkg/controller.v1beta1/experiment/experiment_controller_util.go ./pkg/controller.v1beta1/experiment/c16g_demo_test.go|-run TestC16gCleanupAfterRestart"
DEMO[C17g]="F:c17g_demo_test.go=pkg/controller.v1beta1/suggestion/composer/c17gdemo|./pkg/controller.v1beta1/suggestion/composer/c17gdemo/|"
DEMO[C18g]="F:earlystopped_history_demo_test.go=pkg/suggestion/v1beta1/goptuna|./pkg/suggestion/v1beta1/goptuna/|-run TestDemoC18g"
DEMO[C19g]="F:seed_c19g_demo_test.go=pkg/db/v1beta1/postgres|./pkg/db/v1beta1/postgres/|-run TestSeedC19g"
DEMO[C20g]="F:c20g_templates_authz_demo_test.go=pkg/ui/v1beta1|./pkg/ui/v1beta1/|-run TestC20g"

DEMO[C01h]="F:c01h_demo_test.go=pkg/controller.v1beta1/experiment|./pkg/controller.v1beta1/experiment/experiment_controller.go ./pkg/controller.v1beta1/experiment/experiment_controller_status.go ./pkg/controller.v1beta1/experiment/experiment_controller_util.go ./pkg/controller.v1beta1/experiment/c01h_demo_test.go|-run TestC01hNoTrialAfterSecondVerdict"
DEMO[C02h]="F:seed_c02h_demo_test.go=pkg/controller.v1beta1/experiment/manifest|./pkg/controller.v1beta1/experiment/manifest/|-run TestSeedC02h"
DEMO[C03h]="F:c03h_demo_test.go=pkg/controller.v1beta1/experiment/c03hdemo|./pkg/controller.v1beta1/experiment/c03hdemo/|"
DEMO[C04h]="F:restart_rejected_test.go=pkg/controller.v1beta1/experiment/c04hdemo|./pkg/controller.v1beta1/experiment/c04hdemo/|"
DEMO[C05h]="F:c05h_demo_test.go=pkg/controller.v1beta1/experiment/util|./pkg/controller.v1beta1/experiment/util/|-run TestC05h"
DEMO[C06h]="F:earlystopped_retained_test.go=pkg/controller.v1beta1/trial/c06hdemo|./pkg/controller.v1beta1/trial/c06hdemo/|"
DEMO[C07h]="F:finalizer_demo_test.go=pkg/controller.v1beta1/trial/c07hdemo|./pkg/controller.v1beta1/trial/c07hdemo/|"
DEMO[C08h]="F:c08h_demo_test.go=pkg/controller.v1beta1/suggestion/suggestionclient,c08h_controller_demo_test.go=pkg/controller.v1beta1/suggestion/c08hdemo|./pkg/controller.v1beta1/suggestion/suggestionclient/ ./pkg/controller.v1beta1/suggestion/c08hdemo/|-run C08h"
DEMO[C09h]="F:c09h_demo_test.go=pkg/controller.v1beta1/suggestion/suggestionclient|./pkg/controller.v1beta1/suggestion/suggestionclient/|-run TestC09h"
DEMO[C10h]="F:c10h_last_condition_demo_test.go=pkg/controller.v1beta1/suggestion/suggestionclient|./pkg/controller.v1beta1/suggestion/suggestionclient/|-run TestC10hLastConditionIsSentWhateverTheTimestamps"
DEMO[C11h]="F:c11h_demo_test.go=pkg/controller.v1beta1/trial/c11hdemo|./pkg/controller.v1beta1/trial/c11hdemo/|"
DEMO[C12h]="F:inject_webhook_katibconfig_change_test.go=pkg/webhook/v1beta1/pod|./pkg/webhook/v1beta1/pod/|-run TestMutateFollowsKatibConfigChange"
DEMO[C13h]="F:c13h_demo_test.go=pkg/metricscollector/v1beta1/file-metricscollector|./pkg/metricscollector/v1beta1/file-metricscollector/|-run TestC13hEmptyValueOccurrencesAreReported"
DEMO[C14h]="F:admission_soundness_demo_test.go=pkg/webhook/v1beta1/experiment/validator|./pkg/webhook/v1beta1/experiment/validator/|-run TestAdmittedExperimentWithLabelReferenceCanBuildTrials"
DEMO[C15h]="F:c15h_demo_test.go=pkg/webhook/v1beta1/experiment/validator|./pkg/webhook/v1beta1/experiment/validator/|-run TestC15h"
DEMO[C16h]="F:restart_cache_lag_test.go=pkg/controller.v1beta1/experiment/c16hdemo|./pkg/controller.v1beta1/experiment/c16hdemo/|"
DEMO[C17h]="F:c17h_dial_demo_test.go=pkg/controller.v1beta1/suggestion/suggestionclient|./pkg/controller.v1beta1/suggestion/suggestionclient/|-run TestC17hDialledAddressIsTheSuggestionsOwnService"
DEMO[C18h]="F:c18h_demo_test.go=pkg/suggestion/v1beta1/goptuna|./pkg/suggestion/v1beta1/goptuna/|-run TestC18hAcceptedSearchSpacesAreServed"
DEMO[C19h]="TREE19|./pkg/db/v1beta1/mysql/ ./pkg/db/v1beta1/postgres/|-run TestC19h"
DEMO[C20h]="F:c20h_demo_test.go=pkg/ui/v1beta1|./pkg/ui/v1beta1/|-run TestC20h"

place() { # copy demo files of seed $1 into the worktree
  local ID=$1 S=/tmp/seed/$1 spec=${DEMO[$1]}; local dest=${spec%%|*}
  case $dest in
    TREE) cp -r $S/demo/pkg . ;;
    TREE19) cp $S/demo/mysql/c19h_demo_test.go pkg/db/v1beta1/mysql/; cp $S/demo/postgres/c19h_demo_test.go pkg/db/v1beta1/postgres/ ;;
    F:*) IFS=',' read -ra PAIRS <<< "${dest#F:}"; for pr in "${PAIRS[@]}"; do f=${pr%%=*}; d=${pr#*=}; mkdir -p $d; cp $S/demo/$f $d/; done ;;
    SPECIAL) mkdir -p pkg/controller.v1beta1/experiment/c03demo; cp $S/demo/c03_reconcile_demo_test.go pkg/controller.v1beta1/experiment/c03demo/; cp $S/demo/c03_status_util_demo_test.go pkg/controller.v1beta1/experiment/util/ ;;
    *) mkdir -p $dest; cp $S/demo/*.go $dest/ ;;
  esac
}
one() {
  local ID=$1 W=/tmp/wt/$1 S=/tmp/seed/$1; local spec=${DEMO[$1]}; local rest=${spec#*|}; local pkgs=${rest%%|*}; local flags=${rest#*|}; flags=${flags%%|*}
  [ -d $S ] || S=/verif/seeded/$ID
  flags=${flags//@S@/$S}
  [ -d $W ] || git -C /repo worktree add -q --detach $W $HEAD
  cd $W || return 2
  git checkout -q --detach $HEAD 2>/dev/null; git checkout -q -- . ; git clean -fdq
  {
    echo "seed $ID at $HEAD"
    git apply --check $S/patch.diff || { echo "RESULT: PATCH DOES NOT APPLY"; return 1; }
    git apply $S/patch.diff
    if go build ./... && go build -tags verif ./... ; then echo "build: ok"; else echo "RESULT: BUILD FAILS"; git checkout -q -- .; return 1; fi
    suite > $S/suite_changed.txt
    if diff -q /tmp/seed/suite_clean.txt $S/suite_changed.txt >/dev/null; then echo "suite: same per-test pass/fail set as the clean tree ($(wc -l < $S/suite_changed.txt) results)"; SUITE=ok; else echo "suite: DIFFERS"; diff /tmp/seed/suite_clean.txt $S/suite_changed.txt | head -10; SUITE=bad; fi
    place $ID
    echo "-- demo WITH the change: go test -tags verif -vet=off -count=1 $flags $pkgs"
    go test -tags verif -vet=off -count=1 $flags $pkgs > $S/demo_with.txt 2>&1; WITH=$?
    grep -E "^(--- FAIL|FAIL|ok|panic)" $S/demo_with.txt | head -8
    git apply -R $S/patch.diff
    echo "-- demo WITHOUT the change"
    go test -tags verif -vet=off -count=1 $flags $pkgs > $S/demo_without.txt 2>&1; WITHOUT=$?
    grep -E "^(--- FAIL|FAIL|ok|panic)" $S/demo_without.txt | head -8
    if [ $SUITE = ok ] && [ $WITH -ne 0 ] && [ $WITHOUT -eq 0 ]; then echo "RESULT: CONFIRMED"; else echo "RESULT: NOT CONFIRMED (suite=$SUITE with=$WITH without=$WITHOUT)"; fi
    git checkout -q -- . ; git clean -fdq
  } > $S/confirm.txt 2>&1
  tail -1 $S/confirm.txt | sed "s/^/$ID /"
}
if [ ! -s /tmp/seed/suite_clean.txt ] || [ "$(cat /tmp/seed/suite_clean.head 2>/dev/null)" != "$HEAD" ]; then
  [ -d /tmp/wt/C01 ] || git -C /repo worktree add -q --detach /tmp/wt/C01 $HEAD
  mkdir -p /tmp/seed
  (cd /tmp/wt/C01 && git checkout -q --detach $HEAD && git checkout -q -- . && git clean -fdq && suite > /tmp/seed/suite_clean.txt && echo $HEAD > /tmp/seed/suite_clean.head)
  echo "baseline: $(wc -l < /tmp/seed/suite_clean.txt) results, $(grep -c ' fail$' /tmp/seed/suite_clean.txt) failing"
fi
IDS=${@:-C01 C02 C03 C04 C05 C06 C07 C08 C09 C10 C11 C12 C13 C14 C15 C16 C17 C18 C19 C20}
N=0
for ID in $IDS; do
  one $ID &
  N=$((N+1)); if [ $((N % 4)) -eq 0 ]; then wait; fi
done
wait
for ID in $IDS C01; do [ -d /tmp/wt/$ID ] && git -C /repo worktree remove --force /tmp/wt/$ID; done; git -C /repo worktree prune
