import sys
d=sys.argv[1]
a=open(d+'/impl.out').read().split('\n'); b=open(d+'/model.out').read().split('\n'); o=open(d+'/ops.txt').read().split('\n'); idx=open(d+'/idx.txt').read().split('\n')
n=0; seen=set()
for i,(x,y) in enumerate(zip(a,b)):
    if ' '.join(x.split())!=' '.join(y.split()):
        n+=1
        if idx[i] in seen: continue
        seen.add(idx[i])
        if len(seen)<=int(sys.argv[2]) if len(sys.argv)>2 else 3:
            print('CASE',idx[i],'line',i); print('OP  ',o[i]); 
            xs=x.split(' | '); ys=y.split(' | ')
            print('IMPL',xs[0]); print('MODL',ys[0])
            xi=xs[1].split(' ; ') if len(xs)>1 else []; yi=ys[1].split(' ; ') if len(ys)>1 else []
            for l in xi:
                if l not in yi: print('  impl only:',l)
            for l in yi:
                if l not in xi: print('  modl only:',l)
print('lines',len(a),'diff lines',n,'cases with diff',len(seen))
