#!/bin/sh
# seedtest.sh <seed-dir> <prop>... : apply a seeded change to /repo, run the checks, undo it straight afterwards
D=$1; shift
cd /verif
git -C /repo apply "$D/patch.diff" || exit 2
for p in "$@"; do ./check $p; echo "exit=$?"; done
git -C /repo checkout -- .
git -C /repo status --short | head
