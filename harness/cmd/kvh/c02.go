package main

import (
	"os"
	"fmt"
	"math/rand"
	"reflect"
	"sort"
	"strings"

	"github.com/prometheus/client_golang/prometheus"
	corev1 "k8s.io/api/core/v1"
	metav1 "k8s.io/apimachinery/pkg/apis/meta/v1"
	"k8s.io/apimachinery/pkg/apis/meta/v1/unstructured"
	"k8s.io/apimachinery/pkg/runtime"
	"k8s.io/client-go/tools/record"
	"sigs.k8s.io/controller-runtime/pkg/client/fake"
	"sigs.k8s.io/yaml"

	commonv1beta1 "github.com/kubeflow/katib/pkg/apis/controller/common/v1beta1"
	experimentsv1beta1 "github.com/kubeflow/katib/pkg/apis/controller/experiments/v1beta1"
	suggestionsv1beta1 "github.com/kubeflow/katib/pkg/apis/controller/suggestions/v1beta1"
	expctl "github.com/kubeflow/katib/pkg/controller.v1beta1/experiment"
	"github.com/kubeflow/katib/pkg/controller.v1beta1/experiment/manifest"
	exputil "github.com/kubeflow/katib/pkg/controller.v1beta1/experiment/util"
	kutil "github.com/kubeflow/katib/pkg/controller.v1beta1/util"
)

var c02Lits = []string{"python", "--lr=", " ", "$HOME/x", "a<b&c>d", "{}", "$", "${", "}", "x.y", "é", "\\n", "50%", "${trialParameters", "trialParameters.lr}"}
// parameter names are free-form strings (the webhook only refuses empty names and braces)
var c02Names = []string{"lr", "n", "opt", "name", "ns", "kind", "lbl", "learning-rate", "optimizer.momentum", "trial/name", "tier~label", "β1", "a+b"}
var c02Vals = []string{"0.01", "adam", "3", "a-b_c", "1e-5", "", "x.y", "-0.5"}

func c02Str(rng *rand.Rand, declared []string) string {
	var b strings.Builder
	for i := rng.Intn(4); i > 0; i-- {
		if rng.Intn(2) == 0 && len(declared) > 0 {
			b.WriteString("${trialParameters." + pick(rng, declared) + "}")
		} else {
			b.WriteString(pick(rng, c02Lits))
		}
	}
	return b.String()
}

func c02Tree(rng *rand.Rand, depth int, declared []string) interface{} {
	switch r := rng.Intn(6); {
	case depth <= 0 || r <= 1:
		return c02Str(rng, declared)
	case r == 2:
		return int64(rng.Intn(100))
	case r == 3:
		a := []interface{}{}
		for i := rng.Intn(3); i > 0; i-- {
			a = append(a, c02Tree(rng, depth-1, declared))
		}
		return a
	default:
		m := map[string]interface{}{}
		for i := rng.Intn(3); i > 0; i-- {
			m[fmt.Sprintf("k%d", rng.Intn(5))] = c02Tree(rng, depth-1, declared)
		}
		return m
	}
}

func c02Subst(v interface{}, sigma map[string]string) interface{} {
	switch x := v.(type) {
	case string:
		for n, val := range sigma {
			x = strings.ReplaceAll(x, "${trialParameters."+n+"}", val)
		}
		return x
	case []interface{}:
		out := []interface{}{}
		for _, e := range x {
			out = append(out, c02Subst(e, sigma))
		}
		return out
	case map[string]interface{}:
		out := map[string]interface{}{}
		for k, e := range x {
			out[k] = c02Subst(e, sigma)
		}
		return out
	}
	return v
}

func pairsTok(m map[string]string) string {
	keys := []string{}
	for k := range m {
		keys = append(keys, k)
	}
	sort.Strings(keys)
	ps := [][2]string{}
	for _, k := range keys {
		ps = append(ps, [2]string{k, m[k]})
	}
	return hxPairs(ps)
}

func init() {
	runners["C02"] = func(rng *rand.Rand, tier string, k int) Case {
		getValidator()
		tags := []string{}
		mode := rng.Intn(10)
		var op, impl string
		if mode <= 6 {
			// ---- run spec from a template (inline or ConfigMap)
			fromCM := mode >= 5
			yamlSrc := fromCM && rng.Intn(2) == 0
			// Trial names are <experiment>-<8 characters>: with a 55-63 character Experiment name they exceed the 63 characters
			// of a DNS label; the run object is still named exactly like its Trial
			trialName := pick(rng, []string{"trial-1", "trial-1", "trial-1", "t", "e-" + strings.Repeat("x", 53) + "-abcdefgh",
				strings.Repeat("y", 63) + "-abcdefgh", strings.Repeat("z", 63)})
			vals := c02Vals
			if yamlSrc {
				// an unquoted YAML scalar is re-typed by the YAML parser (3 -> number, "" -> null, true -> boolean): the expected
				// object is therefore the *textual* substitution parsed by the same YAML engine (see cmSrc below)
				vals = []string{"adam", "a-b_c", "x.y", "sgd", "3", "0.01", "true", "false", "null", "", "-0.5", "1e-5"}
			}
			cmSrc := ""
			np := 1 + rng.Intn(4)
			perm := rng.Perm(len(c02Names))
			declared := []string{}
			for j := 0; j < np; j++ {
				declared = append(declared, c02Names[perm[j]])
			}
			labels := map[string]string{"app": "demo", "tier": "x"}
			annotations := map[string]string{"note": "hello"}
			obj := map[string]interface{}{"apiVersion": "batch/v1", "kind": "Job",
				"metadata": map[string]interface{}{"labels": map[string]interface{}{"app": "demo", "tier": "x"}, "annotations": map[string]interface{}{"note": "hello"}},
				"spec":     c02Tree(rng, 4, declared)}
			tps := []experimentsv1beta1.TrialParameterSpec{}
			specParams := []experimentsv1beta1.ParameterSpec{}
			assigns := []commonv1beta1.ParameterAssignment{}
			sigma := map[string]string{}
			ptoks := []string{}
			expectErr := false
			for j, p := range declared {
				var ref, rtok, val string
				switch rng.Intn(12) {
				case 0:
					ref, rtok, val = "${trialSpec.Name}", "name", trialName
				case 1:
					ref, rtok, val = "${trialSpec.Namespace}", "namespace", "ns"
				case 2:
					ref, rtok, val = "${trialSpec.Kind}", "kind", "Job"
				case 3:
					ref, rtok, val = "${trialSpec.APIVersion}", "apiVersion", "batch/v1"
				case 4:
					ref, rtok, val = "${trialSpec.Labels[app]}", "label "+hx("app"), "demo"
				case 5:
					ref, rtok, val = "${trialSpec.Annotations[note]}", "annotation "+hx("note"), "hello"
				case 6:
					if rng.Intn(4) == 0 {
						ref, rtok = pick(rng, []string{"${trialSpec.Foo}", "${trialSpec.Labels[missing]}"}), "illegal"
						if strings.Contains(ref, "missing") {
							rtok = "label " + hx("missing")
						}
						expectErr = true
						break
					}
					fallthrough
				default:
					if len(assigns) > 0 && rng.Intn(8) == 0 {
						// two trial parameters consuming the same assignment: the count of consuming parameters exceeds the number
						// of assignments (an error unless an unconsumed assignment happens to make the numbers meet)
						a := assigns[rng.Intn(len(assigns))]
						ref, rtok, val = a.Name, "assign "+hx(a.Name), a.Value
						expectErr = true
						tags = append(tags, "assignment-consumed-twice")
						break
					}
					ref = fmt.Sprintf("hp%d", j)
					rtok = "assign " + hx(ref)
					val = pick(rng, vals)
					if !yamlSrc && rng.Intn(3) == 0 {
						// whatever text the algorithm printed is the value: integers in float notation, signs, exponents
						val = pick(rng, []string{"100.0", "20.0", "0.0", "16.0", "10", "1e2", "+5", "-0", "007", "0.50", "2."})
					}
					// the search space declares the parameter with a type; the substitution does not depend on it
					specParams = append(specParams, experimentsv1beta1.ParameterSpec{Name: ref,
						ParameterType: pick(rng, []experimentsv1beta1.ParameterType{"int", "double", "categorical", "discrete", "int"}),
						FeasibleSpace: experimentsv1beta1.FeasibleSpace{Min: "0", Max: "1000"}})
					if rng.Intn(25) == 0 {
						expectErr = true // the trial parameter's assignment is missing
					} else {
						assigns = append(assigns, commonv1beta1.ParameterAssignment{Name: ref, Value: val})
					}
				}
				tps = append(tps, experimentsv1beta1.TrialParameterSpec{Name: p, Reference: ref})
				ptoks = append(ptoks, hx(p)+" "+rtok)
				sigma[p] = val
			}
			if rng.Intn(25) == 0 {
				assigns = append(assigns, commonv1beta1.ParameterAssignment{Name: "extra", Value: "1"})
				expectErr = true
			}
			atoks := [][2]string{}
			for _, a := range assigns {
				atoks = append(atoks, [2]string{a.Name, a.Value})
			}
			e := &experimentsv1beta1.Experiment{ObjectMeta: metav1.ObjectMeta{Name: "e", Namespace: "ns"}, Spec: experimentsv1beta1.ExperimentSpec{
				TrialTemplate: &experimentsv1beta1.TrialTemplate{TrialParameters: tps}}}
			if rng.Intn(4) != 0 {
				e.Spec.Parameters = specParams
			}
			cl := fake.NewClientBuilder().WithScheme(valScheme)
			tplStr, _ := kutil.ConvertUnstructuredToString(&unstructured.Unstructured{Object: obj})
			if fromCM {
				yb, _ := yaml.Marshal(obj)
				src := tplStr // JSON is YAML too
				if yamlSrc {
					src = string(yb)
					// a value substituted into YAML text can break the YAML (e.g. an empty value in front of `}`): such a
					// source is not a template for these values; fall back to the JSON form of the same object
					txt := src
					for n, val := range sigma {
						txt = strings.ReplaceAll(txt, "${trialParameters."+n+"}", val)
					}
					if _, perr := kutil.ConvertStringToUnstructured(txt); perr != nil {
						yamlSrc = false
						src = tplStr
						tags = append(tags, "yaml-source-would-not-parse-after-substitution")
					}
				}
				e.Spec.TrialTemplate.TrialSource = experimentsv1beta1.TrialSource{ConfigMap: &experimentsv1beta1.ConfigMapSource{ConfigMapName: "tpl", ConfigMapNamespace: "ns", TemplatePath: "t.yaml"}}
				cmSrc = src
				cl = cl.WithObjects(&corev1.ConfigMap{ObjectMeta: metav1.ObjectMeta{Name: "tpl", Namespace: "ns"}, Data: map[string]string{"t.yaml": src}})
				tags = append(tags, "configmap-source")
			} else {
				e.Spec.TrialTemplate.TrialSource = experimentsv1beta1.TrialSource{TrialSpec: &unstructured.Unstructured{Object: runtime.DeepCopyJSON(obj)}}
				tags = append(tags, "inline-source")
			}
			gen := manifest.New(cl.Build())
			metaTok := fmt.Sprintf("%s %s %s %s %s %s", hx(trialName), hx("ns"), hx("Job"), hx("batch/v1"), pairsTok(annotations), pairsTok(labels))
			if fromCM {
				op = fmt.Sprintf("C02 cm %s %s %d %s", metaTok, hxPairs(atoks), len(ptoks), strings.Join(ptoks, " "))
			} else {
				op = fmt.Sprintf("C02 tpl %s %s %d %s %s", metaTok, hxPairs(atoks), len(ptoks), strings.Join(ptoks, " "), hx(tplStr))
			}
			if expectErr {
				tags = append(tags, "malformed-parameters")
			}
			func() {
				defer func() {
					if r := recover(); r != nil {
						impl = "panic"
					}
				}()
				got, err := gen.GetRunSpecWithHyperParameters(e, trialName, "ns", assigns)
				if err != nil {
					cls := "other"
					switch {
					case strings.Contains(err.Error(), "not found in parameter assignment") || strings.Contains(err.Error(), "NotFoundInParameterAssignment") || strings.Contains(err.Error(), "parameter assignment:"):
						cls = "notInAssignment"
					}
					if strings.Contains(err.Error(), "non-meta trial parameter count") {
						cls = "notInTrialParameters"
					}
					if strings.Contains(err.Error(), "illegal reference of trial metadata") {
						cls = "illegalMeta"
					}
					impl = "err " + cls
					if os.Getenv("KVH_DEBUG") != "" {
						fmt.Fprintf(os.Stderr, "DEBUG err: %v\nsrc=%s\nsigma=%v\n", err, cmSrc, sigma)
					}
					return
				}
				want := c02Subst(runtime.DeepCopyJSON(obj), sigma).(map[string]interface{})
				md := want["metadata"].(map[string]interface{})
				md["name"], md["namespace"] = trialName, "ns"
				tree := reflect.DeepEqual(got.Object, want)
				if yamlSrc {
					// oracle for YAML sources: substitute in the text, then parse with the YAML engine
					txt := cmSrc
					for n, val := range sigma {
						txt = strings.ReplaceAll(txt, "${trialParameters."+n+"}", val)
					}
					if w2, err2 := kutil.ConvertStringToUnstructured(txt); err2 == nil {
						w2.SetName(trialName)
						w2.SetNamespace("ns")
						tree = reflect.DeepEqual(got.Object, w2.Object)
					} else {
						tree = false
					}
				}
				named := got.GetName() == trialName && got.GetNamespace() == "ns"
				cp := got.DeepCopy()
				unstructured.RemoveNestedField(cp.Object, "metadata", "name")
				unstructured.RemoveNestedField(cp.Object, "metadata", "namespace")
				ser, _ := kutil.ConvertUnstructuredToString(cp)
				left := false
				for _, p := range declared {
					if strings.Contains(ser, "${trialParameters."+p+"}") {
						left = true
					}
				}
				if left && os.Getenv("KVH_DEBUG") != "" {
					fmt.Fprintf(os.Stderr, "DEBUG left: ser=%s\nsrc=%s\nsigma=%v declared=%v\n", ser, cmSrc, sigma, declared)
				}
				if fromCM {
					impl = fmt.Sprintf("ok ## tree=%s named=%s left=%s", b01(tree), b01(named), b01(left))
				} else {
					impl = fmt.Sprintf("ok %s ## tree=%s named=%s left=%s", hx(ser), b01(tree), b01(named), b01(left))
				}
			}()
		} else {
			// ---- a batch of Trials built from the assignments of one Suggestion, as createTrials does
			e := baseExperiment()
			e.Name, e.Namespace, e.UID = pick(rng, []string{"exp", "e2"}), pick(rng, []string{"ns1", "ns2"}), "uid-e"
			ltoks := [][2]string{}
			if rng.Intn(2) == 0 {
				e.Labels = map[string]string{}
				for i := rng.Intn(3); i > 0; i-- {
					e.Labels[pick(rng, []string{"team", "app", "katib.kubeflow.org/experiment"})] = pick(rng, []string{"a", "zzz"})
				}
				keys := []string{}
				for kk := range e.Labels {
					keys = append(keys, kk)
				}
				sort.Strings(keys)
				for _, kk := range keys {
					ltoks = append(ltoks, [2]string{kk, e.Labels[kk]})
				}
			}
			es := rng.Intn(2) == 0
			if !es {
				e.Spec.EarlyStopping = nil
			}
			rec := record.NewFakeRecorder(1000)
			r := expctl.NewVerifReconciler(fake.NewClientBuilder().WithScheme(valScheme).Build(), valScheme, rec, exputil.NewExpsCollector(nil, prometheus.NewRegistry()))
			n := 1 + rng.Intn(4)
			atoks, outs := []string{}, []string{}
			for i := 0; i < n; i++ {
				a := suggestionsv1beta1.TrialAssignment{Name: fmt.Sprintf("%s-t%d", e.Name, i)}
				a.ParameterAssignments = []commonv1beta1.ParameterAssignment{{Name: "lr", Value: pick(rng, c02Vals[:5])}, {Name: "n", Value: pick(rng, []string{"a", "b"})}}
				ps := [][2]string{{"lr", a.ParameterAssignments[0].Value}, {"n", a.ParameterAssignments[1].Value}}
				lbl := [][2]string{}
				hasL := rng.Intn(2) == 0
				if hasL {
					a.Labels = map[string]string{}
					for j := rng.Intn(3); j > 0; j-- {
						a.Labels[pick(rng, []string{"parent", "generation", "team"})] = fmt.Sprintf("v%d", i)
					}
					keys := []string{}
					for kk := range a.Labels {
						keys = append(keys, kk)
					}
					sort.Strings(keys)
					for _, kk := range keys {
						lbl = append(lbl, [2]string{kk, a.Labels[kk]})
					}
				}
				rules := []string{}
				for j := rng.Intn(3); j > 0; j-- {
					rl := commonv1beta1.EarlyStoppingRule{Name: "acc", Value: fmt.Sprintf("0.%d", j), Comparison: commonv1beta1.ComparisonTypeLess}
					a.EarlyStoppingRules = append(a.EarlyStoppingRules, rl)
					rules = append(rules, rl.Name+rl.Value)
				}
				atoks = append(atoks, fmt.Sprintf("%s %s %s %s %s", hx(a.Name), hxPairs(ps), b01(hasL), hxPairs(lbl), hxList(rules)))
				func() {
					defer func() {
						if rr := recover(); rr != nil {
							outs = append(outs, "panic")
						}
					}()
					t, err := r.VerifGetTrialInstance(e, &a)
					if err != nil {
						outs = append(outs, "err")
						return
					}
					owner := ""
					if len(t.OwnerReferences) == 1 && t.OwnerReferences[0].Controller != nil && *t.OwnerReferences[0].Controller {
						owner = t.OwnerReferences[0].Name
					}
					pp := []string{}
					for _, p := range t.Spec.ParameterAssignments {
						pp = append(pp, hx(p.Name)+":"+hx(p.Value))
					}
					rr := []string{}
					for _, rl := range t.Spec.EarlyStoppingRules {
						rr = append(rr, hx(rl.Name+rl.Value))
					}
					// the run spec must be the template instantiated with exactly this assignment and named as the trial
					okRun := t.Spec.RunSpec != nil && t.Spec.RunSpec.GetName() == a.Name && t.Spec.RunSpec.GetNamespace() == e.Namespace &&
						t.Spec.Objective == e.Spec.Objective && t.Spec.RetainRun == e.Spec.TrialTemplate.Retain &&
						reflect.DeepEqual(t.Spec.MetricsCollector, *e.Spec.MetricsCollectorSpec) && t.Spec.PrimaryContainerName == e.Spec.TrialTemplate.PrimaryContainerName
					nm := hx(t.Name)
					if !okRun {
						nm += "!runspec"
					}
					outs = append(outs, fmt.Sprintf("%s/%s/%s/%s/%s/%s", nm, hx(t.Namespace), labelStr(t.Labels), hx(owner), dashJoin(pp), dashJoin(rr)))
				}()
			}
			op = fmt.Sprintf("C02 trial %s %s %s %s %d %s", hx(e.Name), hx(e.Namespace), hxPairs(ltoks), b01(es), n, strings.Join(atoks, " "))
			impl = "ok " + strings.Join(outs, " ")
			tags = append(tags, "trial-batch")
		}
		return Case{Ops: []string{strings.Join(strings.Fields(op), " ")}, Impl: []string{strings.Join(strings.Fields(impl), " ")}, Tags: tags}
	}
}
