package main

// Translator for C20: for every route registered in cmd/ui/v1beta1/main.go, the ordered skeleton of its handler —
// IsAuthorized calls (verb, namespace expression, resource, guard shape) and data accesses through katibClient /
// the DB manager / a clientset (kind, namespace expression), helpers of the handler type inlined with their
// parameters substituted. Written to Katib/Gen/UiRoutes.lean; C20_all_routes is re-checked against it on every run.

import (
	"bytes"
	"fmt"
	"go/ast"
	"go/parser"
	"go/printer"
	"go/token"
	"os"
	"path/filepath"
	"regexp"
	"sort"
	"strings"
)

type uiEv struct {
	kind  string // auth | access | write | db | clientset
	what  string
	ns    string
	ctx   string // top | branch | loop
	guard string // std (401/403 returning) | weak (returns an error to the caller) | none
	verb  string
	res   string
}

type uiX struct {
	fset    *token.FileSet
	methods map[string]*ast.FuncDecl
}

func (x *uiX) src(n ast.Node) string {
	var b bytes.Buffer
	printer.Fprint(&b, x.fset, n)
	return strings.Join(strings.Fields(b.String()), " ")
}

func uiSel(e ast.Expr) string {
	switch v := e.(type) {
	case *ast.SelectorExpr:
		return uiSel(v.X) + "." + v.Sel.Name
	case *ast.Ident:
		return v.Name
	case *ast.CallExpr:
		return uiSel(v.Fun) + "()"
	}
	return "?"
}

func returnsBlock(b *ast.BlockStmt) bool {
	if len(b.List) == 0 {
		return false
	}
	_, ok := b.List[len(b.List)-1].(*ast.ReturnStmt)
	return ok
}

func (x *uiX) errCode(b *ast.BlockStmt) string {
	code := ""
	ast.Inspect(b, func(n ast.Node) bool {
		if c, ok := n.(*ast.CallExpr); ok && uiSel(c.Fun) == "http.Error" && len(c.Args) == 3 {
			code = x.src(c.Args[2])
		}
		return true
	})
	return code
}

var identRe = regexp.MustCompile(`[A-Za-z_][A-Za-z0-9_]*`)

func substIdents(s string, env map[string]string) string {
	return identRe.ReplaceAllStringFunc(s, func(id string) string {
		if v, ok := env[id]; ok {
			return v
		}
		return id
	})
}

func normNs(s string) string {
	s = strings.TrimSuffix(s, "...")
	s = strings.TrimPrefix(s, "[]string{")
	s = strings.TrimSuffix(s, "}")
	return strings.TrimSpace(s)
}

var nsArgIndex = map[string]int{"GetExperiment": 1, "GetTrial": 1, "GetSuggestion": 1, "GetTrialList": 1, "GetExperimentList": 0, "GetSuggestionList": 0,
	"GetConfigMap": 1, "GetTrialTemplates": 0, "GetNamespaceList": -2, "CreateRuntimeObject": -1, "UpdateRuntimeObject": -1, "DeleteRuntimeObject": -1}

func (x *uiX) walk(stmts []ast.Stmt, ctx string, depth int, env map[string]string, out *[]uiEv) {
	for i, s := range stmts {
		if as, ok := s.(*ast.AssignStmt); ok && len(as.Rhs) == 1 {
			if c, ok := as.Rhs[0].(*ast.CallExpr); ok && uiSel(c.Fun) == "IsAuthorized" && len(c.Args) >= 5 {
				guard := "none"
				if i+1 < len(stmts) {
					if ifs, ok := stmts[i+1].(*ast.IfStmt); ok {
						if els, ok := ifs.Else.(*ast.IfStmt); ok && returnsBlock(ifs.Body) && returnsBlock(els.Body) &&
							x.errCode(ifs.Body) == "http.StatusUnauthorized" && x.errCode(els.Body) == "http.StatusForbidden" {
							guard = "std"
						} else if returnsBlock(ifs.Body) && strings.Contains(x.src(ifs.Cond), "err != nil") {
							guard = "weak"
						}
					}
				}
				*out = append(*out, uiEv{kind: "auth", what: "IsAuthorized", verb: x.src(c.Args[0]), ns: normNs(substIdents(x.src(c.Args[1]), env)), res: x.src(c.Args[2]), ctx: ctx, guard: guard})
				continue
			}
		}
		switch v := s.(type) {
		case *ast.ForStmt:
			x.walk(v.Body.List, "loop", depth, env, out)
			continue
		case *ast.RangeStmt:
			x.calls(v.X, ctx, depth, env, out)
			x.walk(v.Body.List, "loop", depth, env, out)
			continue
		case *ast.IfStmt:
			if v.Init != nil {
				x.walk([]ast.Stmt{v.Init}, ctx, depth, env, out)
			}
			x.calls(v.Cond, ctx, depth, env, out)
			sub := "branch"
			if ctx == "loop" {
				sub = "loop"
			}
			x.walk(v.Body.List, sub, depth, env, out)
			if v.Else != nil {
				switch e := v.Else.(type) {
				case *ast.BlockStmt:
					x.walk(e.List, sub, depth, env, out)
				case *ast.IfStmt:
					x.walk([]ast.Stmt{e}, sub, depth, env, out)
				}
			}
			continue
		case *ast.BlockStmt:
			x.walk(v.List, ctx, depth, env, out)
			continue
		}
		x.calls(s, ctx, depth, env, out)
	}
}

func (x *uiX) calls(n ast.Node, ctx string, depth int, env map[string]string, out *[]uiEv) {
	ast.Inspect(n, func(m ast.Node) bool {
		c, ok := m.(*ast.CallExpr)
		if !ok {
			return true
		}
		ch := uiSel(c.Fun)
		args := []string{}
		for _, a := range c.Args {
			args = append(args, substIdents(x.src(a), env))
		}
		switch {
		case strings.HasPrefix(ch, "k.katibClient.GetClient()."):
			what := "client." + strings.TrimPrefix(ch, "k.katibClient.GetClient().")
			ns := "?"
			if len(args) > 1 {
				if mm := regexp.MustCompile(`Namespace: (\w+)`).FindStringSubmatch(args[1]); mm != nil {
					ns = mm[1]
				}
			}
			*out = append(*out, uiEv{kind: "access", what: what, ns: ns, ctx: ctx})
		case strings.HasPrefix(ch, "k.katibClient.") && ch != "k.katibClient.GetClient":
			what := strings.TrimPrefix(ch, "k.katibClient.")
			idx, known := nsArgIndex[what]
			ns := "?"
			kind := "access"
			switch {
			case !known:
				ns = "?"
			case idx == -1:
				ns, kind = "obj", "write"
			case idx == -2:
				ns, kind = "cluster", "meta"
			case idx < len(args):
				ns = normNs(args[idx])
			default:
				ns = "default-katib-namespace"
			}
			*out = append(*out, uiEv{kind: kind, what: what, ns: ns, ctx: ctx})
		case strings.HasPrefix(ch, "c.") && strings.Contains(ch, "ObservationLog"):
			*out = append(*out, uiEv{kind: "db", what: strings.TrimPrefix(ch, "c."), ns: "trial-name-only", ctx: ctx})
		case strings.HasPrefix(ch, "clientset.") || ch == "fetchMasterPodName" || ch == "fetchPodLogs":
			*out = append(*out, uiEv{kind: "clientset", what: ch, ns: "namespace", ctx: ctx})
		case strings.HasPrefix(ch, "k.") && depth < 4:
			name := strings.TrimPrefix(ch, "k.")
			if fd, ok := x.methods[name]; ok {
				sub := map[string]string{}
				i := 0
				for _, f := range fd.Type.Params.List {
					for _, pn := range f.Names {
						if i < len(args) {
							sub[pn.Name] = args[i]
						}
						i++
					}
				}
				x.walk(fd.Body.List, ctx, depth+1, sub, out)
				return false
			}
		}
		return true
	})
}

func extractUI(repo, out string) error {
	x := &uiX{fset: token.NewFileSet(), methods: map[string]*ast.FuncDecl{}}
	mainFile, err := parser.ParseFile(x.fset, filepath.Join(repo, "cmd/ui/v1beta1/main.go"), nil, 0)
	if err != nil {
		return err
	}
	routes := map[string]string{}
	ast.Inspect(mainFile, func(n ast.Node) bool {
		if c, ok := n.(*ast.CallExpr); ok {
			ch := uiSel(c.Fun)
			if (ch == "http.HandleFunc" || ch == "http.Handle") && len(c.Args) == 2 {
				routes[strings.Trim(x.src(c.Args[0]), "\"")] = x.src(c.Args[1])
			}
		}
		return true
	})
	pkgs, err := parser.ParseDir(x.fset, filepath.Join(repo, "pkg/ui/v1beta1"), nil, 0)
	if err != nil {
		return err
	}
	for _, p := range pkgs {
		for fname, f := range p.Files {
			if strings.HasSuffix(fname, "_test.go") {
				continue
			}
			for _, d := range f.Decls {
				if fd, ok := d.(*ast.FuncDecl); ok && fd.Recv != nil && fd.Body != nil {
					x.methods[fd.Name.Name] = fd
				}
			}
		}
	}
	keys := []string{}
	for r := range routes {
		keys = append(keys, r)
	}
	sort.Strings(keys)
	var b strings.Builder
	b.WriteString("-- GENERATED by `kvh extract` from cmd/ui/v1beta1/main.go and pkg/ui/v1beta1. Do not edit.\nnamespace Katib.Gen\n")
	b.WriteString("structure UiEv where\n  kind : String\n  what : String\n  ns : String\n  ctx : String\n  guard : String\n  verb : String\n  res : String\n  deriving Repr, DecidableEq\n\n")
	b.WriteString("structure UiRoute where\n  path : String\n  handler : String\n  static : Bool\n  events : List UiEv\n  deriving Repr\n\n")
	b.WriteString("def uiRoutes : List UiRoute := [\n")
	for i, r := range keys {
		h := routes[r]
		name := strings.TrimPrefix(h, "kuh.")
		evs := []uiEv{}
		static := true
		if fd, ok := x.methods[name]; ok && !strings.Contains(h, "(") {
			static = false
			x.walk(fd.Body.List, "top", 0, map[string]string{}, &evs)
		}
		es := []string{}
		for _, e := range evs {
			es = append(es, fmt.Sprintf("⟨%q, %q, %q, %q, %q, %q, %q⟩", e.kind, e.what, e.ns, e.ctx, e.guard, e.verb, e.res))
		}
		sep := ","
		if i == len(keys)-1 {
			sep = ""
		}
		fmt.Fprintf(&b, "  ⟨%q, %q, %v, [%s]⟩%s\n", r, h, static, strings.Join(es, ",\n      "), sep)
	}
	b.WriteString("]\nend Katib.Gen\n")
	return os.WriteFile(filepath.Join(out, "UiRoutes.lean"), []byte(b.String()), 0o644)
}

func init() { extractors["ui"] = extractUI }
