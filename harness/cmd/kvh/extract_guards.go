package main

// extract_guards: path conditions of selected calls.  For a function and a call (matched by a substring of its source text)
// the condition under which control reaches the call is computed from the enclosing `if` statements (then-branch: cond,
// else-branch: !cond) and from the earlier statements of every enclosing block of the shape `if cond { ...; return }`
// (then: !cond afterwards).  Conditions are translated over a table of atoms; anything else becomes a fresh numbered atom
// listed in `...Unknown`.  Loops and switches between the function entry and the call are not supported (reported).
// Regenerated into Katib/Gen/Guards.lean.

import (
	"fmt"
	"go/ast"
	"go/parser"
	"go/token"
	"os"
	"path/filepath"
	"strings"
)

type guardSpec struct {
	name, file, fn, call string
	atoms                map[string]string
	params               []string
	// enterLoops: a call inside a loop body is located relative to one iteration of that loop (continue / break end it)
	enterLoops bool
}

var guardSpecs = []guardSpec{
	{"jobCreateGuard", "pkg/controller.v1beta1/trial/trial_controller.go", "reconcileJob", "r.Create(context.TODO(), desiredJob)",
		map[string]string{"err != nil": "getFailed", "apierrors.IsNotFound(err)": "notFound", "instance.IsCompleted()": "completed", "instance.Spec.RetainRun": "retain", "instance.IsEarlyStopped()": "earlyStopped"},
		[]string{"getFailed", "notFound", "completed", "retain", "earlyStopped"}, false},
	{"jobDeleteGuard", "pkg/controller.v1beta1/trial/trial_controller.go", "reconcileJob", "r.Delete(context.TODO(), desiredJob",
		map[string]string{"err != nil": "getFailed", "apierrors.IsNotFound(err)": "notFound", "instance.IsCompleted()": "completed", "instance.Spec.RetainRun": "retain", "instance.IsEarlyStopped()": "earlyStopped"},
		[]string{"getFailed", "notFound", "completed", "retain", "earlyStopped"}, false},
	{"sugCleanupGuard", "pkg/controller.v1beta1/experiment/experiment_controller_util.go", "cleanupSuggestionResources", "original.DeepCopy()",
		map[string]string{"err != nil": "getFailed", "errors.IsNotFound(err)": "notFound", "original.IsCompleted()": "sugCompleted", "original.IsRestarting()": "sugRestarting", "original.IsSucceeded()": "sugSucceeded", "instance.IsRestarting()": "expRestarting",
			"instance.Spec.ResumePolicy == experimentsv1beta1.NeverResume": "never", "instance.Spec.ResumePolicy == experimentsv1beta1.FromVolume": "fromVolume"},
		[]string{"getFailed", "notFound", "sugCompleted", "sugRestarting", "sugSucceeded", "expRestarting", "never", "fromVolume"}, false},
	{"markSucceededGuard", "pkg/controller.v1beta1/trial/trial_controller_util.go", "UpdateTrialStatusCondition", "instance.MarkTrialStatusSucceeded(", verdictAtoms, verdictParams, false},
	{"markUnavailableGuard", "pkg/controller.v1beta1/trial/trial_controller_util.go", "UpdateTrialStatusCondition", "instance.MarkTrialStatusMetricsUnavailable(", verdictAtoms, verdictParams, false},
	{"markFailedGuard", "pkg/controller.v1beta1/trial/trial_controller_util.go", "UpdateTrialStatusCondition", "instance.MarkTrialStatusFailed(", verdictAtoms, verdictParams, false},
	{"markRunningGuard", "pkg/controller.v1beta1/trial/trial_controller_util.go", "UpdateTrialStatusCondition", "instance.MarkTrialStatusRunning(", verdictAtoms, verdictParams, false},
	{"markRestartingGuard", "pkg/controller.v1beta1/experiment/experiment_controller.go", "Reconcile", "instance.MarkExperimentStatusRestarting(", expAtoms, expParams, false},
	{"callCleanupGuard", "pkg/controller.v1beta1/experiment/experiment_controller.go", "Reconcile", "r.cleanupSuggestionResources(instance)", expAtoms, expParams, false},
	{"callRestartGuard", "pkg/controller.v1beta1/experiment/experiment_controller.go", "Reconcile", "r.restartSuggestion(instance)", expAtoms, expParams, false},
	{"callReconcileExperimentGuard", "pkg/controller.v1beta1/experiment/experiment_controller.go", "Reconcile", "r.ReconcileExperiment(instance)", expAtoms, expParams, false},
	{"markCreatedGuard", "pkg/controller.v1beta1/experiment/experiment_controller.go", "Reconcile", "instance.MarkExperimentStatusCreated(", expAtoms, expParams, false},
	{"callUpdateStatusGuard", "pkg/controller.v1beta1/experiment/experiment_controller.go", "ReconcileExperiment", "util.UpdateExperimentStatus(", recAtoms, recParams, false},
	{"callReconcileTrialsGuard", "pkg/controller.v1beta1/experiment/experiment_controller.go", "ReconcileExperiment", "r.ReconcileTrials(instance, trials.Items)", recAtoms, recParams, false},
	{"callDeleteTrialsGuard", "pkg/controller.v1beta1/experiment/experiment_controller.go", "ReconcileTrials", "r.deleteTrials(", recAtoms, recParams, false},
	{"callCreateTrialsGuard", "pkg/controller.v1beta1/experiment/experiment_controller.go", "ReconcileTrials", "r.createTrials(", recAtoms, recParams, false},
	{"callObservationGuard", "pkg/controller.v1beta1/trial/trial_controller.go", "reconcileTrial", "r.UpdateTrialStatusObservation(instance)", rtAtoms, rtParams, false},
	{"requeueNoMetricsGuard", "pkg/controller.v1beta1/trial/trial_controller.go", "reconcileTrial", "ident:errMetricsNotReported", rtAtoms, rtParams, false},
	{"callUpdateConditionGuard", "pkg/controller.v1beta1/trial/trial_controller.go", "reconcileTrial", "r.UpdateTrialStatusCondition(", rtAtoms, rtParams, false},
	{"callGetSuggestionsGuard", "pkg/controller.v1beta1/suggestion/suggestionclient/suggestionclient.go", "SyncAssignments", "rpcClientSuggestion.GetSuggestions(", syncAtoms, syncParams, false},
	{"callGetRulesGuard", "pkg/controller.v1beta1/suggestion/suggestionclient/suggestionclient.go", "SyncAssignments", "rpcClientEarlyStopping.GetEarlyStoppingRules(", syncAtoms, syncParams, false},
	{"appendAssignmentsGuard", "pkg/controller.v1beta1/suggestion/suggestionclient/suggestionclient.go", "SyncAssignments", "append(instance.Status.Suggestions, trialAssignments...)", syncAtoms, syncParams, false},
	{"callReconcileVolumeGuard", "pkg/controller.v1beta1/suggestion/suggestion_controller.go", "ReconcileSuggestion", "r.reconcileVolume(", rsAtoms, rsParams, false},
	{"callReconcileRBACGuard", "pkg/controller.v1beta1/suggestion/suggestion_controller.go", "ReconcileSuggestion", "r.reconcileRBAC(", rsAtoms, rsParams, false},
	{"markDeployNotReadyGuard", "pkg/controller.v1beta1/suggestion/suggestion_controller.go", "ReconcileSuggestion", "instance.MarkSuggestionStatusDeploymentReady(corev1.ConditionFalse", rsAtoms, rsParams, false},
	{"callValidateGuard", "pkg/controller.v1beta1/suggestion/suggestion_controller.go", "ReconcileSuggestion", "r.ValidateAlgorithmSettings(", rsAtoms, rsParams, false},
	{"callValidateESGuard", "pkg/controller.v1beta1/suggestion/suggestion_controller.go", "ReconcileSuggestion", "r.ValidateEarlyStoppingSettings(", rsAtoms, rsParams, false},
	{"markSugRunningGuard", "pkg/controller.v1beta1/suggestion/suggestion_controller.go", "ReconcileSuggestion", "instance.MarkSuggestionStatusRunning(corev1.ConditionTrue", rsAtoms, rsParams, false},
	{"callSyncGuard", "pkg/controller.v1beta1/suggestion/suggestion_controller.go", "ReconcileSuggestion", "r.SyncAssignments(", rsAtoms, rsParams, false},
	{"markExpFailedBySugGuard", "pkg/controller.v1beta1/experiment/experiment_controller.go", "ReconcileSuggestions", "instance.MarkExperimentStatusFailed(", rsugAtoms, rsugParams, false},
	{"callUpdateSuggestionGuard", "pkg/controller.v1beta1/experiment/experiment_controller.go", "ReconcileSuggestions", "r.UpdateSuggestion(suggestion)", rsugAtoms, rsugParams, false},
	{"updNotRestartableGuard", "pkg/webhook/v1beta1/experiment/validator/validator.go", "ValidateExperiment", `Child("resumePolicy"), instance.Spec.ResumePolicy, msg)`, updAtoms, updParams, false},
	{"updMaxNotAboveGuard", "pkg/webhook/v1beta1/experiment/validator/validator.go", "ValidateExperiment", `"must be greater than status.trials count"`, updAtoms, updParams, false},
	{"updForbiddenGuard", "pkg/webhook/v1beta1/experiment/validator/validator.go", "ValidateExperiment", "field.Forbidden(specPath", updAtoms, updParams, false},
	{"errNameGuard", "pkg/webhook/v1beta1/experiment/validator/validator.go", "ValidateExperiment", `Child("name"), instance.Name, msg)`, updAtoms, updParams, false},
	{"errMaxFailedNegativeGuard", "pkg/webhook/v1beta1/experiment/validator/validator.go", "ValidateExperiment", `"should not be less than 0"`, updAtoms, updParams, false},
	{"errMaxNotPositiveGuard", "pkg/webhook/v1beta1/experiment/validator/validator.go", "ValidateExperiment", `*instance.Spec.MaxTrialCount, "must be greater than 0"`, updAtoms, updParams, false},
	{"errParNotPositiveGuard", "pkg/webhook/v1beta1/experiment/validator/validator.go", "ValidateExperiment", `*instance.Spec.ParallelTrialCount, "must be greater than 0"`, updAtoms, updParams, false},
	{"errMaxFailedAboveMaxGuard", "pkg/webhook/v1beta1/experiment/validator/validator.go", "ValidateExperiment", `*instance.Spec.MaxFailedTrialCount, "should be less than or equal to spec.maxTrialCount"`, updAtoms, updParams, false},
	{"errParAboveMaxGuard", "pkg/webhook/v1beta1/experiment/validator/validator.go", "ValidateExperiment", `*instance.Spec.ParallelTrialCount, "should be less than or equal to spec.maxTrialCount"`, updAtoms, updParams, false},
	{"objMissingGuard", "pkg/webhook/v1beta1/experiment/validator/validator.go", "validateObjective", `field.Required(objectivePath, "must be specified")`, objAtoms, objParams, false},
	{"objTypeGuard", "pkg/webhook/v1beta1/experiment/validator/validator.go", "validateObjective", `objectivePath.Child("type")`, objAtoms, objParams, false},
	{"objMetricGuard", "pkg/webhook/v1beta1/experiment/validator/validator.go", "validateObjective", `objectivePath.Child("objectiveMetricName")`, objAtoms, objParams, false},
	{"objAdditionalGuard", "pkg/webhook/v1beta1/experiment/validator/validator.go", "validateObjective", `objectivePath.Child("additionalMetricNames")`, objAtoms, objParams, false},
	{"algMissingGuard", "pkg/webhook/v1beta1/experiment/validator/validator.go", "validateAlgorithm", `field.Required(algorithmPath, "must be specified")`, algAtoms, algParams, false},
	{"algNameEmptyGuard", "pkg/webhook/v1beta1/experiment/validator/validator.go", "validateAlgorithm", `field.Required(algorithmPath.Child("algorithmName")`, algAtoms, algParams, false},
	{"algUnknownGuard", "pkg/webhook/v1beta1/experiment/validator/validator.go", "validateAlgorithm", `field.Invalid(algorithmPath.Child("algorithmName")`, algAtoms, algParams, false},
	{"esNameEmptyGuard", "pkg/webhook/v1beta1/experiment/validator/validator.go", "validateEarlyStopping", `field.Required(earlyStoppingPath.Child("algorithmName")`, algAtoms, algParams, false},
	{"esUnknownGuard", "pkg/webhook/v1beta1/experiment/validator/validator.go", "validateEarlyStopping", `field.Invalid(earlyStoppingPath.Child("algorithmName")`, algAtoms, algParams, false},
	{"setMinGuard", "pkg/controller.v1beta1/trial/trial_controller_util.go", "getMetrics", "stmt:metric.Min = strValue", gmAtoms, gmParams, true},
	{"setMaxGuard", "pkg/controller.v1beta1/trial/trial_controller_util.go", "getMetrics", "stmt:metric.Max = strValue", gmAtoms, gmParams, true},
	{"setLatestGuard", "pkg/controller.v1beta1/trial/trial_controller_util.go", "getMetrics", "stmt:metric.Latest = strValue", gmAtoms, gmParams, true},
	{"tsErrorGuard", "pkg/controller.v1beta1/trial/trial_controller_util.go", "getMetrics", `fmt.Errorf("failed to parse timestamps`, gmAtoms, gmParams, true},
	{"textUseTokenGuard", "pkg/metricscollector/v1beta1/file-metricscollector/file-metricscollector.go", "parseLogsInTextFormat", "stmt:timestamp = ls[0]", lpAtoms, lpParams, true},
	{"textAppendGuard", "pkg/metricscollector/v1beta1/file-metricscollector/file-metricscollector.go", "parseLogsInTextFormat", "append(mlogs, &v1beta1.MetricLog{", lpAtoms, lpParams, true},
	{"obsUnavailableGuard", "pkg/metricscollector/v1beta1/file-metricscollector/file-metricscollector.go", "newObservationLog", "stmt:return &v1beta1.ObservationLog{ MetricLogs: []*v1beta1.MetricLog{", lpAtoms, lpParams, false},
	{"jsonErrorGuard", "pkg/metricscollector/v1beta1/file-metricscollector/file-metricscollector.go", "parseLogsInJsonFormat", `fmt.Errorf("%w: %s", errParseJson`, lpAtoms, lpParams, true},
	{"jsonUseTsGuard", "pkg/metricscollector/v1beta1/file-metricscollector/file-metricscollector.go", "parseLogsInJsonFormat", "stmt:timestamp = parsedTimestamp", lpAtoms, lpParams, true},
	{"jsonAppendGuard", "pkg/metricscollector/v1beta1/file-metricscollector/file-metricscollector.go", "parseLogsInJsonFormat", "append(mlogs, &v1beta1.MetricLog{", lpAtoms, lpParams, true},
	{"obsUseLatestGuard", "pkg/controller.v1beta1/suggestion/suggestionclient/suggestionclient.go", "convertTrialObservation", "stmt:value = m.Latest", coAtoms, coParams, true},
	{"obsUseMinGuard", "pkg/controller.v1beta1/suggestion/suggestionclient/suggestionclient.go", "convertTrialObservation", "stmt:value = m.Min", coAtoms, coParams, true},
	{"obsUseMaxGuard", "pkg/controller.v1beta1/suggestion/suggestionclient/suggestionclient.go", "convertTrialObservation", "stmt:value = m.Max", coAtoms, coParams, true},
	{"obsAppendGuard", "pkg/controller.v1beta1/suggestion/suggestionclient/suggestionclient.go", "convertTrialObservation", "append(resObservation.Metrics", coAtoms, coParams, true},
	{"trialSentGuard", "pkg/controller.v1beta1/suggestion/suggestionclient/suggestionclient.go", "ConvertTrials", "append(trialsRes, trial)", coAtoms, coParams, true},
	{"trialConditionSentGuard", "pkg/controller.v1beta1/suggestion/suggestionclient/suggestionclient.go", "ConvertTrials", "stmt:trial.Status.Condition = convertTrialConditionType(", coAtoms, coParams, true},
	{"consumeGuard", "pkg/controller.v1beta1/experiment/manifest/generator.go", "applyParameters", `stmt:nonMetaParamCount += 1`, tplAtoms, tplParams, true},
	{"errNotAssignedGuard", "pkg/controller.v1beta1/experiment/manifest/generator.go", "applyParameters", `errParamNotFoundInParameterAssignment`, tplAtoms, tplParams, true},
	{"errIllegalRefGuard", "pkg/controller.v1beta1/experiment/manifest/generator.go", "applyParameters", `fmt.Errorf("illegal reference of trial metadata: %v", param.Reference)`, tplAtoms, tplParams, true},
	{"errNoAnnotationGuard", "pkg/controller.v1beta1/experiment/manifest/generator.go", "applyParameters", `failed to fetch Annotation`, tplAtoms, tplParams, true},
	{"errNoLabelGuard", "pkg/controller.v1beta1/experiment/manifest/generator.go", "applyParameters", `failed to fetch Label`, tplAtoms, tplParams, true},
	{"useFoundValueGuard", "pkg/controller.v1beta1/experiment/manifest/generator.go", "applyParameters", `stmt=:placeHolderToValueMap[param.Name] = value`, tplAtoms, tplParams, true},
	{"useNameGuard", "pkg/controller.v1beta1/experiment/manifest/generator.go", "applyParameters", `stmt=:placeHolderToValueMap[param.Name] = trialName`, tplAtoms, tplParams, true},
	{"useNamespaceGuard", "pkg/controller.v1beta1/experiment/manifest/generator.go", "applyParameters", `stmt=:placeHolderToValueMap[param.Name] = trialNamespace`, tplAtoms, tplParams, true},
	{"useKindGuard", "pkg/controller.v1beta1/experiment/manifest/generator.go", "applyParameters", `stmt=:placeHolderToValueMap[param.Name] = trialSpec.GetKind()`, tplAtoms, tplParams, true},
	{"useAPIVersionGuard", "pkg/controller.v1beta1/experiment/manifest/generator.go", "applyParameters", `stmt=:placeHolderToValueMap[param.Name] = trialSpec.GetAPIVersion()`, tplAtoms, tplParams, true},
	{"errCountGuard", "pkg/controller.v1beta1/experiment/manifest/generator.go", "applyParameters", `ident:errParamNotFoundInTrialParameters`, tplPostAtoms, tplPostParams, false},
	{"replaceAllGuard", "pkg/controller.v1beta1/experiment/manifest/generator.go", "applyParameters", `strings.Replace(trialTemplate`, tplPostAtoms, tplPostParams, true},
	{"returnTemplateGuard", "pkg/controller.v1beta1/experiment/manifest/generator.go", "applyParameters", `stmt=:return trialTemplate, nil`, tplPostAtoms, tplPostParams, false},
	{"mapByParamGuard", "pkg/suggestion/v1beta1/goptuna/service.go", "syncTrials", `findGoptunaTrialIDByParam(`, gsAtoms, gsParams, true},
	{"recordMappingGuard", "pkg/suggestion/v1beta1/goptuna/service.go", "syncTrials", `stmt:s.trialMapping[katibTrialName] = gtrialID`, gsAtoms, gsParams, true},
	{"setTrialValueGuard", "pkg/suggestion/v1beta1/goptuna/service.go", "syncTrials", `s.study.Storage.SetTrialValue(`, gsAtoms, gsParams, true},
	{"setTrialStateGuard", "pkg/suggestion/v1beta1/goptuna/service.go", "syncTrials", `s.study.Storage.SetTrialState(`, gsAtoms, gsParams, true},
	{"errFindGuard", "pkg/suggestion/v1beta1/goptuna/service.go", "syncTrials", `klog.Errorf("Failed to find Goptuna Trial ID`, gsAtoms, gsParams, true},
	{"syncErrorGuard", "pkg/suggestion/v1beta1/goptuna/service.go", "syncTrials", `stmt=:return err`, gsAtoms, gsParams, true},
	{"argPathGuard", "pkg/webhook/v1beta1/pod/inject_webhook.go", "getMetricsCollectorArgs", `append(args, "-path", mountPath)`, caAtoms, caParams, true},
	{"argFilterGuard", "pkg/webhook/v1beta1/pod/inject_webhook.go", "getMetricsCollectorArgs", `append(args, "-f"`, caAtoms, caParams, true},
	{"argFileFormatGuard", "pkg/webhook/v1beta1/pod/inject_webhook.go", "getMetricsCollectorArgs", `append(args, "-format", string(mc.Source.FileSystemPath.Format))`, caAtoms, caParams, true},
	{"argStdoutFormatGuard", "pkg/webhook/v1beta1/pod/inject_webhook.go", "getMetricsCollectorArgs", `append(args, "-format", string(common.TextFormat))`, caAtoms, caParams, true},
	{"argWaitGuard", "pkg/webhook/v1beta1/pod/inject_webhook.go", "getMetricsCollectorArgs", `append(args, "-w"`, caAtoms, caParams, true},
	{"argStopRuleGuard", "pkg/webhook/v1beta1/pod/inject_webhook.go", "getMetricsCollectorArgs", `append(args, "-stop-rule", rule)`, caAtoms, caParams, true},
	{"errNoSuggestionGuard", "pkg/webhook/v1beta1/pod/inject_webhook.go", "getMetricsCollectorArgs", `errInvalidSuggestionName`, caAtoms, caParams, true},
	{"argEarlyStopGuard", "pkg/webhook/v1beta1/pod/inject_webhook.go", "getMetricsCollectorArgs", `append(args, "-s-earlystop"`, caAtoms, caParams, true},
	{"myAddMetricGuard", "pkg/db/v1beta1/mysql/mysql.go", "GetObservationLog", `append(qfield, metricName)`, dbgAtoms, dbgParams, true},
	{"myErrStartGuard", "pkg/db/v1beta1/mysql/mysql.go", "GetObservationLog", `fmt.Errorf("Error parsing start time`, dbgAtoms, dbgParams, true},
	{"myAddStartGuard", "pkg/db/v1beta1/mysql/mysql.go", "GetObservationLog", `append(qfield, formattedStartTime)`, dbgAtoms, dbgParams, true},
	{"myErrEndGuard", "pkg/db/v1beta1/mysql/mysql.go", "GetObservationLog", `fmt.Errorf("Error parsing completion time`, dbgAtoms, dbgParams, true},
	{"myAddEndGuard", "pkg/db/v1beta1/mysql/mysql.go", "GetObservationLog", `append(qfield, formattedEndTime)`, dbgAtoms, dbgParams, true},
	{"myQueryGuard", "pkg/db/v1beta1/mysql/mysql.go", "GetObservationLog", `d.db.Query(`, dbgAtoms, dbgParams, true},
	{"myErrQueryGuard", "pkg/db/v1beta1/mysql/mysql.go", "GetObservationLog", `fmt.Errorf("Failed to get ObservationLogs`, dbgAtoms, dbgParams, true},
	{"myRowGuard", "pkg/db/v1beta1/mysql/mysql.go", "GetObservationLog", `append(result.MetricLogs`, dbgAtoms, dbgParams, true},
	{"pgAddMetricGuard", "pkg/db/v1beta1/postgres/postgres.go", "GetObservationLog", `append(qfield, metricName)`, dbgAtoms, dbgParams, true},
	{"pgErrStartGuard", "pkg/db/v1beta1/postgres/postgres.go", "GetObservationLog", `fmt.Errorf("Error parsing start time`, dbgAtoms, dbgParams, true},
	{"pgAddStartGuard", "pkg/db/v1beta1/postgres/postgres.go", "GetObservationLog", `append(qfield, formattedStartTime)`, dbgAtoms, dbgParams, true},
	{"pgErrEndGuard", "pkg/db/v1beta1/postgres/postgres.go", "GetObservationLog", `fmt.Errorf("Error parsing completion time`, dbgAtoms, dbgParams, true},
	{"pgAddEndGuard", "pkg/db/v1beta1/postgres/postgres.go", "GetObservationLog", `append(qfield, formattedEndTime)`, dbgAtoms, dbgParams, true},
	{"pgQueryGuard", "pkg/db/v1beta1/postgres/postgres.go", "GetObservationLog", `d.db.Query(`, dbgAtoms, dbgParams, true},
	{"pgErrQueryGuard", "pkg/db/v1beta1/postgres/postgres.go", "GetObservationLog", `fmt.Errorf("Failed to get ObservationLogs`, dbgAtoms, dbgParams, true},
	{"pgRowGuard", "pkg/db/v1beta1/postgres/postgres.go", "GetObservationLog", `append(result.MetricLogs`, dbgAtoms, dbgParams, true},
	{"addFinalizerGuard", "pkg/controller.v1beta1/trial/trial_controller_util.go", "needUpdateFinalizers", "append(pendingFinalizers, cleanMetricsFinalizer)", finAtoms, finParams, false},
	{"removeFinalizerGuard", "pkg/controller.v1beta1/trial/trial_controller_util.go", "needUpdateFinalizers", "stmt:finalizers := []string{}", finAtoms, finParams, false},
	{"dbCleanupGuard", "pkg/controller.v1beta1/trial/trial_controller_util.go", "updateFinalizers", "r.DeleteTrialObservationLog(instance)", finAtoms, finParams, false},
	{"finalizerWriteGuard", "pkg/controller.v1beta1/trial/trial_controller_util.go", "updateFinalizers", "r.Update(context.TODO(), instance)", finAtoms, finParams, false},
	{"callUpdateFinalizersGuard", "pkg/controller.v1beta1/trial/trial_controller.go", "Reconcile", "r.updateFinalizers(instance, finalizers)", trAtoms, trParams, false},
	{"markTrialCreatedGuard", "pkg/controller.v1beta1/trial/trial_controller.go", "Reconcile", "instance.MarkTrialStatusCreated(", trAtoms, trParams, false},
	{"callReconcileTrialGuard", "pkg/controller.v1beta1/trial/trial_controller.go", "Reconcile", "r.reconcileTrial(instance)", trAtoms, trParams, false},
	{"callDeleteDeploymentGuard", "pkg/controller.v1beta1/suggestion/suggestion_controller.go", "Reconcile", "r.deleteDeployment(", srAtoms, srParams, false},
	{"callDeleteServiceGuard", "pkg/controller.v1beta1/suggestion/suggestion_controller.go", "Reconcile", "r.deleteService(", srAtoms, srParams, false},
	{"markSugCreatedGuard", "pkg/controller.v1beta1/suggestion/suggestion_controller.go", "Reconcile", "instance.MarkSuggestionStatusCreated(", srAtoms, srParams, false},
	{"callReconcileSuggestionGuard", "pkg/controller.v1beta1/suggestion/suggestion_controller.go", "Reconcile", "r.ReconcileSuggestion(instance)", srAtoms, srParams, false},
	{"expAddFinalizerGuard", "pkg/controller.v1beta1/experiment/experiment_controller_util.go", "needUpdateFinalizers", "append(pendingFinalizers, updatePrometheusMetrics)", efinAtoms, efinParams, false},
	{"expRemoveFinalizerGuard", "pkg/controller.v1beta1/experiment/experiment_controller_util.go", "needUpdateFinalizers", "stmt:finalizers := []string{}", efinAtoms, efinParams, false},
	{"expCallUpdateFinalizersGuard", "pkg/controller.v1beta1/experiment/experiment_controller.go", "Reconcile", "r.updateFinalizers(instance, finalizers)", expAtoms, expParams, false},
	{"listKilledGuard", "pkg/controller.v1beta1/experiment/util/status_util.go", "updateTrialsSummary", "stmt:sts.KilledTrialList = append(", clsAtoms, clsParams, true},
	{"listFailedGuard", "pkg/controller.v1beta1/experiment/util/status_util.go", "updateTrialsSummary", "stmt:sts.FailedTrialList = append(", clsAtoms, clsParams, true},
	{"listSucceededGuard", "pkg/controller.v1beta1/experiment/util/status_util.go", "updateTrialsSummary", "stmt:sts.SucceededTrialList = append(", clsAtoms, clsParams, true},
	{"listEarlyStoppedGuard", "pkg/controller.v1beta1/experiment/util/status_util.go", "updateTrialsSummary", "stmt:sts.EarlyStoppedTrialList = append(", clsAtoms, clsParams, true},
	{"listRunningGuard", "pkg/controller.v1beta1/experiment/util/status_util.go", "updateTrialsSummary", "stmt:sts.RunningTrialList = append(", clsAtoms, clsParams, true},
	{"listMetricsUnavailableGuard", "pkg/controller.v1beta1/experiment/util/status_util.go", "updateTrialsSummary", "stmt:sts.MetricsUnavailableTrialList = append(", clsAtoms, clsParams, true},
	{"listPendingGuard", "pkg/controller.v1beta1/experiment/util/status_util.go", "updateTrialsSummary", "stmt:sts.PendingTrialList = append(", clsAtoms, clsParams, true},
	{"callCollectorContainerGuard", "pkg/webhook/v1beta1/pod/inject_webhook.go", "Mutate", "s.getMetricsCollectorContainer(trial, pod)", podAtoms, podParams, false},
	{"callWrapWorkerGuard", "pkg/webhook/v1beta1/pod/inject_webhook.go", "Mutate", "wrapWorkerContainer(trial, mutatedPod", podAtoms, podParams, false},
	{"callMetricsVolumeGuard", "pkg/webhook/v1beta1/pod/inject_webhook.go", "Mutate", "mutateMetricsCollectorVolume(mutatedPod", podAtoms, podParams, false},
	{"sugRestartGuard", "pkg/controller.v1beta1/experiment/experiment_controller_util.go", "restartSuggestion", "original.DeepCopy()",
		map[string]string{"err != nil": "getFailed", "errors.IsNotFound(err)": "notFound", "original.IsCompleted()": "sugCompleted", "original.IsRestarting()": "sugRestarting", "original.IsSucceeded()": "sugSucceeded", "instance.IsRestarting()": "expRestarting"},
		[]string{"getFailed", "notFound", "sugCompleted", "sugRestarting", "sugSucceeded", "expRestarting"}, false},
}

var expAtoms = map[string]string{
	"err != nil": "callFailed", "errors.IsNotFound(err)": "notFound", "needUpdate": "finalizerUpdateDue",
	"instance.IsCompleted()": "completed",
	"instance.Spec.ResumePolicy == experimentsv1beta1.NeverResume": "never", "instance.Spec.ResumePolicy == experimentsv1beta1.FromVolume": "fromVolume",
	"util.IsCompletedExperimentRestartable(instance)": "restartable",
	"instance.Spec.MaxTrialCount != nil":              "maxSet", "instance.Spec.MaxTrialCount == nil": "(!maxSet)",
	"*instance.Spec.MaxTrialCount > instance.Status.Trials": "maxAboveTrials", "instance.Status.Trials != 0": "trialsNonZero",
	"instance.HasRunningTrials()": "hasRunningTrials", "instance.IsCreated()": "created",
	"instance.Status.StartTime == nil": "startUnset", "instance.Status.CompletionTime == nil": "completionUnset",
	"equality.Semantic.DeepEqual(original.Status, instance.Status)": "statusSame",
}
var expParams = []string{"callFailed", "notFound", "finalizerUpdateDue", "completed", "never", "fromVolume", "restartable", "maxSet", "maxAboveTrials", "trialsNonZero", "hasRunningTrials", "created", "startUnset", "completionUnset", "statusSame"}

var recAtoms = map[string]string{
	"err != nil": "callFailed", "len(trials.Items) > 0": "trialsNonEmpty", "instance.IsCompleted()": "completed",
	"activeCount > parallelCount": "activeAbovePar", "activeCount < parallelCount": "activeBelowPar",
	"deleteCount > 0": "deletePositive", "addCount > 0": "addPositive", "addCount < 0": "addNegative",
	"instance.Spec.MaxTrialCount == nil": "(!maxSet)", "requiredActiveCount > parallelCount": "requiredAbovePar",
}
var recParams = []string{"callFailed", "trialsNonEmpty", "completed", "activeAbovePar", "activeBelowPar", "deletePositive", "addPositive", "addNegative", "maxSet", "requiredAbovePar"}

var rtAtoms = map[string]string{
	"err != nil": "callFailed", "deployedJob != nil": "jobPresent", "instance.IsCompleted()": "completed", "instance.IsEarlyStopped()": "earlyStopped",
	"jobStatus == nil": "noJobStatus", "jobStatus.Condition == trialutil.JobSucceeded": "jobSucceeded",
	"instance.Status.Observation == nil":                                              "observationNil",
	"instance.Spec.MetricsCollector.Collector.Kind != commonapiv1beta1.PushCollector": "(!push)",
}
var rtParams = []string{"callFailed", "jobPresent", "completed", "earlyStopped", "noJobStatus", "jobSucceeded", "observationNil", "push"}

var syncAtoms = map[string]string{
	"err != nil": "failed#", "currentRequestNum <= 0": "nothingRequested", "instance.Spec.EarlyStopping != nil": "esSet",
	"len(responseSuggestion.ParameterAssignments) != currentRequestNum": "wrongSize",
	"responseSuggestion.Algorithm != nil":                               "replyHasSettings",
}
var syncParams = []string{"nothingRequested", "failed1", "failed2", "wrongSize", "esSet", "failed3", "failed4", "replyHasSettings"}

var rsAtoms = map[string]string{
	"err != nil": "failed#", "instance.Spec.ResumePolicy == experimentsv1beta1.FromVolume": "fromVolume",
	"instance.Spec.EarlyStopping != nil":                                                   "esSet",
	"deploy.Spec.Template.Spec.ServiceAccountName == util.GetSuggestionRBACName(instance)": "generatedAccount",
	"r.checkDeploymentReady(foundDeploy)":                                                  "deployReady", "instance.IsRunning()": "running",
}
var rsParams = []string{"fromVolume", "esSet", "generatedAccount", "deployReady", "running",
	"failed1", "failed2", "failed3", "failed4", "failed5", "failed6", "failed7", "failed8", "failed9", "failed10", "failed11", "failed12", "failed13", "failed14"}

var rsugAtoms = map[string]string{
	"err != nil": "failed#", "original != nil": "sugPresent", "original.IsFailed()": "sugFailed",
	"suggestion.Spec.Requests != suggestionRequestsCount":       "requestsDiffer",
	"len(suggestion.Status.Suggestions) > int(currentCount)":    "moreAssignmentsThanTrials",
	"!trial.IsObservationAvailable() && trial.IsEarlyStopped()": "incompleteEarlyStopped", "!trialNames[suggestion.Name]": "unassigned",
	"trial.IsObservationAvailable()": "obsAvailable", "trial.IsEarlyStopped()": "earlyStopped", "trialNames[suggestion.Name]": "assigned",
	"original.IsRestarting()": "sugRestarting",
}
var rsugParams = []string{"failed1", "failed2", "sugPresent", "sugFailed", "requestsDiffer", "moreAssignmentsThanTrials", "sugRestarting"}

var updAtoms = map[string]string{
	"oldInst != nil": "isUpdate", "isRestarting": "specChanged", "oldInst.IsCompleted()": "oldCompleted",
	"experimentutil.IsCompletedExperimentRestartable(oldInst)": "oldRestartable",
	"instance.Spec.MaxTrialCount != nil":                       "maxSet", "*instance.Spec.MaxTrialCount <= oldInst.Status.Trials": "maxNotAboveTrials",
	"equality.Semantic.DeepEqual(instance.Spec, oldInst.Spec)": "specEqual#",
	"namingConvention.MatchString(instance.Name)":              "nameOk", "len(instance.Name) > 40": "nameLong",
	"instance.Spec.MaxFailedTrialCount != nil": "maxFailedSet", "*instance.Spec.MaxFailedTrialCount < 0": "maxFailedNegative",
	"*instance.Spec.MaxTrialCount <= 0": "maxNotPositive", "instance.Spec.ParallelTrialCount != nil": "parSet",
	"*instance.Spec.ParallelTrialCount <= 0": "parNotPositive", "*instance.Spec.MaxFailedTrialCount > *instance.Spec.MaxTrialCount": "maxFailedAboveMax",
	"*instance.Spec.ParallelTrialCount > *instance.Spec.MaxTrialCount": "parAboveMax",
}
var updParams = []string{"isUpdate", "specChanged", "oldCompleted", "oldRestartable", "maxSet", "maxNotAboveTrials", "specEqual1", "specEqual2",
	"nameOk", "nameLong", "maxFailedSet", "maxFailedNegative", "maxNotPositive", "parSet", "parNotPositive", "maxFailedAboveMax", "parAboveMax"}

var objAtoms = map[string]string{
	"obj == nil": "objNil", "obj.Type != commonapiv1beta1.ObjectiveTypeMinimize": "typeNotMinimize",
	"obj.Type != commonapiv1beta1.ObjectiveTypeMaximize": "typeNotMaximize", `obj.ObjectiveMetricName == ""`: "metricEmpty",
	"contains(obj.AdditionalMetricNames, obj.ObjectiveMetricName)": "additionalHasMetric",
}
var objParams = []string{"objNil", "typeNotMinimize", "typeNotMaximize", "metricEmpty", "additionalHasMetric"}

var algAtoms = map[string]string{
	"ag == nil": "specNil", "es == nil": "specNil", `ag.AlgorithmName == ""`: "nameEmpty", `es.AlgorithmName == ""`: "nameEmpty",
	"err != nil": "lookupFailed",
}
var algParams = []string{"specNil", "nameEmpty", "lookupFailed"}

var gmAtoms = map[string]string{
	"ok": "tracked", "err == nil": "floatOk", "err != nil": "tsBad", "metric.Min == consts.UnavailableMetricValue": "minUnset",
	"floatValue < minMetric": "below", "floatValue > maxMetric": "above", "timestamp == nil": "tsNil",
	"timestamp.After(currentTime)": "after",
}
var gmParams = []string{"tracked", "floatOk", "tsBad", "minUnset", "below", "above", "tsNil", "after"}

var lpAtoms = map[string]string{
	"isMetricLine": "hasKeyword", "len(ls) != 2": "noSpace", "err != nil": "parseFailed", "len(kevList) < 3": "shortMatch",
	"name != m": "otherName", "isObjectiveMetricReported": "objectiveReported", "len(logline) == 0": "emptyLine",
	"exist": "exist#", `parsedTimestamp == ""`: "tsUnusable",
}
var lpParams = []string{"hasKeyword", "noSpace", "parseFailed", "shortMatch", "otherName", "objectiveReported", "emptyLine", "exist1", "exist2", "tsUnusable"}

var coAtoms = map[string]string{
	"observation != nil": "obsSet", "observation.Metrics != nil": "metricsSet",
	"strategy == commonapiv1beta1.ExtractByMin": "byMin", "strategy == commonapiv1beta1.ExtractByMax": "byMax",
	"strategy == commonapiv1beta1.ExtractByLatest": "byLatest", "m.Min == consts.UnavailableMetricValue": "minUnavailable",
	"m.Max == consts.UnavailableMetricValue": "maxUnavailable", "t.IsMetricsUnavailable()": "metricsUnavailable",
	"t.IsObservationAvailable()": "observationAvailable", "t.IsEarlyStopped()": "earlyStopped",
	"t.Spec.Labels != nil": "labelsSet", "t.Spec.Objective.Goal != nil": "goalSet", "len(t.Status.Conditions) > 0": "hasConditions",
}
var coParams = []string{"obsSet", "metricsSet", "byMin", "byMax", "byLatest", "minUnavailable", "maxUnavailable", "metricsUnavailable",
	"observationAvailable", "earlyStopped", "labelsSet", "goalSet", "hasConditions"}

var tplAtoms = map[string]string{
	"err != nil": "failed#", "trialSpec == nil": "specNil", "len(sub) == 0": "plainRef", "ok": "found#", "len(sub) > 0": "indexedRef",
	"len(sub) != 3": "badIndex", "metaRefKey == consts.TrialTemplateMetaKeyOfName": "keyName",
	"metaRefKey == consts.TrialTemplateMetaKeyOfNamespace": "keyNamespace", "metaRefKey == consts.TrialTemplateMetaKeyOfKind": "keyKind",
	"metaRefKey == consts.TrialTemplateMetaKeyOfAPIVersion": "keyAPIVersion",
	"metaRefKey == consts.TrialTemplateMetaKeyOfAnnotations": "keyAnnotations", "metaRefKey == consts.TrialTemplateMetaKeyOfLabels": "keyLabels",
}
var tplParams = []string{"failed1", "failed2", "specNil", "plainRef", "found1", "found2", "found3", "indexedRef", "badIndex", "keyName", "keyNamespace",
	"keyKind", "keyAPIVersion", "keyAnnotations", "keyLabels"}

// sites after the loop of applyParameters: the loop is passed under `loopDone`
var tplPostAtoms = map[string]string{
	"err != nil": "failed#", "trialSpec == nil": "specNil", "loop:experiment.Spec.TrialTemplate.TrialParameters": "loopDone",
	"len(assignments) != nonMetaParamCount": "countMismatch",
}
var tplPostParams = []string{"failed1", "failed2", "specNil", "loopDone", "countMismatch"}

var gsAtoms = map[string]string{
	"found": "found", "err != nil": "failed#", "gtrial.State.IsFinished()": "finished", "ktrial.State == gtrial.State": "sameState",
	"ktrial.State == goptuna.TrialStateComplete": "complete",
}
var gsParams = []string{"found", "failed1", "failed2", "failed3", "failed4", "finished", "sameState", "complete"}

var caAtoms = map[string]string{
	`mountPath != ""`: "hasMountPath", "mc.Source != nil": "sourceSet", "mc.Source.Filter != nil": "filterSet",
	"len(mc.Source.Filter.MetricsFormat) > 0": "hasFormats", "mc.Collector.Kind == common.FileCollector": "isFile",
	"mc.Source.FileSystemPath != nil": "fsPathSet", "mc.Collector.Kind == common.StdOutCollector": "isStdOut",
	"metricsCollectorConfigData.WaitAllProcesses != nil": "waitSet", "len(esRules) > 0": "hasRules", "err != nil": "lookupFailed",
}
var caParams = []string{"hasMountPath", "sourceSet", "filterSet", "hasFormats", "isFile", "fsPathSet", "isStdOut", "waitSet", "hasRules", "lookupFailed"}

var dbgAtoms = map[string]string{
	`metricName != ""`: "hasMetric", `startTime != ""`: "hasStart", `endTime != ""`: "hasEnd", "err != nil": "failed#",
}
var dbgParams = []string{"hasMetric", "hasStart", "hasEnd", "failed1", "failed2", "failed3", "failed4", "failed5"}

var finAtoms = map[string]string{
	"trial.ObjectMeta.DeletionTimestamp.IsZero()": "(!deleting)", "instance.ObjectMeta.DeletionTimestamp.IsZero()": "(!deleting)",
	"contained": "hasFinalizer", "elem == cleanMetricsFinalizer": "isKatibFinalizer", "pendingFinalizer != cleanMetricsFinalizer": "(!isKatibFinalizer)",
	"err != nil": "failed#", "isDelete": "isDelete",
}
var finParams = []string{"deleting", "hasFinalizer", "isKatibFinalizer", "failed1", "failed2", "isDelete"}

var trAtoms = map[string]string{
	"err != nil": "failed#", "apierrors.IsNotFound(err)": "notFound", "needUpdate": "finalizerUpdateDue", "instance.IsCreated()": "created",
	"instance.Status.StartTime == nil": "startUnset", "instance.Status.CompletionTime == nil": "completionUnset",
}
var trParams = []string{"failed1", "failed2", "notFound", "finalizerUpdateDue", "created", "startUnset", "completionUnset"}

var srAtoms = map[string]string{
	"err != nil": "failed#", "errors.IsNotFound(err)": "notFound", "instance.IsSucceeded()": "succeeded", "instance.IsCreated()": "created",
	"instance.Status.StartTime == nil": "startUnset",
}
var srParams = []string{"failed1", "failed2", "failed3", "failed4", "notFound", "succeeded", "created", "startUnset"}

var efinAtoms = map[string]string{
	"exp.ObjectMeta.DeletionTimestamp.IsZero()": "(!deleting)", "contained": "hasFinalizer",
	"elem == updatePrometheusMetrics": "isKatibFinalizer", "pendingFinalizer != updatePrometheusMetrics": "(!isKatibFinalizer)",
}
var efinParams = []string{"deleting", "hasFinalizer", "isKatibFinalizer"}

var clsAtoms = map[string]string{
	"trial.IsKilled()": "killed", "trial.IsFailed()": "failed", "trial.IsSucceeded()": "succeeded", "trial.IsEarlyStopped()": "earlyStopped",
	"trial.IsRunning()": "running", "trial.IsMetricsUnavailable()": "metricsUnavailable",
	"instance.Spec.Objective.Goal != nil": "goalSet",
}
var clsParams = []string{"killed", "failed", "succeeded", "earlyStopped", "running", "metricsUnavailable", "goalSet"}

var podAtoms = map[string]string{
	"err != nil": "failed#", "trial.Spec.PrimaryPodLabels != nil": "labelsSet", "isPrimaryPod(pod.Labels, trial.Spec.PrimaryPodLabels)": "isPrimary",
	"trial.Spec.MetricsCollector.Collector.Kind == common.PushCollector": "push", "envErr != nil": "noPrimaryContainer",
	"mountPath != \"\"": "mountPathSet", "needWrapWorkerContainer(trial.Spec.MetricsCollector)": "needWrap", "mutatedPod.Name != \"\"": "podNamed",
}
var podParams = []string{"failed1", "failed2", "failed3", "failed4", "failed5", "failed6", "labelsSet", "isPrimary", "push", "noPrimaryContainer", "mountPathSet", "needWrap", "podNamed"}

var verdictAtoms = map[string]string{
	"jobStatus.Condition == trialutil.JobSucceeded": "jobSucceeded", "jobStatus.Condition == trialutil.JobFailed": "jobFailed",
	"jobStatus.Condition == trialutil.JobRunning": "jobRunning",
	"instance.IsObservationAvailable()":           "obsAvailable", "instance.IsSucceeded()": "succeeded", "instance.IsEarlyStopped()": "earlyStopped",
	"instance.IsMetricsUnavailable()": "metricsUnavailable", "instance.IsFailed()": "failed", "instance.IsRunning()": "running",
	"instance.Spec.MetricsCollector.Collector.Kind == commonv1beta1.PushCollector": "push", "err != nil": "reportFailed",
	"jobStatus.Message != \"\"": "hasMessage", "jobStatus.Reason != \"\"": "hasReason",
}
var verdictParams = []string{"jobSucceeded", "jobFailed", "jobRunning", "obsAvailable", "succeeded", "earlyStopped", "metricsUnavailable", "failed", "running", "push", "reportFailed", "hasMessage", "hasReason"}

type guardWalker struct {
	occ         map[string]int      // occurrence counters of numbered atoms (`name#`)
	binds       map[string]ast.Expr // identifiers bound exactly once by `x := <expr>` in the function
	fset        *token.FileSet
	spec        guardSpec
	unknown     []string
	unknownCut  int // conditions met after the last call site do not count
	unsupported []string
	found       []string
}

// atom: the name of a known condition; a name ending in `#` is numbered by occurrence (`err != nil` after different calls)
func (g *guardWalker) atom(src string) (string, bool) {
	a, ok := g.spec.atoms[src]
	if ok && strings.HasSuffix(a, "#") {
		if g.occ == nil {
			g.occ = map[string]int{}
		}
		g.occ[a]++
		return fmt.Sprintf("%s%d", strings.TrimSuffix(a, "#"), g.occ[a]), true
	}
	if !ok {
		// a boolean variable assigned once stands for its definition, wherever it occurs in a condition
		if rhs, bound := g.binds[src]; bound && token.IsIdentifier(src) {
			return "(" + boolToLeanF(g.fset, rhs, g.atom, &g.unknown) + ")", true
		}
	}
	return a, ok
}

func (g *guardWalker) cond(e ast.Expr) string {
	// a boolean variable assigned once (`reconcileRequired := !instance.IsCompleted()`) stands for its definition
	if id, ok := e.(*ast.Ident); ok {
		if _, known := g.spec.atoms[id.Name]; !known {
			if rhs, ok := g.binds[id.Name]; ok {
				return "(" + boolToLeanF(g.fset, rhs, g.atom, &g.unknown) + ")"
			}
		}
	}
	return boolToLeanF(g.fset, e, g.atom, &g.unknown)
}

func singleBinds(body *ast.BlockStmt) map[string]ast.Expr {
	binds, count := map[string]ast.Expr{}, map[string]int{}
	ast.Inspect(body, func(n ast.Node) bool {
		if as, ok := n.(*ast.AssignStmt); ok && len(as.Lhs) == len(as.Rhs) {
			for i, l := range as.Lhs {
				if id, ok := l.(*ast.Ident); ok {
					count[id.Name]++
					binds[id.Name] = as.Rhs[i]
				}
			}
		}
		return true
	})
	for k, c := range count {
		if c != 1 {
			delete(binds, k)
		}
	}
	return binds
}

func (g *guardWalker) containsCall(n ast.Node) bool {
	hit := false
	ident := strings.TrimPrefix(g.spec.call, "ident:")
	stmt := strings.TrimPrefix(g.spec.call, "stmt:")
	exact := strings.TrimPrefix(g.spec.call, "stmt=:")
	ast.Inspect(n, func(m ast.Node) bool {
		if exact != g.spec.call {
			// `stmt=:<text>`: a statement whose source is exactly <text>
			if st, ok := m.(ast.Stmt); ok && nodeSrc(g.fset, st) == exact {
				hit = true
			}
		} else if stmt != g.spec.call {
			// `stmt:<text>`: a statement whose source starts with <text>
			if st, ok := m.(ast.Stmt); ok && strings.HasPrefix(nodeSrc(g.fset, st), stmt) {
				hit = true
			}
		} else if ident != g.spec.call {
			if id, ok := m.(*ast.Ident); ok && id.Name == ident {
				hit = true
			}
		} else if c, ok := m.(*ast.CallExpr); ok && strings.Contains(nodeSrc(g.fset, c), g.spec.call) {
			hit = true
		}
		return !hit
	})
	return hit
}

func gAnd(a, b string) string {
	switch {
	case a == "false" || b == "false":
		return "false"
	case a == "true":
		return b
	case b == "true":
		return a
	}
	return "(" + a + " && " + b + ")"
}

func gOr(a, b string) string {
	switch {
	case a == "false":
		return b
	case b == "false":
		return a
	}
	return "(" + a + " || " + b + ")"
}

// walk a statement list entered under path condition `pc`; returns the *factor* f such that control leaves the list at its
// end (without having returned) exactly under `pc && f`
func (g *guardWalker) walk(stmts []ast.Stmt, pc string) string {
	factor := "true"
	for _, st := range stmts {
		cur := gAnd(pc, factor)
		if cur == "false" {
			return "false"
		}
		switch x := st.(type) {
		case *ast.IfStmt:
			if x.Init != nil && g.containsCall(x.Init) {
				g.found, g.unknownCut = append(g.found, cur), len(g.unknown)
			}
			c := g.cond(x.Cond)
			nc := "(!" + c + ")"
			ft := g.walk(x.Body.List, gAnd(cur, c))
			fe := "true"
			switch el := x.Else.(type) {
			case *ast.BlockStmt:
				fe = g.walk(el.List, gAnd(cur, nc))
			case *ast.IfStmt:
				fe = g.walk([]ast.Stmt{el}, gAnd(cur, nc))
			}
			if !(ft == "true" && fe == "true") {
				factor = gAnd(factor, gOr(gAnd(c, ft), gAnd(nc, fe)))
			}
		case *ast.BlockStmt:
			factor = gAnd(factor, g.walk(x.List, cur))
		case *ast.RangeStmt:
			if g.containsCall(x) {
				if g.spec.enterLoops {
					g.walk(x.Body.List, cur)
				} else {
					g.unsupported = append(g.unsupported, fmt.Sprintf("%T", x))
				}
			} else if a, ok := g.loopAtom(x.X); ok {
				// `loop:<range expression>` atom: the loop ran to its end without returning
				factor = gAnd(factor, a)
			} else {
				g.skipped(x)
			}
		case *ast.ForStmt:
			if g.containsCall(x) {
				if g.spec.enterLoops {
					g.walk(x.Body.List, cur)
				} else {
					g.unsupported = append(g.unsupported, fmt.Sprintf("%T", x))
				}
			} else {
				g.skipped(x)
			}
		case *ast.BranchStmt:
			if g.spec.enterLoops && (x.Tok == token.CONTINUE || x.Tok == token.BREAK) {
				return "false"
			}
		case *ast.SwitchStmt:
			// an expression switch holding the site: an if-chain over its clauses (`tag == v` looked up as an atom; the
			// default clause runs when no other clause matches); `fallthrough` / `break` inside are not supported
			if g.containsCall(x) {
				factor = gAnd(factor, g.walkSwitch(x, cur))
			} else {
				g.skipped(x)
			}
		case *ast.TypeSwitchStmt, *ast.SelectStmt:
			if g.containsCall(x) {
				g.unsupported = append(g.unsupported, fmt.Sprintf("%T", x))
			} else {
				g.skipped(x)
			}
		case *ast.ReturnStmt:
			if g.containsCall(x) {
				g.found, g.unknownCut = append(g.found, cur), len(g.unknown)
			}
			return "false"
		default:
			if g.containsCall(x) {
				g.found, g.unknownCut = append(g.found, cur), len(g.unknown)
			}
		}
	}
	return factor
}

// loopAtom: a loop that does not hold the site and can return is passed under the named atom "it ran to its end without
// returning", when the spec declares one for its range expression (key `loop:<expr>`); what the atom means is read off the
// model's loop (which is itself tied to the loop body by the *_loop_is_source theorems)
func (g *guardWalker) loopAtom(rangeExpr ast.Expr) (string, bool) {
	a, ok := g.spec.atoms["loop:"+nodeSrc(g.fset, rangeExpr)]
	return a, ok
}

// skipped: a loop / switch / select that does not hold the site is not walked; a `return` inside it would change the reach
// condition of every later site, so it is reported (pending: attached to the next site found, dropped if none follows)
func (g *guardWalker) skipped(n ast.Node) {
	ast.Inspect(n, func(m ast.Node) bool {
		switch m.(type) {
		case *ast.FuncLit:
			return false
		case *ast.ReturnStmt:
			g.unknown = append(g.unknown, fmt.Sprintf("return inside skipped %T", n))
			return false
		}
		return true
	})
}

// walkSwitch: the factor under which control leaves an expression switch at its end
func (g *guardWalker) walkSwitch(x *ast.SwitchStmt, cur string) string {
	bad := false
	ast.Inspect(x.Body, func(n ast.Node) bool {
		switch b := n.(type) {
		case *ast.ForStmt, *ast.RangeStmt, *ast.FuncLit:
			return false
		case *ast.BranchStmt:
			if b.Tok == token.BREAK || b.Tok == token.FALLTHROUGH {
				bad = true
			}
		}
		return true
	})
	if bad {
		g.unsupported = append(g.unsupported, "switch with break/fallthrough")
		return "true"
	}
	tag := ""
	if x.Tag != nil {
		tag = nodeSrc(g.fset, x.Tag)
	}
	type clause struct {
		c    string
		body []ast.Stmt
	}
	var clauses []clause
	var deflt *ast.CaseClause
	for _, st := range x.Body.List {
		cc := st.(*ast.CaseClause)
		if cc.List == nil {
			deflt = cc
			continue
		}
		c := "false"
		for _, e := range cc.List {
			var one string
			if tag == "" {
				one = g.cond(e)
			} else {
				src := tag + " == " + nodeSrc(g.fset, e)
				a, ok := g.atom(src)
				if !ok {
					g.unknown = append(g.unknown, src)
					a = "unknownAtom"
				}
				one = a
			}
			c = gOr(c, one)
		}
		clauses = append(clauses, clause{c, cc.Body})
	}
	none, out := "true", "false"
	for _, cl := range clauses {
		reach := gAnd(none, cl.c)
		out = gOr(out, gAnd(reach, g.walk(cl.body, gAnd(cur, reach))))
		none = gAnd(none, "(!"+cl.c+")")
	}
	if deflt != nil {
		out = gOr(out, gAnd(none, g.walk(deflt.Body, gAnd(cur, none))))
	} else {
		out = gOr(out, none)
	}
	return out
}

func extractGuards(repo, out string) error {
	var b strings.Builder
	b.WriteString("-- GENERATED by `kvh extract` (path conditions of selected calls; see harness/cmd/kvh/extract_guards.go). Do not edit.\nnamespace Katib.Gen\n")
	for _, sp := range guardSpecs {
		fset := token.NewFileSet()
		f, err := parser.ParseFile(fset, filepath.Join(repo, sp.file), nil, 0)
		if err != nil {
			return err
		}
		g := &guardWalker{fset: fset, spec: sp}
		for _, d := range f.Decls {
			if fd, ok := d.(*ast.FuncDecl); ok && fd.Name.Name == sp.fn && fd.Body != nil {
				g.binds = singleBinds(fd.Body)
				g.walk(fd.Body.List, "true")
			}
		}
		body := "false"
		if len(g.found) > 0 {
			body = strings.Join(g.found, " || ")
		}
		fmt.Fprintf(&b, "\n-- %s: reach condition of `%s` in %s (%s)\n", sp.name, sp.call, sp.fn, sp.file)
		fmt.Fprintf(&b, "def %sSites : Nat := %d\n", sp.name, len(g.found))
		fmt.Fprintf(&b, "def %sUnknown : List String := [%s]\n", sp.name, strings.Join(quoteAll(append(g.unknown[:g.unknownCut], g.unsupported...)), ", "))
		fmt.Fprintf(&b, "def %s (%s unknownAtom : Bool) : Bool :=\n  %s\n", sp.name, strings.Join(sp.params, " "), body)
	}
	b.WriteString("\nend Katib.Gen\n")
	return os.WriteFile(filepath.Join(out, "Guards.lean"), []byte(b.String()), 0o644)
}

func init() { extractors["guards"] = extractGuards }
