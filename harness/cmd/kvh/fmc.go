package main

// The file metrics collector's own reporting path (cmd/metricscollector/v1beta1/file-metricscollector/main.go, package
// main) runs in a helper process built by /verif/check with `go build -overlay` (see harness/fmc).

import (
	"bufio"
	"encoding/json"
	"os"
	"os/exec"
	"path/filepath"
)

type fmcReq struct {
	Path    string `json:"path"`
	Metrics string `json:"metrics"`
	Filters string `json:"filters"`
	Format  string `json:"format"`
	Trial   string `json:"trial"`
}
type fmcResp struct {
	Fatal    bool        `json:"fatal"`
	Panic    string      `json:"panic"`
	Reported bool        `json:"reported"`
	Trial    string      `json:"trial"`
	Logs     [][3]string `json:"logs"`
	NilLog   bool        `json:"nilLog"`
	NilEntry bool        `json:"nilEntry"`
}

var (
	fmcCmd *exec.Cmd
	fmcIn  *bufio.Writer
	fmcOut *bufio.Reader
	fmcBin string
)

func fmcStart() bool {
	if fmcCmd != nil {
		return true
	}
	if fmcBin == "" {
		fmcBin = os.Getenv("KVH_FMC")
		if fmcBin == "" {
			exe, _ := os.Executable()
			fmcBin = filepath.Join(filepath.Dir(exe), "fmc")
		}
	}
	if _, err := os.Stat(fmcBin); err != nil {
		return false
	}
	cmd := exec.Command(fmcBin)
	cmd.Env = append(os.Environ(), "KVH_FMC_STDIO=1")
	w, err1 := cmd.StdinPipe()
	r, err2 := cmd.StdoutPipe()
	if err1 != nil || err2 != nil || cmd.Start() != nil {
		return false
	}
	fmcCmd, fmcIn, fmcOut = cmd, bufio.NewWriter(w), bufio.NewReaderSize(r, 1<<20)
	return true
}

func fmcStop() {
	if fmcCmd != nil {
		_ = fmcCmd.Process.Kill()
		_, _ = fmcCmd.Process.Wait()
		fmcCmd = nil
	}
}

// fmcCall: nil when the helper is not available
func fmcCall(req fmcReq) *fmcResp {
	if !fmcStart() {
		return nil
	}
	b, _ := json.Marshal(req)
	fmcIn.Write(b)
	fmcIn.WriteByte('\n')
	if fmcIn.Flush() != nil {
		fmcStop()
		return &fmcResp{Panic: "helper-died"}
	}
	line, err := fmcOut.ReadBytes('\n')
	if err != nil {
		fmcStop()
		return &fmcResp{Panic: "helper-died"}
	}
	var resp fmcResp
	if json.Unmarshal(line, &resp) != nil {
		fmcStop()
		return &fmcResp{Panic: "helper-bad-answer"}
	}
	if resp.Fatal {
		fmcStop() // the helper leaves after a klog.Fatalf
	}
	return &resp
}
