package main

import (
	"context"
	"encoding/json"
	"fmt"
	"k8s.io/apimachinery/pkg/types"
	"math/rand"
	"path/filepath"
	"sort"
	"strconv"
	"strings"

	admissionv1 "k8s.io/api/admission/v1"
	batchv1 "k8s.io/api/batch/v1"
	corev1 "k8s.io/api/core/v1"
	metav1 "k8s.io/apimachinery/pkg/apis/meta/v1"
	"k8s.io/apimachinery/pkg/apis/meta/v1/unstructured"
	"k8s.io/apimachinery/pkg/runtime"
	"sigs.k8s.io/controller-runtime/pkg/client/fake"
	"sigs.k8s.io/controller-runtime/pkg/webhook/admission"
	"sigs.k8s.io/yaml"

	configv1beta1 "github.com/kubeflow/katib/pkg/apis/config/v1beta1"
	commonv1beta1 "github.com/kubeflow/katib/pkg/apis/controller/common/v1beta1"
	experimentsv1beta1 "github.com/kubeflow/katib/pkg/apis/controller/experiments/v1beta1"
	suggestionsv1beta1 "github.com/kubeflow/katib/pkg/apis/controller/suggestions/v1beta1"
	trialsv1beta1 "github.com/kubeflow/katib/pkg/apis/controller/trials/v1beta1"
	katibmanagerv1beta1 "github.com/kubeflow/katib/pkg/common/v1beta1"
	kutil "github.com/kubeflow/katib/pkg/controller.v1beta1/util"
	"github.com/kubeflow/katib/pkg/webhook/v1beta1/pod"
)

func ctTok(c corev1.Container) string {
	env := []string{}
	for _, e := range c.Env {
		env = append(env, e.Name)
	}
	ms := [][2]string{}
	for _, m := range c.VolumeMounts {
		ms = append(ms, [2]string{m.Name, m.MountPath})
	}
	return fmt.Sprintf("%s %s %s %s %s %s", hx(c.Name), hx(c.Image), hxList(c.Command), hxList(c.Args), hxList(env), hxPairs(ms))
}

func ctShow(c corev1.Container) string {
	env := []string{}
	for _, e := range c.Env {
		env = append(env, e.Name)
	}
	ms := [][2]string{}
	for _, m := range c.VolumeMounts {
		ms = append(ms, [2]string{m.Name, m.MountPath})
	}
	return strings.Join([]string{hx(c.Name), hx(c.Image), showStrsGo(c.Command), showStrsGo(c.Args), showStrsGo(env), showPairsGo(ms)}, "/")
}

func podShow(m *corev1.Pod) string {
	cts := []string{}
	for _, ct := range m.Spec.Containers {
		cts = append(cts, ctShow(ct))
	}
	mv := []string{}
	for _, v := range m.Spec.Volumes {
		mv = append(mv, v.Name)
	}
	pns := "none"
	if m.Spec.ShareProcessNamespace != nil {
		pns = b01(*m.Spec.ShareProcessNamespace)
	}
	return fmt.Sprintf("labels=%s cts=%s vols=%s pns=%s", labelStr(m.Labels), strings.Join(cts, ";"), showStrsGo(mv), pns)
}

func mapPairs(m map[string]string) [][2]string {
	keys := []string{}
	for k := range m {
		keys = append(keys, k)
	}
	sort.Strings(keys)
	o := [][2]string{}
	for _, k := range keys {
		o = append(o, [2]string{k, m[k]})
	}
	return o
}

func init() {
	runners["C12"] = func(rng *rand.Rand, tier string, k int) Case {
		getValidator()
		if k%4 == 3 {
			return c12Required(rng)
		}
		tags := []string{}
		ns := "ns"
		// ---- Trial
		kind := pick(rng, []commonv1beta1.CollectorKind{commonv1beta1.StdOutCollector, commonv1beta1.StdOutCollector, commonv1beta1.FileCollector, commonv1beta1.TfEventCollector,
			commonv1beta1.PrometheusMetricCollector, commonv1beta1.CustomCollector, commonv1beta1.PushCollector})
		t := &trialsv1beta1.Trial{ObjectMeta: metav1.ObjectMeta{Name: pick(rng, []string{"t1", "exp-abc"}), Namespace: ns, Labels: map[string]string{"katib.kubeflow.org/experiment": "exp"}}}
		if rng.Intn(3) == 0 {
			t.Labels["team"] = "a"
		}
		// Trial labels (copied from the Experiment) may carry the very keys primaryPodLabels tests on the pod
		if rng.Intn(3) == 0 {
			t.Labels["role"] = pick(rng, []string{"master", "worker"})
		}
		if rng.Intn(5) == 0 {
			t.Labels["idx"] = "0"
		}
		t.Spec.PrimaryContainerName = pick(rng, []string{"main", "main", "training"})
		t.Spec.Objective = &commonv1beta1.ObjectiveSpec{Type: pick(rng, []commonv1beta1.ObjectiveType{commonv1beta1.ObjectiveTypeMaximize, commonv1beta1.ObjectiveTypeMinimize}), ObjectiveMetricName: "acc"}
		metricNames := "acc"
		for i := rng.Intn(3); i > 0; i-- {
			n := pick(rng, []string{"loss", "f1"})
			t.Spec.Objective.AdditionalMetricNames = append(t.Spec.Objective.AdditionalMetricNames, n)
			metricNames += ";" + n
		}
		mc := commonv1beta1.MetricsCollectorSpec{Collector: &commonv1beta1.CollectorSpec{Kind: kind}}
		mountPath, isFile := "", false
		fileFormat := "none"
		filters := []string{}
		switch kind {
		case commonv1beta1.StdOutCollector:
			mountPath, isFile = commonv1beta1.DefaultFilePath, true
			if rng.Intn(3) == 0 {
				mc.Source = &commonv1beta1.SourceSpec{Filter: &commonv1beta1.FilterSpec{MetricsFormat: []string{"([a-z]+)=(\\d+)"}}}
				filters = mc.Source.Filter.MetricsFormat
			}
		case commonv1beta1.FileCollector:
			mountPath, isFile = pick(rng, []string{"/var/log/train.log", "/metrics/out.json"}), true
			ff := pick(rng, []commonv1beta1.FileFormat{commonv1beta1.TextFormat, commonv1beta1.JsonFormat})
			mc.Source = &commonv1beta1.SourceSpec{FileSystemPath: &commonv1beta1.FileSystemPath{Path: mountPath, Kind: commonv1beta1.FileKind, Format: ff}}
			fileFormat = hx(string(ff))
			if rng.Intn(2) == 0 {
				mc.Source.Filter = &commonv1beta1.FilterSpec{MetricsFormat: []string{"([a-z]+)=(\\d+)", "x(.)(.)"}}
				filters = mc.Source.Filter.MetricsFormat
			}
		case commonv1beta1.TfEventCollector:
			mountPath, isFile = "/tf/events", false
			mc.Source = &commonv1beta1.SourceSpec{FileSystemPath: &commonv1beta1.FileSystemPath{Path: mountPath, Kind: commonv1beta1.DirectoryKind}}
		case commonv1beta1.CustomCollector:
			cc := corev1.Container{Name: pick(rng, []string{"custom-collector", "metrics-collector", "main"}), Image: "img/custom", Args: []string{"--x"}}
			mc.Collector.CustomCollector = &cc
			if rng.Intn(2) == 0 {
				pk := pick(rng, []commonv1beta1.FileSystemKind{commonv1beta1.FileKind, commonv1beta1.DirectoryKind})
				mountPath, isFile = "/custom/m.log", pk == commonv1beta1.FileKind
				mc.Source = &commonv1beta1.SourceSpec{FileSystemPath: &commonv1beta1.FileSystemPath{Path: mountPath, Kind: pk}}
			}
		}
		t.Spec.MetricsCollector = mc
		mountDir := mountPath
		if isFile {
			mountDir = filepath.Dir(mountPath)
		}
		hasRules := rng.Intn(3) == 0
		rules := []string{}
		if hasRules {
			t.Spec.EarlyStoppingRules = []commonv1beta1.EarlyStoppingRule{}
			for i := rng.Intn(3); i > 0; i-- {
				r := commonv1beta1.EarlyStoppingRule{Name: "acc", Value: fmt.Sprintf("0.%d", i), Comparison: commonv1beta1.ComparisonTypeLess, StartStep: i}
				t.Spec.EarlyStoppingRules = append(t.Spec.EarlyStoppingRules, r)
				rules = append(rules, r.Name+";"+r.Value+";"+string(r.Comparison)+";"+strconv.Itoa(r.StartStep))
			}
			// an empty list does not survive the API server (omitempty): the webhook reads nil
			hasRules = len(rules) > 0
		}
		hasPL := rng.Intn(3) == 0
		pl := map[string]string{}
		if hasPL {
			pl["role"] = "master"
			if rng.Intn(3) == 0 {
				pl["idx"] = "0"
			}
			t.Spec.PrimaryPodLabels = pl
		}
		// ---- environment
		objs := []runtime.Object{t}
		kc := configv1beta1.KatibConfig{}
		kc.APIVersion, kc.Kind = "config.kubeflow.org/v1beta1", "KatibConfig"
		imgTok, waitTok := "none", "none"
		hasCfg := rng.Intn(12) != 0
		if hasCfg && kind != commonv1beta1.CustomCollector && kind != commonv1beta1.PushCollector {
			mcc := configv1beta1.MetricsCollectorConfig{CollectorKind: string(kind), Image: "img/" + strings.ToLower(string(kind))}
			if rng.Intn(3) == 0 {
				w := rng.Intn(2) == 0
				mcc.WaitAllProcesses = &w
				waitTok = b01(w)
			}
			kc.RuntimeConfig.MetricsCollectorConfigs = []configv1beta1.MetricsCollectorConfig{mcc}
			imgTok = hx(mcc.Image)
		}
		yb, _ := yaml.Marshal(kc)
		objs = append(objs, &corev1.ConfigMap{ObjectMeta: metav1.ObjectMeta{Name: "katib-config", Namespace: "kubeflow"}, Data: map[string]string{"katib-config.yaml": string(yb)}})
		expExists := rng.Intn(15) != 0
		if expExists {
			objs = append(objs, &experimentsv1beta1.Experiment{ObjectMeta: metav1.ObjectMeta{Name: "exp", Namespace: ns}})
		}
		sugExists := rng.Intn(15) != 0
		checkpoint := ""
		sg := &suggestionsv1beta1.Suggestion{ObjectMeta: metav1.ObjectMeta{Name: "exp", Namespace: ns}, Spec: suggestionsv1beta1.SuggestionSpec{Algorithm: &commonv1beta1.AlgorithmSpec{AlgorithmName: "random"}}}
		if rng.Intn(4) == 0 {
			checkpoint = "/ckpt"
			sg.Spec.Algorithm.AlgorithmSettings = []commonv1beta1.AlgorithmSetting{{Name: "suggestion_trial_dir", Value: checkpoint}}
		}
		if sugExists {
			objs = append(objs, sg)
		}
		// ---- pod and its owners
		job := &batchv1.Job{ObjectMeta: metav1.ObjectMeta{Name: t.Name, Namespace: ns, OwnerReferences: []metav1.OwnerReference{{APIVersion: "kubeflow.org/v1beta1", Kind: "Trial", Name: t.Name, UID: "u"}}}}
		objs = append(objs, job)
		p := &corev1.Pod{TypeMeta: metav1.TypeMeta{Kind: "Pod", APIVersion: "v1"}, ObjectMeta: metav1.ObjectMeta{GenerateName: t.Name + "-", Namespace: ns,
			OwnerReferences: []metav1.OwnerReference{{APIVersion: "batch/v1", Kind: "Job", Name: t.Name, UID: "u2"}}}}
		if rng.Intn(2) == 0 {
			p.Labels = map[string]string{}
			for _, kv := range [][2]string{{"role", "master"}, {"role", "worker"}, {"idx", "0"}, {"app", "x"}, {"katib.kubeflow.org/trial", "stale"}} {
				if rng.Intn(3) == 0 {
					p.Labels[kv[0]] = kv[1]
				}
			}
		}
		cmds := [][]string{{"python", "train.py"}, {"sh"}, {"bash"}, {"sh", "-c", "python train.py --lr 0.1"}, {"bash", "-c", "run"}, {"sh", "-x", "s.sh"}, {"/bin/train", "--epochs", "3"}}
		nct := 1 + rng.Intn(3)
		names := []string{"main", "helper", "istio-proxy", "training", "main"}
		for i := 0; i < nct; i++ {
			c := corev1.Container{Name: names[rng.Intn(len(names))], Image: fmt.Sprintf("img%d", i), Command: pick(rng, cmds)}
			if rng.Intn(3) == 0 {
				c.Args = []string{"--flag", "v"}
			}
			if rng.Intn(4) == 0 {
				c.Env = []corev1.EnvVar{{Name: "A", Value: "1"}}
			}
			if rng.Intn(5) == 0 {
				c.VolumeMounts = []corev1.VolumeMount{{Name: "data", MountPath: "/data"}}
			}
			p.Spec.Containers = append(p.Spec.Containers, c)
		}
		if rng.Intn(4) == 0 {
			p.Spec.Volumes = []corev1.Volume{{Name: "data"}}
		}
		// the template may set process-namespace sharing itself, either way
		pnsTok := "none"
		if rng.Intn(3) == 0 {
			b := rng.Intn(2) == 0
			p.Spec.ShareProcessNamespace = &b
			pnsTok = b01(b)
		}
		c := fake.NewClientBuilder().WithScheme(valScheme).WithRuntimeObjects(objs...).Build()
		inj := pod.NewSidecarInjector(c, admission.NewDecoder(valScheme))
		// ---- op line
		ctoks := []string{}
		for _, ct := range p.Spec.Containers {
			ctoks = append(ctoks, ctTok(ct))
		}
		vols := []string{}
		for _, v := range p.Spec.Volumes {
			vols = append(vols, v.Name)
		}
		podTok := fmt.Sprintf("%s %d %s %s %s", hxPairs(mapPairs(p.Labels)), len(ctoks), strings.Join(ctoks, " "), hxList(vols), pnsTok)
		customTok := "0"
		if mc.Collector.CustomCollector != nil {
			customTok = "1 " + ctTok(*mc.Collector.CustomCollector)
		}
		trialTok := fmt.Sprintf("%s %s %s %s %s %s %s %s %s %s %s %s %s %s %s %s", hx(t.Name), hxPairs(mapPairs(t.Labels)), b01(hasPL), hxPairs(mapPairs(pl)), hx(t.Spec.PrimaryContainerName),
			string(kind), hx(mountPath), b01(isFile), hx(mountDir), hxList(filters), fileFormat, hx(metricNames), hx(string(t.Spec.Objective.Type)), b01(hasRules), hxList(rules), customTok)
		envTok := fmt.Sprintf("%s %s %s %s %s %s %s %s %s", hx(katibmanagerv1beta1.GetDBManagerAddr()), imgTok, waitTok, b01(expExists), b01(sugExists),
			hx(kutil.GetEarlyStoppingEndpoint(sg)), hx(checkpoint), hx(kutil.GetSuggestionPersistentVolumeClaimName(sg)), hx(filepath.Join("exp", t.Name)))
		op := "C12 mutate " + podTok + " " + trialTok + " " + envTok
		tags = append(tags, "kind="+string(kind))
		if hasPL {
			tags = append(tags, "primaryPodLabels")
		}
		impl := ""
		func() {
			defer func() {
				if e := recover(); e != nil {
					impl = "panic"
					tags = append(tags, "PANIC")
				}
			}()
			if hasCfg && len(kc.RuntimeConfig.MetricsCollectorConfigs) == 1 && rng.Intn(4) == 0 {
				// the injector lives as long as the controller: it has admitted a pod of this collector kind before, under an
				// older katib-config (other image, other waitAllProcesses); what counts is the katib-config of now
				older := kc.DeepCopy()
				older.RuntimeConfig.MetricsCollectorConfigs[0].Image = "img/older-release"
				w := waitTok != "1"
				older.RuntimeConfig.MetricsCollectorConfigs[0].WaitAllProcesses = &w
				ob, _ := yaml.Marshal(older)
				cm := &corev1.ConfigMap{}
				if c.Get(context.TODO(), types.NamespacedName{Namespace: "kubeflow", Name: "katib-config"}, cm) == nil {
					cm.Data = map[string]string{"katib-config.yaml": string(ob)}
					_ = c.Update(context.TODO(), cm)
					func() {
						defer func() { _ = recover() }()
						if n0, e0 := inj.MutationRequired(p.DeepCopy(), ns); e0 == nil && n0 {
							_, _ = inj.Mutate(p.DeepCopy(), ns)
						}
					}()
					cm.Data = map[string]string{"katib-config.yaml": string(yb)}
					_ = c.Update(context.TODO(), cm)
					tags = append(tags, "katib-config-changed-since-an-earlier-admission")
				}
			}
			need, err := inj.MutationRequired(p, ns)
			if err != nil || !need {
				impl = "not-required"
				return
			}
			m, err := inj.Mutate(p, ns)
			if err != nil {
				cls := "other"
				es := err.Error()
				switch {
				case strings.Contains(es, "primary container"):
					cls = "noPrimaryContainer"
				case strings.Contains(es, "katib-config") || strings.Contains(es, "metricsCollector") || strings.Contains(es, "Required value"):
					cls = "noCollectorConfig"
				case strings.Contains(es, "suggestions.kubeflow.org") || strings.Contains(es, "Suggestion"):
					cls = "noSuggestion"
				case strings.Contains(es, "experiments.kubeflow.org"):
					cls = "noExperiment"
				}
				impl = "err " + cls
				tags = append(tags, "out=err-"+cls)
				return
			}
			impl = "ok " + podShow(m)
		}()
		// the same pod through the real admission handler: JSON in, JSON patch out
		if impl != "panic" {
			hres := ""
			func() {
				defer func() {
					if e := recover(); e != nil {
						hres = "panic"
					}
				}()
				raw, _ := json.Marshal(p)
				resp := inj.Handle(context.TODO(), admission.Request{AdmissionRequest: admissionv1.AdmissionRequest{Namespace: ns, Operation: admissionv1.Create, Object: runtime.RawExtension{Raw: raw}}})
				if !resp.Allowed {
					hres = "denied"
					return
				}
				out, err := applyPatch(raw, resp)
				if err != nil {
					hres = "patch-does-not-apply"
					return
				}
				got := &corev1.Pod{}
				if err := json.Unmarshal(out, got); err != nil {
					hres = "patched-pod-unreadable"
					return
				}
				hres = "ok " + podShow(got)
			}()
			want := impl
			if strings.HasPrefix(impl, "err ") {
				want = "denied"
			}
			if strings.Join(strings.Fields(hres), " ") != strings.Join(strings.Fields(want), " ") {
				impl += " HANDLE=" + strings.ReplaceAll(hres, " ", "_")
				tags = append(tags, "HANDLE-DIFFERS")
			} else {
				tags = append(tags, "handle-agrees")
			}
		}
		return Case{Ops: []string{strings.Join(strings.Fields(op), " ")}, Impl: []string{strings.Join(strings.Fields(impl), " ")}, Tags: tags}
	}
}

type c12obj struct {
	kind, api, name string
	owners          [][3]string
}

func (o c12obj) tok() string {
	t := []string{hx(o.kind), hx(o.name), strconv.Itoa(len(o.owners))}
	for _, w := range o.owners {
		t = append(t, hx(w[0]), hx(w[1]), hx(w[2]))
	}
	return strings.Join(t, " ")
}

// c12Required drives MutationRequired over generated ownership graphs: pods owned directly by a Trial, through a Job, through
// ReplicaSet -> Deployment chains, by objects that do not exist, by a "Trial" of another API group, or by nothing.
func c12Required(rng *rand.Rand) Case {
	ns := "ns"
	kinds := [][2]string{{"Job", "batch/v1"}, {"ReplicaSet", "apps/v1"}, {"Deployment", "apps/v1"}, {"StatefulSet", "apps/v1"}}
	trialRefs := [][3]string{{"Trial", "kubeflow.org/v1beta1", ""}, {"Trial", "kubeflow.org/v1beta1", ""}, {"Trial", "kubeflow.org/v1alpha3", ""}, {"Trial", "other.org/v1beta1", ""}, {"Experiment", "kubeflow.org/v1beta1", ""}}
	names := []string{"a", "b", "c", "d"}
	store := []c12obj{}
	seen := map[string]bool{}
	n := rng.Intn(5)
	for i := 0; i < n; i++ {
		kd := pick(rng, kinds)
		o := c12obj{kind: kd[0], api: kd[1], name: pick(rng, names)}
		if seen[o.kind+"/"+o.name] {
			continue
		}
		seen[o.kind+"/"+o.name] = true
		store = append(store, o)
	}
	mkOwners := func(self int) [][3]string {
		ow := [][3]string{}
		for j := rng.Intn(3); j > 0; j-- {
			switch rng.Intn(4) {
			case 0:
				r := pick(rng, trialRefs)
				r[2] = pick(rng, names)
				ow = append(ow, r)
			case 1: // dangling
				kd := pick(rng, kinds)
				ow = append(ow, [3]string{kd[0], kd[1], "gone-" + pick(rng, names)}) // never in the store: no cycles
			default:
				if len(store) > 0 {
					// only later objects, so that the graph is acyclic (the real recursion has no cycle guard)
					cand := []c12obj{}
					for q := self + 1; q < len(store); q++ {
						cand = append(cand, store[q])
					}
					if len(cand) > 0 {
						t := pick(rng, cand)
						ow = append(ow, [3]string{t.kind, t.api, t.name})
					}
				}
			}
		}
		return ow
	}
	for i := range store {
		store[i].owners = mkOwners(i)
	}
	podO := c12obj{kind: "Pod", api: "v1", name: pick(rng, names), owners: mkOwners(-1)}
	objs := []runtime.Object{}
	trials := []string{}
	for _, nm := range names {
		if rng.Intn(3) != 0 {
			trials = append(trials, nm)
			objs = append(objs, &trialsv1beta1.Trial{ObjectMeta: metav1.ObjectMeta{Name: nm, Namespace: ns}})
		}
	}
	refs := func(ow [][3]string) []metav1.OwnerReference {
		o := []metav1.OwnerReference{}
		for _, w := range ow {
			o = append(o, metav1.OwnerReference{Kind: w[0], APIVersion: w[1], Name: w[2], UID: "u"})
		}
		return o
	}
	for _, o := range store {
		u := &unstructured.Unstructured{}
		u.SetAPIVersion(o.api)
		u.SetKind(o.kind)
		u.SetName(o.name)
		u.SetNamespace(ns)
		if len(o.owners) > 0 {
			u.SetOwnerReferences(refs(o.owners))
		}
		objs = append(objs, u)
	}
	p := &corev1.Pod{TypeMeta: metav1.TypeMeta{Kind: "Pod", APIVersion: "v1"}, ObjectMeta: metav1.ObjectMeta{Name: podO.name, Namespace: ns, OwnerReferences: refs(podO.owners)}}
	c := fake.NewClientBuilder().WithScheme(valScheme).WithRuntimeObjects(objs...).Build()
	inj := pod.NewSidecarInjector(c, admission.NewDecoder(valScheme))
	stoks := []string{strconv.Itoa(len(store))}
	for _, o := range store {
		stoks = append(stoks, o.tok())
	}
	op := "C12 required " + hxList(trials) + " " + strings.Join(stoks, " ") + " " + podO.tok()
	impl := ""
	tags := []string{"required"}
	func() {
		defer func() {
			if e := recover(); e != nil {
				impl = "panic"
			}
		}()
		need, err := inj.MutationRequired(p, ns)
		switch {
		case err != nil:
			impl = "error"
		case need:
			impl = "required"
		default:
			impl = "none"
		}
	}()
	// the handler's decision for the same pod: not a Trial's pod -> allowed without patch; lookup error -> refused
	// (the Trials of these ownership cases are bare objects, so a required mutation is not carried out here)
	if impl == "none" || impl == "error" {
		hres := ""
		func() {
			defer func() {
				if e := recover(); e != nil {
					hres = "panic"
				}
			}()
			raw, _ := json.Marshal(p)
			resp := inj.Handle(context.TODO(), admission.Request{AdmissionRequest: admissionv1.AdmissionRequest{Namespace: ns, Operation: admissionv1.Create, Object: runtime.RawExtension{Raw: raw}}})
			switch {
			case impl == "none" && (!resp.Allowed || len(resp.Patches) != 0):
				hres = "unrelated-pod-not-admitted-unmodified"
			case impl == "error" && resp.Allowed:
				hres = "lookup-error-but-allowed"
			}
		}()
		if hres != "" {
			impl += " HANDLE=" + hres
		}
	}
	tags = append(tags, "required="+impl)
	return Case{Ops: []string{op}, Impl: []string{impl}, Tags: tags}
}
