package main

import (
	"context"
	"net"
	"sync"
	"fmt"
	"math"
	"math/rand"
	"sort"
	"strconv"
	"strings"
	"time"

	commonv1beta1 "github.com/kubeflow/katib/pkg/apis/controller/common/v1beta1"
	api "github.com/kubeflow/katib/pkg/apis/manager/v1beta1"
	trialsv1beta1 "github.com/kubeflow/katib/pkg/apis/controller/trials/v1beta1"
	"github.com/kubeflow/katib/pkg/controller.v1beta1/consts"
	trialctl "github.com/kubeflow/katib/pkg/controller.v1beta1/trial"
	"github.com/kubeflow/katib/pkg/controller.v1beta1/trial/managerclient"
	"google.golang.org/grpc"
	metav1 "k8s.io/apimachinery/pkg/apis/meta/v1"
)

// an in-process DB manager holding one Trial's stored log; like the SQL back ends it filters by metric name when one is given
type c11DB struct {
	api.UnimplementedDBManagerServer
}

var (
	c11DBOnce sync.Once
	c11DBOk   bool
	c11Stored []*api.MetricLog
	c11Asked  []string
	c11FailAt = -1 // index of the query that fails in this request (-1: none)
)

func (d *c11DB) GetObservationLog(ctx context.Context, in *api.GetObservationLogRequest) (*api.GetObservationLogReply, error) {
	c11Asked = append(c11Asked, in.MetricName)
	if len(c11Asked)-1 == c11FailAt {
		return nil, fmt.Errorf("rpc error: code = Unavailable desc = database is down")
	}
	out := []*api.MetricLog{}
	for _, m := range c11Stored {
		if in.MetricName == "" || m.Metric.Name == in.MetricName {
			out = append(out, m)
		}
	}
	if len(out) == 0 {
		// what the real DB manager answers for "no rows": an ObservationLog without entries
		return &api.GetObservationLogReply{ObservationLog: &api.ObservationLog{}}, nil
	}
	return &api.GetObservationLogReply{ObservationLog: &api.ObservationLog{MetricLogs: out}}, nil
}

func startC11DB() bool {
	c11DBOnce.Do(func() {
		lis, err := net.Listen("tcp", "127.0.0.1:0")
		if err != nil {
			return
		}
		srv := grpc.NewServer()
		api.RegisterDBManagerServer(srv, &c11DB{})
		go func() { _ = srv.Serve(lis) }()
		host, port, _ := net.SplitHostPort(lis.Addr().String())
		consts.DefaultKatibDBManagerServiceNamespace = ""
		consts.DefaultKatibDBManagerServiceIP = host
		consts.DefaultKatibDBManagerServicePort = port
		c11DBOk = true
	})
	return c11DBOk
}

var c11Texts = []string{"0.5", "1e-3", "+.5", "-0", "0", "0.0", "3", "-2.25", "1E2", "100", "abc", "", "unavailable",
	"0.123456789012345", "7.", "1_0", "0x1p-2", ".5", "0.50", "-1e308", "1e400", "5e-324", "2.5", "-3", "١"}
var c11Stamps = []string{"2024-01-01T00:00:00Z", "2024-01-01T00:00:01Z", "2024-01-01T00:00:01.5Z", "2023-12-31T23:59:59+01:00",
	"2024-01-01T00:00:00.000000001Z", "0001-01-01T00:00:00Z", "2024-01-01T01:00:00+01:00", "2024-01-01T00:00:02Z"}
var c11Names = []string{"acc", "loss", "f1", "other", "Acc"}

func c11Text(rng *rand.Rand) string {
	switch rng.Intn(4) {
	case 0:
		return strconv.FormatFloat(float64(rng.Intn(7)-3)/float64(1+rng.Intn(4)), 'g', -1, 64)
	case 1:
		return strconv.Itoa(rng.Intn(5) - 2)
	}
	return pick(rng, c11Texts)
}

func c11Stamp(rng *rand.Rand) string {
	if rng.Intn(3) == 0 {
		return time.Unix(1700000000+int64(rng.Intn(4)), int64(rng.Intn(3))*500000000).UTC().Format(time.RFC3339Nano)
	}
	if rng.Intn(40) == 0 {
		return pick(rng, []string{"bad", "", "2024-01-01", "1700000000"})
	}
	return pick(rng, c11Stamps)
}

func init() {
	runners["C11"] = func(rng *rand.Rand, tier string, k int) Case {
		ns := rng.Intn(5)
		strategies := []commonv1beta1.MetricStrategy{}
		sn := []string{}
		for i := 0; i < ns; i++ {
			nm := c11Names[rng.Intn(4)]
			strategies = append(strategies, commonv1beta1.MetricStrategy{Name: nm, Value: commonv1beta1.ExtractByLatest})
			sn = append(sn, hx(nm))
		}
		maxE := 14
		if rng.Intn(20) == 0 {
			maxE = 200
		}
		ne := rng.Intn(maxE)
		logs := []*api.MetricLog{}
		es := []string{}
		tags := []string{fmt.Sprintf("strategies=%d", ns)}
		nonnum, badts := 0, 0
		for i := 0; i < ne; i++ {
			nm := c11Names[rng.Intn(len(c11Names))]
			tx := c11Text(rng)
			st := c11Stamp(rng)
			logs = append(logs, &api.MetricLog{TimeStamp: st, Metric: &api.Metric{Name: nm, Value: tx}})
			key := "none"
			if f, err := strconv.ParseFloat(tx, 64); err == nil && !math.IsNaN(f) && !math.IsInf(f, 0) {
				key = strconv.FormatInt(fkey(f), 10)
			} else {
				nonnum++
			}
			ts := "bad"
			if t, err := time.Parse(time.RFC3339Nano, st); err == nil {
				ts = strconv.FormatInt(t.Unix(), 10) + ":" + strconv.Itoa(t.Nanosecond())
			} else {
				badts++
			}
			es = append(es, fmt.Sprintf("%s %s %s %s", hx(nm), hx(tx), key, ts))
		}
		switch {
		case ne == 0:
			tags = append(tags, "len=0")
		case ne < 5:
			tags = append(tags, "len<5")
		case ne < 14:
			tags = append(tags, "len<14")
		default:
			tags = append(tags, "len>=14")
		}
		if nonnum > 0 {
			tags = append(tags, "has-nonnumeric")
		}
		if badts > 0 {
			tags = append(tags, "has-bad-timestamp")
		}
		op := fmt.Sprintf("C11 %d %s ; %d %s", ns, strings.Join(sn, " "), ne, strings.Join(es, " "))
		viaClient := ns > 0 && rng.Intn(3) == 0 && startC11DB()
		failAt := -1
		if viaClient {
			tags = append(tags, "via-manager-client")
			if rng.Intn(4) == 0 {
				// one of the client's queries fails (DB manager restart, connection blip)
				failAt = rng.Intn(ns + 1)
				op = fmt.Sprintf("C11F %d %s", failAt, strings.TrimPrefix(op, "C11 "))
				tags = append(tags, "db-manager-query-fails")
			}
		}
		var impl string
		func() {
			defer func() {
				if e := recover(); e != nil {
					impl = "panic"
				}
			}()
			fetched := logs
			if viaClient {
				// the controller's own path: the real manager client asks the DB manager metric by metric
				c11Stored, c11Asked, c11FailAt = logs, nil, failAt
				tr := &trialsv1beta1.Trial{ObjectMeta: metav1.ObjectMeta{Name: "t", Namespace: "ns"}}
				tr.Spec.Objective = &commonv1beta1.ObjectiveSpec{MetricStrategies: strategies}
				if len(strategies) > 0 {
					tr.Spec.Objective.ObjectiveMetricName = strategies[0].Name
					for _, st := range strategies[1:] {
						tr.Spec.Objective.AdditionalMetricNames = append(tr.Spec.Objective.AdditionalMetricNames, st.Name)
					}
				}
				reply, gerr := managerclient.New().GetTrialObservationLog(tr)
				if gerr != nil || reply == nil || reply.ObservationLog == nil {
					impl = "err-manager-client"
					return
				}
				fetched = reply.ObservationLog.MetricLogs
			}
			obs, err := trialctl.VerifGetMetrics(fetched, strategies)
			if err != nil {
				impl = "err"
				tags = append(tags, "out=err")
				return
			}
			out := []string{}
			for _, m := range obs.Metrics {
				out = append(out, fmt.Sprintf("%s:%s:%s:%s", hx(m.Name), hx(m.Min), hx(m.Max), hx(m.Latest)))
			}
			sort.Strings(out)
			impl = strings.TrimSpace("ok " + strings.Join(out, " "))
			tags = append(tags, "out=ok")
		}()
		return Case{Ops: []string{op}, Impl: []string{impl}, Tags: tags, Trivial: ne == 0 || ns == 0}
	}
}
