package main

// C08S: sequences of real SyncAssignments calls against an algorithm service that leaves the naming of the assignments to
// Katib (no TrialName in the reply) and proposes points from a tiny discrete space, so the same point comes back within
// one reply and across replies.  Generated names are random: they are canonicalised by first appearance (n0, n1, ...).

import (
	"context"
	"reflect"
	"fmt"
	"math/rand"
	"strings"

	commonv1beta1 "github.com/kubeflow/katib/pkg/apis/controller/common/v1beta1"
	experimentsv1beta1 "github.com/kubeflow/katib/pkg/apis/controller/experiments/v1beta1"
	suggestionsv1beta1 "github.com/kubeflow/katib/pkg/apis/controller/suggestions/v1beta1"
	api "github.com/kubeflow/katib/pkg/apis/manager/v1beta1"
	"github.com/kubeflow/katib/pkg/controller.v1beta1/suggestion/suggestionclient"
	"google.golang.org/grpc"
	"google.golang.org/grpc/codes"
	"google.golang.org/grpc/status"
	metav1 "k8s.io/apimachinery/pkg/apis/meta/v1"
)

type pointsClient struct {
	api.SuggestionClient
	rng   *rand.Rand
	kind  string // ok | short | long | error
	named bool   // the service names the assignments itself
	seq   int
	calls int
	// what the last request asked for
	lastCur, lastTot int32
	asked            bool
}

func (c *pointsClient) GetSuggestions(ctx context.Context, in *api.GetSuggestionsRequest, opts ...grpc.CallOption) (*api.GetSuggestionsReply, error) {
	c.asked, c.lastCur, c.lastTot = true, in.CurrentRequestNumber, in.TotalRequestNumber
	c.calls++
	if c.kind == "error" {
		if cd := []codes.Code{codes.Unknown, codes.DeadlineExceeded, codes.Internal, codes.Unavailable}[c.calls%4]; cd != codes.Unknown {
			return nil, status.Error(cd, "algorithm service unavailable")
		}
		return nil, fmt.Errorf("algorithm service unavailable")
	}
	n := int(in.CurrentRequestNumber)
	switch c.kind {
	case "short":
		n--
	case "long":
		n++
	}
	r := &api.GetSuggestionsReply{}
	for i := 0; i < n; i++ {
		pa := &api.GetSuggestionsReply_ParameterAssignments{Assignments: []*api.ParameterAssignment{
			{Name: "opt", Value: pick(c.rng, []string{"sgd", "adam"})}, {Name: "layers", Value: pick(c.rng, []string{"1", "2"})}}}
		if c.named {
			c.seq++
			pa.TrialName = fmt.Sprintf("svc-%d", c.seq)
		}
		r.ParameterAssignments = append(r.ParameterAssignments, pa)
	}
	return r, nil
}

func (c *pointsClient) ValidateAlgorithmSettings(ctx context.Context, in *api.ValidateAlgorithmSettingsRequest, opts ...grpc.CallOption) (*api.ValidateAlgorithmSettingsReply, error) {
	return &api.ValidateAlgorithmSettingsReply{}, nil
}

// rulesClient: an early-stopping service whose rules change from call to call (as medianstop's do while trials finish)
type rulesClient struct {
	api.EarlyStoppingClient
	n    int
	fail bool
}

func (c *rulesClient) GetEarlyStoppingRules(ctx context.Context, in *api.GetEarlyStoppingRulesRequest, opts ...grpc.CallOption) (*api.GetEarlyStoppingRulesReply, error) {
	if c.fail {
		c.n++
		if cd := []codes.Code{codes.Unknown, codes.DeadlineExceeded, codes.Internal, codes.ResourceExhausted, codes.Unavailable}[c.n%5]; cd != codes.Unknown {
			return nil, status.Error(cd, "early stopping service unavailable")
		}
		return nil, fmt.Errorf("early stopping service unavailable")
	}
	c.n++
	return &api.GetEarlyStoppingRulesReply{EarlyStoppingRules: []*api.EarlyStoppingRule{
		{Name: "acc", Value: fmt.Sprintf("0.%d", c.n), Comparison: api.ComparisonType_LESS, StartStep: int32(c.n)}}}, nil
}

func (c *rulesClient) ValidateEarlyStoppingSettings(ctx context.Context, in *api.ValidateEarlyStoppingSettingsRequest, opts ...grpc.CallOption) (*api.ValidateEarlyStoppingSettingsReply, error) {
	return &api.ValidateEarlyStoppingSettingsReply{}, nil
}

func init() {
	conv := suggestionclient.New().(*suggestionclient.General)
	runners["C08S"] = func(rng *rand.Rand, tier string, k int) Case {
		pc := &pointsClient{rng: rng, named: rng.Intn(4) == 0}
		rc := &rulesClient{}
		suggestionclient.SetVerifRPCClients(func(*grpc.ClientConn) api.SuggestionClient { return pc }, func(*grpc.ClientConn) api.EarlyStoppingClient { return rc })
		e := &experimentsv1beta1.Experiment{ObjectMeta: metav1.ObjectMeta{Name: "e", Namespace: "ns"}}
		e.Spec.Algorithm = &commonv1beta1.AlgorithmSpec{AlgorithmName: "random"}
		e.Spec.Objective = &commonv1beta1.ObjectiveSpec{Type: commonv1beta1.ObjectiveTypeMaximize, ObjectiveMetricName: "acc"}
		sg := &suggestionsv1beta1.Suggestion{ObjectMeta: metav1.ObjectMeta{Name: "e", Namespace: "ns"}}
		sg.Spec.Algorithm = e.Spec.Algorithm.DeepCopy()
		withES := rng.Intn(2) == 0
		if withES {
			e.Spec.EarlyStopping = &commonv1beta1.EarlyStoppingSpec{AlgorithmName: "medianstop"}
			sg.Spec.EarlyStopping = e.Spec.EarlyStopping.DeepCopy()
		}
		rounds := 1 + rng.Intn(6)
		req := int32(0)
		toks := []string{}
		outs := []string{}
		canon := map[string]string{}
		tags := []string{fmt.Sprintf("named-by-service=%v", pc.named), fmt.Sprintf("early-stopping=%v", withES)}
		var impl string
		func() {
			defer func() {
				if r := recover(); r != nil {
					impl = "panic"
				}
			}()
			for r := 0; r < rounds; r++ {
				if r > 0 && rng.Intn(5) == 0 {
					// the experiment controller lowers spec.requests (early-stopped Trials without observation are subtracted,
					// a Trial was deleted): nothing is requested, and nothing that is stored may go away
					req -= int32(1 + rng.Intn(2))
					if req < 0 {
						req = 0
					}
					tags = append(tags, "requests-lowered")
				} else if rng.Intn(5) != 0 {
					req += int32(1 + rng.Intn(3))
					if rng.Intn(6) == 0 {
						req += int32(3 + rng.Intn(6)) // a large step (parallelTrialCount raised a lot)
					}
				}
				pc.kind = pick(rng, []string{"ok", "ok", "ok", "ok", "short", "long", "error"})
				rc.fail = false
				if withES && pc.kind == "ok" && rng.Intn(6) == 0 {
					// the early-stopping rules RPC fails after a correct algorithm reply: the sync must fail as a whole
					rc.fail = true
					pc.kind = "rules-error"
				}
				tags = append(tags, "reply="+pc.kind)
				toks = append(toks, fmt.Sprintf("%d %s", req, pc.kind))
				sg.Spec.Requests = req
				pc.asked = false
				before := []suggestionsv1beta1.TrialAssignment{}
				for _, a := range sg.Status.Suggestions {
					before = append(before, *a.DeepCopy())
				}
				err := conv.SyncAssignments(sg, e, nil)
				names := []string{}
				prefixOk, sameOld := true, len(sg.Status.Suggestions) >= len(before)
				for i, a := range sg.Status.Suggestions {
					if _, ok := canon[a.Name]; !ok {
						canon[a.Name] = fmt.Sprintf("n%d", len(canon))
					}
					names = append(names, canon[a.Name])
					if !pc.named && !strings.HasPrefix(a.Name, "e-") {
						prefixOk = false
					}
					if i < len(before) && !reflect.DeepEqual(before[i], a) {
						sameOld = false
					}
				}
				ask := "cur=- tot=-"
				if pc.asked {
					ask = fmt.Sprintf("cur=%d tot=%d", pc.lastCur, pc.lastTot)
				}
				outs = append(outs, fmt.Sprintf("err=%s count=%d names=%s prefix=%s old=%s %s", b01(err != nil), sg.Status.SuggestionCount, dashJoin(names), b01(prefixOk), b01(sameOld), ask))
			}
			impl = strings.Join(outs, " ; ")
		}()
		op := fmt.Sprintf("C08S %d %s", rounds, strings.Join(toks, " "))
		return Case{Ops: []string{op}, Impl: []string{impl}, Tags: tags}
	}
}
