package main

// C07J: the run object the trial controller creates for hand-made Trials whose run spec carries unusual metadata
// (another namespace, no namespace, owner references of its own).  The manifest generator always writes the Trial's name
// and namespace into the run spec (C02), so the name is kept equal here; namespace and owners are what varies.

import (
	"context"
	"fmt"
	"github.com/prometheus/client_golang/prometheus"
	"math/rand"
	"reflect"
	"sort"
	"strings"

	batchv1 "k8s.io/api/batch/v1"
	corev1 "k8s.io/api/core/v1"
	metav1 "k8s.io/apimachinery/pkg/apis/meta/v1"
	"k8s.io/apimachinery/pkg/apis/meta/v1/unstructured"
	"k8s.io/apimachinery/pkg/runtime"
	"k8s.io/apimachinery/pkg/types"
	"k8s.io/client-go/tools/record"
	"sigs.k8s.io/controller-runtime/pkg/client/fake"
	"sigs.k8s.io/controller-runtime/pkg/reconcile"

	commonv1beta1 "github.com/kubeflow/katib/pkg/apis/controller/common/v1beta1"
	trialsv1beta1 "github.com/kubeflow/katib/pkg/apis/controller/trials/v1beta1"
	api "github.com/kubeflow/katib/pkg/apis/manager/v1beta1"
	trialctl "github.com/kubeflow/katib/pkg/controller.v1beta1/trial"
	trialutil "github.com/kubeflow/katib/pkg/controller.v1beta1/trial/util"
)

type quietDB struct{}

func (quietDB) GetTrialObservationLog(*trialsv1beta1.Trial) (*api.GetObservationLogReply, error) {
	return &api.GetObservationLogReply{ObservationLog: &api.ObservationLog{}}, nil
}
func (quietDB) DeleteTrialObservationLog(*trialsv1beta1.Trial) (*api.DeleteObservationLogReply, error) {
	return &api.DeleteObservationLogReply{}, nil
}
func (quietDB) ReportTrialObservationLog(*trialsv1beta1.Trial, *api.ObservationLog) (*api.ReportObservationLogReply, error) {
	return &api.ReportObservationLogReply{}, nil
}

// rowsDB: a metrics database with rows per trial; DeleteTrialObservationLog fails on request
type rowsDB struct {
	rows    map[string]int
	fail    bool
	deletes int
}

func (d *rowsDB) GetTrialObservationLog(*trialsv1beta1.Trial) (*api.GetObservationLogReply, error) {
	return &api.GetObservationLogReply{ObservationLog: &api.ObservationLog{}}, nil
}
func (d *rowsDB) DeleteTrialObservationLog(t *trialsv1beta1.Trial) (*api.DeleteObservationLogReply, error) {
	d.deletes++
	if d.fail {
		return nil, fmt.Errorf("db manager is down")
	}
	delete(d.rows, t.Name)
	return &api.DeleteObservationLogReply{}, nil
}
func (d *rowsDB) ReportTrialObservationLog(*trialsv1beta1.Trial, *api.ObservationLog) (*api.ReportObservationLogReply, error) {
	return &api.ReportObservationLogReply{}, nil
}

// c07Finalizer: a Trial under deletion that may hold further finalizers (foreground deletion, a third party's): its
// observation logs are removed from the metrics database before the katib finalizer is released
func c07Finalizer(rng *rand.Rand) Case {
	getValidator()
	extra := pick(rng, []string{"none", "none", "foregroundDeletion", "example.com/keep"})
	dbFail := rng.Intn(4) == 0
	completed := rng.Intn(2) == 0
	fins := []string{"clean-metrics-in-db"}
	if extra != "none" {
		if rng.Intn(2) == 0 {
			fins = append(fins, extra)
		} else {
			fins = append([]string{extra}, fins...)
		}
	}
	name, ns := "trial-d", "team-a"
	rs := &unstructured.Unstructured{Object: map[string]interface{}{"apiVersion": "batch/v1", "kind": "Job", "metadata": map[string]interface{}{"name": name, "namespace": ns},
		"spec": map[string]interface{}{"template": map[string]interface{}{"spec": map[string]interface{}{"restartPolicy": "Never",
			"containers": []interface{}{map[string]interface{}{"name": "training", "image": "busybox"}}}}}}}
	tr := &trialsv1beta1.Trial{
		ObjectMeta: metav1.ObjectMeta{Name: name, Namespace: ns, UID: types.UID("uid-" + name), Finalizers: fins},
		Spec: trialsv1beta1.TrialSpec{
			Objective: &commonv1beta1.ObjectiveSpec{Type: commonv1beta1.ObjectiveTypeMaximize, ObjectiveMetricName: "acc",
				MetricStrategies: []commonv1beta1.MetricStrategy{{Name: "acc", Value: commonv1beta1.ExtractByMax}}},
			PrimaryContainerName: "training",
			SuccessCondition:     `status.conditions.#(type=="Complete")#|#(status=="True")#`,
			FailureCondition:     `status.conditions.#(type=="Failed")#|#(status=="True")#`,
			RunSpec:              rs,
		},
	}
	tr.MarkTrialStatusCreated("TrialCreated", "Trial is created")
	if completed {
		tr.MarkTrialStatusSucceeded(corev1.ConditionTrue, "TrialSucceeded", "Trial has succeeded")
	}
	c := fake.NewClientBuilder().WithScheme(valScheme).WithStatusSubresource(&trialsv1beta1.Trial{}).WithObjects(tr).Build()
	db := &rowsDB{rows: map[string]int{name: 7, "another-trial": 2}, fail: dbFail}
	r := trialctl.NewVerifReconciler(c, valScheme, record.NewFakeRecorder(100), db, trialutil.NewTrialsCollector(nil, prometheus.NewRegistry()))
	op := fmt.Sprintf("C07J finalizer %s %s %s", b01(extra != "none"), b01(dbFail), b01(completed))
	impl := ""
	func() {
		defer func() {
			if e := recover(); e != nil {
				impl = "panic"
			}
		}()
		_ = c.Delete(context.TODO(), tr)
		for i := 0; i < 3; i++ {
			_, _ = r.Reconcile(context.TODO(), reconcile.Request{NamespacedName: types.NamespacedName{Namespace: ns, Name: name}})
		}
		released := true
		got := &trialsv1beta1.Trial{}
		if err := c.Get(context.TODO(), types.NamespacedName{Namespace: ns, Name: name}, got); err == nil {
			for _, f := range got.Finalizers {
				if f == "clean-metrics-in-db" {
					released = false
				}
			}
		}
		impl = fmt.Sprintf("released=%s rows=%d other=%d", b01(released), db.rows[name], db.rows["another-trial"])
	}()
	return Case{Ops: []string{op}, Impl: []string{impl}, Tags: []string{"finalizer-scenario", "extra-finalizer=" + extra, fmt.Sprintf("db-fails=%v", dbFail)}}
}

func init() {
	runners["C07J"] = func(rng *rand.Rand, tier string, k int) Case {
		getValidator()
		if k%4 == 3 {
			return c07Finalizer(rng)
		}
		trialNs := pick(rng, []string{"kubeflow", "team-a"})
		specNs := pick(rng, []string{trialNs, trialNs, trialNs, "team-x", "", "default"})
		name := pick(rng, []string{"trial-a", "exp-abcdefgh", "t"})
		owner := pick(rng, []string{"none", "none", "none", "plain", "controller"})
		image := pick(rng, []string{"busybox", "img:1"})
		md := map[string]interface{}{"name": name}
		if specNs != "" {
			md["namespace"] = specNs
		}
		switch owner {
		case "plain":
			md["ownerReferences"] = []interface{}{map[string]interface{}{"apiVersion": "v1", "kind": "ConfigMap", "name": "cm", "uid": "u-cm"}}
		case "controller":
			md["ownerReferences"] = []interface{}{map[string]interface{}{"apiVersion": "v1", "kind": "ConfigMap", "name": "cm", "uid": "u-cm", "controller": true}}
		}
		spec := map[string]interface{}{"template": map[string]interface{}{"spec": map[string]interface{}{"restartPolicy": "Never",
			"containers": []interface{}{map[string]interface{}{"name": "training", "image": image}}}}}
		rs := &unstructured.Unstructured{Object: map[string]interface{}{"apiVersion": "batch/v1", "kind": "Job", "metadata": md, "spec": spec}}
		tr := &trialsv1beta1.Trial{
			ObjectMeta: metav1.ObjectMeta{Name: name, Namespace: trialNs, UID: types.UID("uid-" + name), Finalizers: []string{"clean-metrics-in-db"}},
			Spec: trialsv1beta1.TrialSpec{
				Objective: &commonv1beta1.ObjectiveSpec{Type: commonv1beta1.ObjectiveTypeMaximize, ObjectiveMetricName: "acc",
					MetricStrategies: []commonv1beta1.MetricStrategy{{Name: "acc", Value: commonv1beta1.ExtractByMax}}},
				PrimaryContainerName: "training",
				SuccessCondition:     `status.conditions.#(type=="Complete")#|#(status=="True")#`,
				FailureCondition:     `status.conditions.#(type=="Failed")#|#(status=="True")#`,
				RunSpec:              rs.DeepCopy(),
				RetainRun:            rng.Intn(2) == 0,
			},
		}
		tr.MarkTrialStatusCreated("TrialCreated", "Trial is created")
		c := fake.NewClientBuilder().WithScheme(valScheme).WithStatusSubresource(&trialsv1beta1.Trial{}).WithObjects(tr).Build()
		r := trialctl.NewVerifReconciler(c, valScheme, record.NewFakeRecorder(100), quietDB{}, nil)
		op := fmt.Sprintf("C07J %s %s %s %s", hx(trialNs), hx(specNs), hx(name), owner)
		var impl string
		func() {
			defer func() {
				if e := recover(); e != nil {
					impl = "panic"
				}
			}()
			errs := 0
			for i := 0; i < 3; i++ {
				if _, err := r.Reconcile(context.TODO(), reconcile.Request{NamespacedName: types.NamespacedName{Namespace: trialNs, Name: name}}); err != nil {
					errs++
				}
			}
			jobs := &batchv1.JobList{}
			_ = c.List(context.TODO(), jobs)
			out := []string{}
			for _, j := range jobs.Items {
				owned := metav1.IsControlledBy(&j, tr)
				nctrl := 0
				for _, o := range j.OwnerReferences {
					if o.Controller != nil && *o.Controller {
						nctrl++
					}
				}
				u, _ := runtime.DefaultUnstructuredConverter.ToUnstructured(&j)
				gotSpec, _, _ := unstructured.NestedMap(u, "spec", "template", "spec", "containers")
				_ = gotSpec
				conts, _, _ := unstructured.NestedSlice(u, "spec", "template", "spec", "containers")
				wantConts, _, _ := unstructured.NestedSlice(rs.Object, "spec", "template", "spec", "containers")
				specEq := len(conts) == len(wantConts)
				if specEq {
					for i := range conts {
						a, b := conts[i].(map[string]interface{}), wantConts[i].(map[string]interface{})
						if a["name"] != b["name"] || a["image"] != b["image"] {
							specEq = false
						}
					}
				}
				out = append(out, fmt.Sprintf("%s/%s:%s:%d:%s", hx(j.Namespace), hx(j.Name), b01(owned), nctrl, b01(specEq)))
			}
			sort.Strings(out)
			impl = fmt.Sprintf("errs=%s jobs=%s", b01(errs > 0), dashJoin(out))
		}()
		_ = reflect.TypeOf
		return Case{Ops: []string{op}, Impl: []string{strings.Join(strings.Fields(impl), " ")}, Tags: []string{"spec-namespace=" + map[bool]string{true: "same", false: "other-or-none"}[specNs == trialNs], "owner=" + owner}}
	}
}
