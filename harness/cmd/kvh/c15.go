package main

import (
	"context"
	"encoding/json"
	"fmt"
	"math/rand"
	"reflect"
	"strings"
	"sync"
	"time"

	corev1 "k8s.io/api/core/v1"
	"k8s.io/apimachinery/pkg/api/equality"
	metav1 "k8s.io/apimachinery/pkg/apis/meta/v1"
	"k8s.io/apimachinery/pkg/apis/meta/v1/unstructured"
	"k8s.io/apimachinery/pkg/runtime"
	"k8s.io/apimachinery/pkg/util/validation/field"
	clientgoscheme "k8s.io/client-go/kubernetes/scheme"
	"sigs.k8s.io/controller-runtime/pkg/client"
	"sigs.k8s.io/controller-runtime/pkg/client/fake"

	apis "github.com/kubeflow/katib/pkg/apis/controller"
	commonv1beta1 "github.com/kubeflow/katib/pkg/apis/controller/common/v1beta1"
	experimentsv1beta1 "github.com/kubeflow/katib/pkg/apis/controller/experiments/v1beta1"
	"github.com/kubeflow/katib/pkg/controller.v1beta1/experiment/manifest"
	experimentutil "github.com/kubeflow/katib/pkg/controller.v1beta1/experiment/util"
	expwebhook "github.com/kubeflow/katib/pkg/webhook/v1beta1/experiment"
	"github.com/kubeflow/katib/pkg/webhook/v1beta1/experiment/validator"
	admissionv1 "k8s.io/api/admission/v1"
	"sigs.k8s.io/controller-runtime/pkg/webhook/admission"
)

const fullKatibConfig = `
apiVersion: config.kubeflow.org/v1beta1
kind: KatibConfig
runtime:
  suggestions:
  - algorithmName: random
    image: img/random
  - algorithmName: tpe
    image: img/tpe
  earlyStoppings:
  - algorithmName: medianstop
    image: img/medianstop
  metricsCollectors:
  - kind: StdOut
    image: img/file
  - kind: File
    image: img/file
  - kind: TensorFlowEvent
    image: img/tf
  - kind: PrometheusMetric
    image: img/prom
  - kind: Custom
    image: img/custom
`

var (
	valOnce   sync.Once
	valClient client.Client
	valScheme *runtime.Scheme
	theVal    validator.Validator
	// the same validator over a katib-config from which the `random` algorithm has been removed since the Experiment was created
	theValChanged validator.Validator
)

func getValidator() validator.Validator {
	valOnce.Do(func() {
		valScheme = runtime.NewScheme()
		_ = clientgoscheme.AddToScheme(valScheme)
		_ = apis.AddToScheme(valScheme)
		cm := &corev1.ConfigMap{ObjectMeta: metav1.ObjectMeta{Name: "katib-config", Namespace: "kubeflow"}, Data: map[string]string{"katib-config.yaml": fullKatibConfig}}
		valClient = fake.NewClientBuilder().WithScheme(valScheme).WithObjects(cm).Build()
		theVal = validator.New(manifest.New(valClient))
		cm2 := cm.DeepCopy()
		cm2.Data = map[string]string{"katib-config.yaml": strings.Replace(fullKatibConfig, "  - algorithmName: random\n    image: img/random\n", "", 1)}
		theValChanged = validator.New(manifest.New(fake.NewClientBuilder().WithScheme(valScheme).WithObjects(cm2).Build()))
	})
	return theVal
}

func baseExperiment() *experimentsv1beta1.Experiment {
	job := &unstructured.Unstructured{Object: map[string]interface{}{
		"apiVersion": "batch/v1", "kind": "Job",
		"spec": map[string]interface{}{"template": map[string]interface{}{"spec": map[string]interface{}{
			"restartPolicy": "Never",
			"containers":    []interface{}{map[string]interface{}{"name": "main", "image": "img", "command": []interface{}{"python", "--lr=${trialParameters.lr}", "--n=${trialParameters.n}"}}},
		}}},
	}}
	g := 0.9
	e := &experimentsv1beta1.Experiment{
		ObjectMeta: metav1.ObjectMeta{Name: "exp", Namespace: "ns"},
		Spec: experimentsv1beta1.ExperimentSpec{
			MaxTrialCount: i32p(6), ParallelTrialCount: i32p(2), MaxFailedTrialCount: i32p(3),
			Objective: &commonv1beta1.ObjectiveSpec{Type: commonv1beta1.ObjectiveTypeMaximize, Goal: &g, ObjectiveMetricName: "acc", AdditionalMetricNames: []string{"loss"},
				MetricStrategies: []commonv1beta1.MetricStrategy{{Name: "acc", Value: commonv1beta1.ExtractByMax}, {Name: "loss", Value: commonv1beta1.ExtractByMin}}},
			Algorithm:     &commonv1beta1.AlgorithmSpec{AlgorithmName: "random", AlgorithmSettings: []commonv1beta1.AlgorithmSetting{{Name: "random_state", Value: "1"}}},
			EarlyStopping: &commonv1beta1.EarlyStoppingSpec{AlgorithmName: "medianstop", AlgorithmSettings: []commonv1beta1.EarlyStoppingSetting{{Name: "min_trials_required", Value: "2"}}},
			Parameters: []experimentsv1beta1.ParameterSpec{
				{Name: "lr", ParameterType: experimentsv1beta1.ParameterTypeDouble, FeasibleSpace: experimentsv1beta1.FeasibleSpace{Min: "0.1", Max: "1", Step: "0.1", Distribution: experimentsv1beta1.DistributionUniform}},
				{Name: "n", ParameterType: experimentsv1beta1.ParameterTypeCategorical, FeasibleSpace: experimentsv1beta1.FeasibleSpace{List: []string{"a", "b"}, Distribution: experimentsv1beta1.DistributionUniform}}},
			TrialTemplate: &experimentsv1beta1.TrialTemplate{
				Retain: true, PrimaryContainerName: "main", PrimaryPodLabels: map[string]string{"role": "master"},
				SuccessCondition: "status.conditions.#(type==\"Complete\")#|#(status==\"True\")#", FailureCondition: "status.conditions.#(type==\"Failed\")#|#(status==\"True\")#",
				TrialParameters: []experimentsv1beta1.TrialParameterSpec{{Name: "lr", Description: "d", Reference: "lr"}, {Name: "n", Description: "d2", Reference: "n"}},
				TrialSource:     experimentsv1beta1.TrialSource{TrialSpec: job},
			},
			MetricsCollectorSpec: &commonv1beta1.MetricsCollectorSpec{
				Collector: &commonv1beta1.CollectorSpec{Kind: commonv1beta1.FileCollector},
				Source:    &commonv1beta1.SourceSpec{FileSystemPath: &commonv1beta1.FileSystemPath{Path: "/var/log/x.log", Kind: commonv1beta1.FileKind, Format: commonv1beta1.TextFormat}, Filter: &commonv1beta1.FilterSpec{MetricsFormat: []string{"([a-z]+)=(\\d+)"}}},
			},
			ResumePolicy: experimentsv1beta1.LongRunning,
		},
	}
	e.SetDefault()
	return e
}

// baseNASExperiment: the same experiment as a neural-architecture search: no spec.parameters, a spec.nasConfig, and a
// template consuming the two assignments of a NAS algorithm
func baseNASExperiment() *experimentsv1beta1.Experiment {
	e := baseExperiment()
	e.Spec.Parameters = nil
	e.Spec.NasConfig = &experimentsv1beta1.NasConfig{
		GraphConfig: experimentsv1beta1.GraphConfig{NumLayers: i32p(3), InputSizes: []int32{32, 32, 3}, OutputSizes: []int32{10}},
		Operations: []experimentsv1beta1.Operation{
			{OperationType: "convolution", Parameters: []experimentsv1beta1.ParameterSpec{
				{Name: "filter_size", ParameterType: experimentsv1beta1.ParameterTypeCategorical, FeasibleSpace: experimentsv1beta1.FeasibleSpace{List: []string{"3", "5"}}},
				{Name: "stride", ParameterType: experimentsv1beta1.ParameterTypeInt, FeasibleSpace: experimentsv1beta1.FeasibleSpace{Min: "1", Max: "2", Step: "1"}}}},
			{OperationType: "reduction", Parameters: []experimentsv1beta1.ParameterSpec{
				{Name: "pool_size", ParameterType: experimentsv1beta1.ParameterTypeInt, FeasibleSpace: experimentsv1beta1.FeasibleSpace{Min: "2", Max: "3", Step: "1"}}}}},
	}
	e.Spec.TrialTemplate.TrialParameters = []experimentsv1beta1.TrialParameterSpec{{Name: "lr", Description: "d", Reference: "architecture"}, {Name: "n", Description: "d2", Reference: "nn_config"}}
	e.SetDefault()
	return e
}

var (
	specPathsOnce sync.Once
	specPaths     []string
	nasPathsOnce  sync.Once
	nasPaths      []string
)

// nasFieldPaths: the editable places below spec.nasConfig (same enumeration as specFieldPaths, on the NAS experiment)
func nasFieldPaths() []string {
	nasPathsOnce.Do(func() {
		saved := specPaths
		specPathsOnce.Do(func() {})
		specPaths = nil
		walkSpecPaths(baseNASExperiment())
		for _, p := range specPaths {
			if strings.HasPrefix(p, "spec.NasConfig") {
				nasPaths = append(nasPaths, p)
			}
		}
		specPaths = saved
	})
	return nasPaths
}

// specFieldPaths enumerates every editable place of ExperimentSpec by reflection (so a new field is noticed)
func specFieldPaths() []string {
	specPathsOnce.Do(func() { walkSpecPaths(baseExperiment()) })
	return specPaths
}

func walkSpecPaths(b *experimentsv1beta1.Experiment) {
	{
		var walk func(v reflect.Value, path string)
		walk = func(v reflect.Value, path string) {
			switch v.Kind() {
			case reflect.Ptr:
				if !v.IsNil() {
					if v.Type().String() == "*unstructured.Unstructured" {
						specPaths = append(specPaths, path+"#unstructured")
						return
					}
					specPaths = append(specPaths, path+"#nil")
					walk(v.Elem(), path)
				}
			case reflect.Struct:
				for i := 0; i < v.NumField(); i++ {
					if v.Type().Field(i).PkgPath != "" {
						continue
					}
					walk(v.Field(i), path+"."+v.Type().Field(i).Name)
				}
			case reflect.Slice:
				specPaths = append(specPaths, path+"#drop")
				for i := 0; i < v.Len(); i++ {
					walk(v.Index(i), fmt.Sprintf("%s[%d]", path, i))
				}
			case reflect.Map:
				specPaths = append(specPaths, path+"#mapadd")
			case reflect.String, reflect.Int32, reflect.Int64, reflect.Int, reflect.Bool, reflect.Float64:
				specPaths = append(specPaths, path+"#leaf")
			}
		}
		walk(reflect.ValueOf(&b.Spec).Elem(), "spec")
	}
}

func applyEdit(v reflect.Value, segs []string, kind string) bool {
	for _, s := range segs {
		if s == "" {
			continue
		}
		name := s
		idx := -1
		if i := strings.Index(s, "["); i >= 0 {
			name = s[:i]
			fmt.Sscanf(s[i:], "[%d]", &idx)
		}
		for v.Kind() == reflect.Ptr {
			if v.IsNil() {
				return false
			}
			v = v.Elem()
		}
		v = v.FieldByName(name)
		if idx >= 0 {
			if idx >= v.Len() {
				return false
			}
			v = v.Index(idx)
		}
	}
	switch kind {
	case "nil":
		v.Set(reflect.Zero(v.Type()))
	case "drop":
		if v.Len() == 0 {
			return false
		}
		v.Set(v.Slice(0, v.Len()-1))
	case "mapadd":
		if v.IsNil() {
			v.Set(reflect.MakeMap(v.Type()))
		}
		v.SetMapIndex(reflect.ValueOf("zz"), reflect.ValueOf("zz"))
	case "unstructured":
		u := v.Interface().(*unstructured.Unstructured)
		_ = unstructured.SetNestedField(u.Object, "Always", "spec", "template", "spec", "restartPolicy")
	case "leaf":
		for v.Kind() == reflect.Ptr {
			if v.IsNil() {
				return false
			}
			v = v.Elem()
		}
		switch v.Kind() {
		case reflect.String:
			v.SetString(v.String() + "x")
		case reflect.Bool:
			v.SetBool(!v.Bool())
		case reflect.Float64:
			v.SetFloat(v.Float() + 1)
		default:
			v.SetInt(v.Int() + 1)
		}
	}
	return true
}

func isBudgetPath(p string) bool {
	return strings.HasPrefix(p, "spec.ParallelTrialCount") || strings.HasPrefix(p, "spec.MaxTrialCount") || strings.HasPrefix(p, "spec.MaxFailedTrialCount")
}

func errKinds(errs field.ErrorList) (e1, e2, e3 bool) {
	for _, e := range errs {
		s := e.Error()
		if strings.Contains(s, "Experiment can be restarted if") {
			e1 = true
		}
		if strings.Contains(s, "must be greater than status.trials count") {
			e2 = true
		}
		if strings.Contains(s, "are editable") {
			e3 = true
		}
	}
	return
}

func init() {
	runners["C15"] = func(rng *rand.Rand, tier string, k int) Case {
		v := getValidator()
		paths := specFieldPaths()
		old := baseExperiment()
		nas := rng.Intn(4) == 0
		if nas {
			// a NAS experiment; half of its non-budget edits land inside spec.nasConfig
			old = baseNASExperiment()
			if rng.Intn(2) == 0 {
				paths = nasFieldPaths()
			}
		}
		old.Spec.ParallelTrialCount = i32p(int32(1 + rng.Intn(3)))
		old.Spec.MaxTrialCount = optInt32(rng, 4, 3, 8)
		old.Spec.MaxFailedTrialCount = optInt32(rng, 3, 0, 3)
		old.Spec.ResumePolicy = pick(rng, []experimentsv1beta1.ResumePolicyType{experimentsv1beta1.LongRunning, experimentsv1beta1.FromVolume, experimentsv1beta1.NeverResume,
			experimentsv1beta1.LongRunning, experimentsv1beta1.FromVolume, experimentsv1beta1.NeverResume, ""})
		// a stored object that was never defaulted (resumePolicy ""): the update is validated as submitted, without re-defaulting
		undefaulted := old.Spec.ResumePolicy == ""
		old.Status.Trials = int32(rng.Intn(7))
		state := rng.Intn(5)
		if state == 4 {
			state = 0
		}
		mk := func(t experimentsv1beta1.ExperimentConditionType, reason string) {
			old.Status.Conditions = append(old.Status.Conditions, experimentsv1beta1.ExperimentCondition{Type: t, Status: corev1.ConditionTrue, Reason: reason})
		}
		mk(experimentsv1beta1.ExperimentCreated, "ExperimentCreated")
		switch state {
		case 1:
			mk(experimentsv1beta1.ExperimentSucceeded, experimentutil.ExperimentMaxTrialsReachedReason)
		case 2:
			mk(experimentsv1beta1.ExperimentSucceeded, experimentutil.ExperimentGoalReachedReason)
		case 3:
			mk(experimentsv1beta1.ExperimentFailed, experimentutil.ExperimentFailedReason)
		}
		if rng.Intn(6) == 0 {
			// the stored Experiment is terminating (deletionTimestamp set, a finalizer pending): updates arriving in that
			// window are judged like any other
			dt := metav1.NewTime(time.Date(2024, 1, 2, 0, 0, 0, 0, time.UTC))
			old.DeletionTimestamp = &dt
			old.Finalizers = append(old.Finalizers, "foregroundDeletion")
		}
		nw := old.DeepCopy()
		tags := []string{fmt.Sprintf("state=%d", state)}
		if old.DeletionTimestamp != nil {
			tags = append(tags, "terminating")
		}
		if nas {
			tags = append(tags, "nas")
		}
		path := "-"
		mode := rng.Intn(10)
		if mode >= 6 {
			// edits that zero pointers are only meaningful on re-defaulted objects (the validator presumes defaulting)
			undefaulted = false
		}
		if mode >= 2 && mode <= 5 || mode >= 8 { // budget edit
			for _, f := range []**int32{&nw.Spec.ParallelTrialCount, &nw.Spec.MaxTrialCount, &nw.Spec.MaxFailedTrialCount} {
				switch rng.Intn(4) {
				case 0:
					*f = nil
				case 1:
					*f = i32p(int32(rng.Intn(10)))
				}
			}
			tags = append(tags, "budget-edit")
		}
		if mode >= 6 { // edit of some other place of the spec
			path = paths[k%len(paths)]
			if rng.Intn(4) == 0 {
				path = paths[rng.Intn(len(paths))]
			}
			parts := strings.Split(path, "#")
			if !applyEdit(reflect.ValueOf(&nw.Spec).Elem(), strings.Split(strings.TrimPrefix(parts[0], "spec"), "."), parts[1]) {
				path = "-"
			} else {
				tags = append(tags, "field-edit")
			}
		}
		if mode <= 1 {
			// metadata / status only
			nw.Labels = map[string]string{"x": "y"}
			nw.Finalizers = append(nw.Finalizers, "f")
			nw.Status.Trials++
			tags = append(tags, "no-spec-edit")
		}
		if !undefaulted {
			nw.SetDefault() // the mutating webhook re-defaults the object on UPDATE
		} else {
			tags = append(tags, "stored-undefaulted")
		}
		zero := func(e *experimentsv1beta1.Experiment) *experimentsv1beta1.ExperimentSpec {
			c := e.Spec.DeepCopy()
			c.ParallelTrialCount, c.MaxTrialCount, c.MaxFailedTrialCount = nil, nil, nil
			return c
		}
		if rng.Intn(8) == 0 {
			// the environment changed since creation: katib-config no longer offers the experiment's algorithm
			v = theValChanged
			tags = append(tags, "algorithm-removed-from-katib-config-since-creation")
		}
		restEq := equality.Semantic.DeepEqual(*zero(nw), *zero(old))
		restartable := experimentutil.IsCompletedExperimentRestartable(old)
		var createOk bool
		var e1, e2, e3, admitted bool
		impl := ""
		func() {
			defer func() {
				if r := recover(); r != nil {
					impl = "panic"
					tags = append(tags, "PANIC")
				}
			}()
			createOk = len(v.ValidateExperiment(nw.DeepCopy(), nil)) == 0
			errs := v.ValidateExperiment(nw.DeepCopy(), old.DeepCopy())
			e1, e2, e3 = errKinds(errs)
			admitted = len(errs) == 0
			impl = fmt.Sprintf("e1=%s e2=%s e3=%s admitted=%s", b01(e1), b01(e2), b01(e3), b01(admitted))
			// the same update as an admission request through the webhook handler: the stored object is the request's OldObject,
			// whatever (older) copy the handler's own client would return
			if v == theVal && !undefaulted {
				stale := old.DeepCopy()
				stale.Status = experimentsv1beta1.ExperimentStatus{}
				cl := fake.NewClientBuilder().WithScheme(valScheme).WithObjects(
					&corev1.ConfigMap{ObjectMeta: metav1.ObjectMeta{Name: "katib-config", Namespace: "kubeflow"}, Data: map[string]string{"katib-config.yaml": fullKatibConfig}}, stale,
					&corev1.Namespace{ObjectMeta: metav1.ObjectMeta{Name: old.Namespace, Labels: map[string]string{"katib.kubeflow.org/metrics-collector-injection": "enabled"}}}).Build()
				h := expwebhook.NewExperimentValidator(cl, admission.NewDecoder(valScheme))
				nj, _ := json.Marshal(nw)
				oj, _ := json.Marshal(old)
				resp := h.Handle(context.TODO(), admission.Request{AdmissionRequest: admissionv1.AdmissionRequest{Namespace: old.Namespace, Name: old.Name,
					Operation: admissionv1.Update, Object: runtime.RawExtension{Raw: nj}, OldObject: runtime.RawExtension{Raw: oj}}})
				if resp.Allowed != admitted {
					impl += " WEBHOOK=" + map[bool]string{true: "allowed", false: "denied"}[resp.Allowed] + "-but-validator-said-otherwise"
					tags = append(tags, "webhook-differs")
				} else {
					tags = append(tags, "webhook-agrees")
				}
			}
		}()
		if admitted {
			tags = append(tags, "admitted")
		}
		newRest := 0
		if !restEq {
			newRest = 1
		}
		op := fmt.Sprintf("C15 %s %s %s 0 %s %s %s %d %d %d %s %s %s", optTok(old.Spec.ParallelTrialCount), optTok(old.Spec.MaxTrialCount), optTok(old.Spec.MaxFailedTrialCount),
			optTok(nw.Spec.ParallelTrialCount), optTok(nw.Spec.MaxTrialCount), optTok(nw.Spec.MaxFailedTrialCount), newRest,
			old.Status.Trials, state, hx(string(old.Spec.ResumePolicy)), b01(createOk), hx(path))
		_ = restartable
		return Case{Ops: []string{op}, Impl: []string{impl}, Tags: tags, Trivial: mode <= 1}
	}
}
