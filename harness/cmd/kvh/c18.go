package main

import (
	"context"
	"fmt"
	"math"
	"math/rand"
	"sort"
	"strconv"
	"strings"
	"time"

	api "github.com/kubeflow/katib/pkg/apis/manager/v1beta1"
	goptunasvc "github.com/kubeflow/katib/pkg/suggestion/v1beta1/goptuna"
)

type c18param struct {
	name, typ, min, max, step string
	list                      []string
	// feasibleSpace.distribution: the Go suggestion service samples every numeric parameter uniformly whatever it says
	dist api.Distribution
}

func (p c18param) tok() string {
	return fmt.Sprintf("%s %s %s %s %s %s", hx(p.name), p.typ, hx(p.min), hx(p.max), hx(p.step), hxList(p.list))
}

func (p c18param) proto() *api.ParameterSpec {
	t := map[string]api.ParameterType{"int": api.ParameterType_INT, "double": api.ParameterType_DOUBLE, "categorical": api.ParameterType_CATEGORICAL, "discrete": api.ParameterType_DISCRETE}[p.typ]
	return &api.ParameterSpec{Name: p.name, ParameterType: t, FeasibleSpace: &api.FeasibleSpace{Min: p.min, Max: p.max, Step: p.step, List: p.list, Distribution: p.dist}}
}

func genSpace18(rng *rand.Rand) []c18param {
	names := []string{"lr", "layers", "opt", "batch", "momentum"}
	rng.Shuffle(len(names), func(i, j int) { names[i], names[j] = names[j], names[i] })
	n := 1 + rng.Intn(4)
	sp := []c18param{}
	for i := 0; i < n; i++ {
		p := c18param{name: names[i]}
		switch rng.Intn(6) {
		case 0, 1:
			p.typ = "int"
			lo := rng.Intn(12) - 6
			hi := lo + 1 + rng.Intn(12)
			p.min, p.max = strconv.Itoa(lo), strconv.Itoa(hi)
			switch rng.Intn(4) {
			case 0: // dividing step
				d := []int{}
				for s := 1; s <= hi-lo; s++ {
					if (hi-lo)%s == 0 {
						d = append(d, s)
					}
				}
				p.step = strconv.Itoa(pick(rng, d))
			case 1: // any step (may not divide, may exceed the range)
				p.step = strconv.Itoa(1 + rng.Intn(hi-lo+2))
			}
		case 2, 3:
			p.typ = "double"
			type rg struct{ lo, hi string }
			r := pick(rng, []rg{{"0.1", "0.9"}, {"-1.5", "5.5"}, {"0.001", "0.1"}, {"0", "1"}, {"-0.5", "-0.25"}, {"1", "10"}, {"0.01", "0.05"}, {"2.5", "7.5"}})
			p.min, p.max = r.lo, r.hi
			switch rng.Intn(4) {
			case 0: // dividing steps for these ranges
				p.step = map[string]string{"0.1": "0.2", "-1.5": "0.5", "0.001": "0.033", "0": "0.25", "-0.5": "0.05", "1": "0.5", "0.01": "0.01", "2.5": "1.25"}[r.lo]
			case 1:
				p.step = pick(rng, []string{"0.3", "0.07", "0.4", "1.1", "0.003"})
			}
		case 4:
			p.typ = "categorical"
			p.list = pick(rng, [][]string{{"sgd", "adam", "ftrl"}, {"a", "b"}, {"relu"}, {"x y", "z,w", "ü"}})
		case 5:
			p.typ = "discrete"
			p.list = pick(rng, [][]string{{"3", "2", "6"}, {"0.1", "0.5"}, {"16", "32", "64", "128"}})
		}
		if rng.Intn(2) == 0 {
			p.dist = api.Distribution(rng.Intn(5))
		}
		sp = append(sp, p)
	}
	return sp
}

type c18trial struct {
	name  string
	asg   []*api.ParameterAssignment
	state api.TrialStatus_TrialConditionType
	value string
	noVal bool
}

func canon18(a []*api.ParameterAssignment) [][2]string {
	ps := [][2]string{}
	for _, x := range a {
		ps = append(ps, [2]string{x.Name, x.Value})
	}
	sort.Slice(ps, func(i, j int) bool { return ps[i][0] < ps[j][0] })
	return ps
}

func finite18(rng *rand.Rand) string {
	switch rng.Intn(6) {
	case 0:
		return strconv.Itoa(rng.Intn(200) - 100)
	case 1:
		return strconv.FormatFloat(rng.NormFloat64()*1e3, 'g', -1, 64)
	case 2:
		return pick(rng, []string{"1e300", "-1e300", "1e-300", "0", "-0", "0.000001"})
	default:
		return strconv.FormatFloat(rng.Float64(), 'f', 4, 64)
	}
}

func init() {
	runners["C18"] = func(rng *rand.Rand, tier string, k int) Case {
		ops := []string{"C18 new"}
		impl := []string{"ok"}
		tags := []string{}
		space := genSpace18(rng)
		algo := pick(rng, []string{"random", "tpe", "cmaes", "sobol", "tpe", "cmaes"})
		settings := []*api.AlgorithmSetting{}
		if rng.Intn(2) == 0 {
			settings = append(settings, &api.AlgorithmSetting{Name: "random_state", Value: strconv.Itoa(rng.Intn(1000))})
		}
		switch algo {
		case "tpe":
			settings = append(settings, &api.AlgorithmSetting{Name: "n_startup_trials", Value: strconv.Itoa(1 + rng.Intn(3))})
			if rng.Intn(2) == 0 {
				settings = append(settings, &api.AlgorithmSetting{Name: "n_ei_candidates", Value: strconv.Itoa(2 + rng.Intn(20))})
			}
		case "cmaes":
			if rng.Intn(2) == 0 {
				settings = append(settings, &api.AlgorithmSetting{Name: "sigma", Value: pick(rng, []string{"0.1", "0.5", "2"})})
			}
			if rng.Intn(2) == 0 {
				settings = append(settings, &api.AlgorithmSetting{Name: "restart_strategy", Value: pick(rng, []string{"none", "ipop", "bipop"})})
			}
		}
		params := []*api.ParameterSpec{}
		stoks := []string{strconv.Itoa(len(space))}
		for _, p := range space {
			params = append(params, p.proto())
			stoks = append(stoks, p.tok())
		}
		spaceTok := strings.Join(stoks, " ")
		exp := &api.Experiment{Name: "exp", Spec: &api.ExperimentSpec{
			Algorithm:      &api.AlgorithmSpec{AlgorithmName: algo, AlgorithmSettings: settings},
			Objective:      &api.ObjectiveSpec{Type: pick(rng, []api.ObjectiveType{api.ObjectiveType_MINIMIZE, api.ObjectiveType_MAXIMIZE}), ObjectiveMetricName: "acc"},
			ParameterSpecs: &api.ExperimentSpec_ParameterSpecs{Parameters: params},
		}}
		svc := goptunasvc.NewSuggestionService()
		tags = append(tags, "algo="+algo)
		if _, err := svc.ValidateAlgorithmSettings(context.TODO(), &api.ValidateAlgorithmSettingsRequest{Experiment: exp}); err != nil {
			// outside the property's quantifier (the service's own validation rejects the space / settings)
			tags = append(tags, "space-rejected")
			return Case{Ops: ops, Impl: impl, Tags: tags, Trivial: true}
		}
		trials := []*c18trial{}
		unclaimed := [][]*api.ParameterAssignment{}
		rounds := 2 + rng.Intn(5)
		if tier == "thorough" {
			rounds = 2 + rng.Intn(10)
		}
		nameCtr := 0
		terminal := []api.TrialStatus_TrialConditionType{api.TrialStatus_SUCCEEDED, api.TrialStatus_SUCCEEDED, api.TrialStatus_SUCCEEDED, api.TrialStatus_FAILED, api.TrialStatus_KILLED,
			api.TrialStatus_EARLYSTOPPED, api.TrialStatus_UNKNOWN, api.TrialStatus_METRICSUNAVAILABLE}
		for r := 0; r < rounds; r++ {
			// Katib creates trials from some of the assignments nobody was created from yet (in any order)
			rng.Shuffle(len(unclaimed), func(i, j int) { unclaimed[i], unclaimed[j] = unclaimed[j], unclaimed[i] })
			take := len(unclaimed)
			if rng.Intn(3) == 0 {
				take = rng.Intn(len(unclaimed) + 1)
			}
			for _, a := range unclaimed[:take] {
				nameCtr++
				trials = append(trials, &c18trial{name: fmt.Sprintf("exp-%c%d", 'a'+rune(rng.Intn(26)), nameCtr), asg: a, state: api.TrialStatus_CREATED})
			}
			unclaimed = unclaimed[take:]
			// states move on (mostly forward; sometimes arbitrarily)
			for _, t := range trials {
				switch t.state {
				case api.TrialStatus_CREATED:
					if rng.Intn(2) == 0 {
						t.state = api.TrialStatus_RUNNING
					}
					if rng.Intn(4) == 0 {
						t.state = pick(rng, terminal)
					}
				case api.TrialStatus_RUNNING:
					if rng.Intn(2) == 0 {
						t.state = pick(rng, terminal)
					}
				default:
					if rng.Intn(15) == 0 {
						t.state = pick(rng, append(terminal, api.TrialStatus_RUNNING, api.TrialStatus_CREATED))
					}
				}
				if t.state == api.TrialStatus_SUCCEEDED && t.value == "" {
					t.value = finite18(rng)
				}
			}
			// the request: all trials (sometimes a subset), in any order
			sel := append([]*c18trial{}, trials...)
			rng.Shuffle(len(sel), func(i, j int) { sel[i], sel[j] = sel[j], sel[i] })
			if rng.Intn(5) == 0 && len(sel) > 0 {
				sel = sel[:rng.Intn(len(sel)+1)]
			}
			nreq := rng.Intn(4)
			if r == 0 && nreq == 0 {
				nreq = 2
			}
			req := &api.GetSuggestionsRequest{Experiment: exp, CurrentRequestNumber: int32(nreq), TotalRequestNumber: int32(nreq)}
			kt := []string{strconv.Itoa(len(sel))}
			for _, t := range sel {
				st := &api.TrialStatus{Condition: t.state, Observation: &api.Observation{}}
				if rng.Intn(2) == 0 {
					st.StartTime = time.Date(2024, 1, 1, 0, 0, r, 0, time.UTC).Format(time.RFC3339)
				}
				if t.state != api.TrialStatus_CREATED && t.state != api.TrialStatus_RUNNING && rng.Intn(2) == 0 {
					st.CompletionTime = time.Date(2024, 1, 1, 0, 1, r, 0, time.UTC).Format(time.RFC3339Nano)
				}
				conv := true
				if t.state == api.TrialStatus_SUCCEEDED {
					st.Observation.Metrics = []*api.Metric{{Name: "loss", Value: "0.3"}, {Name: "acc", Value: t.value}}
				} else if rng.Intn(3) == 0 {
					st.Observation.Metrics = []*api.Metric{{Name: "acc", Value: pick(rng, []string{"unavailable", "0.5"})}}
				}
				req.Trials = append(req.Trials, &api.Trial{Name: t.name, Spec: &api.TrialSpec{ParameterAssignments: &api.TrialSpec_ParameterAssignments{Assignments: t.asg}}, Status: st})
				kt = append(kt, hx(t.name), t.state.String(), hxPairs(canon18(t.asg)), b01(conv))
			}
			var reply *api.GetSuggestionsReply
			var err error
			crashed := false
			func() {
				defer func() {
					if rec := recover(); rec != nil {
						crashed = true
					}
				}()
				reply, err = svc.GetSuggestions(context.TODO(), req)
			}()
			rl := []string{}
			nrep := 0
			if reply != nil {
				nrep = len(reply.ParameterAssignments)
				for _, pa := range reply.ParameterAssignments {
					rl = append(rl, hxPairs(canon18(pa.Assignments)))
					unclaimed = append(unclaimed, pa.Assignments)
				}
			}
			ops = append(ops, fmt.Sprintf("C18 req %s %d %s %d %s", spaceTok, nreq, strings.Join(kt, " "), nrep, strings.Join(rl, " ")))
			switch {
			case crashed:
				impl = append(impl, "panic")
				tags = append(tags, "PANIC")
			case err != nil:
				cls := "other"
				switch {
				case strings.Contains(err.Error(), "Same parameter is not found"):
					cls = "notFound"
				case strings.Contains(err.Error(), "Unexpected Trial condition"), strings.Contains(err.Error(), "No objective metric"), strings.Contains(err.Error(), "parsing"), strings.Contains(err.Error(), "Invalid categorical"):
					cls = "convert"
				}
				impl = append(impl, "err "+cls+" ## "+hx(err.Error()))
				tags = append(tags, "ERR-"+cls)
			default:
				// the service's own view: mapped names with the state and parameters of their Goptuna trial
				m := svc.VerifTrialMapping()
				ids, states, ps := svc.VerifStudyTrials()
				byID := map[int]int{}
				for i, id := range ids {
					byID[id] = i
				}
				items := []string{}
				for name, id := range m {
					i, ok := byID[id]
					if !ok {
						items = append(items, hx(name)+":?")
						continue
					}
					kv := []string{}
					names := []string{}
					for pn := range ps[i] {
						names = append(names, pn)
					}
					sort.Strings(names)
					for _, pn := range names {
						kv = append(kv, hx(pn)+"="+hx(extStr18(ps[i][pn])))
					}
					items = append(items, hx(name)+":"+states[i]+":"+strings.Join(kv, ","))
				}
				sort.Strings(items)
				ms := "-"
				if len(items) > 0 {
					ms = strings.Join(items, ";")
				}
				impl = append(impl, fmt.Sprintf("ok n=%d map=%s", len(ids), ms))
			}
			if crashed || err != nil {
				break
			}
		}
		tags = append(tags, fmt.Sprintf("rounds=%d", len(ops)-1), "trials="+bucket(len(trials)))
		return Case{Ops: ops, Impl: impl, Tags: tags}
	}
}

// extStr18 prints a Goptuna external parameter value the way sampleNextParam does
func extStr18(v interface{}) string {
	switch x := v.(type) {
	case float64:
		if math.IsNaN(x) {
			return "NaN"
		}
		return strconv.FormatFloat(x, 'f', -1, 64)
	case int:
		return strconv.Itoa(x)
	case string:
		return x
	}
	return fmt.Sprint(v)
}
