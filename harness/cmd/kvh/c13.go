package main

import (
	"encoding/json"
	"fmt"
	"math/big"
	"math/rand"
	"os"
	"path/filepath"
	"regexp"
	"strconv"
	"strings"
	"time"

	commonv1beta1 "github.com/kubeflow/katib/pkg/apis/controller/common/v1beta1"
	"github.com/kubeflow/katib/pkg/metricscollector/v1beta1/common"
	filemc "github.com/kubeflow/katib/pkg/metricscollector/v1beta1/file-metricscollector"
)

var c13Names = []string{"accuracy", "loss", "acc", "val-loss", "f1_score", "lr", "accuracy", "loss", "F1(macro)", "mAP[0.5]", "R^2", "P(top-1", "a.b", "x|y", "loss+reg", "m*", "q?"}
var c13Times = []string{"2024-05-01T10:00:00Z", "2024-05-01T10:00:01.5Z", "2024-05-01T12:00:00+02:00", "2024-05-01T10:00:00.123456789Z"}
var c13Filters = [][]string{nil, nil, {`([\w|-]+)\s*:\s*([+-]?\d*(\.\d+)?([Ee][+-]?\d+)?)`}, {`\{metricName: ([\w|-]+), metricValue: ((-?\d+)(\.\d+)?)\}`},
	{`([\w|-]+)\s*=\s*([+-]?\d*(\.\d+)?([Ee][+-]?\d+)?)`, `([\w|-]+)\s*:\s*(\d+)`}, {`(acc\w*)=(\S+)`}, {`([^=\s,;]+)=(\S+)`}, {`([^=\s,;]+)=(\S+)`}}

func c13Val(rng *rand.Rand) string {
	return pick(rng, []string{"0.5", "1", "-0.25", "1e-3", "10", ".5", "3.", "nan", "", "+7", "0.123456"})
}

func genTextLine(rng *rand.Rand, style int) string {
	var b strings.Builder
	switch rng.Intn(10) {
	case 0:
		return pick(rng, []string{"", "INFO starting epoch", "   ", "\t", "no metrics here = really", "accuracy", "=", "loss=", "\x00\xff\xfe", "a=b=c=1", "accuracy=0.9=loss=3"})
	case 1:
		// random bytes
		n := rng.Intn(30)
		bs := make([]byte, n)
		for i := range bs {
			bs[i] = byte(rng.Intn(256))
			if bs[i] == '\n' {
				bs[i] = ' '
			}
		}
		return string(bs)
	}
	switch rng.Intn(5) {
	case 0:
		b.WriteString(pick(rng, c13Times) + " ")
	case 1:
		b.WriteString(pick(rng, []string{"2024-05-01", "10:00:00", "[INFO]", "epoch"}) + " ")
	case 2:
		b.WriteString(pick(rng, c13Times) + "  ")
	}
	k := 1 + rng.Intn(3)
	// a very long line (a redrawn progress bar, a dumped tensor): longer than any reader buffer
	padAt := -1
	if rng.Intn(12) == 0 {
		padAt = rng.Intn(k + 1)
	}
	pad := func() string {
		return " " + strings.Repeat(".", 3000+rng.Intn(6000)) + pick(rng, []string{" ", "", "|"})
	}
	for i := 0; i < k; i++ {
		if i == padAt {
			b.WriteString(pad())
		}
		nm, v := pick(rng, c13Names), c13Val(rng)
		switch style {
		case 2:
			b.WriteString(fmt.Sprintf("%s : %s", nm, v))
		case 3:
			b.WriteString(fmt.Sprintf("{metricName: %s, metricValue: %s}", nm, v))
		default:
			b.WriteString(pick(rng, []string{nm + "=" + v, nm + " = " + v, nm + "=" + v + ",", nm + ": " + v}))
		}
		if i < k-1 {
			b.WriteString(pick(rng, []string{" ", ", ", ";", " noise "}))
		}
	}
	if padAt == k {
		b.WriteString(pad())
	}
	return b.String()
}

func tsCanon(ts string, inputs map[string]bool) string {
	if ts == "0001-01-01T00:00:00Z" || inputs[ts] {
		return "t:" + hx(ts)
	}
	t, err := time.Parse(time.RFC3339Nano, ts)
	if err != nil {
		return "t:" + hx(ts)
	}
	n := new(big.Int).Mul(big.NewInt(t.Unix()), big.NewInt(1000000000))
	n.Add(n, big.NewInt(int64(t.Nanosecond())))
	return "n:" + n.String()
}

// viaMain: the same log through the collector binary's own reporting path (flags -> reportMetrics -> DB manager); what the
// DB manager received is what is compared with the model.  Names or filters containing the flag separator ';' cannot be
// passed on the command line and stay on the direct path.
func viaMain(impl *string, tags *[]string, file string, metrics, filters []string, format string, show func([3]string) string) {
	for _, x := range append(append([]string{}, metrics...), filters...) {
		if strings.Contains(x, ";") || x == "" {
			*tags = append(*tags, "not-expressible-on-the-command-line")
			return
		}
	}
	resp := fmcCall(fmcReq{Path: file, Metrics: strings.Join(metrics, ";"), Filters: strings.Join(filters, ";"), Format: format, Trial: "trial-x"})
	if resp == nil {
		*tags = append(*tags, "collector-helper-missing")
		return
	}
	var h string
	switch {
	case resp.Panic != "":
		h = "panic"
	case resp.Fatal:
		h = "err"
	case !resp.Reported:
		h = "nothing-reported"
	case resp.Trial != "trial-x":
		h = "reported-under-another-trial-name"
	case resp.NilLog || resp.NilEntry:
		h = "reported-a-nil-entry"
	default:
		out := []string{}
		for _, l := range resp.Logs {
			out = append(out, show(l))
		}
		h = "ok " + strings.Join(out, " ")
	}
	h = strings.Join(strings.Fields(h), " ")
	*tags = append(*tags, "via-collector-main")
	if h != strings.Join(strings.Fields(*impl), " ") {
		*tags = append(*tags, "main-differs-from-package")
	}
	*impl = h
}

func init() {
	dir, _ := os.MkdirTemp("", "kvh-c13-")
	runners["C13"] = func(rng *rand.Rand, tier string, k int) Case {
		nm := 1 + rng.Intn(3)
		if rng.Intn(60) == 0 {
			nm = 0
		}
		metrics := []string{}
		for i := 0; i < nm; i++ {
			metrics = append(metrics, pick(rng, c13Names))
		}
		tags := []string{}
		file := filepath.Join(dir, fmt.Sprintf("log-%d-%d", os.Getpid(), k))
		var op, impl string
		inputs := map[string]bool{}
		if rng.Intn(2) == 0 {
			// ---- TEXT
			fi := rng.Intn(len(c13Filters))
			filters := c13Filters[fi]
			nl := rng.Intn(8)
			lines := []string{}
			for i := 0; i < nl; i++ {
				lines = append(lines, genTextLine(rng, fi))
			}
			fl := filters
			if len(fl) == 0 {
				fl = []string{common.DefaultFilter}
			}
			regs := []*regexp.Regexp{}
			for _, f := range fl {
				regs = append(regs, regexp.MustCompile(f))
			}
			ltoks := []string{}
			for _, line := range lines {
				isM := false
				for _, m := range metrics {
					if strings.Contains(line, m) {
						isM = true
					}
				}
				tok := "none"
				ls := strings.SplitN(line, " ", 2)
				if len(ls) == 2 {
					if _, err := time.Parse(time.RFC3339Nano, ls[0]); err == nil {
						tok = hx(ls[0])
						inputs[ls[0]] = true
					}
				}
				ft := []string{}
				for _, rg := range regs {
					ms := rg.FindAllStringSubmatch(line, -1)
					mt := []string{}
					for _, kev := range ms {
						n, v := "", ""
						if len(kev) >= 3 {
							n, v = strings.TrimSpace(kev[1]), strings.TrimSpace(kev[2])
						}
						mt = append(mt, fmt.Sprintf("%d %s %s", len(kev), hx(n), hx(v)))
					}
					ft = append(ft, strings.TrimSpace(fmt.Sprintf("%d %s", len(ms), strings.Join(mt, " "))))
				}
				ltoks = append(ltoks, fmt.Sprintf("%s %s %d %s", b01(isM), tok, len(regs), strings.Join(ft, " ")))
			}
			op = fmt.Sprintf("C13 text %s %d %s", hxList(metrics), len(lines), strings.Join(ltoks, " "))
			tags = append(tags, "text", fmt.Sprintf("filter=%d", fi))
			os.WriteFile(file, []byte(strings.Join(lines, "\n")), 0o644)
			func() {
				defer func() {
					if e := recover(); e != nil {
						impl = "panic"
					}
				}()
				ol, err := filemc.CollectObservationLog(file, metrics, filters, commonv1beta1.TextFormat)
				if err != nil {
					impl = "err"
					return
				}
				out := []string{}
				for _, m := range ol.MetricLogs {
					out = append(out, fmt.Sprintf("t:%s/%s/%s", hx(m.TimeStamp), hx(m.Metric.Name), hx(m.Metric.Value)))
				}
				impl = "ok " + strings.Join(out, " ")
			}()
			viaMain(&impl, &tags, file, metrics, filters, "TEXT", func(l [3]string) string {
				return fmt.Sprintf("t:%s/%s/%s", hx(l[0]), hx(l[1]), hx(l[2]))
			})
		} else {
			// ---- JSON lines
			nl := rng.Intn(7)
			lines, ltoks := []string{}, []string{}
			for i := 0; i < nl; i++ {
				switch r := rng.Intn(12); {
				case r == 0:
					lines = append(lines, "")
					ltoks = append(ltoks, "empty")
					continue
				case r == 1 && rng.Intn(3) == 0:
					lines = append(lines, pick(rng, []string{"not json", "[1,2]", "{\"a\":", "42", "\"str\""}))
					ltoks = append(ltoks, "invalid")
					continue
				}
				obj := map[string]interface{}{}
				tsRaw := ""
				switch rng.Intn(7) {
				case 0:
				case 1:
					s := pick(rng, c13Times)
					obj["timestamp"] = s
				case 2:
					obj["timestamp"] = pick(rng, []string{"", "yesterday", "2024-05-01"})
				case 3:
					obj["timestamp"] = pick(rng, []interface{}{true, nil, []interface{}{1.0}, map[string]interface{}{"a": 1.0}})
				default:
					tsRaw = pick(rng, []string{"1638422847", "1638422847.28721", "1638422847.5", "1638422847.25", "1638422847.123456789", "0", "0.5", "-1.5", "1e30",
						"1638422847.000000001", "1638422847.1234567891", "12.75", "1638422848"})
				}
				for _, n := range c13Names {
					switch rng.Intn(5) {
					case 0:
						obj[n] = c13Val(rng)
					case 1:
						if rng.Intn(3) == 0 {
							obj[n] = pick(rng, []interface{}{0.5, true, nil})
						}
					}
				}
				if rng.Intn(12) == 0 {
					obj[pick(rng, []string{"aaa_pad", "zzz_pad"})] = strings.Repeat("x", 3000+rng.Intn(70000))
				}
				bs, _ := json.Marshal(obj)
				line := string(bs)
				if tsRaw != "" {
					// splice a raw number in (json.Marshal would re-format it)
					line = line[:len(line)-1]
					if len(obj) > 0 {
						line += ","
					}
					line += "\"timestamp\":" + tsRaw + "}"
				}
				lines = append(lines, line)
				// oracle: decode independently
				var dec map[string]interface{}
				if err := json.Unmarshal([]byte(line), &dec); err != nil {
					ltoks = append(ltoks, "invalid")
					continue
				}
				tsTok := "absent"
				if v, ok := dec["timestamp"]; ok {
					switch x := v.(type) {
					case string:
						if _, err := time.Parse(time.RFC3339Nano, x); x != "" && err == nil {
							tsTok = "str " + hx(x)
							inputs[x] = true
						} else {
							tsTok = "strbad"
						}
					case float64:
						st := strconv.FormatFloat(x, 'f', -1, 64)
						parts := strings.Split(st, ".")
						secT, fracT, digits := "x", "none", 0
						if s, err := strconv.ParseInt(parts[0], 10, 64); err == nil {
							secT = strconv.FormatInt(s, 10)
						}
						if len(parts) == 2 {
							digits = len(parts[1])
							if f, err := strconv.ParseInt(parts[1], 10, 64); err == nil {
								fracT = strconv.FormatInt(f, 10)
							} else {
								fracT = "x"
							}
						}
						tsTok = fmt.Sprintf("num %s %s %d", secT, fracT, digits)
						tags = append(tags, fmt.Sprintf("epoch-frac-digits=%d", digits))
					default:
						tsTok = "other"
					}
				}
				vt := []string{}
				for _, m := range metrics {
					if s, ok := dec[m].(string); ok {
						vt = append(vt, hx(s))
					} else {
						vt = append(vt, "none")
					}
				}
				ltoks = append(ltoks, strings.TrimSpace(fmt.Sprintf("obj %s %d %s", tsTok, len(vt), strings.Join(vt, " "))))
			}
			op = fmt.Sprintf("C13 json %s %d %s", hxList(metrics), len(lines), strings.Join(ltoks, " "))
			tags = append(tags, "json")
			os.WriteFile(file, []byte(strings.Join(lines, "\n")), 0o644)
			func() {
				defer func() {
					if e := recover(); e != nil {
						impl = "panic"
					}
				}()
				ol, err := filemc.CollectObservationLog(file, metrics, nil, commonv1beta1.JsonFormat)
				if err != nil {
					impl = "err"
					return
				}
				out := []string{}
				for _, m := range ol.MetricLogs {
					out = append(out, fmt.Sprintf("%s/%s/%s", tsCanon(m.TimeStamp, inputs), hx(m.Metric.Name), hx(m.Metric.Value)))
				}
				impl = "ok " + strings.Join(out, " ")
			}()
			viaMain(&impl, &tags, file, metrics, nil, "JSON", func(l [3]string) string {
				return fmt.Sprintf("%s/%s/%s", tsCanon(l[0], inputs), hx(l[1]), hx(l[2]))
			})
		}
		os.Remove(file)
		return Case{Ops: []string{strings.Join(strings.Fields(op), " ")}, Impl: []string{strings.Join(strings.Fields(impl), " ")}, Tags: tags, Trivial: nm == 0}
	}
}
