package main

import (
	"bytes"
	"context"
	"fmt"
	"io"
	stdlog "log"
	"math/rand"
	"net"
	"net/http"
	"sync"
	"net/http/httptest"
	"net/url"
	"regexp"
	"sort"
	"strings"

	authv1 "k8s.io/api/authorization/v1"
	corev1 "k8s.io/api/core/v1"
	metav1 "k8s.io/apimachinery/pkg/apis/meta/v1"
	"sigs.k8s.io/controller-runtime/pkg/client"
	"sigs.k8s.io/controller-runtime/pkg/client/fake"
	"sigs.k8s.io/controller-runtime/pkg/client/interceptor"

	commonv1beta1 "github.com/kubeflow/katib/pkg/apis/controller/common/v1beta1"
	experimentsv1beta1 "github.com/kubeflow/katib/pkg/apis/controller/experiments/v1beta1"
	suggestionsv1beta1 "github.com/kubeflow/katib/pkg/apis/controller/suggestions/v1beta1"
	trialsv1beta1 "github.com/kubeflow/katib/pkg/apis/controller/trials/v1beta1"
	api "github.com/kubeflow/katib/pkg/apis/manager/v1beta1"
	ui "github.com/kubeflow/katib/pkg/ui/v1beta1"
	"google.golang.org/grpc"
	"github.com/kubeflow/katib/pkg/util/v1beta1/katibclient"
)

type uiEnv struct {
	trace    []string
	nsar     int // reviews issued so far in this request
	script   string
	verified map[string]string // trial name -> namespace in which a Get of that Trial succeeded during this request
}

// an in-process DB manager: the observation-log store is keyed by trial name only (it knows nothing about namespaces)
type uiDB struct {
	api.UnimplementedDBManagerServer
}

var (
	uiDBOnce sync.Once
	uiDBAddr string
	curUIEnv *uiEnv
)

func (d *uiDB) GetObservationLog(ctx context.Context, in *api.GetObservationLogRequest) (*api.GetObservationLogReply, error) {
	if e := curUIEnv; e != nil {
		ns, ok := e.verified[in.TrialName]
		if !ok {
			ns = "-"
		}
		e.trace = append(e.trace, fmt.Sprintf("db:%s:%s", hx(in.TrialName), ns))
	}
	return &api.GetObservationLogReply{ObservationLog: &api.ObservationLog{MetricLogs: []*api.MetricLog{
		{TimeStamp: "2024-05-01T10:00:00Z", Metric: &api.Metric{Name: "acc", Value: "0.9"}}}}}, nil
}

func startUIDB() string {
	uiDBOnce.Do(func() {
		lis, err := net.Listen("tcp", "127.0.0.1:0")
		if err != nil {
			uiDBAddr = "127.0.0.1:1"
			return
		}
		srv := grpc.NewServer()
		api.RegisterDBManagerServer(srv, &uiDB{})
		go func() { _ = srv.Serve(lis) }()
		uiDBAddr = lis.Addr().String()
	})
	return uiDBAddr
}

func (e *uiEnv) allow(ns string) bool {
	switch {
	case strings.HasPrefix(e.script, "allowfirst:"):
		// resource-granular RBAC: only what the first review of the request asks for is granted
		return e.nsar == 0 && strings.TrimPrefix(e.script, "allowfirst:") == ns
	case strings.HasPrefix(e.script, "errsecond:"):
		return e.nsar == 0 && strings.TrimPrefix(e.script, "errsecond:") == ns
	case e.script == "allowall":
		return true
	case e.script == "denyall":
		return false
	case strings.HasPrefix(e.script, "allow:"):
		return strings.TrimPrefix(e.script, "allow:") == ns
	}
	return false
}

func kindName(o interface{}) string {
	t := fmt.Sprintf("%T", o)
	t = t[strings.LastIndex(t, ".")+1:]
	return strings.TrimSuffix(t, "List")
}

var nsFieldRe = regexp.MustCompile(`"(?:[Nn]amespace|ConfigMapNamespace)":"([^"]*)"`)

func init() {
	stdlog.SetOutput(io.Discard)
	type routeSpec struct {
		path   string
		h      func(*ui.KatibUIHandler) http.HandlerFunc
		method string
		query  func(ns string) url.Values
		body   func(ns string) string
	}
	q := func(kv ...string) func(string) url.Values {
		return func(ns string) url.Values {
			v := url.Values{}
			v.Set("namespace", ns)
			for i := 0; i+1 < len(kv); i += 2 {
				v.Set(kv[i], kv[i+1])
			}
			return v
		}
	}
	routes := []routeSpec{
		{"/katib/fetch_experiments/", func(k *ui.KatibUIHandler) http.HandlerFunc { return k.FetchExperiments }, "GET", q(), nil},
		{"/katib/fetch_experiment/", func(k *ui.KatibUIHandler) http.HandlerFunc { return k.FetchExperiment }, "GET", q("experimentName", "exp"), nil},
		{"/katib/fetch_trial/", func(k *ui.KatibUIHandler) http.HandlerFunc { return k.FetchTrial }, "GET", q("trialName", "exp-t1"), nil},
		{"/katib/fetch_suggestion/", func(k *ui.KatibUIHandler) http.HandlerFunc { return k.FetchSuggestion }, "GET", q("suggestionName", "exp"), nil},
		{"/katib/fetch_hp_job_info/", func(k *ui.KatibUIHandler) http.HandlerFunc { return k.FetchHPJobInfo }, "GET", q("experimentName", "exp"), nil},
		{"/katib/fetch_hp_job_trial_info/", func(k *ui.KatibUIHandler) http.HandlerFunc { return k.FetchHPJobTrialInfo }, "GET", q("trialName", "exp-t1"), nil},
		{"/katib/fetch_nas_job_info/", func(k *ui.KatibUIHandler) http.HandlerFunc { return k.FetchNASJobInfo }, "GET", q("experimentName", "exp"), nil},
		{"/katib/delete_experiment/", func(k *ui.KatibUIHandler) http.HandlerFunc { return k.DeleteExperiment }, "DELETE", q("experimentName", "exp"), nil},
		{"/katib/create_experiment/", func(k *ui.KatibUIHandler) http.HandlerFunc { return k.CreateExperiment }, "POST", nil, func(ns string) string {
			return fmt.Sprintf(`{"postData":{"apiVersion":"kubeflow.org/v1beta1","kind":"Experiment","metadata":{"name":"newexp","namespace":%q},"spec":{}}}`, ns)
		}},
		{"/katib/fetch_trial_templates/", func(k *ui.KatibUIHandler) http.HandlerFunc { return k.FetchTrialTemplates }, "GET", q(), nil},
		{"/katib/add_template/", func(k *ui.KatibUIHandler) http.HandlerFunc { return k.AddTemplate }, "POST", nil, func(ns string) string {
			return fmt.Sprintf(`{"updatedConfigMapNamespace":%q,"updatedConfigMapName":"tpl","updatedConfigMapPath":"new.yaml","updatedTemplateYaml":"a: b"}`, ns)
		}},
		{"/katib/edit_template/", func(k *ui.KatibUIHandler) http.HandlerFunc { return k.EditTemplate }, "POST", nil, func(ns string) string {
			return fmt.Sprintf(`{"updatedConfigMapNamespace":%q,"updatedConfigMapName":"tpl","configMapPath":"t.yaml","updatedConfigMapPath":"t.yaml","updatedTemplateYaml":"a: c"}`, ns)
		}},
		{"/katib/delete_template/", func(k *ui.KatibUIHandler) http.HandlerFunc { return k.DeleteTemplate }, "POST", nil, func(ns string) string {
			return fmt.Sprintf(`{"updatedConfigMapNamespace":%q,"updatedConfigMapName":"tpl","updatedConfigMapPath":"t.yaml"}`, ns)
		}},
		{"/katib/fetch_namespaces", func(k *ui.KatibUIHandler) http.HandlerFunc { return k.FetchNamespaces }, "GET", q(), nil},
	}
	runners["C20"] = func(rng *rand.Rand, tier string, k int) Case {
		getValidator()
		ui.DISABLE_AUTH = "false"
		env := &uiEnv{verified: map[string]string{}}
		curUIEnv = env
		objs := []client.Object{}
		for _, ns := range []string{"a", "b", "kubeflow"} {
			objs = append(objs, &corev1.Namespace{ObjectMeta: metav1.ObjectMeta{Name: ns}})
			objs = append(objs, &corev1.ConfigMap{ObjectMeta: metav1.ObjectMeta{Name: "tpl", Namespace: ns, Labels: map[string]string{"katib.kubeflow.org/component": "trial-templates"}},
				Data: map[string]string{"t.yaml": "x: " + ns}})
			if ns == "kubeflow" {
				continue
			}
			e := &experimentsv1beta1.Experiment{ObjectMeta: metav1.ObjectMeta{Name: "exp", Namespace: ns}}
			e.Spec.Objective = &commonv1beta1.ObjectiveSpec{ObjectiveMetricName: "acc"}
			e.Status.Conditions = []experimentsv1beta1.ExperimentCondition{{Type: experimentsv1beta1.ExperimentCreated, Status: corev1.ConditionTrue}}
			t := &trialsv1beta1.Trial{ObjectMeta: metav1.ObjectMeta{Name: "exp-t1", Namespace: ns, Labels: map[string]string{"katib.kubeflow.org/experiment": "exp"}}}
			t.Spec.Objective = e.Spec.Objective
			t.Status.Conditions = []trialsv1beta1.TrialCondition{{Type: trialsv1beta1.TrialCreated, Status: corev1.ConditionTrue}}
			// a trial that exists in this namespace only
			t2 := t.DeepCopy()
			t2.Name = "only-" + ns
			objs = append(objs, e, t, t2, &suggestionsv1beta1.Suggestion{ObjectMeta: metav1.ObjectMeta{Name: "exp", Namespace: ns}})
		}
		rec := func(verb string, o interface{}, ns string) {
			if _, ok := o.(*authv1.SubjectAccessReview); ok {
				return
			}
			env.trace = append(env.trace, fmt.Sprintf("data:%s:%s:%s", verb, kindName(o), ns))
		}
		c := fake.NewClientBuilder().WithScheme(valScheme).WithObjects(objs...).WithInterceptorFuncs(interceptor.Funcs{
			Create: func(ctx context.Context, cl client.WithWatch, obj client.Object, opts ...client.CreateOption) error {
				if sar, ok := obj.(*authv1.SubjectAccessReview); ok {
					ns := sar.Spec.ResourceAttributes.Namespace
					al := env.allow(ns)
					sar.Status.Allowed = al
					env.trace = append(env.trace, fmt.Sprintf("sar:%s:%s:%s", ns, b01(al), hx(sar.Spec.User)))
					env.nsar++
					if strings.HasPrefix(env.script, "errsecond:") && env.nsar >= 2 {
						return fmt.Errorf("the server is currently unable to handle the request (post subjectaccessreviews.authorization.k8s.io)")
					}
					return nil
				}
				rec("create", obj, obj.GetNamespace())
				return cl.Create(ctx, obj, opts...)
			},
			Get: func(ctx context.Context, cl client.WithWatch, key client.ObjectKey, obj client.Object, opts ...client.GetOption) error {
				rec("get", obj, key.Namespace)
				err := cl.Get(ctx, key, obj, opts...)
				if _, isTrial := obj.(*trialsv1beta1.Trial); isTrial && err == nil {
					env.verified[key.Name] = key.Namespace
				}
				return err
			},
			List: func(ctx context.Context, cl client.WithWatch, list client.ObjectList, opts ...client.ListOption) error {
				lo := &client.ListOptions{}
				lo.ApplyOptions(opts)
				ns := lo.Namespace
				if ns == "" {
					ns = "*"
				}
				rec("list", list, ns)
				return cl.List(ctx, list, opts...)
			},
			Update: func(ctx context.Context, cl client.WithWatch, obj client.Object, opts ...client.UpdateOption) error {
				rec("update", obj, obj.GetNamespace())
				return cl.Update(ctx, obj, opts...)
			},
			Delete: func(ctx context.Context, cl client.WithWatch, obj client.Object, opts ...client.DeleteOption) error {
				rec("delete", obj, obj.GetNamespace())
				return cl.Delete(ctx, obj, opts...)
			},
		}).Build()
		h := ui.NewVerifKatibUIHandler(katibclient.NewWithGivenClient(c), startUIDB())
		rs := routes[k%len(routes)]
		hdr := rng.Intn(4) != 0
		env.script = pick(rng, []string{"denyall", "allowall", "allow:a", "allow:b", "allow:a", "allow:b", "allowfirst:a", "allowfirst:b", "errsecond:a", "errsecond:b"})
		reqNs := pick(rng, []string{"a", "b"})
		target := rs.path
		var body io.Reader
		multi := false
		if rs.query != nil {
			v := rs.query(reqNs)
			if v.Get("trialName") != "" {
				// also trials that exist in one namespace only (the observation-log store is keyed by the bare name)
				v.Set("trialName", pick(rng, []string{"exp-t1", "exp-t1", "only-a", "only-b"}))
			}
			if rng.Intn(3) == 0 {
				// a repeated query parameter: the first value is the one that gets reviewed
				other := "a"
				if reqNs == "a" {
					other = "b"
				}
				v.Add("namespace", other)
				multi = true
			}
			target += "?" + v.Encode()
		}
		if rs.body != nil {
			body = bytes.NewBufferString(rs.body(reqNs))
			if rs.query == nil && rng.Intn(3) == 0 {
				// a stray `namespace` query parameter naming another namespace than the object in the body: what is reviewed
				// must be the namespace the data is touched in
				other := "a"
				if reqNs == "a" {
					other = "b"
				}
				target += "?namespace=" + other
				multi = true
			}
		}
		req := httptest.NewRequest(rs.method, target, body)
		// the identity header is <USERID_PREFIX><user>; the review must be made for exactly <user>
		ui.USER_PREFIX = pick(rng, []string{":", ":", "accounts.google.com:", ""})
		userName := pick(rng, []string{"alice", "alice", "bob@example.com", "cobob@example.com", "scott", "a.c"})
		if hdr {
			req.Header.Set("kubeflow-userid", ui.USER_PREFIX+userName)
		}
		w := httptest.NewRecorder()
		status := 0
		func() {
			defer func() {
				if e := recover(); e != nil {
					status = 599
				}
			}()
			rs.h(h)(w, req)
			status = w.Code
		}()
		nsSet := map[string]bool{}
		for _, m := range nsFieldRe.FindAllStringSubmatch(w.Body.String(), -1) {
			if status == 200 && m[1] != "" {
				nsSet[m[1]] = true
			}
		}
		respNs := []string{}
		for n := range nsSet {
			respNs = append(respNs, n)
		}
		sort.Strings(respNs)
		gate := "pass"
		if status == 401 {
			gate = "401"
		} else if status == 403 {
			gate = "403"
		}
		op := fmt.Sprintf("C20 %s %s %s %s %s", hx(rs.path), b01(hdr), env.script, reqNs, hx(userName))
		impl := fmt.Sprintf("gate=%s ## status=%d trace=%s respns=%s", gate, status, dashJoin(env.trace), dashJoin(respNs))
		return Case{Ops: []string{op}, Impl: []string{impl}, Tags: []string{rs.path, "script=" + env.script, fmt.Sprintf("status=%d", status), fmt.Sprintf("repeated-namespace-param=%v", multi)}, Trivial: false}
	}
}
