package main

import (
	"fmt"
	"math"
	"math/rand"
	"reflect"
	"strconv"
	"strings"
	"time"

	"github.com/prometheus/client_golang/prometheus"
	corev1 "k8s.io/api/core/v1"
	metav1 "k8s.io/apimachinery/pkg/apis/meta/v1"

	commonv1beta1 "github.com/kubeflow/katib/pkg/apis/controller/common/v1beta1"
	experimentsv1beta1 "github.com/kubeflow/katib/pkg/apis/controller/experiments/v1beta1"
	trialsv1beta1 "github.com/kubeflow/katib/pkg/apis/controller/trials/v1beta1"
	exputil "github.com/kubeflow/katib/pkg/controller.v1beta1/experiment/util"
)

var expCollector = exputil.NewExpsCollector(nil, prometheus.NewRegistry())

func fkeyTok(s string) string {
	f, err := strconv.ParseFloat(s, 64)
	if err != nil || math.IsNaN(f) || math.IsInf(f, 0) {
		return "x"
	}
	return strconv.FormatInt(fkey(f), 10)
}

var statusNums = []string{"0.5", "1e-3", "-0", "0", "3", "-2.25", "1E2", "100", "0.50", "2.5", "-3", "7", "0.91", "0.9", "1", "-1"}
var statusOdd = []string{"abc", "", "1_0", "0x1p-2"}

func statusText(rng *rand.Rand, allowOdd bool) string {
	r := rng.Intn(20)
	switch {
	case r < 3:
		return "unavailable"
	case r == 3 && allowOdd:
		return pick(rng, statusOdd)
	case r < 8:
		return strconv.Itoa(rng.Intn(7) - 3)
	}
	return pick(rng, statusNums)
}

var t0 = metav1.NewTime(time.Date(2020, 1, 1, 0, 0, 0, 0, time.UTC))

type condSpec struct {
	ty     string
	st     bool
	reason string
}

var expReasons = map[string][]string{
	"Created":    {"ExperimentCreated"},
	"Running":    {"ExperimentRunning"},
	"Restarting": {"ExperimentRestarting"},
	"Succeeded":  {"ExperimentGoalReached", "ExperimentMaxTrialsReached", "ExperimentSuggestionEndReached"},
	"Failed":     {"ExperimentFailed"},
}

// genExpConds: mostly reachable condition lists (at most one per type), sometimes arbitrary ones
func genExpConds(rng *rand.Rand, wantCompleted int) []condSpec {
	cs := []condSpec{}
	if rng.Intn(10) != 0 {
		cs = append(cs, condSpec{"Created", true, "ExperimentCreated"})
	}
	if rng.Intn(4) != 0 {
		cs = append(cs, condSpec{"Running", rng.Intn(4) != 0, "ExperimentRunning"})
	}
	if rng.Intn(6) == 0 {
		cs = append(cs, condSpec{"Restarting", true, "ExperimentRestarting"})
	}
	if wantCompleted == 1 {
		cs = append(cs, condSpec{"Succeeded", true, pick(rng, expReasons["Succeeded"])})
	} else if wantCompleted == 2 {
		cs = append(cs, condSpec{"Failed", true, "ExperimentFailed"})
	} else if rng.Intn(12) == 0 {
		// stale False verdict conditions do not make the experiment completed
		cs = append(cs, condSpec{pick(rng, []string{"Succeeded", "Failed"}), false, "ExperimentFailed"})
	}
	if rng.Intn(15) == 0 && len(cs) > 1 {
		rng.Shuffle(len(cs), func(i, j int) { cs[i], cs[j] = cs[j], cs[i] })
	}
	return cs
}

type statusGen struct {
	prop string
}

func optInt32(rng *rand.Rand, p int, lo, hi int) *int32 {
	if rng.Intn(p) == 0 {
		return nil
	}
	v := int32(lo + rng.Intn(hi-lo+1))
	return &v
}

func (g statusGen) run(rng *rand.Rand, tier string, k int) Case {
	allowOdd := rng.Intn(8) == 0 // non-numeric objective texts: correspondence only (outside the property's quantifier)
	objType := pick(rng, []string{"minimize", "maximize", "minimize", "maximize", ""})
	var goal *float64
	goalTok := "none"
	if rng.Intn(3) != 0 {
		gs := pick(rng, statusNums)
		f, _ := strconv.ParseFloat(gs, 64)
		goal = &f
		goalTok = strconv.FormatInt(fkey(f), 10)
	}
	maxT := optInt32(rng, 4, 1, 6)
	maxF := optInt32(rng, 3, 0, 4)
	wantCompleted := 0
	if rng.Intn(5) == 0 {
		wantCompleted = 1 + rng.Intn(2)
	}
	conds := genExpConds(rng, wantCompleted)
	hasCompletion := rng.Intn(3) == 0
	exp := &experimentsv1beta1.Experiment{}
	exp.Name, exp.Namespace = "e", "ns"
	exp.Spec.Objective = &commonv1beta1.ObjectiveSpec{Type: commonv1beta1.ObjectiveType(objType), Goal: goal, ObjectiveMetricName: "acc"}
	exp.Spec.MaxTrialCount, exp.Spec.MaxFailedTrialCount = maxT, maxF
	condToks := []string{}
	for _, c := range conds {
		st := corev1.ConditionFalse
		if c.st {
			st = corev1.ConditionTrue
		}
		exp.Status.Conditions = append(exp.Status.Conditions, experimentsv1beta1.ExperimentCondition{
			Type: experimentsv1beta1.ExperimentConditionType(c.ty), Status: st, Reason: c.reason, Message: "m",
			LastUpdateTime: t0, LastTransitionTime: t0})
		condToks = append(condToks, fmt.Sprintf("%s %s %s 0", c.ty, b01(c.st), hx(c.reason)))
	}
	complTok := "none"
	if hasCompletion {
		tt := t0
		exp.Status.CompletionTime = &tt
		complTok = "0"
	}
	// a stale optimal trial from an earlier reconcile
	exp.Status.CurrentOptimalTrial.BestTrialName = "stale"
	// the status is persisted between reconciles: start from stale lists and counters of an earlier reconcile
	if rng.Intn(2) == 0 {
		st := &exp.Status
		for _, l := range []*[]string{&st.KilledTrialList, &st.FailedTrialList, &st.SucceededTrialList, &st.EarlyStoppedTrialList,
			&st.RunningTrialList, &st.MetricsUnavailableTrialList, &st.PendingTrialList} {
			for j := rng.Intn(3); j > 0; j-- {
				*l = append(*l, fmt.Sprintf("old%d", rng.Intn(4)))
			}
		}
		st.Trials, st.TrialsKilled, st.TrialsFailed, st.TrialsSucceeded = int32(rng.Intn(5)), int32(rng.Intn(3)), int32(rng.Intn(3)), int32(rng.Intn(3))
		st.TrialsEarlyStopped, st.TrialsRunning, st.TrialMetricsUnavailable, st.TrialsPending = int32(rng.Intn(3)), int32(rng.Intn(3)), int32(rng.Intn(3)), int32(rng.Intn(3))
	}

	nt := rng.Intn(9)
	if rng.Intn(10) == 0 {
		nt = rng.Intn(40)
	}
	trials := &trialsv1beta1.TrialList{}
	ttoks := []string{}
	condTypes := []trialsv1beta1.TrialConditionType{trialsv1beta1.TrialKilled, trialsv1beta1.TrialFailed, trialsv1beta1.TrialSucceeded,
		trialsv1beta1.TrialEarlyStopped, trialsv1beta1.TrialRunning, trialsv1beta1.TrialMetricsUnavailable}
	avail := 0
	terminating := false
	for i := 0; i < nt; i++ {
		t := trialsv1beta1.Trial{}
		t.Name = fmt.Sprintf("t%d", i)
		if rng.Intn(6) == 0 {
			// a Trial under deletion that still holds its finalizer is listed like any other
			now := metav1.NewTime(time.Unix(1700000000, 0))
			t.DeletionTimestamp = &now
			t.Finalizers = []string{"clean-metrics-in-db"}
			terminating = true
		}
		mask := 0
		// conditions: mostly realistic (Created, Running True/False, one terminal), sometimes arbitrary subsets
		t.Status.Conditions = append(t.Status.Conditions, trialsv1beta1.TrialCondition{Type: trialsv1beta1.TrialCreated, Status: corev1.ConditionTrue})
		arbitrary := rng.Intn(4) == 0
		for bi, ct := range condTypes {
			var present, st bool
			if arbitrary {
				present = rng.Intn(3) == 0
				st = rng.Intn(3) != 0
			} else {
				present, st = false, true
			}
			if present {
				s := corev1.ConditionFalse
				if st {
					s = corev1.ConditionTrue
					if mask&(1<<bi) == 0 {
						mask |= 1 << bi
					}
				}
				t.Status.Conditions = append(t.Status.Conditions, trialsv1beta1.TrialCondition{Type: ct, Status: s})
			}
		}
		if !arbitrary {
			switch rng.Intn(8) {
			case 0: // pending
			case 1: // running
				t.Status.Conditions = append(t.Status.Conditions, trialsv1beta1.TrialCondition{Type: trialsv1beta1.TrialRunning, Status: corev1.ConditionTrue})
				mask |= 1 << 4
			default:
				bi := pick(rng, []int{0, 1, 2, 2, 2, 3, 5})
				t.Status.Conditions = append(t.Status.Conditions, trialsv1beta1.TrialCondition{Type: trialsv1beta1.TrialRunning, Status: corev1.ConditionFalse})
				t.Status.Conditions = append(t.Status.Conditions, trialsv1beta1.TrialCondition{Type: condTypes[bi], Status: corev1.ConditionTrue})
				mask |= 1 << bi
			}
		}
		// duplicates of a type: getCondition takes the first; recompute the mask exactly as the first-occurrence rule
		mask = 0
		seen := map[trialsv1beta1.TrialConditionType]bool{}
		for _, c := range t.Status.Conditions {
			if seen[c.Type] {
				continue
			}
			seen[c.Type] = true
			for bi, ct := range condTypes {
				if c.Type == ct && c.Status == corev1.ConditionTrue {
					mask |= 1 << bi
				}
			}
		}
		objName := pick(rng, []string{"acc", "acc", "acc", "loss"})
		t.Spec.Objective = &commonv1beta1.ObjectiveSpec{ObjectiveMetricName: objName}
		stoks := []string{}
		ns := rng.Intn(3)
		for j := 0; j < ns; j++ {
			sn := pick(rng, []string{"acc", "loss", "acc"})
			sv := pick(rng, []string{"min", "max", "latest", "latest", "bogus"})
			t.Spec.Objective.MetricStrategies = append(t.Spec.Objective.MetricStrategies, commonv1beta1.MetricStrategy{Name: sn, Value: commonv1beta1.MetricStrategyType(sv)})
			stoks = append(stoks, hx(sn)+" "+sv)
		}
		obsTok := "none"
		if rng.Intn(5) != 0 {
			nm := rng.Intn(3)
			obs := &commonv1beta1.Observation{}
			mt := []string{}
			for j := 0; j < nm; j++ {
				m := commonv1beta1.Metric{Name: pick(rng, []string{"acc", "loss", "acc"}), Min: statusText(rng, allowOdd), Max: statusText(rng, allowOdd), Latest: statusText(rng, allowOdd)}
				obs.Metrics = append(obs.Metrics, m)
				mt = append(mt, fmt.Sprintf("%s %s %s %s %s %s %s", hx(m.Name), hx(m.Min), fkeyTok(m.Min), hx(m.Max), fkeyTok(m.Max), hx(m.Latest), fkeyTok(m.Latest)))
			}
			t.Status.Observation = obs
			obsTok = strings.TrimSpace(fmt.Sprintf("%d %s", nm, strings.Join(mt, " ")))
			if nm > 0 {
				avail++
			}
		}
		t.Spec.ParameterAssignments = []commonv1beta1.ParameterAssignment{{Name: "p", Value: strconv.Itoa(i)}}
		trials.Items = append(trials.Items, t)
		ttoks = append(ttoks, strings.TrimSpace(fmt.Sprintf("%s %d %s %d %s %s", hx(t.Name), mask, hx(objName), ns, strings.Join(stoks, " "), obsTok)))
	}
	// the stale optimal trial may carry the name of a present trial with an outdated payload (its observation was refreshed
	// since the earlier reconcile): the payload must then be refreshed too
	staleName := "stale"
	stalePayload := []commonv1beta1.Metric{{Name: "stale-metric", Latest: "0", Min: "0", Max: "0"}}
	if len(trials.Items) > 0 && rng.Intn(2) == 0 {
		staleName = trials.Items[rng.Intn(len(trials.Items))].Name
		exp.Status.CurrentOptimalTrial.BestTrialName = staleName
		exp.Status.CurrentOptimalTrial.Observation.Metrics = stalePayload
	}
	ot := objType
	if ot == "" {
		ot = "other"
	}
	op := fmt.Sprintf("%s %s %s %s %s %d %s %s 1 %d %s", g.prop, ot, goalTok, optTok(maxT), optTok(maxF), len(conds), strings.Join(condToks, " "),
		complTok, nt, strings.Join(ttoks, " "))
	op = strings.Join(strings.Fields(op), " ")
	tags := []string{fmt.Sprintf("trials=%s", bucket(nt)), "obj=" + ot, fmt.Sprintf("completed-before=%d", wantCompleted)}
	if allowOdd {
		tags = append(tags, "nonnumeric-texts-allowed")
	}
	var impl string
	func() {
		defer func() {
			if e := recover(); e != nil {
				impl = fmt.Sprintf("panic %v", e)
			}
		}()
		err := exputil.UpdateExperimentStatus(expCollector, exp, trials)
		if err != nil {
			impl = "err"
			return
		}
		s := exp.Status
		cs := []string{}
		for _, c := range s.Conditions {
			cs = append(cs, fmt.Sprintf("%s:%s:%s", c.Type, b01(c.Status == corev1.ConditionTrue), hx(c.Reason)))
		}
		compl := "none"
		if s.CompletionTime != nil {
			if s.CompletionTime.Equal(&t0) {
				compl = "old"
			} else {
				compl = "new"
			}
		}
		best := "none"
		keptStale := s.CurrentOptimalTrial.BestTrialName == staleName && reflect.DeepEqual(s.CurrentOptimalTrial.Observation.Metrics, stalePayload)
		if s.CurrentOptimalTrial.BestTrialName != "stale" && !keptStale {
			best = hx(s.CurrentOptimalTrial.BestTrialName)
			// payload: assignments and observation must be exactly the named trial's
			for _, t := range trials.Items {
				if t.Name == s.CurrentOptimalTrial.BestTrialName {
					var om []commonv1beta1.Metric
					if t.Status.Observation != nil {
						om = t.Status.Observation.Metrics
					}
					if !reflect.DeepEqual(append([]commonv1beta1.ParameterAssignment{}, t.Spec.ParameterAssignments...), s.CurrentOptimalTrial.ParameterAssignments) ||
						!reflect.DeepEqual(append([]commonv1beta1.Metric{}, om...), s.CurrentOptimalTrial.Observation.Metrics) {
						best += "!payload-mismatch"
					}
				}
			}
		}
		// goal flag is not returned by UpdateExperimentStatus; it is visible through the conditions only
		counters := fmt.Sprintf("%d/%d/%d/%d/%d/%d/%d", s.TrialsKilled, s.TrialsFailed, s.TrialsSucceeded, s.TrialsEarlyStopped, s.TrialsRunning, s.TrialMetricsUnavailable, s.TrialsPending)
		impl = fmt.Sprintf("ok t=%d K=%s F=%s S=%s E=%s R=%s M=%s P=%s best=%s conds=%s completion=%s counters=%s", s.Trials,
			hxl(s.KilledTrialList), hxl(s.FailedTrialList), hxl(s.SucceededTrialList), hxl(s.EarlyStoppedTrialList), hxl(s.RunningTrialList),
			hxl(s.MetricsUnavailableTrialList), hxl(s.PendingTrialList), best, strings.Join(cs, ";"), compl, counters)
		last := ""
		if len(cs) > 0 {
			last = string(s.Conditions[len(s.Conditions)-1].Reason)
		}
		tags = append(tags, "last="+last)
	}()
	if terminating {
		tags = append(tags, "trial-under-deletion")
	}
	return Case{Ops: []string{op}, Impl: []string{impl}, Tags: tags, Trivial: nt == 0 || avail == 0}
}

func hxl(l []string) string {
	o := []string{}
	for _, s := range l {
		o = append(o, hx(s))
	}
	return strings.Join(o, ",")
}

func b01(b bool) string {
	if b {
		return "1"
	}
	return "0"
}

func optTok(p *int32) string {
	if p == nil {
		return "none"
	}
	return strconv.Itoa(int(*p))
}

func bucket(n int) string {
	switch {
	case n == 0:
		return "0"
	case n < 3:
		return "1-2"
	case n < 9:
		return "3-8"
	}
	return "9+"
}

func init() {
	runners["C05"] = statusGen{"C05"}.run
	runners["C03"] = statusGen{"C03"}.run
}
