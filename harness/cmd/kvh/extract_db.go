package main

// Translator for C19: enumerates every database call site of pkg/db (Exec / Query / QueryRow / Prepare on a *sql.DB or
// statement) and classifies how the statement text is built: "literal" (one string literal), "constant" (literals,
// concatenation, slicing, fmt.Sprintf whose verbs are all %d over integer counters) or "tainted" (anything else).
// The table is written to Katib/Gen/DbSites.lean; C19_sites_constant is re-checked against it on every run.

import (
	"fmt"
	"go/ast"
	"go/parser"
	"go/token"
	"os"
	"path/filepath"
	"regexp"
	"sort"
	"strings"
)

type dbSite struct {
	file   string
	line   int
	fn     string
	method string
	class  string
}

var sprintfVerb = regexp.MustCompile(`%[^d%]|%$`)

type fnAnalysis struct {
	assigns map[string][]ast.Expr // every RHS assigned to a local identifier (:=, =, +=)
	incs    map[string]bool
	params  map[string]bool
}

func analyseFn(fd *ast.FuncDecl) *fnAnalysis {
	a := &fnAnalysis{assigns: map[string][]ast.Expr{}, incs: map[string]bool{}, params: map[string]bool{}}
	if fd.Type.Params != nil {
		for _, f := range fd.Type.Params.List {
			for _, n := range f.Names {
				a.params[n.Name] = true
			}
		}
	}
	ast.Inspect(fd.Body, func(n ast.Node) bool {
		switch s := n.(type) {
		case *ast.AssignStmt:
			for i, l := range s.Lhs {
				if id, ok := l.(*ast.Ident); ok && i < len(s.Rhs) {
					a.assigns[id.Name] = append(a.assigns[id.Name], s.Rhs[i])
				} else if id, ok := l.(*ast.Ident); ok && len(s.Rhs) == 1 {
					// multi-value assignment from a call: not a constant
					a.assigns[id.Name] = append(a.assigns[id.Name], &ast.BadExpr{})
				}
			}
		case *ast.RangeStmt:
			// the key of a range over a slice is an integer index
			if id, ok := s.Key.(*ast.Ident); ok && id.Name != "_" {
				a.assigns[id.Name] = append(a.assigns[id.Name], &ast.BasicLit{Kind: token.INT, Value: "0"})
			}
		case *ast.IncDecStmt:
			if id, ok := s.X.(*ast.Ident); ok {
				a.incs[id.Name] = true
			}
		case *ast.GenDecl:
			for _, sp := range s.Specs {
				if vs, ok := sp.(*ast.ValueSpec); ok {
					for i, n := range vs.Names {
						if i < len(vs.Values) {
							a.assigns[n.Name] = append(a.assigns[n.Name], vs.Values[i])
						}
					}
				}
			}
		}
		return true
	})
	return a
}

func (a *fnAnalysis) isInt(e ast.Expr, seen map[string]bool) bool {
	switch x := e.(type) {
	case *ast.BasicLit:
		return x.Kind == token.INT
	case *ast.ParenExpr:
		return a.isInt(x.X, seen)
	case *ast.BinaryExpr:
		return a.isInt(x.X, seen) && a.isInt(x.Y, seen)
	case *ast.CallExpr:
		if id, ok := x.Fun.(*ast.Ident); ok && id.Name == "len" {
			return true
		}
	case *ast.Ident:
		if a.params[x.Name] || seen[x.Name] {
			return !a.params[x.Name]
		}
		rhs, ok := a.assigns[x.Name]
		if !ok {
			return false
		}
		seen[x.Name] = true
		for _, r := range rhs {
			if !a.isInt(r, seen) {
				return false
			}
		}
		return true
	}
	return false
}

// isConstText: the expression denotes text that is independent of every function parameter and of every call result
func (a *fnAnalysis) isConstText(e ast.Expr, seen map[string]bool) bool {
	switch x := e.(type) {
	case *ast.BasicLit:
		return x.Kind == token.STRING
	case *ast.ParenExpr:
		return a.isConstText(x.X, seen)
	case *ast.BinaryExpr:
		return x.Op == token.ADD && a.isConstText(x.X, seen) && a.isConstText(x.Y, seen)
	case *ast.SliceExpr:
		ok := a.isConstText(x.X, seen)
		for _, b := range []ast.Expr{x.Low, x.High} {
			if b != nil && !a.isInt(b, map[string]bool{}) {
				ok = false
			}
		}
		return ok
	case *ast.CallExpr:
		if sel, ok := x.Fun.(*ast.SelectorExpr); ok {
			if p, ok := sel.X.(*ast.Ident); ok && p.Name == "fmt" && sel.Sel.Name == "Sprintf" && len(x.Args) >= 1 {
				lit, ok := x.Args[0].(*ast.BasicLit)
				if !ok || lit.Kind != token.STRING || sprintfVerb.MatchString(strings.Trim(lit.Value, "\"`")) {
					return false
				}
				for _, arg := range x.Args[1:] {
					if !a.isInt(arg, map[string]bool{}) {
						return false
					}
				}
				return true
			}
		}
		return false
	case *ast.Ident:
		if a.params[x.Name] {
			return false
		}
		if seen[x.Name] {
			return true
		}
		rhs, ok := a.assigns[x.Name]
		if !ok {
			return false // a package-level or unknown identifier
		}
		seen[x.Name] = true
		for _, r := range rhs {
			if !a.isConstText(r, seen) {
				return false
			}
		}
		return true
	}
	return false
}

func extractDB(repo, out string) error {
	sites := []dbSite{}
	fset := token.NewFileSet()
	for _, dir := range []string{"pkg/db/v1beta1/mysql", "pkg/db/v1beta1/postgres", "pkg/db/v1beta1/common", "pkg/db/v1beta1"} {
		files, _ := filepath.Glob(filepath.Join(repo, dir, "*.go"))
		sort.Strings(files)
		for _, f := range files {
			if strings.HasSuffix(f, "_test.go") || strings.HasSuffix(f, "verif_hooks.go") {
				continue
			}
			af, err := parser.ParseFile(fset, f, nil, 0)
			if err != nil {
				return err
			}
			for _, d := range af.Decls {
				fd, ok := d.(*ast.FuncDecl)
				if !ok || fd.Body == nil {
					continue
				}
				an := analyseFn(fd)
				ast.Inspect(fd.Body, func(n ast.Node) bool {
					ce, ok := n.(*ast.CallExpr)
					if !ok {
						return true
					}
					sel, ok := ce.Fun.(*ast.SelectorExpr)
					if !ok {
						return true
					}
					switch sel.Sel.Name {
					case "Exec", "Query", "QueryRow", "Prepare", "ExecContext", "QueryContext", "QueryRowContext", "PrepareContext":
					default:
						return true
					}
					recv := exprString(sel.X)
					if !(strings.HasSuffix(recv, "db") || recv == "tx") {
						return true // stmt.Exec(values...) binds arguments only: its text was fixed by Prepare
					}
					if len(ce.Args) == 0 {
						return true
					}
					arg := ce.Args[0]
					if strings.HasSuffix(sel.Sel.Name, "Context") && len(ce.Args) > 1 {
						arg = ce.Args[1]
					}
					class := "tainted"
					if lit, ok := arg.(*ast.BasicLit); ok && lit.Kind == token.STRING {
						class = "literal"
					} else if an.isConstText(arg, map[string]bool{}) {
						class = "constant"
					}
					rel, _ := filepath.Rel(repo, f)
					sites = append(sites, dbSite{rel, fset.Position(ce.Pos()).Line, fd.Name.Name, sel.Sel.Name, class})
					return true
				})
			}
		}
	}
	var b strings.Builder
	b.WriteString("-- GENERATED by `kvh extract` from pkg/db of the current working tree. Do not edit.\nnamespace Katib.Gen\n")
	b.WriteString("structure DbSite where\n  file : String\n  line : Nat\n  fn : String\n  method : String\n  textClass : String\n  deriving Repr\n\n")
	b.WriteString("def dbSites : List DbSite := [\n")
	for i, s := range sites {
		sep := ","
		if i == len(sites)-1 {
			sep = ""
		}
		fmt.Fprintf(&b, "  ⟨%q, %d, %q, %q, %q⟩%s\n", s.file, s.line, s.fn, s.method, s.class, sep)
	}
	b.WriteString("]\nend Katib.Gen\n")
	return os.WriteFile(filepath.Join(out, "DbSites.lean"), []byte(b.String()), 0o644)
}

func exprString(e ast.Expr) string {
	switch x := e.(type) {
	case *ast.Ident:
		return x.Name
	case *ast.SelectorExpr:
		return exprString(x.X) + "." + x.Sel.Name
	}
	return "?"
}

func init() { extractors["db"] = extractDB }
