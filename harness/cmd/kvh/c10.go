package main

import (
	"context"
	"fmt"
	"math/rand"
	"reflect"
	"sort"
	"strconv"
	"strings"
	"time"

	"google.golang.org/grpc"
	"google.golang.org/protobuf/proto"
	corev1 "k8s.io/api/core/v1"
	metav1 "k8s.io/apimachinery/pkg/apis/meta/v1"

	commonv1beta1 "github.com/kubeflow/katib/pkg/apis/controller/common/v1beta1"
	experimentsv1beta1 "github.com/kubeflow/katib/pkg/apis/controller/experiments/v1beta1"
	suggestionsv1beta1 "github.com/kubeflow/katib/pkg/apis/controller/suggestions/v1beta1"
	trialsv1beta1 "github.com/kubeflow/katib/pkg/apis/controller/trials/v1beta1"
	api "github.com/kubeflow/katib/pkg/apis/manager/v1beta1"
	"github.com/kubeflow/katib/pkg/controller.v1beta1/suggestion/suggestionclient"
)

var c10Strs = []string{"lr", "momentum", "0.1", "1", "", "x y", "a,b", "ü", "0.001", "10", "layers", "random_state"}
var c10Ptypes = []string{"double", "int", "discrete", "categorical", "unknown", "", "Double"}
var c10Dists = []string{"uniform", "logUniform", "normal", "logNormal", "unknown", "", "bogus"}
var c10ObjTypes = []string{"maximize", "minimize", "", "Maximize"}

func hxPairs(ps [][2]string) string {
	o := []string{strconv.Itoa(len(ps))}
	for _, p := range ps {
		o = append(o, hx(p[0]), hx(p[1]))
	}
	return strings.Join(o, " ")
}
func hxList(l []string) string {
	o := []string{strconv.Itoa(len(l))}
	for _, s := range l {
		o = append(o, hx(s))
	}
	return strings.Join(o, " ")
}
func showPairsGo(ps [][2]string) string {
	if len(ps) == 0 {
		return "-"
	}
	o := []string{}
	for _, p := range ps {
		o = append(o, hx(p[0])+":"+hx(p[1]))
	}
	return strings.Join(o, ",")
}
func showStrsGo(l []string) string {
	if len(l) == 0 {
		return "-"
	}
	o := []string{}
	for _, s := range l {
		o = append(o, hx(s))
	}
	return strings.Join(o, ",")
}
func showIntsGo(l []int32) string {
	if len(l) == 0 {
		return "-"
	}
	o := []string{}
	for _, s := range l {
		o = append(o, strconv.Itoa(int(s)))
	}
	return strings.Join(o, ",")
}

func genParam(rng *rand.Rand) (experimentsv1beta1.ParameterSpec, string) {
	p := experimentsv1beta1.ParameterSpec{Name: pick(rng, c10Strs), ParameterType: experimentsv1beta1.ParameterType(pick(rng, c10Ptypes))}
	p.FeasibleSpace = experimentsv1beta1.FeasibleSpace{Min: pick(rng, c10Strs), Max: pick(rng, c10Strs), Step: pick(rng, c10Strs),
		Distribution: experimentsv1beta1.Distribution(pick(rng, c10Dists))}
	for i := rng.Intn(3); i > 0; i-- {
		p.FeasibleSpace.List = append(p.FeasibleSpace.List, pick(rng, c10Strs))
	}
	tok := fmt.Sprintf("%s %s %s %s %s %s %s", hx(p.Name), hx(string(p.ParameterType)), hx(p.FeasibleSpace.Min), hx(p.FeasibleSpace.Max),
		hx(p.FeasibleSpace.Step), hx(string(p.FeasibleSpace.Distribution)), hxList(p.FeasibleSpace.List))
	return p, tok
}

func showParamGo(p *api.ParameterSpec) string {
	return strings.Join([]string{hx(p.Name), "ParameterType_" + p.ParameterType.String(), hx(p.FeasibleSpace.Min), hx(p.FeasibleSpace.Max), hx(p.FeasibleSpace.Step),
		"Distribution_" + p.FeasibleSpace.Distribution.String(), showStrsGo(p.FeasibleSpace.List)}, "/")
}
func showParamsGo(ps []*api.ParameterSpec) string {
	if len(ps) == 0 {
		return "-"
	}
	o := []string{}
	for _, p := range ps {
		o = append(o, showParamGo(p))
	}
	return strings.Join(o, ";")
}

func fmtGoal(g float64) string { return strconv.FormatFloat(g, 'g', -1, 64) }

func genObjective(rng *rand.Rand) (*commonv1beta1.ObjectiveSpec, string) {
	o := &commonv1beta1.ObjectiveSpec{Type: commonv1beta1.ObjectiveType(pick(rng, c10ObjTypes)), ObjectiveMetricName: pick(rng, []string{"acc", "loss", ""})}
	goal := "none"
	if rng.Intn(3) != 0 {
		g := pick(rng, []float64{0, 0.5, -1.25, 1e-3, 100})
		o.Goal = &g
		goal = hx(fmtGoal(g))
	}
	for i := rng.Intn(3); i > 0; i-- {
		o.AdditionalMetricNames = append(o.AdditionalMetricNames, pick(rng, c10Strs))
	}
	return o, fmt.Sprintf("%s %s %s %s", hx(string(o.Type)), goal, hx(o.ObjectiveMetricName), hxList(o.AdditionalMetricNames))
}

func showPExpGo(p *api.Experiment) string {
	sp := p.Spec
	set := [][2]string{}
	for _, s := range sp.Algorithm.AlgorithmSettings {
		set = append(set, [2]string{s.Name, s.Value})
	}
	nas := "none"
	if sp.NasConfig != nil {
		ops := []string{}
		if sp.NasConfig.Operations != nil {
			for _, o := range sp.NasConfig.Operations.Operation {
				ops = append(ops, hx(o.OperationType)+"^"+showParamsGo(o.ParameterSpecs.Parameters))
			}
		}
		opsS := "-"
		if len(ops) > 0 {
			opsS = strings.Join(ops, "&")
		}
		nas = fmt.Sprintf("L=%d~in=%s~out=%s~ops=%s", sp.NasConfig.GraphConfig.NumLayers, showIntsGo(sp.NasConfig.GraphConfig.InputSizes), showIntsGo(sp.NasConfig.GraphConfig.OutputSizes), opsS)
	}
	es := "none"
	if sp.EarlyStopping != nil {
		ss := [][2]string{}
		for _, s := range sp.EarlyStopping.AlgorithmSettings {
			ss = append(ss, [2]string{s.Name, s.Value})
		}
		es = hx(sp.EarlyStopping.AlgorithmName) + "|" + showPairsGo(ss)
	}
	return fmt.Sprintf("name=%s alg=%s settings=%s objType=ObjectiveType_%s goal=%s metric=%s add=%s params=%s nas=%s par=%d max=%d es=%s",
		hx(p.Name), hx(sp.Algorithm.AlgorithmName), showPairsGo(set), sp.Objective.Type.String(), hx(fmtGoal(sp.Objective.Goal)), hx(sp.Objective.ObjectiveMetricName),
		showStrsGo(sp.Objective.AdditionalMetricNames), showParamsGo(sp.ParameterSpecs.Parameters), nas, sp.ParallelTrialCount, sp.MaxTrialCount, es)
}

func genExpForConv(rng *rand.Rand) (*experimentsv1beta1.Experiment, string) {
	e := &experimentsv1beta1.Experiment{ObjectMeta: metav1.ObjectMeta{Name: pick(rng, []string{"exp", "e-1", ""}), Namespace: "ns"}}
	set := [][2]string{}
	alg := &commonv1beta1.AlgorithmSpec{AlgorithmName: pick(rng, []string{"random", "tpe", "hyperband", ""})}
	for i := rng.Intn(4); i > 0; i-- {
		s := [2]string{pick(rng, c10Strs), pick(rng, c10Strs)}
		set = append(set, s)
		alg.AlgorithmSettings = append(alg.AlgorithmSettings, commonv1beta1.AlgorithmSetting{Name: s[0], Value: s[1]})
	}
	e.Spec.Algorithm = alg
	obj, objTok := genObjective(rng)
	e.Spec.Objective = obj
	ptoks := []string{}
	np := rng.Intn(4)
	for i := 0; i < np; i++ {
		p, t := genParam(rng)
		e.Spec.Parameters = append(e.Spec.Parameters, p)
		ptoks = append(ptoks, t)
	}
	nasTok := "none"
	if rng.Intn(3) == 0 {
		nc := &experimentsv1beta1.NasConfig{}
		nl := "none"
		if rng.Intn(2) == 0 {
			v := int32(rng.Intn(9))
			nc.GraphConfig.NumLayers = &v
			nl = strconv.Itoa(int(v))
		}
		ins, outs := []string{}, []string{}
		for i := rng.Intn(3); i > 0; i-- {
			v := int32(rng.Intn(64))
			nc.GraphConfig.InputSizes = append(nc.GraphConfig.InputSizes, v)
			ins = append(ins, strconv.Itoa(int(v)))
		}
		for i := rng.Intn(3); i > 0; i-- {
			v := int32(rng.Intn(64))
			nc.GraphConfig.OutputSizes = append(nc.GraphConfig.OutputSizes, v)
			outs = append(outs, strconv.Itoa(int(v)))
		}
		optoks := []string{}
		nops := rng.Intn(3)
		for i := 0; i < nops; i++ {
			op := experimentsv1beta1.Operation{OperationType: pick(rng, []string{"conv", "pool", ""})}
			pt := []string{}
			k := rng.Intn(3)
			for j := 0; j < k; j++ {
				p, t := genParam(rng)
				op.Parameters = append(op.Parameters, p)
				pt = append(pt, t)
			}
			nc.Operations = append(nc.Operations, op)
			optoks = append(optoks, strings.TrimSpace(fmt.Sprintf("%s %d %s", hx(op.OperationType), k, strings.Join(pt, " "))))
		}
		e.Spec.NasConfig = nc
		nasTok = strings.TrimSpace(fmt.Sprintf("nas %s %d %s %d %s %d %s", nl, len(ins), strings.Join(ins, " "), len(outs), strings.Join(outs, " "), nops, strings.Join(optoks, " ")))
	}
	e.Spec.ParallelTrialCount = optInt32(rng, 3, 1, 5)
	e.Spec.MaxTrialCount = optInt32(rng, 3, 1, 9)
	e.Spec.MaxFailedTrialCount = optInt32(rng, 3, 0, 3)
	esTok := "none"
	if rng.Intn(3) == 0 {
		es := &commonv1beta1.EarlyStoppingSpec{AlgorithmName: "medianstop"}
		ss := [][2]string{}
		for i := rng.Intn(3); i > 0; i-- {
			s := [2]string{pick(rng, c10Strs), pick(rng, c10Strs)}
			ss = append(ss, s)
			es.AlgorithmSettings = append(es.AlgorithmSettings, commonv1beta1.EarlyStoppingSetting{Name: s[0], Value: s[1]})
		}
		e.Spec.EarlyStopping = es
		esTok = hx(es.AlgorithmName) + " " + hxPairs(ss)
	}
	tok := fmt.Sprintf("%s %s %s %s %d %s %s %s %s %s", hx(e.Name), hx(alg.AlgorithmName), hxPairs(set), objTok, np, strings.Join(ptoks, " "), nasTok,
		optTok(e.Spec.ParallelTrialCount), optTok(e.Spec.MaxTrialCount), esTok)
	return e, strings.Join(strings.Fields(tok), " ")
}

// recSugClient records the request of every GetSuggestions call and answers with scripted settings
type recSugClient struct {
	api.SuggestionClient
	sent    []*api.GetSuggestionsRequest
	replies [][][2]string
}

func (c *recSugClient) GetSuggestions(ctx context.Context, in *api.GetSuggestionsRequest, opts ...grpc.CallOption) (*api.GetSuggestionsReply, error) {
	c.sent = append(c.sent, proto.Clone(in).(*api.GetSuggestionsRequest))
	r := &api.GetSuggestionsReply{}
	for i := int32(0); i < in.CurrentRequestNumber; i++ {
		r.ParameterAssignments = append(r.ParameterAssignments, &api.GetSuggestionsReply_ParameterAssignments{TrialName: fmt.Sprintf("t%d-%d", len(c.sent), i)})
	}
	k := len(c.sent) - 1
	if k < len(c.replies) && c.replies[k] != nil {
		r.Algorithm = &api.AlgorithmSpec{}
		for _, s := range c.replies[k] {
			r.Algorithm.AlgorithmSettings = append(r.Algorithm.AlgorithmSettings, &api.AlgorithmSetting{Name: s[0], Value: s[1]})
		}
	}
	return r, nil
}

var consumedLocally = map[string]string{
	"Objective.MetricStrategies": "consumed controller-side: selects the value reported per metric (C10_metric_value)",
	"MaxFailedTrialCount":        "not part of the request message (experiment controller only)",
	"ResumePolicy":               "not part of the request message (controllers only)",
	"TrialTemplate":              "not part of the request message (experiment controller only)",
	"MetricsCollectorSpec":       "not part of the request message (trial controller / webhook only)",
}

func init() {
	conv := suggestionclient.New().(*suggestionclient.General)
	runners["C10"] = func(rng *rand.Rand, tier string, k int) Case {
		tags := []string{}
		var op, impl string
		mode := rng.Intn(10)
		func() {
			defer func() {
				if e := recover(); e != nil {
					impl = fmt.Sprintf("panic %v", e)
				}
			}()
			switch {
			case mode <= 3: // experiment conversion with suggestion settings
				e, tok := genExpForConv(rng)
				sug := [][2]string{}
				st := []commonv1beta1.AlgorithmSetting{}
				for i := rng.Intn(4); i > 0; i-- {
					s := [2]string{pick(rng, c10Strs), pick(rng, c10Strs)}
					sug = append(sug, s)
					st = append(st, commonv1beta1.AlgorithmSetting{Name: s[0], Value: s[1]})
				}
				op = "C10 exp " + tok + " " + hxPairs(sug)
				tags = append(tags, "exp")
				// the request is built by SyncAssignments: overlay + ConvertExperiment; capture it through the fake RPC client
				rc := &recSugClient{}
				suggestionclient.SetVerifRPCClients(func(*grpc.ClientConn) api.SuggestionClient { return rc }, func(*grpc.ClientConn) api.EarlyStoppingClient { return &fakeES{s: &sim{}} })
				sg := &suggestionsv1beta1.Suggestion{ObjectMeta: metav1.ObjectMeta{Name: "s", Namespace: "ns"}}
				sg.Spec.Requests = 1
				sg.Spec.Algorithm = e.Spec.Algorithm.DeepCopy()
				sg.Status.AlgorithmSettings = st
				if err := conv.SyncAssignments(sg, e, nil); err != nil || len(rc.sent) != 1 {
					impl = fmt.Sprintf("err %v", err)
					return
				}
				impl = "ok " + showPExpGo(rc.sent[0].Experiment)
			case mode <= 6: // trials
				n := rng.Intn(5)
				ts := []trialsv1beta1.Trial{}
				toks := []string{}
				for i := 0; i < n; i++ {
					t := trialsv1beta1.Trial{ObjectMeta: metav1.ObjectMeta{Name: fmt.Sprintf("t%d", i)}}
					obj, objTok := genObjective(rng)
					strat := [][2]string{}
					for j := rng.Intn(3); j > 0; j-- {
						s := [2]string{pick(rng, []string{"acc", "loss"}), pick(rng, []string{"min", "max", "latest", "bogus"})}
						strat = append(strat, s)
						obj.MetricStrategies = append(obj.MetricStrategies, commonv1beta1.MetricStrategy{Name: s[0], Value: commonv1beta1.MetricStrategyType(s[1])})
					}
					t.Spec.Objective = obj
					asg := [][2]string{}
					for j := rng.Intn(3); j > 0; j-- {
						a := [2]string{pick(rng, c10Strs), pick(rng, c10Strs)}
						asg = append(asg, a)
						t.Spec.ParameterAssignments = append(t.Spec.ParameterAssignments, commonv1beta1.ParameterAssignment{Name: a[0], Value: a[1]})
					}
					lbl := [][2]string{}
					if rng.Intn(2) == 0 {
						t.Spec.Labels = map[string]string{}
						for j := rng.Intn(3); j > 0; j-- {
							t.Spec.Labels[pick(rng, []string{"a", "b", "parent"})] = pick(rng, c10Strs)
						}
						keys := []string{}
						for kk := range t.Spec.Labels {
							keys = append(keys, kk)
						}
						sort.Strings(keys)
						for _, kk := range keys {
							lbl = append(lbl, [2]string{kk, t.Spec.Labels[kk]})
						}
					}
					conds := []string{}
					nc := rng.Intn(4)
					for j := 0; j < nc; j++ {
						ct := pick(rng, []string{"Created", "Running", "Succeeded", "Killed", "Failed", "MetricsUnavailable", "EarlyStopped", "Weird"})
						st := rng.Intn(4) != 0
						s := corev1.ConditionFalse
						if st {
							s = corev1.ConditionTrue
						}
						tc := trialsv1beta1.TrialCondition{Type: trialsv1beta1.TrialConditionType(ct), Status: s}
						if rng.Intn(2) == 0 {
							// transition times need not grow along the list (conditions are stamped by different writers and clocks);
							// "the last condition" is the last element whatever the stamps say
							tc.LastTransitionTime = metav1.NewTime(time.Date(2024, 1, 1, rng.Intn(24), rng.Intn(60), 0, 0, time.UTC))
							tc.LastUpdateTime = tc.LastTransitionTime
						}
						t.Status.Conditions = append(t.Status.Conditions, tc)
						conds = append(conds, ct+" "+b01(st))
					}
					start, compl := "", ""
					if rng.Intn(2) == 0 {
						tm := metav1.NewTime(time.Date(2024, 1, 2, 3, 4, 5, 0, time.UTC))
						t.Status.StartTime = &tm
						start = tm.Format(time.RFC3339)
					}
					if rng.Intn(2) == 0 {
						tm := metav1.NewTime(time.Date(2024, 1, 2, 4, 4, 5, 0, time.UTC))
						t.Status.CompletionTime = &tm
						compl = tm.Format(time.RFC3339)
					}
					obsTok := "none"
					if rng.Intn(4) != 0 {
						ob := &commonv1beta1.Observation{}
						mt := []string{}
						nm := rng.Intn(3)
						for j := 0; j < nm; j++ {
							m := commonv1beta1.Metric{Name: pick(rng, []string{"acc", "loss", ""}), Min: pick(rng, []string{"0.1", "unavailable", "x"}), Max: pick(rng, []string{"0.9", "unavailable"}), Latest: pick(rng, []string{"0.5", "unavailable", ""})}
							ob.Metrics = append(ob.Metrics, m)
							mt = append(mt, fmt.Sprintf("%s %s %s %s", hx(m.Name), hx(m.Min), hx(m.Max), hx(m.Latest)))
						}
						t.Status.Observation = ob
						obsTok = strings.TrimSpace(fmt.Sprintf("%d %s", nm, strings.Join(mt, " ")))
					}
					ts = append(ts, t)
					toks = append(toks, strings.Join(strings.Fields(fmt.Sprintf("%s %s %s %s %s %d %s %s %s %s", hx(t.Name), objTok, hxPairs(strat), hxPairs(asg), hxPairs(lbl),
						nc, strings.Join(conds, " "), hx(start), hx(compl), obsTok)), " "))
				}
				op = strings.TrimSpace(fmt.Sprintf("C10 trials %d %s", n, strings.Join(toks, " ")))
				tags = append(tags, "trials")
				res := conv.ConvertTrials(ts)
				out := []string{}
				for _, p := range res {
					asg := [][2]string{}
					for _, a := range p.Spec.ParameterAssignments.Assignments {
						asg = append(asg, [2]string{a.Name, a.Value})
					}
					lbl := [][2]string{}
					keys := []string{}
					for kk := range p.Spec.Labels {
						keys = append(keys, kk)
					}
					sort.Strings(keys)
					for _, kk := range keys {
						lbl = append(lbl, [2]string{kk, p.Spec.Labels[kk]})
					}
					ms := [][2]string{}
					for _, m := range p.Status.Observation.Metrics {
						ms = append(ms, [2]string{m.Name, m.Value})
					}
					out = append(out, strings.Join([]string{hx(p.Name), "ObjectiveType_" + p.Spec.Objective.Type.String(), hx(fmtGoal(p.Spec.Objective.Goal)), hx(p.Spec.Objective.ObjectiveMetricName),
						showStrsGo(p.Spec.Objective.AdditionalMetricNames), showPairsGo(asg), showPairsGo(lbl), "TrialStatus_" + p.Status.Condition.String(), hx(p.Status.StartTime),
						hx(p.Status.CompletionTime), showPairsGo(ms)}, "/"))
				}
				if len(out) == 0 {
					impl = "ok -"
				} else {
					impl = "ok " + strings.Join(out, " ")
				}
			case mode <= 8: // several sync rounds: settings returned by the service must override in later requests
				names := []string{"a", "b", "bracket", "n"}
				spec := [][2]string{}
				alg := &commonv1beta1.AlgorithmSpec{AlgorithmName: "hyperband"}
				used := map[string]bool{}
				for i := rng.Intn(4); i > 0; i-- {
					nm := pick(rng, names)
					if used[nm] && rng.Intn(3) != 0 {
						continue
					}
					used[nm] = true
					s := [2]string{nm, strconv.Itoa(rng.Intn(3))}
					spec = append(spec, s)
					alg.AlgorithmSettings = append(alg.AlgorithmSettings, commonv1beta1.AlgorithmSetting{Name: s[0], Value: s[1]})
				}
				rounds := 2 + rng.Intn(4)
				rc := &recSugClient{}
				rtoks := []string{}
				for r := 0; r < rounds; r++ {
					rep := [][2]string{}
					for i := rng.Intn(3); i > 0; i-- {
						rep = append(rep, [2]string{pick(rng, names), strconv.Itoa(rng.Intn(3))})
					}
					rc.replies = append(rc.replies, rep)
					rtoks = append(rtoks, hxPairs(rep))
				}
				op = fmt.Sprintf("C10 rounds %s %d %s", hxPairs(spec), rounds, strings.Join(rtoks, " "))
				tags = append(tags, "rounds")
				suggestionclient.SetVerifRPCClients(func(*grpc.ClientConn) api.SuggestionClient { return rc }, func(*grpc.ClientConn) api.EarlyStoppingClient { return &fakeES{s: &sim{}} })
				e := &experimentsv1beta1.Experiment{ObjectMeta: metav1.ObjectMeta{Name: "e", Namespace: "ns"}}
				e.Spec.Algorithm = alg
				e.Spec.Objective = &commonv1beta1.ObjectiveSpec{Type: commonv1beta1.ObjectiveTypeMaximize, ObjectiveMetricName: "acc"}
				sg := &suggestionsv1beta1.Suggestion{ObjectMeta: metav1.ObjectMeta{Name: "e", Namespace: "ns"}}
				sg.Spec.Algorithm = alg.DeepCopy()
				for r := 0; r < rounds; r++ {
					sg.Spec.Requests = int32(r + 1)
					if err := conv.SyncAssignments(sg, e, nil); err != nil {
						impl = fmt.Sprintf("err %v", err)
						return
					}
				}
				outs := []string{}
				for _, req := range rc.sent {
					ps := [][2]string{}
					for _, s := range req.Experiment.Spec.Algorithm.AlgorithmSettings {
						ps = append(ps, [2]string{s.Name, s.Value})
					}
					outs = append(outs, showPairsGo(ps))
				}
				impl = "ok " + strings.Join(outs, " ")
			default: // reflection: every leaf of the spec must reach the request or be allow-listed
				paths := specFieldPaths()
				path := paths[k%len(paths)]
				base := baseExperiment()
				ed := baseExperiment()
				parts := strings.Split(path, "#")
				changed, allow := false, false
				for pfx := range consumedLocally {
					if strings.HasPrefix(strings.TrimPrefix(parts[0], "spec."), pfx) {
						allow = true
					}
				}
				if applyEdit(reflect.ValueOf(&ed.Spec).Elem(), strings.Split(strings.TrimPrefix(parts[0], "spec"), "."), parts[1]) {
					func() {
						defer func() {
							if recover() != nil {
								changed = true // the converter dereferences the nil-ed pointer: the field is read
							}
						}()
						a := conv.ConvertExperiment(base)
						b := conv.ConvertExperiment(ed)
						changed = !proto.Equal(a, b)
					}()
				} else {
					changed = true
				}
				op = fmt.Sprintf("C10 field %s %s %s", hx(path), b01(changed), b01(allow))
				impl = "ok conveyed-or-consumed-locally"
				if !changed && !allow {
					impl = "ok NOT-CONVEYED"
				}
				tags = append(tags, "field-coverage")
			}
		}()
		return Case{Ops: []string{strings.Join(strings.Fields(op), " ")}, Impl: []string{strings.Join(strings.Fields(impl), " ")}, Tags: tags}
	}
}
