package main

// The simulator: the three real reconcilers on controller-runtime's fake client, behind a per-kind
// lagging read wrapper and a write interceptor (fault mask, abort point, write log). See DESIGN.md §4.4.

import (
	"context"
	"fmt"
	"sort"
	"strconv"
	"strings"
	"time"

	"github.com/prometheus/client_golang/prometheus"
	"google.golang.org/grpc"
	"google.golang.org/grpc/codes"
	"google.golang.org/grpc/status"
	appsv1 "k8s.io/api/apps/v1"
	batchv1 "k8s.io/api/batch/v1"
	corev1 "k8s.io/api/core/v1"
	rbacv1 "k8s.io/api/rbac/v1"
	apierrors "k8s.io/apimachinery/pkg/api/errors"
	metav1 "k8s.io/apimachinery/pkg/apis/meta/v1"
	"k8s.io/apimachinery/pkg/apis/meta/v1/unstructured"
	"k8s.io/apimachinery/pkg/runtime"
	"k8s.io/apimachinery/pkg/types"
	clientgoscheme "k8s.io/client-go/kubernetes/scheme"
	"k8s.io/client-go/tools/record"
	"sigs.k8s.io/controller-runtime/pkg/client"
	"sigs.k8s.io/controller-runtime/pkg/client/fake"
	"sigs.k8s.io/controller-runtime/pkg/client/interceptor"
	"sigs.k8s.io/controller-runtime/pkg/reconcile"

	apis "github.com/kubeflow/katib/pkg/apis/controller"
	commonv1beta1 "github.com/kubeflow/katib/pkg/apis/controller/common/v1beta1"
	experimentsv1beta1 "github.com/kubeflow/katib/pkg/apis/controller/experiments/v1beta1"
	suggestionsv1beta1 "github.com/kubeflow/katib/pkg/apis/controller/suggestions/v1beta1"
	trialsv1beta1 "github.com/kubeflow/katib/pkg/apis/controller/trials/v1beta1"
	api "github.com/kubeflow/katib/pkg/apis/manager/v1beta1"
	expctl "github.com/kubeflow/katib/pkg/controller.v1beta1/experiment"
	exputil "github.com/kubeflow/katib/pkg/controller.v1beta1/experiment/util"
	sugctl "github.com/kubeflow/katib/pkg/controller.v1beta1/suggestion"
	"github.com/kubeflow/katib/pkg/controller.v1beta1/suggestion/composer"
	"github.com/kubeflow/katib/pkg/controller.v1beta1/suggestion/suggestionclient"
	trialctl "github.com/kubeflow/katib/pkg/controller.v1beta1/trial"
	trialutil "github.com/kubeflow/katib/pkg/controller.v1beta1/trial/util"
)

// kinds for per-kind views
const (
	kExp = iota
	kTrial
	kSug
	kInfra // Deployment, Service, PVC, ServiceAccount, Role, RoleBinding, ConfigMap
	nKinds
)

func kindOf(obj runtime.Object) int {
	switch obj.(type) {
	case *experimentsv1beta1.Experiment, *experimentsv1beta1.ExperimentList:
		return kExp
	case *trialsv1beta1.Trial, *trialsv1beta1.TrialList:
		return kTrial
	case *suggestionsv1beta1.Suggestion, *suggestionsv1beta1.SuggestionList:
		return kSug
	case *unstructured.Unstructured, *unstructured.UnstructuredList:
		return -1 // run objects are read live (the manager does not cache unstructured objects)
	}
	return kInfra
}

type lagClient struct {
	client.Client
	s *sim
}

func (l *lagClient) reader(obj runtime.Object) client.Reader {
	k := kindOf(obj)
	if k < 0 || !l.s.inRec {
		return l.Client
	}
	v := l.s.view[k]
	if v >= len(l.s.snaps) {
		v = len(l.s.snaps) - 1 // the newest snapshot = the store when the reconcile started
	}
	return l.s.snaps[v]
}

func (l *lagClient) Get(ctx context.Context, key client.ObjectKey, obj client.Object, opts ...client.GetOption) error {
	if _, ok := obj.(*trialsv1beta1.Trial); ok && l.s.inRec {
		// deleteTrials busy-waits on Get until NotFound: cut the wait short (outside the modelled behaviour)
		l.s.trialGets++
		if l.s.trialGets > 2000 {
			return apierrors.NewNotFound(trialsv1beta1.SchemeGroupVersion.WithResource("trials").GroupResource(), key.Name)
		}
	}
	return l.reader(obj).Get(ctx, key, obj, opts...)
}
func (l *lagClient) List(ctx context.Context, list client.ObjectList, opts ...client.ListOption) error {
	return l.reader(list).List(ctx, list, opts...)
}

type fakeAlgo struct {
	s      *sim
	target string // the endpoint the controller dialled for this call ("" = not recorded)
}

// wrongEndpoint: the service the controller dialled lives in another namespace than the Suggestion being reconciled
func (s *sim) wrongEndpoint(target string) string {
	if target == "" || s.recNS == "" || strings.Contains(target, "."+s.recNS+":") {
		return ""
	}
	return "@endpoint-of-another-namespace"
}

func (f *fakeAlgo) GetSuggestions(ctx context.Context, in *api.GetSuggestionsRequest, opts ...grpc.CallOption) (*api.GetSuggestionsReply, error) {
	names := []string{}
	for _, t := range in.Trials {
		names = append(names, t.Name)
	}
	sort.Strings(names)
	what := fmt.Sprintf("rpc.getSuggestions.%s%s(%d/%d/%s)", in.Experiment.Name, f.s.wrongEndpoint(f.target), in.CurrentRequestNumber, in.TotalRequestNumber, strings.Join(names, "+"))
	if err := f.s.call(what); err != nil {
		return nil, err
	}
	r := &api.GetSuggestionsReply{}
	k := int(in.CurrentRequestNumber)
	switch f.s.algoMode {
	case 1:
		k--
	case 2:
		k++
	case 3:
		f.s.errSeq++
		var err error = fmt.Errorf("algorithm unavailable")
		if c := []codes.Code{codes.Unknown, codes.DeadlineExceeded, codes.Internal, codes.ResourceExhausted, codes.Unavailable, codes.Aborted}[f.s.errSeq%6]; c != codes.Unknown {
			err = status.Error(c, "algorithm unavailable")
		}
		f.s.done(what, err)
		return nil, err
	}
	for i := 0; i < k; i++ {
		f.s.algoN++
		pa := &api.GetSuggestionsReply_ParameterAssignments{
			TrialName:   fmt.Sprintf("%s-t%d", in.Experiment.Name, f.s.algoN),
			Assignments: []*api.ParameterAssignment{{Name: "lr", Value: fmt.Sprintf("0.%d", f.s.algoN)}},
		}
		if f.s.algoLabels {
			pa.Labels = map[string]string{fmt.Sprintf("parent-%d", f.s.algoN%2): fmt.Sprintf("p%d", f.s.algoN)}
		}
		r.ParameterAssignments = append(r.ParameterAssignments, pa)
	}
	f.s.done(what, nil)
	return r, nil
}
func (f *fakeAlgo) ValidateAlgorithmSettings(ctx context.Context, in *api.ValidateAlgorithmSettingsRequest, opts ...grpc.CallOption) (*api.ValidateAlgorithmSettingsReply, error) {
	what := "rpc.validate." + in.Experiment.Name
	if err := f.s.call(what); err != nil {
		return nil, err
	}
	f.s.done(what, nil)
	return &api.ValidateAlgorithmSettingsReply{}, nil
}

type fakeES struct {
	s      *sim
	target string
}

func (f *fakeES) GetEarlyStoppingRules(ctx context.Context, in *api.GetEarlyStoppingRulesRequest, opts ...grpc.CallOption) (*api.GetEarlyStoppingRulesReply, error) {
	what := "rpc.getRules." + in.Experiment.Name + f.s.wrongEndpoint(f.target)
	if err := f.s.call(what); err != nil {
		return nil, err
	}
	if f.s.esMode == 1 {
		// the failure comes as a plain error or as a gRPC status of any code: it is a failure all the same
		f.s.errSeq++
		var err error = fmt.Errorf("early stopping unavailable")
		if c := []codes.Code{codes.Unknown, codes.DeadlineExceeded, codes.Internal, codes.ResourceExhausted, codes.Unavailable, codes.Aborted}[f.s.errSeq%6]; c != codes.Unknown {
			err = status.Error(c, "early stopping unavailable")
		}
		f.s.done(what, err)
		return nil, err
	}
	f.s.done(what, nil)
	return &api.GetEarlyStoppingRulesReply{EarlyStoppingRules: []*api.EarlyStoppingRule{{Name: "acc", Value: "0.5", Comparison: api.ComparisonType_LESS, StartStep: 1}}}, nil
}
func (f *fakeES) SetTrialStatus(ctx context.Context, in *api.SetTrialStatusRequest, opts ...grpc.CallOption) (*api.SetTrialStatusReply, error) {
	return &api.SetTrialStatusReply{}, nil
}
func (f *fakeES) ValidateEarlyStoppingSettings(ctx context.Context, in *api.ValidateEarlyStoppingSettingsRequest, opts ...grpc.CallOption) (*api.ValidateEarlyStoppingSettingsReply, error) {
	if err := f.s.call("rpc.validateES"); err != nil {
		return nil, err
	}
	f.s.done("rpc.validateES", nil)
	return &api.ValidateEarlyStoppingSettingsReply{}, nil
}

type dbEntry struct {
	text string
	ts   string
	name string // "" = the objective metric
}

type fakeDB struct {
	s    *sim
	logs map[string][]dbEntry
}

func (d *fakeDB) GetTrialObservationLog(t *trialsv1beta1.Trial) (*api.GetObservationLogReply, error) {
	if err := d.s.call("db.get." + t.Name); err != nil {
		return nil, err
	}
	d.s.done("db.get."+t.Name, nil)
	ml := []*api.MetricLog{}
	for _, e := range d.logs[t.Name] {
		nm := "acc"
		if e.name != "" {
			nm = e.name
		}
		ml = append(ml, &api.MetricLog{TimeStamp: e.ts, Metric: &api.Metric{Name: nm, Value: e.text}})
	}
	return &api.GetObservationLogReply{ObservationLog: &api.ObservationLog{MetricLogs: ml}}, nil
}
func (d *fakeDB) DeleteTrialObservationLog(t *trialsv1beta1.Trial) (*api.DeleteObservationLogReply, error) {
	if err := d.s.call("db.delete." + t.Name); err != nil {
		return nil, err
	}
	d.s.done("db.delete."+t.Name, nil)
	delete(d.logs, t.Name)
	return &api.DeleteObservationLogReply{}, nil
}
func (d *fakeDB) ReportTrialObservationLog(t *trialsv1beta1.Trial, l *api.ObservationLog) (*api.ReportObservationLogReply, error) {
	if err := d.s.call("db.report." + t.Name); err != nil {
		return nil, err
	}
	d.s.done("db.report."+t.Name, nil)
	for _, m := range l.MetricLogs {
		d.logs[t.Name] = append(d.logs[t.Name], dbEntry{text: m.Metric.Value, ts: m.TimeStamp})
	}
	return &api.ReportObservationLogReply{}, nil
}

const simKatibConfig = `
apiVersion: config.kubeflow.org/v1beta1
kind: KatibConfig
runtime:
  suggestions:
  - algorithmName: random
    image: img/random
  earlyStoppings:
  - algorithmName: medianstop
    image: img/medianstop
  metricsCollectors:
  - kind: StdOut
    image: img/file
`

type sim struct {
	edits  int
	scheme *runtime.Scheme
	c      client.Client
	lc     *lagClient
	er     *expctl.ReconcileExperiment
	sr     *sugctl.ReconcileSuggestion
	tr     *trialctl.ReconcileTrial
	algo   *fakeAlgo
	recNS  string // namespace of the Suggestion being reconciled
	errSeq int    // cycles through the gRPC status codes of scripted RPC failures
	db     *fakeDB

	snaps []client.Client // snaps[i] = store after op i-1 (snaps[0] = initial)
	view  [nKinds]int     // absolute snapshot index per kind for the current reconcile (len(snaps) = live)
	minV  [nKinds]int     // monotone lower bound per kind

	inRec     bool
	calls     int    // external calls in this reconcile (API writes, RPCs, DB calls)
	faults    uint64 // bit i: i-th external call fails
	abort     int    // -1 none; otherwise calls >= abort fail
	log       []string
	trialGets int

	algoMode   int // 0 ok 1 short 2 long 3 error
	esMode     int // 0 ok 1 error
	algoN      int
	algoLabels bool
	opIndex    int
	writesTotal int
	stamps     map[string]string // object key -> "fullprecision|rank" of CompletionTime
}

func (s *sim) call(what string) error {
	if !s.inRec {
		return nil
	}
	i := s.calls
	s.calls++
	if s.abort >= 0 && i >= s.abort {
		s.log = append(s.log, what+":fault")
		return fmt.Errorf("aborted")
	}
	if i < 64 && s.faults&(1<<uint(i)) != 0 {
		s.log = append(s.log, what+":fault")
		return fmt.Errorf("injected fault")
	}
	return nil
}

// done logs the outcome of an RPC / DB call that was not failed by the environment
func (s *sim) done(what string, err error) {
	if !s.inRec {
		return
	}
	if err != nil {
		s.log = append(s.log, what+":error")
	} else {
		s.log = append(s.log, what+":ok")
	}
}

func classify(err error) string {
	switch {
	case err == nil:
		return "ok"
	case apierrors.IsConflict(err):
		return "conflict"
	case apierrors.IsAlreadyExists(err):
		return "exists"
	case apierrors.IsNotFound(err):
		return "notfound"
	}
	return "error"
}

func objKind(obj client.Object) string {
	switch o := obj.(type) {
	case *experimentsv1beta1.Experiment:
		return "exp"
	case *trialsv1beta1.Trial:
		return "trial"
	case *suggestionsv1beta1.Suggestion:
		return "sug"
	case *appsv1.Deployment:
		return "deploy"
	case *corev1.Service:
		return "svc"
	case *corev1.PersistentVolumeClaim:
		return "pvc"
	case *corev1.PersistentVolume:
		return "pv"
	case *corev1.ServiceAccount:
		return "sa"
	case *rbacv1.Role:
		return "role"
	case *rbacv1.RoleBinding:
		return "rb"
	case *unstructured.Unstructured:
		_ = o
		return "job"
	}
	return "other"
}

// stampVal reads the completion time of obj at full precision (before the fake client round-trips it to seconds)
func stampVal(obj client.Object) (string, bool) {
	var ct *metav1.Time
	switch o := obj.(type) {
	case *experimentsv1beta1.Experiment:
		ct = o.Status.CompletionTime
	case *trialsv1beta1.Trial:
		ct = o.Status.CompletionTime
	default:
		return "", false
	}
	val := "none"
	if ct != nil {
		if ct.IsZero() {
			val = "none" // a zero time is serialised as null
		} else {
			val = ct.Time.Format(time.RFC3339Nano)
		}
	}
	return val, true
}

func truncStamp(val string) string {
	if t, err := time.Parse(time.RFC3339Nano, val); err == nil {
		return t.Truncate(time.Second).Format(time.RFC3339Nano)
	}
	return val
}

// noteStamp ranks completion times by the op that first wrote them. The store keeps seconds only, so a
// value that equals the truncation of the recorded full-precision value is the same instant read back.
func (s *sim) noteStamp(obj client.Object, val string) {
	key := objKind(obj) + "/" + obj.GetNamespace() + "/" + obj.GetName()
	prev := strings.SplitN(s.stamps[key], "|", 2)[0]
	if prev == val || (prev != "" && truncStamp(prev) == val) {
		return
	}
	rank := val
	if val != "none" {
		rank = strconv.Itoa(s.opIndex)
	}
	s.stamps[key] = val + "|" + rank
}

func (s *sim) stampOf(kind, ns, name string) string {
	p := strings.SplitN(s.stamps[kind+"/"+ns+"/"+name], "|", 2)
	if len(p) < 2 {
		return "none"
	}
	return p[1]
}

func newSim() *sim {
	scheme := runtime.NewScheme()
	_ = clientgoscheme.AddToScheme(scheme)
	_ = apis.AddToScheme(scheme)
	cm := &corev1.ConfigMap{ObjectMeta: metav1.ObjectMeta{Name: "katib-config", Namespace: "kubeflow"}, Data: map[string]string{"katib-config.yaml": simKatibConfig}}
	s := &sim{abort: -1, stamps: map[string]string{}}
	s.algo = &fakeAlgo{s: s}
	s.db = &fakeDB{s: s, logs: map[string][]dbEntry{}}
	wr := func(verb string, obj client.Object, do func() error) error {
		what := objKind(obj) + "." + verb + "." + obj.GetNamespace() + "/" + obj.GetName()
		if err := s.call(what); err != nil {
			return err
		}
		val, hasStamp := stampVal(obj)
		err := do()
		if s.inRec {
			s.log = append(s.log, what+":"+classify(err))
		}
		if err == nil && hasStamp && (verb == "status" || verb == "statuspatch") {
			s.noteStamp(obj, val)
		}
		return err
	}
	c := fake.NewClientBuilder().WithScheme(scheme).WithObjects(cm).
		WithStatusSubresource(&experimentsv1beta1.Experiment{}, &trialsv1beta1.Trial{}, &suggestionsv1beta1.Suggestion{}).
		WithInterceptorFuncs(interceptor.Funcs{
			Create: func(ctx context.Context, cl client.WithWatch, obj client.Object, opts ...client.CreateOption) error {
				return wr("create", obj, func() error { return cl.Create(ctx, obj, opts...) })
			},
			Update: func(ctx context.Context, cl client.WithWatch, obj client.Object, opts ...client.UpdateOption) error {
				return wr("update", obj, func() error { return cl.Update(ctx, obj, opts...) })
			},
			Delete: func(ctx context.Context, cl client.WithWatch, obj client.Object, opts ...client.DeleteOption) error {
				return wr("delete", obj, func() error { return cl.Delete(ctx, obj, opts...) })
			},
			SubResourceUpdate: func(ctx context.Context, cl client.Client, sub string, obj client.Object, opts ...client.SubResourceUpdateOption) error {
				return wr("status", obj, func() error { return cl.SubResource(sub).Update(ctx, obj, opts...) })
			},
			// katib uses Update/Status().Update only; patches are intercepted too so that a rewrite to Patch stays observable
			Patch: func(ctx context.Context, cl client.WithWatch, obj client.Object, patch client.Patch, opts ...client.PatchOption) error {
				return wr("patch", obj, func() error { return cl.Patch(ctx, obj, patch, opts...) })
			},
			SubResourcePatch: func(ctx context.Context, cl client.Client, sub string, obj client.Object, patch client.Patch, opts ...client.SubResourcePatchOption) error {
				return wr("statuspatch", obj, func() error { return cl.SubResource(sub).Patch(ctx, obj, patch, opts...) })
			},
		}).Build()
	s.c = c
	s.scheme = scheme
	rec := record.NewFakeRecorder(100000)
	go func() {
		for range rec.Events {
		}
	}()
	suggestionclient.SetVerifRPCClients(
		func(c *grpc.ClientConn) api.SuggestionClient { return &fakeAlgo{s: s, target: c.Target()} },
		func(c *grpc.ClientConn) api.EarlyStoppingClient { return &fakeES{s: s, target: c.Target()} })
	s.lc = &lagClient{Client: c, s: s}
	s.er = expctl.NewVerifReconciler(s.lc, scheme, rec, exputil.NewExpsCollector(nil, prometheus.NewRegistry()))
	s.sr = sugctl.NewVerifReconciler(s.lc, scheme, rec, suggestionclient.New(), composer.NewVerifComposer(scheme, s.lc))
	s.tr = trialctl.NewVerifReconciler(s.lc, scheme, rec, s.db, trialutil.NewTrialsCollector(nil, prometheus.NewRegistry()))
	return s
}

func (s *sim) snapshot() {
	objs := []client.Object{}
	ctx := context.TODO()
	add := func(l client.ObjectList) {
		_ = s.c.List(ctx, l)
		items, _ := apiMetaExtract(l)
		objs = append(objs, items...)
	}
	add(&experimentsv1beta1.ExperimentList{})
	add(&trialsv1beta1.TrialList{})
	add(&suggestionsv1beta1.SuggestionList{})
	add(&appsv1.DeploymentList{})
	add(&corev1.ServiceList{})
	add(&corev1.ConfigMapList{})
	add(&corev1.PersistentVolumeClaimList{})
	add(&corev1.ServiceAccountList{})
	add(&rbacv1.RoleList{})
	add(&rbacv1.RoleBindingList{})
	snap := fake.NewClientBuilder().WithScheme(s.scheme).WithObjects(objs...).Build()
	s.snaps = append(s.snaps, snap)
}

type expCfg struct {
	ns, name   string
	par        int32
	max, mf    *int32
	goal       *float64
	objType    commonv1beta1.ObjectiveType
	resume     experimentsv1beta1.ResumePolicyType
	es, retain bool
	push       bool
	labels     bool
	aliasOf    string // the experiment carries the reserved experiment-name label of another experiment (legal input)
}

func i32p(v int32) *int32 { return &v }

func (s *sim) createExp(c expCfg) {
	job := &unstructured.Unstructured{Object: map[string]interface{}{
		"apiVersion": "batch/v1", "kind": "Job",
		"spec": map[string]interface{}{"template": map[string]interface{}{"spec": map[string]interface{}{
			"restartPolicy": "Never",
			"containers":    []interface{}{map[string]interface{}{"name": "main", "image": "img", "command": []interface{}{"python", "--lr=${trialParameters.lr}"}}},
		}}},
	}}
	e := &experimentsv1beta1.Experiment{
		ObjectMeta: metav1.ObjectMeta{Name: c.name, Namespace: c.ns},
		Spec: experimentsv1beta1.ExperimentSpec{
			MaxTrialCount: c.max, ParallelTrialCount: i32p(c.par), MaxFailedTrialCount: c.mf,
			Objective:  &commonv1beta1.ObjectiveSpec{Type: c.objType, Goal: c.goal, ObjectiveMetricName: "acc"},
			Algorithm:  &commonv1beta1.AlgorithmSpec{AlgorithmName: "random"},
			Parameters: []experimentsv1beta1.ParameterSpec{{Name: "lr", ParameterType: experimentsv1beta1.ParameterTypeDouble, FeasibleSpace: experimentsv1beta1.FeasibleSpace{Min: "0", Max: "1"}}},
			TrialTemplate: &experimentsv1beta1.TrialTemplate{
				Retain: c.retain, PrimaryContainerName: "main",
				TrialParameters: []experimentsv1beta1.TrialParameterSpec{{Name: "lr", Reference: "lr"}},
				TrialSource:     experimentsv1beta1.TrialSource{TrialSpec: job},
			},
			ResumePolicy: c.resume,
		},
	}
	if c.labels {
		e.Labels = map[string]string{"team": "a"}
	}
	if c.aliasOf != "" {
		if e.Labels == nil {
			e.Labels = map[string]string{}
		}
		e.Labels["katib.kubeflow.org/experiment"] = c.aliasOf
	}
	if c.es {
		e.Spec.EarlyStopping = &commonv1beta1.EarlyStoppingSpec{AlgorithmName: "medianstop"}
	}
	if c.push {
		e.Spec.MetricsCollectorSpec = &commonv1beta1.MetricsCollectorSpec{Collector: &commonv1beta1.CollectorSpec{Kind: commonv1beta1.PushCollector}}
	}
	e.SetDefault()
	if err := s.c.Create(context.TODO(), e); err != nil {
		panic(err)
	}
}

// ---- running one reconcile under a view, a fault mask and an abort point

func (s *sim) begin(views [nKinds]int, faults uint64, abort int) {
	for k := 0; k < nKinds; k++ {
		v := views[k]
		if v < s.minV[k] {
			v = s.minV[k]
		}
		if v > len(s.snaps)-1 {
			v = len(s.snaps) - 1
		}
		s.minV[k] = v
		s.view[k] = v
	}
	s.inRec, s.calls, s.faults, s.abort, s.log, s.trialGets = true, 0, faults, abort, nil, 0
}

func (s *sim) end(res reconcile.Result, err error) string {
	s.inRec = false
	for _, l := range s.log {
		if !strings.HasPrefix(l, "db.get") && !strings.HasPrefix(l, "rpc.validate") {
			s.writesTotal++
		}
	}
	r := "ok"
	switch {
	case err != nil:
		r = "err"
	case res.Requeue:
		r = "requeue"
	case res.RequeueAfter > 0:
		r = "requeueAfter"
	}
	return "res=" + r + " w=" + strings.Join(s.log, ",")
}

func (s *sim) recExp(ns, name string, views [nKinds]int, faults uint64, abort int) string {
	s.begin(views, faults, abort)
	res, err := s.er.Reconcile(context.TODO(), reconcile.Request{NamespacedName: types.NamespacedName{Namespace: ns, Name: name}})
	return s.end(res, err)
}
func (s *sim) recSug(ns, name string, views [nKinds]int, faults uint64, abort int) string {
	s.begin(views, faults, abort)
	s.recNS = ns
	defer func() { s.recNS = "" }()
	res, err := s.sr.Reconcile(context.TODO(), reconcile.Request{NamespacedName: types.NamespacedName{Namespace: ns, Name: name}})
	return s.end(res, err)
}
func (s *sim) recTrial(ns, name string, views [nKinds]int, faults uint64, abort int) string {
	s.begin(views, faults, abort)
	res, err := s.tr.Reconcile(context.TODO(), reconcile.Request{NamespacedName: types.NamespacedName{Namespace: ns, Name: name}})
	return s.end(res, err)
}

// ---- environment

func (s *sim) deployReady(ns, name string) bool {
	d := &appsv1.Deployment{}
	if err := s.c.Get(context.TODO(), types.NamespacedName{Namespace: ns, Name: name + "-random"}, d); err != nil {
		return false
	}
	d.Status.Conditions = []appsv1.DeploymentCondition{{Type: appsv1.DeploymentAvailable, Status: corev1.ConditionTrue}}
	return s.c.Status().Update(context.TODO(), d) == nil
}

func (s *sim) jobDone(ns, name string, ok bool) bool {
	j := &batchv1.Job{}
	if err := s.c.Get(context.TODO(), types.NamespacedName{Namespace: ns, Name: name}, j); err != nil {
		return false
	}
	ct := batchv1.JobComplete
	if !ok {
		ct = batchv1.JobFailed
	}
	j.Status.Conditions = append(j.Status.Conditions, batchv1.JobCondition{Type: ct, Status: corev1.ConditionTrue})
	return s.c.Status().Update(context.TODO(), j) == nil
}

// jobGone: the run object of a completed Trial disappears without the controller (TTL after finish, user clean-up)
func (s *sim) jobGone(ns, name string) bool {
	tt := &trialsv1beta1.Trial{}
	if s.c.Get(context.TODO(), types.NamespacedName{Namespace: ns, Name: name}, tt) != nil || !tt.IsCompleted() {
		return false
	}
	j := &batchv1.Job{}
	if err := s.c.Get(context.TODO(), types.NamespacedName{Namespace: ns, Name: name}, j); err != nil {
		return false
	}
	return s.c.Delete(context.TODO(), j) == nil
}

// userDelete: the user (or the garbage collector, for a deleted Experiment) deletes a Trial
func (s *sim) userDelete(ns, name string) bool {
	tt := &trialsv1beta1.Trial{}
	if s.c.Get(context.TODO(), types.NamespacedName{Namespace: ns, Name: name}, tt) != nil || tt.DeletionTimestamp != nil {
		return false
	}
	return s.c.Delete(context.TODO(), tt) == nil
}

func (s *sim) metric(trial, val string) { s.metricNamed(trial, "", val) }

// metricNamed: an entry of another metric than the objective ("" = the objective)
func (s *sim) metricNamed(trial, name, val string) {
	s.db.logs[trial] = append(s.db.logs[trial], dbEntry{text: val, ts: time.Unix(int64(1700000000+s.opIndex), 0).UTC().Format(time.RFC3339), name: name})
}

func (s *sim) earlyStop(ns, name string) bool {
	tt := &trialsv1beta1.Trial{}
	if s.c.Get(context.TODO(), types.NamespacedName{Namespace: ns, Name: name}, tt) != nil {
		return false
	}
	if tt.IsCompleted() || !tt.IsRunning() {
		return false
	}
	tt.Status.Conditions = append(tt.Status.Conditions, trialsv1beta1.TrialCondition{Type: trialsv1beta1.TrialEarlyStopped, Status: corev1.ConditionTrue, Reason: "TrialEarlyStopped"})
	return s.c.Status().Update(context.TODO(), tt) == nil
}

func (s *sim) editMax(ns, name string, n int32) bool {
	e := &experimentsv1beta1.Experiment{}
	if s.c.Get(context.TODO(), types.NamespacedName{Namespace: ns, Name: name}, e) != nil {
		return false
	}
	e.Spec.MaxTrialCount = &n
	// the same `kubectl apply` also (re)labels the Experiment: labels are free-form metadata and must not matter to the
	// controllers, which select an Experiment's Trials by the reserved label only
	s.edits++
	if e.Labels == nil {
		e.Labels = map[string]string{}
	}
	e.Labels["team"] = fmt.Sprintf("rev-%d", s.edits)
	return s.c.Update(context.TODO(), e) == nil
}

// ---- canonical dump of the live store

func condStr[T any](cs []T, f func(T) (string, corev1.ConditionStatus, string)) string {
	o := []string{}
	for _, c := range cs {
		t, st, r := f(c)
		o = append(o, fmt.Sprintf("%s:%s:%s", t, b01(st == corev1.ConditionTrue), hx(r)))
	}
	if len(o) == 0 {
		return "-"
	}
	return strings.Join(o, ",")
}

func optI(p *int32) string {
	if p == nil {
		return "none"
	}
	return strconv.Itoa(int(*p))
}

func dashJoin(l []string) string {
	if len(l) == 0 {
		return "-"
	}
	return strings.Join(l, ",")
}

func hasFin(fs []string, f string) bool {
	for _, x := range fs {
		if x == f {
			return true
		}
	}
	return false
}

func (s *sim) dump() string {
	ctx := context.TODO()
	out := []string{}
	el := &experimentsv1beta1.ExperimentList{}
	_ = s.c.List(ctx, el)
	for _, e := range el.Items {
		st := e.Status
		opt := "-"
		if st.CurrentOptimalTrial.BestTrialName != "" {
			// the optimal trial's name and the observation stored with it
			ms := []string{}
			for _, m := range st.CurrentOptimalTrial.Observation.Metrics {
				ms = append(ms, fmt.Sprintf("%s:%s:%s:%s", hx(m.Name), hx(m.Min), hx(m.Max), hx(m.Latest)))
			}
			opt = st.CurrentOptimalTrial.BestTrialName + "@" + strings.Join(ms, ",")
		}
		out = append(out, fmt.Sprintf("E %s %s %s %s %d %s %s %s %s %d/%d/%d/%d/%d/%d/%d/%d %s", e.Namespace, e.Name,
			b01(!e.DeletionTimestamp.IsZero()), b01(hasFin(e.Finalizers, "update-prometheus-metrics")),
			*e.Spec.ParallelTrialCount, optI(e.Spec.MaxTrialCount), optI(e.Spec.MaxFailedTrialCount),
			condStr(st.Conditions, func(c experimentsv1beta1.ExperimentCondition) (string, corev1.ConditionStatus, string) {
				return string(c.Type), c.Status, c.Reason
			}), s.stampOf("exp", e.Namespace, e.Name),
			st.Trials, st.TrialsKilled, st.TrialsFailed, st.TrialsSucceeded, st.TrialsEarlyStopped, st.TrialsRunning, st.TrialMetricsUnavailable, st.TrialsPending, opt))
	}
	sl := &suggestionsv1beta1.SuggestionList{}
	_ = s.c.List(ctx, sl)
	for _, g := range sl.Items {
		names := []string{}
		for _, a := range g.Status.Suggestions {
			names = append(names, a.Name)
		}
		out = append(out, fmt.Sprintf("S %s %s %d %d %s %s", g.Namespace, g.Name, g.Spec.Requests, g.Status.SuggestionCount, dashJoin(names),
			condStr(g.Status.Conditions, func(c suggestionsv1beta1.SuggestionCondition) (string, corev1.ConditionStatus, string) {
				return string(c.Type), c.Status, c.Reason
			})))
	}
	tl := &trialsv1beta1.TrialList{}
	_ = s.c.List(ctx, tl)
	for _, t := range tl.Items {
		obs := "-"
		if t.Status.Observation != nil {
			ms := []string{}
			for _, m := range t.Status.Observation.Metrics {
				ms = append(ms, fmt.Sprintf("%s:%s:%s:%s", hx(m.Name), hx(m.Min), hx(m.Max), hx(m.Latest)))
			}
			obs = "obs=" + strings.Join(ms, ",")
		}
		// the Experiment a Trial counts for is the one named by the reserved label; it must be the Experiment that owns it
		expTok := t.Labels["katib.kubeflow.org/experiment"]
		for _, o := range t.OwnerReferences {
			if o.Controller != nil && *o.Controller && o.Kind == "Experiment" && o.Name != expTok {
				expTok += "!owner=" + o.Name
			}
		}
		out = append(out, fmt.Sprintf("T %s %s %s %s %s %s %s %s", t.Namespace, t.Name, expTok,
			b01(!t.DeletionTimestamp.IsZero()), b01(hasFin(t.Finalizers, "clean-metrics-in-db")),
			condStr(t.Status.Conditions, func(c trialsv1beta1.TrialCondition) (string, corev1.ConditionStatus, string) {
				return string(c.Type), c.Status, c.Reason
			}), s.stampOf("trial", t.Namespace, t.Name), obs))
	}
	jl := &batchv1.JobList{}
	_ = s.c.List(ctx, jl)
	for _, j := range jl.Items {
		st := "r"
		fl, ok := false, false
		for _, c := range j.Status.Conditions {
			if c.Type == batchv1.JobFailed && c.Status == corev1.ConditionTrue {
				fl = true
			}
			if c.Type == batchv1.JobComplete && c.Status == corev1.ConditionTrue {
				ok = true
			}
		}
		if fl && ok {
			st = "b"
		} else if fl {
			st = "f"
		} else if ok {
			st = "s"
		}
		out = append(out, fmt.Sprintf("J %s %s %s", j.Namespace, j.Name, st))
	}
	dl := &appsv1.DeploymentList{}
	_ = s.c.List(ctx, dl)
	for _, d := range dl.Items {
		ready := false
		for _, c := range d.Status.Conditions {
			if c.Type == appsv1.DeploymentAvailable && c.Status == corev1.ConditionTrue {
				ready = true
			}
		}
		out = append(out, fmt.Sprintf("D %s %s %s", d.Namespace, d.Name, b01(ready)))
	}
	simple := func(tag string, l client.ObjectList) {
		_ = s.c.List(ctx, l)
		items, _ := apiMetaExtract(l)
		for _, o := range items {
			out = append(out, fmt.Sprintf("%s %s %s", tag, o.GetNamespace(), o.GetName()))
		}
	}
	simple("V", &corev1.ServiceList{})
	simple("P", &corev1.PersistentVolumeClaimList{})
	simple("A", &corev1.ServiceAccountList{})
	simple("O", &rbacv1.RoleList{})
	simple("B", &rbacv1.RoleBindingList{})
	keys := []string{}
	for k := range s.db.logs {
		keys = append(keys, k)
	}
	sort.Strings(keys)
	for _, k := range keys {
		vs := []string{}
		for _, e := range s.db.logs[k] {
			if e.name != "" {
				vs = append(vs, hx(e.name)+"@"+hx(e.text))
			} else {
				vs = append(vs, hx(e.text))
			}
		}
		out = append(out, fmt.Sprintf("M %s %s", k, dashJoin(vs)))
	}
	out = append(out, fmt.Sprintf("X %d", s.algoN))
	sort.Strings(out)
	return strings.Join(out, " ; ")
}

func apiMetaExtract(l client.ObjectList) ([]client.Object, error) {
	out := []client.Object{}
	switch x := l.(type) {
	case *experimentsv1beta1.ExperimentList:
		for i := range x.Items {
			out = append(out, x.Items[i].DeepCopy())
		}
	case *trialsv1beta1.TrialList:
		for i := range x.Items {
			out = append(out, x.Items[i].DeepCopy())
		}
	case *suggestionsv1beta1.SuggestionList:
		for i := range x.Items {
			out = append(out, x.Items[i].DeepCopy())
		}
	case *appsv1.DeploymentList:
		for i := range x.Items {
			out = append(out, x.Items[i].DeepCopy())
		}
	case *corev1.ServiceList:
		for i := range x.Items {
			out = append(out, x.Items[i].DeepCopy())
		}
	case *corev1.ConfigMapList:
		for i := range x.Items {
			out = append(out, x.Items[i].DeepCopy())
		}
	case *corev1.PersistentVolumeClaimList:
		for i := range x.Items {
			out = append(out, x.Items[i].DeepCopy())
		}
	case *corev1.ServiceAccountList:
		for i := range x.Items {
			out = append(out, x.Items[i].DeepCopy())
		}
	case *rbacv1.RoleList:
		for i := range x.Items {
			out = append(out, x.Items[i].DeepCopy())
		}
	case *rbacv1.RoleBindingList:
		for i := range x.Items {
			out = append(out, x.Items[i].DeepCopy())
		}
	}
	return out, nil
}
