// kvh — the Go side of the correspondence check: generates cases, runs the real katib code
// (built from /repo with -tags verif) and writes op lines + canonical implementation outputs.
package main

import (
	"runtime/pprof"
	"time"
	"bufio"
	"encoding/hex"
	"encoding/json"
	"flag"
	"fmt"
	"math"
	"math/rand"
	"os"
	"path/filepath"
	"sort"
	"strings"

	"github.com/go-logr/logr"
	logf "sigs.k8s.io/controller-runtime/pkg/log"
)

// Case is one self-contained correspondence case: op lines for the Lean driver and the
// implementation's canonical output line for each of them.
type Case struct {
	Ops  []string
	Impl []string
	Tags []string // branch / shape tags for the distribution statistics
	Trivial bool  // true when the case exercises only a default path (not counted as non-trivial)
}

type propRunner func(rng *rand.Rand, tier string, k int) Case

var runners = map[string]propRunner{}
var extractors = map[string]func(repo string, outDir string) error{}

func hx(s string) string {
	if s == "" {
		return "-"
	}
	return hex.EncodeToString([]byte(s))
}

// fkey: order-isomorphic integer key of a finite float64 (±0 identified)
func fkey(f float64) int64 {
	if f == 0 {
		return 0
	}
	b := int64(math.Float64bits(f))
	if b < 0 {
		return math.MinInt64 - b
	}
	return b
}

func splitmix(seed int64, k int) int64 {
	z := uint64(seed) + uint64(k+1)*0x9E3779B97F4A7C15
	z = (z ^ (z >> 30)) * 0xBF58476D1CE4E5B9
	z = (z ^ (z >> 27)) * 0x94D049BB133111EB
	z = z ^ (z >> 31)
	return int64(z >> 1)
}

func pick[T any](rng *rand.Rand, xs []T) T { return xs[rng.Intn(len(xs))] }

func runCase(r propRunner, seed int64, tier string, k int) (c Case) {
	rng := rand.New(rand.NewSource(splitmix(seed, k)))
	defer func() {
		if e := recover(); e != nil {
			// a panic outside a runner's own recover: report as one failing line
			c.Ops = append(c.Ops, "HARNESS-PANIC")
			c.Impl = append(c.Impl, fmt.Sprintf("panic %v", e))
		}
	}()
	return r(rng, tier, k)
}

func main() {
	logf.SetLogger(logr.Discard())
	if len(os.Args) < 2 {
		fmt.Fprintln(os.Stderr, "usage: kvh <prop>|extract ...")
		os.Exit(2)
	}
	prop := os.Args[1]
	fs := flag.NewFlagSet("kvh", flag.ExitOnError)
	seed := fs.Int64("seed", 1, "PRNG seed")
	n := fs.Int("n", 100, "number of cases")
	from := fs.Int("from", 0, "first case index")
	tier := fs.String("tier", "quick", "tier")
	out := fs.String("out", ".", "output directory")
	repo := fs.String("repo", "/repo", "repository root (extractors)")
	caseTimeout := fs.Int("case-timeout", 90, "seconds one case may take before the run is abandoned (the code under test does not return)")
	fs.Parse(os.Args[2:])
	if prop == "extract" {
		names := []string{}
		for k := range extractors {
			names = append(names, k)
		}
		sort.Strings(names)
		for _, k := range names {
			if err := extractors[k](*repo, *out); err != nil {
				fmt.Fprintf(os.Stderr, "extract %s: %v\n", k, err)
				os.Exit(1)
			}
		}
		return
	}
	r, ok := runners[prop]
	if !ok {
		fmt.Fprintf(os.Stderr, "unknown property %s\n", prop)
		os.Exit(2)
	}
	os.MkdirAll(*out, 0o755)
	opsF, _ := os.Create(filepath.Join(*out, "ops.txt"))
	implF, _ := os.Create(filepath.Join(*out, "impl.out"))
	idxF, _ := os.Create(filepath.Join(*out, "idx.txt"))
	ow, iw, xw := bufio.NewWriter(opsF), bufio.NewWriter(implF), bufio.NewWriter(idxF)
	tags := map[string]int{}
	lines := 0
	finish := func() {
		ow.Flush()
		iw.Flush()
		xw.Flush()
		meta := map[string]any{"property": prop, "seed": *seed, "cases": *n, "from": *from, "lines": lines, "tags": tags}
		b, _ := json.MarshalIndent(meta, "", " ")
		os.WriteFile(filepath.Join(*out, "meta.json"), b, 0o644)
	}
	for k := *from; k < *from+*n; k++ {
		// watchdog: a case that does not return (e.g. the code under test spins) ends the shard with one TIMEOUT line
		ch := make(chan Case, 1)
		go func(k int) { ch <- runCase(r, *seed, *tier, k) }(k)
		var c Case
		select {
		case c = <-ch:
		case <-time.After(time.Duration(*caseTimeout) * time.Second):
			fmt.Fprintf(ow, "HARNESS-TIMEOUT %s:%d\n", prop, k)
			fmt.Fprintln(iw, "timeout")
			fmt.Fprintln(xw, k)
			lines++
			tags["TIMEOUT"]++
			finish()
			// where every goroutine stands (which call did not return): kept next to the shard's output
			if sf, err := os.Create(filepath.Join(*out, "timeout-stacks.txt")); err == nil {
				pprof.Lookup("goroutine").WriteTo(sf, 2)
				sf.Close()
			}
			fmt.Fprintf(os.Stderr, "case %s:%d did not return within %ds\n", prop, k, *caseTimeout)
			os.Exit(4)
		}
		if len(c.Ops) != len(c.Impl) {
			fmt.Fprintf(os.Stderr, "case %d: %d ops vs %d outputs\n", k, len(c.Ops), len(c.Impl))
			os.Exit(3)
		}
		for i := range c.Ops {
			fmt.Fprintln(ow, strings.ReplaceAll(c.Ops[i], "\n", " "))
			fmt.Fprintln(iw, strings.ReplaceAll(c.Impl[i], "\n", " "))
			if c.Trivial {
				fmt.Fprintln(xw, k, "t")
			} else {
				fmt.Fprintln(xw, k)
			}
			lines++
		}
		for _, t := range c.Tags {
			tags[t]++
		}
	}
	finish()
}
