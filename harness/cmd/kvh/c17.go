package main

import (
	"fmt"
	"math/rand"
	"sort"
	"strings"

	corev1 "k8s.io/api/core/v1"
	metav1 "k8s.io/apimachinery/pkg/apis/meta/v1"
	"sigs.k8s.io/controller-runtime/pkg/client/fake"
	"sigs.k8s.io/yaml"

	configv1beta1 "github.com/kubeflow/katib/pkg/apis/config/v1beta1"
	commonv1beta1 "github.com/kubeflow/katib/pkg/apis/controller/common/v1beta1"
	experimentsv1beta1 "github.com/kubeflow/katib/pkg/apis/controller/experiments/v1beta1"
	suggestionsv1beta1 "github.com/kubeflow/katib/pkg/apis/controller/suggestions/v1beta1"
	"github.com/kubeflow/katib/pkg/controller.v1beta1/suggestion/composer"
	"github.com/kubeflow/katib/pkg/controller.v1beta1/util"
)

func labelStr(m map[string]string) string {
	o := []string{}
	for k, v := range m {
		o = append(o, hx(k)+":"+hx(v))
	}
	sort.Strings(o)
	if len(o) == 0 {
		return "-"
	}
	return strings.Join(o, ",")
}

func ownedBy(refs []metav1.OwnerReference, s *suggestionsv1beta1.Suggestion) bool {
	return len(refs) == 1 && refs[0].Controller != nil && *refs[0].Controller && refs[0].UID == s.UID && refs[0].Name == s.Name && refs[0].Kind == "Suggestion"
}

func init() {
	runners["C17"] = func(rng *rand.Rand, tier string, k int) Case {
		getValidator() // sets valScheme
		// algorithm names are whatever katib-config lists (not constrained); with a 40-character experiment name the derived
		// `<experiment>-<algorithm>` names pass 63 characters
		algoName := pick(rng, []string{"random", "random", "tpe", "bayesianoptimization", "acme-bayesian-search-with-gpu", "my-very-long-algorithm-name-for-tuning-models"})
		cfg := configv1beta1.SuggestionConfig{AlgorithmName: algoName}
		cfg.Container.Image = "img/random"
		cfg.Container.Name = pick(rng, []string{"", "", "my-container", "suggestion"})
		ptoks := []string{}
		for i := rng.Intn(3); i > 0; i-- {
			p := corev1.ContainerPort{Name: pick(rng, []string{"metrics", "extra", "suggestion-api", "debug"}), ContainerPort: pick(rng, []int32{8080, 9090, 6788, 6789, 9000})}
			if rng.Intn(4) != 0 && (p.Name == "suggestion-api" || p.ContainerPort == 6789) {
				p = corev1.ContainerPort{Name: "metrics", ContainerPort: 9090}
			}
			cfg.Container.Ports = append(cfg.Container.Ports, p)
			ptoks = append(ptoks, fmt.Sprintf("%s %d", hx(p.Name), p.ContainerPort))
		}
		cfg.ServiceAccountName = pick(rng, []string{"", "", "custom-sa"})
		cfg.VolumeMountPath = pick(rng, []string{"", "/opt/data"})
		mtoks := []string{}
		if rng.Intn(4) == 0 {
			nm := pick(rng, []string{"suggestion-volume", "cache"})
			cfg.Container.VolumeMounts = append(cfg.Container.VolumeMounts, corev1.VolumeMount{Name: nm, MountPath: "/custom"})
			mtoks = append(mtoks, hx(nm))
		}
		// a statically provisioned volume: katib-config may carry a PersistentVolume spec for the algorithm
		pvConfigured := rng.Intn(3) == 0
		if pvConfigured {
			cfg.PersistentVolumeSpec = corev1.PersistentVolumeSpec{StorageClassName: "katib-suggestion", AccessModes: []corev1.PersistentVolumeAccessMode{corev1.ReadWriteOnce},
				PersistentVolumeSource: corev1.PersistentVolumeSource{HostPath: &corev1.HostPathVolumeSource{Path: "/tmp/katib"}}}
			cfg.PersistentVolumeLabels = map[string]string{"type": "local"}
		}
		kc := configv1beta1.KatibConfig{}
		kc.RuntimeConfig.SuggestionConfigs = []configv1beta1.SuggestionConfig{cfg}
		kc.RuntimeConfig.EarlyStoppingConfigs = []configv1beta1.EarlyStoppingConfig{{AlgorithmName: "medianstop", Image: "img/medianstop"}}
		kc.APIVersion, kc.Kind = "config.kubeflow.org/v1beta1", "KatibConfig"
		yb, _ := yaml.Marshal(kc)
		cm := &corev1.ConfigMap{ObjectMeta: metav1.ObjectMeta{Name: "katib-config", Namespace: "kubeflow"}, Data: map[string]string{"katib-config.yaml": string(yb)}}
		c := fake.NewClientBuilder().WithScheme(valScheme).WithObjects(cm).Build()
		comp := composer.NewVerifComposer(valScheme, c)
		s := &suggestionsv1beta1.Suggestion{ObjectMeta: metav1.ObjectMeta{Name: pick(rng, []string{"exp", "e1", "a-b", "exp", "an-experiment-name-of-forty-characters-x", "thirty-three-characters-long-name"}), Namespace: pick(rng, []string{"ns1", "kubeflow", "team-x"}), UID: "uid-1"},
			Spec: suggestionsv1beta1.SuggestionSpec{Algorithm: &commonv1beta1.AlgorithmSpec{AlgorithmName: algoName}}}
		ltoks := []string{}
		if rng.Intn(2) == 0 {
			s.Labels = map[string]string{}
			for i := rng.Intn(3); i > 0; i-- {
				s.Labels[pick(rng, []string{"team", "katib.kubeflow.org/experiment", "app", "katib.kubeflow.org/deployment", "sidecar.istio.io/inject", "app.kubernetes.io/name"})] = pick(rng, []string{"a", "other", "x", "true", "false"})
			}
			keys := []string{}
			for kk := range s.Labels {
				keys = append(keys, kk)
			}
			sort.Strings(keys)
			for _, kk := range keys {
				ltoks = append(ltoks, hx(kk)+" "+hx(s.Labels[kk]))
			}
		}
		s.Spec.ResumePolicy = pick(rng, []experimentsv1beta1.ResumePolicyType{experimentsv1beta1.NeverResume, experimentsv1beta1.LongRunning, experimentsv1beta1.FromVolume})
		esTok := "none"
		switch rng.Intn(4) {
		case 0, 1:
			s.Spec.EarlyStopping = &commonv1beta1.EarlyStoppingSpec{AlgorithmName: "medianstop"}
			esTok = hx("medianstop")
		case 2:
			if rng.Intn(3) == 0 {
				s.Spec.EarlyStopping = &commonv1beta1.EarlyStoppingSpec{AlgorithmName: ""}
				esTok = "-"
			}
		}
		op := fmt.Sprintf("C17 %s %s %d %s %s %s %s %s %d %s %s %s %d %s", hx(s.Name), hx(s.Namespace), len(ltoks), strings.Join(ltoks, " "), hx(algoName), resumeTok(s.Spec.ResumePolicy), esTok,
			hx(cfg.Container.Name), len(ptoks), strings.Join(ptoks, " "), hx(cfg.ServiceAccountName), hx(cfg.VolumeMountPath), len(mtoks), strings.Join(mtoks, " "))
		tags := []string{"resume=" + resumeTok(s.Spec.ResumePolicy)}
		if len(s.Name)+1+len(algoName) > 63 {
			tags = append(tags, "derived-name-longer-than-63")
		}
		if pvConfigured {
			tags = append(tags, "pv-in-katib-config")
		}
		if esTok != "none" && esTok != "-" {
			tags = append(tags, "early-stopping")
		}
		if cfg.ServiceAccountName != "" {
			tags = append(tags, "custom-sa")
		}
		impl := ""
		func() {
			defer func() {
				if e := recover(); e != nil {
					impl = fmt.Sprintf("panic %v", e)
				}
			}()
			owner := true
			svc, err := comp.DesiredService(s)
			if err != nil {
				impl = "err service"
				return
			}
			owner = owner && ownedBy(svc.OwnerReferences, s)
			sports := []string{}
			for _, p := range svc.Spec.Ports {
				sports = append(sports, fmt.Sprintf("%s:%d", hx(p.Name), p.Port))
			}
			svcS := fmt.Sprintf("svc=%s/%s sel=%s sports=%s", hx(svc.Name), hx(svc.Namespace), labelStr(svc.Spec.Selector), strings.Join(sports, ","))
			epSplit := func(e string) string {
				i := strings.LastIndex(e, ":")
				return hx(e[:i]) + e[i:]
			}
			ep := fmt.Sprintf("ep=%s esep=%s", epSplit(util.GetAlgorithmEndpoint(s)), epSplit(util.GetEarlyStoppingEndpoint(s)))
			pvcN := util.GetSuggestionPersistentVolumeClaimName(s)
			if s.Spec.ResumePolicy == experimentsv1beta1.FromVolume {
				pvc, pv, err := comp.DesiredVolume(s)
				if err != nil {
					impl = "err volume"
					return
				}
				pvcN = pvc.Name
				owner = owner && ownedBy(pvc.OwnerReferences, s) && pvc.Namespace == s.Namespace
				// the cluster-scoped volume exists exactly when configured, under the derived name and with the configured labels
				if (pv != nil) != pvConfigured || (pv != nil && (pv.Name != util.GetSuggestionPersistentVolumeName(s) || pv.Labels["type"] != "local")) {
					owner = false
				}
			}
			sa, role, rb, err := comp.DesiredRBAC(s)
			if err != nil {
				impl = "err rbac"
				return
			}
			rbacOK := sa.Name == role.Name && rb.RoleRef.Name == role.Name && len(rb.Subjects) == 1 && rb.Subjects[0].Name == sa.Name && rb.Subjects[0].Namespace == s.Namespace &&
				sa.Namespace == s.Namespace && role.Namespace == s.Namespace && rb.Namespace == s.Namespace && len(role.Rules) == 1 && role.Rules[0].Resources[0] == "trials"
			owner = owner && ownedBy(sa.OwnerReferences, s) && ownedBy(role.OwnerReferences, s) && ownedBy(rb.OwnerReferences, s)
			rbacName := sa.Name
			if !rbacOK {
				rbacName = "INCONSISTENT"
			}
			d, err := comp.DesiredDeployment(s)
			reconciles := false
			ownS := ""
			if err != nil {
				impl = fmt.Sprintf("ok deploy=error %s %s pvc=%s rbac=%s reconcilesRbac=0", svcS, ep, hx(pvcN), hx(rbacName))
				if !owner {
					impl += " owner=bad"
				}
				tags = append(tags, "deployment-rejected")
				return
			}
			owner = owner && ownedBy(d.OwnerReferences, s)
			if !owner {
				ownS = " owner=bad"
			}
			// the suggestion controller's condition for reconciling RBAC
			reconciles = s.Spec.EarlyStopping != nil && d.Spec.Template.Spec.ServiceAccountName == util.GetSuggestionRBACName(s)
			if s.Spec.EarlyStopping != nil && s.Spec.EarlyStopping.AlgorithmName == "" {
				reconciles = false // outside the model: an empty early-stopping algorithm is rejected at admission
			}
			cts := []string{}
			for _, ct := range d.Spec.Template.Spec.Containers {
				ps := []string{}
				for _, p := range ct.Ports {
					ps = append(ps, fmt.Sprintf("%s:%d", hx(p.Name), p.ContainerPort))
				}
				ms := []string{}
				for _, m := range ct.VolumeMounts {
					ms = append(ms, hx(m.Name))
				}
				cts = append(cts, hx(ct.Name)+"/"+dashJoin(ps)+"/"+dashJoin(ms))
			}
			vols := []string{}
			for _, v := range d.Spec.Template.Spec.Volumes {
				claim := ""
				if v.PersistentVolumeClaim != nil {
					claim = v.PersistentVolumeClaim.ClaimName
				}
				vols = append(vols, hx(v.Name)+":"+hx(claim))
			}
			impl = fmt.Sprintf("ok deploy=%s/%s dsel=%s pod=%s cts=%s sa=%s vols=%s %s %s pvc=%s rbac=%s reconcilesRbac=%s%s", hx(d.Name), hx(d.Namespace),
				labelStr(d.Spec.Selector.MatchLabels), labelStr(d.Spec.Template.Labels), strings.Join(cts, ";"), hx(d.Spec.Template.Spec.ServiceAccountName), dashJoin(vols),
				svcS, ep, hx(pvcN), hx(rbacName), b01(reconciles), ownS)
		}()
		return Case{Ops: []string{strings.Join(strings.Fields(op), " ")}, Impl: []string{strings.Join(strings.Fields(impl), " ")}, Tags: tags}
	}
}
