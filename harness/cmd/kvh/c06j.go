package main

// C06J: job status documents x success / failure conditions through the real GetDeployedJobStatus
// (pkg/controller.v1beta1/trial/util/job_util.go).  Entries of status.conditions are objects with string members; besides
// the members a Kubernetes condition has (type, status, reason, message) they may carry members of the workload's own
// (`condition`, `state`, `lastProbeTime`), as custom resources do.

import (
	"fmt"
	"math/rand"
	"strings"

	corev1 "k8s.io/api/core/v1"
	"k8s.io/apimachinery/pkg/apis/meta/v1/unstructured"

	trialsv1beta1 "github.com/kubeflow/katib/pkg/apis/controller/trials/v1beta1"
	trialutil "github.com/kubeflow/katib/pkg/controller.v1beta1/trial/util"
)

type jexpr struct {
	all            bool
	k1, v1, k2, v2 string
}

func (x jexpr) path() string {
	if x.all {
		return fmt.Sprintf(`status.conditions.#(%s=="%s")#|#(%s=="%s")#`, x.k1, x.v1, x.k2, x.v2)
	}
	return fmt.Sprintf(`status.conditions.#(%s=="%s")`, x.k1, x.v1)
}
func (x jexpr) tok() string {
	if x.all {
		return fmt.Sprintf("all %s %s %s %s", hx(x.k1), hx(x.v1), hx(x.k2), hx(x.v2))
	}
	return fmt.Sprintf("first %s %s", hx(x.k1), hx(x.v1))
}

func init() {
	runners["C06J"] = func(rng *rand.Rand, tier string, k int) Case {
		key := pick(rng, []string{"type", "type", "type", "condition", "state"})
		failV := pick(rng, []string{"Failed", "Failed", "Error"})
		succV := pick(rng, []string{"Complete", "Succeeded", "Succeeded"})
		mk := func(v string) jexpr {
			if rng.Intn(4) == 0 {
				return jexpr{all: false, k1: key, v1: v}
			}
			return jexpr{all: true, k1: key, v1: v, k2: "status", v2: "True"}
		}
		fe, se := mk(failV), mk(succV)
		n := rng.Intn(5)
		entries := []interface{}{}
		etoks := []string{}
		tags := []string{}
		for i := 0; i < n; i++ {
			m := map[string]interface{}{}
			add := func(k, v string) { m[k] = v }
			if rng.Intn(10) != 0 {
				add(key, pick(rng, []string{failV, succV, "Created", "Running", succV, failV}))
			}
			if rng.Intn(10) != 0 {
				add("status", pick(rng, []string{"True", "True", "False", "Unknown"}))
			}
			if rng.Intn(2) == 0 {
				add("reason", pick(rng, []string{"BackoffLimitExceeded", "JobSucceeded", "DeadlineExceeded", "", "a b"}))
			}
			if rng.Intn(2) == 0 {
				add("message", pick(rng, []string{"Job has reached the specified backoff limit", "done", "", "x\"y"}))
			}
			if key != "condition" && rng.Intn(3) == 0 {
				// a member of the workload's own that happens to be called like the internal verdict field
				add("condition", pick(rng, []string{"Succeeded", "Failed", "Running", "Ready", ""}))
				tags = append(tags, "entry-with-a-condition-member")
			}
			if rng.Intn(4) == 0 {
				add("lastProbeTime", "2024-01-01T00:00:00Z")
			}
			if rng.Intn(8) == 0 {
				// a member that is not a string (custom resources are free to type their members): it matches no comparison
				// with a string and supplies no reason / message, but must not keep the verdict away
				kk := pick(rng, []string{"reason", "message", "condition", "observedGeneration"})
				if _, has := m[kk]; !has || rng.Intn(2) == 0 {
					m[kk] = pick(rng, []interface{}{int64(5), true, map[string]interface{}{"code": "x"}, []interface{}{"a"}})
					tags = append(tags, "entry-with-a-non-string-member")
				}
			}
			entries = append(entries, m)
			// members in the order the JSON text carries them (map keys are marshalled sorted)
			keys := []string{}
			for kk, vv := range m {
				if _, isStr := vv.(string); isStr {
					keys = append(keys, kk) // the model sees the string members
				}
			}
			sortStrings(keys)
			kv := []string{}
			for _, kk := range keys {
				kv = append(kv, hx(kk)+" "+hx(m[kk].(string)))
			}
			etoks = append(etoks, fmt.Sprintf("%d %s", len(keys), strings.Join(kv, " ")))
		}
		named := rng.Intn(8) != 0
		running := rng.Intn(2) == 0
		job := &unstructured.Unstructured{Object: map[string]interface{}{"apiVersion": "batch/v1", "kind": "Job", "metadata": map[string]interface{}{"namespace": "ns"}}}
		if named {
			job.SetName("trial-a")
		}
		switch {
		case n > 0 || rng.Intn(3) == 0:
			job.Object["status"] = map[string]interface{}{"conditions": entries, "active": int64(1)}
		case rng.Intn(2) == 0:
			job.Object["status"] = map[string]interface{}{}
			tags = append(tags, "status-without-conditions")
		default:
			tags = append(tags, "no-status")
		}
		tr := &trialsv1beta1.Trial{}
		tr.Name, tr.Namespace = "trial-a", "ns"
		tr.Spec.FailureCondition, tr.Spec.SuccessCondition = fe.path(), se.path()
		if running {
			tr.Status.Conditions = []trialsv1beta1.TrialCondition{{Type: trialsv1beta1.TrialRunning, Status: corev1.ConditionTrue}}
		}
		op := fmt.Sprintf("C06J %s %s %s %s %d %s", b01(running), b01(named), fe.tok(), se.tok(), n, strings.Join(etoks, " "))
		impl := ""
		func() {
			defer func() {
				if e := recover(); e != nil {
					impl = "panic"
					tags = append(tags, "PANIC")
				}
			}()
			st, err := trialutil.GetDeployedJobStatus(tr, job)
			switch {
			case err != nil:
				impl = "err"
			case st == nil:
				impl = "none"
			case st.Condition == trialutil.JobRunning:
				impl = "running"
			case st.Condition == trialutil.JobFailed:
				impl = fmt.Sprintf("failed %s %s", hx(st.Reason), hx(st.Message))
			case st.Condition == trialutil.JobSucceeded:
				impl = fmt.Sprintf("succeeded %s %s", hx(st.Reason), hx(st.Message))
			default:
				impl = "unknown-verdict " + hx(string(st.Condition))
			}
		}()
		tags = append(tags, "out="+strings.Fields(impl)[0], "key="+key)
		return Case{Ops: []string{strings.Join(strings.Fields(op), " ")}, Impl: []string{impl}, Tags: tags}
	}
}

func sortStrings(l []string) {
	for i := 1; i < len(l); i++ {
		for j := i; j > 0 && l[j] < l[j-1]; j-- {
			l[j], l[j-1] = l[j-1], l[j]
		}
	}
}
