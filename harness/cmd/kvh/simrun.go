package main

// Schedule generator for the simulator: emits one `SIM ...` op per line and, per op, the implementation's
// canonical outcome (`res=.. w=.. | <store dump>`).

import (
	"context"
	"fmt"
	"math/rand"
	"strconv"
	"strings"

	commonv1beta1 "github.com/kubeflow/katib/pkg/apis/controller/common/v1beta1"
	experimentsv1beta1 "github.com/kubeflow/katib/pkg/apis/controller/experiments/v1beta1"
	trialsv1beta1 "github.com/kubeflow/katib/pkg/apis/controller/trials/v1beta1"
	"sigs.k8s.io/controller-runtime/pkg/client"
)

type simCase struct {
	s    *sim
	rng  *rand.Rand
	ops  []string
	impl []string
	cfgs []expCfg
	tags map[string]bool
	// holdLeft: the kind's cache does not move for that many further reconciles (a stalled watch)
	holdLeft [nKinds]int
	// maxNow: the maxTrialCount the user last applied, per experiment (budget edits only ever raise it)
	maxNow map[string]int32
	// goalNext: the next value the settling phase reports for this experiment's objective reaches the goal
	goalNext string
}

func (c *simCase) curMax(g expCfg) int32 {
	if v, ok := c.maxNow[g.ns+"/"+g.name]; ok {
		return v
	}
	return *g.max
}

func (c *simCase) setMax(g expCfg, n int32) {
	if c.maxNow == nil {
		c.maxNow = map[string]int32{}
	}
	c.maxNow[g.ns+"/"+g.name] = n
}

func (c *simCase) emit(op, out string) {
	c.ops = append(c.ops, op)
	c.impl = append(c.impl, out+" | "+c.s.dump())
	c.s.snapshot()
	c.s.opIndex++
}

func resumeTok(r experimentsv1beta1.ResumePolicyType) string {
	switch r {
	case experimentsv1beta1.NeverResume:
		return "never"
	case experimentsv1beta1.FromVolume:
		return "fromVolume"
	}
	return "longRunning"
}

func (c *simCase) init(cfgs []expCfg) {
	c.cfgs = cfgs
	toks := []string{"SIM", "init", strconv.Itoa(len(cfgs))}
	for _, g := range cfgs {
		c.s.createExp(g)
		goal := "none"
		if g.goal != nil {
			goal = strconv.FormatInt(fkey(*g.goal), 10)
		}
		toks = append(toks, g.ns, g.name, strconv.Itoa(int(g.par)), optI(g.max), optI(g.mf), goal, string(g.objType), resumeTok(g.resume),
			b01(g.es), b01(g.retain), b01(g.push), b01(g.labels))
	}
	c.s.snapshot() // snaps[0] = initial store
	c.ops = append(c.ops, strings.Join(toks, " "))
	c.impl = append(c.impl, "ok | "+c.s.dump())
	c.s.opIndex = 1
}

// views: absolute snapshot indices (len(snaps)-1 = the store when the op starts; typed reads never see the op's own writes); lagging is monotone per kind (sim.begin clamps)
func (c *simCase) views(lagP int) [nKinds]int {
	var v [nKinds]int
	live := len(c.s.snaps) - 1 // newest snapshot = store at the start of the op
	for k := 0; k < nKinds; k++ {
		v[k] = live
		if c.holdLeft[k] > 0 {
			c.holdLeft[k]--
			v[k] = c.s.minV[k]
			continue
		}
		if lagP < 0 {
			// a stalled informer: the kind's cache stays where it was for a while, then catches up
			if c.rng.Intn(-lagP) != 0 {
				v[k] = c.s.minV[k]
			}
			continue
		}
		if lagP > 0 && c.rng.Intn(lagP) == 0 {
			v[k] = live - 1 - c.rng.Intn(5)
			if v[k] < 0 {
				v[k] = 0
			}
		}
		if v[k] < c.s.minV[k] {
			v[k] = c.s.minV[k]
		}
	}
	return v
}

func (c *simCase) faultsAbort(faulty bool) (uint64, int) {
	var f uint64
	abort := -1
	if faulty {
		if c.rng.Intn(4) == 0 {
			for i := 0; i < 8; i++ {
				if c.rng.Intn(3) == 0 {
					f |= 1 << uint(i)
				}
			}
			c.tags["write-faults"] = true
		}
		if c.rng.Intn(6) == 0 {
			abort = c.rng.Intn(4)
			c.tags["abort-point"] = true
		}
	}
	return f, abort
}

func abortTok(a int) string {
	if a < 0 {
		return "none"
	}
	return strconv.Itoa(a)
}

func (c *simCase) recExp(g expCfg, faulty bool, lagP int) {
	v := c.views(lagP)
	f, a := c.faultsAbort(faulty)
	out := c.s.recExp(g.ns, g.name, v, f, a)
	c.emit(fmt.Sprintf("SIM recExp %s %s %d %d %d %d %s", g.ns, g.name, c.s.view[kExp], c.s.view[kTrial], c.s.view[kSug], f, abortTok(a)), out)
}

func (c *simCase) expCompleted(g expCfg) bool {
	e := &experimentsv1beta1.Experiment{}
	if c.s.c.Get(context.TODO(), client.ObjectKey{Namespace: g.ns, Name: g.name}, e) != nil {
		return false
	}
	return e.IsCompleted()
}

func (c *simCase) recSug(g expCfg, faulty bool, lagP int) {
	v := c.views(lagP)
	f, a := c.faultsAbort(faulty)
	c.s.algoMode, c.s.esMode = 0, 0
	if faulty && c.rng.Intn(4) == 0 {
		c.s.algoMode = 1 + c.rng.Intn(3)
		c.tags["algo-fault"] = true
	}
	if faulty && g.es && c.rng.Intn(6) == 0 {
		c.s.esMode = 1
		c.tags["es-rpc-fault"] = true
	}
	out := c.s.recSug(g.ns, g.name, v, f, a)
	c.emit(fmt.Sprintf("SIM recSug %s %s %d %d %d %d %d %s %d %d", g.ns, g.name, c.s.view[kSug], c.s.view[kExp], c.s.view[kTrial], c.s.view[kInfra],
		f, abortTok(a), c.s.algoMode, c.s.esMode), out)
	c.s.algoMode, c.s.esMode = 0, 0
}

func (c *simCase) recTrial(ns, name string, faulty bool, lagP int) {
	v := c.views(lagP)
	f, a := c.faultsAbort(faulty)
	out := c.s.recTrial(ns, name, v, f, a)
	c.emit(fmt.Sprintf("SIM recTrial %s %s %d %d %s", ns, name, c.s.view[kTrial], f, abortTok(a)), out)
}

func (c *simCase) trials(ns string) []trialsv1beta1.Trial {
	tl := &trialsv1beta1.TrialList{}
	_ = c.s.c.List(context.TODO(), tl, client.InNamespace(ns))
	return tl.Items
}

var simValues = []string{"0.1", "0.3", "0.5", "0.7", "0.9"}

func (c *simCase) metricOp(trial, text string) {
	c.s.metric(trial, text)
	c.emit(fmt.Sprintf("SIM metric %s %s %s %s", trial, hx(text), fkeyTok(text), hx("acc")), "ok=1")
}

// noiseOp: the collector also stores a metric nobody asked for, named so that it sorts right before the objective
func (c *simCase) noiseOp(trial, text string) {
	c.s.metricNamed(trial, "aab", text)
	c.emit(fmt.Sprintf("SIM metric %s %s %s %s", trial, hx(text), fkeyTok(text), hx("aab")), "ok=1")
	c.tags["stored-metric-without-strategy"] = true
}

func (c *simCase) jobOp(ns, name string, ok bool) {
	r := c.s.jobDone(ns, name, ok)
	w := "failed"
	if ok {
		w = "succeeded"
	}
	c.emit(fmt.Sprintf("SIM job %s %s %s", ns, name, w), "ok="+b01(r))
}

// outcome: a random outcome for a not-yet-completed trial
func (c *simCase) outcome(g expCfg, t trialsv1beta1.Trial) {
	switch k := c.rng.Intn(8); {
	case k == 0:
		if c.rng.Intn(2) == 0 {
			c.noiseOp(t.Name, pick(c.rng, simValues))
		}
		c.metricOp(t.Name, "unavailable")
		c.jobOp(t.Namespace, t.Name, true)
		c.tags["outcome-metrics-unavailable"] = true
	case k == 1:
		c.jobOp(t.Namespace, t.Name, false)
		c.tags["outcome-failed"] = true
	case k == 2 && g.es:
		if t.IsRunning() && c.rng.Intn(4) == 0 {
			// early-stopped, the collector first reports only the marker (the Trial becomes MetricsUnavailable as well), the
			// objective value arrives later and the still-reconciled early-stopped Trial picks it up
			c.metricOp(t.Name, "unavailable")
			r := c.s.earlyStop(t.Namespace, t.Name)
			c.emit(fmt.Sprintf("SIM earlystop %s %s", t.Namespace, t.Name), "ok="+b01(r))
			c.jobOp(t.Namespace, t.Name, true)
			c.recTrial(t.Namespace, t.Name, false, 0)
			if c.rng.Intn(2) == 0 {
				// while the early-stopped Trial holds an observation without an objective value, the other controllers run:
				// the Trial is not counted and must not be reported to the algorithm
				c.recExp(g, false, 0)
				c.recSug(g, false, 0)
				c.recExp(g, false, 0)
				c.recSug(g, false, 0)
				c.tags["suggestion-synced-while-early-stopped-trial-lacks-objective"] = true
			}
			c.metricOp(t.Name, pick(c.rng, simValues))
			c.recTrial(t.Namespace, t.Name, false, 0)
			c.tags["outcome-early-stopped-unavailable-then-late-value"] = true
		} else if t.IsRunning() && c.rng.Intn(4) == 0 {
			// early-stopped, only a metric nobody asked for (or the marker) was stored, and the job then fails: the Trial keeps
			// an observation without an objective value and is not MetricsUnavailable; it does not count and is not reported
			if c.rng.Intn(2) == 0 {
				c.noiseOp(t.Name, pick(c.rng, simValues))
			} else {
				c.metricOp(t.Name, "unavailable")
			}
			r := c.s.earlyStop(t.Namespace, t.Name)
			c.emit(fmt.Sprintf("SIM earlystop %s %s", t.Namespace, t.Name), "ok="+b01(r))
			c.jobOp(t.Namespace, t.Name, false)
			c.recTrial(t.Namespace, t.Name, false, 0)
			c.recExp(g, false, 0)
			c.recSug(g, false, 0)
			c.tags["outcome-early-stopped-job-failed-without-objective"] = true
		} else if t.IsRunning() {
			if c.rng.Intn(3) != 0 {
				c.metricOp(t.Name, pick(c.rng, simValues))
			}
			r := c.s.earlyStop(t.Namespace, t.Name)
			c.emit(fmt.Sprintf("SIM earlystop %s %s", t.Namespace, t.Name), "ok="+b01(r))
			c.jobOp(t.Namespace, t.Name, true)
			c.tags["outcome-early-stopped"] = true
		}
	case k == 3:
		// job finishes before its metrics arrive
		if c.rng.Intn(2) == 0 {
			c.noiseOp(t.Name, pick(c.rng, simValues))
		}
		c.jobOp(t.Namespace, t.Name, true)
		c.tags["job-before-metrics"] = true
	case k == 4:
		c.metricOp(t.Name, pick(c.rng, simValues))
	default:
		c.metricOp(t.Name, pick(c.rng, simValues))
		c.jobOp(t.Namespace, t.Name, true)
	}
}

func (c *simCase) deployReady(g expCfg) {
	r := c.s.deployReady(g.ns, g.name)
	c.emit(fmt.Sprintf("SIM deployReady %s %s", g.ns, g.name), "ok="+b01(r))
}

func (c *simCase) round(g expCfg) {
	c.recExp(g, false, 0)
	c.recExp(g, false, 0)
	c.recSug(g, false, 0)
	c.deployReady(g)
	c.recSug(g, false, 0)
	c.recSug(g, false, 0)
	c.recExp(g, false, 0)
	for _, t := range c.trials(g.ns) {
		if t.Labels["katib.kubeflow.org/experiment"] == g.name {
			c.recTrial(t.Namespace, t.Name, false, 0)
			c.recTrial(t.Namespace, t.Name, false, 0)
			c.recTrial(t.Namespace, t.Name, false, 0)
		}
	}
}

// finishJobs settles the environment: every unfinished trial's job finishes with a metric, and every trial whose
// collector has reported nothing yet gets its entry (a value, rarely the `unavailable` marker)
func (c *simCase) finishJobs(g expCfg) {
	for _, t := range c.trials(g.ns) {
		if t.Labels["katib.kubeflow.org/experiment"] != g.name {
			continue
		}
		if !t.IsCompleted() {
			// the collector reports once: a Trial whose log already holds an entry for the objective (a value or the
			// `unavailable` marker) gets nothing more; the job just finishes
			hasObjective := false
			for _, e := range c.s.db.logs[t.Name] {
				if e.name == "" {
					hasObjective = true
				}
			}
			if !hasObjective {
				if c.rng.Intn(8) == 0 {
					c.metricOp(t.Name, "unavailable")
					c.tags["settled-with-unavailable-objective"] = true
				} else if c.goalNext != "" {
					c.metricOp(t.Name, c.goalNext)
					c.goalNext = ""
					c.tags["goal-reached-after-restart-with-budget-to-spare"] = true
				} else {
					c.metricOp(t.Name, pick(c.rng, simValues))
				}
			}
			c.jobOp(t.Namespace, t.Name, true)
		} else if len(c.s.db.logs[t.Name]) == 0 && t.DeletionTimestamp.IsZero() {
			if c.rng.Intn(6) == 0 {
				c.metricOp(t.Name, "unavailable")
			} else {
				c.metricOp(t.Name, pick(c.rng, simValues))
			}
		}
	}
}

// settle: fault-free rounds (jobs finish, metrics arrive) until a whole round attempts no write, at most `rounds`
func (c *simCase) settle(g expCfg, rounds int) {
	if g.max == nil && rounds > 6 {
		rounds = 6 // an experiment without maxTrialCount (and without a reachable goal) runs forever
	}
	for i := 0; i < rounds; i++ {
		w0 := c.s.writesTotal
		n0 := len(c.ops)
		c.round(g)
		c.finishJobs(g)
		if c.s.writesTotal == w0 && len(c.ops)-n0 > 0 && i > 0 {
			jobsLeft := false
			for _, t := range c.trials(g.ns) {
				if t.Labels["katib.kubeflow.org/experiment"] == g.name && !t.IsCompleted() {
					jobsLeft = true
				}
			}
			if !jobsLeft {
				return
			}
		}
	}
}

func genCfg(rng *rand.Rand, ns, name string) expCfg {
	g := expCfg{ns: ns, name: name}
	if rng.Intn(6) != 0 {
		g.max = i32p(int32(1 + rng.Intn(4)))
	}
	g.par = int32(1 + rng.Intn(3))
	if g.max != nil && g.par > *g.max {
		g.par = *g.max
	}
	if rng.Intn(2) == 0 {
		v := int32(1 + rng.Intn(3))
		if g.max != nil && v > *g.max {
			v = *g.max
		}
		g.mf = &v
	}
	if rng.Intn(3) == 0 {
		gl := pick(rng, []float64{0.2, 0.6, 0.8})
		g.goal = &gl
	}
	g.objType = pick(rng, []commonv1beta1.ObjectiveType{commonv1beta1.ObjectiveTypeMaximize, commonv1beta1.ObjectiveTypeMinimize})
	g.es = rng.Intn(3) == 0
	g.retain = rng.Intn(2) == 0
	g.push = rng.Intn(5) == 0
	g.labels = rng.Intn(3) == 0
	g.resume = pick(rng, []experimentsv1beta1.ResumePolicyType{experimentsv1beta1.NeverResume, experimentsv1beta1.LongRunning, experimentsv1beta1.FromVolume})
	return g
}

func runSim(rng *rand.Rand, tier string, k int) Case {
	c := &simCase{s: newSim(), rng: rng, tags: map[string]bool{}}
	c.s.algoLabels = rng.Intn(3) == 0
	cfgs := []expCfg{genCfg(rng, "ns1", "exp")}
	if rng.Intn(3) == 0 {
		// a second experiment: same name in another namespace, or another name in the same namespace
		if rng.Intn(2) == 0 {
			cfgs = append(cfgs, genCfg(rng, "ns2", "exp"))
			c.tags["two-namespaces-same-name"] = true
		} else {
			g2 := genCfg(rng, "ns1", "exq")
			if rng.Intn(2) == 0 {
				// created from the other experiment's exported metadata: carries its reserved label and its labels
				g2.aliasOf = "exp"
				g2.labels = cfgs[0].labels
				c.tags["experiment-carries-foreign-reserved-label"] = true
			}
			cfgs = append(cfgs, g2)
			c.tags["two-experiments-one-namespace"] = true
		}
	}
	c.init(cfgs)
	steps := 30 + rng.Intn(90)
	lagP := 0
	switch rng.Intn(4) {
	case 0, 1:
		lagP = 3
		c.tags["lagging-views"] = true
	case 2:
		lagP = -(2 + rng.Intn(3))
		c.tags["stalled-informer-views"] = true
	}
	faulty := rng.Intn(3) != 0
	for st := 0; st < steps; st++ {
		g := cfgs[rng.Intn(len(cfgs))]
		ts := []trialsv1beta1.Trial{}
		for _, t := range c.trials(g.ns) {
			if t.Labels["katib.kubeflow.org/experiment"] == g.name {
				ts = append(ts, t)
			}
		}
		if lagP != 0 && rng.Intn(15) == 0 {
			c.holdLeft[rng.Intn(nKinds)] = 2 + rng.Intn(5)
			c.tags["one-kind-cache-held"] = true
		}
		switch op := rng.Intn(11); {
		case op <= 2:
			was := c.expCompleted(g)
			c.recExp(g, faulty, lagP)
			if !was && c.expCompleted(g) && g.max != nil && rng.Intn(3) == 0 {
				// the user raises the budget right after the verdict, before the controller has cleaned up: the next reconcile
				// finds clean-up and restart due at once and works on one (by then outdated) copy of the Suggestion
				n := c.curMax(g) + int32(1+rng.Intn(2))
				r := c.s.editMax(g.ns, g.name, n)
				c.setMax(g, n)
				c.emit(fmt.Sprintf("SIM editMax %s %s %d", g.ns, g.name, n), "ok="+b01(r))
				c.recExp(g, false, lagP)
				c.tags["budget-raised-right-after-the-verdict"] = true
			} else if lagP != 0 && !was && c.expCompleted(g) && rng.Intn(2) == 0 {
				// the Experiment cache keeps serving the copy from before the verdict for a while
				c.holdLeft[kExp] = 3 + rng.Intn(5)
				c.tags["experiment-cache-held-at-pre-verdict-copy"] = true
			}
		case op <= 4:
			c.recSug(g, faulty, lagP)
		case op == 5:
			if g.max != nil && rng.Intn(4) == 0 {
				// in the middle of the run the user re-applies the Experiment with the same budget and a changed label
				r := c.s.editMax(g.ns, g.name, c.curMax(g))
				c.emit(fmt.Sprintf("SIM editMax %s %s %d", g.ns, g.name, c.curMax(g)), "ok="+b01(r))
				c.tags["experiment-relabelled-mid-run"] = true
			} else {
				c.deployReady(g)
			}
		case op <= 7:
			if len(ts) > 0 {
				t := ts[rng.Intn(len(ts))]
				if !t.IsRunning() && !t.IsCompleted() && t.IsCreated() && rng.Intn(5) == 0 {
					// the reconcile that creates the run object is cut off before its status write (Running is never
					// persisted), and the job finishes before the retry
					v := c.views(0)
					out := c.s.recTrial(t.Namespace, t.Name, v, 0, 1)
					c.emit(fmt.Sprintf("SIM recTrial %s %s %d %d %s", t.Namespace, t.Name, c.s.view[kTrial], 0, abortTok(1)), out)
					if rng.Intn(3) != 0 {
						c.metricOp(t.Name, pick(c.rng, append([]string{"unavailable"}, simValues...)))
					}
					c.jobOp(t.Namespace, t.Name, rng.Intn(3) != 0)
					c.recTrial(t.Namespace, t.Name, false, 0)
					c.tags["job-finished-before-running-was-persisted"] = true
				} else {
					c.recTrial(t.Namespace, t.Name, faulty, lagP)
				}
			}
		case op == 8:
			if len(ts) > 0 {
				t := ts[rng.Intn(len(ts))]
				if !t.IsCompleted() {
					c.outcome(g, t)
				} else if rng.Intn(3) == 0 {
					// metrics that arrive after the verdict
					c.metricOp(t.Name, pick(c.rng, simValues))
					c.tags["late-metrics-after-verdict"] = true
				} else if rng.Intn(3) == 0 {
					// the retained run object of a completed trial is removed by someone else (TTL, user clean-up)
					r := c.s.jobGone(t.Namespace, t.Name)
					c.emit(fmt.Sprintf("SIM jobGone %s %s", t.Namespace, t.Name), "ok="+b01(r))
					if r {
						c.tags["run-object-of-completed-trial-removed-externally"] = true
					}
				}
			}
		case op == 9:
			for _, t := range ts {
				c.recTrial(t.Namespace, t.Name, false, 0)
			}
		case op == 10:
			c.round(g)
		}
	}
	c.holdLeft = [nKinds]int{}
	// settle: faults stop, jobs finish, metrics arrive
	for _, g := range cfgs {
		c.settle(g, 40)
	}
	// quiescence probe: two further rounds must not write anything
	for _, g := range cfgs {
		c.emit(fmt.Sprintf("SIM quiesce-begin %s %s", g.ns, g.name), "ok=1")
		c.round(g)
		c.round(g)
		c.emit(fmt.Sprintf("SIM quiesce-end %s %s", g.ns, g.name), "ok=1")
	}
	// restart: raise the budget after completion and settle again
	if rng.Intn(2) == 0 {
		g := cfgs[0]
		if g.max != nil {
			n := c.curMax(g)
			raises := 1 + rng.Intn(2)
			for ri := 0; ri < raises; ri++ {
				n += int32(1 + rng.Intn(2))
				r := c.s.editMax(g.ns, g.name, n)
				c.setMax(g, n)
				c.emit(fmt.Sprintf("SIM editMax %s %s %d", g.ns, g.name, n), "ok="+b01(r))
				c.tags["budget-raised-after-completion"] = true
				if ri == 1 {
					c.tags["budget-raised-twice"] = true
				}
				if rng.Intn(2) == 0 {
					// the restart itself meets transient faults: a failing call or an abort inside the restarting reconciles
					c.tags["faults-during-restart"] = true
					for j := 1 + rng.Intn(3); j > 0; j-- {
						f := uint64(1 + rng.Intn(7))
						a := -1
						if rng.Intn(4) == 0 {
							a = rng.Intn(3)
						}
						v := c.views(0)
						out := c.s.recExp(g.ns, g.name, v, f, a)
						c.emit(fmt.Sprintf("SIM recExp %s %s %d %d %d %d %s", g.ns, g.name, c.s.view[kExp], c.s.view[kTrial], c.s.view[kSug], f, abortTok(a)), out)
						if rng.Intn(2) == 0 {
							c.recSug(g, true, 0)
						}
					}
				}
				if g.goal != nil {
					// the first Trial that finishes after the restart reaches the goal: a second verdict while budget is left
					c.goalNext = "0.9"
					if g.objType == commonv1beta1.ObjectiveTypeMinimize {
						c.goalNext = "0.1"
					}
				}
				c.settle(g, 40)
				c.goalNext = ""
				c.emit(fmt.Sprintf("SIM quiesce-begin %s %s", g.ns, g.name), "ok=1")
				c.round(g)
				c.round(g)
				c.emit(fmt.Sprintf("SIM quiesce-end %s %s", g.ns, g.name), "ok=1")
			}
		}
	}
	// teardown: the Trials are deleted (by the user, or because their Experiment was) while the trial controller still
	// runs; no experiment reconcile follows, so nothing is re-created.  Faults stay possible: the metrics database may be
	// down exactly when the finalizer wants to clean up.
	if rng.Intn(2) == 0 {
		c.tags["teardown-trials-deleted"] = true
		for _, g := range cfgs {
			ts := []trialsv1beta1.Trial{}
			for _, t := range c.trials(g.ns) {
				if t.Labels["katib.kubeflow.org/experiment"] == g.name {
					ts = append(ts, t)
				}
			}
			for _, t := range ts {
				if rng.Intn(4) == 0 {
					continue
				}
				r := c.s.userDelete(t.Namespace, t.Name)
				c.emit(fmt.Sprintf("SIM userDelete %s %s", t.Namespace, t.Name), "ok="+b01(r))
				for k := 0; k < 1+rng.Intn(3); k++ {
					// bit 0: the database call fails; bit 1: the finalizer write fails
					f := uint64([]int{0, 1, 1, 2, 3}[rng.Intn(5)])
					if f != 0 {
						c.tags["teardown-fault"] = true
					}
					v := c.views(0)
					out := c.s.recTrial(t.Namespace, t.Name, v, f, -1)
					c.emit(fmt.Sprintf("SIM recTrial %s %s %d %d %s", t.Namespace, t.Name, c.s.view[kTrial], f, abortTok(-1)), out)
				}
			}
			for _, t := range ts {
				c.recTrial(t.Namespace, t.Name, false, 0)
			}
		}
	}
	tags := []string{}
	for t := range c.tags {
		tags = append(tags, t)
	}
	for _, g := range cfgs {
		tags = append(tags, "resume="+resumeTok(g.resume))
		if g.es {
			tags = append(tags, "early-stopping")
		}
		if g.max == nil {
			tags = append(tags, "max-unset")
		}
	}
	return Case{Ops: c.ops, Impl: c.impl, Tags: tags}
}

func init() {
	for _, p := range []string{"SIM", "C01", "C04", "C06", "C07", "C08", "C09", "C16"} {
		runners[p] = runSim
	}
}
