package main

import (
	"bufio"
	"encoding/json"
	"os"
	"os/exec"
	"path/filepath"
	"database/sql"
	"database/sql/driver"
	"fmt"
	"io"
	"math/rand"
	"strings"
	"sync"
	"time"

	api "github.com/kubeflow/katib/pkg/apis/manager/v1beta1"
	"github.com/kubeflow/katib/pkg/db/v1beta1/common"
	"github.com/kubeflow/katib/pkg/db/v1beta1/mysql"
	"github.com/kubeflow/katib/pkg/db/v1beta1/postgres"
)

// recDriver is a database/sql driver that records every statement text and its bound arguments and
// answers queries with canned rows.
type recDriver struct {
	mu    sync.Mutex
	stmts []string
	rows  [][]driver.Value
	// refuse: the database rejects the statement ("prepare": when it is prepared, "run": when it is executed or queried)
	refuse string
}

var theRec = &recDriver{}

func (d *recDriver) Open(name string) (driver.Conn, error) { return &recConn{d}, nil }

type recConn struct{ d *recDriver }

func (c *recConn) Prepare(q string) (driver.Stmt, error) {
	if c.d.refuse == "prepare" {
		return nil, fmt.Errorf("verif: statement refused by the database")
	}
	return &recStmt{c.d, q}, nil
}
func (c *recConn) Close() error                        { return nil }
func (c *recConn) Begin() (driver.Tx, error)           { return nil, fmt.Errorf("no tx") }

type recStmt struct {
	d *recDriver
	q string
}

func (s *recStmt) Close() error  { return nil }
func (s *recStmt) NumInput() int { return -1 }
func (s *recStmt) record(args []driver.Value) {
	as := []string{}
	for _, a := range args {
		as = append(as, hx(fmt.Sprint(a)))
	}
	s.d.mu.Lock()
	s.d.stmts = append(s.d.stmts, "sql="+hx(s.q)+" args="+strings.Join(as, ","))
	s.d.mu.Unlock()
}
func (s *recStmt) Exec(args []driver.Value) (driver.Result, error) {
	s.record(args)
	if s.d.refuse == "run" {
		return nil, fmt.Errorf("verif: statement refused by the database")
	}
	return driver.RowsAffected(1), nil
}
func (s *recStmt) Query(args []driver.Value) (driver.Rows, error) {
	s.record(args)
	if s.d.refuse == "run" {
		return nil, fmt.Errorf("verif: statement refused by the database")
	}
	return &recRows{rows: s.d.rows}, nil
}

type recRows struct {
	rows [][]driver.Value
	i    int
}

func (r *recRows) Columns() []string { return []string{"time", "metric_name", "value"} }
func (r *recRows) Close() error      { return nil }
func (r *recRows) Next(dest []driver.Value) error {
	if r.i >= len(r.rows) {
		return io.EOF
	}
	copy(dest, r.rows[r.i])
	r.i++
	return nil
}

var recOnce sync.Once
var recDB *sql.DB

func recConnDB() *sql.DB {
	recOnce.Do(func() {
		sql.Register("verifrec", theRec)
		recDB, _ = sql.Open("verifrec", "x")
		recDB.SetMaxOpenConns(1)
	})
	return recDB
}

// ---- the DB manager's own handlers (cmd/db-manager/v1beta1, package main) run in a helper process built by /verif/check
// with `go build -overlay` (see harness/dbm); one JSON request per line

type dbmLog struct {
	TS        string `json:"ts"`
	HasMetric bool   `json:"hasMetric"`
	Name      string `json:"name"`
	Value     string `json:"value"`
}
type dbmReq struct {
	Dialect string      `json:"dialect"`
	Kind    string      `json:"kind"`
	Trial   string      `json:"trial"`
	NoLog   bool        `json:"nolog"`
	Logs    []dbmLog    `json:"logs"`
	Metric  string      `json:"metric"`
	Start   string      `json:"start"`
	End     string      `json:"end"`
	Rows    [][3]string `json:"rows"`
	Refuse  string      `json:"refuse"`
}
type dbmStmt struct {
	Q    string   `json:"q"`
	Args []string `json:"args"`
}
type dbmResp struct {
	Panic  string      `json:"panic"`
	Err    string      `json:"err"`
	Stmts  []dbmStmt   `json:"stmts"`
	Rows   [][3]string `json:"rows"`
	HasLog bool        `json:"hasLog"`
}

var (
	dbmOnce sync.Once
	dbmIn   *bufio.Writer
	dbmOut  *bufio.Reader
	dbmCmd  *exec.Cmd
)

func dbmStart() bool {
	dbmOnce.Do(func() {
		bin := os.Getenv("KVH_DBM")
		if bin == "" {
			exe, _ := os.Executable()
			bin = filepath.Join(filepath.Dir(exe), "dbm")
		}
		if _, err := os.Stat(bin); err != nil {
			return
		}
		cmd := exec.Command(bin)
		cmd.Env = append(os.Environ(), "KVH_DBM_STDIO=1")
		w, err1 := cmd.StdinPipe()
		r, err2 := cmd.StdoutPipe()
		if err1 != nil || err2 != nil || cmd.Start() != nil {
			return
		}
		dbmCmd, dbmIn, dbmOut = cmd, bufio.NewWriter(w), bufio.NewReaderSize(r, 1<<20)
	})
	return dbmCmd != nil
}

// dbmCall: the handler's answer in the same canonical form as the direct call; "" when the helper is not available
func dbmCall(req dbmReq) string {
	if !dbmStart() {
		return ""
	}
	b, _ := json.Marshal(req)
	dbmIn.Write(b)
	dbmIn.WriteByte('\n')
	if dbmIn.Flush() != nil {
		return "handler-process-died"
	}
	line, err := dbmOut.ReadBytes('\n')
	if err != nil {
		return "handler-process-died"
	}
	var resp dbmResp
	if json.Unmarshal(line, &resp) != nil {
		return "handler-bad-answer"
	}
	if resp.Panic != "" {
		return "panic"
	}
	stmts := []string{}
	for _, st := range resp.Stmts {
		as := []string{}
		for _, a := range st.Args {
			as = append(as, hx(a))
		}
		stmts = append(stmts, "sql="+hx(st.Q)+" args="+strings.Join(as, ","))
	}
	if resp.Err != "" {
		if len(stmts) == 0 {
			return "err"
		}
		return "err-after-statement " + strings.Join(stmts, " ; ")
	}
	out := "ok " + strings.Join(stmts, " ; ")
	if req.Kind == "get" {
		rows := []string{}
		for _, r := range resp.Rows {
			rows = append(rows, hx(r[0])+":"+hx(r[1])+":"+hx(r[2]))
		}
		out += " rows=" + strings.Join(rows, ",")
	}
	return out
}

var c19Strings = []string{"acc", "loss", "x'; DROP TABLE observation_logs;--", "a\"b", "", "0.5", "tr-1", "%s", "?", "$1", "ü", "a b", "\\", "1e3", "NaN"}
var c19Times = []string{"2024-01-01T00:00:00Z", "2024-01-01T01:00:00.5+01:00", "2024-06-30T23:59:59.123456789Z", "", "bad", "2024-01-01", "0001-01-01T00:00:00Z", "2024-01-01T00:00:00.000001Z"}

const mysqlFmt = "2006-01-02 15:04:05.999999"

func tsTok(s string, dialect string) string {
	if s == "" {
		return "empty"
	}
	t, err := time.Parse(time.RFC3339Nano, s)
	if err != nil {
		return "bad"
	}
	if dialect == "mysql" {
		return "ok:" + hx(t.UTC().Format(mysqlFmt))
	}
	return "ok:" + hx(t.UTC().Format(time.RFC3339Nano))
}

func init() {
	runners["C19"] = func(rng *rand.Rand, tier string, k int) Case {
		db := recConnDB()
		dialect := pick(rng, []string{"mysql", "postgres"})
		var conn common.KatibDBInterface
		if dialect == "mysql" {
			conn = mysql.NewVerifDBConn(db)
		} else {
			conn = postgres.NewVerifDBConn(db)
		}
		theRec.stmts = nil
		theRec.refuse = ""
		if rng.Intn(6) == 0 {
			theRec.refuse = pick(rng, []string{"prepare", "run"})
		}
		trial := pick(rng, c19Strings)
		tags := []string{dialect}
		var op string
		var run func() (string, error)
		hreq := dbmReq{Dialect: dialect, Trial: trial, Refuse: theRec.refuse}
		if theRec.refuse != "" {
			tags = append(tags, "database-refuses-at-"+theRec.refuse)
		}
		switch rng.Intn(3) {
		case 0: // report
			var ol *api.ObservationLog
			toks := []string{}
			if rng.Intn(8) != 0 {
				ol = &api.ObservationLog{}
				n := rng.Intn(6)
				for i := 0; i < n; i++ {
					ts := pick(rng, c19Times)
					if (ts == "bad" || ts == "2024-01-01") && rng.Intn(3) != 0 {
						ts = c19Times[0]
					}
					ml := &api.MetricLog{TimeStamp: ts}
					mt := "none"
					if rng.Intn(10) != 0 {
						ml.Metric = &api.Metric{Name: pick(rng, c19Strings), Value: pick(rng, c19Strings)}
						mt = hx(ml.Metric.Name) + ":" + hx(ml.Metric.Value)
					}
					ol.MetricLogs = append(ol.MetricLogs, ml)
					hl := dbmLog{TS: ts, HasMetric: ml.Metric != nil}
					if ml.Metric != nil {
						hl.Name, hl.Value = ml.Metric.Name, ml.Metric.Value
					}
					hreq.Logs = append(hreq.Logs, hl)
					toks = append(toks, tsTok(ts, dialect)+" "+mt)
				}
				op = fmt.Sprintf("C19 report %s %s log %d %s", dialect, hx(trial), n, strings.Join(toks, " "))
			} else {
				op = fmt.Sprintf("C19 report %s %s nolog", dialect, hx(trial))
				hreq.NoLog = true
				tags = append(tags, "report-without-observation-log")
			}
			tags = append(tags, "report")
			hreq.Kind = "report"
			run = func() (string, error) { return "", conn.RegisterObservationLog(trial, ol) }
		case 1: // get
			metric := pick(rng, c19Strings)
			if rng.Intn(2) == 0 {
				metric = ""
			}
			st, en := "", ""
			if rng.Intn(2) == 0 {
				st = pick(rng, c19Times)
			}
			if rng.Intn(2) == 0 {
				en = pick(rng, c19Times)
			}
			// canned rows, some with unparsable times
			theRec.rows = nil
			rowToks := []string{}
			nr := rng.Intn(4)
			for i := 0; i < nr; i++ {
				var ts string
				tok := "none"
				t0 := time.Date(2024, 1, 1+i, 0, 0, 0, 123000, time.UTC)
				if rng.Intn(5) == 0 {
					ts = "garbage"
				} else if dialect == "mysql" {
					ts = t0.Format(mysqlFmt)
					tok = hx(t0.Format(time.RFC3339Nano))
				} else {
					ts = t0.Format(time.RFC3339Nano)
					tok = hx(t0.Format(time.RFC3339Nano))
				}
				n, v := pick(rng, c19Strings), pick(rng, c19Strings)
				theRec.rows = append(theRec.rows, []driver.Value{ts, n, v})
				hreq.Rows = append(hreq.Rows, [3]string{ts, n, v})
				rowToks = append(rowToks, fmt.Sprintf("%s %s %s", tok, hx(n), hx(v)))
			}
			filt := func(s string) string {
				if s == "" {
					return "absent"
				}
				return tsTok(s, dialect)
			}
			op = fmt.Sprintf("C19 get %s %s %s %s %s rows %d %s", dialect, hx(trial), hx(metric), filt(st), filt(en), nr, strings.Join(rowToks, " "))
			tags = append(tags, "get")
			hreq.Kind, hreq.Metric, hreq.Start, hreq.End = "get", metric, st, en
			run = func() (string, error) {
				ol, err := conn.GetObservationLog(trial, metric, st, en)
				if err != nil {
					return "", err
				}
				out := []string{}
				for _, m := range ol.MetricLogs {
					out = append(out, hx(m.TimeStamp)+":"+hx(m.Metric.Name)+":"+hx(m.Metric.Value))
				}
				return " rows=" + strings.Join(out, ","), nil
			}
		default:
			op = fmt.Sprintf("C19 delete %s %s", dialect, hx(trial))
			tags = append(tags, "delete")
			hreq.Kind = "delete"
			run = func() (string, error) { return "", conn.DeleteObservationLog(trial) }
		}
		op = strings.Join(strings.Fields(op), " ")
		if theRec.refuse != "" {
			op = "C19 refused " + theRec.refuse + strings.TrimPrefix(op, "C19")
		}
		// with a refusing database only "an error, no crash" is compared (how far the statement got is the driver's business)
		canon := func(x string) string {
			if theRec.refuse != "" && strings.HasPrefix(x, "err") {
				return "err"
			}
			return x
		}
		var impl string
		func() {
			defer func() {
				if e := recover(); e != nil {
					impl = "panic"
					tags = append(tags, "PANIC")
				}
			}()
			extra, err := run()
			if err != nil {
				if len(theRec.stmts) == 0 {
					impl = "err"
				} else {
					impl = "err-after-statement " + strings.Join(theRec.stmts, " ; ")
				}
				tags = append(tags, "out=err")
				return
			}
			impl = "ok " + strings.Join(theRec.stmts, " ; ") + extra
		}()
		impl = canon(strings.Join(strings.Fields(impl), " "))
		// the same request through the DB manager's own gRPC handler (cmd/db-manager/v1beta1/main.go): its answer is what
		// is compared with the model; a difference from the back end's own answer is tagged
		if h := canon(strings.Join(strings.Fields(dbmCall(hreq)), " ")); h != "" {
			tags = append(tags, "via-db-manager-handler")
			if h != impl {
				tags = append(tags, "handler-differs-from-backend")
				if h == "panic" {
					tags = append(tags, "PANIC")
				}
			}
			impl = h
		} else {
			tags = append(tags, "db-manager-helper-missing")
		}
		return Case{Ops: []string{op}, Impl: []string{impl}, Tags: tags}
	}
}
