package main

import (
	"context"
	"encoding/json"
	"fmt"
	"math/rand"
	"reflect"
	"regexp"
	"strconv"
	"strings"

	corev1 "k8s.io/api/core/v1"
	metav1 "k8s.io/apimachinery/pkg/apis/meta/v1"
	"k8s.io/apimachinery/pkg/apis/meta/v1/unstructured"
	"k8s.io/apimachinery/pkg/util/intstr"
	k8svalidation "k8s.io/apimachinery/pkg/util/validation"
	"k8s.io/apimachinery/pkg/util/validation/field"
	"sigs.k8s.io/controller-runtime/pkg/client"
	"sigs.k8s.io/controller-runtime/pkg/client/fake"
	"sigs.k8s.io/controller-runtime/pkg/webhook/admission"
	admissionv1 "k8s.io/api/admission/v1"
	"k8s.io/apimachinery/pkg/runtime"
	jsonpatchv5 "github.com/evanphx/json-patch/v5"
	configv1beta1 "github.com/kubeflow/katib/pkg/apis/config/v1beta1"
	sigsyaml "sigs.k8s.io/yaml"
	expwebhook "github.com/kubeflow/katib/pkg/webhook/v1beta1/experiment"

	commonv1beta1 "github.com/kubeflow/katib/pkg/apis/controller/common/v1beta1"
	experimentsv1beta1 "github.com/kubeflow/katib/pkg/apis/controller/experiments/v1beta1"
	suggestionsv1beta1 "github.com/kubeflow/katib/pkg/apis/controller/suggestions/v1beta1"
	"github.com/kubeflow/katib/pkg/controller.v1beta1/consts"
	"github.com/kubeflow/katib/pkg/controller.v1beta1/experiment/manifest"
	"github.com/kubeflow/katib/pkg/controller.v1beta1/util"
	"github.com/kubeflow/katib/pkg/webhook/v1beta1/experiment/validator"
)

// katib-config variants: the full one, one with odd algorithm names, one without metrics collectors
var c14Configs = []string{fullKatibConfig, `
apiVersion: config.kubeflow.org/v1beta1
kind: KatibConfig
runtime:
  suggestions:
  - algorithmName: random
    image: img/random
  - algorithmName: My_Algo
    image: img/my
  - algorithmName: a-very-long-algorithm-name-for-katib
    image: img/long
  - algorithmName: bayesianoptimization
    image: img/bo
  earlyStoppings:
  - algorithmName: medianstop
    image: img/medianstop
  metricsCollectors:
  - kind: StdOut
    image: img/file
  - kind: File
    image: img/file
`, `
apiVersion: config.kubeflow.org/v1beta1
kind: KatibConfig
runtime:
  suggestions:
  - algorithmName: random
    image: img/random
`}

type c14env struct {
	algos, ess, mcs map[string]bool // exact names present in this katib-config (independent of the lookup code under test)
	cl   client.Client
	gen  manifest.Generator
	val  validator.Validator
	defW *expwebhook.ExperimentDefaulter
	valW *expwebhook.ExperimentValidator
}

// applyPatch applies the JSON patch of an admission response to the raw object
func applyPatch(raw []byte, resp admission.Response) ([]byte, error) {
	if len(resp.Patches) == 0 {
		return raw, nil
	}
	pb, err := json.Marshal(resp.Patches)
	if err != nil {
		return nil, err
	}
	patch, err := jsonpatchv5.DecodePatch(pb)
	if err != nil {
		return nil, err
	}
	return patch.Apply(raw)
}

var c14envs []*c14env

const c14CMTemplate = `apiVersion: batch/v1
kind: Job
metadata:
  labels:
    app: cm
spec:
  template:
    spec:
      restartPolicy: Never
      containers:
      - name: main
        image: img
        command: ["python", "--lr=${trialParameters.lr}"]
`

func c14Env(i int) *c14env {
	getValidator()
	if c14envs == nil {
		for _, cfg := range c14Configs {
			cm := &corev1.ConfigMap{ObjectMeta: metav1.ObjectMeta{Name: "katib-config", Namespace: "kubeflow"}, Data: map[string]string{"katib-config.yaml": cfg}}
			tpl := &corev1.ConfigMap{ObjectMeta: metav1.ObjectMeta{Name: "templates", Namespace: "kubeflow"}, Data: map[string]string{"job.yaml": c14CMTemplate, "broken.yaml": "{{{ not yaml"}}
			nsObj := &corev1.Namespace{ObjectMeta: metav1.ObjectMeta{Name: "ns", Labels: map[string]string{"katib.kubeflow.org/metrics-collector-injection": "enabled"}}}
			cl := fake.NewClientBuilder().WithScheme(valScheme).WithObjects(cm, tpl, nsObj).Build()
			gen := manifest.New(cl)
			dec := admission.NewDecoder(valScheme)
			env := &c14env{cl: cl, gen: gen, val: validator.New(gen), defW: expwebhook.NewExperimentDefaulter(cl, dec), valW: expwebhook.NewExperimentValidator(cl, dec),
				algos: map[string]bool{}, ess: map[string]bool{}, mcs: map[string]bool{}}
			kc := configv1beta1.KatibConfig{}
			if err := sigsyaml.Unmarshal([]byte(cfg), &kc); err == nil {
				for _, x := range kc.RuntimeConfig.SuggestionConfigs {
					env.algos[x.AlgorithmName] = true
				}
				for _, x := range kc.RuntimeConfig.EarlyStoppingConfigs {
					env.ess[x.AlgorithmName] = true
				}
				for _, x := range kc.RuntimeConfig.MetricsCollectorConfigs {
					env.mcs[x.CollectorKind] = true
				}
			}
			c14envs = append(c14envs, env)
		}
	}
	return c14envs[i]
}

func optI14(rng *rand.Rand) *int32 {
	if rng.Intn(3) == 0 {
		return nil
	}
	v := int32(rng.Intn(8) - 1)
	return &v
}

func oi32(p *int32) string {
	if p == nil {
		return "none"
	}
	return strconv.Itoa(int(*p))
}

var c14Names = []string{"exp", "a", "my-exp-1", "a.b", "Exp", "exp-", "-exp", "e_x", "exp\n", "", "é", "x1", "1x",
	"a234567890123456789012345678901234567890", "a2345678901234567890123456789012345678901", "tune-mnist", "exp", "exp", "exp"}

func genParam14(rng *rand.Rand, name string) experimentsv1beta1.ParameterSpec {
	p := experimentsv1beta1.ParameterSpec{Name: name}
	p.ParameterType = pick(rng, []experimentsv1beta1.ParameterType{"int", "double", "categorical", "discrete", "int", "double", "categorical", "unknown", "", "Int"})
	switch rng.Intn(6) {
	case 0, 1, 2:
		if p.ParameterType == "int" || p.ParameterType == "double" || rng.Intn(6) == 0 {
			p.FeasibleSpace.Min, p.FeasibleSpace.Max = pick(rng, []string{"1", "0.1", "-3", ""}), pick(rng, []string{"5", "0.9", "10", ""})
			if rng.Intn(2) == 0 {
				p.FeasibleSpace.Step = pick(rng, []string{"1", "0.3"})
			}
		} else {
			p.FeasibleSpace.List = pick(rng, [][]string{{"a", "b"}, {"sgd", "adam", "ftrl"}, {"1", "2"}, {"a\"b"}, {"x\\y", "z"}, {}})
		}
	case 3:
		p.FeasibleSpace.List = []string{"a", "b"}
		p.FeasibleSpace.Min = pick(rng, []string{"", "1"})
	case 4:
		// empty feasible space
	case 5:
		p.FeasibleSpace.Min, p.FeasibleSpace.Max = "1", "5"
		p.FeasibleSpace.List = pick(rng, [][]string{nil, {"3"}})
	}
	p.FeasibleSpace.Distribution = pick(rng, []experimentsv1beta1.Distribution{"", "", "uniform", "logUniform", "normal", "logNormal", "unknown", "bogus"})
	return p
}

func genTemplate14(rng *rand.Rand, params []experimentsv1beta1.ParameterSpec) *experimentsv1beta1.TrialTemplate {
	t := &experimentsv1beta1.TrialTemplate{Retain: rng.Intn(2) == 0, PrimaryContainerName: pick(rng, []string{"main", "main", "main", ""})}
	if rng.Intn(4) == 0 {
		t.SuccessCondition, t.FailureCondition = pick(rng, []string{"", "status.ok"}), pick(rng, []string{"", "status.bad"})
	}
	// trial parameters: mostly one per experiment parameter, then perturbations
	tps := []experimentsv1beta1.TrialParameterSpec{}
	for _, p := range params {
		if rng.Intn(8) == 0 {
			continue // unreferenced experiment parameter
		}
		tps = append(tps, experimentsv1beta1.TrialParameterSpec{Name: p.Name, Reference: p.Name})
	}
	metaRefs := []string{"${trialSpec.Name}", "${trialSpec.Namespace}", "${trialSpec.Kind}", "${trialSpec.APIVersion}", "${trialSpec.Labels[app]}", "${trialSpec.Labels[missing]}",
		"${trialSpec.Annotations[note]}", "${trialSpec.Foo}", "${trialSpec.Labels}", "${trialSpec.Name[x]}"}
	for i := rng.Intn(5) - 2; i > 0; i-- {
		tps = append(tps, experimentsv1beta1.TrialParameterSpec{Name: pick(rng, []string{"tname", "tns", "lab", "m" + strconv.Itoa(i)}), Reference: pick(rng, metaRefs)})
	}
	if rng.Intn(8) == 0 {
		tps = append(tps, experimentsv1beta1.TrialParameterSpec{Name: pick(rng, []string{"", "a{b", "x}", "ghost", "lr"}), Reference: pick(rng, []string{"", "ghost", "lr", "zz"})})
	}
	if rng.Intn(12) == 0 {
		rng.Shuffle(len(tps), func(i, j int) { tps[i], tps[j] = tps[j], tps[i] })
	}
	if rng.Intn(15) != 0 {
		t.TrialParameters = tps
	}
	// command referencing the declared names (sometimes one is left out, sometimes an undeclared one is added)
	cmd := []interface{}{"python"}
	for _, tp := range tps {
		if rng.Intn(10) == 0 {
			continue
		}
		cmd = append(cmd, "--"+tp.Name+"=${trialParameters."+tp.Name+"}")
		if rng.Intn(6) == 0 {
			cmd = append(cmd, "again=${trialParameters."+tp.Name+"}/${trialParameters."+tp.Name+"}")
		}
	}
	if rng.Intn(10) == 0 {
		cmd = append(cmd, "${trialParameters.undeclared}")
	}
	kind, api := "Job", "batch/v1"
	switch rng.Intn(6) {
	case 0:
		kind, api = "TFJob", "kubeflow.org/v1"
	case 1:
		kind, api = "Workflow", "argoproj.io/v1alpha1"
	}
	obj := map[string]interface{}{"apiVersion": api, "kind": kind}
	podSpec := map[string]interface{}{"restartPolicy": "Never", "containers": []interface{}{map[string]interface{}{"name": "main", "image": "img", "command": cmd}}}
	if kind == "TFJob" {
		obj["spec"] = map[string]interface{}{"tfReplicaSpecs": map[string]interface{}{"Worker": map[string]interface{}{"replicas": int64(1), "template": map[string]interface{}{"spec": podSpec}}}}
	} else {
		obj["spec"] = map[string]interface{}{"template": map[string]interface{}{"spec": podSpec}}
	}
	md := map[string]interface{}{}
	if rng.Intn(2) == 0 {
		md["labels"] = map[string]interface{}{"app": "x"}
	}
	if rng.Intn(3) == 0 {
		md["annotations"] = map[string]interface{}{"note": "n"}
	}
	if rng.Intn(12) == 0 {
		md["name"] = "fixed"
	}
	if len(md) > 0 {
		obj["metadata"] = md
	}
	switch rng.Intn(14) {
	case 0:
		delete(obj, "apiVersion")
	case 1:
		// not convertible to a batch/v1 Job
		obj["spec"].(map[string]interface{})["backoffLimit"] = "many"
	case 2:
		obj["spec"].(map[string]interface{})["unknownField"] = "x"
	}
	switch rng.Intn(9) {
	case 0:
		t.ConfigMap = &experimentsv1beta1.ConfigMapSource{ConfigMapName: pick(rng, []string{"templates", "templates", "nope", ""}), ConfigMapNamespace: pick(rng, []string{"kubeflow", "kubeflow", ""}),
			TemplatePath: pick(rng, []string{"job.yaml", "job.yaml", "broken.yaml", "nope.yaml", ""})}
		if rng.Intn(6) == 0 {
			t.TrialSpec = &unstructured.Unstructured{Object: obj}
		}
	case 1:
		if rng.Intn(2) == 0 {
			t.TrialSpec = &unstructured.Unstructured{Object: obj}
		}
	default:
		t.TrialSpec = &unstructured.Unstructured{Object: obj}
	}
	return t
}

func genMC14(rng *rand.Rand) *commonv1beta1.MetricsCollectorSpec {
	if rng.Intn(6) == 0 {
		return nil
	}
	mc := &commonv1beta1.MetricsCollectorSpec{}
	if rng.Intn(8) != 0 {
		mc.Collector = &commonv1beta1.CollectorSpec{Kind: pick(rng, []commonv1beta1.CollectorKind{"StdOut", "File", "TensorFlowEvent", "PrometheusMetric", "Custom", "Push", "None", "Bogus", "File", "PrometheusMetric", "TensorFlowEvent"})}
		if rng.Intn(3) == 0 {
			mc.Collector.CustomCollector = &corev1.Container{Name: "cc", Image: "img"}
		}
	}
	if rng.Intn(3) != 0 {
		mc.Source = &commonv1beta1.SourceSpec{}
		if rng.Intn(3) != 0 {
			mc.Source.FileSystemPath = &commonv1beta1.FileSystemPath{Path: pick(rng, []string{"", "/var/log/m.log", "rel/m.log", "/tf/"}), Kind: pick(rng, []commonv1beta1.FileSystemKind{"", "File", "Directory", "Bogus"}),
				Format: pick(rng, []commonv1beta1.FileFormat{"", "TEXT", "JSON", "XML"})}
		}
		if rng.Intn(3) != 0 {
			h := &corev1.HTTPGetAction{Path: pick(rng, []string{"", "/metrics", "metrics"})}
			switch rng.Intn(5) {
			case 0:
				h.Port = intstr.FromInt(8080)
			case 1:
				h.Port = intstr.FromString(pick(rng, []string{"http", "9090", "0", "-1"}))
			case 2:
				h.Port = intstr.FromInt(-5)
			}
			mc.Source.HttpGet = h
		}
		if rng.Intn(3) == 0 {
			mc.Source.Filter = &commonv1beta1.FilterSpec{}
			for i := rng.Intn(3); i > 0; i-- {
				mc.Source.Filter.MetricsFormat = append(mc.Source.Filter.MetricsFormat, pick(rng, []string{"([a-z]+)=(\\d+)", "(x", "only(one)", "none", "{(a)}{(b)}"}))
			}
		}
	}
	return mc
}

// nilOut sets one random pointer / slice / string of the spec to its zero value (structural mutation by reflection)
func nilOut(rng *rand.Rand, spec *experimentsv1beta1.ExperimentSpec) string {
	type site struct {
		v    reflect.Value
		path string
	}
	sites := []site{}
	var walk func(v reflect.Value, path string, depth int)
	walk = func(v reflect.Value, path string, depth int) {
		if depth > 6 {
			return
		}
		switch v.Kind() {
		case reflect.Ptr:
			if !v.IsNil() {
				sites = append(sites, site{v, path})
				if v.Type().String() != "*unstructured.Unstructured" {
					walk(v.Elem(), path, depth+1)
				}
			}
		case reflect.Struct:
			for i := 0; i < v.NumField(); i++ {
				if v.Type().Field(i).PkgPath == "" {
					walk(v.Field(i), path+"."+v.Type().Field(i).Name, depth+1)
				}
			}
		case reflect.Slice:
			if !v.IsNil() {
				sites = append(sites, site{v, path})
				for i := 0; i < v.Len() && i < 3; i++ {
					walk(v.Index(i), fmt.Sprintf("%s[%d]", path, i), depth+1)
				}
			}
		case reflect.String:
			if v.String() != "" && v.CanSet() {
				sites = append(sites, site{v, path})
			}
		}
	}
	walk(reflect.ValueOf(spec).Elem(), "spec", 0)
	if len(sites) == 0 {
		return ""
	}
	s := sites[rng.Intn(len(sites))]
	if !s.v.CanSet() {
		return ""
	}
	s.v.Set(reflect.Zero(s.v.Type()))
	return s.path
}

// cleanExp14 builds an Experiment every rule accepts (valid-biased stream); genExp14 then perturbs it
func cleanExp14(rng *rand.Rand) *experimentsv1beta1.Experiment {
	e := &experimentsv1beta1.Experiment{ObjectMeta: metav1.ObjectMeta{Name: pick(rng, []string{"exp", "a", "my-exp-1", "x1", "tune-mnist", "a234567890123456789012345678901234567890"}), Namespace: "ns"}}
	s := &e.Spec
	m := int32(2 + rng.Intn(5))
	p := int32(1 + rng.Intn(2))
	f := int32(rng.Intn(3))
	s.MaxTrialCount, s.ParallelTrialCount, s.MaxFailedTrialCount = &m, &p, &f
	if rng.Intn(3) == 0 {
		s.ParallelTrialCount = nil
		if m < 3 {
			m = 3
		}
	}
	if rng.Intn(4) == 0 {
		s.MaxTrialCount = nil
	}
	s.Objective = &commonv1beta1.ObjectiveSpec{Type: pick(rng, []commonv1beta1.ObjectiveType{"maximize", "minimize"}), ObjectiveMetricName: "acc", AdditionalMetricNames: pick(rng, [][]string{nil, {"loss"}, {"loss", "f1"}})}
	s.Algorithm = &commonv1beta1.AlgorithmSpec{AlgorithmName: pick(rng, []string{"random", "random", "tpe", "My_Algo", "a-very-long-algorithm-name-for-katib", "bayesianoptimization", "TPE", "Random", "BayesianOptimization"})}
	if rng.Intn(3) == 0 {
		s.EarlyStopping = &commonv1beta1.EarlyStoppingSpec{AlgorithmName: "medianstop"}
	}
	s.ResumePolicy = pick(rng, []experimentsv1beta1.ResumePolicyType{"", "Never", "LongRunning", "FromVolume"})
	names := []string{"lr", "layers", "opt"}
	for i := 0; i < 1+rng.Intn(3); i++ {
		ps := experimentsv1beta1.ParameterSpec{Name: names[i]}
		switch rng.Intn(4) {
		case 0:
			ps.ParameterType = "int"
			ps.FeasibleSpace = experimentsv1beta1.FeasibleSpace{Min: "1", Max: "5", Step: pick(rng, []string{"", "1", "2"})}
		case 1:
			ps.ParameterType = "double"
			ps.FeasibleSpace = experimentsv1beta1.FeasibleSpace{Min: pick(rng, []string{"0.1", "-3"}), Max: pick(rng, []string{"0.9", "10"}), Step: pick(rng, []string{"", "0.3"})}
		case 2:
			ps.ParameterType = "categorical"
			ps.FeasibleSpace = experimentsv1beta1.FeasibleSpace{List: pick(rng, [][]string{{"sgd", "adam", "ftrl"}, {"a", "b"}, {"a\"b", "c"}, {"x\\y"}, {"tab\there"}})}
		case 3:
			ps.ParameterType = "discrete"
			ps.FeasibleSpace = experimentsv1beta1.FeasibleSpace{List: []string{"1", "2", "4"}}
		}
		ps.FeasibleSpace.Distribution = pick(rng, []experimentsv1beta1.Distribution{"", "uniform", "logUniform", "normal", "logNormal"})
		s.Parameters = append(s.Parameters, ps)
	}
	// template: every parameter consumed, optional metadata references that resolve
	t := &experimentsv1beta1.TrialTemplate{Retain: rng.Intn(2) == 0, PrimaryContainerName: "main"}
	cmd := []interface{}{"python"}
	skip := -1
	if rng.Intn(10) == 0 {
		skip = rng.Intn(len(s.Parameters)) // known finding region: a parameter the template does not consume
	}
	for i, p := range s.Parameters {
		if i == skip {
			continue
		}
		t.TrialParameters = append(t.TrialParameters, experimentsv1beta1.TrialParameterSpec{Name: p.Name + "P", Reference: p.Name})
		cmd = append(cmd, "--"+p.Name+"=${trialParameters."+p.Name+"P}")
	}
	if t.TrialParameters == nil {
		t.TrialParameters = []experimentsv1beta1.TrialParameterSpec{}
	}
	md := map[string]interface{}{}
	if rng.Intn(2) == 0 {
		md["labels"] = map[string]interface{}{"app": "x"}
	}
	if rng.Intn(2) == 0 {
		md["annotations"] = map[string]interface{}{"note": "n"}
	}
	for i := rng.Intn(3); i > 0; i-- {
		ref := pick(rng, []string{"${trialSpec.Name}", "${trialSpec.Namespace}", "${trialSpec.Kind}", "${trialSpec.APIVersion}", "${trialSpec.Labels[app]}", "${trialSpec.Annotations[note]}", "${trialSpec.Name[x]}", "${trialSpec.Labels}"})
		dup := false
		for _, tp := range t.TrialParameters {
			dup = dup || tp.Reference == ref
		}
		if dup {
			continue
		}
		nm := "m" + strconv.Itoa(i)
		t.TrialParameters = append(t.TrialParameters, experimentsv1beta1.TrialParameterSpec{Name: nm, Reference: ref})
		cmd = append(cmd, "meta=${trialParameters."+nm+"}")
	}
	kind, api := "Job", "batch/v1"
	switch rng.Intn(5) {
	case 0:
		kind, api = "TFJob", "kubeflow.org/v1"
	case 1:
		kind, api = "Workflow", "argoproj.io/v1alpha1"
	}
	obj := map[string]interface{}{"apiVersion": api, "kind": kind}
	podSpec := map[string]interface{}{"restartPolicy": "Never", "containers": []interface{}{map[string]interface{}{"name": "main", "image": "img", "command": cmd}}}
	if kind == "TFJob" {
		obj["spec"] = map[string]interface{}{"tfReplicaSpecs": map[string]interface{}{"Worker": map[string]interface{}{"replicas": int64(1), "template": map[string]interface{}{"spec": podSpec}}}}
	} else {
		obj["spec"] = map[string]interface{}{"template": map[string]interface{}{"spec": podSpec}}
	}
	if len(md) > 0 {
		obj["metadata"] = md
	}
	if kind == "Workflow" {
		t.SuccessCondition, t.FailureCondition = "status.ok", "status.bad"
	}
	t.TrialSpec = &unstructured.Unstructured{Object: obj}
	s.TrialTemplate = t
	switch rng.Intn(7) {
	case 0:
	case 1:
		s.MetricsCollectorSpec = &commonv1beta1.MetricsCollectorSpec{Collector: &commonv1beta1.CollectorSpec{Kind: "StdOut"}}
	case 2:
		s.MetricsCollectorSpec = &commonv1beta1.MetricsCollectorSpec{Collector: &commonv1beta1.CollectorSpec{Kind: "File"}}
		if rng.Intn(2) == 0 {
			s.MetricsCollectorSpec.Source = &commonv1beta1.SourceSpec{FileSystemPath: &commonv1beta1.FileSystemPath{Path: "/var/log/m.log", Kind: "File", Format: pick(rng, []commonv1beta1.FileFormat{"", "TEXT", "JSON"})}}
		}
	case 3:
		s.MetricsCollectorSpec = &commonv1beta1.MetricsCollectorSpec{Collector: &commonv1beta1.CollectorSpec{Kind: "TensorFlowEvent"}}
		if rng.Intn(2) == 0 {
			s.MetricsCollectorSpec.Source = &commonv1beta1.SourceSpec{FileSystemPath: &commonv1beta1.FileSystemPath{Path: "/tf/", Kind: "Directory"}}
		}
	case 4:
		s.MetricsCollectorSpec = &commonv1beta1.MetricsCollectorSpec{Collector: &commonv1beta1.CollectorSpec{Kind: "PrometheusMetric"}}
		switch rng.Intn(3) {
		case 0:
			s.MetricsCollectorSpec.Source = &commonv1beta1.SourceSpec{}
		case 1:
			s.MetricsCollectorSpec.Source = &commonv1beta1.SourceSpec{HttpGet: &corev1.HTTPGetAction{Path: "/m", Port: intstr.FromInt(9090)}}
		}
	case 5:
		s.MetricsCollectorSpec = &commonv1beta1.MetricsCollectorSpec{Collector: &commonv1beta1.CollectorSpec{Kind: "Custom", CustomCollector: &corev1.Container{Name: "cc", Image: "img"}}}
	case 6:
		s.MetricsCollectorSpec = &commonv1beta1.MetricsCollectorSpec{Collector: &commonv1beta1.CollectorSpec{Kind: "Push"}}
	}
	if s.MetricsCollectorSpec != nil && rng.Intn(4) == 0 && s.MetricsCollectorSpec.Collector.Kind != "Push" {
		if s.MetricsCollectorSpec.Source == nil {
			s.MetricsCollectorSpec.Source = &commonv1beta1.SourceSpec{}
		}
		if fsp := s.MetricsCollectorSpec.Source.FileSystemPath; fsp == nil || fsp.Format != "JSON" {
			s.MetricsCollectorSpec.Source.Filter = &commonv1beta1.FilterSpec{MetricsFormat: []string{"([a-z]+)=(\\d+)"}}
		}
	}
	return e
}

func genExp14(rng *rand.Rand) (*experimentsv1beta1.Experiment, []string) {
	tags := []string{}
	if rng.Intn(5) < 3 {
		e := cleanExp14(rng)
		tags = append(tags, "clean-base")
		if rng.Intn(8) == 0 {
			// a NAS experiment: no spec.parameters, the algorithm's assignments are `architecture` and `nn_config`
			e.Spec.Parameters = nil
			e.Spec.NasConfig = &experimentsv1beta1.NasConfig{}
			pseudo := []experimentsv1beta1.ParameterSpec{{Name: "architecture"}, {Name: "nn_config"}}
			dup := rng.Intn(3) == 0
			if dup {
				pseudo = append(pseudo, experimentsv1beta1.ParameterSpec{Name: "arch2"})
			}
			for tries := 0; tries < 20; tries++ {
				e.Spec.TrialTemplate = genTemplate14(rng, pseudo)
				if len(e.Spec.TrialTemplate.TrialParameters) >= len(pseudo) {
					break
				}
			}
			for i := range e.Spec.TrialTemplate.TrialParameters {
				if e.Spec.TrialTemplate.TrialParameters[i].Name == "arch2" {
					// a second trial parameter consuming the same assignment
					e.Spec.TrialTemplate.TrialParameters[i].Reference = "architecture"
					tags = append(tags, "nas-assignment-consumed-twice")
				}
			}
			tags = append(tags, "nas")
			return e, tags
		}
		for i := rng.Intn(3); i > 0; i-- {
			if p := nilOut(rng, &e.Spec); p != "" {
				tags = append(tags, "mutated")
			}
		}
		if rng.Intn(4) == 0 {
			// one budget field off on an otherwise clean experiment (each rule must hold on its own)
			bad := func() *int32 { v := pick(rng, []int32{0, -1, -7, 1, 100}); return &v }
			switch rng.Intn(4) {
			case 0:
				e.Spec.ParallelTrialCount = bad()
			case 1:
				e.Spec.MaxTrialCount = bad()
			case 2:
				e.Spec.MaxFailedTrialCount = bad()
			case 3:
				e.Spec.MaxTrialCount = nil
				e.Spec.ParallelTrialCount = bad()
			}
			tags = append(tags, "one-budget-field-off")
		}
		return e, tags
	}
	e := &experimentsv1beta1.Experiment{ObjectMeta: metav1.ObjectMeta{Name: pick(rng, c14Names), Namespace: "ns"}}
	s := &e.Spec
	if rng.Intn(3) != 0 {
		// consistent budget most of the time
		m := int32(2 + rng.Intn(5))
		p := int32(1 + rng.Intn(2))
		f := int32(rng.Intn(3))
		s.MaxTrialCount, s.ParallelTrialCount, s.MaxFailedTrialCount = &m, &p, &f
		if rng.Intn(3) == 0 {
			s.ParallelTrialCount = nil
		}
		if rng.Intn(4) == 0 {
			s.MaxTrialCount = nil
		}
	} else {
		s.MaxTrialCount, s.ParallelTrialCount, s.MaxFailedTrialCount = optI14(rng), optI14(rng), optI14(rng)
	}
	if rng.Intn(15) != 0 {
		s.Objective = &commonv1beta1.ObjectiveSpec{Type: pick(rng, []commonv1beta1.ObjectiveType{"maximize", "minimize", "maximize", "minimize", "", "Max"}), ObjectiveMetricName: pick(rng, []string{"acc", "acc", "acc", ""}),
			AdditionalMetricNames: pick(rng, [][]string{nil, {"loss"}, {"acc"}, {"loss", "f1"}})}
	}
	if rng.Intn(15) != 0 {
		s.Algorithm = &commonv1beta1.AlgorithmSpec{AlgorithmName: pick(rng, []string{"random", "random", "random", "tpe", "unknownalgo", "", "My_Algo", "a-very-long-algorithm-name-for-katib", "bayesianoptimization", "TPE", "Random", " random"})}
	}
	if rng.Intn(3) == 0 {
		s.EarlyStopping = &commonv1beta1.EarlyStoppingSpec{AlgorithmName: pick(rng, []string{"medianstop", "medianstop", "bogus", "", "MedianStop"})}
	}
	s.ResumePolicy = pick(rng, []experimentsv1beta1.ResumePolicyType{"", "Never", "LongRunning", "FromVolume", "bogus", "Never"})
	names := []string{"lr", "layers", "opt", "lr", ""}
	np := rng.Intn(4)
	if rng.Intn(3) != 0 && np == 0 {
		np = 1
	}
	for i := 0; i < np; i++ {
		nm := names[i]
		if rng.Intn(12) == 0 {
			nm = pick(rng, names)
		}
		s.Parameters = append(s.Parameters, genParam14(rng, nm))
	}
	if rng.Intn(12) == 0 {
		s.NasConfig = &experimentsv1beta1.NasConfig{}
	}
	if rng.Intn(20) != 0 {
		s.TrialTemplate = genTemplate14(rng, s.Parameters)
	}
	s.MetricsCollectorSpec = genMC14(rng)
	if rng.Intn(4) == 0 {
		if p := nilOut(rng, s); p != "" {
			tags = append(tags, "mutated")
		}
	}
	return e, tags
}

func refTok14(ref string, stale *string) string {
	sub := regexp.MustCompile(consts.TrialTemplateMetaReplaceFormatRegex).FindStringSubmatch(ref)
	if len(sub) == 0 {
		return "assign " + hx(ref)
	}
	key := sub[1]
	if s2 := regexp.MustCompile(consts.TrialTemplateMetaParseFormatRegex).FindStringSubmatch(key); len(s2) > 0 {
		if len(s2) != 3 {
			return "illegal"
		}
		key = s2[1]
		*stale = s2[2]
	}
	switch key {
	case "Name":
		return "name"
	case "Namespace":
		return "namespace"
	case "Kind":
		return "kind"
	case "APIVersion":
		return "apiVersion"
	case "Annotations":
		return "annotation " + hx(*stale)
	case "Labels":
		return "label " + hx(*stale)
	}
	return "illegal"
}

func isMetaKey14(ref string) bool {
	match := regexp.MustCompile(consts.TrialTemplateMetaReplaceFormatRegex).FindStringSubmatch(ref)
	if len(match) == 0 {
		return false
	}
	in := func(k string) bool {
		for _, m := range consts.TrialTemplateMetaKeys {
			if m == k {
				return true
			}
		}
		return false
	}
	if in(match[1]) {
		return true
	}
	sub := regexp.MustCompile(consts.TrialTemplateMetaParseFormatRegex).FindStringSubmatch(match[1])
	return len(sub) == 3 && in(sub[1])
}

func optS(has bool, body string) string {
	if !has {
		return "0"
	}
	return "1 " + body
}

func errPaths(errs field.ErrorList) string {
	o := []string{}
	for _, e := range errs {
		t := "I"
		switch e.Type {
		case field.ErrorTypeRequired:
			t = "R"
		case field.ErrorTypeForbidden:
			t = "F"
		}
		o = append(o, t+":"+e.Field)
	}
	return strings.Join(o, ",")
}

// jobOkOracle asks the real validator whether the (dry-run) run object converts to a batch/v1 Job: the object becomes the
// trialSpec of an otherwise clean experiment without trial parameters.
func jobOkOracle(env *c14env, runSpec *unstructured.Unstructured) bool {
	b := baseExperiment()
	b.Spec.TrialTemplate.TrialParameters = []experimentsv1beta1.TrialParameterSpec{}
	cp := runSpec.DeepCopy()
	b.Spec.TrialTemplate.TrialSpec = cp
	ok := true
	func() {
		defer func() {
			if recover() != nil {
				ok = false
			}
		}()
		for _, e := range getValidator().ValidateExperiment(b, nil) {
			if strings.Contains(e.Detail, "invalid spec.trialTemplate") {
				ok = false
			}
		}
	}()
	return ok
}

func init() {
	runners["C14"] = func(rng *rand.Rand, tier string, k int) Case {
		switch k % 6 {
		case 4:
			return c14Name(rng)
		case 5:
			return c14DNS(rng)
		}
		envIdx := 0
		if rng.Intn(3) == 0 {
			envIdx = rng.Intn(len(c14Configs))
		}
		env := c14Env(envIdx)
		e, tags := genExp14(rng)
		e.TypeMeta = metav1.TypeMeta{APIVersion: "kubeflow.org/v1beta1", Kind: "Experiment"}
		// what the webhooks see is the JSON form: normalise the generated object through it
		raw0, merr := json.Marshal(e)
		if merr == nil {
			e2 := &experimentsv1beta1.Experiment{}
			if json.Unmarshal(raw0, e2) == nil {
				e = e2
			}
		}
		s := &e.Spec
		// ---------- model input (pre-default object)
		tok := []string{hx(e.Name), oi32(s.MaxTrialCount), oi32(s.ParallelTrialCount), oi32(s.MaxFailedTrialCount)}
		if s.Objective != nil {
			tok = append(tok, "1", hx(string(s.Objective.Type)), hx(s.Objective.ObjectiveMetricName), hxList(s.Objective.AdditionalMetricNames))
		} else {
			tok = append(tok, "0")
		}
		if s.Algorithm != nil {
			tok = append(tok, "1", hx(s.Algorithm.AlgorithmName))
			tok = append(tok, b01(env.algos[s.Algorithm.AlgorithmName]))
		} else {
			tok = append(tok, "0", "0")
		}
		if s.EarlyStopping != nil {
			tok = append(tok, "1", hx(s.EarlyStopping.AlgorithmName))
			tok = append(tok, b01(env.ess[s.EarlyStopping.AlgorithmName]))
		} else {
			tok = append(tok, "0", "0")
		}
		tok = append(tok, hx(string(s.ResumePolicy)))
		ptoks := []string{strconv.Itoa(len(s.Parameters))}
		for _, p := range s.Parameters {
			ptoks = append(ptoks, hx(p.Name), hx(string(p.ParameterType)), hx(p.FeasibleSpace.Min), hx(p.FeasibleSpace.Max), hx(p.FeasibleSpace.Step), hxList(p.FeasibleSpace.List), hx(string(p.FeasibleSpace.Distribution)))
		}
		tok = append(tok, strings.Join(ptoks, " "), b01(s.NasConfig != nil))
		// template
		dry := "none"
		dryBits := "0 0 0 0 0"
		battery := fmt.Sprintf("%s %s 0 0 0", hx(""), hx(""))
		asgs := [][]commonv1beta1.ParameterAssignment{}
		if t := s.TrialTemplate; t != nil {
			tt := []string{hx(t.PrimaryContainerName), hx(t.SuccessCondition), hx(t.FailureCondition)}
			if t.TrialParameters != nil {
				stale := ""
				l := []string{strconv.Itoa(len(t.TrialParameters))}
				for _, tp := range t.TrialParameters {
					l = append(l, hx(tp.Name), hx(tp.Reference), b01(isMetaKey14(tp.Reference)), refTok14(tp.Reference, &stale))
				}
				tt = append(tt, "1 "+strings.Join(l, " "))
			} else {
				tt = append(tt, "0")
			}
			cmComplete := t.ConfigMap != nil && t.ConfigMap.ConfigMapName != "" && t.ConfigMap.ConfigMapNamespace != "" && t.ConfigMap.TemplatePath != ""
			kc := "other"
			if t.TrialSpec != nil {
				if t.TrialSpec.GetKind() == "Job" {
					kc = "job"
				} else if experimentsv1beta1.KubeflowJobKinds[t.TrialSpec.GetKind()] {
					kc = "kubeflow"
				}
			}
			tt = append(tt, b01(t.TrialSpec != nil), b01(t.ConfigMap != nil), b01(cmComplete), kc)
			text, hasText := "", false
			if (t.TrialSpec != nil) != (t.ConfigMap != nil) && (t.ConfigMap == nil || cmComplete) {
				if str, err := env.gen.GetTrialTemplate(e); err == nil {
					text, hasText = str, true
				}
			}
			tt = append(tt, optS(hasText, hx(text)))
			tok = append(tok, "1 "+strings.Join(tt, " "))
			// the harness's own dry run (compared with the model's through dry=)
			if hasText && t.TrialParameters != nil {
				cur := text
				names, refs := map[string]bool{}, map[string]bool{}
				stopped := false
				for _, tp := range t.TrialParameters {
					if tp.Name == "" || tp.Reference == "" || strings.ContainsAny(tp.Name, "{}") || names[tp.Name] || refs[tp.Reference] {
						continue
					}
					names[tp.Name], refs[tp.Reference] = true, true
					ph := fmt.Sprintf(consts.TrialTemplateParamReplaceFormat, tp.Name)
					if !strings.Contains(cur, ph) {
						stopped = true
						break
					}
					cur = strings.Replace(cur, ph, "test-value", -1)
				}
				if !stopped {
					dry = hx(cur)
					leftover := len(regexp.MustCompile(consts.TrialTemplateParamReplaceFormatRegex).FindAllString(cur, -1)) != 0
					rs, err := util.ConvertStringToUnstructured(cur)
					if err == nil {
						dryBits = strings.Join([]string{b01(leftover), "1", b01(rs.GetName() == "" && rs.GetNamespace() == ""), b01(rs.GetAPIVersion() != "" && rs.GetKind() != ""), b01(jobOkOracle(env, rs))}, " ")
					} else {
						dryBits = b01(leftover) + " 0 0 0 0"
					}
				}
			}
			// battery: metadata of the un-substituted run object and feasible assignments
			if hasText {
				if orig, err := util.ConvertStringToUnstructured(text); err == nil {
					if t.TrialSpec != nil {
						orig = t.TrialSpec
					}
					if s.NasConfig != nil && len(s.Parameters) == 0 {
						// what a NAS algorithm service answers with
						asgs = append(asgs, []commonv1beta1.ParameterAssignment{{Name: "architecture", Value: "1-2-3"}, {Name: "nn_config", Value: "cfg-a"}})
					}
					feasible := len(s.Parameters) > 0
					for _, p := range s.Parameters {
						if len(p.FeasibleSpace.List) == 0 && (p.FeasibleSpace.Min == "" || p.FeasibleSpace.Max == "") {
							feasible = false
						}
					}
					if feasible {
						for r := 0; r < 2; r++ {
							a := []commonv1beta1.ParameterAssignment{}
							for _, p := range s.Parameters {
								v := pick(rng, []string{p.FeasibleSpace.Min, p.FeasibleSpace.Max})
								if len(p.FeasibleSpace.List) > 0 {
									v = pick(rng, p.FeasibleSpace.List)
								}
								a = append(a, commonv1beta1.ParameterAssignment{Name: p.Name, Value: v})
							}
							asgs = append(asgs, a)
						}
					}
					al := []string{strconv.Itoa(len(asgs))}
					for _, a := range asgs {
						ps := [][2]string{}
						for _, x := range a {
							ps = append(ps, [2]string{x.Name, x.Value})
						}
						al = append(al, hxPairs(ps))
					}
					battery = fmt.Sprintf("%s %s %s %s %s", hx(orig.GetKind()), hx(orig.GetAPIVersion()), hxPairs(mapPairs(orig.GetLabels())), hxPairs(mapPairs(orig.GetAnnotations())), strings.Join(al, " "))
				}
			}
		} else {
			tok = append(tok, "0")
		}
		tok = append(tok, dryBits)
		// metrics collector
		if mc := s.MetricsCollectorSpec; mc != nil {
			mt := []string{}
			if mc.Collector != nil {
				mt = append(mt, "1", hx(string(mc.Collector.Kind)), b01(mc.Collector.CustomCollector != nil))
			} else {
				mt = append(mt, "0")
			}
			if src := mc.Source; src != nil {
				st := []string{}
				if f := src.FileSystemPath; f != nil {
					st = append(st, "1", hx(f.Path), hx(string(f.Kind)), hx(string(f.Format)))
				} else {
					st = append(st, "0")
				}
				if h := src.HttpGet; h != nil {
					n, err := strconv.Atoi(h.Port.String())
					st = append(st, "1", hx(h.Path), b01(h.Port.String() == "0"), b01(err == nil && n > 0))
				} else {
					st = append(st, "0")
				}
				if fl := src.Filter; fl != nil {
					two := regexp.MustCompile(`.*\(.*\).*\(.*\).*`)
					l := []string{strconv.Itoa(len(fl.MetricsFormat))}
					for _, f := range fl.MetricsFormat {
						_, err := regexp.Compile(f)
						l = append(l, b01(err == nil), b01(two.MatchString(f)))
					}
					st = append(st, "1 "+strings.Join(l, " "))
				} else {
					st = append(st, "0")
				}
				mt = append(mt, "1 "+strings.Join(st, " "))
			} else {
				mt = append(mt, "0")
			}
			tok = append(tok, "1 "+strings.Join(mt, " "))
		} else {
			tok = append(tok, "0")
		}
		// katib-config knows the (defaulted) collector kind
		d := e.DeepCopy()
		crashed := ""
		func() {
			defer func() {
				if r := recover(); r != nil {
					crashed = "panic-in-SetDefault"
				}
			}()
			d.SetDefault()
		}()
		cfgKnown := true
		if crashed == "" && d.Spec.MetricsCollectorSpec != nil && d.Spec.MetricsCollectorSpec.Collector != nil {
			cfgKnown = env.mcs[string(d.Spec.MetricsCollectorSpec.Collector.Kind)]
		}
		tok = append(tok, b01(cfgKnown))
		op := "C14 validate " + strings.Join(tok, " ") + " " + battery
		// ---------- the real webhooks
		impl := ""
		if crashed != "" {
			impl = "panic " + crashed
		} else {
			var errs field.ErrorList
			func() {
				defer func() {
					if r := recover(); r != nil {
						crashed = fmt.Sprint(r)
					}
				}()
				errs = env.val.ValidateExperiment(d, nil)
			}()
			switch {
			case crashed != "":
				impl = "panic"
				tags = append(tags, "PANIC")
			case len(errs) > 0:
				impl = "rejected " + errPaths(errs) + " dry=" + dry
				tags = append(tags, "rejected")
			default:
				tags = append(tags, "admitted")
				sg := &suggestionsv1beta1.Suggestion{ObjectMeta: metav1.ObjectMeta{Name: d.Name, Namespace: d.Namespace}, Spec: suggestionsv1beta1.SuggestionSpec{Algorithm: d.Spec.Algorithm}}
				nm := []string{hx(util.GetSuggestionDeploymentName(sg)), hx(util.GetSuggestionServiceName(sg)), hx(util.GetSuggestionPersistentVolumeClaimName(sg)), hx(d.Name + "-abcd1234")}
				sp := d.Spec
				ptr := b01(sp.Objective != nil) + b01(sp.Algorithm != nil) + b01(sp.TrialTemplate != nil) + b01(sp.TrialTemplate != nil && sp.TrialTemplate.TrialParameters != nil) +
					b01(sp.ParallelTrialCount != nil) + b01(sp.MetricsCollectorSpec != nil) + b01(sp.MetricsCollectorSpec != nil && sp.MetricsCollectorSpec.Collector != nil)
				if mc := sp.MetricsCollectorSpec; mc != nil && mc.Collector != nil {
					switch mc.Collector.Kind {
					case commonv1beta1.FileCollector, commonv1beta1.TfEventCollector:
						ptr += b01(mc.Source != nil && mc.Source.FileSystemPath != nil)
					case commonv1beta1.PrometheusMetricCollector:
						ptr += b01(mc.Source != nil && mc.Source.HttpGet != nil)
					case commonv1beta1.CustomCollector:
						ptr += b01(mc.Collector.CustomCollector != nil)
					}
				}
				runs := []string{}
				for _, a := range asgs {
					res := "ok"
					func() {
						defer func() {
							if r := recover(); r != nil {
								res = "err:panic"
							}
						}()
						if _, err := env.gen.GetRunSpecWithHyperParameters(d, "trial-x", "ns", a); err != nil {
							es := err.Error()
							switch {
							case strings.Contains(es, "illegal reference of trial metadata"):
								res = "err:illegalMeta"
							case strings.Contains(es, "unable to find parameter from ParameterAssignment in TrialParameters"):
								res = "err:notInTrialParameters"
							case strings.Contains(es, "parameter from TrialParameters in ParameterAssignment"):
								res = "err:notInAssignment"
							case strings.Contains(es, "failed to convert string to unstructured"):
								res = "err:json"
							default:
								res = "err:other"
							}
						}
					}()
					runs = append(runs, res)
				}
				rs := "-"
				if len(runs) > 0 {
					rs = strings.Join(runs, ";")
					tags = append(tags, "battery")
				}
				impl = "admitted dry=" + dry + " ## names=" + strings.Join(nm, ",") + " ptr=" + ptr + " run=" + rs
			}
		}
		// ---------- the same object through the real admission handlers (JSON in, JSON patch out)
		if merr == nil && !strings.HasPrefix(impl, "panic") {
			wh := ""
			func() {
				defer func() {
					if r := recover(); r != nil {
						wh = "WEBHOOK=panic"
					}
				}()
				req := admission.Request{AdmissionRequest: admissionv1.AdmissionRequest{Namespace: "ns", Operation: admissionv1.Create, Object: runtime.RawExtension{Raw: raw0}}}
				r1 := env.defW.Handle(context.TODO(), req)
				if !r1.Allowed {
					wh = "WEBHOOK=defaulter-denied"
					return
				}
				raw1, err := applyPatch(raw0, r1)
				if err != nil {
					wh = "WEBHOOK=patch-does-not-apply"
					return
				}
				// the patched object must be the directly defaulted one
				got := &experimentsv1beta1.Experiment{}
				if err := json.Unmarshal(raw1, got); err != nil {
					wh = "WEBHOOK=patched-object-unreadable"
					return
				}
				dj, _ := json.Marshal(d)
				gj, _ := json.Marshal(got)
				if string(dj) != string(gj) {
					wh = "WEBHOOK=defaulter-differs"
					return
				}
				req2 := admission.Request{AdmissionRequest: admissionv1.AdmissionRequest{Namespace: "ns", Operation: admissionv1.Create, Object: runtime.RawExtension{Raw: raw1}}}
				r2 := env.valW.Handle(context.TODO(), req2)
				if r2.Allowed != strings.HasPrefix(impl, "admitted") {
					wh = "WEBHOOK=" + map[bool]string{true: "allowed", false: "denied"}[r2.Allowed] + "-but-validator-said-otherwise"
					return
				}
				if !r2.Allowed {
					return
				}
				// the admitted object is stored; the user re-applies the original manifest (`kubectl replace`): an UPDATE whose
				// object is as undefaulted as the CREATE was.  It must come out of the defaulter as the same defaulted object
				// and be admitted again (nothing but defaulted fields differs from the stored spec).
				req3 := admission.Request{AdmissionRequest: admissionv1.AdmissionRequest{Namespace: "ns", Operation: admissionv1.Update, Object: runtime.RawExtension{Raw: raw0}, OldObject: runtime.RawExtension{Raw: raw1}}}
				r3 := env.defW.Handle(context.TODO(), req3)
				if !r3.Allowed {
					wh = "WEBHOOK=defaulter-denied-update"
					return
				}
				raw3, err := applyPatch(raw0, r3)
				if err != nil {
					wh = "WEBHOOK=update-patch-does-not-apply"
					return
				}
				got3 := &experimentsv1beta1.Experiment{}
				if err := json.Unmarshal(raw3, got3); err != nil {
					wh = "WEBHOOK=patched-update-unreadable"
					return
				}
				if g3, _ := json.Marshal(got3); string(g3) != string(dj) {
					wh = "WEBHOOK=update-not-defaulted-like-create"
					return
				}
				req4 := admission.Request{AdmissionRequest: admissionv1.AdmissionRequest{Namespace: "ns", Operation: admissionv1.Update, Object: runtime.RawExtension{Raw: raw3}, OldObject: runtime.RawExtension{Raw: raw1}}}
				if r4 := env.valW.Handle(context.TODO(), req4); !r4.Allowed {
					wh = "WEBHOOK=reapplied-manifest-denied"
				}
			}()
			if wh != "" {
				if i := strings.Index(impl, " ## "); i >= 0 {
					impl = impl[:i] + " " + wh + impl[i:]
				} else {
					impl += " " + wh
				}
				tags = append(tags, wh)
			} else {
				tags = append(tags, "webhooks-agree")
			}
		}
		triv := false
		return Case{Ops: []string{strings.Join(strings.Fields(op), " ")}, Impl: []string{impl}, Tags: tags, Trivial: triv}
	}
}

var c14Alphabet = []rune("abcxyz019-._AZ\n é")

func randName14(rng *rand.Rand) string {
	if rng.Intn(4) == 0 {
		return pick(rng, c14Names)
	}
	n := pick(rng, []int{0, 1, 2, 3, 5, 8, 20, 39, 40, 41, 45, 62, 63, 64, 70})
	r := make([]rune, n)
	for i := range r {
		if rng.Intn(5) == 0 {
			r[i] = c14Alphabet[rng.Intn(len(c14Alphabet))]
		} else {
			r[i] = c14Alphabet[rng.Intn(10)]
		}
	}
	if n > 0 && rng.Intn(2) == 0 {
		r[0] = 'a'
	}
	return string(r)
}

// the validator's naming rule on arbitrary strings, and the legality of the Service name derived from an admitted name
func c14Name(rng *rand.Rand) Case {
	getValidator()
	name := randName14(rng)
	b := baseExperiment()
	b.Name = name
	adm := true
	for _, e := range getValidator().ValidateExperiment(b, nil) {
		if e.Field == "metadata.name" {
			adm = false
		}
	}
	sg := &suggestionsv1beta1.Suggestion{ObjectMeta: metav1.ObjectMeta{Name: name}, Spec: suggestionsv1beta1.SuggestionSpec{Algorithm: b.Spec.Algorithm}}
	svcOk := len(k8svalidation.IsDNS1035Label(util.GetSuggestionServiceName(sg))) == 0 && len(k8svalidation.IsDNS1123Subdomain(util.GetSuggestionDeploymentName(sg))) == 0 &&
		len(k8svalidation.IsDNS1123Subdomain(name+"-abcd1234")) == 0 && len(k8svalidation.IsValidLabelValue(name)) == 0
	return Case{Ops: []string{"C14 name " + hx(name)}, Impl: []string{b01(adm) + " ## " + b01(svcOk)}, Tags: []string{"name", "name-adm=" + b01(adm)}}
}

func c14DNS(rng *rand.Rand) Case {
	s := randName14(rng)
	return Case{Ops: []string{"C14 dns " + hx(s)}, Impl: []string{b01(len(k8svalidation.IsDNS1035Label(s)) == 0) + " " + b01(len(k8svalidation.IsDNS1123Label(s)) == 0)}, Tags: []string{"dns"}}
}
