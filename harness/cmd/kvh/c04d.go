package main

// C04D: parallelTrialCount is lowered while more Trials are active than the new value.  The experiment controller then
// deletes the surplus Trials and rewrites the Suggestion (ReconcileTrials -> deleteTrials).  That branch waits in real time
// for the deleted Trials to disappear, so it is exercised where they disappear at once: right after their creation, before
// the trial controller has given them a finalizer.  The three real controllers then run to quiescence; only the outcome
// (verdict, Suggestion bookkeeping) is judged — this branch is not part of the Lean controller model.

import (
	"context"
	"os"
	"fmt"
	"math/rand"
	"time"

	corev1 "k8s.io/api/core/v1"
	"k8s.io/apimachinery/pkg/types"

	experimentsv1beta1 "github.com/kubeflow/katib/pkg/apis/controller/experiments/v1beta1"
	suggestionsv1beta1 "github.com/kubeflow/katib/pkg/apis/controller/suggestions/v1beta1"
	trialsv1beta1 "github.com/kubeflow/katib/pkg/apis/controller/trials/v1beta1"
)

func (s *sim) editPar(ns, name string, n int32) bool {
	e := &experimentsv1beta1.Experiment{}
	if s.c.Get(context.TODO(), types.NamespacedName{Namespace: ns, Name: name}, e) != nil {
		return false
	}
	e.Spec.ParallelTrialCount = &n
	return s.c.Update(context.TODO(), e) == nil
}

func init() {
	runners["C04D"] = func(rng *rand.Rand, tier string, k int) Case {
		c := &simCase{s: newSim(), rng: rng, tags: map[string]bool{}}
		g := expCfg{ns: "ns1", name: "exp", objType: "maximize", resume: pick(rng, []experimentsv1beta1.ResumePolicyType{"Never", "LongRunning", "FromVolume"}),
			retain: rng.Intn(2) == 0}
		g.max = i32p(int32(4 + rng.Intn(4)))
		g.par = int32(2 + rng.Intn(3))
		if g.par > *g.max {
			g.par = *g.max
		}
		newPar := int32(1 + rng.Intn(int(g.par)-1))
		c.init([]expCfg{g})
		start := time.Now()
		// bring the experiment to the point where its first batch of Trials has just been created
		for i := 0; i < 12; i++ {
			c.recExp(g, false, 0)
			c.recSug(g, false, 0)
			c.deployReady(g)
			if len(c.trials(g.ns)) > 0 {
				break
			}
		}
		created := len(c.trials(g.ns))
		// optionally some of them have already been picked up by the trial controller (finalizer, run object) and finished
		done := 0
		if rng.Intn(2) == 0 && created > int(newPar)+1 {
			t := c.trials(g.ns)[0]
			for i := 0; i < 3; i++ {
				c.recTrial(t.Namespace, t.Name, false, 0)
			}
			c.metricOp(t.Name, pick(rng, simValues))
			c.jobOp(t.Namespace, t.Name, true)
			for i := 0; i < 3; i++ {
				c.recTrial(t.Namespace, t.Name, false, 0)
			}
			done = 1
		}
		ok := c.s.editPar(g.ns, g.name, newPar)
		c.s.snapshot()
		g.par = newPar
		c.recExp(g, false, 0) // deleteTrials
		if os.Getenv("KVH_DEBUG") != "" {
			fmt.Fprintf(os.Stderr, "DEBUG after deleteTrials reconcile: %s\n", c.impl[len(c.impl)-1][:300])
		}
		afterDelete := len(c.trials(g.ns))
		sg := &suggestionsv1beta1.Suggestion{}
		_ = c.s.c.Get(context.TODO(), types.NamespacedName{Namespace: g.ns, Name: g.name}, sg)
		countOkAfter := int(sg.Status.SuggestionCount) == len(sg.Status.Suggestions)
		reqOkAfter := int(sg.Spec.Requests) == len(sg.Status.Suggestions)
		c.settle(g, 60)
		e := &experimentsv1beta1.Experiment{}
		_ = c.s.c.Get(context.TODO(), types.NamespacedName{Namespace: g.ns, Name: g.name}, e)
		_ = c.s.c.Get(context.TODO(), types.NamespacedName{Namespace: g.ns, Name: g.name}, sg)
		completed := 0
		active := 0
		for _, t := range c.trials(g.ns) {
			if t.IsCompleted() {
				completed++
			} else {
				active++
			}
		}
		_ = trialsv1beta1.TrialSucceeded
		verdict := e.IsCompleted()
		succeeded := false
		for _, cd := range e.Status.Conditions {
			if cd.Type == experimentsv1beta1.ExperimentSucceeded && cd.Status == corev1.ConditionTrue {
				succeeded = true
			}
		}
		spun := time.Since(start) > 45*time.Second
		op := fmt.Sprintf("C04D %d %d %d %s %d", *g.max, created, newPar, resumeTok(g.resume), done)
		impl := fmt.Sprintf("edit=%s countok=%s reqok=%s verdict=%s spun=%s ## gone=%d succeeded=%s completed=%d active=%d count=%d names=%d",
			b01(ok), b01(countOkAfter), b01(reqOkAfter), b01(verdict), b01(spun), created-afterDelete, b01(succeeded), completed, active,
			sg.Status.SuggestionCount, len(sg.Status.Suggestions))
		return Case{Ops: []string{op}, Impl: []string{impl}, Tags: []string{fmt.Sprintf("deleted=%d", created-afterDelete), fmt.Sprintf("one-trial-finished-before=%d", done)}}
	}
}
