#!/bin/sh
# derive the harness go.mod from /repo/go.mod (same require block), see DESIGN.md §1.1 step 4
set -e
REPO=${1:-/repo}
cd "$(dirname "$0")"
{
  echo "module verif/harness"
  sed -n '/^go /p;/^toolchain /p' "$REPO/go.mod"
  awk '/^require \(/{p=1} p{print} /^\)/{p=0}' "$REPO/go.mod"
  grep -E '^require [^(]' "$REPO/go.mod" || true
  echo "require github.com/kubeflow/katib v0.0.0"
  awk '/^replace \(/{p=1} p{print} /^\)/{p=0}' "$REPO/go.mod"
  grep -E '^replace [^(]' "$REPO/go.mod" || true
  echo "replace github.com/kubeflow/katib => $REPO"
} > go.mod.new
cmp -s go.mod.new go.mod 2>/dev/null && rm go.mod.new || mv go.mod.new go.mod
cmp -s "$REPO/go.sum" go.sum 2>/dev/null || cp "$REPO/go.sum" go.sum
