#!/bin/bash
# confirm_seed.sh <ID> <demo-dest-dir-rel> <pkg-to-test> [go test extra flags...]
# Confirms in the scratch worktree /tmp/wt/<ID>: patch applies, repo builds, existing tests of the whole suite pass
# (except the two known offline failures and envtest packages), demo fails with the change and passes without it.
ID=$1; DEST=$2; PKG=$3; shift 3
export GOFLAGS=-mod=mod GOPROXY=off GOSUMDB=off GOTOOLCHAIN=local
W=/tmp/wt/$ID; S=/tmp/seed/$ID
cd $W || exit 2
git checkout -q -- . ; git clean -fdq
git apply --check $S/patch.diff || { echo "PATCH DOES NOT APPLY"; exit 1; }
base_fail() { grep -E "^(FAIL|---)" | grep -v "no test files" | sort; }
echo "== baseline suite (clean)"; go test -vet=off -count=1 ./... 2>&1 | grep -E "^(ok|FAIL|--- FAIL)" | sort > /tmp/seed/$ID/suite_clean.txt
git apply $S/patch.diff
echo "== build with change"; go build ./... && go build -tags verif ./... || { echo "BUILD FAILS"; git checkout -q -- .; exit 1; }
echo "== suite with change"; go test -vet=off -count=1 ./... 2>&1 | grep -E "^(ok|FAIL|--- FAIL)" | sort > /tmp/seed/$ID/suite_changed.txt
if diff <(sed 's/\t[0-9.]*s$//; s/(cached)//' /tmp/seed/$ID/suite_clean.txt) <(sed 's/\t[0-9.]*s$//; s/(cached)//' /tmp/seed/$ID/suite_changed.txt) > /dev/null; then echo "SUITE: same pass/fail set"; else echo "SUITE DIFFERS"; diff /tmp/seed/$ID/suite_clean.txt /tmp/seed/$ID/suite_changed.txt; fi
mkdir -p $DEST; cp $S/demo/*.go $DEST/
echo "== demo WITH change (expect FAIL)"; go test -vet=off -count=1 "$@" $PKG 2>&1 | tail -5; 
git apply -R $S/patch.diff
echo "== demo WITHOUT change (expect ok)"; go test -vet=off -count=1 "$@" $PKG 2>&1 | tail -3
git checkout -q -- . ; git clean -fdq
