#!/bin/bash
# run_all.sh [tier] : every registered check on /repo's current tree, one after another; summary at the end
cd "$(dirname "$0")"
T=${1:-quick}
for p in $(python3 -c "import json;print(' '.join(c['property_id'] for c in json.load(open('MANIFEST.json'))['checks']))"); do
  ./check $p --tier $T > /tmp/run_all_$p.log 2>&1; echo "$p exit=$? $(tail -1 /tmp/run_all_$p.log | cut -c1-200)"
done
