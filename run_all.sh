#!/bin/bash
# run_all.sh [tier] [Cxx...] : every registered check (or the named ones) on /repo's current tree, one after another.
# The work directory of a check (ops / outputs of every shard: gigabytes at the thorough tier) is removed after each check.
cd "$(dirname "$0")"
T=${1:-quick}; shift
PROPS=${@:-$(python3 -c "import json;print(' '.join(c['property_id'] for c in json.load(open('MANIFEST.json'))['checks']))")}
mkdir -p work
for p in $PROPS; do
  ./check $p --tier $T > work/run_all_$p.log 2>&1; echo "$p exit=$? $(tail -1 work/run_all_$p.log | cut -c1-200)"
  rm -rf work/$p/run
done
