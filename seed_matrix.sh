#!/bin/bash
# seed_matrix.sh [ID...] : apply every stored seed to /repo, run its property's quick check, undo; writes seeded/MATRIX.md
# With VERIF_REPO=<scratch worktree of /repo> the seeds are applied there instead (the check honours VERIF_REPO), so that /repo
# stays untouched while something else is reading it.
cd "$(dirname "$0")"
export GOFLAGS=-mod=mod GOPROXY=off GOSUMDB=off GOTOOLCHAIN=local
R=${VERIF_REPO:-/repo}
[ -z "$(git -C $R status --short)" ] || { echo "$R is not clean"; exit 2; }
IDS=${@:-$(ls seeded | grep '^C[0-9]')}
OUT=seeded/MATRIX.md
[ $# -eq 0 ] && { echo "| seed | property | result | replay kind |"; echo "|---|---|---|---|"; } > $OUT
for ID in $IDS; do
  # the check that is expected to catch it: the first of caught_by_checks (usually the seed's own property)
  P=$(python3 -c "import json;m=json.load(open('seeded/$ID/meta.json'));print((m.get('caught_by_checks') or [m['property']])[0])")
  git -C $R apply "$PWD/seeded/$ID/patch.diff" || { echo "| $ID | $P | PATCH DOES NOT APPLY | |" >> $OUT; continue; }
  L=$(./check $P 2>&1 | grep -v '^WARNING' | tail -2)
  git -C $R checkout -- . ; git -C $R clean -fdq
  V=$(echo "$L" | grep -c '^VIOLATION')
  K=$(echo "$L" | grep -q 'no-failing-input-found' && echo "proof/correspondence only" || echo "failing input")
  S=$(echo "$L" | tail -1 | sed 's/.*theorems/theorems/')
  if [ "$V" -ge 1 ]; then echo "| $ID | $P | caught: $S | $K |" >> $OUT; else echo "| $ID | $P | MISSED: $S | |" >> $OUT; fi
  tail -1 $OUT
done
git -C $R status --short | head -3
