#!/bin/bash
# refix_drill.sh : re-introduce each repaired defect (reverse-apply its fix: commit) and run the property's quick check;
# every one must be reported as a VIOLATION. /repo is restored after each.
cd "$(dirname "$0")"
while read c props; do
  # a fix whose lines were touched again by a later fix is re-introduced by a hand-made patch refix/<commit>.reintroduce.diff
  if [ -f refix/$c.reintroduce.diff ]; then git -C /repo apply "$PWD/refix/$c.reintroduce.diff" || { echo "$c: re-introduction patch does not apply"; continue; }
  else git -C /repo show $c -- . ':!*verif_hooks.go' | git -C /repo apply -R || { echo "$c: cannot reverse-apply"; continue; }; fi
  for p in $props; do
    out=$(./check $p 2>&1 | grep -E "^VIOLATION|-> " | tail -2 | tr '\n' ' ' | cut -c1-260)
    echo "$c $p: $out"
  done
  git -C /repo checkout -- .
done <<LIST
efc263b C01
3558c99 C03 C16
2ae425e C09
f08c0bb C19
ec0e3d2 C14
730b9d9 C14
82733d6 C20
485b51e C20
4dfa711 C12
1ed1a66 C12
0ec3bca C18
13d41b4 C09
7d4c0eb C06
LIST
git -C /repo status --short | head -3
