import Katib.Base.Hex
import Katib.Model.Metrics
