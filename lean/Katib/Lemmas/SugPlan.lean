import Katib.Lemmas.Prog
/-! One guard for every call of the suggestion reconcile's decision tree (used by C09, C16, C17-adjacent statements). -/
namespace Katib.Ctl
open Katib

/-- everything a suggestion reconcile may call, and under which condition on the Suggestion it read -/
def SugCallGuard (v : World) (s : SugO) : Call → Prop
  | .rpcGetSuggestions e cur total sent _ _ =>
    sHas s .succeeded = false ∧ e = s.key.name ∧ cur = s.requests - s.st.count ∧ total = s.requests ∧
    sent = sentTrials (trialsOf v s.key) ∧ 0 < cur
  | .rpcGetRules e _ => sHas s .succeeded = false ∧ s.es = true ∧ e = s.key.name
  | .rpcValidate e => sHas s .succeeded = false ∧ e = s.key.name
  | .rpcValidateES => sHas s .succeeded = false ∧ s.es = true
  | .deployDelete k' => sHas s .succeeded = true ∧ k' = infraKey s.key
  | .svcDelete k' => sHas s .succeeded = true ∧ k' = infraKey s.key
  | .deployCreate k' => sHas s .succeeded = false ∧ k' = infraKey s.key
  | .svcCreate k' => sHas s .succeeded = false ∧ k' = infraKey s.key
  | .pvcCreate k' => sHas s .succeeded = false ∧ k' = infraKey s.key ∧ s.resume = .fromVolume
  | .saCreate k' => sHas s .succeeded = false ∧ k' = infraKey s.key ∧ s.es = true
  | .roleCreate k' => sHas s .succeeded = false ∧ k' = infraKey s.key ∧ s.es = true
  | .rbCreate k' => sHas s .succeeded = false ∧ k' = infraKey s.key ∧ s.es = true
  | .sugStatus k' rv _ => k' = s.key ∧ rv = s.rv
  | _ => False

theorem guard_sugFinish (v : World) (s : SugO) (st : SugSt) : (sugFinish s st).All (SugCallGuard v s) := by
  unfold sugFinish; split
  · trivial
  · exact ⟨⟨rfl, rfl⟩, trivial, trivial⟩

theorem guard_sugErr (v : World) (s : SugO) (st : SugSt) : (sugErr s st).All (SugCallGuard v s) := by
  unfold sugErr; split
  · trivial
  · exact ⟨⟨rfl, rfl⟩, trivial, trivial⟩

theorem guard_sugSync (v : World) (s : SugO) (st : SugSt) (env : SugEnv) (hs : sHas s .succeeded = false)
    (h2 : st.count = s.st.count) : (sugSync v s st (trialsOf v s.key) env).All (SugCallGuard v s) := by
  unfold sugSync
  simp only []
  split
  · exact guard_sugFinish v s st
  · rename_i hcur
    split
    · exact ⟨⟨hs, rfl, by rw [h2], rfl, rfl, by omega⟩, guard_sugErr v s st, guard_sugErr v s st⟩
    · refine ⟨⟨hs, rfl, by rw [h2], rfl, rfl, by omega⟩, ?_, guard_sugErr v s st⟩
      unfold sugAfterReply
      split
      · exact guard_sugErr v s st
      · split
        · rename_i hes
          exact ⟨⟨hs, hes, rfl⟩, guard_sugFinish v s _, guard_sugErr v s st⟩
        · exact guard_sugFinish v s _

theorem guard_sugTail (v : World) (s : SugO) (st1 : SugSt) (env : SugEnv) (now : Nat) (hs : sHas s .succeeded = false)
    (h2 : st1.count = s.st.count) : (sugTail v s st1 env now).All (SugCallGuard v s) := by
  unfold sugTail
  split
  · exact guard_sugErr v s _
  · simp only []
    split
    · refine ⟨⟨hs, rfl⟩, ?_, guard_sugFinish v s _⟩
      split
      · rename_i hes
        exact ⟨⟨hs, hes⟩, guard_sugSync v s _ env hs h2, guard_sugFinish v s _⟩
      · exact guard_sugSync v s _ env hs h2
    · exact guard_sugSync v s _ env hs h2

theorem guard_sugDeploy (v : World) (s : SugO) (env : SugEnv) (now : Nat) (hs : sHas s .succeeded = false) :
    (sugDeploy v s env now).All (SugCallGuard v s) := by
  unfold sugDeploy
  simp only []
  split
  · exact ⟨⟨hs, rfl⟩, guard_sugFinish v s _, guard_sugErr v s _⟩
  · split
    · exact guard_sugFinish v s _
    · exact guard_sugTail v s _ env now hs rfl

theorem all_createIfAbsent' {P : Call → Prop} (b : Bool) (c : Call) (next fail : Prog) (hc : P c)
    (h1 : next.All P) (h2 : fail.All P) : (createIfAbsent b c next fail).All P := by
  unfold createIfAbsent; split
  · exact h1
  · exact ⟨hc, h1, h2⟩

theorem guard_sugReconcile (v : World) (s : SugO) (env : SugEnv) (now : Nat) (hs : sHas s .succeeded = false) :
    (sugReconcile v s env now).All (SugCallGuard v s) := by
  have errK := guard_sugErr v s s.st
  have rbac : (sugRbac v s env now).All (SugCallGuard v s) := by
    unfold sugRbac
    simp only []
    split
    · rename_i hes
      exact all_createIfAbsent' _ _ _ _ ⟨hs, rfl, hes⟩ (all_createIfAbsent' _ _ _ _ ⟨hs, rfl, hes⟩
        (all_createIfAbsent' _ _ _ _ ⟨hs, rfl, hes⟩ (guard_sugDeploy v s env now hs) errK) errK) errK
    · exact guard_sugDeploy v s env now hs
  unfold sugReconcile
  simp only []
  split
  · rename_i hr
    exact all_createIfAbsent' _ _ _ _ ⟨hs, rfl, hr⟩ (all_createIfAbsent' _ _ _ _ ⟨hs, rfl⟩ rbac errK) errK
  · exact all_createIfAbsent' _ _ _ _ ⟨hs, rfl⟩ rbac errK

/-- every call of a suggestion reconcile is one of the guarded kinds -/
theorem sugPlan_guard (v : World) (k : Key2) (env : SugEnv) (now : Nat) (s : SugO) (hs : findSug v k = some s) :
    (sugPlan v k env now).All (SugCallGuard v s) := by
  have hk : s.key = k := by
    unfold findSug at hs
    have := List.find?_some hs
    simpa using this
  unfold sugPlan
  rw [hs]
  simp only []
  split
  · rename_i h1
    subst hk
    split
    · split
      · exact ⟨⟨h1, rfl⟩, ⟨⟨h1, rfl⟩, trivial, trivial⟩, trivial⟩
      · exact ⟨⟨h1, rfl⟩, trivial, trivial⟩
    · split
      · exact ⟨⟨h1, rfl⟩, trivial, trivial⟩
      · trivial
  · rename_i h1
    have h1' : sHas s .succeeded = false := by simpa using h1
    split
    · exact guard_sugFinish v s _
    · exact guard_sugReconcile v s env now h1'

end Katib.Ctl
