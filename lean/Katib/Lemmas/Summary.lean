import Katib.Model.ExpStatus
/-! Lemmas about `updateTrialsSummary`'s loop. -/
namespace Katib.Exp

theorem stepBest_lists (o : Objective) (s : Loop) (t : TrialV) :
    (stepBest o s t).lists = s.lists ∧ (stepBest o s t).trials = s.trials := by
  unfold stepBest
  simp only []
  split
  · exact ⟨rfl, rfl⟩
  · split
    · exact ⟨rfl, rfl⟩
    · split
      · split <;> split <;> split <;> (try split) <;> exact ⟨rfl, rfl⟩
      · split <;> split <;> split <;> (try split) <;> exact ⟨rfl, rfl⟩
      · split <;> exact ⟨rfl, rfl⟩

theorem push_get (l : Lists) (c c' : Class) (n : String) :
    (l.push c n).get c' = if c = c' then l.get c' ++ [n] else l.get c' := by
  cases c <;> cases c' <;> simp [Lists.push, Lists.get]

theorem stepTrial_lists (o : Objective) (s : Loop) (t : TrialV) (c : Class) :
    (stepTrial o s t).lists.get c = if classify t = c then s.lists.get c ++ [t.name] else s.lists.get c := by
  unfold stepTrial
  simp only []
  rw [(stepBest_lists o _ t).1]
  simp only [push_get]

theorem stepTrial_trials (o : Objective) (s : Loop) (t : TrialV) : (stepTrial o s t).trials = s.trials + 1 := by
  unfold stepTrial
  simp only []
  rw [(stepBest_lists o _ t).2]

theorem foldl_lists (o : Objective) (ts : List TrialV) (s : Loop) (c : Class) :
    (ts.foldl (stepTrial o) s).lists.get c = s.lists.get c ++ (ts.filter (fun t => classify t = c)).map (·.name) := by
  induction ts generalizing s with
  | nil => simp
  | cons t ts ih =>
    simp only [List.foldl_cons, ih, stepTrial_lists, List.filter_cons]
    by_cases h : classify t = c <;> simp [h]

theorem foldl_trials (o : Objective) (ts : List TrialV) (s : Loop) :
    (ts.foldl (stepTrial o) s).trials = s.trials + ts.length := by
  induction ts generalizing s with
  | nil => simp
  | cons t ts ih => simp only [List.foldl_cons, ih, stepTrial_trials, List.length_cons]; omega

def allClasses : List Class := [.killed, .failed, .succeeded, .earlyStopped, .running, .metricsUnavailable, .pending]

theorem class_partition (ts : List TrialV) :
    (allClasses.map (fun c => (ts.filter (fun t => classify t = c)).length)).sum = ts.length := by
  induction ts with
  | nil => rfl
  | cons t ts ih =>
    simp only [allClasses, List.map_cons, List.map_nil, List.sum_cons, List.sum_nil, List.filter_cons] at ih ⊢
    cases h : classify t <;> simp <;> omega

end Katib.Exp

namespace Katib.Exp

/-! ### the running best -/

def avail (t : TrialV) : Prop := (objectiveOf t).1 ≠ unavailable
def keyOf (t : TrialV) : Key := (objectiveOf t).2

/-- the numeric branch of `stepBest`, uniformly for minimize / maximize -/
def stepNum (lt : Int → Int → Bool) (meets : Int → Bool) (s : Loop) (t : TrialV) (v : Int) : Loop :=
  let s1 : Loop := if s.best.isNone then { s with bestVal := v, best := some t } else s
  let s2 : Loop := if lt v s1.bestVal then { s1 with bestVal := v, best := some t } else s1
  if meets s2.bestVal then { s2 with goalReached := true } else s2

def ltOf (o : Objective) : Int → Int → Bool :=
  match o.ty with
  | .minimize => fun a b => decide (a < b)
  | .maximize => fun a b => decide (b < a)
  | .other => fun _ _ => false

def meetsOf (o : Objective) : Int → Bool :=
  match o.ty, o.goal with
  | .minimize, some g => fun b => decide (b ≤ g)
  | .maximize, some g => fun b => decide (g ≤ b)
  | _, _ => fun _ => false

theorem stepBest_num (o : Objective) (s : Loop) (t : TrialV) (v : Int)
    (ha : avail t) (hk : keyOf t = some v) : stepBest o s t = stepNum (ltOf o) (meetsOf o) s t v := by
  unfold stepBest stepNum ltOf meetsOf
  unfold avail at ha
  unfold keyOf at hk
  generalize objectiveOf t = ob at ha hk
  obtain ⟨text, key⟩ := ob
  simp only at ha hk
  subst hk
  simp only [ha, if_false]
  cases o.ty <;> cases o.goal <;> simp

theorem stepBest_unavail (o : Objective) (s : Loop) (t : TrialV) (ha : ¬ avail t) : stepBest o s t = s := by
  unfold stepBest
  unfold avail at ha
  generalize objectiveOf t = ob at ha
  obtain ⟨text, key⟩ := ob
  simp only [ne_eq, Decidable.not_not] at ha
  simp [ha]

/-- order facts needed about `lt` / `meets` (hold for `<` with `≤ g`, and for `>` with `≥ g`) -/
structure OrdOK (lt : Int → Int → Bool) (meets : Int → Bool) : Prop where
  irrefl : ∀ a, lt a a = false
  trans : ∀ a b c, lt a b = true → lt b c = true → lt a c = true
  negtrans : ∀ a b c, lt a b = true → lt c b = false → lt a c = true
  mono : ∀ v b, lt v b = false → meets v = true → meets b = true

theorem ordOK_of (o : Objective) : OrdOK (ltOf o) (meetsOf o) := by
  unfold ltOf meetsOf
  cases o.ty <;> cases o.goal <;> constructor <;> simp <;> omega

/-- what the loop state says about the processed prefix `p` -/
structure BestInv (lt : Int → Int → Bool) (meets : Int → Bool) (p : List TrialV) (s : Loop) : Prop where
  none_iff : s.best = none ↔ ∀ t ∈ p, ¬ avail t
  some_spec : ∀ b, s.best = some b → ∃ pre post, p = pre ++ b :: post ∧ avail b ∧ keyOf b = some s.bestVal ∧
      (∀ t ∈ pre, avail t → ∀ v, keyOf t = some v → lt s.bestVal v = true) ∧
      (∀ t ∈ post, avail t → ∀ v, keyOf t = some v → lt v s.bestVal = false)
  goal_iff : s.goalReached = true ↔ (s.best.isSome = true ∧ meets s.bestVal = true)

theorem bestInv_init (lt : Int → Int → Bool) (meets : Int → Bool) : BestInv lt meets [] {} := by
  constructor <;> simp

theorem BestInv.skip {lt : Int → Int → Bool} {meets : Int → Bool} {p : List TrialV} {s : Loop}
    (h : BestInv lt meets p s) (t : TrialV) (ha : ¬ avail t) (s' : Loop)
    (hb : s'.best = s.best) (hv : s'.bestVal = s.bestVal) (hg : s'.goalReached = s.goalReached) :
    BestInv lt meets (p ++ [t]) s' := by
  constructor
  · rw [hb, h.none_iff]
    constructor
    · intro h1 t' ht'
      simp only [List.mem_append, List.mem_singleton] at ht'
      cases ht' with
      | inl h2 => exact h1 t' h2
      | inr h2 => subst h2; exact ha
    · intro h1 t' ht'; exact h1 t' (by simp [ht'])
  · intro b hb'
    rw [hb] at hb'
    obtain ⟨pre, post, hp, h1, h2, h3, h4⟩ := h.some_spec b hb'
    refine ⟨pre, post ++ [t], by simp [hp], h1, by rw [hv]; exact h2, by rw [hv]; exact h3, ?_⟩
    intro t' ht' ha' v hv'
    simp only [List.mem_append, List.mem_singleton] at ht'
    cases ht' with
    | inl h5 => rw [hv]; exact h4 t' h5 ha' v hv'
    | inr h5 => subst h5; exact absurd ha' ha
  · rw [hg, hb, hv]; exact h.goal_iff

theorem bestInv_stepNum {lt : Int → Int → Bool} {meets : Int → Bool} (ok : OrdOK lt meets)
    {p : List TrialV} {s : Loop} (h : BestInv lt meets p s) (t : TrialV) (v : Int)
    (ha : avail t) (hk : keyOf t = some v) : BestInv lt meets (p ++ [t]) (stepNum lt meets s t v) := by
  -- first the (best, bestVal) part: s2
  have key : ∃ s2 : Loop, stepNum lt meets s t v = (if meets s2.bestVal then { s2 with goalReached := true } else s2) ∧
      s2.goalReached = s.goalReached ∧
      s2.best.isSome = true ∧
      (∀ b, s2.best = some b → ∃ pre post, p ++ [t] = pre ++ b :: post ∧ avail b ∧ keyOf b = some s2.bestVal ∧
        (∀ t' ∈ pre, avail t' → ∀ v', keyOf t' = some v' → lt s2.bestVal v' = true) ∧
        (∀ t' ∈ post, avail t' → ∀ v', keyOf t' = some v' → lt v' s2.bestVal = false)) ∧
      (s.best.isSome = true → meets s.bestVal = true → meets s2.bestVal = true) := by
    cases hb : s.best with
    | none =>
      have hall := h.none_iff.mp hb
      refine ⟨{ s with bestVal := v, best := some t }, ?_, rfl, rfl, ?_, by simp [hb]⟩
      · unfold stepNum; simp [hb, ok.irrefl]
      · intro b hb2
        simp only [Option.some.injEq] at hb2; subst hb2
        refine ⟨p, [], rfl, ha, hk, ?_, by simp⟩
        intro t' ht' ha'; exact absurd ha' (hall t' ht')
    | some b0 =>
      obtain ⟨pre, post, hp, h1, h2, h3, h4⟩ := h.some_spec b0 hb
      cases hlt : lt v s.bestVal with
      | true =>
        refine ⟨{ s with bestVal := v, best := some t }, ?_, rfl, rfl, ?_, ?_⟩
        · unfold stepNum; simp [hb, hlt]
        · intro b hb2
          simp only [Option.some.injEq] at hb2; subst hb2
          refine ⟨p, [], rfl, ha, hk, ?_, by simp⟩
          intro t' ht' ha' v' hv'
          subst hp
          simp only [List.mem_append, List.mem_cons] at ht'
          rcases ht' with h5 | h5 | h5
          · exact ok.trans _ _ _ hlt (h3 t' h5 ha' v' hv')
          · subst h5; rw [h2] at hv'; cases hv'; exact hlt
          · exact ok.negtrans _ _ _ hlt (h4 t' h5 ha' v' hv')
        · intro _ hm
          simp only
          apply ok.mono s.bestVal v _ hm
          -- lt bestVal v = false, else transitivity gives lt v v
          cases hx : lt s.bestVal v with
          | false => rfl
          | true => have := ok.trans _ _ _ hlt hx; rw [ok.irrefl] at this; cases this
      | false =>
        refine ⟨s, ?_, rfl, by simp [hb], ?_, fun _ hm => hm⟩
        · unfold stepNum; simp [hb, hlt]
        · intro b hb2
          rw [hb] at hb2; cases hb2
          refine ⟨pre, post ++ [t], by simp [hp], h1, h2, h3, ?_⟩
          intro t' ht' ha' v' hv'
          simp only [List.mem_append, List.mem_singleton] at ht'
          cases ht' with
          | inl h5 => exact h4 t' h5 ha' v' hv'
          | inr h5 => subst h5; rw [hk] at hv'; cases hv'; exact hlt
  obtain ⟨s2, heq, hg, hsome, hspec, hmono⟩ := key
  rw [heq]
  have hnone : ¬ (∀ t' ∈ p ++ [t], ¬ avail t') := fun hx => hx t (by simp) ha
  cases hm : meets s2.bestVal with
  | true =>
    simp only [if_true]
    refine ⟨?_, hspec, ?_⟩
    · constructor
      · intro hx; simp only at hx; rw [hx] at hsome; cases hsome
      · intro hx; exact absurd hx hnone
    · simp [hsome, hm]
  | false =>
    simp only [Bool.false_eq_true, if_false]
    refine ⟨?_, hspec, ?_⟩
    · constructor
      · intro hx; rw [hx] at hsome; cases hsome
      · intro hx; exact absurd hx hnone
    · rw [hg, h.goal_iff]
      constructor
      · intro ⟨h1, h2⟩; have := hmono h1 h2; rw [hm] at this; cases this
      · intro ⟨_, h2⟩; rw [hm] at h2; cases h2

end Katib.Exp
