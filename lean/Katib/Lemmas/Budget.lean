import Katib.Model.Sim
import Katib.Lemmas.Prog
/-!
# World-level invariants of the controller model (towards C01 / C08 over whole schedules)

`WInv k m w`: for the experiment `k` with `maxTrialCount = m`: trial keys are unique, every trial of `k` is named by an
assignment of `k`'s suggestion, the suggestion has at most `m` assignments, `requests ≤ m`, `count = |assignments|`.
`Past k h c`: between an earlier store `h` and a later one `c` the suggestion's assignment list only grows (prefix), its
`resourceVersion` never decreases, and an equal `resourceVersion` means an identical object.
`apply_pres`: one successful call that is justified by *some earlier store* preserves both.
-/
namespace Katib.Ctl
open Katib Katib.Exp

/-! ### store lemmas -/

theorem find?_map_upd {α : Type} (key : α → Key2) (l : List α) (k k' : Key2) (f : α → α) (hf : ∀ x, key (f x) = key x) :
    (l.map (fun x => if key x = k' then f x else x)).find? (fun x => key x = k) =
      (l.find? (fun x => key x = k)).map (fun x => if key x = k' then f x else x) := by
  induction l with
  | nil => rfl
  | cons a r ih =>
    simp only [List.map_cons, List.find?_cons]
    have hkey : key (if key a = k' then f a else a) = key a := by split <;> simp [hf]
    by_cases hk : key a = k
    · subst hk
      simp [hkey]
    · simp only [hkey, hk, decide_false]
      exact ih

theorem findSug_updSug (w : World) (k k' : Key2) (f : SugO → SugO) (hf : ∀ s, (f s).key = s.key) :
    findSug (updSug w k' f) k = (findSug w k).map (fun s => if s.key = k' then f s else s) := by
  unfold findSug updSug
  exact find?_map_upd (·.key) w.sugs k k' f hf

theorem findExp_updExp (w : World) (k k' : Key2) (f : ExpO → ExpO) (hf : ∀ s, (f s).key = s.key) :
    findExp (updExp w k' f) k = (findExp w k).map (fun s => if s.key = k' then f s else s) := by
  unfold findExp updExp
  exact find?_map_upd (·.key) w.exps k k' f hf

theorem exp_upd_maxT {w : World} {k k' : Key2} {f : ExpO → ExpO} {e : ExpO} (he : findExp (updExp w k' f) k = some e)
    (hf : ∀ x, (f x).key = x.key ∧ (f x).maxT = x.maxT) : ∃ e0, findExp w k = some e0 ∧ e.maxT = e0.maxT := by
  rw [findExp_updExp w k k' f (fun x => (hf x).1)] at he
  cases h0 : findExp w k with
  | none => rw [h0] at he; cases he
  | some e0 =>
    rw [h0] at he
    simp only [Option.map_some, Option.some.injEq] at he
    subst he
    refine ⟨e0, rfl, ?_⟩
    split
    · exact (hf e0).2
    · rfl

theorem findSug_key {w : World} {k : Key2} {s : SugO} (h : findSug w k = some s) : s.key = k := by
  unfold findSug at h
  simpa using List.find?_some h

theorem findExp_key {w : World} {k : Key2} {e : ExpO} (h : findExp w k = some e) : e.key = k := by
  unfold findExp at h
  simpa using List.find?_some h

theorem findSug_append_none {w : World} {k : Key2} (s : SugO) (h : findSug w s.key = none) :
    findSug { w with sugs := w.sugs ++ [s] } k = if s.key = k then some s else findSug w k := by
  unfold findSug at h ⊢
  simp only [List.find?_append]
  by_cases hk : s.key = k
  · subst hk
    simp [h]
  · simp only [hk, if_false]
    cases hw : List.find? (fun s => decide (s.key = k)) w.sugs with
    | some x => simp
    | none => simp [hk]

/-! ### the invariants -/

def NamesOk (m : Int) (s : SugO) : Prop :=
  (s.st.names.length : Int) ≤ m ∧ s.requests ≤ m ∧ s.st.count = (s.st.names.length : Int)

structure WInv (k : Key2) (m : Int) (w : World) : Prop where
  tkeys : (w.trials.map (·.key)).Nodup
  tnames : ∀ t ∈ w.trials, t.key.ns = k.ns → t.exp = k.name → ∃ s, findSug w k = some s ∧ t.key.name ∈ s.st.names
  sug : ∀ s, findSug w k = some s → NamesOk m s

def Past (k : Key2) (h c : World) : Prop :=
  ∀ sh, findSug h k = some sh → ∃ sc, findSug c k = some sc ∧ sh.st.names <+: sc.st.names ∧ sh.rv ≤ sc.rv ∧ (sh.rv = sc.rv → sh = sc)

theorem Past.refl (k : Key2) (w : World) : Past k w w :=
  fun sh h => ⟨sh, h, List.prefix_refl _, Nat.le_refl _, fun _ => rfl⟩

theorem Past.trans {k : Key2} {a b c : World} (h1 : Past k a b) (h2 : Past k b c) : Past k a c := by
  intro sa ha
  obtain ⟨sb, hb, p1, r1, e1⟩ := h1 sa ha
  obtain ⟨sc, hc, p2, r2, e2⟩ := h2 sb hb
  refine ⟨sc, hc, List.IsPrefix.trans p1 p2, Nat.le_trans r1 r2, ?_⟩
  intro e
  have h3 : sa.rv = sb.rv := by omega
  have h4 : sb.rv = sc.rv := by omega
  rw [e1 h3, e2 h4]

/-- a step that leaves trials, suggestions and experiments alone -/
theorem frame {k : Key2} {m : Int} {w w' : World} (hW : WInv k m w) (ht : w'.trials = w.trials) (hs : w'.sugs = w.sugs) (he : w'.exps = w.exps) :
    WInv k m w' ∧ Past k w w' := by
  have fs : ∀ k, findSug w' k = findSug w k := fun k => by unfold findSug; rw [hs]
  have _fe : ∀ k, findExp w' k = findExp w k := fun k => by unfold findExp; rw [he]
  refine ⟨⟨by rw [ht]; exact hW.tkeys, ?_, ?_⟩, ?_⟩
  · intro t h; rw [ht] at h; rw [fs]; exact hW.tnames t h
  · intro s h; rw [fs] at h; exact hW.sug s h
  · intro sh h; exact ⟨sh, by rw [fs]; exact h, List.prefix_refl _, Nat.le_refl _, fun _ => rfl⟩

/-- a change of trials only, which keeps every trial's key and experiment and removes or keeps trials -/
theorem frame_trials {k : Key2} {m : Int} {w w' : World} (hW : WInv k m w) (hs : w'.sugs = w.sugs) (he : w'.exps = w.exps)
    (hk : (w'.trials.map (·.key)).Nodup)
    (hsub : ∀ t' ∈ w'.trials, ∃ t ∈ w.trials, t'.key = t.key ∧ t'.exp = t.exp) :
    WInv k m w' ∧ Past k w w' := by
  have fs : ∀ k, findSug w' k = findSug w k := fun k => by unfold findSug; rw [hs]
  have _fe : ∀ k, findExp w' k = findExp w k := fun k => by unfold findExp; rw [he]
  refine ⟨⟨hk, ?_, ?_⟩, ?_⟩
  · intro t' h hns hexp
    obtain ⟨t, ht, e1, e2⟩ := hsub t' h
    rw [fs]
    have := hW.tnames t ht (by rw [← e1]; exact hns) (by rw [← e2]; exact hexp)
    rw [← e1] at this; exact this
  · intro s h; rw [fs] at h; exact hW.sug s h
  · intro sh h; exact ⟨sh, by rw [fs]; exact h, List.prefix_refl _, Nat.le_refl _, fun _ => rfl⟩

theorem map_key_upd (l : List TrialO) (k : Key2) (f : TrialO → TrialO) (hf : ∀ t, (f t).key = t.key) :
    (l.map (fun t => if t.key = k then f t else t)).map (·.key) = l.map (·.key) := by
  rw [List.map_map]
  apply List.map_congr_left
  intro t _
  simp only [Function.comp]
  split
  · exact hf t
  · rfl

theorem mem_upd {l : List TrialO} {k : Key2} {f : TrialO → TrialO} {t' : TrialO}
    (h : t' ∈ l.map (fun t => if t.key = k then f t else t)) (hf : ∀ t, (f t).key = t.key ∧ (f t).exp = t.exp) :
    ∃ t ∈ l, t'.key = t.key ∧ t'.exp = t.exp := by
  obtain ⟨t, ht, e⟩ := List.mem_map.1 h
  refine ⟨t, ht, ?_⟩
  subst e
  split
  · exact hf t
  · exact ⟨rfl, rfl⟩

/-! ### calls justified by an earlier store -/

/-- what the plans guarantee about their calls, in terms of the store `hS` the Suggestion was read from -/
def VJust (k : Key2) (m : Int) (hS : World) : Call → Prop
  | .sugCreate s => s.key = k → s.st.names = [] ∧ s.st.count = 0 ∧ s.requests ≤ m
  | .sugUpdateReq k' _ req => k' = k → req ≤ m
  | .sugStatus k' rv st => k' = k → ∃ sv, findSug hS k = some sv ∧ rv = sv.rv ∧
      ((st.names = sv.st.names ∧ st.count = sv.st.count) ∨
       (∃ l : List String, st.names = sv.st.names ++ l ∧ (l.length : Int) = sv.requests - sv.st.count ∧ st.count = (st.names.length : Int)))
  | .trialCreate t => t.key.ns = k.ns → t.exp = k.name → ∃ sv, findSug hS k = some sv ∧ t.key.name ∈ sv.st.names
  | _ => True

/-- one successful justified call preserves the invariant and only moves the suggestion forward -/
theorem apply_pres {k : Key2} {m : Int} (hm : 0 ≤ m) {hS w w' : World} {c : Call}
    (hW : WInv k m w) (hP : Past k hS w) (hJ : VJust k m hS c) (h : applyCall w c = .ok w') :
    WInv k m w' ∧ Past k w w' := by
  cases c with
  | expUpdateFin k' rv fin =>
    simp only [applyCall] at h
    split at h
    · cases h
    · split at h
      · cases h
      · cases h
        exact ⟨⟨hW.tkeys, hW.tnames, hW.sug⟩, fun sh hh => ⟨sh, hh, List.prefix_refl _, Nat.le_refl _, fun _ => rfl⟩⟩
  | expStatus k' rv st =>
    simp only [applyCall] at h
    split at h
    · cases h
    · split at h
      · cases h
      · cases h
        exact ⟨⟨hW.tkeys, hW.tnames, hW.sug⟩, fun sh hh => ⟨sh, hh, List.prefix_refl _, Nat.le_refl _, fun _ => rfl⟩⟩
  | sugCreate s =>
    simp only [applyCall] at h
    split at h
    · cases h
    · rename_i hnone
      cases h
      have fsd : ∀ k', findSug { w with sugs := w.sugs ++ [s] } k' = if s.key = k' then some s else findSug w k' :=
        fun k' => findSug_append_none s hnone
      refine ⟨⟨hW.tkeys, ?_, ?_⟩, ?_⟩
      · intro t ht hns hexp
        obtain ⟨s0, hs0, hmem⟩ := hW.tnames t ht hns hexp
        rw [fsd]
        by_cases hk : s.key = k
        · rw [hk] at hnone; rw [hnone] at hs0; cases hs0
        · simp only [hk, if_false]; exact ⟨s0, hs0, hmem⟩
      · intro s1 hs1
        rw [fsd] at hs1
        by_cases hk : s.key = k
        · simp only [hk, if_true, Option.some.injEq] at hs1
          subst hs1
          obtain ⟨h1, h2, h3⟩ := hJ hk
          refine ⟨by rw [h1]; simpa using hm, h3, by rw [h2, h1]; rfl⟩
        · simp only [hk, if_false] at hs1; exact hW.sug s1 hs1
      · intro sh hh
        rw [fsd]
        by_cases hk : s.key = k
        · rw [hk] at hnone; rw [hnone] at hh; cases hh
        · simp only [hk, if_false]; exact ⟨sh, hh, List.prefix_refl _, Nat.le_refl _, fun _ => rfl⟩
  | sugUpdateReq k' rv req =>
    simp only [applyCall] at h
    split at h
    · cases h
    · rename_i s0 hs0
      split at h
      · cases h
      · cases h
        have fs := fun k0 => findSug_updSug w k0 k' (fun s => { s with requests := req, rv := s.rv + 1 }) (fun _ => rfl)
        refine ⟨⟨hW.tkeys, ?_, ?_⟩, ?_⟩
        · intro t ht hns hexp
          obtain ⟨s1, hs1, hmem⟩ := hW.tnames t ht hns hexp
          rw [fs, hs1]
          refine ⟨_, rfl, ?_⟩
          dsimp only
          split <;> exact hmem
        · intro s1 hs1
          rw [fs] at hs1
          cases hf : findSug w k with
          | none => rw [hf] at hs1; cases hs1
          | some s2 =>
            rw [hf] at hs1
            simp only [Option.map_some, Option.some.injEq] at hs1
            subst hs1
            obtain ⟨a, b, c⟩ := hW.sug s2 hf
            split
            · rename_i hk2
              have hkk : k' = k := hk2.symm.trans (findSug_key hf)
              exact ⟨a, hJ hkk, c⟩
            · exact ⟨a, b, c⟩
        · intro sh hh
          rw [fs, hh]
          refine ⟨_, rfl, ?_⟩
          dsimp only
          split
          · exact ⟨List.prefix_refl _, Nat.le_succ _, fun e => absurd e (by simp)⟩
          · exact ⟨List.prefix_refl _, Nat.le_refl _, fun _ => rfl⟩
  | sugStatus k' rv st =>
    simp only [applyCall] at h
    split at h
    · cases h
    · rename_i s0 hs0
      split at h
      · cases h
      · rename_i hrv
        cases h
        have hrv' : s0.rv = rv := Classical.not_not.1 hrv
        have fs := fun k0 => findSug_updSug w k0 k' (fun s => { s with st := st, rv := s.rv + 1 }) (fun _ => rfl)
        by_cases hkk : k' = k
        · -- the write hits our suggestion: the writer saw exactly the live object (same resourceVersion)
          subst hkk
          obtain ⟨sv, hsv, hrvv, hnames⟩ := hJ rfl
          obtain ⟨sc, hsc, hpre, _, hsame⟩ := hP sv hsv
          rw [hs0] at hsc; cases hsc
          have hsv_eq : sv = s0 := hsame (by rw [← hrvv, hrv'])
          subst hsv_eq
          have hkey : sv.key = k' := findSug_key hs0
          obtain ⟨a, b, c⟩ := hW.sug sv hs0
          have hpre' : sv.st.names <+: st.names := by
            rcases hnames with ⟨e, _⟩ | ⟨l, e, _, _⟩
            · rw [e]; exact List.prefix_refl _
            · rw [e]; exact List.prefix_append _ _
          have hok : (st.names.length : Int) ≤ m ∧ st.count = (st.names.length : Int) := by
            rcases hnames with ⟨e1, e2⟩ | ⟨l, e, hl, hc⟩
            · rw [e1, e2]; exact ⟨a, c⟩
            · refine ⟨?_, hc⟩
              rw [e, List.length_append]
              have : ((sv.st.names.length + l.length : Nat) : Int) = (sv.st.names.length : Int) + (l.length : Int) := by omega
              rw [this, hl, c]; omega
          refine ⟨⟨hW.tkeys, ?_, ?_⟩, ?_⟩
          · intro t ht hns hexp
            obtain ⟨s1, hs1, hmem⟩ := hW.tnames t ht hns hexp
            rw [hs0] at hs1; cases hs1
            rw [fs, hs0]
            refine ⟨_, rfl, ?_⟩
            simp only [hkey, if_true]
            exact hpre'.subset hmem
          · intro s1 hs1
            rw [fs, hs0] at hs1
            simp only [Option.map_some, Option.some.injEq, hkey, if_true] at hs1
            subst hs1
            exact ⟨hok.1, b, hok.2⟩
          · intro sh hh
            rw [hs0] at hh; cases hh
            rw [fs, hs0]
            refine ⟨_, rfl, ?_⟩
            simp only [hkey, if_true]
            exact ⟨hpre', Nat.le_succ _, fun e => absurd e (by simp)⟩
        · -- another suggestion
          have hother : ∀ s1, findSug w k = some s1 → (if s1.key = k' then ({ s1 with st := st, rv := s1.rv + 1 } : SugO) else s1) = s1 := by
            intro s1 h1
            have : s1.key ≠ k' := fun e => hkk (e.symm.trans (findSug_key h1))
            simp [this]
          refine ⟨⟨hW.tkeys, ?_, ?_⟩, ?_⟩
          · intro t ht hns hexp
            obtain ⟨s1, hs1, hmem⟩ := hW.tnames t ht hns hexp
            rw [fs, hs1]
            exact ⟨s1, by simp only [Option.map_some]; rw [hother s1 hs1], hmem⟩
          · intro s1 hs1
            rw [fs] at hs1
            cases hf : findSug w k with
            | none => rw [hf] at hs1; cases hs1
            | some s2 =>
              rw [hf] at hs1
              simp only [Option.map_some, Option.some.injEq] at hs1
              rw [hother s2 hf] at hs1
              subst hs1
              exact hW.sug s2 hf
          · intro sh hh
            rw [fs, hh]
            exact ⟨sh, by simp only [Option.map_some]; rw [hother sh hh], List.prefix_refl _, Nat.le_refl _, fun _ => rfl⟩
  | trialCreate t =>
    simp only [applyCall] at h
    split at h
    · cases h
    · rename_i hnone
      cases h
      refine ⟨⟨?_, ?_, hW.sug⟩, fun sh hh => ⟨sh, hh, List.prefix_refl _, Nat.le_refl _, fun _ => rfl⟩⟩
      · simp only [List.map_append, List.map_cons, List.map_nil]
        rw [List.nodup_append]
        refine ⟨hW.tkeys, by simp, ?_⟩
        intro a ha b hb
        simp only [List.mem_singleton] at hb
        subst hb
        intro e
        subst e
        obtain ⟨t0, ht0, e0⟩ := List.mem_map.1 ha
        unfold findTrial at hnone
        have := List.find?_eq_none.1 hnone t0 ht0
        simp [e0] at this
      · intro t' ht' hns hexp
        rcases List.mem_append.1 ht' with ht' | ht'
        · exact hW.tnames t' ht' hns hexp
        · simp only [List.mem_singleton] at ht'
          subst ht'
          obtain ⟨sv, hsv, hmem⟩ := hJ hns hexp
          obtain ⟨sc, hsc, hpre, _, _⟩ := hP sv hsv
          exact ⟨sc, hsc, hpre.subset hmem⟩
  | trialUpdateFin k' rv fin =>
    simp only [applyCall] at h
    split at h
    · cases h
    · split at h
      · cases h
      · split at h
        · cases h
          refine frame_trials hW (by rfl) (by rfl) ?_ ?_
          · exact (List.Sublist.map _ List.filter_sublist).nodup hW.tkeys
          · intro t' ht'
            exact ⟨t', (List.mem_filter.1 ht').1, rfl, rfl⟩
        · cases h
          refine frame_trials hW (by rfl) (by rfl) ?_ ?_
          · unfold updTrial
            simp only []
            rw [map_key_upd]
            · exact hW.tkeys
            · intro _; rfl
          · intro t' ht'
            exact mem_upd ht' (fun _ => ⟨rfl, rfl⟩)
  | trialStatus k' rv st =>
    simp only [applyCall] at h
    split at h
    · cases h
    · split at h
      · cases h
      · cases h
        refine frame_trials hW (by rfl) (by rfl) ?_ ?_
        · unfold updTrial
          simp only []
          rw [map_key_upd]
          · exact hW.tkeys
          · intro _; rfl
        · intro t' ht'
          exact mem_upd ht' (fun _ => ⟨rfl, rfl⟩)
  | trialDelete k' =>
    simp only [applyCall] at h
    split at h
    · cases h
    · split at h
      · cases h
        refine frame_trials hW (by rfl) (by rfl) ?_ ?_
        · unfold updTrial
          simp only []
          rw [map_key_upd]
          · exact hW.tkeys
          · intro _; rfl
        · intro t' ht'
          exact mem_upd ht' (fun _ => ⟨rfl, rfl⟩)
      · cases h
        refine frame_trials hW (by rfl) (by rfl) ?_ ?_
        · exact (List.Sublist.map _ List.filter_sublist).nodup hW.tkeys
        · intro t' ht'
          exact ⟨t', (List.mem_filter.1 ht').1, rfl, rfl⟩
  | jobCreate k' => simp only [applyCall] at h; split at h <;> cases h; exact frame hW (by rfl) (by rfl) (by rfl)
  | jobDelete k' => simp only [applyCall] at h; split at h <;> cases h; exact frame hW (by rfl) (by rfl) (by rfl)
  | deployCreate k' => simp only [applyCall] at h; split at h <;> cases h; exact frame hW (by rfl) (by rfl) (by rfl)
  | deployDelete k' => simp only [applyCall] at h; split at h <;> cases h; exact frame hW (by rfl) (by rfl) (by rfl)
  | svcCreate k' =>
    simp only [applyCall, createKey] at h; split at h
    · cases h
    · cases h; exact frame hW (by rfl) (by rfl) (by rfl)
  | svcDelete k' => simp only [applyCall] at h; split at h <;> cases h; exact frame hW (by rfl) (by rfl) (by rfl)
  | pvcCreate k' =>
    simp only [applyCall, createKey] at h; split at h
    · cases h
    · cases h; exact frame hW (by rfl) (by rfl) (by rfl)
  | saCreate k' =>
    simp only [applyCall, createKey] at h; split at h
    · cases h
    · cases h; exact frame hW (by rfl) (by rfl) (by rfl)
  | roleCreate k' =>
    simp only [applyCall, createKey] at h; split at h
    · cases h
    · cases h; exact frame hW (by rfl) (by rfl) (by rfl)
  | rbCreate k' =>
    simp only [applyCall, createKey] at h; split at h
    · cases h
    · cases h; exact frame hW (by rfl) (by rfl) (by rfl)
  | rpcValidate e => simp only [applyCall] at h; cases h; exact frame hW (by rfl) (by rfl) (by rfl)
  | rpcValidateES => simp only [applyCall] at h; cases h; exact frame hW (by rfl) (by rfl) (by rfl)
  | rpcGetSuggestions e cur total ts consume ok =>
    simp only [applyCall] at h; split at h <;> cases h; exact frame hW (by rfl) (by rfl) (by rfl)
  | rpcGetRules e ok => simp only [applyCall] at h; split at h <;> cases h; exact frame hW (by rfl) (by rfl) (by rfl)
  | dbGet t => simp only [applyCall] at h; cases h; exact frame hW (by rfl) (by rfl) (by rfl)
  | dbDelete t => simp only [applyCall] at h; cases h; exact frame hW (by rfl) (by rfl) (by rfl)
  | dbReport t e => simp only [applyCall] at h; split at h <;> cases h <;> exact frame hW (by rfl) (by rfl) (by rfl)

end Katib.Ctl

namespace Katib.Ctl
open Katib Katib.Exp

/-! ### how many trials an experiment can have -/

theorem nodup_of_nodup_map {α β : Type} (f : α → β) : ∀ {l : List α}, (l.map f).Nodup → l.Nodup
  | [], _ => List.nodup_nil
  | a :: r, h => by
    simp only [List.map_cons, List.nodup_cons] at h ⊢
    exact ⟨fun hmem => h.1 (List.mem_map.2 ⟨a, hmem, rfl⟩), nodup_of_nodup_map f h.2⟩

theorem length_insertByName (t : TrialO) (l : List TrialO) : (insertByName t l).length = l.length + 1 := by
  induction l with
  | nil => rfl
  | cons a r ih => simp only [insertByName]; split <;> simp [ih]

theorem length_sortByName (l : List TrialO) : (sortByName l).length = l.length := by
  induction l with
  | nil => rfl
  | cons a r ih =>
    have : sortByName (a :: r) = insertByName a (sortByName r) := rfl
    rw [this, length_insertByName, ih]; rfl

theorem mem_insertByName' (t u : TrialO) (l : List TrialO) : u ∈ insertByName t l ↔ u = t ∨ u ∈ l := by
  induction l with
  | nil => simp [insertByName]
  | cons x xs ih =>
    simp only [insertByName]
    split
    · simp
    · simp only [List.mem_cons, ih]
      constructor
      · rintro (h | h | h)
        · exact Or.inr (Or.inl h)
        · exact Or.inl h
        · exact Or.inr (Or.inr h)
      · rintro (h | h | h)
        · exact Or.inr (Or.inl h)
        · exact Or.inl h
        · exact Or.inr (Or.inr h)

theorem mem_sortByName' (u : TrialO) (l : List TrialO) : u ∈ sortByName l ↔ u ∈ l := by
  induction l with
  | nil => simp [sortByName]
  | cons x xs ih =>
    have : sortByName (x :: xs) = insertByName x (sortByName xs) := rfl
    rw [this, mem_insertByName', ih]; simp

theorem mem_trialsOf {w : World} {k : Key2} {t : TrialO} : t ∈ trialsOf w k ↔ t ∈ w.trials ∧ t.key.ns = k.ns ∧ t.exp = k.name := by
  unfold trialsOf
  rw [mem_sortByName', List.mem_filter]
  simp

/-- the experiment's trials are named by distinct assignments of its suggestion: there are at most `m` of them -/
theorem trialsOf_le {k : Key2} {m : Int} (hm : 0 ≤ m) {w : World} (hW : WInv k m w) : ((trialsOf w k).length : Int) ≤ m := by
  unfold trialsOf
  rw [length_sortByName]
  generalize hl : w.trials.filter (fun t => t.key.ns = k.ns ∧ t.exp = k.name) = l
  have hsub : ∀ t ∈ l, t ∈ w.trials ∧ t.key.ns = k.ns ∧ t.exp = k.name := by
    intro t ht; rw [← hl] at ht; simpa using List.mem_filter.1 ht
  -- names of the selected trials are pairwise distinct
  have hkeys : (l.map (·.key)).Nodup := by
    rw [← hl]; exact (List.Sublist.map _ List.filter_sublist).nodup hW.tkeys
  have hnames : (l.map (·.key.name)).Nodup := by
    have e : l.map (·.key) = (l.map (·.key.name)).map (fun n => ({ ns := k.ns, name := n } : Key2)) := by
      rw [List.map_map]
      apply List.map_congr_left
      intro t ht
      have := (hsub t ht).2.1
      cases hk : t.key with
      | mk ns name => rw [hk] at this; simp only [Function.comp]; rw [hk]; simp at this ⊢; exact this
    rw [e] at hkeys
    exact nodup_of_nodup_map _ hkeys
  cases hs : findSug w k with
  | none =>
    -- no suggestion: no trial of this experiment
    cases l with
    | nil => simpa using hm
    | cons t r =>
      obtain ⟨h1, h2, h3⟩ := hsub t List.mem_cons_self
      obtain ⟨s, hs', _⟩ := hW.tnames t h1 h2 h3
      rw [hs] at hs'; cases hs'
  | some s =>
    have hsubset : l.map (·.key.name) ⊆ s.st.names := by
      intro n hn
      obtain ⟨t, ht, e⟩ := List.mem_map.1 hn
      obtain ⟨h1, h2, h3⟩ := hsub t ht
      obtain ⟨s', hs', hmem⟩ := hW.tnames t h1 h2 h3
      rw [hs] at hs'; cases hs'
      rw [← e]; exact hmem
    have hle := List.Nodup.length_le_of_subset hnames hsubset
    rw [List.length_map] at hle
    have := (hW.sug s hs).1
    omega

/-! ### execution of a plan whose calls are justified by an earlier store -/

theorem exec_budget {k : Key2} {m : Int} (hm : 0 ≤ m) {hS w0 : World} (f : Faults) (p : Prog)
    (hp : p.All (VJust k m hS)) (hW : WInv k m w0) (hP : Past k hS w0) :
    WInv k m (exec f p w0 0 []).w ∧ Past k w0 (exec f p w0 0 []).w := by
  have := exec_preserves (I := fun w => WInv k m w ∧ Past k w0 w) (P := VJust k m hS) f
    (by
      intro w c w' hI hc happ
      obtain ⟨h1, h2⟩ := apply_pres hm hI.1 (Past.trans hP hI.2) hc happ
      exact ⟨h1, Past.trans hI.2 h2⟩)
    p w0 0 [] hp ⟨hW, Past.refl k w0⟩
  exact this

/-! ### the bound may grow; experiments keep their budget fields -/

theorem WInv.mono {k : Key2} {m m' : Int} {w : World} (h : m ≤ m') (hW : WInv k m w) : WInv k m' w :=
  ⟨hW.tkeys, hW.tnames, fun s hs => by
    obtain ⟨a, b, c⟩ := hW.sug s hs
    exact ⟨Int.le_trans a h, Int.le_trans b h, c⟩⟩

theorem VJust.mono {k : Key2} {m m' : Int} {hS : World} {c : Call} (h : m ≤ m') (hJ : VJust k m hS c) : VJust k m' hS c := by
  cases c with
  | sugCreate s => intro hk; obtain ⟨a, b, c⟩ := hJ hk; exact ⟨a, b, Int.le_trans c h⟩
  | sugUpdateReq k' rv req => intro hk; exact Int.le_trans (hJ hk) h
  | sugStatus k' rv st => exact hJ
  | trialCreate t => exact hJ
  | _ => trivial

/-- the budget fields of the experiment `k` are `(mx, p)` -/
def XInv (k : Key2) (mx : Option Int) (p : Int) (w : World) : Prop := ∀ e, findExp w k = some e → e.maxT = mx ∧ e.par = p

theorem exp_upd_fields {w : World} {k k' : Key2} {f : ExpO → ExpO} {e : ExpO} (he : findExp (updExp w k' f) k = some e)
    (hf : ∀ x, (f x).key = x.key ∧ (f x).maxT = x.maxT ∧ (f x).par = x.par) : ∃ e0, findExp w k = some e0 ∧ e.maxT = e0.maxT ∧ e.par = e0.par := by
  rw [findExp_updExp w k k' f (fun x => (hf x).1)] at he
  cases h0 : findExp w k with
  | none => rw [h0] at he; cases he
  | some e0 =>
    rw [h0] at he
    simp only [Option.map_some, Option.some.injEq] at he
    subst he
    refine ⟨e0, rfl, ?_⟩
    split
    · exact (hf e0).2
    · exact ⟨rfl, rfl⟩

theorem apply_pres_x {k : Key2} {mx : Option Int} {p : Int} {w w' : World} {c : Call} (hX : XInv k mx p w) (h : applyCall w c = .ok w') :
    XInv k mx p w' := by
  have same : w'.exps = w.exps → XInv k mx p w' := fun e => by
    intro e0 he; unfold findExp at he; rw [e] at he; exact hX e0 he
  cases c with
  | expUpdateFin k' rv fin =>
    simp only [applyCall] at h; split at h
    · cases h
    · split at h
      · cases h
      · cases h
        intro e he
        obtain ⟨e0, h0, h1, h2⟩ := exp_upd_fields he (fun _ => ⟨rfl, rfl, rfl⟩)
        rw [h1, h2]; exact hX e0 h0
  | expStatus k' rv st =>
    simp only [applyCall] at h; split at h
    · cases h
    · split at h
      · cases h
      · cases h
        intro e he
        obtain ⟨e0, h0, h1, h2⟩ := exp_upd_fields he (fun _ => ⟨rfl, rfl, rfl⟩)
        rw [h1, h2]; exact hX e0 h0
  | sugCreate s => simp only [applyCall] at h; split at h <;> cases h; exact same (by rfl)
  | sugUpdateReq k' rv req =>
    simp only [applyCall] at h; split at h
    · cases h
    · split at h <;> cases h; exact same (by rfl)
  | sugStatus k' rv st =>
    simp only [applyCall] at h; split at h
    · cases h
    · split at h <;> cases h; exact same (by rfl)
  | trialCreate t => simp only [applyCall] at h; split at h <;> cases h; exact same (by rfl)
  | trialUpdateFin k' rv fin =>
    simp only [applyCall] at h; split at h
    · cases h
    · split at h
      · cases h
      · split at h <;> cases h <;> exact same (by rfl)
  | trialStatus k' rv st =>
    simp only [applyCall] at h; split at h
    · cases h
    · split at h <;> cases h; exact same (by rfl)
  | trialDelete k' =>
    simp only [applyCall] at h; split at h
    · cases h
    · split at h <;> cases h <;> exact same (by rfl)
  | jobCreate k' => simp only [applyCall] at h; split at h <;> cases h; exact same (by rfl)
  | jobDelete k' => simp only [applyCall] at h; split at h <;> cases h; exact same (by rfl)
  | deployCreate k' => simp only [applyCall] at h; split at h <;> cases h; exact same (by rfl)
  | deployDelete k' => simp only [applyCall] at h; split at h <;> cases h; exact same (by rfl)
  | svcCreate k' =>
    simp only [applyCall, createKey] at h; split at h
    · cases h
    · cases h; exact same (by rfl)
  | svcDelete k' => simp only [applyCall] at h; split at h <;> cases h; exact same (by rfl)
  | pvcCreate k' =>
    simp only [applyCall, createKey] at h; split at h
    · cases h
    · cases h; exact same (by rfl)
  | saCreate k' =>
    simp only [applyCall, createKey] at h; split at h
    · cases h
    · cases h; exact same (by rfl)
  | roleCreate k' =>
    simp only [applyCall, createKey] at h; split at h
    · cases h
    · cases h; exact same (by rfl)
  | rbCreate k' =>
    simp only [applyCall, createKey] at h; split at h
    · cases h
    · cases h; exact same (by rfl)
  | rpcValidate e => simp only [applyCall] at h; cases h; exact same (by rfl)
  | rpcValidateES => simp only [applyCall] at h; cases h; exact same (by rfl)
  | rpcGetSuggestions e cur total ts consume ok => simp only [applyCall] at h; split at h <;> cases h; exact same (by rfl)
  | rpcGetRules e ok => simp only [applyCall] at h; split at h <;> cases h; exact same (by rfl)
  | dbGet t => simp only [applyCall] at h; cases h; exact same (by rfl)
  | dbDelete t => simp only [applyCall] at h; cases h; exact same (by rfl)
  | dbReport t e => simp only [applyCall] at h; split at h <;> cases h <;> exact same (by rfl)

theorem exec_x {k : Key2} {mx : Option Int} {p : Int} {w0 : World} (f : Faults) (pr : Prog) (hX : XInv k mx p w0) :
    XInv k mx p (exec f pr w0 0 []).w :=
  exec_preserves (I := XInv k mx p) (P := fun _ => True) f (fun _ _ _ hI _ happ => apply_pres_x hI happ) pr w0 0 []
    (by
      induction pr with
      | done _ => trivial
      | step c ok fail ih1 ih2 => exact ⟨trivial, ih1, ih2⟩) hX

end Katib.Ctl
