import Katib.Model.Cond
/-! Lemmas about condition lists. -/
namespace Katib.Cond
variable {τ : Type} [DecidableEq τ]

theorem get_remove_self (cs : List (Cond τ)) (t : τ) : get (remove cs t) t = none := by
  induction cs with
  | nil => rfl
  | cons c cs ih =>
    simp only [remove]
    split
    · exact ih
    · rename_i h; simp only [get, h, if_false]; exact ih

theorem get_remove_other (cs : List (Cond τ)) {t t' : τ} (h : t' ≠ t) : get (remove cs t) t' = get cs t' := by
  induction cs with
  | nil => rfl
  | cons c cs ih =>
    simp only [remove]
    split
    · rename_i h1
      have h2 : ¬ c.ty = t' := fun h3 => h (h3 ▸ h1)
      simp only [get, h2, if_false]; exact ih
    · simp only [get]; split
      · rfl
      · exact ih

theorem get_append_single (cs : List (Cond τ)) (c : Cond τ) (t : τ) :
    get (cs ++ [c]) t = match get cs t with | some x => some x | none => if c.ty = t then some c else none := by
  induction cs with
  | nil => simp only [List.nil_append, get]
  | cons d cs ih =>
    simp only [List.cons_append, get]
    split
    · rfl
    · exact ih

theorem get_some_ty {cs : List (Cond τ)} {t : τ} {c : Cond τ} (h : get cs t = some c) : c.ty = t := by
  induction cs with
  | nil => simp [get] at h
  | cons d cs ih =>
    simp only [get] at h
    split at h
    · cases h; assumption
    · exact ih h

theorem get_set_self (cs : List (Cond τ)) (t : τ) (st : Bool) (r : String) (now : Nat) :
    ∃ c, get (set cs t st r now) t = some c ∧ c.st = st ∧ c.reason = r ∧ c.ty = t := by
  unfold set
  cases h : get cs t with
  | some c =>
    simp only []
    split
    · rename_i hh
      exact ⟨c, h, hh.1, hh.2, get_some_ty h⟩
    · refine ⟨{ ty := t, st := st, reason := r, tt := if c.st = st then c.tt else now }, ?_, rfl, rfl, rfl⟩
      rw [get_append_single, get_remove_self]; simp
  | none =>
    simp only []
    refine ⟨{ ty := t, st := st, reason := r, tt := now }, ?_, rfl, rfl, rfl⟩
    rw [get_append_single, get_remove_self]; simp

theorem get_set_other (cs : List (Cond τ)) {t t' : τ} (h : t' ≠ t) (st : Bool) (r : String) (now : Nat) :
    get (set cs t st r now) t' = get cs t' := by
  have h' : ¬ t = t' := fun e => h e.symm
  unfold set
  cases hg : get cs t with
  | some c =>
    simp only []
    split
    · rfl
    · rw [get_append_single, get_remove_other cs h]
      cases get cs t' <;> simp [h']
  | none =>
    simp only []
    rw [get_append_single, get_remove_other cs h]
    cases get cs t' <;> simp [h']

theorem has_set_self (cs : List (Cond τ)) (t : τ) (st : Bool) (r : String) (now : Nat) :
    has (set cs t st r now) t = st := by
  obtain ⟨c, hc, hst, _, _⟩ := get_set_self cs t st r now
  unfold has; rw [hc]; exact hst

theorem has_set_other (cs : List (Cond τ)) {t t' : τ} (h : t' ≠ t) (st : Bool) (r : String) (now : Nat) :
    has (set cs t st r now) t' = has cs t' := by
  unfold has; rw [get_set_other cs h]

theorem reasonOf_set_self (cs : List (Cond τ)) (t : τ) (st : Bool) (r : String) (now : Nat) :
    reasonOf (set cs t st r now) t = some r := by
  obtain ⟨c, hc, _, hr, _⟩ := get_set_self cs t st r now
  unfold reasonOf; rw [hc]; simp [hr]

theorem reasonOf_set_other (cs : List (Cond τ)) {t t' : τ} (h : t' ≠ t) (st : Bool) (r : String) (now : Nat) :
    reasonOf (set cs t st r now) t' = reasonOf cs t' := by
  unfold reasonOf; rw [get_set_other cs h]

theorem has_remove_self (cs : List (Cond τ)) (t : τ) : has (remove cs t) t = false := by
  unfold has; rw [get_remove_self]

theorem has_remove_other (cs : List (Cond τ)) {t t' : τ} (h : t' ≠ t) : has (remove cs t) t' = has cs t' := by
  unfold has; rw [get_remove_other cs h]

end Katib.Cond
