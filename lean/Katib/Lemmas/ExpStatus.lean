import Katib.Model.ExpStatus
import Katib.Lemmas.Cond
/-! Lemmas on the experiment `Mark*` helpers. -/
namespace Katib.Exp
open Katib

theorem has_runningFalse_running (cs : List ECond) (now : Nat) : Cond.has (runningFalse cs now) .running = false := by
  unfold runningFalse
  cases h : Cond.get cs .running with
  | some c => simp only []; exact Cond.has_set_self cs .running false c.reason now
  | none => simp only []; unfold Cond.has; rw [h]

theorem has_runningFalse_other (cs : List ECond) (now : Nat) {t : CT} (h : t ≠ .running) :
    Cond.has (runningFalse cs now) t = Cond.has cs t := by
  unfold runningFalse
  cases Cond.get cs .running with
  | some c => simp only []; exact Cond.has_set_other cs h false c.reason now
  | none => rfl

theorem reasonOf_runningFalse_other (cs : List ECond) (now : Nat) {t : CT} (h : t ≠ .running) :
    Cond.reasonOf (runningFalse cs now) t = Cond.reasonOf cs t := by
  unfold runningFalse
  cases Cond.get cs .running with
  | some c => simp only []; exact Cond.reasonOf_set_other cs h false c.reason now
  | none => rfl

theorem markSucceeded_spec (cs : List ECond) (r : String) (now : Nat) :
    isSucceeded (markSucceeded cs r now) = true ∧
    isFailed (markSucceeded cs r now) = isFailed cs ∧
    Cond.has (markSucceeded cs r now) .running = false ∧
    Cond.reasonOf (markSucceeded cs r now) .succeeded = some r := by
  unfold markSucceeded isSucceeded isFailed
  refine ⟨Cond.has_set_self _ _ _ _ _, ?_, ?_, Cond.reasonOf_set_self _ _ _ _ _⟩
  · rw [Cond.has_set_other _ (by decide), has_runningFalse_other _ _ (by decide)]
  · rw [Cond.has_set_other _ (by decide), has_runningFalse_running]

theorem markFailed_spec (cs : List ECond) (r : String) (now : Nat) :
    isFailed (markFailed cs r now) = true ∧
    isSucceeded (markFailed cs r now) = isSucceeded cs ∧
    Cond.has (markFailed cs r now) .running = false ∧
    Cond.reasonOf (markFailed cs r now) .failed = some r := by
  unfold markFailed isSucceeded isFailed
  refine ⟨Cond.has_set_self _ _ _ _ _, ?_, ?_, Cond.reasonOf_set_self _ _ _ _ _⟩
  · rw [Cond.has_set_other _ (by decide), has_runningFalse_other _ _ (by decide)]
  · rw [Cond.has_set_other _ (by decide), has_runningFalse_running]

theorem markRunning_spec (cs : List ECond) (now : Nat) :
    isSucceeded (markRunning cs now) = isSucceeded cs ∧ isFailed (markRunning cs now) = isFailed cs ∧
    Cond.has (markRunning cs now) .running = true := by
  unfold markRunning isSucceeded isFailed
  exact ⟨Cond.has_set_other _ (by decide) _ _ _, Cond.has_set_other _ (by decide) _ _ _, Cond.has_set_self _ _ _ _ _⟩

end Katib.Exp
