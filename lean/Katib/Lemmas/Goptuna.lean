import Katib.Model.Goptuna
/-! Helper lemmas for the Go suggestion service model (proof of C18's "survives its own history"). -/
namespace Katib.Gop

theorem mapOf_some_mem {m : List (String × Nat)} {n : String} {v : Nat} (h : mapOf m n = some v) : (n, v) ∈ m := by
  induction m with
  | nil => simp [mapOf] at h
  | cons p r ih =>
    obtain ⟨k, w⟩ := p
    simp only [mapOf] at h
    split at h
    · rename_i hk; cases h; subst hk; exact List.mem_cons_self
    · exact List.mem_cons_of_mem _ (ih h)

theorem mapOf_none_not_key {m : List (String × Nat)} {n : String} (h : mapOf m n = none) : n ∉ m.map (·.1) := by
  induction m with
  | nil => simp
  | cons p r ih =>
    obtain ⟨k, w⟩ := p
    simp only [mapOf] at h
    split at h
    · cases h
    · rename_i hk
      simp only [List.map_cons, List.mem_cons, not_or]
      exact ⟨fun e => hk e.symm, ih h⟩

theorem mem_mapOf {m : List (String × Nat)} (hk : (m.map (·.1)).Nodup) {n : String} {v : Nat} (h : (n, v) ∈ m) : mapOf m n = some v := by
  induction m with
  | nil => simp at h
  | cons p r ih =>
    obtain ⟨k, w⟩ := p
    simp only [List.map_cons, List.nodup_cons] at hk
    simp only [mapOf]
    rcases List.mem_cons.1 h with h | h
    · cases h; simp
    · split
      · rename_i hkn
        subst hkn
        exact absurd (List.mem_map.2 ⟨(k, v), h, rfl⟩) hk.1
      · exact ih hk.2 h

theorem mapped_iff {m : List (String × Nat)} (hk : (m.map (·.1)).Nodup) (id : Nat) :
    mapped m id = true ↔ ∃ n, mapOf m n = some id := by
  unfold mapped
  rw [List.any_eq_true]
  constructor
  · rintro ⟨⟨n, v⟩, hmem, hv⟩
    simp only [decide_eq_true_eq] at hv
    subst hv
    exact ⟨n, mem_mapOf hk hmem⟩
  · rintro ⟨n, h⟩
    exact ⟨(n, id), mapOf_some_mem h, by simp⟩

theorem getTrial_some_of_mem {ts : List GTrial} {t : GTrial} (h : t ∈ ts) : ∃ t', getTrial ts t.id = some t' ∧ t'.id = t.id ∧ t' ∈ ts := by
  induction ts with
  | nil => simp at h
  | cons a r ih =>
    simp only [getTrial]
    split
    · rename_i ha; exact ⟨a, rfl, ha, List.mem_cons_self⟩
    · rcases List.mem_cons.1 h with h | h
      · rename_i ha; exact absurd (h ▸ rfl) ha
      · obtain ⟨t', h1, h2, h3⟩ := ih h
        exact ⟨t', h1, h2, List.mem_cons_of_mem _ h3⟩

theorem getTrial_some {ts : List GTrial} {id : Nat} {t : GTrial} (h : getTrial ts id = some t) : t.id = id ∧ t ∈ ts := by
  induction ts with
  | nil => simp [getTrial] at h
  | cons a r ih =>
    simp only [getTrial] at h
    split at h
    · rename_i ha; cases h; exact ⟨ha, List.mem_cons_self⟩
    · obtain ⟨h1, h2⟩ := ih h
      exact ⟨h1, List.mem_cons_of_mem _ h2⟩

/-- the external parameters of the trial with this id -/
def P (ts : List GTrial) (id : Nat) : Option Params := (getTrial ts id).map (·.params)

theorem setState_ids (ts : List GTrial) (id : Nat) (st : GState) : (setState ts id st).map (·.id) = ts.map (·.id) := by
  unfold setState
  rw [List.map_map]
  apply List.map_congr_left
  intro t _
  simp only [Function.comp]
  split <;> rfl

theorem setState_length (ts : List GTrial) (id : Nat) (st : GState) : (setState ts id st).length = ts.length := by
  unfold setState; simp

theorem getTrial_setState (ts : List GTrial) (id : Nat) (st : GState) (j : Nat) :
    getTrial (setState ts id st) j = (getTrial ts j).map (fun t => if t.id = id then { t with state := st } else t) := by
  induction ts with
  | nil => simp [setState, getTrial]
  | cons a r ih =>
    simp only [setState, List.map_cons, getTrial] at ih ⊢
    by_cases ha : a.id = id
    · simp only [ha, if_true]
      by_cases hj : id = j
      · simp [hj, ha]
      · simp only [hj, if_false]; exact ih
    · simp only [ha, if_false]
      by_cases hj : a.id = j
      · simp only [hj, if_true, Option.map_some]
        rw [if_neg (by rw [← hj]; exact ha)]
      · simp only [hj, if_false]; exact ih

theorem P_setState (ts : List GTrial) (id : Nat) (st : GState) (j : Nat) : P (setState ts id st) j = P ts j := by
  unfold P
  rw [getTrial_setState]
  cases getTrial ts j with
  | none => rfl
  | some t => simp only [Option.map_some]; split <;> rfl

theorem mem_setState {ts : List GTrial} {id : Nat} {st : GState} {t : GTrial} (h : t ∈ setState ts id st) :
    ∃ t0 ∈ ts, t0.id = t.id ∧ (t0.id ≠ id → t = t0) := by
  unfold setState at h
  obtain ⟨t0, h0, e⟩ := List.mem_map.1 h
  refine ⟨t0, h0, ?_, ?_⟩
  · subst e; split <;> rfl
  · intro hne; subst e; simp [hne]

theorem findIn_spec {m : List (String × Nat)} {ps : Params} {l : List GTrial}
    (h : ∃ t ∈ l, t.state = .running ∧ mapped m t.id = false ∧ t.params = ps) :
    ∃ t' ∈ l, findIn m ps l = some t'.id ∧ t'.state = .running ∧ mapped m t'.id = false ∧ t'.params = ps := by
  induction l with
  | nil => obtain ⟨t, ht, _⟩ := h; simp at ht
  | cons a r ih =>
    simp only [findIn]
    split
    · rename_i ha; exact ⟨a, List.mem_cons_self, rfl, ha⟩
    · rename_i ha
      obtain ⟨t, ht, hp⟩ := h
      rcases List.mem_cons.1 ht with ht | ht
      · subst ht; exact absurd hp ha
      · obtain ⟨t', h1, h2, h3⟩ := ih ⟨t, ht, hp⟩
        exact ⟨t', List.mem_cons_of_mem _ h1, h2, h3⟩

theorem findIn_none {m : List (String × Nat)} {ps : Params} {l : List GTrial} (h : findIn m ps l = none) :
    ∀ t ∈ l, ¬ (t.state = .running ∧ mapped m t.id = false ∧ t.params = ps) := by
  intro t ht hp
  obtain ⟨t', _, h2, _⟩ := findIn_spec (l := l) ⟨t, ht, hp⟩
  rw [h] at h2; cases h2

theorem eq_of_nodup_ids {ts : List GTrial} (h : (ts.map (·.id)).Nodup) {a b : GTrial} (ha : a ∈ ts) (hb : b ∈ ts) (e : a.id = b.id) : a = b := by
  induction ts with
  | nil => simp at ha
  | cons c r ih =>
    simp only [List.map_cons, List.nodup_cons] at h
    rcases List.mem_cons.1 ha with ha' | ha' <;> rcases List.mem_cons.1 hb with hb' | hb'
    · rw [ha', hb']
    · subst ha'; exact absurd (List.mem_map.2 ⟨b, hb', e.symm⟩ : a.id ∈ r.map (·.id)) h.1
    · subst hb'; exact absurd (List.mem_map.2 ⟨a, ha', e⟩ : b.id ∈ r.map (·.id)) h.1
    · exact ih h.2 ha' hb'

def swapId (a b j : Nat) : Nat := if j = a then b else if j = b then a else j

theorem swapId_inj (a b : Nat) {x y : Nat} (h : swapId a b x = swapId a b y) : x = y := by
  unfold swapId at h
  by_cases hxa : x = a <;> by_cases hxb : x = b <;> by_cases hya : y = a <;> by_cases hyb : y = b <;> simp_all <;> omega

theorem swapId_left (a b : Nat) : swapId a b a = b := by simp [swapId]
theorem swapId_other {a b j : Nat} (h1 : j ≠ a) (h2 : j ≠ b) : swapId a b j = j := by simp [swapId, h1, h2]

end Katib.Gop

namespace Katib.Gop

/-- the bookkeeping invariant, relative to a ghost origin `o` (which Goptuna trial each Katib trial stands for) -/
structure Inv (s : Svc) (o : String → Option Nat) : Prop where
  ids : s.trials.map (·.id) = List.range s.trials.length
  keys : (s.mapping.map (·.1)).Nodup
  sub : ∀ n id, mapOf s.mapping n = some id → o n = some id
  inj : ∀ n n' id, o n = some id → o n' = some id → n = n'
  bound : ∀ n id, o n = some id → id < s.trials.length
  run : ∀ t ∈ s.trials, mapped s.mapping t.id = false → t.state = .running

/-- the Katib trial stands for a Goptuna trial with the same external parameters -/
def ValidK (s : Svc) (o : String → Option Nat) (k : KTrial) : Prop := ∃ id, o k.name = some id ∧ P s.trials id = some k.params

theorem exists_of_bound {s : Svc} (hids : s.trials.map (·.id) = List.range s.trials.length) {id : Nat} (h : id < s.trials.length) :
    ∃ t ∈ s.trials, t.id = id := by
  have : id ∈ s.trials.map (·.id) := by rw [hids]; exact List.mem_range.2 h
  obtain ⟨t, ht, e⟩ := List.mem_map.1 this
  exact ⟨t, ht, e⟩

theorem unmapped_of_origin {s : Svc} {o : String → Option Nat} (inv : Inv s o) {n : String} {id : Nat}
    (hn : mapOf s.mapping n = none) (ho : o n = some id) : mapped s.mapping id = false := by
  cases hm : mapped s.mapping id with
  | false => rfl
  | true =>
    obtain ⟨n', h'⟩ := (mapped_iff inv.keys id).1 hm
    have := inv.inj n n' id ho (inv.sub n' id h')
    subst this
    rw [hn] at h'; cases h'

/-- one step of `syncTrials` on a Katib trial that stands for one of the service's own trials: it succeeds, the invariant
    holds for a ghost origin that differs by a swap of two ids with equal parameters, ids and parameters are untouched. -/
theorem syncOne_ok {s : Svc} {o : String → Option Nat} (inv : Inv s o) (k : KTrial) (hv : ValidK s o k) :
    ∃ s' a b, syncOne s k = .ok s' ∧ P s.trials a = P s.trials b ∧ (a < s.trials.length ∧ b < s.trials.length) ∧
      Inv s' (fun n => (o n).map (swapId a b)) ∧
      (∀ j, P s'.trials j = P s.trials j) ∧ s'.trials.length = s.trials.length := by
  obtain ⟨id, ho, hp⟩ := hv
  have hlt := inv.bound _ _ ho
  unfold syncOne
  cases hm : mapOf s.mapping k.name with
  | some idm =>
    -- already mapped: the mapping agrees with the origin
    have hidm : o k.name = some idm := inv.sub _ _ hm
    have : idm = id := by rw [ho] at hidm; cases hidm; rfl
    subst this
    obtain ⟨t, ht, hid⟩ := exists_of_bound inv.ids hlt
    obtain ⟨g, hg, hgid, hgmem⟩ := getTrial_some_of_mem ht
    rw [hid] at hg
    simp only [hg]
    have hmapped : mapped s.mapping idm = true := (mapped_iff inv.keys idm).2 ⟨_, hm⟩
    have hswap : (fun n => (o n).map (swapId idm idm)) = o := by
      funext n; cases o n with
      | none => rfl
      | some j => by_cases hj : j = idm <;> simp [swapId, hj]
    by_cases hf : g.state.finished = true
    · simp only [hf, if_true]
      exact ⟨s, idm, idm, rfl, rfl, ⟨hlt, hlt⟩, by rw [hswap]; exact inv, fun _ => rfl, rfl⟩
    · simp only [hf, if_false]
      by_cases he : toG k.state = g.state
      · simp only [he, if_true]
        exact ⟨s, idm, idm, rfl, rfl, ⟨hlt, hlt⟩, by rw [hswap]; exact inv, fun _ => rfl, rfl⟩
      · simp only [he, if_false]
        refine ⟨_, idm, idm, rfl, rfl, ⟨hlt, hlt⟩, ?_, fun j => P_setState _ _ _ j, setState_length _ _ _⟩
        rw [hswap]
        refine ⟨?_, inv.keys, inv.sub, inv.inj, ?_, ?_⟩
        · simp only [setState_ids, setState_length]; exact inv.ids
        · intro n j h; simp only [setState_length]; exact inv.bound n j h
        · intro t' ht' hun
          obtain ⟨t0, h0, hid0, hsame⟩ := mem_setState ht'
          by_cases hc : t0.id = idm
          · rw [← hid0, hc, hmapped] at hun; cases hun
          · rw [hsame hc]; rw [hsame hc] at hun; exact inv.run t0 h0 hun
  | none =>
    -- not mapped yet: the origin is a running, unmapped trial with these parameters, so the scan finds one
    have hun : mapped s.mapping id = false := unmapped_of_origin inv hm ho
    obtain ⟨t, ht, hid⟩ := exists_of_bound inv.ids hlt
    obtain ⟨g0, hg0, hg0id, hg0mem⟩ := getTrial_some_of_mem ht
    rw [hid] at hg0 hg0id
    have hg0p : g0.params = k.params := by
      unfold P at hp; rw [hg0] at hp; simpa using hp
    have hg0run : g0.state = .running := inv.run g0 hg0mem (by rw [hg0id]; exact hun)
    obtain ⟨f, hfmem, hfind, hfrun, hfun, hfp⟩ := findIn_spec (m := s.mapping) (ps := k.params) (l := s.trials.reverse)
      ⟨g0, List.mem_reverse.2 hg0mem, hg0run, by rw [hg0id]; exact hun, hg0p⟩
    have hfmem' : f ∈ s.trials := List.mem_reverse.1 hfmem
    simp only [findId, hfind]
    -- the trial the storage returns for the found id
    obtain ⟨g, hg, hgid, hgmem⟩ := getTrial_some_of_mem hfmem'
    simp only [hg]
    have hflt : f.id < s.trials.length := by
      have : f.id ∈ s.trials.map (·.id) := List.mem_map.2 ⟨f, hfmem', rfl⟩
      rw [inv.ids] at this; exact List.mem_range.1 this
    -- the two ids have equal parameters: the swap preserves P.  (P reads the first trial with the id.)
    have hPf : P s.trials f.id = some k.params := by
      unfold P; rw [hg]
      -- g is the first trial with f's id; ids are unique so g = f
      have hnd : (s.trials.map (·.id)).Nodup := by rw [inv.ids]; exact List.nodup_range
      have : g = f := by
        by_cases hgf : g = f
        · exact hgf
        · exfalso
          exact hgf (eq_of_nodup_ids hnd hgmem hfmem' hgid)
      rw [this]; simp [hfp]
    have hPeq : P s.trials id = P s.trials f.id := by rw [hp, hPf]
    let o' : String → Option Nat := fun n => (o n).map (swapId id f.id)
    -- the invariant for the extended mapping (before any state update)
    have hkeys' : (((k.name, f.id) :: s.mapping).map (·.1)).Nodup := by
      simp only [List.map_cons, List.nodup_cons]
      exact ⟨mapOf_none_not_key hm, inv.keys⟩
    have hsub' : ∀ n j, mapOf ((k.name, f.id) :: s.mapping) n = some j → o' n = some j := by
      intro n j h
      simp only [mapOf] at h
      split at h
      · rename_i hkn; cases h; subst hkn
        show (o k.name).map (swapId id f.id) = some f.id
        rw [ho]; simp [swapId_left]
      · have hoj := inv.sub n j h
        have hjm : mapped s.mapping j = true := (mapped_iff inv.keys j).2 ⟨n, h⟩
        show (o n).map (swapId id f.id) = some j
        rw [hoj]
        have h1 : j ≠ id := by intro e; rw [e, hun] at hjm; cases hjm
        have h2 : j ≠ f.id := by intro e; rw [e, hfun] at hjm; cases hjm
        simp [swapId_other h1 h2]
    have hinj' : ∀ n n' j, o' n = some j → o' n' = some j → n = n' := by
      intro n n' j h1 h2
      simp only [o'] at h1 h2
      cases hon : o n with
      | none => rw [hon] at h1; cases h1
      | some x =>
        cases hon' : o n' with
        | none => rw [hon'] at h2; cases h2
        | some y =>
          rw [hon] at h1; rw [hon'] at h2
          simp only [Option.map_some, Option.some.injEq] at h1 h2
          have : x = y := swapId_inj id f.id (h1.trans h2.symm)
          subst this
          exact inv.inj n n' x hon hon'
    have hbound' : ∀ n j, o' n = some j → j < s.trials.length := by
      intro n j h
      simp only [o'] at h
      cases hon : o n with
      | none => rw [hon] at h; cases h
      | some x =>
        rw [hon] at h
        simp only [Option.map_some, Option.some.injEq] at h
        have hx := inv.bound n x hon
        unfold swapId at h
        split at h
        · omega
        · split at h <;> omega
    have hmapped_new : mapped ((k.name, f.id) :: s.mapping) f.id = true := by simp [mapped]
    have hun_mono : ∀ j, mapped ((k.name, f.id) :: s.mapping) j = false → mapped s.mapping j = false := by
      intro j h
      simp only [mapped, List.any_cons, Bool.or_eq_false_iff] at h
      exact h.2
    have hgf : g.id = f.id := hgid
    by_cases hf : g.state.finished = true
    · simp only [hf, if_true]
      refine ⟨_, id, f.id, rfl, hPeq, ⟨hlt, hflt⟩, ⟨inv.ids, hkeys', hsub', hinj', hbound', ?_⟩, fun _ => rfl, rfl⟩
      intro t' ht' hun'
      exact inv.run t' ht' (hun_mono _ hun')
    · simp only [hf, if_false]
      by_cases he : toG k.state = g.state
      · simp only [he, if_true]
        refine ⟨_, id, f.id, rfl, hPeq, ⟨hlt, hflt⟩, ⟨inv.ids, hkeys', hsub', hinj', hbound', ?_⟩, fun _ => rfl, rfl⟩
        intro t' ht' hun'
        exact inv.run t' ht' (hun_mono _ hun')
      · simp only [he, if_false]
        refine ⟨_, id, f.id, rfl, hPeq, ⟨hlt, hflt⟩, ⟨?_, hkeys', hsub', hinj', ?_, ?_⟩, fun j => P_setState _ _ _ j, setState_length _ _ _⟩
        · simp only [setState_ids, setState_length]; exact inv.ids
        · intro n j h; simp only [setState_length]; exact hbound' n j h
        · intro t' ht' hun'
          obtain ⟨t0, h0, hid0, hsame⟩ := mem_setState ht'
          by_cases hc : t0.id = f.id
          · rw [← hid0, hc, hmapped_new] at hun'; cases hun'
          · rw [hsame hc]; rw [hsame hc] at hun'; exact inv.run t0 h0 (hun_mono _ hun')

end Katib.Gop
