import Katib.Model.Metrics
/-! Helper lemmas for C11 (per-record invariants, decomposition of the map loop). -/
namespace Katib.Metrics

theorem updMinMax_name (m : Metric) (e : Entry) : (updMinMax m e).name = m.name := by
  unfold updMinMax
  split
  · rfl
  · split
    · split
      · rfl
      · split <;> rfl
    · rfl

theorem updLatest_name (m : Metric) (e : Entry) (t : Int) : (updLatest m e t).name = m.name := by
  unfold updLatest
  split
  · split <;> rfl
  · rfl

theorem updMetric_name {m m' : Metric} {e : Entry} (h : updMetric m e = some m') : m'.name = m.name := by
  unfold updMetric at h
  split at h
  · cases h
  · cases h; rw [updLatest_name, updMinMax_name]

theorem runOne_name {m r : Metric} {l : List Entry} (h : runOne m l = some r) : r.name = m.name := by
  induction l generalizing m with
  | nil => simp [runOne] at h; rw [h]
  | cons e es ih =>
    simp only [runOne] at h
    split at h
    · rename_i m' hm
      rw [ih h, updMetric_name hm]
    · cases h

/-! ### optMap -/

theorem optMap_congr {α β : Type} {f g : α → Option β} {l : List α} (h : ∀ a ∈ l, f a = g a) :
    optMap f l = optMap g l := by
  induction l with
  | nil => rfl
  | cons a l ih =>
    simp only [optMap]
    rw [h a (by simp), ih (fun b hb => h b (by simp [hb]))]

theorem optMap_bind {α β γ : Type} (f : α → Option β) (g : β → Option γ) (l : List α) :
    (optMap f l).bind (optMap g) = optMap (fun a => (f a).bind g) l := by
  induction l with
  | nil => rfl
  | cons a l ih =>
    simp only [optMap]
    cases hf : f a with
    | none => simp
    | some b =>
      cases hl : optMap f l with
      | none =>
        rw [hl] at ih
        simp only [Option.bind_none, Option.bind_some] at ih ⊢
        rw [← ih]
        cases g b <;> rfl
      | some r =>
        rw [hl] at ih
        simp only [Option.bind_some] at ih ⊢
        simp only [optMap]
        rw [ih]

theorem optMap_some_mem {α β : Type} {f : α → Option β} {l : List α} {r : List β}
    (h : optMap f l = some r) : ∀ b, b ∈ r ↔ ∃ a ∈ l, f a = some b := by
  induction l generalizing r with
  | nil => simp [optMap] at h; subst h; simp
  | cons a l ih =>
    simp only [optMap] at h
    split at h
    · rename_i b0 r0 hb hr
      cases h
      intro b
      simp only [List.mem_cons, ih hr b]
      constructor
      · rintro (h | ⟨a', ha', hfa⟩)
        · exact ⟨a, Or.inl rfl, h ▸ hb⟩
        · exact ⟨a', Or.inr ha', hfa⟩
      · rintro ⟨a', (h | h), hfa⟩
        · subst h; rw [hb] at hfa; cases hfa; exact Or.inl rfl
        · exact Or.inr ⟨a', h, hfa⟩
    · cases h

theorem optMap_none_iff {α β : Type} {f : α → Option β} {l : List α} :
    optMap f l = none ↔ ∃ a ∈ l, f a = none := by
  induction l with
  | nil => simp [optMap]
  | cons a l ih =>
    simp only [optMap]
    cases hf : f a with
    | none => simp [hf]
    | some b =>
      cases hl : optMap f l with
      | none =>
        obtain ⟨a', ha', h'⟩ := ih.mp hl
        simp only [true_iff]
        exact ⟨a', by simp [ha'], h'⟩
      | some r =>
        simp only [List.mem_cons, false_iff, reduceCtorEq]
        rintro ⟨a', (h | h), h'⟩
        · subst h; rw [hf] at h'; cases h'
        · have := ih.mpr ⟨a', h, h'⟩; rw [hl] at this; cases this

theorem optMap_map_fst {α β : Type} {f : α → Option β} {l : List α} {r : List β} {γ : Type}
    (p : α → γ) (q : β → γ) (hpq : ∀ a b, f a = some b → q b = p a)
    (h : optMap f l = some r) : r.map q = l.map p := by
  induction l generalizing r with
  | nil => simp [optMap] at h; subst h; rfl
  | cons a l ih =>
    simp only [optMap] at h
    split at h
    · rename_i b0 r0 hb hr
      cases h
      simp only [List.map_cons, hpq a b0 hb, ih hr]
    · cases h

/-! ### decomposition of the loop into independent per-metric runs -/

def own (n : String) (es : List Entry) : List Entry := es.filter (fun e => e.metric = n)

theorem run_eq_optMap (ms : List Metric) (es : List Entry) :
    run ms es = optMap (fun m => runOne m (own m.name es)) ms := by
  induction es generalizing ms with
  | nil =>
    simp only [run, own, List.filter_nil, runOne]
    induction ms with
    | nil => rfl
    | cons m ms ih => simp only [optMap, ← ih]
  | cons e es ih =>
    have hstep : run ms (e :: es) = (stepEntry ms e).bind (fun ms' => run ms' es) := by
      simp only [run]; cases stepEntry ms e <;> rfl
    rw [hstep]
    have : (fun ms' => run ms' es) = optMap (fun m => runOne m (own m.name es)) := by
      funext ms'; exact ih ms'
    rw [this]
    unfold stepEntry
    rw [optMap_bind]
    apply optMap_congr
    intro m _
    unfold stepOne own
    by_cases hn : m.name = e.metric
    · simp only [hn, if_true, List.filter_cons, decide_true, runOne]
      cases hu : updMetric m e with
      | none => rfl
      | some m' =>
        simp only [Option.bind_some]
        rw [updMetric_name hu, hn]
    · have hn' : ¬ e.metric = m.name := fun h => hn h.symm
      simp only [hn, if_false, Option.bind_some, List.filter_cons, hn', decide_false]
      rfl

end Katib.Metrics

namespace Katib.Metrics

/-! ### per-record invariant: what the record says about the entries processed so far -/

/-- `x` is the text of the first entry of `p` whose key is extremal w.r.t. `lt` (strictly better than all
    earlier keyed entries, at least as good as all later ones). -/
def FirstExt (lt : Int → Int → Prop) (p : List Entry) (x : String) (k : Int) : Prop :=
  ∃ pre e post, p = pre ++ e :: post ∧ e.key = some k ∧ e.text = x ∧
    (∀ e' ∈ pre, ∀ k', e'.key = some k' → lt k k') ∧
    (∀ e' ∈ post, ∀ k', e'.key = some k' → ¬ lt k' k)

/-- `x` is the text of the last entry of `p` carrying the greatest timestamp. -/
def LastLatest (p : List Entry) (x : String) (t : Int) : Prop :=
  ∃ pre e post, p = pre ++ e :: post ∧ e.ts = some t ∧ e.text = x ∧
    (∀ e' ∈ pre, ∀ t', e'.ts = some t' → t' ≤ t) ∧
    (∀ e' ∈ post, ∀ t', e'.ts = some t' → t' < t)

structure MMInv (p : List Entry) (m : Metric) : Prop where
  keyed : m.minK.isSome = m.maxK.isSome
  none_min : m.minK = none → (∀ e ∈ p, e.key = none) ∧ m.min = unavailable ∧ m.max = unavailable
  some_min : ∀ k, m.minK = some k → FirstExt (· < ·) p m.min k
  some_max : ∀ k, m.maxK = some k → FirstExt (fun a b => b < a) p m.max k
  le : ∀ lo hi, m.minK = some lo → m.maxK = some hi → lo ≤ hi

structure TsInv (p : List Entry) (m : Metric) : Prop where
  none_ts : m.lastTs = none → p = [] ∧ m.latest = unavailable
  some_ts : ∀ t, m.lastTs = some t → LastLatest p m.latest t

theorem mmInv_init (n : String) : MMInv [] (initMetric n) := by
  constructor <;> simp [initMetric]

theorem tsInv_init (n : String) : TsInv [] (initMetric n) := by
  constructor <;> simp [initMetric]

theorem FirstExt.snoc_keep {lt : Int → Int → Prop} {p : List Entry} {x : String} {k : Int} (e : Entry)
    (h : FirstExt lt p x k) (he : ∀ k', e.key = some k' → ¬ lt k' k) : FirstExt lt (p ++ [e]) x k := by
  obtain ⟨pre, e0, post, hp, hk, hx, h1, h2⟩ := h
  refine ⟨pre, e0, post ++ [e], by simp [hp], hk, hx, h1, ?_⟩
  intro e' he' k' hk'
  simp only [List.mem_append, List.mem_singleton] at he'
  cases he' with
  | inl h => exact h2 e' h k' hk'
  | inr h => subst h; exact he k' hk'

theorem FirstExt.snoc_new {lt : Int → Int → Prop} {p : List Entry} (e : Entry) (k : Int) (hk : e.key = some k)
    (h : ∀ e' ∈ p, ∀ k', e'.key = some k' → lt k k') : FirstExt lt (p ++ [e]) e.text k :=
  ⟨p, e, [], by simp, hk, rfl, h, by simp⟩

theorem FirstExt.all_ge {p : List Entry} {x : String} {k : Int} (h : FirstExt (· < ·) p x k) :
    ∀ e' ∈ p, ∀ k', e'.key = some k' → k ≤ k' := by
  obtain ⟨pre, e0, post, hp, hk, _, h1, h2⟩ := h
  intro e' he' k' hk'
  subst hp
  simp only [List.mem_append, List.mem_cons] at he'
  rcases he' with h | h | h
  · exact Int.le_of_lt (h1 e' h k' hk')
  · subst h; rw [hk] at hk'; cases hk'; exact Int.le_refl _
  · exact Int.not_lt.mp (h2 e' h k' hk')

theorem FirstExt.all_le {p : List Entry} {x : String} {k : Int} (h : FirstExt (fun a b => b < a) p x k) :
    ∀ e' ∈ p, ∀ k', e'.key = some k' → k' ≤ k := by
  obtain ⟨pre, e0, post, hp, hk, _, h1, h2⟩ := h
  intro e' he' k' hk'
  subst hp
  simp only [List.mem_append, List.mem_cons] at he'
  rcases he' with h | h | h
  · exact Int.le_of_lt (h1 e' h k' hk')
  · subst h; rw [hk] at hk'; cases hk'; exact Int.le_refl _
  · exact Int.not_lt.mp (h2 e' h k' hk')

theorem LastLatest.all_le {p : List Entry} {x : String} {t : Int} (h : LastLatest p x t) :
    ∀ e' ∈ p, ∀ t', e'.ts = some t' → t' ≤ t := by
  obtain ⟨pre, e0, post, hp, hk, _, h1, h2⟩ := h
  intro e' he' t' ht'
  subst hp
  simp only [List.mem_append, List.mem_cons] at he'
  rcases he' with h | h | h
  · exact h1 e' h t' ht'
  · subst h; rw [hk] at ht'; cases ht'; exact Int.le_refl _
  · exact Int.le_of_lt (h2 e' h t' ht')

end Katib.Metrics

namespace Katib.Metrics

theorem mmInv_step {p : List Entry} {m : Metric} (e : Entry) (h : MMInv p m) :
    MMInv (p ++ [e]) (updMinMax m e) := by
  unfold updMinMax
  cases hk : e.key with
  | none =>
    simp only []
    refine ⟨h.keyed, ?_, ?_, ?_, h.le⟩
    · intro hn
      obtain ⟨h1, h2, h3⟩ := h.none_min hn
      refine ⟨?_, h2, h3⟩
      intro e' he'
      simp only [List.mem_append, List.mem_singleton] at he'
      cases he' with
      | inl h' => exact h1 e' h'
      | inr h' => subst h'; exact hk
    · intro k hmk
      exact (h.some_min k hmk).snoc_keep e (by intro k' hk'; rw [hk] at hk'; cases hk')
    · intro k hmk
      exact (h.some_max k hmk).snoc_keep e (by intro k' hk'; rw [hk] at hk'; cases hk')
  | some k =>
    simp only []
    split
    · rename_i lo hi hlo hhi
      have hle := h.le lo hi hlo hhi
      have hmin := h.some_min lo hlo
      have hmax := h.some_max hi hhi
      split
      · rename_i hlt
        refine ⟨by simp [hhi], by simp, ?_, ?_, ?_⟩
        · intro k0 hk0
          simp only [Option.some.injEq] at hk0; subst hk0
          apply FirstExt.snoc_new e k hk
          intro e' he' k' hk'
          exact Int.lt_of_lt_of_le hlt (hmin.all_ge e' he' k' hk')
        · intro k0 hk0
          simp only [hhi, Option.some.injEq] at hk0; subst hk0
          exact hmax.snoc_keep e (by intro k' hk'; rw [hk] at hk'; cases hk'; omega)
        · intro lo' hi' h1 h2
          simp only [Option.some.injEq] at h1; simp only [hhi, Option.some.injEq] at h2
          omega
      · rename_i hnlt
        split
        · rename_i hgt
          refine ⟨by simp [hlo], by simp [hlo], ?_, ?_, ?_⟩
          · intro k0 hk0
            simp only [hlo, Option.some.injEq] at hk0; subst hk0
            exact hmin.snoc_keep e (by intro k' hk'; rw [hk] at hk'; cases hk'; omega)
          · intro k0 hk0
            simp only [Option.some.injEq] at hk0; subst hk0
            apply FirstExt.snoc_new e k hk
            intro e' he' k' hk'
            exact Int.lt_of_le_of_lt (hmax.all_le e' he' k' hk') hgt
          · intro lo' hi' h1 h2
            simp only [hlo, Option.some.injEq] at h1; simp only [Option.some.injEq] at h2
            omega
        · rename_i hngt
          refine ⟨h.keyed, by simp [hlo], ?_, ?_, h.le⟩
          · intro k0 hk0
            rw [hlo] at hk0; cases hk0
            exact hmin.snoc_keep e (by intro k' hk'; rw [hk] at hk'; cases hk'; omega)
          · intro k0 hk0
            rw [hhi] at hk0; cases hk0
            exact hmax.snoc_keep e (by intro k' hk'; rw [hk] at hk'; cases hk'; omega)
    · rename_i hnot
      -- not both keys present, hence (by `keyed`) none present: first keyed entry
      have hnone : m.minK = none := by
        cases h1 : m.minK with
        | none => rfl
        | some lo =>
          cases h2 : m.maxK with
          | none => have := h.keyed; simp [h1, h2] at this
          | some hi => exact absurd h2 (hnot lo hi h1)
      obtain ⟨hall, _, _⟩ := h.none_min hnone
      have hnew : ∀ (lt : Int → Int → Prop), FirstExt lt (p ++ [e]) e.text k := by
        intro lt
        apply FirstExt.snoc_new e k hk
        intro e' he' k' hk'
        rw [hall e' he'] at hk'; cases hk'
      refine ⟨rfl, by simp, ?_, ?_, ?_⟩
      · intro k0 hk0; simp only [Option.some.injEq] at hk0; subst hk0; exact hnew _
      · intro k0 hk0; simp only [Option.some.injEq] at hk0; subst hk0; exact hnew _
      · intro lo' hi' h1 h2
        simp only [Option.some.injEq] at h1 h2; omega

theorem tsInv_step {p : List Entry} {m : Metric} (e : Entry) (t : Int) (ht : e.ts = some t) (h : TsInv p m) :
    TsInv (p ++ [e]) (updLatest m e t) := by
  unfold updLatest
  split
  · rename_i l hl
    have hlast := h.some_ts l hl
    split
    · rename_i hlt
      refine ⟨by simp [hl], ?_⟩
      intro t0 ht0
      rw [hl] at ht0; cases ht0
      obtain ⟨pre, e0, post, hp, hk, hx, h1, h2⟩ := hlast
      refine ⟨pre, e0, post ++ [e], by simp [hp], hk, hx, h1, ?_⟩
      intro e' he' t' ht'
      simp only [List.mem_append, List.mem_singleton] at he'
      cases he' with
      | inl h' => exact h2 e' h' t' ht'
      | inr h' => subst h'; rw [ht] at ht'; cases ht'; exact hlt
    · rename_i hnlt
      refine ⟨by simp, ?_⟩
      intro t0 ht0
      simp only [Option.some.injEq] at ht0; subst ht0
      refine ⟨p, e, [], by simp, ht, rfl, ?_, by simp⟩
      intro e' he' t' ht'
      have := hlast.all_le e' he' t' ht'
      omega
  · rename_i hn
    obtain ⟨hp, _⟩ := h.none_ts hn
    subst hp
    refine ⟨by simp, ?_⟩
    intro t0 ht0
    simp only [Option.some.injEq] at ht0; subst ht0
    exact ⟨[], e, [], by simp, ht, rfl, by simp, by simp⟩

theorem updMinMax_ts (m : Metric) (e : Entry) :
    (updMinMax m e).lastTs = m.lastTs ∧ (updMinMax m e).latest = m.latest := by
  unfold updMinMax
  split
  · exact ⟨rfl, rfl⟩
  · split
    · split
      · exact ⟨rfl, rfl⟩
      · split <;> exact ⟨rfl, rfl⟩
    · exact ⟨rfl, rfl⟩

theorem updLatest_mm (m : Metric) (e : Entry) (t : Int) :
    (updLatest m e t).min = m.min ∧ (updLatest m e t).max = m.max ∧
    (updLatest m e t).minK = m.minK ∧ (updLatest m e t).maxK = m.maxK := by
  unfold updLatest
  split
  · split <;> exact ⟨rfl, rfl, rfl, rfl⟩
  · exact ⟨rfl, rfl, rfl, rfl⟩

theorem MMInv.of_eq {p : List Entry} {m m' : Metric} (h : MMInv p m)
    (h1 : m'.min = m.min) (h2 : m'.max = m.max) (h3 : m'.minK = m.minK) (h4 : m'.maxK = m.maxK) : MMInv p m' := by
  constructor
  · rw [h3, h4]; exact h.keyed
  · rw [h3, h1, h2]; exact h.none_min
  · rw [h3, h1]; exact h.some_min
  · rw [h4, h2]; exact h.some_max
  · rw [h3, h4]; exact h.le

theorem TsInv.of_eq {p : List Entry} {m m' : Metric} (h : TsInv p m)
    (h1 : m'.lastTs = m.lastTs) (h2 : m'.latest = m.latest) : TsInv p m' := by
  constructor
  · rw [h1, h2]; exact h.none_ts
  · rw [h1, h2]; exact h.some_ts

theorem inv_step {p : List Entry} {m m' : Metric} {e : Entry} (hu : updMetric m e = some m')
    (h1 : MMInv p m) (h2 : TsInv p m) : MMInv (p ++ [e]) m' ∧ TsInv (p ++ [e]) m' ∧ e.ts ≠ none := by
  unfold updMetric at hu
  split at hu
  · cases hu
  · rename_i t ht
    cases hu
    obtain ⟨a, b, c, d⟩ := updLatest_mm (updMinMax m e) e t
    obtain ⟨a', b'⟩ := updMinMax_ts m e
    refine ⟨(mmInv_step e h1).of_eq a b c d, ?_, by simp [ht]⟩
    apply tsInv_step e t ht
    exact h2.of_eq a' b'

theorem inv_runOne {p l : List Entry} {m r : Metric} (hr : runOne m l = some r)
    (h1 : MMInv p m) (h2 : TsInv p m) : MMInv (p ++ l) r ∧ TsInv (p ++ l) r ∧ ∀ e ∈ l, e.ts ≠ none := by
  induction l generalizing p m with
  | nil => simp only [runOne, Option.some.injEq] at hr; subst hr; simp [h1, h2]
  | cons e es ih =>
    simp only [runOne] at hr
    split at hr
    · rename_i m' hm
      obtain ⟨a, b, c⟩ := inv_step hm h1 h2
      obtain ⟨a', b', c'⟩ := ih hr a b
      simp only [List.append_assoc, List.singleton_append] at a' b'
      refine ⟨a', b', ?_⟩
      intro e' he'
      simp only [List.mem_cons] at he'
      cases he' with
      | inl h => subst h; exact c
      | inr h => exact c' e' h
    · cases hr

theorem runOne_none_iff {l : List Entry} {m : Metric} : runOne m l = none ↔ ∃ e ∈ l, e.ts = none := by
  induction l generalizing m with
  | nil => simp [runOne]
  | cons e es ih =>
    simp only [runOne]
    cases hts : e.ts with
    | none => simp [updMetric, hts]
    | some t =>
      simp only [updMetric, hts, ih, List.mem_cons]
      constructor
      · rintro ⟨e', h, h'⟩; exact ⟨e', Or.inr h, h'⟩
      · rintro ⟨e', (h | h), h'⟩
        · subst h; rw [hts] at h'; cases h'
        · exact ⟨e', h, h'⟩

end Katib.Metrics
