import Katib.Lemmas.BudgetPlans
import Katib.Props.C06
/-!
# World-level invariants for trial verdicts (towards C06 over whole schedules)

`TInv w`: no trial is marked deleted, no trial is both Succeeded and EarlyStopped.
`TPast h c`: every trial of the earlier store still exists, its `resourceVersion` did not decrease, an equal
`resourceVersion` means an identical object, and every condition other than Running that was True is still True.
-/
namespace Katib.Ctl
open Katib Katib.Exp

def TInv (w : World) : Prop :=
  ∀ t ∈ w.trials, t.deleted = false ∧ (tHas t .succeeded = true → tHas t .earlyStopped = false)

def TPast (h c : World) : Prop :=
  ∀ k th, findTrial h k = some th → ∃ tc, findTrial c k = some tc ∧ th.rv ≤ tc.rv ∧ (th.rv = tc.rv → th = tc) ∧
    (th.exp = tc.exp ∧ ∀ ct, ct ≠ TCT.running → tHas th ct = true → tHas tc ct = true)

theorem TPast.refl (w : World) : TPast w w :=
  fun _ th h => ⟨th, h, Nat.le_refl _, fun _ => rfl, rfl, fun _ _ hh => hh⟩

theorem TPast.trans {a b c : World} (h1 : TPast a b) (h2 : TPast b c) : TPast a c := by
  intro k ta ha
  obtain ⟨tb, hb, r1, e1, m1⟩ := h1 k ta ha
  obtain ⟨tc, hc, r2, e2, m2⟩ := h2 k tb hb
  refine ⟨tc, hc, Nat.le_trans r1 r2, ?_, m1.1.trans m2.1, fun ct hne hh => m2.2 ct hne (m1.2 ct hne hh)⟩
  intro e
  have h3 : ta.rv = tb.rv := by omega
  have h4 : tb.rv = tc.rv := by omega
  rw [e1 h3, e2 h4]

theorem findTrial_key {w : World} {k : Key2} {t : TrialO} (h : findTrial w k = some t) : t.key = k := by
  unfold findTrial at h
  simpa using List.find?_some h

theorem findTrial_mem {w : World} {k : Key2} {t : TrialO} (h : findTrial w k = some t) : t ∈ w.trials := by
  unfold findTrial at h
  exact List.mem_of_find?_eq_some h

theorem findTrial_updTrial (w : World) (k k' : Key2) (f : TrialO → TrialO) (hf : ∀ s, (f s).key = s.key) :
    findTrial (updTrial w k' f) k = (findTrial w k).map (fun s => if s.key = k' then f s else s) := by
  unfold findTrial updTrial
  exact find?_map_upd (·.key) w.trials k k' f hf

theorem findTrial_append_none {w : World} {k : Key2} (t : TrialO) (h : findTrial w t.key = none) :
    findTrial { w with trials := w.trials ++ [t] } k = if t.key = k then some t else findTrial w k := by
  unfold findTrial at h ⊢
  simp only [List.find?_append]
  by_cases hk : t.key = k
  · subst hk
    simp [h]
  · simp only [hk, if_false]
    cases hw : List.find? (fun s => decide (s.key = k)) w.trials with
    | some x => simp
    | none => simp [hk]

/-- a store change that leaves the trials alone -/
theorem tframe {w w' : World} (hW : TInv w) (ht : w'.trials = w.trials) : TInv w' ∧ TPast w w' := by
  refine ⟨by unfold TInv; rw [ht]; exact hW, ?_⟩
  intro k th h
  exact ⟨th, by unfold findTrial at h ⊢; rw [ht]; exact h, Nat.le_refl _, fun _ => rfl, rfl, fun _ _ hh => hh⟩

/-- what the plans guarantee about their Trial calls, in terms of the store `hT` the Trial was read from -/
def TJust (hT : World) : Call → Prop
  | .trialStatus k rv st => ∃ tv, findTrial hT k = some tv ∧ rv = tv.rv ∧
      (∀ ct, ct ≠ TCT.running → tHas tv ct = true → Cond.has st.conds ct = true) ∧
      (Cond.has st.conds .succeeded = true → Cond.has st.conds .earlyStopped = true → tHas tv .succeeded = true ∧ tHas tv .earlyStopped = true)
  | .trialCreate t => t.deleted = false ∧ t.st = {}
  | .trialDelete _ => False
  | _ => True

theorem apply_pres_trial {hT w w' : World} {c : Call} (hW : TInv w) (hP : TPast hT w) (hJ : TJust hT c)
    (h : applyCall w c = .ok w') : TInv w' ∧ TPast w w' := by
  cases c with
  | trialCreate t =>
    simp only [applyCall] at h
    split at h
    · cases h
    · rename_i hnone
      cases h
      obtain ⟨hd, hst⟩ := hJ
      refine ⟨?_, ?_⟩
      · intro t' ht'
        rcases List.mem_append.1 ht' with ht' | ht'
        · exact hW t' ht'
        · simp only [List.mem_singleton] at ht'
          subst ht'
          refine ⟨hd, ?_⟩
          intro hs
          unfold tHas at hs; rw [hst] at hs; simp [Cond.has, Cond.get] at hs
      · intro k th hh
        rw [findTrial_append_none t hnone]
        by_cases hk : t.key = k
        · rw [hk] at hnone; rw [hnone] at hh; cases hh
        · simp only [hk, if_false]
          exact ⟨th, hh, Nat.le_refl _, fun _ => rfl, rfl, fun _ _ x => x⟩
  | trialUpdateFin k' rv fin =>
    simp only [applyCall] at h
    split at h
    · cases h
    · rename_i t0 ht0
      split at h
      · cases h
      · split at h
        · rename_i hdel
          exact absurd (hW t0 (findTrial_mem ht0)).1 (by rw [hdel.1]; simp)
        · cases h
          have fs := fun k0 => findTrial_updTrial w k0 k' (fun t => { t with fin := fin, rv := t.rv + 1 }) (fun _ => rfl)
          refine ⟨?_, ?_⟩
          · intro t' ht'
            unfold updTrial at ht'
            obtain ⟨t1, h1, e⟩ := List.mem_map.1 ht'
            subst e
            have := hW t1 h1
            split
            · exact this
            · exact this
          · intro k th hh
            rw [fs, hh]
            refine ⟨_, rfl, ?_⟩
            dsimp only
            split
            · exact ⟨Nat.le_succ _, fun e => absurd e (by simp), rfl, fun _ _ x => x⟩
            · exact ⟨Nat.le_refl _, fun _ => rfl, rfl, fun _ _ x => x⟩
  | trialStatus k' rv st =>
    simp only [applyCall] at h
    split at h
    · cases h
    · rename_i t0 ht0
      split at h
      · cases h
      · rename_i hrv
        cases h
        have hrv' : t0.rv = rv := Classical.not_not.1 hrv
        obtain ⟨tv, htv, hrvv, hkeep, hexcl⟩ := hJ
        obtain ⟨tc, htc, _, hsame, _⟩ := hP k' tv htv
        rw [ht0] at htc; cases htc
        have htv_eq : tv = t0 := hsame (by rw [← hrvv, hrv'])
        subst htv_eq
        have hkey : tv.key = k' := findTrial_key ht0
        have fs := fun k0 => findTrial_updTrial w k0 k' (fun t => { t with st := st, rv := t.rv + 1 }) (fun _ => rfl)
        refine ⟨?_, ?_⟩
        · intro t' ht'
          unfold updTrial at ht'
          obtain ⟨t1, h1, e⟩ := List.mem_map.1 ht'
          subst e
          have h1' := hW t1 h1
          split
          · rename_i hk1
            refine ⟨h1'.1, ?_⟩
            intro hs
            -- the written status: Succeeded and EarlyStopped together only if the trial read had both — excluded
            cases hes : Cond.has st.conds .earlyStopped with
            | false => exact hes
            | true =>
              have hboth := hexcl hs hes
              have := (hW tv (findTrial_mem ht0)).2 hboth.1
              rw [hboth.2] at this; cases this
          · exact h1'
        · intro k th hh
          rw [fs, hh]
          refine ⟨_, rfl, ?_⟩
          dsimp only
          split
          · rename_i hk1
            have hthk : th.key = k := findTrial_key hh
            have hkk : k = k' := hthk.symm.trans hk1
            subst hkk
            rw [ht0] at hh; cases hh
            exact ⟨Nat.le_succ _, fun e => absurd e (by simp), rfl, fun ct hne hx => hkeep ct hne hx⟩
          · exact ⟨Nat.le_refl _, fun _ => rfl, rfl, fun _ _ x => x⟩
  | trialDelete k' => exact absurd hJ id
  | expUpdateFin k' rv fin =>
    simp only [applyCall] at h; split at h
    · cases h
    · split at h <;> cases h; exact tframe hW (by rfl)
  | expStatus k' rv st =>
    simp only [applyCall] at h; split at h
    · cases h
    · split at h <;> cases h; exact tframe hW (by rfl)
  | sugCreate s => simp only [applyCall] at h; split at h <;> cases h; exact tframe hW (by rfl)
  | sugUpdateReq k' rv req =>
    simp only [applyCall] at h; split at h
    · cases h
    · split at h <;> cases h; exact tframe hW (by rfl)
  | sugStatus k' rv st =>
    simp only [applyCall] at h; split at h
    · cases h
    · split at h <;> cases h; exact tframe hW (by rfl)
  | jobCreate k' => simp only [applyCall] at h; split at h <;> cases h; exact tframe hW (by rfl)
  | jobDelete k' => simp only [applyCall] at h; split at h <;> cases h; exact tframe hW (by rfl)
  | deployCreate k' => simp only [applyCall] at h; split at h <;> cases h; exact tframe hW (by rfl)
  | deployDelete k' => simp only [applyCall] at h; split at h <;> cases h; exact tframe hW (by rfl)
  | svcCreate k' =>
    simp only [applyCall, createKey] at h; split at h
    · cases h
    · cases h; exact tframe hW (by rfl)
  | svcDelete k' => simp only [applyCall] at h; split at h <;> cases h; exact tframe hW (by rfl)
  | pvcCreate k' =>
    simp only [applyCall, createKey] at h; split at h
    · cases h
    · cases h; exact tframe hW (by rfl)
  | saCreate k' =>
    simp only [applyCall, createKey] at h; split at h
    · cases h
    · cases h; exact tframe hW (by rfl)
  | roleCreate k' =>
    simp only [applyCall, createKey] at h; split at h
    · cases h
    · cases h; exact tframe hW (by rfl)
  | rbCreate k' =>
    simp only [applyCall, createKey] at h; split at h
    · cases h
    · cases h; exact tframe hW (by rfl)
  | rpcValidate e => simp only [applyCall] at h; cases h; exact tframe hW (by rfl)
  | rpcValidateES => simp only [applyCall] at h; cases h; exact tframe hW (by rfl)
  | rpcGetSuggestions e cur total ts consume ok =>
    simp only [applyCall] at h; split at h <;> cases h; exact tframe hW (by rfl)
  | rpcGetRules e ok => simp only [applyCall] at h; split at h <;> cases h; exact tframe hW (by rfl)
  | dbGet t => simp only [applyCall] at h; cases h; exact tframe hW (by rfl)
  | dbDelete t => simp only [applyCall] at h; cases h; exact tframe hW (by rfl)
  | dbReport t e => simp only [applyCall] at h; split at h <;> cases h <;> exact tframe hW (by rfl)

theorem exec_verdict {hT w0 : World} (f : Faults) (p : Prog) (hp : p.All (TJust hT)) (hW : TInv w0) (hP : TPast hT w0) :
    TInv (exec f p w0 0 []).w ∧ TPast w0 (exec f p w0 0 []).w := by
  have := exec_preserves (I := fun w => TInv w ∧ TPast w0 w) (P := TJust hT) f
    (by
      intro w c w' hI hc happ
      obtain ⟨h1, h2⟩ := apply_pres_trial hI.1 (TPast.trans hP hI.2) hc happ
      exact ⟨h1, TPast.trans hI.2 h2⟩)
    p w0 0 [] hp ⟨hW, TPast.refl w0⟩
  exact this

/-! ### the plans' Trial calls are justified -/

/-- the trial plan writes only the status of the Trial it read, with the `resourceVersion` it read, never adds
    EarlyStopped, and neither creates nor deletes Trials -/
def TrialWrite (t : TrialO) : Call → Prop
  | .trialStatus k rv st => k = t.key ∧ rv = t.rv ∧ (Cond.has st.conds .earlyStopped = true → Cond.has t.st.conds .earlyStopped = true)
  | .trialCreate _ => False
  | .trialDelete _ => False
  | _ => True

theorem write_finish (t : TrialO) (st : TrialSt) (h : Cond.has st.conds .earlyStopped = true → Cond.has t.st.conds .earlyStopped = true) :
    (trialFinish t st).All (TrialWrite t) := by
  unfold trialFinish; split
  · trivial
  · exact ⟨⟨rfl, rfl, h⟩, trivial, trivial⟩

theorem es_tMark (cs : List TCond) (ty : TCT) (r : String) (now : Nat) (h : TCT.earlyStopped ≠ ty) :
    Cond.has (tMark cs ty r now) .earlyStopped = Cond.has cs .earlyStopped := has_tMark_other cs r now h (by decide)

theorem write_updateCondition (t : TrialO) (st : TrialSt) (js : JobCond) (now : Nat) (hst : st.conds = t.st.conds) :
    (trialUpdateCondition t st js now).All (TrialWrite t) := by
  have keep : (trialFinish t st).All (TrialWrite t) := write_finish t st (by rw [hst]; exact id)
  have mark : ∀ (ty : TCT) (r : String) (c : Option Nat), TCT.earlyStopped ≠ ty →
      (trialFinish t { st with conds := tMark st.conds ty r now, completion := c }).All (TrialWrite t) := by
    intro ty r c hne
    apply write_finish
    show Cond.has (tMark st.conds ty r now) .earlyStopped = true → _
    rw [es_tMark _ _ _ _ hne, hst]; exact id
  unfold trialUpdateCondition
  simp only []
  cases js with
  | succeeded =>
    simp only []
    split
    · split
      · exact mark _ _ _ (by decide)
      · exact keep
    · split
      · split
        · exact ⟨trivial, mark _ _ _ (by decide), trivial⟩
        · exact mark _ _ _ (by decide)
      · exact keep
  | failed =>
    simp only []
    split
    · exact mark _ _ _ (by decide)
    · exact keep
  | running =>
    simp only []
    split
    · apply write_finish
      show Cond.has (Cond.set st.conds .running true rTrialRunning now) .earlyStopped = true → _
      rw [Cond.has_set_other _ (by decide), hst]; exact id
    · exact keep

theorem write_observe (v : World) (t : TrialO) (js : JobCond) (now : Nat) : (trialObserve v t js now).All (TrialWrite t) := by
  have cont : ∀ st : TrialSt, st.conds = t.st.conds →
      (if (js = .succeeded && st.obs.isNone && !t.push) = true then Prog.done .requeueAfter else trialUpdateCondition t st js now).All (TrialWrite t) := by
    intro st hst
    split
    · trivial
    · exact write_updateCondition t st js now hst
  unfold trialObserve
  simp only []
  split
  · split
    · exact ⟨trivial, cont _ rfl, trivial⟩
    · split
      · refine ⟨trivial, ?_, trivial⟩
        exact cont { t.st with obs := some _ } rfl
      · exact ⟨trivial, trivial, trivial⟩
  · exact cont _ rfl

theorem write_afterJob (v : World) (t : TrialO) (state : JobState) (now : Nat) : (trialAfterJob v t state now).All (TrialWrite t) := by
  unfold trialAfterJob
  split
  · exact write_finish t _ id
  · split
    · exact write_finish t _ id
    · exact write_observe v t _ now

theorem trialPlan_write (v : World) (k : Key2) (now : Nat) (t : TrialO) (ht : findTrial v k = some t) : (trialPlan v k now).All (TrialWrite t) := by
  unfold trialPlan
  rw [ht]
  simp only []
  split
  · exact ⟨trivial, trivial, trivial⟩
  · split
    · exact ⟨trivial, ⟨trivial, trivial, trivial⟩, trivial⟩
    · split
      · apply write_finish
        show Cond.has (Cond.set t.st.conds .created true rTrialCreated now) .earlyStopped = true → _
        rw [Cond.has_set_other _ (by decide)]; exact id
      · split
        · split
          · exact write_finish t _ id
          · exact ⟨trivial, write_afterJob v t .running now, trivial⟩
        · split
          · exact ⟨trivial, trivial, trivial⟩
          · exact write_afterJob v t _ now

theorem findTrial_congr {v h : World} (e : v.trials = h.trials) (k : Key2) : findTrial v k = findTrial h k := by
  unfold findTrial; rw [e]

/-- the trial plan, computed from a view whose trials are those of the store `hT` (which satisfies `TInv`) -/
theorem trialPlan_tjust (v hT : World) (k : Key2) (now : Nat) (htr : v.trials = hT.trials) (hI : TInv hT) :
    (trialPlan v k now).All (TJust hT) := by
  cases ht : findTrial v k with
  | none => unfold trialPlan; rw [ht]; trivial
  | some t =>
    have hmem : t ∈ hT.trials := by rw [← htr]; exact findTrial_mem ht
    have hexcl := (hI t hmem).2
    refine (Prog.All.and (trialPlan_write v k now t ht) (C06_verdict_guard v k now t ht hexcl)).mono ?_
    intro c ⟨hw, hg⟩
    cases c with
    | trialStatus k' rv st =>
      obtain ⟨h1, h2, h3⟩ := hw
      obtain ⟨g1, g2, _, _⟩ := hg
      have hkey : t.key = k := findTrial_key ht
      refine ⟨t, by rw [← findTrial_congr htr, h1, hkey]; exact ht, h2, g1, ?_⟩
      intro hs hes
      have htes : tHas t .earlyStopped = true := h3 hes
      cases hts : Cond.has t.st.conds .succeeded with
      | true => exact ⟨hts, htes⟩
      | false =>
        have := (g2 hs hts).2.2.2.2.2
        rw [hes] at this; cases this
    | trialCreate _ => exact absurd hw id
    | trialDelete _ => exact absurd hw id
    | _ => trivial

theorem expPlan_tjust (v hT : World) (k : Key2) (now : Nat) : (expPlan v k now).All (TJust hT) := by
  cases he : findExp v k with
  | none => unfold expPlan; rw [he]; trivial
  | some e =>
    refine (expPlan_guard v k now e he).mono ?_
    intro c hc
    cases c with
    | trialCreate t => obtain ⟨_, _, _, _, h5, _, h7⟩ := hc; exact ⟨h7, h5⟩
    | trialStatus _ _ _ => exact absurd hc id
    | trialDelete _ => exact absurd hc id
    | _ => trivial

theorem sugPlan_tjust (v hT : World) (k : Key2) (env : SugEnv) (now : Nat) : (sugPlan v k env now).All (TJust hT) := by
  cases hs : findSug v k with
  | none => unfold sugPlan; rw [hs]; trivial
  | some s =>
    refine (sugPlan_target v k env now s hs).mono ?_
    intro c hc
    cases c with
    | trialCreate _ => exact absurd hc id
    | trialStatus _ _ _ => exact absurd hc id
    | trialDelete _ => exact absurd hc id
    | _ => trivial

end Katib.Ctl
