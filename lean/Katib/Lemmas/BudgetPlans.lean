import Katib.Lemmas.Budget
import Katib.Lemmas.ExpPlan
import Katib.Lemmas.Summary
import Katib.Props.C01
import Katib.Props.C05
import Katib.Props.C08
/-!
# The three plans only issue calls that are justified by the stores they read (`VJust`)
-/
namespace Katib.Ctl
open Katib Katib.Exp

theorem Prog.All.and {P Q : Call → Prop} : ∀ {p : Prog}, p.All P → p.All Q → p.All (fun c => P c ∧ Q c)
  | .done _, _, _ => trivial
  | .step _ _ _, ⟨a1, a2, a3⟩, ⟨b1, b2, b3⟩ => ⟨⟨a1, b1⟩, Prog.All.and a2 b2, Prog.All.and a3 b3⟩

/-! ### the experiment plan: a generic walk -/

theorem expPlan_all (Q : Call → Prop) (v : World) (k : Key2) (now : Nat)
    (hfin : ∀ k rv b, Q (.expUpdateFin k rv b)) (hss : ∀ k rv st, Q (.sugStatus k rv st))
    (hmain : ∀ e st, findExp v k = some e → (expMain v e st now).All Q) : (expPlan v k now).All Q := by
  unfold expPlan
  cases he : findExp v k with
  | none => trivial
  | some e =>
    simp only []
    split
    · exact ⟨hfin _ _ _, trivial, trivial⟩
    · split
      · exact ⟨hfin _ _ _, trivial, trivial⟩
      · split
        · have cleanupOk : ∀ next : Prog, next.All Q →
              (if e.cfg.resume = Resume.never ∨ e.cfg.resume = Resume.fromVolume then
                match findSug v k with
                | none => next
                | some s =>
                  if (sCompleted s || sRestarting s) = true then next
                  else Prog.step (Call.sugStatus k s.rv { s.st with conds := sugMarkSucceeded s.st.conds rSugExpSucceeded now }) next (Prog.done Res.err)
               else next).All Q := by
            intro next hn
            split
            · split
              · exact hn
              · split
                · exact hn
                · exact ⟨hss _ _ _, hn, trivial⟩
            · exact hn
          split
          · apply cleanupOk
            split
            · split
              · exact hmain e _ he
              · split
                · exact hmain e _ he
                · exact ⟨hss _ _ _, hmain e _ he, trivial⟩
            · exact hmain e _ he
          · split
            · exact cleanupOk _ trivial
            · exact cleanupOk _ (hmain e _ he)
        · exact hmain e _ he

/-! ### the request bound -/

def ReqBound (m : Int) : Call → Prop
  | .sugCreate s => s.requests ≤ m
  | .sugUpdateReq _ _ req => req ≤ m
  | _ => True

theorem cnt_nonneg (c : List Nat) (i : Nat) : 0 ≤ cnt c i := by unfold cnt; exact Int.natCast_nonneg _

theorem completed_nonneg (st : ExpSt) : 0 ≤ completedCount st := by
  unfold completedCount
  have h0 := cnt_nonneg st.counts 0; have h1 := cnt_nonneg st.counts 1; have h2 := cnt_nonneg st.counts 2
  have h3 := cnt_nonneg st.counts 3; have h5 := cnt_nonneg st.counts 5
  omega

theorem active_nonneg (st : ExpSt) : 0 ≤ activeCount st := by
  unfold activeCount
  have h4 := cnt_nonneg st.counts 4; have h6 := cnt_nonneg st.counts 6
  omega

theorem addCount_le (e : ExpO) (st : ExpSt) (m : Int) (hmax : e.maxT = some m) :
    addCount e st ≤ max 0 (m - (completedCount st + activeCount st)) := by
  unfold addCount
  simp only [hmax]
  split <;> split <;> omega

/-- the stored counters of a freshly computed status add up to the number of trials seen -/
theorem counts_total (e : ExpO) (st : ExpSt) (ts : List TrialO) (now : Nat) :
    completedCount (expUpdateStatus e st ts now) + activeCount (expUpdateStatus e st ts now) = (ts.length : Int) := by
  have hcounts : (expUpdateStatus e st ts now).counts =
      countsOfLists (summarise { ty := e.cfg.objType, goal := e.cfg.goal } (ts.map toTrialV)).lists := by
    unfold expUpdateStatus updateStatus
    simp only []
    split <;> rfl
  unfold completedCount activeCount
  rw [hcounts]
  have hp := class_partition (ts.map toTrialV)
  have hl := fun c => C05_lists { ty := e.cfg.objType, goal := e.cfg.goal } (ts.map toTrialV) c
  simp only [allClasses, List.map_cons, List.map_nil, List.sum_cons, List.sum_nil, List.length_map] at hp
  have h0 := hl .killed; have h1 := hl .failed; have h2 := hl .succeeded; have h3 := hl .earlyStopped
  have h4 := hl .running; have h5 := hl .metricsUnavailable; have h6 := hl .pending
  simp only [Lists.get] at h0 h1 h2 h3 h4 h5 h6
  simp only [cnt, countsOfLists, List.getD_cons_zero, List.getD_cons_succ, h0, h1, h2, h3, h4, h5, h6, List.length_map]
  omega

theorem reqbound_expFinish (m : Int) (e : ExpO) (st : ExpSt) : (expFinish e st).All (ReqBound m) := by
  unfold expFinish; split
  · trivial
  · exact ⟨trivial, trivial, trivial⟩

theorem reqbound_expMain (v : World) (e : ExpO) (st : ExpSt) (now : Nat) (m : Int) (hm : 0 ≤ m) (hmax : e.maxT = some m)
    (hts : ((trialsOf v e.key).length : Int) ≤ m) : (expMain v e st now).All (ReqBound m) := by
  unfold expMain
  split
  · exact reqbound_expFinish m e _
  · simp only []
    generalize hst1 : (if (trialsOf v e.key).isEmpty = true then st else expUpdateStatus e st (trialsOf v e.key) now) = st1
    split
    · -- expReconcileTrials
      unfold expReconcileTrials
      split
      · trivial
      · split
        · split
          · -- expCreateTrials with add = addCount e st1
            have hform := C01_requests_formula v e st1 (trialsOf v e.key) (addCount e st1) now
            refine hform.mono ?_
            have hadd := addCount_le e st1 m hmax
            have hies : (0 : Int) ≤ (((trialsOf v e.key).filter (fun t => !obsAvailable t.st && tHas t .earlyStopped)).length : Int) :=
              Int.natCast_nonneg _
            have key : ((trialsOf v e.key).length : Int) + addCount e st1 ≤ m := by
              by_cases hemp : (trialsOf v e.key).isEmpty = true
              · have h0 : (trialsOf v e.key).length = 0 := by
                  have := List.isEmpty_iff.1 hemp; rw [this]; rfl
                have hc := completed_nonneg st1
                have ha := active_nonneg st1
                rw [h0]; simp only [Int.natCast_zero, Int.zero_add] at *; omega
              · rw [if_neg hemp] at hst1
                have ht := counts_total e st (trialsOf v e.key) now
                rw [hst1] at ht
                rw [ht] at hadd
                omega
            intro c hc
            cases c <;> first | trivial | (simp only [ReqFormula] at hc; simp only [ReqBound]; omega)
          · exact reqbound_expFinish m e _
        · exact reqbound_expFinish m e _
    · exact reqbound_expFinish m e _

end Katib.Ctl

namespace Katib.Ctl
open Katib Katib.Exp

theorem Prog.all_of_forall {P : Call → Prop} (h : ∀ c, P c) : ∀ p : Prog, p.All P
  | .done _ => trivial
  | .step c ok fail => ⟨h c, Prog.all_of_forall h ok, Prog.all_of_forall h fail⟩

theorem findSug_congr {v h : World} (e : v.sugs = h.sugs) (k : Key2) : findSug v k = findSug h k := by
  unfold findSug; rw [e]

theorem key2_ext {a b : Key2} (h1 : a.ns = b.ns) (h2 : a.name = b.name) : a = b := by
  cases a; cases b; simp at h1 h2; simp [h1, h2]

/-- the experiment plan, computed from a view whose suggestions are those of the store `hS`, issues only justified calls -/
theorem expPlan_vjust {k : Key2} {m : Int} (hm : 0 ≤ m) (v hS : World) (k' : Key2) (now : Nat)
    (hsugs : v.sugs = hS.sugs) (hexp : ∀ e, findExp v k = some e → e.maxT = some m)
    (hts : ((trialsOf v k).length : Int) ≤ m) : (expPlan v k' now).All (VJust k m hS) := by
  cases he : findExp v k' with
  | none => unfold expPlan; rw [he]; trivial
  | some e =>
    have hkey : e.key = k' := findExp_key he
    have g := expPlan_guard v k' now e he
    have rb : (expPlan v k' now).All (fun c => k' = k → ReqBound m c) := by
      apply expPlan_all
      · intro _ _ _ _; trivial
      · intro _ _ _ _; trivial
      · intro e' st he'
        by_cases hk : k' = k
        · subst hk
          have hk' : e'.key = k' := findExp_key he'
          have := reqbound_expMain v e' st now m hm (hexp e' he') (by rw [hk']; exact hts)
          exact this.mono (fun c hc _ => hc)
        · exact Prog.all_of_forall (fun c h => absurd h hk) _
    refine (Prog.All.and g rb).mono ?_
    intro c ⟨hg, hr⟩
    cases c with
    | sugCreate s =>
      obtain ⟨_, h2, h3, _, _⟩ := hg
      intro hsk
      have hk : k' = k := by rw [← hkey, ← h2]; exact hsk
      exact ⟨by rw [h3], by rw [h3], hr hk⟩
    | sugUpdateReq k'' rv req =>
      obtain ⟨s, _, h2, _, _⟩ := hg
      intro hkk
      exact hr (by rw [← hkey, ← h2]; exact hkk)
    | sugStatus k'' rv st =>
      obtain ⟨s, h1, h2, h3, h4, h5, _⟩ := hg
      intro hkk
      have hek : e.key = k := h2 ▸ hkk
      refine ⟨s, ?_, h3, Or.inl ⟨h4, h5⟩⟩
      rw [← findSug_congr hsugs, ← hek]; exact h1
    | trialCreate t =>
      obtain ⟨h1, h2, ⟨s, h3, h4⟩, _⟩ := hg
      intro hns hexp'
      have hek : e.key = k := key2_ext (h1 ▸ hns) (h2 ▸ hexp')
      refine ⟨s, ?_, h4⟩
      rw [← findSug_congr hsugs, ← hek]; exact h3
    | _ => trivial

/-! ### the suggestion plan -/

/-- the suggestion plan writes only its own Suggestion's status, with the `resourceVersion` it read, and creates neither
    Suggestions nor Trials nor changes `requests` -/
def SugTarget (s : SugO) : Call → Prop
  | .sugStatus k rv _ => k = s.key ∧ rv = s.rv
  | .sugCreate _ => False
  | .sugUpdateReq _ _ _ => False
  | .trialCreate _ => False
  | .trialStatus _ _ _ => False
  | .trialDelete _ => False
  | .trialUpdateFin _ _ _ => False
  | .jobDelete _ => False
  | .jobCreate _ => False
  | _ => True

theorem target_sugFinish (s : SugO) (st : SugSt) : (sugFinish s st).All (SugTarget s) := by
  unfold sugFinish; split
  · trivial
  · exact ⟨⟨rfl, rfl⟩, trivial, trivial⟩

theorem target_sugErr (s : SugO) (st : SugSt) : (sugErr s st).All (SugTarget s) := by
  unfold sugErr; split
  · trivial
  · exact ⟨⟨rfl, rfl⟩, trivial, trivial⟩

theorem target_sugSync (v : World) (s : SugO) (st : SugSt) (ts : List TrialO) (env : SugEnv) : (sugSync v s st ts env).All (SugTarget s) := by
  unfold sugSync
  simp only []
  split
  · exact target_sugFinish s st
  · split
    · exact ⟨trivial, target_sugErr s st, target_sugErr s st⟩
    · refine ⟨trivial, ?_, target_sugErr s st⟩
      unfold sugAfterReply
      split
      · exact target_sugErr s st
      · split
        · exact ⟨trivial, target_sugFinish s _, target_sugErr s st⟩
        · exact target_sugFinish s _

theorem target_sugTail (v : World) (s : SugO) (st1 : SugSt) (env : SugEnv) (now : Nat) : (sugTail v s st1 env now).All (SugTarget s) := by
  unfold sugTail
  split
  · exact target_sugErr s st1
  · simp only []
    split
    · refine ⟨trivial, ?_, target_sugFinish s _⟩
      split
      · exact ⟨trivial, target_sugSync v s _ _ env, target_sugFinish s _⟩
      · exact target_sugSync v s _ _ env
    · exact target_sugSync v s _ _ env

theorem target_sugDeploy (v : World) (s : SugO) (env : SugEnv) (now : Nat) : (sugDeploy v s env now).All (SugTarget s) := by
  unfold sugDeploy
  simp only []
  split
  · exact ⟨trivial, target_sugFinish s _, target_sugErr s _⟩
  · split
    · exact target_sugFinish s _
    · exact target_sugTail v s _ env now

theorem target_sugReconcile (v : World) (s : SugO) (env : SugEnv) (now : Nat) : (sugReconcile v s env now).All (SugTarget s) := by
  have rbac : (sugRbac v s env now).All (SugTarget s) := by
    unfold sugRbac
    simp only []
    split
    · exact all_createIfAbsent _ _ _ _ trivial (all_createIfAbsent _ _ _ _ trivial
        (all_createIfAbsent _ _ _ _ trivial (target_sugDeploy v s env now) (target_sugErr s _)) (target_sugErr s _)) (target_sugErr s _)
    · exact target_sugDeploy v s env now
  unfold sugReconcile
  simp only []
  split
  · exact all_createIfAbsent _ _ _ _ trivial (all_createIfAbsent _ _ _ _ trivial rbac (target_sugErr s _)) (target_sugErr s _)
  · exact all_createIfAbsent _ _ _ _ trivial rbac (target_sugErr s _)

theorem sugPlan_target (v : World) (k : Key2) (env : SugEnv) (now : Nat) (s : SugO) (hs : findSug v k = some s) :
    (sugPlan v k env now).All (SugTarget s) := by
  unfold sugPlan
  rw [hs]
  simp only []
  split
  · split
    · refine ⟨trivial, ?_, trivial⟩
      split
      · exact ⟨trivial, trivial, trivial⟩
      · trivial
    · split
      · exact ⟨trivial, trivial, trivial⟩
      · trivial
  · split
    · exact target_sugFinish s _
    · exact target_sugReconcile v s env now

theorem sugPlan_vjust {k : Key2} {m : Int} (v hS : World) (k' : Key2) (env : SugEnv) (now : Nat) (hsugs : v.sugs = hS.sugs) :
    (sugPlan v k' env now).All (VJust k m hS) := by
  cases hs : findSug v k' with
  | none => unfold sugPlan; rw [hs]; trivial
  | some s =>
    have hkey : s.key = k' := findSug_key hs
    refine (Prog.All.and (sugPlan_target v k' env now s hs) (C08_sync_guard v k' env now s hs)).mono ?_
    intro c ⟨ht, hg⟩
    cases c with
    | sugStatus k'' rv st =>
      obtain ⟨h1, h2⟩ := ht
      intro hkk
      have hk : k' = k := by rw [← hkey, ← h1]; exact hkk
      refine ⟨s, by rw [← findSug_congr hsugs, ← hk]; exact hs, h2, ?_⟩
      rcases hg with hg | ⟨n, e1, e2, _, e4⟩
      · exact Or.inl hg
      · refine Or.inr ⟨_, e1, ?_, ?_⟩
        · rw [length_freshNames]; exact e2
        · rw [e4]
    | sugCreate _ => exact absurd ht id
    | sugUpdateReq _ _ _ => exact absurd ht id
    | trialCreate _ => exact absurd ht id
    | trialStatus _ _ _ => exact absurd ht id
    | trialDelete _ => exact absurd ht id
    | trialUpdateFin _ _ _ => exact absurd ht id
    | jobDelete _ => exact absurd ht id
    | jobCreate _ => exact absurd ht id
    | _ => trivial

/-! ### the trial plan -/

def NoSugCalls : Call → Prop
  | .sugStatus _ _ _ => False
  | .sugCreate _ => False
  | .sugUpdateReq _ _ _ => False
  | .trialCreate _ => False
  | _ => True

theorem nosug_trialFinish (t : TrialO) (st : TrialSt) : (trialFinish t st).All NoSugCalls := by
  unfold trialFinish; split
  · trivial
  · exact ⟨trivial, trivial, trivial⟩

theorem nosug_trialUpdateCondition (t : TrialO) (st : TrialSt) (js : JobCond) (now : Nat) : (trialUpdateCondition t st js now).All NoSugCalls := by
  unfold trialUpdateCondition
  simp only []
  repeat' first
    | exact nosug_trialFinish _ _
    | split
    | (refine ⟨trivial, ?_, ?_⟩)
    | trivial

theorem nosug_trialObserve (v : World) (t : TrialO) (js : JobCond) (now : Nat) : (trialObserve v t js now).All NoSugCalls := by
  unfold trialObserve
  simp only []
  repeat' first
    | exact nosug_trialUpdateCondition _ _ _ _
    | split
    | (refine ⟨trivial, ?_, ?_⟩)
    | trivial

theorem nosug_trialAfterJob (v : World) (t : TrialO) (state : JobState) (now : Nat) : (trialAfterJob v t state now).All NoSugCalls := by
  unfold trialAfterJob
  repeat' first
    | exact nosug_trialFinish _ _
    | exact nosug_trialObserve _ _ _ _
    | split
    | trivial

theorem trialPlan_nosug (v : World) (k : Key2) (now : Nat) : (trialPlan v k now).All NoSugCalls := by
  unfold trialPlan
  repeat' first
    | exact nosug_trialFinish _ _
    | exact nosug_trialAfterJob _ _ _ _
    | split
    | (refine ⟨trivial, ?_, ?_⟩)
    | trivial

theorem trialPlan_vjust {k : Key2} {m : Int} (v hS : World) (k' : Key2) (now : Nat) : (trialPlan v k' now).All (VJust k m hS) := by
  refine (trialPlan_nosug v k' now).mono ?_
  intro c hc
  cases c <;> first | trivial | exact absurd hc id

end Katib.Ctl
