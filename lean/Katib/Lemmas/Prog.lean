import Katib.Model.Sim
import Katib.Lemmas.Cond
/-! Decision-tree predicates: `All` (every call on every path) and path-wise counting. -/
namespace Katib.Ctl
open Katib

/-- `P` holds of every call on every path -/
def Prog.All (P : Call → Prop) : Prog → Prop
  | .done _ => True
  | .step c ok fail => P c ∧ ok.All P ∧ fail.All P

theorem Prog.all_iff (P : Call → Prop) (p : Prog) : p.All P ↔ ∀ c ∈ p.calls, P c := by
  induction p with
  | done r => simp [Prog.All, Prog.calls]
  | step c ok fail ih1 ih2 =>
    simp only [Prog.All, Prog.calls, List.mem_cons, List.mem_append, ih1, ih2]
    constructor
    · rintro ⟨h1, h2, h3⟩ x (rfl | h | h)
      · exact h1
      · exact h2 x h
      · exact h3 x h
    · intro h
      exact ⟨h _ (Or.inl rfl), fun x hx => h x (Or.inr (Or.inl hx)), fun x hx => h x (Or.inr (Or.inr hx))⟩

theorem Prog.All.mono {P Q : Call → Prop} (h : ∀ c, P c → Q c) : ∀ {p : Prog}, p.All P → p.All Q
  | .done _, _ => trivial
  | .step _ _ _, ⟨h1, h2, h3⟩ => ⟨h _ h1, Prog.All.mono h h2, Prog.All.mono h h3⟩

/-- the largest number of calls satisfying `q` on one path -/
def Prog.maxOnPath (q : Call → Bool) : Prog → Nat
  | .done _ => 0
  | .step c ok fail => (if q c then 1 else 0) + max (ok.maxOnPath q) (fail.maxOnPath q)

theorem Prog.maxOnPath_zero_of_all {q : Call → Bool} : ∀ {p : Prog}, p.All (fun c => q c = false) → p.maxOnPath q = 0
  | .done _, _ => rfl
  | .step _ _ _, ⟨h1, h2, h3⟩ => by
    simp only [Prog.maxOnPath, h1, Bool.false_eq_true, if_false, Prog.maxOnPath_zero_of_all h2, Prog.maxOnPath_zero_of_all h3]
    rfl

/-- what the executor did is a path of the tree: every logged call satisfies `P` when the whole tree does, and
    the world only changes through `applyCall` of calls satisfying `P` -/
theorem exec_preserves {I : World → Prop} {P : Call → Prop} (f : Faults)
    (hstep : ∀ w c w', I w → P c → applyCall w c = .ok w' → I w') :
    ∀ (p : Prog) (w : World) (i : Nat) (log : List String), p.All P → I w → I (exec f p w i log).w
  | .done _, _, _, _, _, hi => hi
  | .step c ok fail, w, i, log, ⟨hc, hok, hfail⟩, hi => by
    unfold exec
    split
    · exact exec_preserves f hstep fail w (i + 1) _ hfail hi
    · split
      · rename_i w' hw'
        exact exec_preserves f hstep ok w' (i + 1) _ hok (hstep w c w' hi hc hw')
      · exact exec_preserves f hstep fail w (i + 1) _ hfail hi

end Katib.Ctl
