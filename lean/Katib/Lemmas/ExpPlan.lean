import Katib.Lemmas.Prog
import Katib.Lemmas.ExpStatus
import Katib.Props.C03
/-! Guards for every call of the experiment reconcile's decision tree. -/
namespace Katib.Ctl
open Katib Katib.Exp

/-- what an experiment reconcile may call when the Experiment it read carries a verdict and is not being restarted:
    status rewrites that keep verdict, reason and completion time, and the suggestion clean-up -/
def FrozenGuard (e : ExpO) : Call → Prop
  | .expStatus _ _ st' => st'.conds = e.st.conds ∧ st'.completion = e.st.completion
  | .sugStatus _ _ _ => True
  | _ => False

theorem expUpdateStatus_frozen (e : ExpO) (st : ExpSt) (ts : List TrialO) (now : Nat) (h : isCompleted st.conds = true) :
    (expUpdateStatus e st ts now).conds = st.conds ∧ (expUpdateStatus e st ts now).completion = st.completion := by
  unfold expUpdateStatus
  simp only []
  have := C03_frozen { ty := e.cfg.objType, goal := e.cfg.goal } { maxTrials := e.maxT, maxFailed := e.maxF } (ts.map toTrialV)
    { conds := st.conds, completion := st.completion } now h
  generalize hu : updateStatus _ _ _ _ _ = u at this ⊢
  obtain ⟨l, s⟩ := u
  simp only at this
  subst this
  exact ⟨rfl, rfl⟩

theorem frozen_expFinish (e : ExpO) (st : ExpSt) (h1 : st.conds = e.st.conds) (h2 : st.completion = e.st.completion) :
    (expFinish e st).All (FrozenGuard e) := by
  unfold expFinish; split
  · trivial
  · exact ⟨⟨h1, h2⟩, trivial, trivial⟩

theorem frozen_expMain (v : World) (e : ExpO) (now : Nat) (hc : isCompleted e.st.conds = true)
    (hcr : Cond.has e.st.conds .created = true) : (expMain v e e.st now).All (FrozenGuard e) := by
  unfold expMain
  simp only [hcr, Bool.not_true, Bool.false_eq_true, if_false]
  split
  · simp only [hc, Bool.not_true, Bool.false_eq_true, if_false]
    exact frozen_expFinish e _ rfl rfl
  · obtain ⟨h1, h2⟩ := expUpdateStatus_frozen e e.st (trialsOf v e.key) now hc
    rw [h1, hc]
    simp only [Bool.not_true, Bool.false_eq_true, if_false]
    exact frozen_expFinish e _ h1 h2

/-- with a verdict and no restart, the reconcile creates nothing and leaves verdict, reason and completion time alone -/
theorem expPlan_frozen (v : World) (k : Key2) (now : Nat) (e : ExpO) (he : findExp v k = some e)
    (hfin : e.fin = true) (hdel : e.deleted = false) (hc : isCompleted e.st.conds = true)
    (hcr : Cond.has e.st.conds .created = true) (hr : restartGuard e = false) :
    (expPlan v k now).All (FrozenGuard e) := by
  unfold expPlan
  rw [he]
  simp only [hfin, hdel, hc, hr, Bool.not_true, Bool.and_false, Bool.false_eq_true, if_false, Bool.false_and, if_true]
  have cleanupOk : ∀ next : Prog, next.All (FrozenGuard e) →
      (if e.cfg.resume = Resume.never ∨ e.cfg.resume = Resume.fromVolume then
        match findSug v k with
        | none => next
        | some s =>
          if (sCompleted s || sRestarting s) = true then next
          else Prog.step (Call.sugStatus k s.rv { s.st with conds := sugMarkSucceeded s.st.conds rSugExpSucceeded now }) next (Prog.done Res.err)
       else next).All (FrozenGuard e) := by
    intro next hn
    split
    · split
      · exact hn
      · split
        · exact hn
        · exact ⟨trivial, hn, trivial⟩
    · exact hn
  split
  · exact cleanupOk _ trivial
  · exact cleanupOk _ (frozen_expMain v e now hc hcr)

/-- everything an experiment reconcile may call, in terms of the view -/
def ExpGuard (v : World) (e : ExpO) : Call → Prop
  | .trialCreate t' =>
    t'.key.ns = e.key.ns ∧ t'.exp = e.key.name ∧ (∃ s, findSug v e.key = some s ∧ t'.key.name ∈ s.st.names) ∧
    (∀ t ∈ trialsOf v e.key, t.key.name ≠ t'.key.name) ∧ t'.st = {} ∧ t'.retain = e.cfg.retain ∧ t'.deleted = false
  | .sugCreate s' => findSug v e.key = none ∧ s'.key = e.key ∧ s'.st = {} ∧ s'.resume = e.cfg.resume ∧ s'.es = e.cfg.es
  | .sugUpdateReq k' rv req => ∃ s, findSug v e.key = some s ∧ k' = e.key ∧ rv = s.rv ∧ req ≠ s.requests
  | .sugStatus k' rv st' =>
    ∃ s, findSug v e.key = some s ∧ k' = e.key ∧ rv = s.rv ∧ st'.names = s.st.names ∧ st'.count = s.st.count ∧
      isCompleted e.st.conds = true
  | .expStatus k' rv st' => k' = e.key ∧ rv = e.rv ∧ st' ≠ e.st
  | .expUpdateFin k' rv _ => k' = e.key ∧ rv = e.rv
  | _ => False

theorem guard_expFinish (v : World) (e : ExpO) (st : ExpSt) : (expFinish e st).All (ExpGuard v e) := by
  unfold expFinish; split
  · trivial
  · rename_i h; exact ⟨⟨rfl, rfl, h⟩, trivial, trivial⟩

theorem guard_creates (v : World) (e : ExpO) (l : List String) (k : Prog) (hk : k.All (ExpGuard v e))
    (hl : ∀ a ∈ l, (∃ s, findSug v e.key = some s ∧ a ∈ s.st.names) ∧ ∀ t ∈ trialsOf v e.key, t.key.name ≠ a) :
    (l.foldr (fun a k => Prog.step (.trialCreate (mkTrial e a)) k k) k).All (ExpGuard v e) := by
  induction l with
  | nil => exact hk
  | cons a l ih =>
    have ih' := ih (fun x hx => hl x (by simp [hx]))
    obtain ⟨h1, h2⟩ := hl a (by simp)
    exact ⟨⟨rfl, rfl, h1, h2, rfl, rfl, rfl⟩, ih', ih'⟩

theorem guard_expCreateTrials (v : World) (e : ExpO) (st : ExpSt) (add : Int) (now : Nat) :
    (expCreateTrials v e st (trialsOf v e.key) add now).All (ExpGuard v e) := by
  unfold expCreateTrials
  simp only []
  split
  · rename_i hs
    exact ⟨⟨hs, rfl, rfl, rfl, rfl⟩, guard_expFinish v e st, trivial⟩
  · rename_i s hs
    split
    · exact guard_expFinish v e _
    · have creates : ((if (s.st.names.length : Int) > ((trialsOf v e.key).length : Nat)
          then s.st.names.filter (fun n => !((trialsOf v e.key).any (fun t => t.key.name = n))) else []).foldr
          (fun a k => Prog.step (.trialCreate (mkTrial e a)) k k) (expFinish e st)).All (ExpGuard v e) := by
        apply guard_creates v e _ _ (guard_expFinish v e st)
        intro a ha
        split at ha
        · obtain ⟨h1, h2⟩ := List.mem_filter.mp ha
          refine ⟨⟨s, hs, h1⟩, ?_⟩
          intro t ht hn
          simp only [Bool.not_eq_true', List.any_eq_false, decide_eq_true_eq] at h2
          exact h2 t ht hn
        · cases ha
      split
      · rename_i hreq
        exact ⟨⟨s, hs, rfl, rfl, fun h => hreq h.symm⟩, creates, trivial⟩
      · exact creates

theorem guard_expReconcileTrials (v : World) (e : ExpO) (st : ExpSt) (now : Nat) :
    (expReconcileTrials v e st (trialsOf v e.key) now).All (ExpGuard v e) := by
  unfold expReconcileTrials
  split
  · trivial
  · split
    · split
      · exact guard_expCreateTrials v e _ _ now
      · exact guard_expFinish v e _
    · exact guard_expFinish v e _

theorem guard_expMain (v : World) (e : ExpO) (st : ExpSt) (now : Nat) : (expMain v e st now).All (ExpGuard v e) := by
  unfold expMain
  split
  · exact guard_expFinish v e _
  · simp only []
    generalize (if (trialsOf v e.key).isEmpty = true then st else expUpdateStatus e st (trialsOf v e.key) now) = st1
    split
    · exact guard_expReconcileTrials v e st1 now
    · exact guard_expFinish v e _

theorem expPlan_guard (v : World) (k : Key2) (now : Nat) (e : ExpO) (he : findExp v k = some e) :
    (expPlan v k now).All (ExpGuard v e) := by
  have hk : e.key = k := by
    unfold findExp at he
    have := List.find?_some he
    simpa using this
  subst hk
  unfold expPlan
  rw [he]
  simp only []
  split
  · exact ⟨⟨rfl, rfl⟩, trivial, trivial⟩
  · split
    · exact ⟨⟨rfl, rfl⟩, trivial, trivial⟩
    · split
      · rename_i hc
        have cleanupOk : ∀ next : Prog, next.All (ExpGuard v e) →
            (if e.cfg.resume = Resume.never ∨ e.cfg.resume = Resume.fromVolume then
              match findSug v e.key with
              | none => next
              | some s =>
                if (sCompleted s || sRestarting s) = true then next
                else Prog.step (Call.sugStatus e.key s.rv { s.st with conds := sugMarkSucceeded s.st.conds rSugExpSucceeded now }) next (Prog.done Res.err)
             else next).All (ExpGuard v e) := by
          intro next hn
          split
          · split
            · exact hn
            · rename_i s hs
              split
              · exact hn
              · exact ⟨⟨s, hs, rfl, rfl, rfl, rfl, hc⟩, hn, trivial⟩
          · exact hn
        split
        · apply cleanupOk
          split
          · split
            · exact guard_expMain v e _ now
            · rename_i s hs
              split
              · exact guard_expMain v e _ now
              · exact ⟨⟨s, hs, rfl, rfl, rfl, rfl, hc⟩, guard_expMain v e _ now, trivial⟩
          · exact guard_expMain v e _ now
        · split
          · exact cleanupOk _ trivial
          · exact cleanupOk _ (guard_expMain v e _ now)
      · exact guard_expMain v e _ now

end Katib.Ctl
