import Katib.Model.Template
/-! String lemmas for C02: `replaceAll` of a placeholder on a rendered template (ported from the design prototype). -/
namespace Katib.Tpl

/-- skipping: after a match of length `k+1` the next `k` characters are dropped -/
theorem replaceAux_skip (pat rep : List Char) (k : Nat) (a b : List Char) (h : a.length = k) :
    replaceAux pat rep k (a ++ b) = replaceAux pat rep 0 b := by
  induction a generalizing k with
  | nil => simp at h; subst h; rfl
  | cons c a ih =>
    cases k with
    | zero => simp at h
    | succ k => simp at h; simp [replaceAux, ih k h]

theorem replaceAux_dollarFree (p' rep : List Char) (a b : List Char) (h : DollarFree a) :
    replaceAux ('$' :: p') rep 0 (a ++ b) = a ++ replaceAux ('$' :: p') rep 0 b := by
  induction a with
  | nil => rfl
  | cons c a ih =>
    have hc : c ≠ '$' := by intro e; apply h; simp [e]
    have ha : DollarFree a := by intro e; apply h; simp [e]
    have hnp : ('$' :: p').isPrefixOf (c :: (a ++ b)) = false := by
      simp [List.isPrefixOf]; intro e; exact absurd e.symm hc
    simp [replaceAux, hnp, ih ha]

theorem preTail_dollarFree : '$' ∉ preTail := by decide

theorem name_eq_of_prefix (n m rest : List Char) (hn : '}' ∉ n) (hm : '}' ∉ m)
    (h : (n ++ ['}']) <+: (m ++ ['}'] ++ rest)) : n = m := by
  induction n generalizing m with
  | nil =>
    cases m with
    | nil => rfl
    | cons d m =>
      obtain ⟨t, ht⟩ := h
      simp at ht
      exact absurd ht.1 (by intro e; apply hm; simp [← e])
  | cons c n ih =>
    cases m with
    | nil =>
      obtain ⟨t, ht⟩ := h
      simp at ht
      exact absurd ht.1 (by intro e; apply hn; simp [e])
    | cons d m =>
      obtain ⟨t, ht⟩ := h
      simp at ht
      obtain ⟨hcd, ht⟩ := ht
      subst hcd
      have := ih m (by intro e; apply hn; simp [e]) (by intro e; apply hm; simp [e]) ⟨t, by simpa using ht⟩
      rw [this]

theorem ph_prefix_iff (n m rest : List Char) (hn : NameOk n) (hm : NameOk m) :
    (ph n).isPrefixOf (ph m ++ rest) = true → n = m := by
  intro h
  rw [List.isPrefixOf_iff_prefix] at h
  unfold ph at h
  have h' : (n ++ ['}']) <+: (m ++ ['}'] ++ rest) := by
    have : ('$' :: preTail) ++ (n ++ ['}']) <+: ('$' :: preTail) ++ (m ++ ['}'] ++ rest) := by
      simpa [List.append_assoc] using h
    exact (List.prefix_append_right_inj _).mp this
  exact name_eq_of_prefix n m rest hn.2 hm.2 h'

theorem tail_dollarFree (m : List Char) (hm : NameOk m) :
    DollarFree (preTail ++ m ++ ['}']) := by
  intro h
  simp only [List.mem_append, List.mem_singleton] at h
  rcases h with (h | h) | h
  · exact preTail_dollarFree h
  · exact hm.1 h
  · revert h; decide

theorem ph_length (m : List Char) : (ph m).length - 1 = (preTail ++ m ++ ['}']).length := by
  simp [ph]

theorem replace_render (σ : Subst) (n v : List Char) (segs : List Seg)
    (hn : NameOk n) (hσ : σ n = none) (hv : DollarFree v)
    (hok : ∀ sg ∈ segs, SegOk σ sg) :
    replaceAll (ph n) v (render σ segs) = render (σ.insert n v) segs := by
  unfold replaceAll
  induction segs with
  | nil => rfl
  | cons sg r ih =>
    have ihr := ih (fun s hs => hok s (by simp [hs]))
    have hsg := hok sg (by simp)
    cases sg with
    | lit s =>
      simp only [render, renderSeg]
      show replaceAux ('$' :: (preTail ++ n ++ ['}'])) v 0 (s ++ render σ r) = _
      rw [replaceAux_dollarFree _ _ _ _ hsg]
      exact congrArg (s ++ ·) ihr
    | hole m =>
      obtain ⟨hm, hmv⟩ := hsg
      simp only [render, renderSeg]
      by_cases hmn : m = n
      · subst hmn
        have hins : (σ.insert m v) m = some v := by simp [Subst.insert]
        simp only [hσ, hins]
        have hp : (ph m).isPrefixOf ('$' :: (preTail ++ m ++ ['}'] ++ render σ r)) = true := by
          rw [List.isPrefixOf_iff_prefix]
          show ph m <+: ph m ++ render σ r
          exact List.prefix_append _ _
        show replaceAux (ph m) v 0 ('$' :: (preTail ++ m ++ ['}'] ++ render σ r)) = _
        simp only [replaceAux, hp, if_true]
        rw [ph_length, replaceAux_skip _ _ _ _ _ rfl, ihr]
      · have hins : (σ.insert n v) m = σ m := by simp [Subst.insert, hmn]
        simp only [hins]
        cases hσm : σ m with
        | some w =>
          simp only []
          show replaceAux ('$' :: (preTail ++ n ++ ['}'])) v 0 (w ++ render σ r) = _
          rw [replaceAux_dollarFree _ _ _ _ (hmv w hσm)]
          exact congrArg (w ++ ·) ihr
        | none =>
          simp only []
          have hnp : (ph n).isPrefixOf ('$' :: (preTail ++ m ++ ['}'] ++ render σ r)) = false := by
            cases hb : (ph n).isPrefixOf ('$' :: (preTail ++ m ++ ['}'] ++ render σ r)) with
            | false => rfl
            | true => exact absurd (ph_prefix_iff n m _ hn hm hb).symm hmn
          show replaceAux (ph n) v 0 ('$' :: (preTail ++ m ++ ['}'] ++ render σ r)) = ph m ++ _
          simp only [replaceAux, hnp]
          show _ :: replaceAux ('$' :: (preTail ++ n ++ ['}'])) v 0 (preTail ++ m ++ ['}'] ++ render σ r) = _
          rw [replaceAux_dollarFree _ _ _ _ (tail_dollarFree m hm)]
          exact congrArg (fun x => '$' :: (preTail ++ m ++ ['}'] ++ x)) ihr

end Katib.Tpl
