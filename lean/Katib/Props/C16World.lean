import Katib.Props.C16
import Katib.Props.C07World
import Katib.Lemmas.SugPlan
/-!
# C16 over whole schedules: with resumePolicy LongRunning the algorithm service, once created, is never removed;
# a volume claim is never removed under any policy

`C16_longrunning_service_kept`: for every list of simulator operations (no hypothesis on the schedule: any order of
reconciles, every typed kind read from an arbitrary earlier snapshot, any faults, any environment events, budget edits and
Trial deletions included) and an Experiment created with resumePolicy LongRunning: its Suggestion is never marked Succeeded,
the Suggestion carries the same policy, and the algorithm Deployment and Service, if they existed in any earlier snapshot,
exist now.  `C16_volume_kept`: every PersistentVolumeClaim of any earlier snapshot exists now.
-/
namespace Katib.Ctl
open Katib Katib.Exp

theorem str_append_right_cancel (a b s : String) (h : a ++ s = b ++ s) : a = b := by
  have := congrArg String.toList h
  simp only [String.toList_append] at this
  exact String.toList_inj.1 (List.append_cancel_right this)

theorem infraKey_inj {a b : Key2} (h : infraKey a = infraKey b) : a = b := by
  unfold infraKey at h
  simp only [Key2.mk.injEq] at h
  have h2 := str_append_right_cancel _ _ _ h.2
  cases a; cases b; simp_all

/-- the Experiment `k` is LongRunning, so is its Suggestion, and the Suggestion is not Succeeded -/
def LInv (k : Key2) (w : World) : Prop :=
  (∀ e, findExp w k = some e → e.cfg.resume = .longRunning) ∧
  (∀ s, findSug w k = some s → s.resume = .longRunning ∧ sHas s .succeeded = false)

/-- the algorithm service of `k` and every volume claim survive from `h` to `c` -/
def DPast (k : Key2) (h c : World) : Prop :=
  ((findDeploy h (infraKey k)).isSome = true → (findDeploy c (infraKey k)).isSome = true) ∧
  (h.svcs.contains (infraKey k) = true → c.svcs.contains (infraKey k) = true) ∧
  (∀ x, h.pvcs.contains x = true → c.pvcs.contains x = true)

theorem DPast.refl (k : Key2) (w : World) : DPast k w w := ⟨id, id, fun _ => id⟩
theorem DPast.trans {k : Key2} {a b c : World} (h1 : DPast k a b) (h2 : DPast k b c) : DPast k a c :=
  ⟨fun x => h2.1 (h1.1 x), fun x => h2.2.1 (h1.2.1 x), fun x hx => h2.2.2 x (h1.2.2 x hx)⟩

/-- what every call of every plan satisfies when the plan was computed from a view that satisfies `LInv k` -/
def LJust (k : Key2) : Call → Prop
  | .sugCreate s' => s'.key = k → s'.resume = .longRunning ∧ sHas s' .succeeded = false
  | .sugStatus k' _ st' => k' = k → Cond.has st'.conds .succeeded = false
  | .deployDelete k' => k' ≠ infraKey k
  | .svcDelete k' => k' ≠ infraKey k
  | _ => True

theorem linv_same {k : Key2} {w w' : World} (he : w'.exps = w.exps) (hs : w'.sugs = w.sugs) (h : LInv k w) : LInv k w' := by
  unfold LInv findExp findSug at *
  rw [he, hs]; exact h

theorem dpast_same {k : Key2} {w w' : World} (hd : w'.deploys = w.deploys) (hs : w'.svcs = w.svcs) (hp : w'.pvcs = w.pvcs) : DPast k w w' := by
  unfold DPast findDeploy
  rw [hd, hs, hp]; exact ⟨id, id, fun _ => id⟩

theorem contains_append_left (l : List Key2) (x y : Key2) (h : l.contains x = true) : (l ++ [y]).contains x = true := by
  simp only [List.contains_eq_mem, List.mem_append, decide_eq_true_eq] at h ⊢
  exact Or.inl h

theorem contains_filter_ne (l : List Key2) (x y : Key2) (hne : y ≠ x) (h : l.contains x = true) :
    (l.filter (fun z => ¬ z = y)).contains x = true := by
  simp only [List.contains_eq_mem, decide_eq_true_eq, List.mem_filter, decide_not, Bool.not_eq_eq_eq_not, Bool.not_true,
    decide_eq_false_iff_not] at h ⊢
  exact ⟨h, fun e => hne e.symm⟩


theorem linv_updExp {k k' : Key2} {w : World} (f : ExpO → ExpO) (hf : ∀ x, (f x).key = x.key ∧ (f x).cfg = x.cfg) (h : LInv k w) :
    LInv k (updExp w k' f) := by
  refine ⟨?_, ?_⟩
  · intro e he
    rw [findExp_updExp w k k' f (fun x => (hf x).1)] at he
    cases h0 : findExp w k with
    | none => rw [h0] at he; cases he
    | some e0 =>
      rw [h0] at he
      simp only [Option.map_some, Option.some.injEq] at he
      subst he
      split
      · rw [(hf e0).2]; exact h.1 e0 h0
      · exact h.1 e0 h0
  · exact h.2

theorem linv_updSug {k k' : Key2} {w : World} (f : SugO → SugO) (hf : ∀ x, (f x).key = x.key ∧ (f x).resume = x.resume)
    (hs : ∀ x, x.key = k' → k' = k → sHas x .succeeded = false → sHas (f x) .succeeded = false) (h : LInv k w) :
    LInv k (updSug w k' f) := by
  refine ⟨h.1, ?_⟩
  intro s hsg
  rw [findSug_updSug w k k' f (fun x => (hf x).1)] at hsg
  cases h0 : findSug w k with
  | none => rw [h0] at hsg; cases hsg
  | some s0 =>
    rw [h0] at hsg
    simp only [Option.map_some, Option.some.injEq] at hsg
    subst hsg
    obtain ⟨a, b⟩ := h.2 s0 h0
    have hk0 := findSug_key h0
    split
    · rename_i hkk
      exact ⟨by rw [(hf s0).2]; exact a, hs s0 hkk (by rw [← hkk, hk0]) b⟩
    · exact ⟨a, b⟩

theorem findDeploy_filter_ne (l : List DeployO) (x y : Key2) (hne : y ≠ x)
    (h : (l.find? (fun d => d.key = x)).isSome = true) : ((l.filter (fun d => ¬ d.key = y)).find? (fun d => d.key = x)).isSome = true := by
  obtain ⟨d, hd⟩ := Option.isSome_iff_exists.1 h
  have hmem := List.mem_of_find?_eq_some hd
  have hk : d.key = x := by simpa using List.find?_some hd
  cases hf : (l.filter (fun d => ¬ d.key = y)).find? (fun d => d.key = x) with
  | some _ => rfl
  | none =>
    have := List.find?_eq_none.1 hf d (List.mem_filter.2 ⟨hmem, by simp [hk]; exact fun e => hne e.symm⟩)
    simp [hk] at this

/-- one successful justified call keeps `LInv` and loses neither the algorithm service of `k` nor any claim -/
theorem apply_pres_L {k : Key2} {w w' : World} {c : Call} (hL : LInv k w) (hJ : LJust k c) (h : applyCall w c = .ok w') :
    LInv k w' ∧ DPast k w w' := by
  cases c with
  | sugCreate s' =>
    simp only [applyCall] at h; split at h
    · cases h
    · rename_i hnone
      cases h
      refine ⟨⟨hL.1, ?_⟩, dpast_same rfl rfl rfl⟩
      intro s hs
      unfold findSug at hs
      simp only [List.find?_append] at hs
      cases hf : List.find? (fun x => decide (x.key = k)) w.sugs with
      | some s0 =>
        rw [hf] at hs; simp only [Option.some_or, Option.some.injEq] at hs; subst hs
        exact hL.2 s0 hf
      | none =>
        rw [hf] at hs
        simp only [Option.none_or, List.find?_cons, List.find?_nil] at hs
        split at hs
        · rename_i hk
          simp only [Option.some.injEq] at hs; subst hs
          exact hJ (by simpa using hk)
        · cases hs
  | sugUpdateReq k' rv req =>
    simp only [applyCall] at h; split at h
    · cases h
    · split at h <;> cases h
      exact ⟨linv_updSug _ (fun _ => ⟨rfl, rfl⟩) (fun _ _ _ hx => hx) hL, dpast_same rfl rfl rfl⟩
  | sugStatus k' rv st =>
    simp only [applyCall] at h; split at h
    · cases h
    · split at h <;> cases h
      exact ⟨linv_updSug _ (fun _ => ⟨rfl, rfl⟩) (fun _ _ hk _ => hJ hk) hL, dpast_same rfl rfl rfl⟩
  | expUpdateFin k' rv fin =>
    simp only [applyCall] at h; split at h
    · cases h
    · split at h <;> cases h
      exact ⟨linv_updExp _ (fun _ => ⟨rfl, rfl⟩) hL, dpast_same rfl rfl rfl⟩
  | expStatus k' rv st =>
    simp only [applyCall] at h; split at h
    · cases h
    · split at h <;> cases h
      exact ⟨linv_updExp _ (fun _ => ⟨rfl, rfl⟩) hL, dpast_same rfl rfl rfl⟩
  | deployCreate k' =>
    simp only [applyCall] at h; split at h <;> cases h
    refine ⟨linv_same rfl rfl hL, ?_, id, fun _ => id⟩
    intro hx
    unfold findDeploy at hx ⊢
    simp only [List.find?_append]
    obtain ⟨d, hd⟩ := Option.isSome_iff_exists.1 hx
    rw [hd]; rfl
  | deployDelete k' =>
    simp only [applyCall] at h; split at h <;> cases h
    exact ⟨linv_same rfl rfl hL, fun hx => findDeploy_filter_ne _ _ _ hJ hx, id, fun _ => id⟩
  | svcCreate k' =>
    simp only [applyCall, createKey] at h; split at h
    · cases h
    · cases h; exact ⟨linv_same rfl rfl hL, id, fun hx => contains_append_left _ _ _ hx, fun _ => id⟩
  | svcDelete k' =>
    simp only [applyCall] at h; split at h <;> cases h
    exact ⟨linv_same rfl rfl hL, id, fun hx => contains_filter_ne _ _ _ hJ hx, fun _ => id⟩
  | pvcCreate k' =>
    simp only [applyCall, createKey] at h; split at h
    · cases h
    · cases h; exact ⟨linv_same rfl rfl hL, id, id, fun x hx => contains_append_left _ _ _ hx⟩
  | trialCreate t => simp only [applyCall] at h; split at h <;> cases h; exact ⟨linv_same rfl rfl hL, dpast_same rfl rfl rfl⟩
  | trialUpdateFin k' rv fin =>
    simp only [applyCall] at h; split at h
    · cases h
    · split at h
      · cases h
      · split at h <;> cases h <;> exact ⟨linv_same rfl rfl hL, dpast_same rfl rfl rfl⟩
  | trialStatus k' rv st =>
    simp only [applyCall] at h; split at h
    · cases h
    · split at h <;> cases h; exact ⟨linv_same rfl rfl hL, dpast_same rfl rfl rfl⟩
  | trialDelete k' =>
    simp only [applyCall] at h; split at h
    · cases h
    · split at h <;> cases h <;> exact ⟨linv_same rfl rfl hL, dpast_same rfl rfl rfl⟩
  | jobCreate k' => simp only [applyCall] at h; split at h <;> cases h; exact ⟨linv_same rfl rfl hL, dpast_same rfl rfl rfl⟩
  | jobDelete k' => simp only [applyCall] at h; split at h <;> cases h; exact ⟨linv_same rfl rfl hL, dpast_same rfl rfl rfl⟩
  | saCreate k' =>
    simp only [applyCall, createKey] at h; split at h
    · cases h
    · cases h; exact ⟨linv_same rfl rfl hL, dpast_same rfl rfl rfl⟩
  | roleCreate k' =>
    simp only [applyCall, createKey] at h; split at h
    · cases h
    · cases h; exact ⟨linv_same rfl rfl hL, dpast_same rfl rfl rfl⟩
  | rbCreate k' =>
    simp only [applyCall, createKey] at h; split at h
    · cases h
    · cases h; exact ⟨linv_same rfl rfl hL, dpast_same rfl rfl rfl⟩
  | rpcValidate e => simp only [applyCall] at h; cases h; exact ⟨linv_same rfl rfl hL, dpast_same rfl rfl rfl⟩
  | rpcValidateES => simp only [applyCall] at h; cases h; exact ⟨linv_same rfl rfl hL, dpast_same rfl rfl rfl⟩
  | rpcGetSuggestions e cur total ts consume ok => simp only [applyCall] at h; split at h <;> cases h; exact ⟨linv_same rfl rfl hL, dpast_same rfl rfl rfl⟩
  | rpcGetRules e ok => simp only [applyCall] at h; split at h <;> cases h; exact ⟨linv_same rfl rfl hL, dpast_same rfl rfl rfl⟩
  | dbGet t => simp only [applyCall] at h; cases h; exact ⟨linv_same rfl rfl hL, dpast_same rfl rfl rfl⟩
  | dbDelete t => simp only [applyCall] at h; cases h; exact ⟨linv_same rfl rfl hL, dpast_same rfl rfl rfl⟩
  | dbReport t e => simp only [applyCall] at h; split at h <;> cases h <;> exact ⟨linv_same rfl rfl hL, dpast_same rfl rfl rfl⟩


/-! ### the suggestion plan never writes a status with Succeeded -/

def NoSucc : Call → Prop
  | .sugStatus _ _ st' => Cond.has st'.conds .succeeded = false
  | _ => True

theorem ns_sugFinish (s : SugO) (st : SugSt) (h : Cond.has st.conds .succeeded = false) : (sugFinish s st).All NoSucc := by
  unfold sugFinish; split
  · trivial
  · exact ⟨h, trivial, trivial⟩

theorem ns_sugErr (s : SugO) (st : SugSt) (h : Cond.has st.conds .succeeded = false) : (sugErr s st).All NoSucc := by
  unfold sugErr; split
  · trivial
  · exact ⟨h, trivial, trivial⟩

theorem ns_markRunning (cs : List SCond) (b : Bool) (r : String) (now : Nat) : Cond.has (sugMarkRunning cs b r now) .succeeded = false := by
  unfold sugMarkRunning
  rw [Cond.has_set_other _ (by decide), Cond.has_remove_self]

theorem ns_markFailed (cs : List SCond) (r : String) (now : Nat) (h : Cond.has cs .succeeded = false) :
    Cond.has (sugMarkFailed cs r now) .succeeded = false := by
  unfold sugMarkFailed
  simp only []
  rw [Cond.has_set_other _ (by decide)]
  split
  · rw [Cond.has_set_other _ (by decide)]; exact h
  · exact h

theorem ns_sugSync (v : World) (s : SugO) (st : SugSt) (ts : List TrialO) (env : SugEnv) (h : Cond.has st.conds .succeeded = false) :
    (sugSync v s st ts env).All NoSucc := by
  unfold sugSync
  simp only []
  split
  · exact ns_sugFinish s st h
  · split
    · exact ⟨trivial, ns_sugErr s st h, ns_sugErr s st h⟩
    · refine ⟨trivial, ?_, ns_sugErr s st h⟩
      unfold sugAfterReply
      split
      · exact ns_sugErr s st h
      · split
        · exact ⟨trivial, ns_sugFinish s _ h, ns_sugErr s st h⟩
        · exact ns_sugFinish s _ h

theorem ns_sugTail (v : World) (s : SugO) (st1 : SugSt) (env : SugEnv) (now : Nat) (h : Cond.has st1.conds .succeeded = false) :
    (sugTail v s st1 env now).All NoSucc := by
  unfold sugTail
  split
  · exact ns_sugErr s _ h
  · simp only []
    split
    · refine ⟨trivial, ?_, ns_sugFinish s _ (ns_markFailed _ _ _ h)⟩
      split
      · exact ⟨trivial, ns_sugSync v s _ _ env (ns_markRunning _ _ _ _), ns_sugFinish s _ (ns_markFailed _ _ _ h)⟩
      · exact ns_sugSync v s _ _ env (ns_markRunning _ _ _ _)
    · exact ns_sugSync v s _ _ env h

theorem ns_sugDeploy (v : World) (s : SugO) (env : SugEnv) (now : Nat) (h : sHas s .succeeded = false) :
    (sugDeploy v s env now).All NoSucc := by
  have hset : ∀ b r, Cond.has (Cond.set s.st.conds .deploymentReady b r now) .succeeded = false := fun b r => by
    rw [Cond.has_set_other _ (by decide)]; exact h
  unfold sugDeploy
  simp only []
  split
  · exact ⟨trivial, ns_sugFinish s _ (hset _ _), ns_sugErr s _ h⟩
  · split
    · exact ns_sugFinish s _ (hset _ _)
    · exact ns_sugTail v s _ env now (hset _ _)

theorem ns_sugReconcile (v : World) (s : SugO) (env : SugEnv) (now : Nat) (h : sHas s .succeeded = false) :
    (sugReconcile v s env now).All NoSucc := by
  have errK := ns_sugErr s s.st h
  have rbac : (sugRbac v s env now).All NoSucc := by
    unfold sugRbac
    simp only []
    split
    · exact all_createIfAbsent' _ _ _ _ trivial (all_createIfAbsent' _ _ _ _ trivial
        (all_createIfAbsent' _ _ _ _ trivial (ns_sugDeploy v s env now h) errK) errK) errK
    · exact ns_sugDeploy v s env now h
  unfold sugReconcile
  simp only []
  split
  · exact all_createIfAbsent' _ _ _ _ trivial (all_createIfAbsent' _ _ _ _ trivial rbac errK) errK
  · exact all_createIfAbsent' _ _ _ _ trivial rbac errK

theorem sugPlan_nosucc (v : World) (k : Key2) (env : SugEnv) (now : Nat) (s : SugO) (hs : findSug v k = some s)
    (h : sHas s .succeeded = false) : (sugPlan v k env now).All NoSucc := by
  unfold sugPlan
  rw [hs]
  simp only [h, Bool.false_eq_true, if_false]
  split
  · refine ns_sugFinish s _ ?_
    simp only []
    rw [Cond.has_set_other _ (by decide)]; exact h
  · exact ns_sugReconcile v s env now h


/-! ### every call of the three plans is justified when the view satisfies `LInv k` -/

theorem expPlan_ljust (k : Key2) (v : World) (k' : Key2) (now : Nat) (hv : LInv k v) : (expPlan v k' now).All (LJust k) := by
  cases he : findExp v k' with
  | none => unfold expPlan; rw [he]; trivial
  | some e =>
    have hkey := findExp_key he
    by_cases hk : k' = k
    · subst hk
      have hres := hv.1 e he
      refine (Prog.All.and (expPlan_guard v k' now e he) (C16_longrunning v k' now e he hres)).mono ?_
      intro c hc
      cases c with
      | sugCreate s' =>
        obtain ⟨⟨_, _, h3, h4, _⟩, _⟩ := hc
        intro _
        refine ⟨by rw [h4]; exact hres, ?_⟩
        unfold sHas; rw [h3]; rfl
      | sugStatus _ _ _ => exact absurd hc.2 id
      | deployDelete _ => exact absurd hc.1 id
      | svcDelete _ => exact absurd hc.1 id
      | _ => trivial
    · refine (expPlan_guard v k' now e he).mono ?_
      intro c hc
      cases c with
      | sugCreate s' =>
        obtain ⟨_, h2, _⟩ := hc
        intro hkk
        exact absurd (by rw [← hkey, ← h2, hkk]) hk
      | sugStatus k'' _ _ =>
        obtain ⟨_, _, h2, _⟩ := hc
        intro hkk
        exact absurd (by rw [← hkey, ← h2, hkk]) hk
      | deployDelete _ => exact absurd hc id
      | svcDelete _ => exact absurd hc id
      | _ => trivial

theorem sugPlan_ljust (k : Key2) (v : World) (k' : Key2) (env : SugEnv) (now : Nat) (hv : LInv k v) : (sugPlan v k' env now).All (LJust k) := by
  cases hs : findSug v k' with
  | none => unfold sugPlan; rw [hs]; trivial
  | some s =>
    have hkey := findSug_key hs
    by_cases hk : k' = k
    · subst hk
      have hns := (hv.2 s hs).2
      refine (Prog.All.and (sugPlan_guard v k' env now s hs) (sugPlan_nosucc v k' env now s hs hns)).mono ?_
      intro c hc
      cases c with
      | sugCreate _ => exact absurd hc.1 id
      | sugStatus _ _ _ => intro _; exact hc.2
      | deployDelete _ => rw [hc.1.1] at hns; cases hns
      | svcDelete _ => rw [hc.1.1] at hns; cases hns
      | _ => trivial
    · refine (sugPlan_guard v k' env now s hs).mono ?_
      intro c hc
      cases c with
      | sugCreate _ => exact absurd hc id
      | sugStatus k'' _ _ =>
        intro hkk
        exact absurd (by rw [← hkey, ← hc.1, hkk]) hk
      | deployDelete k'' =>
        intro e
        rw [hc.2] at e
        exact hk (by rw [← hkey]; exact infraKey_inj e)
      | svcDelete k'' =>
        intro e
        rw [hc.2] at e
        exact hk (by rw [← hkey]; exact infraKey_inj e)
      | _ => trivial

/-- the trial plan issues no Suggestion write and no delete of algorithm infrastructure -/
def NoInfra : Call → Prop
  | .deployDelete _ => False
  | .svcDelete _ => False
  | .sugCreate _ => False
  | .sugStatus _ _ _ => False
  | _ => True

theorem ni_trialFinish (t : TrialO) (st : TrialSt) : (trialFinish t st).All NoInfra := by
  unfold trialFinish; split
  · trivial
  · exact ⟨trivial, trivial, trivial⟩

theorem ni_trialUpdateCondition (t : TrialO) (st : TrialSt) (js : JobCond) (now : Nat) : (trialUpdateCondition t st js now).All NoInfra := by
  unfold trialUpdateCondition
  simp only []
  repeat' first
    | exact ni_trialFinish _ _
    | split
    | (refine ⟨trivial, ?_, ?_⟩)
    | trivial

theorem ni_trialObserve (v : World) (t : TrialO) (js : JobCond) (now : Nat) : (trialObserve v t js now).All NoInfra := by
  unfold trialObserve
  simp only []
  repeat' first
    | exact ni_trialUpdateCondition _ _ _ _
    | split
    | (refine ⟨trivial, ?_, ?_⟩)
    | trivial

theorem ni_trialAfterJob (v : World) (t : TrialO) (state : JobState) (now : Nat) : (trialAfterJob v t state now).All NoInfra := by
  unfold trialAfterJob
  repeat' first
    | exact ni_trialFinish _ _
    | exact ni_trialObserve _ _ _ _
    | split
    | trivial

theorem trialPlan_noinfra (v : World) (k : Key2) (now : Nat) : (trialPlan v k now).All NoInfra := by
  unfold trialPlan
  split
  · trivial
  · simp only []
    repeat' first
      | exact ni_trialFinish _ _
      | exact ni_trialAfterJob _ _ _ _
      | split
      | (refine ⟨trivial, ?_, ?_⟩)
      | trivial

theorem trialPlan_ljust (k : Key2) (v : World) (k' : Key2) (now : Nat) : (trialPlan v k' now).All (LJust k) :=
  (trialPlan_noinfra v k' now).mono (fun c hc => by cases c <;> first | trivial | exact absurd hc id)


/-! ### whole schedules -/

def SInvL (k : Key2) (s : Sim) : Prop :=
  LInv k s.cur ∧ ∀ (i : Nat) (h : World), s.hist[i]? = some h → LInv k h ∧ DPast k h s.cur

theorem snap_goodL {k : Key2} {s : Sim} (hI : SInvL k s) (i : Nat) : LInv k (snapAt s i) := by
  unfold snapAt
  cases h : s.hist[i]? with
  | none => exact hI.1
  | some w => exact (hI.2 i w h).1

theorem linv_assemble {k : Key2} {s : Sim} (hI : SInvL k s) (vE vT vS vD : Nat) : LInv k (assemble s vE vT vS vD) :=
  ⟨(snap_goodL hI vE).1, (snap_goodL hI vS).2⟩

theorem exec_L {k : Key2} {w0 : World} (f : Faults) (p : Prog) (hp : p.All (LJust k)) (hL : LInv k w0) :
    LInv k (exec f p w0 0 []).w ∧ DPast k w0 (exec f p w0 0 []).w :=
  exec_preserves (I := fun w => LInv k w ∧ DPast k w0 w) (P := LJust k) f
    (fun w c w' hI hc happ => by
      obtain ⟨a, b⟩ := apply_pres_L hI.1 hc happ
      exact ⟨a, DPast.trans hI.2 b⟩)
    p w0 0 [] hp ⟨hL, DPast.refl k w0⟩

theorem stepWorld_okL {k : Key2} {s : Sim} (hI : SInvL k s) (op : Op) :
    LInv k (stepWorld s op).1 ∧ DPast k s.cur (stepWorld s op).1 := by
  have hL := hI.1
  cases op with
  | recExp k' vE vT vS f => exact exec_L f _ (expPlan_ljust k _ k' s.opIndex (linv_assemble hI _ _ _ _)) hL
  | recSug k' vS vE vT vD f env => exact exec_L f _ (sugPlan_ljust k _ k' env s.opIndex (linv_assemble hI _ _ _ _)) hL
  | recTrial k' vT f => exact exec_L f _ (trialPlan_ljust k _ k' s.opIndex) hL
  | job k' ok =>
    simp only [stepWorld]
    split
    · exact ⟨hL, DPast.refl k _⟩
    · exact ⟨linv_same rfl rfl hL, dpast_same rfl rfl rfl⟩
  | metric t text key nm =>
    simp only [stepWorld]
    split
    · exact ⟨linv_same rfl rfl hL, dpast_same rfl rfl rfl⟩
    · exact ⟨linv_same rfl rfl hL, dpast_same rfl rfl rfl⟩
  | earlyStop k' =>
    simp only [stepWorld]
    split
    · exact ⟨hL, DPast.refl k _⟩
    · split
      · exact ⟨hL, DPast.refl k _⟩
      · exact ⟨linv_same rfl rfl hL, dpast_same rfl rfl rfl⟩
  | deployReady k' =>
    simp only [stepWorld]
    split
    · exact ⟨hL, DPast.refl k _⟩
    · refine ⟨linv_same rfl rfl hL, ?_, id, fun _ => id⟩
      intro hx
      unfold findDeploy at hx ⊢
      simp only []
      rw [find?_map_upd (·.key) s.cur.deploys (infraKey k) (infraKey k') (fun d => { d with ready := true }) (fun _ => rfl)]
      obtain ⟨d, hd⟩ := Option.isSome_iff_exists.1 hx
      rw [hd]; rfl
  | editMax k' n =>
    simp only [stepWorld]
    split
    · exact ⟨hL, DPast.refl k _⟩
    · exact ⟨linv_updExp _ (fun _ => ⟨rfl, rfl⟩) hL, dpast_same rfl rfl rfl⟩
  | jobGone k' =>
    simp only [stepWorld]
    split
    · exact ⟨hL, DPast.refl k _⟩
    · split
      · exact ⟨linv_same rfl rfl hL, dpast_same rfl rfl rfl⟩
      · exact ⟨hL, DPast.refl k _⟩
  | userDelete k' =>
    simp only [stepWorld]
    split
    · exact ⟨hL, DPast.refl k _⟩
    · split
      · exact ⟨hL, DPast.refl k _⟩
      · split
        · exact ⟨linv_same rfl rfl hL, dpast_same rfl rfl rfl⟩
        · exact ⟨linv_same rfl rfl hL, dpast_same rfl rfl rfl⟩
  | noop => exact ⟨hL, DPast.refl k _⟩

theorem step_invL {k : Key2} {s : Sim} (hI : SInvL k s) (op : Op) : SInvL k (step s op).1 := by
  obtain ⟨hW, hP⟩ := stepWorld_okL hI op
  unfold step
  refine ⟨hW, ?_⟩
  intro i h hh
  rw [Array.getElem?_push] at hh
  by_cases hi : i = s.hist.size
  · rw [if_pos hi] at hh
    cases hh; exact ⟨hW, DPast.refl k _⟩
  · rw [if_neg hi] at hh
    obtain ⟨h1, h2⟩ := hI.2 i h hh
    exact ⟨h1, DPast.trans h2 hP⟩

theorem run_invL {k : Key2} (ops : List Op) : ∀ {s : Sim}, SInvL k s → SInvL k (run s ops) := by
  induction ops with
  | nil => intro s h; exact h
  | cons op r ih => intro s h; exact ih (step_invL h op)

theorem init_invL (k : Key2) (es : List ExpInit) (hinit : ∀ e ∈ es, e.key = k → e.cfg.resume = .longRunning) : SInvL k (Sim.init es) := by
  have hL : LInv k (Sim.init es).cur := by
    refine ⟨?_, fun s h => by simp [Sim.init, findSug] at h⟩
    intro e he
    have hk := findExp_key he
    unfold findExp at he
    have hmem := List.mem_of_find?_eq_some he
    simp only [Sim.init, List.mem_map] at hmem
    obtain ⟨ei, hei, rfl⟩ := hmem
    exact hinit ei hei hk
  refine ⟨hL, ?_⟩
  intro i h hh
  simp only [Sim.init] at hh
  have : h = (Sim.init es).cur := by
    cases i with
    | zero => simp at hh; exact hh.symm
    | succ j => simp at hh
  rw [this]
  exact ⟨hL, DPast.refl k _⟩

/-- **C16_longrunning_service_kept**: for every list of simulator operations — no hypothesis on the schedule — and an
    Experiment `k` created with resumePolicy LongRunning: at every moment its Suggestion (if it exists) carries the same
    policy and is not Succeeded, and whatever earlier snapshot held the algorithm Deployment or Service of `k`, the current
    store still holds it. -/
theorem C16_longrunning_service_kept (k : Key2) (es : List ExpInit) (ops : List Op)
    (hinit : ∀ e ∈ es, e.key = k → e.cfg.resume = .longRunning) :
    let s := run (Sim.init es) ops
    (∀ sg, findSug s.cur k = some sg → sg.resume = .longRunning ∧ sHas sg .succeeded = false) ∧
    (∀ (i : Nat) (h : World), s.hist[i]? = some h →
      ((findDeploy h (infraKey k)).isSome = true → (findDeploy s.cur (infraKey k)).isSome = true) ∧
      (h.svcs.contains (infraKey k) = true → s.cur.svcs.contains (infraKey k) = true)) := by
  intro s
  have hI : SInvL k s := run_invL ops (init_invL k es hinit)
  exact ⟨hI.1.2, fun i h hh => ⟨(hI.2 i h hh).2.1, (hI.2 i h hh).2.2.1⟩⟩


/-! ### a volume claim is never removed, under any policy -/

theorem applyCall_pvcs {w w' : World} {c : Call} (h : applyCall w c = .ok w') :
    ∀ x, w.pvcs.contains x = true → w'.pvcs.contains x = true := by
  cases c <;> simp only [applyCall, createKey] at h <;> (repeat' split at h) <;> (try cases h) <;>
    (intro x hx; first | exact hx | exact contains_append_left _ _ _ hx)

theorem exec_pvcs (f : Faults) (p : Prog) (w0 : World) :
    ∀ x, w0.pvcs.contains x = true → (exec f p w0 0 []).w.pvcs.contains x = true :=
  exec_preserves (I := fun w => ∀ x, w0.pvcs.contains x = true → w.pvcs.contains x = true) (P := fun _ => True) f
    (fun _ _ _ hI _ happ x hx => applyCall_pvcs happ x (hI x hx)) p w0 0 [] (Prog.all_of_forall (fun _ => trivial) p) (fun _ hx => hx)

theorem stepWorld_pvcs (s : Sim) (op : Op) : ∀ x, s.cur.pvcs.contains x = true → (stepWorld s op).1.pvcs.contains x = true := by
  cases op with
  | recExp k' vE vT vS f => exact exec_pvcs f _ _
  | recSug k' vS vE vT vD f env => exact exec_pvcs f _ _
  | recTrial k' vT f => exact exec_pvcs f _ _
  | _ => simp only [stepWorld] <;> (repeat' split) <;> exact fun _ hx => hx

/-- **C16_volume_kept**: over every schedule, under every resume policy, a PersistentVolumeClaim that existed in any
    earlier snapshot exists now (no controller ever deletes one). -/
theorem C16_volume_kept (es : List ExpInit) (ops : List Op) :
    let s := run (Sim.init es) ops
    ∀ (i : Nat) (h : World), s.hist[i]? = some h → ∀ x, h.pvcs.contains x = true → s.cur.pvcs.contains x = true := by
  intro s
  suffices H : ∀ (ops : List Op) (s0 : Sim),
      (∀ (i : Nat) (h : World), s0.hist[i]? = some h → ∀ x, h.pvcs.contains x = true → s0.cur.pvcs.contains x = true) →
      ∀ (i : Nat) (h : World), (run s0 ops).hist[i]? = some h → ∀ x, h.pvcs.contains x = true → (run s0 ops).cur.pvcs.contains x = true by
    refine H ops (Sim.init es) ?_
    intro i h hh
    simp only [Sim.init] at hh
    have : h = (Sim.init es).cur := by
      cases i with
      | zero => simp at hh; exact hh.symm
      | succ j => simp at hh
    rw [this]; exact fun _ hx => hx
  intro ops
  induction ops with
  | nil => intro s0 h0; exact h0
  | cons op r ih =>
    intro s0 h0
    refine ih (step s0 op).1 ?_
    intro i h hh x hx
    unfold step at hh ⊢
    simp only [] at hh ⊢
    rw [Array.getElem?_push] at hh
    by_cases hi : i = s0.hist.size
    · rw [if_pos hi] at hh; cases hh; exact hx
    · rw [if_neg hi] at hh
      exact stepWorld_pvcs s0 op x (h0 i h hh x hx)


/-! Non-vacuity: six reconciles of a LongRunning experiment create its Suggestion, Service and Deployment, so the
    antecedents of `C16_longrunning_service_kept` are met by a reachable history. -/
def lrKey : Key2 := ⟨"ns", "exp"⟩
def lrExp : ExpInit :=
  { key := lrKey, par := 1, maxT := some 2, maxF := none,
    cfg := { goal := none, objType := .maximize, resume := .longRunning, es := false, retain := false, push := false, labels := false } }
def lrOps : List Op :=
  [.recExp lrKey 0 0 0 {}, .recExp lrKey 1 1 1 {}, .recExp lrKey 2 2 2 {}, .recSug lrKey 3 3 3 3 {} {}, .recSug lrKey 4 4 4 4 {} {},
   .recSug lrKey 5 5 5 5 {} {}]

example :
    (findSug (run (Sim.init [lrExp]) lrOps).cur lrKey).isSome = true ∧
    (findDeploy (run (Sim.init [lrExp]) lrOps).cur (infraKey lrKey)).isSome = true ∧
    (run (Sim.init [lrExp]) lrOps).cur.svcs.contains (infraKey lrKey) = true := by decide

end Katib.Ctl
