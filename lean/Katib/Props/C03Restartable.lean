import Katib.Gen.Restartable
import Katib.Model.ExpStatus
/-!
# The model's restartability predicate is the source's

`Katib/Gen/Restartable.lean` is regenerated on every run from `IsCompletedExperimentRestartable`
(pkg/controller.v1beta1/experiment/util/status_util.go): the boolean structure of its condition over the atoms
`IsSucceeded()`, `IsCompletedReason(ExperimentMaxTrialsReachedReason)`, `ResumePolicy == LongRunning / FromVolume / Never`.
The model's `Katib.Exp.restartable` — on which the restart guard, `C03_frozen_verdict_world` and the C15 / C16 models rest — is
that function of the same atoms, for every condition list and policy.
-/
namespace Katib.Gen
open Katib Katib.Exp

/-- the translator met only atoms it knows, in a function body of a shape it knows -/
theorem C03_restartable_source_shape_known :
    restartableUnknownAtoms = [] ∧ (restartableShape = "if-return-true-else-false" ∨ restartableShape = "return-expression") := by
  decide

/-- **C03_restartable_is_source** -/
theorem C03_restartable_is_source (cs : List ECond) (r : Resume) :
    restartable cs r =
      restartableGen (isSucceeded cs) (isFailed cs) (isSucceeded cs && Cond.reasonOf cs .succeeded == some rMaxTrials)
        (r == .longRunning) (r == .fromVolume) (r == .never) false := by
  unfold restartable restartableGen
  cases isSucceeded cs <;> cases (Cond.reasonOf cs .succeeded == some rMaxTrials) <;> cases r <;> decide

end Katib.Gen
