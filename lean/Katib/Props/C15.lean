import Katib.Model.Update
/-!
# C15 — After creation only the three budget fields of an Experiment can change

Theorems about `Katib.Upd.admitUpdate` for an arbitrary type `R` of "the rest of the spec".
-/
namespace Katib.Upd
variable {R : Type} [DecidableEq R]

theorem forbidden_iff (new : Spec R) (old : Old R) : (updErrs new old).forbidden = true ↔ new.rest ≠ old.spec.rest := by
  unfold updErrs
  simp only [decide_eq_true_eq]
  obtain ⟨a, b, c, r⟩ := new
  constructor
  · intro h hr
    apply h
    simp only at hr
    simp [hr]
  · intro h heq
    apply h
    have := congrArg Spec.rest heq
    simpa using this.symm

/-- C15_iff: (creation checks passing) an update is admitted exactly when the spec is untouched, or only the three budget
    fields differ and — the experiment being completed — it is restartable, and a new maxTrialCount exceeds the trials
    already created. -/
theorem C15_iff (new : Spec R) (old : Old R) :
    admitUpdate true new old = true ↔
      (new = old.spec ∨ (new.rest = old.spec.rest ∧ (old.completed = true → old.restartable = true) ∧
                         (∀ m, new.max = some m → m > old.trials))) := by
  unfold admitUpdate UpdErrs.none
  have hf := forbidden_iff new old
  by_cases heq : new = old.spec
  · have hrest : new.rest = old.spec.rest := by rw [heq]
    have : (updErrs new old).forbidden = false := by
      cases h : (updErrs new old).forbidden with
      | false => rfl
      | true => exact absurd hrest (hf.mp h)
    simp [updErrs, heq] at this ⊢
  · simp only [heq, false_or, Bool.true_and, Bool.and_eq_true, Bool.not_eq_true']
    constructor
    · rintro ⟨⟨h1, h2⟩, h3⟩
      have hrest : new.rest = old.spec.rest := by
        by_cases hr : new.rest = old.spec.rest
        · exact hr
        · have := hf.mpr hr; rw [h3] at this; cases this
      refine ⟨hrest, ?_, ?_⟩
      · intro hc
        simp only [updErrs, ne_eq, heq, not_false_eq_true, decide_true, Bool.true_and, hc] at h1
        simpa using h1
      · intro m hm
        simp only [updErrs, ne_eq, heq, not_false_eq_true, decide_true, Bool.true_and, hm, decide_eq_false_iff_not] at h2
        omega
    · rintro ⟨hrest, hc, hm⟩
      refine ⟨⟨?_, ?_⟩, ?_⟩
      · simp only [updErrs, ne_eq, heq, not_false_eq_true, decide_true, Bool.true_and]
        cases h1 : old.completed with
        | false => rfl
        | true => simp [hc h1]
      · simp only [updErrs, ne_eq, heq, not_false_eq_true, decide_true, Bool.true_and]
        cases h2 : new.max with
        | none => rfl
        | some m => have := hm m h2; simp; omega
      · cases h3 : (updErrs new old).forbidden with
        | false => rfl
        | true => exact absurd hrest (hf.mp h3)

/-- C15_noop: an update that leaves the spec untouched (status, metadata, finalizers) adds no error at all. -/
theorem C15_noop (createOk : Bool) (old : Old R) : admitUpdate createOk old.spec old = createOk := by
  have := (C15_iff old.spec old).mpr (Or.inl rfl)
  unfold admitUpdate at this ⊢
  simp only [Bool.true_and] at this
  rw [this, Bool.and_true]

/-- C15_only_budget: whatever else holds, an admitted update differs from the stored spec in at most the three budget fields. -/
theorem C15_only_budget (createOk : Bool) (new : Spec R) (old : Old R) (h : admitUpdate createOk new old = true) :
    new.rest = old.spec.rest := by
  unfold admitUpdate UpdErrs.none at h
  simp only [Bool.and_eq_true, Bool.not_eq_true'] at h
  by_cases hr : new.rest = old.spec.rest
  · exact hr
  · have := (forbidden_iff new old).mpr hr
    rw [h.2.2] at this; cases this

/-- creation-time failures are never masked by the update branch -/
theorem C15_create_checks_kept (new : Spec R) (old : Old R) : admitUpdate false new old = false := by
  simp [admitUpdate]

/-! Non-vacuity: raising max from 3 to 5 on a restartable completed experiment with 3 trials is admitted; touching the rest is not. -/
example : admitUpdate true (⟨some 1, some 5, none, 0⟩ : Spec Nat) ⟨⟨some 1, some 3, none, 0⟩, 3, true, true⟩ = true := by decide
example : admitUpdate true (⟨some 1, some 5, none, 1⟩ : Spec Nat) ⟨⟨some 1, some 3, none, 0⟩, 3, true, true⟩ = false := by decide
example : admitUpdate true (⟨some 1, some 3, none, 0⟩ : Spec Nat) ⟨⟨some 1, some 3, none, 0⟩, 3, true, false⟩ = true := by decide

end Katib.Upd
