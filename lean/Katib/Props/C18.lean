import Katib.Lemmas.Goptuna
/-!
# C18 — the Go suggestion service proposes only feasible points and survives its own history

* `C18_survives_history`: for every history in which Katib's trials are created from assignments the service handed out
  (each assignment at most once), in any state, any order, any subset per request, `GetSuggestions` never fails in
  `syncTrials` / `findGoptunaTrialIDByParam` — by an invariant with a ghost origin map, for unboundedly many rounds.
* `C18_count`: a successful request creates exactly the requested number of trials.
* `C18_snap_feasible` / `C18_snap_counterexample`: the grid snap of stepped parameters stays in `[low, high]` and on the grid
  when the step divides the range, and leaves the range otherwise (known finding), in exact arithmetic.
The samplers themselves (third-party, floating point, random) are not modelled: feasibility of what they return is judged per
reply by the oracle `Katib.Drv.oracleLineC18`.
-/
namespace Katib.Gop

/-! ### sync over a whole request -/

/-- an injective, parameter-preserving renaming of Goptuna ids (what the ghost origin is known up to) -/
structure Perm (ts : List GTrial) (π : Nat → Nat) : Prop where
  inj : ∀ a b, π a = π b → a = b
  pres : ∀ a, P ts (π a) = P ts a
  small : ∀ a, a < ts.length → π a < ts.length
  fix : ∀ a, ts.length ≤ a → π a = a

theorem swap_perm {ts : List GTrial} {a b : Nat} (h : P ts a = P ts b) (ha : a < ts.length) (hb : b < ts.length) : Perm ts (swapId a b) := by
  refine ⟨fun x y e => swapId_inj a b e, ?_, ?_, ?_⟩
  · intro x
    unfold swapId
    split
    · rename_i hx; rw [hx, h]
    · split
      · rename_i hx; rw [hx, h]
      · rfl
  · intro x hx
    unfold swapId
    split
    · exact hb
    · split
      · exact ha
      · exact hx
  · intro x hx
    exact swapId_other (by omega) (by omega)

theorem Perm.comp {ts : List GTrial} {π τ : Nat → Nat} (hπ : Perm ts π) (hτ : Perm ts τ) : Perm ts (τ ∘ π) :=
  ⟨fun a b e => hπ.inj a b (hτ.inj _ _ e), fun a => by simp only [Function.comp]; rw [hτ.pres, hπ.pres],
   fun a h => hτ.small _ (hπ.small a h), fun a h => by simp only [Function.comp]; rw [hπ.fix a h, hτ.fix a h]⟩

theorem Perm.id (ts : List GTrial) : Perm ts (fun a => a) := ⟨fun _ _ e => e, fun _ => rfl, fun _ h => h, fun _ _ => rfl⟩

theorem Perm.congr {ts ts' : List GTrial} {π : Nat → Nat} (h : Perm ts π) (hP : ∀ j, P ts' j = P ts j) (hl : ts'.length = ts.length) : Perm ts' π :=
  ⟨h.inj, fun a => by rw [hP, hP, h.pres], fun a ha => by rw [hl] at ha ⊢; exact h.small a ha, fun a ha => h.fix a (by rw [← hl]; exact ha)⟩

theorem validK_map {s s' : Svc} {o : String → Option Nat} {τ : Nat → Nat} (hτ : Perm s.trials τ) (hP : ∀ j, P s'.trials j = P s.trials j)
    {k : KTrial} (hv : ValidK s o k) : ValidK s' (fun n => (o n).map τ) k := by
  obtain ⟨id, ho, hp⟩ := hv
  exact ⟨τ id, by simp [ho], by rw [hP, hτ.pres, hp]⟩

/-- `syncTrials` over any list of Katib trials that stand for the service's own trials succeeds and keeps the invariant -/
theorem syncAll_ok (ks : List KTrial) : ∀ {s : Svc} {o : String → Option Nat}, Inv s o → (∀ k ∈ ks, ValidK s o k) →
    ∃ s' τ, syncAll s ks = .ok s' ∧ Perm s.trials τ ∧ Inv s' (fun n => (o n).map τ) ∧
      (∀ j, P s'.trials j = P s.trials j) ∧ s'.trials.length = s.trials.length := by
  induction ks with
  | nil =>
    intro s o inv _
    refine ⟨s, fun a => a, rfl, Perm.id _, ?_, fun _ => rfl, rfl⟩
    have : (fun n => (o n).map (fun a => a)) = o := by funext n; cases o n <;> rfl
    rw [this]; exact inv
  | cons k r ih =>
    intro s o inv hv
    obtain ⟨s1, a, b, h1, hab, ⟨ha, hb⟩, inv1, hP1, hl1⟩ := syncOne_ok inv k (hv k List.mem_cons_self)
    have hτ := swap_perm hab ha hb
    have hv1 : ∀ k' ∈ r, ValidK s1 (fun n => (o n).map (swapId a b)) k' :=
      fun k' hk' => validK_map hτ hP1 (hv k' (List.mem_cons_of_mem _ hk'))
    obtain ⟨s2, τ2, h2, hτ2, inv2, hP2, hl2⟩ := ih inv1 hv1
    refine ⟨s2, τ2 ∘ swapId a b, ?_, Perm.comp hτ (hτ2.congr (fun j => (hP1 j).symm) hl1.symm), ?_, fun j => by rw [hP2, hP1], by rw [hl2, hl1]⟩
    · simp only [syncAll, h1, h2]
    · have : (fun n => (o n).map (τ2 ∘ swapId a b)) = (fun n => ((o n).map (swapId a b)).map τ2) := by
        funext n; cases o n <;> rfl
      rw [this]; exact inv2

/-! ### sampling -/

theorem sample_length (ps : List Params) : ∀ s : Svc, (sample s ps).trials.length = s.trials.length + ps.length := by
  induction ps with
  | nil => intro s; rfl
  | cons p r ih => intro s; simp only [sample, ih, List.length_append, List.length_cons, List.length_nil]; omega

theorem sample_mapping (ps : List Params) : ∀ s : Svc, (sample s ps).mapping = s.mapping := by
  induction ps with
  | nil => intro s; rfl
  | cons p r ih => intro s; simp only [sample, ih]

theorem getTrial_append {ts : List GTrial} {id : Nat} {t : GTrial} (h : getTrial ts id = some t) (l : List GTrial) : getTrial (ts ++ l) id = some t := by
  induction ts with
  | nil => simp [getTrial] at h
  | cons a r ih =>
    simp only [List.cons_append, getTrial] at h ⊢
    split
    · rename_i ha; simp only [ha, if_true] at h; exact h
    · rename_i ha; simp only [ha, if_false] at h; exact ih h

theorem P_sample (ps : List Params) : ∀ (s : Svc) (j : Nat) (v : Params), P s.trials j = some v → P (sample s ps).trials j = some v := by
  induction ps with
  | nil => intro s j v h; exact h
  | cons p r ih =>
    intro s j v h
    simp only [sample]
    apply ih
    unfold P at h ⊢
    cases hg : getTrial s.trials j with
    | none => rw [hg] at h; cases h
    | some t => rw [getTrial_append hg]; rw [hg] at h; exact h

theorem sample_inv (ps : List Params) : ∀ {s : Svc} {o : String → Option Nat}, Inv s o → Inv (sample s ps) o := by
  induction ps with
  | nil => intro s o inv; exact inv
  | cons p r ih =>
    intro s o inv
    simp only [sample]
    apply ih
    refine ⟨?_, inv.keys, inv.sub, inv.inj, ?_, ?_⟩
    · simp only [List.map_append, List.map_cons, List.map_nil, List.length_append, List.length_cons, List.length_nil, inv.ids]
      rw [List.range_succ]
    · intro n id h
      have := inv.bound n id h
      simp only [List.length_append, List.length_cons, List.length_nil]; omega
    · intro t ht hun
      rcases List.mem_append.1 ht with ht | ht
      · exact inv.run t ht hun
      · simp only [List.mem_singleton] at ht; subst ht; rfl

/-- C18_count: a successful request leaves exactly `sampled.length` new trials (one per requested assignment) behind -/
theorem C18_count (s s' : Svc) (ks : List KTrial) (sampled : List Params) (h : request s ks sampled = .ok s') :
    ∃ s1, syncAll s ks = .ok s1 ∧ s'.trials.length = s1.trials.length + sampled.length := by
  unfold request at h
  split at h
  · cases h
  · cases hs : syncAll s ks with
    | error e => simp [hs] at h
    | ok s1 =>
      simp only [hs, Except.ok.injEq] at h
      subst h
      exact ⟨s1, rfl, sample_length sampled s1⟩

/-! ### histories -/

/-- `Good s oe`: the bookkeeping invariant holds for the environment's origin map `oe` up to a parameter-preserving renaming -/
def Good (s : Svc) (oe : String → Option Nat) : Prop := ∃ π, Perm s.trials π ∧ Inv s (fun n => (oe n).map π)

/-- what Katib and the service can do, with the environment's knowledge `oe` of which assignment (Goptuna trial id) each
    Katib trial was created from; `ks` is the set of Katib trials that exist (by name and parameters — states are free) -/
inductive Reach : Svc → (String → Option Nat) → List (String × Params) → Prop
  | init : Reach {} (fun _ => none) []
  /-- Katib creates a trial from an assignment nobody was created from yet -/
  | create {s oe ks} (name : String) (id : Nat) (ps : Params) : Reach s oe ks → oe name = none → (∀ n, oe n ≠ some id) →
      P s.trials id = some ps → Reach s (fun n => if n = name then some id else oe n) ((name, ps) :: ks)
  /-- a request carrying any convertible selection of the existing trials, in any order, in any states; the sampler answers anything -/
  | request {s oe ks} (req : List KTrial) (sampled : List Params) (s' : Svc) : Reach s oe ks →
      (∀ k ∈ req, (k.name, k.params) ∈ ks) → request s req sampled = .ok s' → Reach s' oe ks

theorem good_valid {s : Svc} {oe : String → Option Nat} {ks : List (String × Params)}
    (h : Reach s oe ks) : Good s oe ∧ ∀ np ∈ ks, ∃ id, oe np.1 = some id ∧ P s.trials id = some np.2 := by
  induction h with
  | init =>
    refine ⟨⟨fun a => a, Perm.id _, ?_⟩, by intro np h; cases h⟩
    exact ⟨rfl, List.nodup_nil, fun n id h => by simp [mapOf] at h, fun n n' id h _ => by simp at h, fun n id h => by simp at h, fun t h _ => by simp at h⟩
  | @create s oe ks name id ps _ hfresh hun hp ih =>
    obtain ⟨⟨π, hπ, inv⟩, hval⟩ := ih
    have hlt : id < s.trials.length := by
      unfold P at hp
      cases hg : getTrial s.trials id with
      | none => rw [hg] at hp; cases hp
      | some t =>
        obtain ⟨h1, h2⟩ := getTrial_some hg
        have : t.id ∈ s.trials.map (·.id) := List.mem_map.2 ⟨t, h2, rfl⟩
        rw [inv.ids, h1] at this
        exact List.mem_range.1 this
    refine ⟨⟨π, hπ, ?_⟩, ?_⟩
    · refine ⟨inv.ids, inv.keys, ?_, ?_, ?_, inv.run⟩
      · intro n j h
        have := inv.sub n j h
        by_cases hn : n = name
        · subst hn; simp [hfresh] at this
        · simp only [hn, if_false]; exact this
      · intro n n' j h1 h2
        by_cases hn : n = name <;> by_cases hn' : n' = name
        · rw [hn, hn']
        · exfalso
          simp only [hn, if_true, hn', if_false, Option.map_some, Option.some.injEq] at h1 h2
          cases hon : oe n' with
          | none => rw [hon] at h2; cases h2
          | some x =>
            rw [hon] at h2; simp only [Option.map_some, Option.some.injEq] at h2
            have : x = id := hπ.inj _ _ (h2.trans h1.symm)
            exact hun n' (this ▸ hon)
        · exfalso
          simp only [hn, if_false, hn', if_true, Option.map_some, Option.some.injEq] at h1 h2
          cases hon : oe n with
          | none => rw [hon] at h1; cases h1
          | some x =>
            rw [hon] at h1; simp only [Option.map_some, Option.some.injEq] at h1
            have : x = id := hπ.inj _ _ (h1.trans h2.symm)
            exact hun n (this ▸ hon)
        · simp only [hn, hn', if_false] at h1 h2
          exact inv.inj n n' j h1 h2
      · intro n j h
        by_cases hn : n = name
        · simp only [hn, if_true, Option.map_some, Option.some.injEq] at h
          rw [← h]; exact hπ.small id hlt
        · simp only [hn, if_false] at h; exact inv.bound n j h
    · intro np hnp
      rcases List.mem_cons.1 hnp with e | hmem
      · subst e; exact ⟨id, by simp, hp⟩
      · obtain ⟨j, hj, hpj⟩ := hval np hmem
        have hne : np.1 ≠ name := by intro e; rw [e, hfresh] at hj; cases hj
        exact ⟨j, by simp [hne, hj], hpj⟩
  | @request s oe ks req sampled s' _ hreq hok ih =>
    obtain ⟨⟨π, hπ, inv⟩, hval⟩ := ih
    unfold Katib.Gop.request at hok
    split at hok
    · cases hok
    · have hv : ∀ k ∈ req, ValidK s (fun n => (oe n).map π) k := by
        intro k hk
        obtain ⟨id, hid, hp⟩ := hval (k.name, k.params) (hreq k hk)
        exact ⟨π id, by simp [hid], by rw [hπ.pres]; exact hp⟩
      obtain ⟨s1, τ, h1, hτ, inv1, hP1, hl1⟩ := syncAll_ok req inv hv
      simp only [h1, Except.ok.injEq] at hok
      subst hok
      have hPs : ∀ j v, P s.trials j = some v → P (sample s1 sampled).trials j = some v :=
        fun j v h => P_sample sampled s1 j v (by rw [hP1]; exact h)
      refine ⟨⟨τ ∘ π, ?_, ?_⟩, ?_⟩
      · -- the renaming still preserves parameters on the grown trial list
        have hc := Perm.comp hπ hτ
        refine ⟨hc.inj, ?_, ?_, ?_⟩
        · intro a
          by_cases hlt : a < s.trials.length
          · obtain ⟨t, ht, hid⟩ := exists_of_bound inv.ids hlt
            obtain ⟨g, hg, _, _⟩ := getTrial_some_of_mem ht
            rw [hid] at hg
            have ha : P s.trials a = some g.params := by unfold P; rw [hg]; rfl
            have h2 : P s.trials ((τ ∘ π) a) = some g.params := by rw [hc.pres, ha]
            rw [hPs _ _ h2, hPs _ _ ha]
          · rw [hc.fix a (by omega)]
        · intro a ha
          rw [sample_length, hl1] at ha ⊢
          by_cases hlt : a < s.trials.length
          · have := hc.small a hlt; omega
          · rw [hc.fix a (by omega)]; exact ha
        · intro a ha
          rw [sample_length, hl1] at ha
          exact hc.fix a (by omega)
      · have : (fun n => (oe n).map (τ ∘ π)) = (fun n => ((oe n).map π).map τ) := by funext n; cases oe n <;> rfl
        rw [this]; exact sample_inv sampled inv1
      · intro np hnp
        obtain ⟨id, hid, hp⟩ := hval np hnp
        exact ⟨id, hid, hPs _ _ hp⟩

/-- C18_survives_history: in every state reachable by histories of the service's own suggestions, a request carrying any
    convertible selection of the existing Katib trials — in any states, any order — succeeds, whatever the sampler returns. -/
theorem C18_survives_history {s : Svc} {oe : String → Option Nat} {ks : List (String × Params)} (h : Reach s oe ks)
    (req : List KTrial) (sampled : List Params) (hreq : ∀ k ∈ req, (k.name, k.params) ∈ ks) (hconv : ∀ k ∈ req, k.convertible = true) :
    ∃ s', request s req sampled = .ok s' ∧ Reach s' oe ks := by
  obtain ⟨⟨π, hπ, inv⟩, hval⟩ := good_valid h
  have hv : ∀ k ∈ req, ValidK s (fun n => (oe n).map π) k := by
    intro k hk
    obtain ⟨id, hid, hp⟩ := hval (k.name, k.params) (hreq k hk)
    exact ⟨π id, by simp [hid], by rw [hπ.pres]; exact hp⟩
  obtain ⟨s1, τ, h1, _, _, _, _⟩ := syncAll_ok req inv hv
  have hr : request s req sampled = .ok (sample s1 sampled) := by
    unfold request
    have : req.any (fun k => !k.convertible) = false := by
      rw [List.any_eq_false]; intro k hk; simp [hconv k hk]
    simp [this, h1]
  exact ⟨_, hr, Reach.request req sampled _ h hreq hr⟩

/-- the hypothesis is needed: a trial whose parameters the service never handed out is not re-identified -/
example : (match request {} [{ name := "t", state := .running, params := [("lr", "0.1")], convertible := true }] [] with
    | .error .notFound => true | _ => false) = true := by decide

/-- non-vacuity: after a first reply with two equal assignments, both become Katib trials; a request carrying them in the
    other order, one completed, meets the theorem's hypotheses -/
example : ∃ s oe s', Reach s oe [("b", [("opt", "sgd")]), ("a", [("opt", "sgd")])] ∧
    request s [{ name := "b", state := .succeeded, params := [("opt", "sgd")], convertible := true },
               { name := "a", state := .running, params := [("opt", "sgd")], convertible := true }] [[("opt", "adam")]] = .ok s' := by
  have r0 : Reach {} (fun _ => none) [] := Reach.init
  have r1 := Reach.request [] [[("opt", "sgd")], [("opt", "sgd")]] _ r0 (by intro k h; cases h) rfl
  have r2 := Reach.create "a" 0 [("opt", "sgd")] r1 rfl (by intro n; simp) (by decide)
  have r3 := Reach.create "b" 1 [("opt", "sgd")] r2 (by decide) (by intro n; by_cases h : n = "a" <;> simp [h]) (by decide)
  obtain ⟨s', hr, _⟩ := C18_survives_history r3
    [{ name := "b", state := .succeeded, params := [("opt", "sgd")], convertible := true }, { name := "a", state := .running, params := [("opt", "sgd")], convertible := true }]
    [[("opt", "adam")]] (by intro k hk; simp at hk; rcases hk with h | h <;> subst h <;> simp) (by intro k hk; simp at hk; rcases hk with h | h <;> subst h <;> rfl)
  exact ⟨_, _, s', r3, hr⟩

/-! ### grid snap -/

theorem two_mul_add (m D : Int) : (2 * m + 1) * D = 2 * (m * D) + D := by
  rw [Int.add_mul, Int.mul_assoc, Int.one_mul]

/-- C18_snap_feasible: in exact arithmetic, for an internal value `a/d` inside `[low, high]` and a positive step that divides
    the range, `round((ir-low)/step)*step + low` lies in `[low, high]` and on the grid. -/
theorem C18_snap_feasible (low high step a d : Int) (hd : 0 < d) (hs : 0 < step) (hlo : low * d ≤ a) (hhi : a ≤ high * d)
    (m : Int) (hm : high - low = m * step) :
    low ≤ snap low step a d ∧ snap low step a d ≤ high ∧ ∃ k, snap low step a d = low + k * step := by
  unfold snap
  have hD : 0 < step * d := Int.mul_pos hs hd
  have hD2 : 0 < 2 * (step * d) := by omega
  have hN0 : 0 ≤ 2 * (a - low * d) + step * d := by omega
  have hk0 : 0 ≤ (2 * (a - low * d) + step * d) / (2 * (step * d)) := Int.ediv_nonneg hN0 (by omega)
  -- a - low*d ≤ (high - low)*d = m * (step*d)
  have hrange : a - low * d ≤ m * (step * d) := by
    have : (high - low) * d = m * (step * d) := by rw [hm, Int.mul_assoc]
    have h2 : a - low * d ≤ (high - low) * d := by rw [Int.sub_mul]; omega
    omega
  have hklt : (2 * (a - low * d) + step * d) / (2 * (step * d)) < m + 1 := by
    apply Int.ediv_lt_of_lt_mul hD2
    have e : (m + 1) * (2 * (step * d)) = 2 * (m * (step * d)) + 2 * (step * d) := by
      rw [Int.add_mul, Int.one_mul, Int.mul_left_comm]
    rw [e]; omega
  generalize (2 * (a - low * d) + step * d) / (2 * (step * d)) = k at hk0 hklt
  refine ⟨?_, ?_, k, by rw [Int.add_comm]⟩
  · have : 0 ≤ k * step := Int.mul_nonneg hk0 (by omega)
    omega
  · have hkm : k ≤ m := by omega
    have : k * step ≤ m * step := Int.mul_le_mul_of_nonneg_right hkm (by omega)
    omega

/-- C18_snap_counterexample (known finding): with a step that does not divide the range the snap leaves the feasible
    interval — min 0.1, max 0.9, step 0.3 (units of 0.1): the internal value 0.9 is snapped to 1.0 > 0.9 (the float
    computation prints 0.9999999999999999); the same for integers: min 1, max 6, step 2 at 6 gives 7 -/
theorem C18_snap_counterexample : snap 1 3 9 1 = 10 ∧ (9 : Int) < 10 ∧ snap 1 2 6 1 = 7 := by decide

example : snap 1 2 9 2 = 5 ∧ snap 1 2 7 2 = 3 ∧ snap 0 5 12 1 = 10 := by decide

end Katib.Gop
