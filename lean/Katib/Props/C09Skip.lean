import Katib.Gen.SkippedTrials
import Katib.Model.Reconcile
/-!
# C09: which Trials are left out of the algorithm requests is what the source's `continue` guards say

`Katib/Gen/SkippedTrials.lean` is regenerated on every run from `ConvertTrials` (suggestionclient.go): the disjunction of the
`if <cond> { continue }` guards at the top of its loop, over the atoms `IsMetricsUnavailable()`, `IsObservationAvailable()`,
`IsEarlyStopped()`, and the number of other statements that leave the loop early.  The controller model's `sentTrials` keeps a
Trial exactly when that generated predicate is false.
-/
namespace Katib.Gen
open Katib Katib.Ctl

/-- the translator met only atoms it knows and the loop has no other early exit -/
theorem C09_skip_guards_known : skipUnknownAtoms = [] ∧ skipOtherExits = 0 := by decide

/-- **C09_sent_is_source**: the model sends the names of exactly the Trials the source's guards do not skip -/
theorem C09_sent_is_source (ts : List TrialO) :
    sentTrials ts =
      sortS ((ts.filter (fun t => !skippedGen (tHas t .metricsUnavailable) (obsAvailable t.st) (tHas t .earlyStopped) false)).map (·.key.name)) := by
  unfold sentTrials skippedGen
  congr 2
  apply List.filter_congr
  intro t _
  cases tHas t .metricsUnavailable <;> cases obsAvailable t.st <;> cases tHas t .earlyStopped <;> rfl

end Katib.Gen
