import Katib.Lemmas.Summary
/-!
# C05 — Experiment status faithfully summarises its trials, incl. the optimal trial

Theorems about `Katib.Exp.summarise` (model of `updateTrialsSummary`) for every trial list.
`avail t` = the strategy-selected objective text of `t` is not `unavailable`; `keyOf t` = its ParseFloat key.
-/
namespace Katib.Exp

/-- C05_lists: every status list is exactly the trials of that class, in list order. -/
theorem C05_lists (o : Objective) (ts : List TrialV) (c : Class) :
    (summarise o ts).lists.get c = (ts.filter (fun t => classify t = c)).map (·.name) := by
  unfold summarise
  rw [foldl_lists]
  cases c <;> rfl

/-- C05_classify: the precedence killed > failed > succeeded > early-stopped > running > metrics-unavailable > pending. -/
theorem C05_classify (t : TrialV) :
    (classify t = .killed ↔ t.killed = true) ∧
    (classify t = .failed ↔ t.killed = false ∧ t.failed = true) ∧
    (classify t = .succeeded ↔ t.killed = false ∧ t.failed = false ∧ t.succeeded = true) ∧
    (classify t = .earlyStopped ↔ t.killed = false ∧ t.failed = false ∧ t.succeeded = false ∧ t.earlyStopped = true) ∧
    (classify t = .running ↔ t.killed = false ∧ t.failed = false ∧ t.succeeded = false ∧ t.earlyStopped = false ∧ t.running = true) ∧
    (classify t = .metricsUnavailable ↔ t.killed = false ∧ t.failed = false ∧ t.succeeded = false ∧ t.earlyStopped = false ∧
        t.running = false ∧ t.metricsUnavailable = true) ∧
    (classify t = .pending ↔ t.killed = false ∧ t.failed = false ∧ t.succeeded = false ∧ t.earlyStopped = false ∧
        t.running = false ∧ t.metricsUnavailable = false) := by
  unfold classify
  cases t.killed <;> cases t.failed <;> cases t.succeeded <;> cases t.earlyStopped <;> cases t.running <;>
    cases t.metricsUnavailable <;> simp

theorem nodup_map_inj {α β : Type} {f : α → β} {l : List α} (h : (l.map f).Nodup) {a b : α}
    (ha : a ∈ l) (hb : b ∈ l) (hab : f a = f b) : a = b := by
  induction l with
  | nil => cases ha
  | cons x xs ih =>
    simp only [List.map_cons, List.nodup_cons, List.mem_map, not_exists, not_and] at h
    simp only [List.mem_cons] at ha hb
    rcases ha with rfl | ha <;> rcases hb with rfl | hb
    · rfl
    · exact absurd hab.symm (h.1 b hb)
    · exact absurd hab (h.1 a ha)
    · exact ih h.2 ha hb

/-- C05_partition: every trial is in the list of its class; with distinct names in no other. -/
theorem C05_partition (o : Objective) (ts : List TrialV) :
    (∀ t ∈ ts, t.name ∈ (summarise o ts).lists.get (classify t)) ∧
    (∀ c n, n ∈ (summarise o ts).lists.get c → ∃ t ∈ ts, t.name = n ∧ classify t = c) ∧
    ((ts.map (·.name)).Nodup → ∀ c c' n, n ∈ (summarise o ts).lists.get c → n ∈ (summarise o ts).lists.get c' → c = c') := by
  refine ⟨?_, ?_, ?_⟩
  · intro t ht
    rw [C05_lists]
    exact List.mem_map.mpr ⟨t, List.mem_filter.mpr ⟨ht, by simp⟩, rfl⟩
  · intro c n hn
    rw [C05_lists] at hn
    obtain ⟨t, ht, rfl⟩ := List.mem_map.mp hn
    obtain ⟨h1, h2⟩ := List.mem_filter.mp ht
    exact ⟨t, h1, rfl, by simpa using h2⟩
  · intro hnd c c' n h1 h2
    rw [C05_lists] at h1 h2
    obtain ⟨t, ht, hn⟩ := List.mem_map.mp h1
    obtain ⟨t', ht', hn'⟩ := List.mem_map.mp h2
    obtain ⟨m1, c1⟩ := List.mem_filter.mp ht
    obtain ⟨m2, c2⟩ := List.mem_filter.mp ht'
    have : t = t' := nodup_map_inj hnd m1 m2 (by rw [hn, hn'])
    subst this
    simp only [decide_eq_true_eq] at c1 c2
    rw [← c1, ← c2]

/-- C05_counters: `status.trials` is the number of trials and equals the sum of the seven list lengths
    (the seven counters are the list lengths by construction: `countsOf`). -/
theorem C05_counters (o : Objective) (ts : List TrialV) :
    (summarise o ts).trials = ts.length ∧
    (allClasses.map (fun c => ((summarise o ts).lists.get c).length)).sum = (summarise o ts).trials := by
  have h1 : (summarise o ts).trials = ts.length := by
    unfold summarise; rw [foldl_trials]; simp
  refine ⟨h1, ?_⟩
  rw [h1, ← class_partition ts]
  congr 1
  apply List.map_congr_left
  intro c _
  rw [C05_lists, List.length_map]

theorem bestInv_congr {lt : Int → Int → Bool} {meets : Int → Bool} {p : List TrialV} {s s' : Loop}
    (h : BestInv lt meets p s) (hb : s'.best = s.best) (hv : s'.bestVal = s.bestVal)
    (hg : s'.goalReached = s.goalReached) : BestInv lt meets p s' := by
  constructor
  · rw [hb]; exact h.none_iff
  · rw [hb, hv]; exact h.some_spec
  · rw [hg, hb, hv]; exact h.goal_iff

theorem bestInv_foldl (o : Objective) (ts p : List TrialV) (s : Loop)
    (hnum : ∀ t ∈ ts, avail t → keyOf t ≠ none)
    (h : BestInv (ltOf o) (meetsOf o) p s) :
    BestInv (ltOf o) (meetsOf o) (p ++ ts) (ts.foldl (stepTrial o) s) := by
  induction ts generalizing p s with
  | nil => simpa using h
  | cons t ts ih =>
    simp only [List.foldl_cons]
    have : p ++ t :: ts = (p ++ [t]) ++ ts := by simp
    rw [this]
    apply ih _ _ (fun t' ht' => hnum t' (by simp [ht']))
    unfold stepTrial
    simp only []
    by_cases ha : avail t
    · cases hk : keyOf t with
      | none => exact absurd hk (hnum t (by simp) ha)
      | some v =>
        rw [stepBest_num o _ t v ha hk]
        have h0 : BestInv (ltOf o) (meetsOf o) p
            { s with trials := s.trials + 1, lists := s.lists.push (classify t) t.name } :=
          bestInv_congr h rfl rfl rfl
        exact bestInv_stepNum (ordOK_of o) h0 t v ha hk
    · rw [stepBest_unavail o _ t ha]
      exact h.skip t ha _ rfl rfl rfl

/-- C05_optimal: (all available objective values numeric) the optimal trial is a trial of the list with an
    available value that no other available value beats, the first such in list order; there is none iff
    no trial has an available value; and the goal flag is raised iff some available value meets the goal. -/
theorem C05_optimal (o : Objective) (ts : List TrialV) (hnum : ∀ t ∈ ts, avail t → keyOf t ≠ none) :
    ((summarise o ts).best = none ↔ ∀ t ∈ ts, ¬ avail t) ∧
    (∀ b, (summarise o ts).best = some b → ∃ v pre post, ts = pre ++ b :: post ∧ avail b ∧ keyOf b = some v ∧
        (∀ t ∈ pre, avail t → ∀ v', keyOf t = some v' → ltOf o v v' = true) ∧
        (∀ t ∈ post, avail t → ∀ v', keyOf t = some v' → ltOf o v' v = false)) ∧
    ((summarise o ts).goalReached = true ↔ ∃ t ∈ ts, avail t ∧ ∃ v, keyOf t = some v ∧ meetsOf o v = true) := by
  have h := bestInv_foldl o ts [] {} hnum (bestInv_init _ _)
  simp only [List.nil_append] at h
  have ok := ordOK_of o
  refine ⟨h.none_iff, ?_, ?_⟩
  · intro b hb
    obtain ⟨pre, post, h1, h2, h3, h4, h5⟩ := h.some_spec b hb
    exact ⟨_, pre, post, h1, h2, h3, h4, h5⟩
  · unfold summarise
    rw [h.goal_iff]
    constructor
    · intro ⟨h1, h2⟩
      cases hb : (ts.foldl (stepTrial o) {}).best with
      | none => rw [hb] at h1; cases h1
      | some b =>
        obtain ⟨pre, post, hp, ha, hk, _, _⟩ := h.some_spec b hb
        exact ⟨b, by rw [hp]; simp, ha, _, hk, h2⟩
    · intro ⟨t, ht, ha, v, hk, hm⟩
      cases hb : (ts.foldl (stepTrial o) {}).best with
      | none => exact absurd ha (h.none_iff.mp hb t ht)
      | some b =>
        refine ⟨rfl, ?_⟩
        obtain ⟨pre, post, hp, _, hkb, h3, h4⟩ := h.some_spec b hb
        apply ok.mono v _ _ hm
        rw [hp] at ht
        simp only [List.mem_append, List.mem_cons] at ht
        rcases ht with h5 | h5 | h5
        · -- t before b: lt best v, so not lt v best
          have := h3 t h5 ha v hk
          cases hx : ltOf o v (ts.foldl (stepTrial o) {}).bestVal with
          | false => rfl
          | true => have h6 := ok.trans _ _ _ hx this; rw [ok.irrefl] at h6; cases h6
        · subst h5; rw [hkb] at hk; cases hk; exact ok.irrefl _
        · exact h4 t h5 ha v hk

/-- minimize: the optimal value is ≤ every available value (and < every earlier one); the goal flag says some value ≤ goal -/
theorem C05_optimal_minimize (o : Objective) (ts : List TrialV) (hty : o.ty = .minimize)
    (hnum : ∀ t ∈ ts, avail t → keyOf t ≠ none) (b : TrialV) (hb : (summarise o ts).best = some b) :
    b ∈ ts ∧ avail b ∧ ∃ v, keyOf b = some v ∧ ∀ t ∈ ts, avail t → ∀ v', keyOf t = some v' → v ≤ v' := by
  obtain ⟨v, pre, post, hp, ha, hk, h1, h2⟩ := (C05_optimal o ts hnum).2.1 b hb
  refine ⟨by rw [hp]; simp, ha, v, hk, ?_⟩
  intro t ht ha' v' hk'
  rw [hp] at ht
  simp only [List.mem_append, List.mem_cons] at ht
  have hlt : ∀ a c, ltOf o a c = decide (a < c) := by intro a c; simp [ltOf, hty]
  rcases ht with h | h | h
  · have := h1 t h ha' v' hk'; rw [hlt] at this; simp at this; omega
  · subst h; rw [hk] at hk'; cases hk'; omega
  · have := h2 t h ha' v' hk'; rw [hlt] at this; simp at this; omega

/-- maximize: the optimal value is ≥ every available value -/
theorem C05_optimal_maximize (o : Objective) (ts : List TrialV) (hty : o.ty = .maximize)
    (hnum : ∀ t ∈ ts, avail t → keyOf t ≠ none) (b : TrialV) (hb : (summarise o ts).best = some b) :
    b ∈ ts ∧ avail b ∧ ∃ v, keyOf b = some v ∧ ∀ t ∈ ts, avail t → ∀ v', keyOf t = some v' → v' ≤ v := by
  obtain ⟨v, pre, post, hp, ha, hk, h1, h2⟩ := (C05_optimal o ts hnum).2.1 b hb
  refine ⟨by rw [hp]; simp, ha, v, hk, ?_⟩
  intro t ht ha' v' hk'
  rw [hp] at ht
  simp only [List.mem_append, List.mem_cons] at ht
  have hlt : ∀ a c, ltOf o a c = decide (c < a) := by intro a c; simp [ltOf, hty]
  rcases ht with h | h | h
  · have := h1 t h ha' v' hk'; rw [hlt] at this; simp at this; omega
  · subst h; rw [hk] at hk'; cases hk'; omega
  · have := h2 t h ha' v' hk'; rw [hlt] at this; simp at this; omega

/-- C05_order_invariant: the optimal *value*, whether there is an optimum, and the goal flag do not depend on
    the order in which the trials are listed. -/
theorem C05_order_invariant (o : Objective) (ts ts' : List TrialV) (hperm : ts'.Perm ts) (hty : o.ty ≠ .other)
    (hnum : ∀ t ∈ ts, avail t → keyOf t ≠ none) :
    ((summarise o ts').best = none ↔ (summarise o ts).best = none) ∧
    ((summarise o ts').goalReached = (summarise o ts).goalReached) ∧
    (∀ b b', (summarise o ts).best = some b → (summarise o ts').best = some b' → keyOf b' = keyOf b) := by
  have hnum' : ∀ t ∈ ts', avail t → keyOf t ≠ none := fun t ht => hnum t (hperm.mem_iff.mp ht)
  have A := C05_optimal o ts hnum
  have B := C05_optimal o ts' hnum'
  refine ⟨?_, ?_, ?_⟩
  · rw [A.1, B.1]
    constructor
    · intro h t ht; exact h t (hperm.mem_iff.mpr ht)
    · intro h t ht; exact h t (hperm.mem_iff.mp ht)
  · have : ((summarise o ts').goalReached = true ↔ (summarise o ts).goalReached = true) := by
      rw [A.2.2, B.2.2]
      constructor
      · rintro ⟨t, ht, r⟩; exact ⟨t, hperm.mem_iff.mp ht, r⟩
      · rintro ⟨t, ht, r⟩; exact ⟨t, hperm.mem_iff.mpr ht, r⟩
    cases h1 : (summarise o ts').goalReached <;> cases h2 : (summarise o ts).goalReached <;> simp_all
  · intro b b' hb hb'
    cases hty' : o.ty with
    | other => exact absurd hty' hty
    | minimize =>
      obtain ⟨m1, a1, v, k1, l1⟩ := C05_optimal_minimize o ts hty' hnum b hb
      obtain ⟨m2, a2, v', k2, l2⟩ := C05_optimal_minimize o ts' hty' hnum' b' hb'
      have x := l1 b' (hperm.mem_iff.mp m2) a2 v' k2
      have y := l2 b (hperm.mem_iff.mpr m1) a1 v k1
      rw [k1, k2]; congr 1; omega
    | maximize =>
      obtain ⟨m1, a1, v, k1, l1⟩ := C05_optimal_maximize o ts hty' hnum b hb
      obtain ⟨m2, a2, v', k2, l2⟩ := C05_optimal_maximize o ts' hty' hnum' b' hb'
      have x := l1 b' (hperm.mem_iff.mp m2) a2 v' k2
      have y := l2 b (hperm.mem_iff.mpr m1) a1 v k1
      rw [k1, k2]; congr 1; omega

/-- the objective value is extracted per the metric strategy with the latest-fallback -/
theorem C05_objective_strategy (t : TrialV) (m : MetricV) (rest : List MetricV) (st : Strat)
    (hobs : t.obs = some (m :: rest)) (hname : t.objName = m.name)
    (hs : t.strategies.find? (fun s => s.1 = t.objName) = some (t.objName, st)) :
    objectiveOf t = match st with
      | .min => if m.min = unavailable then (m.latest, m.latestK) else (m.min, m.minK)
      | .max => if m.max = unavailable then (m.latest, m.latestK) else (m.max, m.maxK)
      | .latest => (m.latest, m.latestK)
      | .other => objectiveOf.go t .other rest := by
  unfold objectiveOf
  simp only [hobs, hs]
  cases st <;> simp [objectiveOf.go, hname]

/-! Non-vacuity: a concrete three-trial list with distinct names meets every hypothesis above. -/
example :
    let mk (n : String) (f s : Bool) (latest : String) (k : Key) : TrialV :=
      { name := n, killed := false, failed := f, succeeded := s, earlyStopped := false, running := false,
        metricsUnavailable := false, objName := "acc", strategies := [("acc", .latest)],
        obs := some [⟨"acc", latest, k, latest, k, latest, k⟩] }
    let ts := [mk "a" false true "0.5" (some 5), mk "b" true false "unavailable" none, mk "c" false true "0.3" (some 3)]
    ((summarise ⟨.minimize, some 4⟩ ts).best.map (·.name) = some "c") ∧ (summarise ⟨.minimize, some 4⟩ ts).goalReached = true ∧
    (summarise ⟨.minimize, some 4⟩ ts).lists.succeeded = ["a", "c"] ∧ (summarise ⟨.minimize, some 4⟩ ts).lists.failed = ["b"] := by
  decide

end Katib.Exp
