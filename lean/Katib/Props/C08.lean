import Katib.Lemmas.Prog
/-!
# C08 — Suggestions are append-only, exactly counted and synced atomically

Statements about every Suggestion status write on every path of `Katib.Ctl.sugPlan` (any view, fault mask, abort
point, algorithm reply).
-/
namespace Katib.Ctl
open Katib

/-- a status write either leaves the assignments alone or appends exactly `requests - suggestionCount` fresh names
    taken from one algorithm reply, with `suggestionCount` = list length -/
def SyncGuard (v : World) (s : SugO) : Call → Prop
  | .sugStatus _ _ st' =>
    (st'.names = s.st.names ∧ st'.count = s.st.count) ∨
    (∃ n : Nat, st'.names = s.st.names ++ freshNames s.key.name v.algoN n ∧ (n : Int) = s.requests - s.st.count ∧
       0 < n ∧ st'.count = (st'.names.length : Nat))
  | _ => True

/-- status writes that keep the assignments -/
def KeepGuard (s : SugO) : Call → Prop
  | .sugStatus _ _ st' => st'.names = s.st.names ∧ st'.count = s.st.count
  | _ => True

theorem keep_sync (v : World) (s : SugO) (c : Call) (h : KeepGuard s c) : SyncGuard v s c := by
  cases c <;> first | trivial | exact Or.inl h

theorem all_sugFinish_keep (s : SugO) (st : SugSt) (h1 : st.names = s.st.names) (h2 : st.count = s.st.count) :
    (sugFinish s st).All (KeepGuard s) := by
  unfold sugFinish; split
  · trivial
  · exact ⟨⟨h1, h2⟩, trivial, trivial⟩

theorem all_sugErr_keep (s : SugO) (st : SugSt) : (sugErr s st).All (KeepGuard s) := by
  unfold sugErr; split
  · trivial
  · exact ⟨⟨rfl, rfl⟩, trivial, trivial⟩

theorem length_freshNames (e : String) (n k : Nat) : (freshNames e n k).length = k := by
  induction k generalizing n with
  | zero => rfl
  | succ k ih => simp [freshNames, ih]

theorem all_sugAfterReply (v : World) (s : SugO) (st : SugSt) (env : SugEnv) (k : Nat) (cur : Int)
    (h1 : st.names = s.st.names) (h2 : st.count = s.st.count) (hcur : cur = s.requests - st.count) (hpos : 0 < cur) :
    (sugAfterReply v s st env k cur).All (SyncGuard v s) := by
  have errK : (sugErr s st).All (SyncGuard v s) := (all_sugErr_keep s st).mono (keep_sync v s)
  unfold sugAfterReply
  split
  · exact errK
  · rename_i hk
    simp only [ne_eq, Decidable.not_not] at hk
    have fin : (sugFinish s (sugAppend v s st k)).All (SyncGuard v s) := by
      unfold sugFinish; split
      · trivial
      · refine ⟨Or.inr ⟨k, by simp [sugAppend, h1], by rw [hk, hcur, h2], by omega, rfl⟩, trivial, trivial⟩
    split
    · exact ⟨trivial, fin, errK⟩
    · exact fin

theorem all_sugSync (v : World) (s : SugO) (st : SugSt) (ts : List TrialO) (env : SugEnv)
    (h1 : st.names = s.st.names) (h2 : st.count = s.st.count) : (sugSync v s st ts env).All (SyncGuard v s) := by
  have errK : (sugErr s st).All (SyncGuard v s) := (all_sugErr_keep s st).mono (keep_sync v s)
  unfold sugSync
  simp only []
  split
  · exact (all_sugFinish_keep s st h1 h2).mono (keep_sync v s)
  · rename_i hcur
    split
    · exact ⟨trivial, errK, errK⟩
    · exact ⟨trivial, all_sugAfterReply v s st env _ _ h1 h2 rfl (by omega), errK⟩

theorem all_sugTail (v : World) (s : SugO) (st1 : SugSt) (env : SugEnv) (now : Nat)
    (h1 : st1.names = s.st.names) (h2 : st1.count = s.st.count) : (sugTail v s st1 env now).All (SyncGuard v s) := by
  have keepFin : ∀ st : SugSt, st.names = s.st.names → st.count = s.st.count → (sugFinish s st).All (SyncGuard v s) :=
    fun st h1 h2 => (all_sugFinish_keep s st h1 h2).mono (keep_sync v s)
  have errK : ∀ st, (sugErr s st).All (SyncGuard v s) := fun st => (all_sugErr_keep s st).mono (keep_sync v s)
  unfold sugTail
  split
  · exact errK _
  · simp only []
    split
    · refine ⟨trivial, ?_, keepFin _ h1 h2⟩
      split
      · exact ⟨trivial, all_sugSync v s _ _ env h1 h2, keepFin _ h1 h2⟩
      · exact all_sugSync v s _ _ env h1 h2
    · exact all_sugSync v s _ _ env h1 h2

theorem all_sugDeploy (v : World) (s : SugO) (env : SugEnv) (now : Nat) : (sugDeploy v s env now).All (SyncGuard v s) := by
  have keepFin : ∀ st : SugSt, st.names = s.st.names → st.count = s.st.count → (sugFinish s st).All (SyncGuard v s) :=
    fun st h1 h2 => (all_sugFinish_keep s st h1 h2).mono (keep_sync v s)
  have errK : ∀ st, (sugErr s st).All (SyncGuard v s) := fun st => (all_sugErr_keep s st).mono (keep_sync v s)
  unfold sugDeploy
  simp only []
  split
  · exact ⟨trivial, keepFin _ rfl rfl, errK _⟩
  · split
    · exact keepFin _ rfl rfl
    · exact all_sugTail v s _ env now rfl rfl

theorem all_createIfAbsent {P : Call → Prop} (b : Bool) (c : Call) (next fail : Prog) (hc : P c)
    (h1 : next.All P) (h2 : fail.All P) : (createIfAbsent b c next fail).All P := by
  unfold createIfAbsent; split
  · exact h1
  · exact ⟨hc, h1, h2⟩

theorem all_sugReconcile (v : World) (s : SugO) (env : SugEnv) (now : Nat) : (sugReconcile v s env now).All (SyncGuard v s) := by
  have errK : ∀ st, (sugErr s st).All (SyncGuard v s) := fun st => (all_sugErr_keep s st).mono (keep_sync v s)
  have rbac : (sugRbac v s env now).All (SyncGuard v s) := by
    unfold sugRbac
    simp only []
    split
    · exact all_createIfAbsent _ _ _ _ trivial (all_createIfAbsent _ _ _ _ trivial
        (all_createIfAbsent _ _ _ _ trivial (all_sugDeploy v s env now) (errK _)) (errK _)) (errK _)
    · exact all_sugDeploy v s env now
  unfold sugReconcile
  simp only []
  split
  · exact all_createIfAbsent _ _ _ _ trivial (all_createIfAbsent _ _ _ _ trivial rbac (errK _)) (errK _)
  · exact all_createIfAbsent _ _ _ _ trivial rbac (errK _)

/-- C08_sync_guard: every Suggestion status write of a reconcile keeps the assignments or appends exactly
    `requests − suggestionCount` new ones from a single reply (so the list only grows, by appending). -/
theorem C08_sync_guard (v : World) (k : Key2) (env : SugEnv) (now : Nat) (s : SugO) (hs : findSug v k = some s) :
    (sugPlan v k env now).All (SyncGuard v s) := by
  unfold sugPlan
  rw [hs]
  simp only []
  split
  · split
    · split
      · exact ⟨trivial, ⟨trivial, trivial, trivial⟩, trivial⟩
      · exact ⟨trivial, trivial, trivial⟩
    · split
      · exact ⟨trivial, trivial, trivial⟩
      · trivial
  · split
    · exact (all_sugFinish_keep s { s.st with started := true, conds := Cond.set s.st.conds .created true rSugCreated now } rfl rfl).mono (keep_sync v s)
    · exact all_sugReconcile v s env now

/-- after a failed algorithm RPC (`GetSuggestions` or `GetEarlyStoppingRules`) no later write of the reconcile
    touches the assignments -/
def Prog.AfterFail (isC : Call → Bool) (P : Call → Prop) : Prog → Prop
  | .done _ => True
  | .step c ok fail => (if isC c then fail.All P else fail.AfterFail isC P) ∧ ok.AfterFail isC P

def isAlgoRpc : Call → Bool
  | .rpcGetSuggestions _ _ _ _ _ _ => true
  | .rpcGetRules _ _ => true
  | _ => false

theorem Prog.AfterFail.of_all {isC : Call → Bool} {P : Call → Prop} : ∀ {p : Prog}, p.All P → p.AfterFail isC P
  | .done _, _ => trivial
  | .step c _ _, ⟨_, h2, h3⟩ => by
    refine ⟨?_, Prog.AfterFail.of_all h2⟩
    split
    · exact h3
    · exact Prog.AfterFail.of_all h3

/-- C08_atomic: on any RPC error the assignments are left unchanged (only conditions may be persisted). -/
theorem C08_atomic (v : World) (s : SugO) (st : SugSt) (ts : List TrialO) (env : SugEnv) :
    (sugSync v s st ts env).AfterFail isAlgoRpc (KeepGuard s) := by
  have errK : (sugErr s st).All (KeepGuard s) := all_sugErr_keep s st
  have finAF : ∀ st', (sugFinish s st').AfterFail isAlgoRpc (KeepGuard s) := by
    intro st'; unfold sugFinish; split
    · trivial
    · exact ⟨by simp [isAlgoRpc, Prog.AfterFail], trivial⟩
  unfold sugSync
  simp only []
  split
  · exact finAF _
  · split
    · exact ⟨by simp only [isAlgoRpc, if_true]; exact errK, Prog.AfterFail.of_all errK⟩
    · refine ⟨by simp only [isAlgoRpc, if_true]; exact errK, ?_⟩
      unfold sugAfterReply
      split
      · exact Prog.AfterFail.of_all errK
      · split
        · exact ⟨by simp only [isAlgoRpc, if_true]; exact errK, finAF _⟩
        · exact finAF _

/-- a reply of the wrong size appends nothing: whatever the service answers, every later write keeps the assignments -/
theorem C08_wrong_size (v : World) (s : SugO) (st : SugSt) (env : SugEnv) (k : Nat) (cur : Int) (h : (k : Int) ≠ cur) :
    (sugAfterReply v s st env k cur).All (KeepGuard s) := by
  unfold sugAfterReply; simp only [h, ne_eq, not_false_eq_true, if_true]; exact all_sugErr_keep s st

/-- names of one reply are pairwise distinct and new w.r.t. the service's counter -/
theorem freshNames_mem (e : String) (n k : Nat) (x : String) (h : x ∈ freshNames e n k) :
    ∃ i, n < i ∧ i ≤ n + k ∧ x = freshName e i := by
  induction k generalizing n with
  | zero => cases h
  | succ k ih =>
    simp only [freshNames, List.mem_cons] at h
    cases h with
    | inl h => exact ⟨n + 1, by omega, by omega, h⟩
    | inr h => obtain ⟨i, h1, h2, h3⟩ := ih (n + 1) h; exact ⟨i, by omega, by omega, h3⟩

/-! Non-vacuity: requests 2, count 0, deployment ready, running suggestion ⇒ the sync appends two fresh names. -/
example :
    let s : SugO := { key := ⟨"ns", "e"⟩, requests := 2, resume := .longRunning, es := false,
                      st := { conds := [⟨.created, true, rSugCreated, 0⟩, ⟨.running, true, rSugRunning, 1⟩] } }
    (sugSync { algoN := 4 } s s.st [] {}).calls.any (fun c => match c with
      | .sugStatus _ _ st => st.names == ["e-t5", "e-t6"] && st.count == 2 | _ => false) = true := by decide

end Katib.Ctl
