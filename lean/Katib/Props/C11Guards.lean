import Katib.Gen.Guards
import Katib.Model.Metrics
/-!
# C11: one iteration of the model's `getMetrics` loop assigns min / max / latest under the source's path conditions

`Katib/Gen/Guards.lean` (regenerated on every run by `kvh extract guards`) holds the conditions under which one iteration of
the loop over the metric logs in `getMetrics` (pkg/controller.v1beta1/trial/trial_controller_util.go) assigns `metric.Min`,
`metric.Max` and `metric.Latest` (two sites each for Min and Max: the first parsable value, and a value below / above the
current one) and returns the timestamp error.  The atoms read on the model: `ok` = the entry's metric is a tracked one (the
record at hand carries its name), `err == nil` = ParseFloat succeeded (`key`), `metric.Min == unavailable` = no parsable value
was seen yet, `floatValue < minMetric` / `> maxMetric` on the keys, `timestamp == nil` / `timestamp.After(currentTime)` on the
recorded instant.
-/
namespace Katib.Gen
open Katib.Metrics

theorem C11_loop_guards_known :
    setMinGuardUnknown = [] ∧ setMaxGuardUnknown = [] ∧ setLatestGuardUnknown = [] ∧ tsErrorGuardUnknown = [] ∧
    setMinGuardSites = 2 ∧ setMaxGuardSites = 2 ∧ setLatestGuardSites = 1 ∧ tsErrorGuardSites = 1 := by decide

/-- the generated guards on a record and an entry; `d` = what a comparison with an unset bound / instant would read (never used) -/
def gmG (tracked : Bool) (m : Metric) (e : Entry) (d : Bool)
    (g : Bool → Bool → Bool → Bool → Bool → Bool → Bool → Bool → Bool → Bool) : Bool :=
  g tracked e.key.isSome e.ts.isNone (!(m.minK.isSome && m.maxK.isSome))
    (match e.key, m.minK with | some k, some lo => decide (k < lo) | _, _ => d)
    (match e.key, m.maxK with | some k, some hi => decide (hi < k) | _, _ => d)
    m.lastTs.isNone
    (match e.ts, m.lastTs with | some t, some l => decide (t < l) | _, _ => d) false

/-- the iteration written with the generated guards -/
def updMetricGen (m : Metric) (e : Entry) (d : Bool) : Option Metric :=
  if gmG true m e d tsErrorGuard then none
  else
    let lo := gmG true m e d setMinGuard
    let hi := gmG true m e d setMaxGuard
    let la := gmG true m e d setLatestGuard
    some { m with min := if lo then e.text else m.min, minK := if lo then e.key else m.minK,
                  max := if hi then e.text else m.max, maxK := if hi then e.key else m.maxK,
                  latest := if la then e.text else m.latest, lastTs := if la then e.ts else m.lastTs,
                  latestK := if la then e.key else m.latestK }

set_option linter.unusedSimpArgs false in
/-- **C11_iteration_is_source** -/
theorem C11_iteration_is_source (m : Metric) (e : Entry) (d : Bool) : updMetric m e = updMetricGen m e d := by
  obtain ⟨n, mn, mx, la, minK, maxK, lastTs, lk⟩ := m
  obtain ⟨em, et, ek, ets⟩ := e
  unfold updMetric updMetricGen gmG tsErrorGuard setMinGuard setMaxGuard setLatestGuard updLatest updMinMax
  cases ets <;> cases ek <;> cases minK <;> cases maxK <;> cases lastTs <;> simp <;> (repeat' split) <;> (try simp_all) <;>
    (try omega)

/-- an entry of a metric that is not tracked changes nothing and cannot fail on its own: all four guards are false -/
theorem C11_untracked_is_source (m : Metric) (e : Entry) (d : Bool) :
    gmG false m e d setMinGuard = false ∧ gmG false m e d setMaxGuard = false ∧ gmG false m e d setLatestGuard = false ∧
    gmG false m e d tsErrorGuard = false := by
  unfold gmG setMinGuard setMaxGuard setLatestGuard tsErrorGuard; simp

/-- what one iteration does to one record of the map, written with the generated guards -/
def stepOneGen (e : Entry) (d : Bool) (m : Metric) : Option Metric :=
  if m.name = e.metric then updMetricGen m e d else some m

/-- the loop over the metric logs written with the generated guards: the timestamp error of any entry ends it -/
def runGen (d : Bool) : List Metric → List Entry → Option (List Metric)
  | ms, [] => some ms
  | ms, e :: es =>
    match optMap (stepOneGen e d) ms with
    | some ms' => runGen d ms' es
    | none => none

theorem stepOne_eq_gen (e : Entry) (d : Bool) : stepOne e = stepOneGen e d := by
  funext m; unfold stepOne stepOneGen; rw [C11_iteration_is_source m e d]

/-- **C11_loop_is_source**: for every list of metric logs (any length, any order, any mix of tracked and other metrics) and
    every set of records, the model's loop is the iteration of the step that decides under the regenerated path conditions -/
theorem C11_loop_is_source (d : Bool) (ms : List Metric) (es : List Entry) : run ms es = runGen d ms es := by
  induction es generalizing ms with
  | nil => simp [run, runGen]
  | cons e es ih =>
    simp only [run, runGen, stepEntry, stepOne_eq_gen e d]
    cases optMap (stepOneGen e d) ms with
    | none => rfl
    | some ms' => exact ih ms'

/-- **C11_getMetrics_is_source**: `getMetrics` as a whole, from the records of the objective and additional metric names -/
theorem C11_getMetrics_is_source (d : Bool) (es : List Entry) (strategies : List String) :
    getMetrics es strategies = runGen d (initMetrics strategies) es := by
  unfold getMetrics; exact C11_loop_is_source d _ es

end Katib.Gen
