import Katib.Lemmas.Prog
/-!
# C07 — Trial run object: one per trial, never recreated, cleaned up per retain

Statements about `Katib.Ctl.trialPlan` (model of `ReconcileTrial.Reconcile`).  `Prog.All P` = `P` holds of every
call on every path of the reconcile's decision tree, i.e. whatever write faults and abort point the environment
chooses; `v` is an arbitrary view (any lag).
-/
namespace Katib.Ctl
open Katib

/-- after `reconcileJob` a trial reconcile only reads the DB, reports `unavailable` (push) and writes the Trial status -/
def NotJobCall : Call → Prop
  | .trialStatus _ _ _ => True
  | .dbGet _ => True
  | .dbReport _ _ => True
  | _ => False

theorem all_trialFinish (P : Call → Prop) (t : TrialO) (st : TrialSt)
    (h : st ≠ t.st → P (.trialStatus t.key t.rv st)) : (trialFinish t st).All P := by
  unfold trialFinish; split
  · trivial
  · rename_i hne; exact ⟨h hne, trivial, trivial⟩

theorem all_trialFinish_notJob (t : TrialO) (st : TrialSt) : (trialFinish t st).All NotJobCall :=
  all_trialFinish _ t st (fun _ => trivial)

theorem all_upd_notJob (t : TrialO) (st : TrialSt) (js : JobCond) (now : Nat) :
    (trialUpdateCondition t st js now).All NotJobCall := by
  unfold trialUpdateCondition
  repeat' first
    | exact all_trialFinish_notJob _ _
    | split
    | (simp only [Prog.All]; refine ⟨?_, ?_, ?_⟩)
    | trivial
    | simp only [Prog.All]

theorem all_trialObserve_notJob (v : World) (t : TrialO) (js : JobCond) (now : Nat) :
    (trialObserve v t js now).All NotJobCall := by
  unfold trialObserve
  repeat' first
    | exact all_trialFinish_notJob _ _
    | exact all_upd_notJob _ _ _ _
    | split
    | (simp only [Prog.All]; refine ⟨?_, ?_, ?_⟩)
    | trivial
    | simp only [Prog.All]

theorem all_trialAfterJob_notJob (v : World) (t : TrialO) (state : JobState) (now : Nat) :
    (trialAfterJob v t state now).All NotJobCall := by
  unfold trialAfterJob
  repeat' first
    | exact all_trialFinish_notJob _ _
    | exact all_trialObserve_notJob _ _ _ _
    | split
    | (simp only [Prog.All]; refine ⟨?_, ?_, ?_⟩)
    | trivial
    | simp only [Prog.All]

/-- what the model allows a trial reconcile to do to run objects -/
def JobGuard (v : World) (k : Key2) : Call → Prop
  | .jobCreate k' => k' = k ∧ findJob v k = none ∧ ∃ t, findTrial v k = some t ∧ tCompleted t = false
  | .jobDelete k' => k' = k ∧ (findJob v k).isSome = true ∧ ∃ t, findTrial v k = some t ∧ tCompleted t = true ∧ t.retain = false
  | _ => True

theorem notJob_guard (v : World) (k : Key2) (c : Call) (h : NotJobCall c) : JobGuard v k c := by
  cases c <;> first | trivial | exact absurd h id

/-- C07_run_object_guard: a run object is created only under the Trial's own name, only when the controller sees none,
    and never for a completed Trial; it is deleted only for a completed Trial with retain = false. -/
theorem C07_run_object_guard (v : World) (k : Key2) (now : Nat) : (trialPlan v k now).All (JobGuard v k) := by
  unfold trialPlan
  split
  · trivial
  · rename_i t ht
    have fin : ∀ st, (trialFinish t st).All (JobGuard v k) := fun st =>
      (all_trialFinish_notJob t st).mono (notJob_guard v k)
    have aft : ∀ s, (trialAfterJob v t s now).All (JobGuard v k) := fun s =>
      (all_trialAfterJob_notJob v t s now).mono (notJob_guard v k)
    split
    · exact ⟨trivial, trivial, trivial⟩
    · split
      · exact ⟨trivial, ⟨trivial, trivial, trivial⟩, trivial⟩
      · split
        · exact fin _
        · split
          · rename_i hj
            split
            · exact fin _
            · rename_i hc
              refine ⟨⟨rfl, hj, t, ht, by simpa using hc⟩, aft _, trivial⟩
          · rename_i j hj
            split
            · rename_i hc
              simp only [Bool.and_eq_true, Bool.not_eq_true'] at hc
              exact ⟨⟨rfl, by simp [hj], t, ht, hc.1, hc.2⟩, trivial, trivial⟩
            · exact aft _

def isJobCreate : Call → Bool
  | .jobCreate _ => true
  | _ => false

theorem notJob_noCreate (c : Call) (h : NotJobCall c) : isJobCreate c = false := by
  cases c <;> first | rfl | exact absurd h id

/-- C07_at_most_one_create: on no path does one reconcile create two run objects. -/
theorem C07_at_most_one_create (v : World) (k : Key2) (now : Nat) : (trialPlan v k now).maxOnPath isJobCreate ≤ 1 := by
  unfold trialPlan
  split
  · simp [Prog.maxOnPath]
  · rename_i t ht
    have fin : ∀ st, (trialFinish t st).maxOnPath isJobCreate = 0 := fun st =>
      Prog.maxOnPath_zero_of_all ((all_trialFinish_notJob t st).mono notJob_noCreate)
    have aft : ∀ s, (trialAfterJob v t s now).maxOnPath isJobCreate = 0 := fun s =>
      Prog.maxOnPath_zero_of_all ((all_trialAfterJob_notJob v t s now).mono notJob_noCreate)
    split
    · simp [Prog.maxOnPath, isJobCreate]
    · split
      · simp [Prog.maxOnPath, isJobCreate]
      · split
        · rw [fin]; omega
        · split
          · split
            · rw [fin]; omega
            · simp [Prog.maxOnPath, isJobCreate, aft]
          · split
            · simp [Prog.maxOnPath, isJobCreate]
            · rw [aft]; omega

/-- C07_db_before_finalizer: for a deleted Trial that still holds the finalizer, the reconcile is exactly
    "delete the observation logs, and only if that succeeded release the finalizer"; a DB error keeps the finalizer. -/
theorem C07_db_before_finalizer (v : World) (k : Key2) (now : Nat) (t : TrialO)
    (ht : findTrial v k = some t) (hd : t.deleted = true) (hf : t.fin = true) :
    trialPlan v k now =
      .step (.dbDelete k.name) (.step (.trialUpdateFin k t.rv false) (.done .requeue) (.done .err)) (.done .err) := by
  unfold trialPlan
  simp [ht, hd, hf]

def FinGuard (v : World) (k : Key2) : Call → Prop
  | .trialUpdateFin _ _ false => ∃ t, findTrial v k = some t ∧ t.deleted = true ∧ t.fin = true
  | _ => True

theorem notJob_finGuard (v : World) (k : Key2) (c : Call) (h : NotJobCall c) : FinGuard v k c := by
  cases c <;> first | trivial | exact absurd h id

/-- the finalizer is released nowhere else -/
theorem C07_finalizer_release_only_after_db (v : World) (k : Key2) (now : Nat) :
    (trialPlan v k now).All (FinGuard v k) := by
  unfold trialPlan
  split
  · trivial
  · rename_i t ht
    have fin : ∀ st, (trialFinish t st).All (FinGuard v k) := fun st =>
      (all_trialFinish_notJob t st).mono (notJob_finGuard v k)
    have aft : ∀ s, (trialAfterJob v t s now).All (FinGuard v k) := fun s =>
      (all_trialAfterJob_notJob v t s now).mono (notJob_finGuard v k)
    split
    · exact ⟨trivial, trivial, trivial⟩
    · split
      · rename_i h1 h2
        simp only [Bool.and_eq_true] at h2
        exact ⟨trivial, ⟨⟨t, ht, h2.1, h2.2⟩, trivial, trivial⟩, trivial⟩
      · split
        · exact fin _
        · split
          · split
            · exact fin _
            · exact ⟨trivial, aft _, trivial⟩
          · split
            · exact ⟨trivial, trivial, trivial⟩
            · exact aft _

/-! Non-vacuity: a view with a created, unfinished trial and no run object makes the reconcile create it. -/
example :
    let t : TrialO := { key := ⟨"ns", "t1"⟩, exp := "e", fin := true, retain := false, push := false, objType := .maximize,
                        st := { conds := [⟨.created, true, rTrialCreated, 0⟩] } }
    ((trialPlan { trials := [t] } ⟨"ns", "t1"⟩ 5).calls.head? matches some (.jobCreate ⟨"ns", "t1"⟩)) := by decide

end Katib.Ctl
