import Katib.Model.Composer
/-!
# C17 — Generated algorithm-service resources are mutually consistent and reachable

Theorems about `Katib.Comp.desiredDeployment / desiredService / …` for every Suggestion and every katib-config entry.
-/
namespace Katib.Comp

/-- C17_selector: the Service selects exactly the Deployment's pods (selector = pod template labels = deployment selector). -/
theorem C17_selector (s : Sug) (c : Cfg) (d : Deployment) (h : desiredDeployment s c = some d) :
    (desiredService s).selector = d.podLabels ∧ d.selector = d.podLabels := by
  unfold desiredDeployment at h
  split at h
  · cases h
  · cases h; exact ⟨rfl, rfl⟩

/-- C17_ports: the Service exposes the suggestion port, and the early-stopping port iff early stopping is configured. -/
theorem C17_ports (s : Sug) :
    (desiredService s).ports = (suggestionPortName, suggestionPort) :: (if hasES s then [(earlyStoppingPortName, earlyStoppingPort)] else []) := rfl

/-- C17_endpoint: the controllers dial `<service>.<namespace>:port` of a port the Service exposes. -/
theorem C17_endpoint (s : Sug) :
    (algorithmEndpoint s).1 = (desiredService s).name ++ "." ++ (desiredService s).ns ∧
    (desiredService s).ports.any (fun p => p.2 = (algorithmEndpoint s).2) = true ∧
    (earlyStoppingEndpoint s).1 = (desiredService s).name ++ "." ++ (desiredService s).ns ∧
    (hasES s = true → (desiredService s).ports.any (fun p => p.2 = (earlyStoppingEndpoint s).2) = true) := by
  refine ⟨rfl, by simp [desiredService, algorithmEndpoint], rfl, ?_⟩
  intro h
  simp [desiredService, earlyStoppingEndpoint, h]

/-- C17_listening: a container of the pod declares every port the Service exposes. -/
theorem C17_listening (s : Sug) (c : Cfg) (d : Deployment) (h : desiredDeployment s c = some d) :
    ∀ p ∈ (desiredService s).ports, ∃ ct ∈ d.containers, ∃ q ∈ ct.ports, q.2 = p.2 := by
  unfold desiredDeployment at h
  split at h
  · cases h
  · cases h
    intro p hp
    simp only [desiredService, List.mem_cons] at hp
    rcases hp with rfl | hp
    · exact ⟨mainContainer s c, by simp [containers], (suggestionPortName, suggestionPort), by simp [mainContainer], rfl⟩
    · cases hes : hasES s with
      | false => simp [hes] at hp
      | true =>
        simp only [hes, if_true, List.mem_singleton] at hp
        subst hp
        exact ⟨esContainer, by simp [containers, hes], _, List.mem_singleton.mpr rfl, rfl⟩

/-- the reserved port is never declared twice by the suggestion container: a config that names it is rejected -/
theorem C17_reserved_port_rejected (s : Sug) (c : Cfg) (p : String × Int) (hp : p ∈ c.ports)
    (h : p.1 = suggestionPortName ∨ p.2 = suggestionPort) : desiredDeployment s c = none := by
  have : reservedPort c = true := by
    unfold reservedPort
    simp only [List.any_eq_true, decide_eq_true_eq]; exact ⟨p, hp, h⟩
  unfold desiredDeployment
  rw [this]; rfl

/-- C17_volume: with FromVolume the pod mounts the generated claim in the suggestion container. -/
theorem C17_volume (s : Sug) (c : Cfg) (d : Deployment) (h : desiredDeployment s c = some d) (hv : s.resume = .fromVolume) :
    d.volumes = [(volumeName, pvcName s)] ∧ ∃ ct, d.containers.head? = some ct ∧ volumeName ∈ ct.mounts := by
  unfold desiredDeployment at h
  split at h
  · cases h
  · cases h
    refine ⟨by simp [hv, pvcName], mainContainer s c, by simp [containers], ?_⟩
    unfold mainContainer
    simp only [hv, true_and]
    split
    · simp
    · rename_i hc; simpa using hc

/-- C17_rbac (partial: default service account): with early stopping and no custom serviceAccountName the pod runs under
    the generated ServiceAccount, which has the name of the Role and of the RoleBinding's subject and roleRef, and the
    controller reconciles these objects. -/
theorem C17_rbac_partial (s : Sug) (c : Cfg) (d : Deployment) (h : desiredDeployment s c = some d)
    (hes : hasES s = true) (hsa : c.serviceAccountName = "") :
    d.serviceAccount = rbacName s ∧ reconcilesRbac s c = true := by
  have hd : d.serviceAccount = rbacName s := by
    unfold desiredDeployment at h
    split at h
    · cases h
    · cases h; simp [hes, hsa, rbacName]
  refine ⟨hd, ?_⟩
  unfold reconcilesRbac
  simp [hes, h, hd]

/-- C17_rbac_counterexample (known finding, by design): with a custom serviceAccountName the pod does not run under the
    generated ServiceAccount and no RBAC objects are reconciled, although early stopping is configured. -/
theorem C17_rbac_counterexample :
    let s : Sug := ⟨"e", "ns", [], "random", .never, some "medianstop"⟩
    let c : Cfg := ⟨"", [], "custom-sa", "/opt", []⟩
    (desiredDeployment s c).map (·.serviceAccount) = some "custom-sa" ∧ reconcilesRbac s c = false := by decide

/-- C17_ns: every namespaced object lives in the Suggestion's namespace under the shared name. -/
theorem C17_ns (s : Sug) (c : Cfg) (d : Deployment) (h : desiredDeployment s c = some d) :
    d.ns = s.ns ∧ (desiredService s).ns = s.ns ∧ d.name = (desiredService s).name := by
  unfold desiredDeployment at h
  split at h
  · cases h
  · cases h; exact ⟨rfl, rfl, rfl⟩

/-! Non-vacuity -/
example : (desiredDeployment ⟨"e", "ns", [("a", "b")], "random", .fromVolume, some "medianstop"⟩ ⟨"", [("metrics", 9090)], "", "/opt", []⟩).isSome = true := by decide

end Katib.Comp
