import Katib.Gen.Guards
import Katib.Model.Update
/-!
# C15: the model's three update errors are raised under the source's path conditions

`Katib/Gen/Guards.lean` (regenerated on every run by `kvh extract guards`) holds the conditions under which the update branch
of `DefaultValidator.ValidateExperiment` appends "can be restarted if …" (`spec.resumePolicy`), "must be greater than
status.trials count" (`spec.maxTrialCount`) and the Forbidden error on `spec`.  The model's `updErrs` raises each error under
exactly that condition, with the atoms read as: `isRestarting` = the submitted spec differs from the stored one, the second
`DeepEqual` = equality after the three budget fields were copied over.
-/
namespace Katib.Gen
open Katib.Upd

theorem C15_update_guards_known :
    updNotRestartableGuardUnknown = [] ∧ updMaxNotAboveGuardUnknown = [] ∧ updForbiddenGuardUnknown = [] ∧
    updNotRestartableGuardSites = 1 ∧ updMaxNotAboveGuardSites = 1 ∧ updForbiddenGuardSites = 1 := by decide

/-- the generated guards at an update (`oldInst != nil`), the name / budget checks before it having no early return -/
def updG {R : Type} [DecidableEq R] (new : Spec R) (old : Old R)
    (g : Bool → Bool → Bool → Bool → Bool → Bool → Bool → Bool → Bool → Bool → Bool → Bool → Bool → Bool → Bool → Bool → Bool → Bool → Bool) : Bool :=
  g true (decide (new ≠ old.spec)) old.completed old.restartable new.max.isSome
    (match new.max with | some m => decide (m ≤ old.trials) | none => false)
    (decide (new = old.spec)) (decide ({ old.spec with par := new.par, max := new.max, mf := new.mf } = new))
    true false false false false false false false false false

set_option linter.unusedSimpArgs false in
/-- **C15_update_errors_are_source** -/
theorem C15_update_errors_are_source {R : Type} [DecidableEq R] (new : Spec R) (old : Old R) :
    updErrs new old =
      { notRestartable := updG new old updNotRestartableGuard, maxNotAbove := updG new old updMaxNotAboveGuard,
        forbidden := updG new old updForbiddenGuard } := by
  unfold updErrs updG updNotRestartableGuard updMaxNotAboveGuard updForbiddenGuard
  cases hm : new.max <;> simp [hm]

end Katib.Gen
