import Katib.Props.C04Quiescent
import Katib.Props.C07World
/-!
# C07 at quiescence: the run object of a completed Trial is there iff `retain` says so

`C07_quiescent_cleanup`: for **every** store in which the trial controller has no write to issue for Trial `k` (plan computed
on live reads) and the Trial is not being deleted: the Trial holds its finalizer and is Created; if it is completed and
`retain` is false its run object is gone; and if it is not completed its run object exists (a missing one would be created).
`C07_retained_not_deleted`: the plan of a completed Trial with `retain` never contains a delete of the run object.
-/
namespace Katib.Ctl
open Katib Katib.Exp

theorem C07_quiescent_cleanup (w : World) (k : Key2) (now : Nat) (t : TrialO) (ht : findTrial w k = some t)
    (hd : t.deleted = false) (q : (trialPlan w k now).noWrites) :
    t.fin = true ∧ tHas t .created = true ∧
    (tCompleted t = true → t.retain = false → findJob w k = none) ∧
    (tCompleted t = false → (findJob w k).isSome = true) := by
  unfold trialPlan at q
  simp only [ht, hd, Bool.not_false, Bool.true_and, Bool.false_and, Bool.false_eq_true, if_false] at q
  cases hf : t.fin with
  | false =>
    exfalso
    simp only [hf, Bool.not_false, if_true] at q
    have := (nw_step q).1; simp [isWrite] at this
  | true =>
    simp only [hf, Bool.not_true, Bool.false_eq_true, if_false] at q
    cases hcr : tHas t .created with
    | false =>
      exfalso
      simp only [hcr, Bool.not_false, if_true] at q
      have := congrArg (fun st => Cond.has st.conds .created) (nw_trialFinish q)
      simp only [Cond.has_set_self] at this
      unfold tHas at hcr
      rw [hcr] at this; cases this
    | true =>
      simp only [hcr, Bool.not_true, Bool.false_eq_true, if_false] at q
      refine ⟨rfl, rfl, ?_, ?_⟩
      · intro hc hr
        cases hj : findJob w k with
        | none => rfl
        | some j =>
          exfalso
          simp only [hj, hc, hr, Bool.not_false, Bool.and_self, if_true] at q
          have := (nw_step q).1; simp [isWrite] at this
      · intro hc
        cases hj : findJob w k with
        | some j => rfl
        | none =>
          exfalso
          simp only [hj, hc, Bool.false_eq_true, if_false] at q
          have := (nw_step q).1; simp [isWrite] at this

/-- with `retain` the trial controller's plan never deletes the run object -/
theorem C07_retained_not_deleted (v : World) (k : Key2) (now : Nat) (t : TrialO) (ht : findTrial v k = some t)
    (hr : t.retain = true) : (trialPlan v k now).All (fun c => match c with | .jobDelete _ => False | _ => True) := by
  refine (C07_run_object_guard v k now).mono ?_
  intro c hc
  cases c with
  | jobDelete k' =>
    obtain ⟨_, _, t', ht', _, hr'⟩ := hc
    rw [ht] at ht'; cases ht'
    rw [hr] at hr'; cases hr'
  | _ => trivial

end Katib.Ctl
