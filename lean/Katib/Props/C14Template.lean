import Katib.Props.C14
/-!
# C14 (template part): an admitted Experiment's trial parameters can be resolved for every feasible assignment

`C14_template_partial`: if the defaulted Experiment is admitted, every experiment parameter is consumed by a trial
parameter and every trial-metadata reference can be resolved on the template (these two hypotheses exclude exactly the
known findings C14-parameter-not-consumed-by-template and C14-unresolvable-trial-metadata-reference), then for **every**
assignment of values to the experiment's parameters the generator's placeholder map (`Katib.Tpl.placeholders`, the model of
`applyParameters` up to the textual substitution) is built without error: no "parameter not found", no count mismatch, no
illegal metadata reference.  (That the substituted text still parses as JSON is outside: finding
C14-json-metacharacter-in-feasible-value, and the JSON engine is an oracle.)
-/
namespace Katib.Adm
open Katib

/-! ### what an error-free loop over `trialParameters` establishes -/

theorem tpStep_stopped (pn : List String) (st : LoopSt) (x : Nat × TP) (h : st.stopped = true) : tpStep pn st x = st := by
  unfold tpStep; simp [h]

theorem tpStep_errs_mono (pn : List String) (st : LoopSt) (x : Nat × TP) (h : (tpStep pn st x).errs = []) : st.errs = [] := by
  unfold tpStep at h
  split at h
  · exact h
  · simp only [] at h
    repeat' (first | exact h | (split at h) | (simp only [List.append_eq_nil_iff] at h; exact h.1) | (simp only [List.append_eq_nil_iff] at h; exact h.1.1))

theorem tpStep_stop_mono (pn : List String) (st : LoopSt) (x : Nat × TP) (h : (tpStep pn st x).stopped = false) : st.stopped = false := by
  cases hs : st.stopped with
  | false => rfl
  | true => rw [tpStep_stopped pn st x hs] at h; rw [hs] at h; cases h

theorem fold_mono (pn : List String) (xs : List (Nat × TP)) : ∀ (st : LoopSt),
    (xs.foldl (tpStep pn) st).errs = [] → (xs.foldl (tpStep pn) st).stopped = false → st.errs = [] ∧ st.stopped = false := by
  induction xs with
  | nil => intro st h1 h2; exact ⟨h1, h2⟩
  | cons x r ih =>
    intro st h1 h2
    obtain ⟨a, b⟩ := ih (tpStep pn st x) h1 h2
    exact ⟨tpStep_errs_mono pn st x a, tpStep_stop_mono pn st x b⟩

/-- one clean step: the reference is new, a non-meta reference names an experiment parameter, and it is recorded -/
theorem tpStep_clean (pn : List String) (st : LoopSt) (i : Nat) (p : TP) (hs : st.stopped = false)
    (h1 : (tpStep pn st (i, p)).errs = []) :
    st.refs.contains p.ref = false ∧ (pn ≠ [] → p.isMeta = false → pn.contains p.ref = true) ∧
    (tpStep pn st (i, p)).refs = p.ref :: st.refs := by
  have hst := tpStep_errs_mono pn st (i, p) h1
  unfold tpStep at h1 ⊢
  simp only [hs, Bool.false_eq_true, if_false] at h1 ⊢
  split at h1
  · simp [hst] at h1
  · split at h1
    · simp [hst] at h1
    · split at h1
      · simp [hst] at h1
      · rename_i _ _ hrefs
        rw [if_neg (by assumption), if_neg (by assumption), if_neg hrefs]
        have hr : st.refs.contains p.ref = false := by
          cases hc : st.refs.contains p.ref with
          | false => rfl
          | true => exact absurd hc hrefs
        split at h1
        · simp [hst] at h1
        · rename_i hsub
          simp only [hst, List.nil_append] at h1
          refine ⟨hr, ?_, ?_⟩
          · intro hne hm
            cases hc : pn.contains p.ref with
            | true => rfl
            | false =>
              have hA : (!pn.isEmpty) = true := by
                cases pn with
                | nil => exact absurd rfl hne
                | cons _ _ => rfl
              exact absurd (show (!pn.isEmpty) = true ∧ (!p.isMeta) = true ∧ (!pn.contains p.ref) = true from ⟨hA, by rw [hm]; rfl, by rw [hc]; rfl⟩)
                (not_of_ite_nil h1)
          · simp [hsub]

theorem tpStep_stop_errs (pn : List String) (st : LoopSt) (x : Nat × TP) (hs : st.stopped = false)
    (h : (tpStep pn st x).stopped = true) : (tpStep pn st x).errs ≠ [] := by
  unfold tpStep at h ⊢
  simp only [hs, Bool.false_eq_true, if_false] at h ⊢
  split
  · simp
  · split
    · simp
    · split
      · simp
      · split
        · simp
        · rename_i h1 h2 h3 h4
          rw [if_neg h1, if_neg h2, if_neg h3, if_neg h4] at h
          simp only [] at h
          first | cases h | (rw [hs] at h; cases h)

theorem fold_stop_errs (pn : List String) (xs : List (Nat × TP)) : ∀ (st : LoopSt), (st.stopped = true → st.errs ≠ []) →
    (xs.foldl (tpStep pn) st).stopped = true → (xs.foldl (tpStep pn) st).errs ≠ [] := by
  induction xs with
  | nil => intro st h1 h2; exact h1 h2
  | cons x r ih =>
    intro st h1 h2
    apply ih (tpStep pn st x) _ h2
    intro hs'
    cases hs0 : st.stopped with
    | true => rw [tpStep_stopped pn st x hs0]; exact h1 hs0
    | false => exact tpStep_stop_errs pn st x hs0 hs'

theorem loop_refs (pn : List String) (tps : List TP) : ∀ (i : Nat) (st : LoopSt),
    ((enum i tps).foldl (tpStep pn) st).errs = [] → ((enum i tps).foldl (tpStep pn) st).stopped = false →
    (∀ tp ∈ tps, tp.ref ∉ st.refs) ∧ (tps.map (·.ref)).Nodup ∧ (pn ≠ [] → ∀ tp ∈ tps, tp.isMeta = false → pn.contains tp.ref = true) := by
  induction tps with
  | nil => intro i st _ _; exact ⟨(fun _ h => by cases h), List.nodup_nil, (fun _ _ h => by cases h)⟩
  | cons p r ih =>
    intro i st h1 h2
    simp only [enum, List.foldl_cons] at h1 h2
    obtain ⟨a, b⟩ := fold_mono pn (enum (i + 1) r) _ h1 h2
    have hs := tpStep_stop_mono pn st (i, p) b
    obtain ⟨c1, c2, c3⟩ := tpStep_clean pn st i p hs a
    obtain ⟨d1, d2, d3⟩ := ih (i + 1) _ h1 h2
    rw [c3] at d1
    refine ⟨?_, ?_, ?_⟩
    · intro tp htp
      rcases List.mem_cons.1 htp with e | e
      · subst e; intro hm; exact absurd (List.contains_iff_mem.2 hm) (by rw [c1]; simp)
      · intro hm; exact d1 tp e (List.mem_cons_of_mem _ hm)
    · simp only [List.map_cons, List.nodup_cons]
      refine ⟨?_, d2⟩
      intro hm
      obtain ⟨tp, htp, e⟩ := List.mem_map.1 hm
      exact d1 tp htp (by rw [e]; exact List.mem_cons_self)
    · intro hne tp htp hm
      rcases List.mem_cons.1 htp with e | e
      · subst e; exact c2 hne hm
      · exact d3 hne tp e hm

/-! ### parameter names of an admitted experiment are pairwise distinct -/

theorem paramErrs_nodup : ∀ (ps : List Param) (seen : List String) (i : Nat), paramErrsFrom seen i ps = [] →
    (ps.map (·.name)).Nodup ∧ ∀ p ∈ ps, p.name ∉ seen := by
  intro ps
  induction ps with
  | nil => intro _ _ _; exact ⟨List.nodup_nil, (fun _ h => by cases h)⟩
  | cons p r ih =>
    intro seen i h
    simp only [paramErrsFrom, List.append_eq_nil_iff] at h
    obtain ⟨h1, h2⟩ := h
    obtain ⟨a, b⟩ := ih (p.name :: seen) (i + 1) h2
    have hp : ¬ (p.name = "" ∨ seen.contains p.name = true) := by
      unfold paramErrsAt at h1
      simp only [List.append_eq_nil_iff] at h1
      exact not_of_ite_nil h1.1.1.1
    refine ⟨?_, ?_⟩
    · simp only [List.map_cons, List.nodup_cons]
      refine ⟨?_, a⟩
      intro hm
      obtain ⟨q, hq, e⟩ := List.mem_map.1 hm
      exact b q hq (by rw [e]; exact List.mem_cons_self)
    · intro q hq
      rcases List.mem_cons.1 hq with e | e
      · subst e; intro hm; exact hp (Or.inr (List.contains_iff_mem.2 hm))
      · intro hm; exact b q e (List.mem_cons_of_mem _ hm)

/-! ### the generator's placeholder map -/

/-- the generator can resolve this trial-metadata reference on the template's run object -/
def resolvable (m : Tpl.Meta) : Tpl.Ref → Prop
  | .assign _ => False
  | .metaName => True
  | .metaNamespace => True
  | .metaKind => True
  | .metaAPIVersion => True
  | .metaAnnotation k => (Tpl.lookupS m.annotations k).isSome = true
  | .metaLabel k => (Tpl.lookupS m.labels k).isSome = true
  | .illegal => False

theorem lookupS_some_of_mem (l : List (String × String)) (k : String) (h : k ∈ l.map (·.1)) : (Tpl.lookupS l k).isSome = true := by
  unfold Tpl.lookupS
  obtain ⟨p, hp, e⟩ := List.mem_map.1 h
  cases hf : l.find? (fun p => p.1 = k) with
  | some x => rfl
  | none =>
    have := List.find?_eq_none.1 hf p hp
    simp [e] at this

theorem lookupLast_some_of_mem (l : List (String × String)) (k : String) (h : k ∈ l.map (·.1)) : (Tpl.lookupLast l k).isSome = true := by
  unfold Tpl.lookupLast
  apply lookupS_some_of_mem
  rw [List.map_reverse]; exact List.mem_reverse.2 h

def nonMeta (tps : List TP) : List TP := tps.filter (fun tp => !tp.isMeta)

theorem buildMap_ok (m : Tpl.Meta) (asg : List (String × String)) (tps : List TP)
    (hcoh : ∀ tp ∈ tps, tp.isMeta = false → tp.gref = .assign tp.ref)
    (hmeta : ∀ tp ∈ tps, tp.isMeta = true → resolvable m tp.gref)
    (hin : ∀ tp ∈ tps, tp.isMeta = false → tp.ref ∈ asg.map (·.1)) :
    ∃ ps, Tpl.buildMap m asg (tps.map (fun tp => (tp.name, tp.gref))) = .ok (ps, (nonMeta tps).length) := by
  induction tps with
  | nil => exact ⟨[], rfl⟩
  | cons p r ih =>
    obtain ⟨ps, hps⟩ := ih (fun tp h => hcoh tp (List.mem_cons_of_mem _ h)) (fun tp h => hmeta tp (List.mem_cons_of_mem _ h))
      (fun tp h => hin tp (List.mem_cons_of_mem _ h))
    simp only [List.map_cons, Tpl.buildMap]
    cases hm : p.isMeta with
    | false =>
      have hg := hcoh p List.mem_cons_self hm
      have hl := lookupLast_some_of_mem asg p.ref (hin p List.mem_cons_self hm)
      obtain ⟨v, hv⟩ := Option.isSome_iff_exists.1 hl
      simp only [hg, hv, hps]
      refine ⟨(p.name, v) :: ps, ?_⟩
      simp [nonMeta, hm]
    | true =>
      have hr := hmeta p List.mem_cons_self hm
      have hlen : (nonMeta (p :: r)).length = (nonMeta r).length := by simp [nonMeta, hm]
      cases hg : p.gref with
      | assign x => rw [hg] at hr; exact absurd hr id
      | illegal => rw [hg] at hr; exact absurd hr id
      | metaName => simp only [hps, hlen]; exact ⟨_, rfl⟩
      | metaNamespace => simp only [hps, hlen]; exact ⟨_, rfl⟩
      | metaKind => simp only [hps, hlen]; exact ⟨_, rfl⟩
      | metaAPIVersion => simp only [hps, hlen]; exact ⟨_, rfl⟩
      | metaAnnotation k =>
        rw [hg] at hr
        obtain ⟨v, hv⟩ := Option.isSome_iff_exists.1 hr
        simp only [hv, hps, hlen]; exact ⟨_, rfl⟩
      | metaLabel k =>
        rw [hg] at hr
        obtain ⟨v, hv⟩ := Option.isSome_iff_exists.1 hr
        simp only [hv, hps, hlen]; exact ⟨_, rfl⟩

theorem setDefault_names (ps : List Param) : (ps.map Param.setDefault).map (·.name) = ps.map (·.name) := by
  rw [List.map_map]
  apply List.map_congr_left
  intro p _
  simp only [Function.comp, Param.setDefault]
  split <;> rfl

/-- **C14_template_partial** -/
theorem C14_template_partial (e : Exp) (hadm : validate e.setDefault = .errs [])
    (t : Tmpl) (tps : List TP) (ht : e.setDefault.template = some t) (htp : t.tparams = some tps)
    (hhp : e.params ≠ []) (m : Tpl.Meta)
    (hcoh : ∀ tp ∈ tps, tp.isMeta = false → tp.gref = .assign tp.ref)
    (hmeta : ∀ tp ∈ tps, tp.isMeta = true → resolvable m tp.gref)
    (hcons : ∀ p ∈ e.params, ∃ tp ∈ tps, tp.isMeta = false ∧ tp.ref = p.name)
    (asg : List (String × String)) (hasg : asg.map (·.1) = e.params.map (·.name)) :
    ∃ ps, Tpl.placeholders m asg (tps.map (fun tp => (tp.name, tp.gref))) = .ok ps := by
  -- unpack the admission
  unfold validate at hadm
  cases ho : e.setDefault.objective with
  | none => simp [ho, objectiveErrs] at hadm
  | some o =>
    simp only [ho] at hadm
    split at hadm
    · rename_i hne
      simp only [Outcome.errs.injEq, List.append_eq_nil_iff] at hadm
      exact absurd hadm.2 hne
    · cases hmc : validateMC e.setDefault.mc e.setDefault.mcCfgKnown with
      | crash => simp [hmc] at hadm
      | errs l =>
        simp only [hmc, Outcome.errs.injEq, List.append_eq_nil_iff] at hadm
        obtain ⟨⟨⟨⟨⟨_, htpl⟩, _⟩, _⟩, hpar⟩, _⟩ := hadm
        -- names
        have hnames : e.setDefault.params.map (·.name) = e.params.map (·.name) := setDefault_names e.params
        have hpn_ne : e.setDefault.params.map (·.name) ≠ [] := by
          rw [hnames]; intro h; exact hhp (List.map_eq_nil_iff.1 h)
        have hnd : (e.params.map (·.name)).Nodup := by
          rw [← hnames]; exact (paramErrs_nodup _ [] 0 hpar).1
        -- the loop ran clean
        rw [ht] at htpl
        simp only [templateErrs, List.append_eq_nil_iff, htp] at htpl
        obtain ⟨_, htail⟩ := htpl
        unfold templateTail at htail
        split at htail
        · cases htail
        · split at htail
          · cases htail
          · split at htail
            · cases htail
            · split at htail
              · cases htail
              · rename_i text _
                simp only [] at htail
                have hloop : (tpLoop (e.setDefault.params.map (·.name)) tps text.toList).errs = [] ∧
                    (tpLoop (e.setDefault.params.map (·.name)) tps text.toList).stopped = false := by
                  cases hst : (tpLoop (e.setDefault.params.map (·.name)) tps text.toList).stopped with
                  | true =>
                    -- stopped: the loop recorded the missing placeholder
                    exfalso
                    rw [hst] at htail
                    simp only [if_true] at htail
                    -- errs = [] and stopped = true is impossible: the stopping step appends an error
                    exact fold_stop_errs _ _ _ (by intro h; cases h) hst htail
                  | false =>
                    rw [hst] at htail
                    simp only [Bool.false_eq_true, if_false] at htail
                    refine ⟨?_, rfl⟩
                    split at htail
                    · simp only [List.append_eq_nil_iff] at htail; exact htail.1.1
                    · simp only [List.append_eq_nil_iff] at htail; exact htail.1.1.1.1
                obtain ⟨_, hrefs_nd, hrefs_in⟩ := loop_refs _ tps 0 _ hloop.1 hloop.2
                have hin : ∀ tp ∈ tps, tp.isMeta = false → tp.ref ∈ asg.map (·.1) := by
                  intro tp htp' hm
                  have := hrefs_in hpn_ne tp htp' hm
                  rw [hasg, ← hnames]; exact List.contains_iff_mem.1 this
                obtain ⟨ps, hps⟩ := buildMap_ok m asg tps hcoh hmeta hin
                -- the count check
                have hcount : asg.length = (nonMeta tps).length := by
                  have h1 : asg.length = (e.params.map (·.name)).length := by rw [← hasg, List.length_map]
                  have hL_nd : ((nonMeta tps).map (·.ref)).Nodup :=
                    (List.Sublist.map _ List.filter_sublist).nodup hrefs_nd
                  have hL_sub : (nonMeta tps).map (·.ref) ⊆ e.params.map (·.name) := by
                    intro r hr
                    obtain ⟨tp, htp', e'⟩ := List.mem_map.1 hr
                    have hmem := List.mem_filter.1 htp'
                    have hm : tp.isMeta = false := by simpa using hmem.2
                    have := hrefs_in hpn_ne tp hmem.1 hm
                    rw [← e', ← hnames]; exact List.contains_iff_mem.1 this
                  have hN_sub : e.params.map (·.name) ⊆ (nonMeta tps).map (·.ref) := by
                    intro n hn
                    obtain ⟨p, hp, e'⟩ := List.mem_map.1 hn
                    obtain ⟨tp, htp', hm, hr⟩ := hcons p hp
                    exact List.mem_map.2 ⟨tp, List.mem_filter.2 ⟨htp', by simp [hm]⟩, by rw [hr, e']⟩
                  have a1 := List.Nodup.length_le_of_subset hL_nd hL_sub
                  have a2 := List.Nodup.length_le_of_subset hnd hN_sub
                  simp only [List.length_map] at a1 a2 h1
                  omega
                refine ⟨Tpl.dedupLast ps, ?_⟩
                unfold Tpl.placeholders
                rw [hps]
                simp [hcount]

end Katib.Adm

namespace Katib.Adm

/-- non-vacuity: an admitted experiment that meets every hypothesis of `C14_template_partial` -/
def demoExp : Exp :=
  { name := "exp", budget := { max := some 3, parallel := none, maxFailed := some 1 },
    objective := some { typ := "maximize", metric := "acc", additional := [] },
    algorithm := some "random", algoKnown := true, earlyStopping := none, esKnown := false, resume := "",
    params := [{ name := "lr", ptype := "double", min := "0.1", max := "0.9", step := "", list := [], dist := "" }],
    nas := false,
    template := some { primary := "main", success := "", failure := "", hasSpec := true, hasCM := false, cmComplete := false, kindClass := .job,
                       tparams := some [{ name := "lrP", ref := "lr", isMeta := false, gref := .assign "lr" },
                                        { name := "n", ref := "${trialSpec.Name}", isMeta := true, gref := .metaName }],
                       text := some "a=${trialParameters.lrP} b=${trialParameters.n}" },
    dry := { leftover := false, parses := true, nameOmitted := true, gvkSet := true, jobOk := true },
    mc := none, mcCfgKnown := true }

set_option maxRecDepth 100000 in
example : validate demoExp.setDefault = .errs [] := by decide

end Katib.Adm
