import Katib.Lemmas.ExpPlan
/-!
# C01 — Trial budget: at most maxTrialCount trials, at most parallelTrialCount active

Statements about every call on every path of `Katib.Ctl.expPlan` (model of `ReconcileExperiment.Reconcile`), for every
view, fault mask and abort point, and the budget arithmetic (`addCount`).  The unbounded-schedule budget invariant
over `Katib.Ctl.step` is in `Katib/Props/C01World.lean`.
-/
namespace Katib.Ctl
open Katib Katib.Exp

def isCreation : Call → Bool
  | .trialCreate _ => true
  | .sugCreate _ => true
  | .sugUpdateReq _ _ _ => true
  | _ => false

/-- C01_no_create_after_verdict: an Experiment that carries a verdict and is not being restarted (see `restartGuard`:
    restartable and maxTrialCount raised above the trials created) gets no new Trial, no new Suggestion and no new
    request — on any path. -/
theorem C01_no_create_after_verdict (v : World) (k : Key2) (now : Nat) (e : ExpO) (he : findExp v k = some e)
    (hfin : e.fin = true) (hdel : e.deleted = false) (hc : isCompleted e.st.conds = true)
    (hcr : Cond.has e.st.conds .created = true) (hr : restartGuard e = false) :
    (expPlan v k now).All (fun c => isCreation c = false) := by
  apply (expPlan_frozen v k now e he hfin hdel hc hcr hr).mono
  intro c hc
  cases c <;> first | rfl | exact absurd hc id

/-- C01_create_only_assignments: a Trial is only ever created for an assignment of the Experiment's own Suggestion that
    has no Trial yet (same name, own namespace, own experiment label): each assignment becomes at most one Trial. -/
theorem C01_create_only_assignments (v : World) (k : Key2) (now : Nat) (e : ExpO) (he : findExp v k = some e) :
    (expPlan v k now).All (fun c => match c with
      | .trialCreate t' => t'.key.ns = k.ns ∧ t'.exp = k.name ∧
          (∃ s, findSug v k = some s ∧ t'.key.name ∈ s.st.names) ∧ ∀ t ∈ trialsOf v k, t.key.name ≠ t'.key.name
      | _ => True) := by
  have hk : e.key = k := by
    unfold findExp at he
    have := List.find?_some he
    simpa using this
  subst hk
  apply (expPlan_guard v e.key now e he).mono
  intro c hc
  cases c <;> try trivial
  exact ⟨hc.1, hc.2.1, hc.2.2.1, hc.2.2.2.1⟩

/-- C01_add_bound: the number of additionally wanted trials never lifts the active count above parallelTrialCount nor
    completed + active above maxTrialCount (metrics-unavailable trials count as completed). -/
theorem C01_add_bound (e : ExpO) (st : ExpSt) (hact : activeCount st ≤ e.par) :
    0 ≤ addCount e st ∧ activeCount st + addCount e st ≤ e.par ∧
    (∀ m, e.maxT = some m → completedCount st + activeCount st + addCount e st ≤ max m (completedCount st + activeCount st)) := by
  unfold addCount
  cases hm : e.maxT with
  | none =>
    simp only []
    refine ⟨?_, ?_, ?_⟩
    · split <;> omega
    · split <;> omega
    · intro m h; cases h
  | some m =>
    simp only []
    refine ⟨?_, ?_, ?_⟩
    · split <;> split <;> omega
    · split <;> split <;> omega
    · intro m' h
      cases h
      split <;> split <;> omega

def ReqFormula (ts : List TrialO) (add : Int) : Call → Prop
  | .sugCreate s' => s'.requests = (ts.length : Int) + add - ((ts.filter (fun t => !obsAvailable t.st && tHas t .earlyStopped)).length : Int)
  | .sugUpdateReq _ _ req => req = (ts.length : Int) + add - ((ts.filter (fun t => !obsAvailable t.st && tHas t .earlyStopped)).length : Int)
  | _ => True

/-- the requests formula: `requests = observed trials + addCount − incomplete early-stopped trials` -/
theorem C01_requests_formula (v : World) (e : ExpO) (st : ExpSt) (ts : List TrialO) (add : Int) (now : Nat) :
    (expCreateTrials v e st ts add now).All (ReqFormula ts add) := by
  have fin : ∀ st', (expFinish e st').All (ReqFormula ts add) := by
    intro st'; unfold expFinish; split
    · trivial
    · exact ⟨trivial, trivial, trivial⟩
  have creates : ∀ (l : List String),
      (l.foldr (fun a k => Prog.step (.trialCreate (mkTrial e a)) k k) (expFinish e st)).All (ReqFormula ts add) := by
    intro l
    induction l with
    | nil => exact fin _
    | cons a l ih => exact ⟨trivial, ih, ih⟩
  unfold expCreateTrials
  simp only []
  split
  · exact ⟨rfl, fin _, trivial⟩
  · split
    · exact fin _
    · split
      · exact ⟨rfl, creates _, trivial⟩
      · exact creates _

/-- metrics-unavailable trials are counted as completed when budgeting (the repaired defect of the pinned tree) -/
theorem C01_completed_counts_all_outcomes (st : ExpSt) :
    completedCount st = cnt st.counts 0 + cnt st.counts 1 + cnt st.counts 2 + cnt st.counts 3 + cnt st.counts 5 := by
  unfold completedCount; omega

/-! Non-vacuity: max 3, parallel 3, one metrics-unavailable and two running trials: nothing more is wanted. -/
example : addCount { key := ⟨"ns", "e"⟩, par := 3, maxT := some 3, maxF := none,
                     cfg := ⟨none, .maximize, .never, false, false, false, false⟩ }
                   { counts := [0, 0, 0, 0, 2, 1, 0] } = 0 := by decide

end Katib.Ctl
