import Katib.Props.C04Counters
/-!
# C03 over whole schedules: a verdict that is not restartable is never touched again

`C03_frozen_verdict_world`: for every list of simulator operations — no hypothesis on the schedule: arbitrarily lagging views,
fault masks, abort points, budget edits (also raising `maxTrialCount`), Trial deletions — if some snapshot of the history
shows Experiment `k` Created and completed with a verdict that is **not restartable** (Failed; Succeeded by goal or because
the suggestion ended; any verdict under resume policy Never), then the Experiment still exists and its condition list and
completion time are **identical** now: verdict, reason and time are never rewritten, whatever the user edits.

(The complementary case — Succeeded by MaxTrialsReached under LongRunning / FromVolume, "until the user raises
`maxTrialCount`" — depends on the Trial list the controller is shown and does not hold under arbitrarily lagging views; see
DESIGN §4.)

Structure: history relation `EPast` (the Experiment persists, `resourceVersion` never decreases, equal version means equal
object, the configuration never changes, a frozen verdict is kept), plan guard `FGuard` (a status write computed from a frozen
copy carries that copy's conditions and completion time — walk `fg_*`), and the `resourceVersion` check of the API server: a
write computed from a stale copy is rejected, one computed from the current copy keeps it.
-/
namespace Katib.Ctl
open Katib Katib.Exp

def Frozen (e : ExpO) : Prop :=
  Cond.has e.st.conds .created = true ∧ isCompleted e.st.conds = true ∧ restartable e.st.conds e.cfg.resume = false

def EPast (k : Key2) (h c : World) : Prop :=
  ∀ eh, findExp h k = some eh → ∃ ec, findExp c k = some ec ∧ eh.rv ≤ ec.rv ∧ (eh.rv = ec.rv → eh = ec) ∧ ec.cfg = eh.cfg ∧
    (Frozen eh → ec.st.conds = eh.st.conds ∧ ec.st.completion = eh.st.completion)

theorem EPast.refl (k : Key2) (w : World) : EPast k w w :=
  fun eh h => ⟨eh, h, Nat.le_refl _, fun _ => rfl, rfl, fun _ => ⟨rfl, rfl⟩⟩

theorem frozen_congr {a b : ExpO} (h1 : b.st.conds = a.st.conds) (h2 : b.cfg = a.cfg) (h : Frozen a) : Frozen b := by
  unfold Frozen at *; rw [h1, h2]; exact h

theorem EPast.trans {k : Key2} {a b c : World} (h1 : EPast k a b) (h2 : EPast k b c) : EPast k a c := by
  intro ea ha
  obtain ⟨eb, hb, r1, e1, c1, f1⟩ := h1 ea ha
  obtain ⟨ec, hc, r2, e2, c2, f2⟩ := h2 eb hb
  refine ⟨ec, hc, Nat.le_trans r1 r2, ?_, c2.trans c1, ?_⟩
  · intro e
    have h3 : ea.rv = eb.rv := by omega
    have h4 : eb.rv = ec.rv := by omega
    rw [e1 h3, e2 h4]
  · intro hf
    obtain ⟨g1, g2⟩ := f1 hf
    obtain ⟨g3, g4⟩ := f2 (frozen_congr g1 c1 hf)
    exact ⟨g3.trans g1, g4.trans g2⟩

theorem eframe {k : Key2} {w w' : World} (he : w'.exps = w.exps) : EPast k w w' := by
  intro eh h
  exact ⟨eh, by unfold findExp at h ⊢; rw [he]; exact h, Nat.le_refl _, fun _ => rfl, rfl, fun _ => ⟨rfl, rfl⟩⟩

/-- a status write computed from a frozen copy `e` carries `e`'s conditions and completion time -/
def FGuard (e : ExpO) : Call → Prop
  | .expStatus k' rv st' => k' = e.key ∧ rv = e.rv ∧ (Frozen e → st'.conds = e.st.conds ∧ st'.completion = e.st.completion)
  | .expUpdateFin k' rv _ => k' = e.key ∧ rv = e.rv
  | _ => True

theorem fg_expFinish (e : ExpO) (st : ExpSt) (h : Frozen e → st.conds = e.st.conds ∧ st.completion = e.st.completion) :
    (expFinish e st).All (FGuard e) := by
  unfold expFinish; split
  · trivial
  · exact ⟨⟨rfl, rfl, h⟩, trivial, trivial⟩

theorem fg_creates (e : ExpO) (l : List String) (k : Prog) (hk : k.All (FGuard e)) :
    (l.foldr (fun a k => Prog.step (.trialCreate (mkTrial e a)) k k) k).All (FGuard e) := by
  induction l with
  | nil => exact hk
  | cons a l ih => exact ⟨trivial, ih, ih⟩

/-- everything below `ReconcileTrials` is reached only for a status that is not completed: a frozen copy never gets there -/
theorem fg_expReconcileTrials (v : World) (e : ExpO) (st : ExpSt) (ts : List TrialO) (now : Nat)
    (hnc : isCompleted st.conds = false) (hst : Frozen e → st.conds = e.st.conds) :
    (expReconcileTrials v e st ts now).All (FGuard e) := by
  have vac : Frozen e → False := fun hf => by
    have := hf.2.1; rw [← hst hf, hnc] at this; cases this
  have fin : ∀ st' : ExpSt, (expFinish e st').All (FGuard e) := fun st' => fg_expFinish e st' (fun hf => (vac hf).elim)
  unfold expReconcileTrials
  split
  · trivial
  · split
    · split
      · unfold expCreateTrials
        simp only []
        split
        · exact ⟨trivial, fin _, trivial⟩
        · split
          · exact fin _
          · split
            · exact ⟨trivial, fg_creates e _ _ (fin _), trivial⟩
            · exact fg_creates e _ _ (fin _)
      · exact fin _
    · exact fin _

theorem update_keeps (e : ExpO) (st : ExpSt) (ts : List TrialO) (now : Nat) (hc : isCompleted st.conds = true) :
    (expUpdateStatus e st ts now).conds = st.conds ∧ (expUpdateStatus e st ts now).completion = st.completion := by
  unfold expUpdateStatus updateStatus
  simp [hc]

theorem fg_expMain (v : World) (e : ExpO) (st : ExpSt) (now : Nat)
    (hst : st.conds = e.st.conds ∧ st.completion = e.st.completion) : (expMain v e st now).All (FGuard e) := by
  unfold expMain
  split
  · rename_i hcr
    refine fg_expFinish e _ (fun hf => ?_)
    rw [hst.1, hf.1] at hcr; cases hcr
  · simp only []
    by_cases hc : isCompleted st.conds = true
    · have h1 : (if (trialsOf v e.key).isEmpty = true then st else expUpdateStatus e st (trialsOf v e.key) now).conds = e.st.conds ∧
          (if (trialsOf v e.key).isEmpty = true then st else expUpdateStatus e st (trialsOf v e.key) now).completion = e.st.completion := by
        split
        · exact hst
        · obtain ⟨a, b⟩ := update_keeps e st (trialsOf v e.key) now hc
          exact ⟨a.trans hst.1, b.trans hst.2⟩
      generalize (if (trialsOf v e.key).isEmpty = true then st else expUpdateStatus e st (trialsOf v e.key) now) = st1 at h1
      split
      · rename_i hn
        exact fg_expReconcileTrials v e st1 _ now (by simpa using hn) (fun _ => h1.1)
      · exact fg_expFinish e st1 (fun _ => h1)
    · -- the copy is not completed, hence not frozen: nothing is claimed
      have vac : Frozen e → False := fun hf => hc (by rw [hst.1]; exact hf.2.1)
      generalize (if (trialsOf v e.key).isEmpty = true then st else expUpdateStatus e st (trialsOf v e.key) now) = st1
      split
      · rename_i hn
        exact fg_expReconcileTrials v e st1 _ now (by simpa using hn) (fun hf => (vac hf).elim)
      · exact fg_expFinish e st1 (fun hf => (vac hf).elim)

theorem restartGuard_frozen (e : ExpO) (hf : Frozen e) : restartGuard e = false := by
  unfold restartGuard; rw [hf.2.2]; rfl

theorem expPlan_fguard (v : World) (k : Key2) (now : Nat) (e : ExpO) (he : findExp v k = some e) :
    (expPlan v k now).All (FGuard e) := by
  have hk : e.key = k := findExp_key he
  subst hk
  unfold expPlan
  rw [he]
  simp only []
  split
  · exact ⟨⟨rfl, rfl⟩, trivial, trivial⟩
  · split
    · exact ⟨⟨rfl, rfl⟩, trivial, trivial⟩
    · split
      · have cleanupOk : ∀ next : Prog, next.All (FGuard e) →
            (if e.cfg.resume = Resume.never ∨ e.cfg.resume = Resume.fromVolume then
              match findSug v e.key with
              | none => next
              | some s =>
                if (sCompleted s || sRestarting s) = true then next
                else Prog.step (Call.sugStatus e.key s.rv { s.st with conds := sugMarkSucceeded s.st.conds rSugExpSucceeded now }) next (Prog.done Res.err)
             else next).All (FGuard e) := by
          intro next hn
          split
          · split
            · exact hn
            · split
              · exact hn
              · exact ⟨trivial, hn, trivial⟩
          · exact hn
        split
        · rename_i hrg
          -- the restart branch is taken only for a copy that is restartable, hence not frozen
          have vac : Frozen e → False := fun hf => by rw [restartGuard_frozen e hf] at hrg; cases hrg
          have main : ∀ st : ExpSt, (expMain v e st now).All (FGuard e) := by
            intro st
            refine (guard_expMain v e st now).mono ?_
            intro c hc
            cases c with
            | expStatus k' rv st' => exact ⟨hc.1, hc.2.1, fun hf => (vac hf).elim⟩
            | expUpdateFin k' rv fin => exact hc
            | _ => trivial
          apply cleanupOk
          split
          · split
            · exact main _
            · split
              · exact main _
              · exact ⟨trivial, main _, trivial⟩
          · exact main _
        · split
          · exact cleanupOk _ trivial
          · exact cleanupOk _ (fg_expMain v e _ now ⟨rfl, rfl⟩)
      · exact fg_expMain v e _ now ⟨rfl, rfl⟩

/-! ## calls against the live store -/

/-- justification of a call relative to the store `hE` the Experiment copy was read from -/
def FJust (k : Key2) (hE : World) : Call → Prop
  | .expStatus k' rv st' => k' = k → ∃ e, findExp hE k = some e ∧ rv = e.rv ∧
      (Frozen e → st'.conds = e.st.conds ∧ st'.completion = e.st.completion)
  | _ => True

theorem apply_exps_frame {k : Key2} {w w' : World} {c : Call} (h : applyCall w c = .ok w')
    (hc : match c with | .expStatus _ _ _ => False | .expUpdateFin _ _ _ => False | _ => True) : EPast k w w' :=
  eframe (apply_exps_same h hc)

theorem epast_upd {k : Key2} {w : World} (k' : Key2) (f : ExpO → ExpO) (hkey : ∀ e, (f e).key = e.key)
    (hrv : ∀ e, (f e).rv = e.rv + 1) (hcfg : ∀ e, (f e).cfg = e.cfg)
    (hfz : ∀ e, findExp w k = some e → e.key = k' → Frozen e → (f e).st.conds = e.st.conds ∧ (f e).st.completion = e.st.completion) :
    EPast k w (updExp w k' f) := by
  intro eh h
  rw [findExp_updExp w k k' f hkey, h]
  simp only [Option.map_some]
  split
  · rename_i hk'
    exact ⟨f eh, rfl, by rw [hrv]; omega, fun e => by rw [hrv] at e; omega, hcfg eh, fun hf => hfz eh h hk' hf⟩
  · exact ⟨eh, rfl, Nat.le_refl _, fun _ => rfl, rfl, fun _ => ⟨rfl, rfl⟩⟩

theorem apply_pres_F {k : Key2} {hE w w' : World} {c : Call} (hP : EPast k hE w) (hJ : FJust k hE c)
    (h : applyCall w c = .ok w') : EPast k w w' := by
  cases c with
  | expStatus k' rv st =>
    simp only [applyCall] at h; split at h
    · cases h
    · rename_i e0 he0
      split at h
      · cases h
      · rename_i hrv
        cases h
        refine epast_upd k' _ (fun _ => rfl) (fun _ => rfl) (fun _ => rfl) ?_
        intro e he hk' hf
        -- the write was for `k' = k`, computed from a copy of `hE` with the live resourceVersion: that copy is the live object
        have hkk : k' = k := by rw [← hk', findExp_key he]
        obtain ⟨ev, hev, hrv', hkeep⟩ := hJ hkk
        obtain ⟨ec, hec, _, heq, _, _⟩ := hP ev hev
        rw [he] at hec; cases hec
        have he0' : e0 = e := by
          have : findExp w k' = some e := by rw [hkk]; exact he
          rw [this] at he0; cases he0; rfl
        subst he0'
        have hrv0 : e0.rv = rv := Decidable.of_not_not hrv
        have : ev = e0 := heq (by rw [← hrv', hrv0])
        subst this
        exact hkeep hf
  | expUpdateFin k' rv fin =>
    simp only [applyCall] at h; split at h
    · cases h
    · split at h <;> cases h
      exact epast_upd k' _ (fun _ => rfl) (fun _ => rfl) (fun _ => rfl) (fun _ _ _ _ => ⟨rfl, rfl⟩)
  | sugCreate s' => exact apply_exps_frame h trivial
  | sugUpdateReq k' rv req => exact apply_exps_frame h trivial
  | sugStatus k' rv st => exact apply_exps_frame h trivial
  | trialCreate t => exact apply_exps_frame h trivial
  | trialStatus k' rv st => exact apply_exps_frame h trivial
  | trialUpdateFin k' rv fin => exact apply_exps_frame h trivial
  | trialDelete k' => exact apply_exps_frame h trivial
  | jobCreate k' => exact apply_exps_frame h trivial
  | jobDelete k' => exact apply_exps_frame h trivial
  | deployCreate k' => exact apply_exps_frame h trivial
  | deployDelete k' => exact apply_exps_frame h trivial
  | svcCreate k' => exact apply_exps_frame h trivial
  | svcDelete k' => exact apply_exps_frame h trivial
  | pvcCreate k' => exact apply_exps_frame h trivial
  | saCreate k' => exact apply_exps_frame h trivial
  | roleCreate k' => exact apply_exps_frame h trivial
  | rbCreate k' => exact apply_exps_frame h trivial
  | rpcValidate e => exact apply_exps_frame h trivial
  | rpcValidateES => exact apply_exps_frame h trivial
  | rpcGetSuggestions e cur total ts consume ok => exact apply_exps_frame h trivial
  | rpcGetRules e ok => exact apply_exps_frame h trivial
  | dbGet t => exact apply_exps_frame h trivial
  | dbDelete t => exact apply_exps_frame h trivial
  | dbReport t e => exact apply_exps_frame h trivial

/-- along any path of a plan whose Experiment writes are justified by the store `hE`, the live store stays a future of itself
    and of `hE` -/
theorem exec_frozen {k : Key2} {hE : World} (f : Faults) :
    ∀ (p : Prog) (w : World) (i : Nat) (log : List String), p.All (FJust k hE) → EPast k hE w →
      EPast k w (exec f p w i log).w
  | .done _, w, _, _, _, _ => EPast.refl k w
  | .step c ok fail, w, i, log, ⟨hc, hok, hfail⟩, hP => by
    unfold exec
    split
    · exact exec_frozen f fail w (i + 1) _ hfail hP
    · split
      · rename_i w' hw'
        have h1 := apply_pres_F hP hc hw'
        exact h1.trans (exec_frozen f ok w' (i + 1) (log ++ [c.what ++ ":ok"]) hok (hP.trans h1))
      · exact exec_frozen f fail w (i + 1) _ hfail hP

theorem expPlan_fjust (k : Key2) (v hE : World) (k' : Key2) (now : Nat) (hexps : v.exps = hE.exps) :
    (expPlan v k' now).All (FJust k hE) := by
  cases he : findExp v k' with
  | none => unfold expPlan; rw [he]; trivial
  | some e =>
    have hkey := findExp_key he
    refine (expPlan_fguard v k' now e he).mono ?_
    intro c hc
    cases c with
    | expStatus k'' rv st' =>
      intro hkk
      have hk'k : k' = k := by rw [← hkey, ← hc.1, hkk]
      subst hk'k
      refine ⟨e, ?_, hc.2.1, hc.2.2⟩
      unfold findExp at he ⊢; rw [← hexps]; exact he
    | _ => trivial

theorem sugPlan_fjust (k : Key2) (v hE : World) (k' : Key2) (env : SugEnv) (now : Nat) : (sugPlan v k' env now).All (FJust k hE) := by
  cases hsg : findSug v k' with
  | none => unfold sugPlan; rw [hsg]; trivial
  | some s =>
    refine (sugPlan_guard v k' env now s hsg).mono ?_
    intro c hc
    cases c <;> first | trivial | exact absurd hc id

theorem trialPlan_fjust (k : Key2) (v hE : World) (k' : Key2) (now : Nat) : (trialPlan v k' now).All (FJust k hE) :=
  (trialPlan_calls v k' now).mono (fun c hc => by cases c <;> first | trivial | exact absurd hc id)

/-! ## schedules -/

def SInvF (k : Key2) (s : Sim) : Prop := ∀ (i : Nat) (h : World), s.hist[i]? = some h → EPast k h s.cur

theorem snap_goodF {k : Key2} {s : Sim} (hI : SInvF k s) (i : Nat) : EPast k (snapAt s i) s.cur := by
  unfold snapAt
  cases h : s.hist[i]? with
  | none => exact EPast.refl k _
  | some w => exact hI i w h

theorem stepWorld_okF {k : Key2} {s : Sim} (hI : SInvF k s) (op : Op) : EPast k s.cur (stepWorld s op).1 := by
  cases op with
  | recExp k' vE vT vS f =>
    exact exec_frozen f _ _ 0 [] (expPlan_fjust k (assemble s vE vT vS (s.hist.size - 1)) (snapAt s vE) k' s.opIndex rfl) (snap_goodF hI vE)
  | recSug k' vS vE vT vD f env => exact exec_frozen f _ _ 0 [] (sugPlan_fjust k _ s.cur k' env s.opIndex) (EPast.refl k _)
  | recTrial k' vT f => exact exec_frozen f _ _ 0 [] (trialPlan_fjust k _ s.cur k' s.opIndex) (EPast.refl k _)
  | job k' ok => simp only [stepWorld]; split <;> first | exact EPast.refl k _ | exact eframe rfl
  | metric t text key nm => simp only [stepWorld]; split <;> exact eframe rfl
  | earlyStop k' =>
    simp only [stepWorld]
    split
    · exact EPast.refl k _
    · split <;> first | exact EPast.refl k _ | exact eframe rfl
  | deployReady k' => simp only [stepWorld]; split <;> first | exact EPast.refl k _ | exact eframe rfl
  | editMax k' n =>
    simp only [stepWorld]
    split
    · exact EPast.refl k _
    · exact epast_upd k' _ (fun _ => rfl) (fun _ => rfl) (fun _ => rfl) (fun _ _ _ _ => ⟨rfl, rfl⟩)
  | jobGone k' =>
    simp only [stepWorld]
    split
    · exact EPast.refl k _
    · split <;> first | exact EPast.refl k _ | exact eframe rfl
  | userDelete k' =>
    simp only [stepWorld]
    split
    · exact EPast.refl k _
    · split
      · exact EPast.refl k _
      · split <;> exact eframe rfl
  | noop => exact EPast.refl k _

theorem step_invF {k : Key2} {s : Sim} (hI : SInvF k s) (op : Op) : SInvF k (step s op).1 := by
  have hW := stepWorld_okF hI op
  unfold step
  intro i h hh
  rw [Array.getElem?_push] at hh
  by_cases hi : i = s.hist.size
  · rw [if_pos hi] at hh; cases hh; exact EPast.refl k _
  · rw [if_neg hi] at hh; exact (hI i h hh).trans hW

theorem run_invF {k : Key2} (ops : List Op) : ∀ {s : Sim}, SInvF k s → SInvF k (run s ops) := by
  induction ops with
  | nil => intro s h; exact h
  | cons op r ih => intro s h; exact ih (step_invF h op)

theorem init_invF (k : Key2) (es : List ExpInit) : SInvF k (Sim.init es) := by
  intro i h hh
  simp only [Sim.init] at hh
  have : h = (Sim.init es).cur := by
    cases i with
    | zero => simp at hh; exact hh.symm
    | succ j => simp at hh
  rw [this]; exact EPast.refl k _

/-- **C03_frozen_verdict_world**: over every schedule (no hypothesis): an Experiment that some snapshot shows Created and
    completed with a verdict that is not restartable still exists, with the identical condition list (verdict, reason, times)
    and completion time, and with the same configuration. -/
theorem C03_frozen_verdict_world (k : Key2) (es : List ExpInit) (ops : List Op) :
    let s := run (Sim.init es) ops
    ∀ (i : Nat) (h : World) (eh : ExpO), s.hist[i]? = some h → findExp h k = some eh →
      Cond.has eh.st.conds .created = true → isCompleted eh.st.conds = true → restartable eh.st.conds eh.cfg.resume = false →
      ∃ ec, findExp s.cur k = some ec ∧ ec.st.conds = eh.st.conds ∧ ec.st.completion = eh.st.completion ∧ ec.cfg = eh.cfg := by
  intro s i h eh hh he h1 h2 h3
  obtain ⟨ec, hc, _, _, hcfg, hkeep⟩ := run_invF ops (init_invF k es) i h hh eh he
  obtain ⟨a, b⟩ := hkeep ⟨h1, h2, h3⟩
  exact ⟨ec, hc, a, b, hcfg⟩

/-! Non-vacuity: a concrete schedule — one Trial under resume policy Never, `maxTrialCount` 1 — ends Succeeded by
MaxTrialsReached, which is not restartable under Never; the user then raises `maxTrialCount` to 5 and the controllers run
again: the Experiment is still completed, not restartable, and carries the new budget. -/
def frozenKey : Key2 := { ns := "ns", name := "exp" }
def frozenTrial : Key2 := { ns := "ns", name := "exp-t1" }
def frozenOps : List Op :=
  [.recExp frozenKey 100 100 100 {}, .recExp frozenKey 100 100 100 {}, .recExp frozenKey 100 100 100 {},
   .recSug frozenKey 100 100 100 100 {} {}, .recSug frozenKey 100 100 100 100 {} {}, .deployReady frozenKey,
   .recSug frozenKey 100 100 100 100 {} {}, .recExp frozenKey 100 100 100 {},
   .recTrial frozenTrial 100 {}, .recTrial frozenTrial 100 {}, .recTrial frozenTrial 100 {}, .job frozenTrial true,
   .metric "exp-t1" "0.9" none "acc", .recTrial frozenTrial 100 {}, .recTrial frozenTrial 100 {},
   .recExp frozenKey 100 100 100 {}, .recExp frozenKey 100 100 100 {},
   .editMax frozenKey 5, .recExp frozenKey 100 100 100 {}, .recExp frozenKey 100 100 100 {}, .recSug frozenKey 100 100 100 100 {} {}]

def frozenCfg : ExpCfg := { goal := none, objType := .maximize, resume := .never, es := false, retain := true, push := false, labels := false }
def frozenExp : ExpInit := { key := frozenKey, par := 1, maxT := some 1, maxF := none, cfg := frozenCfg }

example :
    (findExp (run (Sim.init [frozenExp]) frozenOps).cur frozenKey).map
      (fun e => (Cond.has e.st.conds .created, isCompleted e.st.conds, restartable e.st.conds e.cfg.resume, e.maxT)) =
      some (true, true, false, some 5) := by decide

end Katib.Ctl
