import Katib.Lemmas.SugPlan
/-!
# C09 — Algorithm requests contain exactly the experiment's own trials

Statements about every `GetSuggestions` call on every path of `Katib.Ctl.sugPlan`, for every view `v` (any cluster
content: other experiments, other namespaces, equal names).
-/
namespace Katib.Ctl
open Katib

theorem mem_insertByName (t u : TrialO) (l : List TrialO) : u ∈ insertByName t l ↔ u = t ∨ u ∈ l := by
  induction l with
  | nil => simp [insertByName]
  | cons x xs ih =>
    simp only [insertByName]
    split
    · simp
    · simp only [List.mem_cons, ih]
      constructor
      · rintro (h | h | h)
        · exact Or.inr (Or.inl h)
        · exact Or.inl h
        · exact Or.inr (Or.inr h)
      · rintro (h | h | h)
        · exact Or.inr (Or.inl h)
        · exact Or.inl h
        · exact Or.inr (Or.inr h)

theorem mem_sortByName (u : TrialO) (l : List TrialO) : u ∈ sortByName l ↔ u ∈ l := by
  induction l with
  | nil => simp [sortByName]
  | cons x xs ih =>
    have : sortByName (x :: xs) = insertByName x (sortByName xs) := rfl
    rw [this, mem_insertByName, ih]; simp

theorem mem_insertS (x y : String) (l : List String) : y ∈ insertS x l ↔ y = x ∨ y ∈ l := by
  induction l with
  | nil => simp [insertS]
  | cons a as ih =>
    simp only [insertS]
    split
    · simp
    · simp only [List.mem_cons, ih]
      constructor
      · rintro (h | h | h)
        · exact Or.inr (Or.inl h)
        · exact Or.inl h
        · exact Or.inr (Or.inr h)
      · rintro (h | h | h)
        · exact Or.inr (Or.inl h)
        · exact Or.inl h
        · exact Or.inr (Or.inr h)

theorem mem_sortS (y : String) (l : List String) : y ∈ sortS l ↔ y ∈ l := by
  induction l with
  | nil => simp [sortS]
  | cons x xs ih =>
    have : sortS (x :: xs) = insertS x (sortS xs) := rfl
    rw [this, mem_insertS, ih]; simp

/-- C09_selection: the trials a reconcile reads for experiment `k` are exactly the Trials of the view that live in
    `k`'s namespace *and* carry `k`'s experiment label. -/
theorem C09_selection (v : World) (k : Key2) (t : TrialO) :
    t ∈ trialsOf v k ↔ t ∈ v.trials ∧ t.key.ns = k.ns ∧ t.exp = k.name := by
  unfold trialsOf
  rw [mem_sortByName, List.mem_filter]
  simp

/-- C09_sent: a name is sent iff it names an own trial that is neither metrics-unavailable nor early-stopped without observation. -/
theorem C09_sent (ts : List TrialO) (n : String) :
    n ∈ sentTrials ts ↔ ∃ t ∈ ts, t.key.name = n ∧ tHas t .metricsUnavailable = false ∧
      ¬ (tHas t .earlyStopped = true ∧ obsAvailable t.st = false) := by
  unfold sentTrials
  rw [mem_sortS, List.mem_map]
  constructor
  · rintro ⟨t, ht, rfl⟩
    obtain ⟨h1, h2⟩ := List.mem_filter.mp ht
    refine ⟨t, h1, rfl, ?_⟩
    cases hm : tHas t .metricsUnavailable <;> cases he : tHas t .earlyStopped <;> cases ho : obsAvailable t.st <;> simp_all
  · rintro ⟨t, ht, rfl, h1, h2⟩
    refine ⟨t, List.mem_filter.mpr ⟨ht, ?_⟩, rfl⟩
    cases he : tHas t .earlyStopped <;> cases ho : obsAvailable t.st <;> simp_all

/-- C09_request: every `GetSuggestions` request of a reconcile of suggestion `k` carries exactly the eligible own
    trials (namespace and label) of the view, `currentRequestNumber = requests − suggestionCount` and
    `totalRequestNumber = requests`. -/
theorem C09_request (v : World) (k : Key2) (env : SugEnv) (now : Nat) (s : SugO) (hs : findSug v k = some s) :
    (sugPlan v k env now).All (fun c => match c with
      | .rpcGetSuggestions e cur total sent _ _ =>
        e = k.name ∧ cur = s.requests - s.st.count ∧ total = s.requests ∧ sent = sentTrials (trialsOf v k)
      | _ => True) := by
  have hk : s.key = k := by
    unfold findSug at hs
    have := List.find?_some hs
    simpa using this
  apply (sugPlan_guard v k env now s hs).mono
  intro c hc
  cases c <;> try trivial
  simp only [SugCallGuard] at hc
  subst hk
  exact ⟨hc.2.1, hc.2.2.1, hc.2.2.2.1, hc.2.2.2.2.1⟩

/-- C09_isolation: no Trial of another namespace or of another experiment is ever in a request. -/
theorem C09_isolation (v : World) (k : Key2) (env : SugEnv) (now : Nat) (s : SugO) (hs : findSug v k = some s) :
    (sugPlan v k env now).All (fun c => match c with
      | .rpcGetSuggestions _ _ _ sent _ _ => ∀ n ∈ sent, ∃ t ∈ v.trials, t.key.name = n ∧ t.key.ns = k.ns ∧ t.exp = k.name
      | _ => True) := by
  apply (C09_request v k env now s hs).mono
  intro c hc
  cases c <;> try trivial
  rename_i e cur total sent n ok
  simp only at hc ⊢
  intro x hx
  rw [hc.2.2.2, C09_sent] at hx
  obtain ⟨t, ht, hn, _⟩ := hx
  obtain ⟨h1, h2, h3⟩ := (C09_selection v k t).mp ht
  exact ⟨t, h1, hn, h2, h3⟩

/-! Non-vacuity: two equally named experiments in two namespaces; only the own trial is sent. -/
example :
    let mk (ns n : String) : TrialO := { key := ⟨ns, n⟩, exp := "exp", retain := false, push := false, objType := .maximize }
    sentTrials (trialsOf { trials := [mk "ns1" "exp-t1", mk "ns2" "exp-t2"] } ⟨"ns2", "exp"⟩) = ["exp-t2"] := by decide

end Katib.Ctl
