import Katib.Gen.ListSites
/-!
# C09 (and the trial budget): which Trials a controller takes for "the Experiment's own"

`Katib/Gen/ListSites.lean` is regenerated from the source on every run: every `List` call of the three controllers that
selects by labels, with the shape of its selector.  The Trials of an Experiment are those carrying its name under the
reserved label `katib.kubeflow.org/experiment`; the Experiment's other labels are free-form metadata that may change after
its Trials were created, so a selector built from them loses Trials (the defect repaired by 13d41b4).
-/
namespace Katib.Gen

def trialListSites : List ListSite := listSites.filter (fun s => s.list == "&trialsv1beta1.TrialList{}")

/-- every label-selected Trial list of the controllers selects by the reserved experiment-name label only -/
theorem C09_trial_selectors_reserved : ∀ s ∈ trialListSites, s.kind = "reserved" := by decide

/-- the Trial lists are those of the experiment controller and of the suggestion controller (a new or vanished call site is a
    reason to look again) -/
theorem C09_trial_list_sites : trialListSites.map (·.fn) = ["ReconcileExperiment", "ReconcileSuggestion"] := by decide

end Katib.Gen
