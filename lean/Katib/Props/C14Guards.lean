import Katib.Gen.Guards
import Katib.Model.Admission
/-!
# C14: the model's name and budget errors are raised under the source's path conditions

`Katib/Gen/Guards.lean` (regenerated on every run by `kvh extract guards`) holds the conditions under which
`DefaultValidator.ValidateExperiment` (pkg/webhook/v1beta1/experiment/validator/validator.go) appends the `metadata.name`
error and each of the five budget errors.  The model's `nameErrs` and `budgetErrs` raise each error under exactly that
condition, the atoms read on the model's fields (`*x` under `x != nil`; an unset field makes the dereferencing atom
irrelevant, which the theorem shows by leaving it arbitrary).
-/
namespace Katib.Gen
open Katib Katib.Adm

theorem C14_budget_guards_known :
    errNameGuardUnknown = [] ∧ errMaxFailedNegativeGuardUnknown = [] ∧ errMaxNotPositiveGuardUnknown = [] ∧
    errParNotPositiveGuardUnknown = [] ∧ errMaxFailedAboveMaxGuardUnknown = [] ∧ errParAboveMaxGuardUnknown = [] ∧
    errNameGuardSites = 1 ∧ errMaxFailedNegativeGuardSites = 1 ∧ errMaxNotPositiveGuardSites = 1 ∧
    errParNotPositiveGuardSites = 1 ∧ errMaxFailedAboveMaxGuardSites = 1 ∧ errParAboveMaxGuardSites = 1 := by decide

/-- the generated guards on a name and a budget; `d` is the value a dereference of an unset field would read (never used) -/
def admG (n : String) (b : Budget) (d : Bool)
    (g : Bool → Bool → Bool → Bool → Bool → Bool → Bool → Bool → Bool → Bool → Bool → Bool → Bool → Bool → Bool → Bool → Bool → Bool → Bool) : Bool :=
  g false false false false b.max.isSome false false false (nameRe n.toList) (decide (n.length > 40))
    b.maxFailed.isSome (match b.maxFailed with | some f => decide (f < 0) | none => d)
    (match b.max with | some m => decide (m ≤ 0) | none => d)
    b.parallel.isSome (match b.parallel with | some p => decide (p ≤ 0) | none => d)
    (match b.maxFailed, b.max with | some f, some m => decide (f > m) | _, _ => d)
    (match b.parallel, b.max with | some p, some m => decide (p > m) | _, _ => d) false

set_option linter.unusedSimpArgs false in
/-- **C14_name_error_is_source** -/
theorem C14_name_error_is_source (n : String) (b : Budget) (d : Bool) :
    nameErrs n = if admG n b d errNameGuard then ["I:metadata.name"] else [] := by
  unfold nameErrs nameAdmitted admG errNameGuard
  cases hr : nameRe n.toList <;> by_cases hl : n.length ≤ 40 <;> simp [hr, hl, String.length_toList] <;> omega

set_option linter.unusedSimpArgs false in
/-- **C14_budget_errors_are_source** -/
theorem C14_budget_errors_are_source (n : String) (b : Budget) (d : Bool) :
    budgetErrs b =
      (if admG n b d errMaxFailedNegativeGuard then ["I:spec.maxFailedTrialCount"] else []) ++
      (if admG n b d errMaxNotPositiveGuard then ["I:spec.maxTrialCount"] else []) ++
      (if admG n b d errParNotPositiveGuard then ["I:spec.parallelTrialCount"] else []) ++
      (if admG n b d errMaxFailedAboveMaxGuard then ["I:spec.maxFailedTrialCount"] else []) ++
      (if admG n b d errParAboveMaxGuard then ["I:spec.parallelTrialCount"] else []) := by
  unfold budgetErrs admG errMaxFailedNegativeGuard errMaxNotPositiveGuard errParNotPositiveGuard errMaxFailedAboveMaxGuard
    errParAboveMaxGuard
  cases hf : b.maxFailed <;> cases hm : b.max <;> cases hp : b.parallel <;> simp [hf, hm, hp]

/-! ## `validateObjective` -/

theorem C14_objective_guards_known :
    objMissingGuardUnknown = [] ∧ objTypeGuardUnknown = [] ∧ objMetricGuardUnknown = [] ∧ objAdditionalGuardUnknown = [] ∧
    objMissingGuardSites = 1 ∧ objTypeGuardSites = 1 ∧ objMetricGuardSites = 1 ∧ objAdditionalGuardSites = 1 := by decide

/-- the generated guards on an objective; `d` stands for what a field read through a nil objective would give (never used) -/
def objG (o : Option Objective) (d : Bool) (g : Bool → Bool → Bool → Bool → Bool → Bool → Bool) : Bool :=
  match o with
  | none => g true d d d d false
  | some o => g false (decide (o.typ ≠ "minimize")) (decide (o.typ ≠ "maximize")) (decide (o.metric = ""))
      (o.additional.contains o.metric) false

set_option linter.unusedSimpArgs false in
/-- **C14_objective_errors_are_source**: `validateObjective` returns after the Required error for a nil objective and otherwise
    raises the three field errors under the source's conditions, in the source's order -/
theorem C14_objective_errors_are_source (o : Option Objective) (d : Bool) :
    objectiveErrs o =
      (if objG o d objMissingGuard then ["R:spec.objective"] else []) ++
      (if objG o d objTypeGuard then ["I:spec.objective.type"] else []) ++
      (if objG o d objMetricGuard then ["R:spec.objective.objectiveMetricName"] else []) ++
      (if objG o d objAdditionalGuard then ["I:spec.objective.additionalMetricNames"] else []) := by
  unfold objectiveErrs objG objMissingGuard objTypeGuard objMetricGuard objAdditionalGuard
  cases o <;> simp

/-! ## `validateAlgorithm`, `validateEarlyStopping` -/

theorem C14_algorithm_guards_known :
    algMissingGuardUnknown = [] ∧ algNameEmptyGuardUnknown = [] ∧ algUnknownGuardUnknown = [] ∧ esNameEmptyGuardUnknown = [] ∧
    esUnknownGuardUnknown = [] ∧ algMissingGuardSites = 1 ∧ algNameEmptyGuardSites = 1 ∧ algUnknownGuardSites = 1 ∧
    esNameEmptyGuardSites = 1 ∧ esUnknownGuardSites = 1 := by decide

/-- the generated guards on an algorithm / early-stopping spec (`known` = the katib-config lookup succeeds) -/
def algG (a : Option String) (known d : Bool) (g : Bool → Bool → Bool → Bool → Bool) : Bool :=
  match a with
  | none => g true d d false
  | some n => g false (decide (n = "")) (!known) false

set_option linter.unusedSimpArgs false in
/-- **C14_algorithm_errors_are_source** -/
theorem C14_algorithm_errors_are_source (a : Option String) (known d : Bool) :
    algorithmErrs a known =
      (if algG a known d algMissingGuard then ["R:spec.algorithm"] else []) ++
      (if algG a known d algNameEmptyGuard then ["R:spec.algorithm.algorithmName"] else []) ++
      (if algG a known d algUnknownGuard then ["I:spec.algorithm.algorithmName"] else []) := by
  unfold algorithmErrs algG algMissingGuard algNameEmptyGuard algUnknownGuard
  cases a <;> cases known <;> simp

set_option linter.unusedSimpArgs false in
/-- **C14_early_stopping_errors_are_source**: a nil early-stopping spec raises nothing -/
theorem C14_early_stopping_errors_are_source (a : Option String) (known d : Bool) :
    earlyStoppingErrs a known =
      (if algG a known d esNameEmptyGuard then ["R:spec.earlyStopping.algorithmName"] else []) ++
      (if algG a known d esUnknownGuard then ["I:spec.earlyStopping.algorithmName"] else []) := by
  unfold earlyStoppingErrs algG esNameEmptyGuard esUnknownGuard
  cases a <;> cases known <;> simp

end Katib.Gen
