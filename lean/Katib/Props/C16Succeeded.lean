import Katib.Props.C16World
/-!
# C16 over whole schedules: a Suggestion is Succeeded only if its Experiment has carried a verdict

`C16_succeeded_only_after_verdict`: for every list of simulator operations (no hypothesis on the schedule): if the
Suggestion of `k` is Succeeded in the current store, then in some snapshot of the history the Experiment `k` carried a
Succeeded or Failed verdict.  The experiment controller marks the Suggestion Succeeded only in its clean-up for a completed
Experiment (`expPlan_guard`: the *viewed* Experiment is completed — and every view is a snapshot of the history), the
suggestion controller never writes a status containing Succeeded (`sugPlan_nosucc`), nobody else writes Suggestion statuses.
-/
namespace Katib.Ctl
open Katib Katib.Exp

/-- the history `hs` holds a snapshot in which Experiment `k` is completed -/
def EverCompleted (hs : Array World) (k : Key2) : Prop :=
  ∃ (i : Nat) (h : World) (e : ExpO), hs[i]? = some h ∧ findExp h k = some e ∧ isCompleted e.st.conds = true

def UInv (hs : Array World) (k : Key2) (w : World) : Prop :=
  ∀ s, findSug w k = some s → sHas s .succeeded = true → EverCompleted hs k

def UJust (hs : Array World) (k : Key2) : Call → Prop
  | .sugCreate s' => s'.key = k → sHas s' .succeeded = false
  | .sugStatus k' _ st' => k' = k → Cond.has st'.conds .succeeded = true → EverCompleted hs k
  | _ => True

theorem uinv_same {hs : Array World} {k : Key2} {w w' : World} (hs' : w'.sugs = w.sugs) (h : UInv hs k w) : UInv hs k w' := by
  unfold UInv findSug at *
  rw [hs']; exact h

theorem apply_pres_U {hs : Array World} {k : Key2} {w w' : World} {c : Call} (hU : UInv hs k w) (hJ : UJust hs k c)
    (h : applyCall w c = .ok w') : UInv hs k w' := by
  cases c with
  | sugCreate s' =>
    simp only [applyCall] at h; split at h
    · cases h
    · cases h
      intro s hsg hsucc
      unfold findSug at hsg
      simp only [List.find?_append] at hsg
      cases hf : List.find? (fun x => decide (x.key = k)) w.sugs with
      | some s0 =>
        rw [hf] at hsg; simp only [Option.some_or, Option.some.injEq] at hsg; subst hsg
        exact hU s0 hf hsucc
      | none =>
        rw [hf] at hsg
        simp only [Option.none_or, List.find?_cons, List.find?_nil] at hsg
        split at hsg
        · rename_i hk
          simp only [Option.some.injEq] at hsg; subst hsg
          rw [hJ (by simpa using hk)] at hsucc; cases hsucc
        · cases hsg
  | sugUpdateReq k' rv req =>
    simp only [applyCall] at h; split at h
    · cases h
    · split at h <;> cases h
      intro s hsg hsucc
      rw [findSug_updSug w k k' (fun s => { s with requests := req, rv := s.rv + 1 }) (fun _ => rfl)] at hsg
      cases h0 : findSug w k with
      | none => rw [h0] at hsg; cases hsg
      | some s0 =>
        rw [h0] at hsg
        simp only [Option.map_some, Option.some.injEq] at hsg
        subst hsg
        refine hU s0 h0 ?_
        split at hsucc <;> exact hsucc
  | sugStatus k' rv st =>
    simp only [applyCall] at h; split at h
    · cases h
    · split at h <;> cases h
      intro s hsg hsucc
      rw [findSug_updSug w k k' (fun s => { s with st := st, rv := s.rv + 1 }) (fun _ => rfl)] at hsg
      cases h0 : findSug w k with
      | none => rw [h0] at hsg; cases hsg
      | some s0 =>
        rw [h0] at hsg
        simp only [Option.map_some, Option.some.injEq] at hsg
        subst hsg
        have hk0 := findSug_key h0
        split at hsucc
        · rename_i hkk
          exact hJ (by rw [← hkk, hk0]) hsucc
        · exact hU s0 h0 hsucc
  | expUpdateFin k' rv fin =>
    simp only [applyCall] at h; split at h
    · cases h
    · split at h <;> cases h; exact uinv_same rfl hU
  | expStatus k' rv st =>
    simp only [applyCall] at h; split at h
    · cases h
    · split at h <;> cases h; exact uinv_same rfl hU
  | trialCreate t => simp only [applyCall] at h; split at h <;> cases h; exact uinv_same rfl hU
  | trialStatus k' rv st =>
    simp only [applyCall] at h; split at h
    · cases h
    · split at h <;> cases h; exact uinv_same rfl hU
  | trialUpdateFin k' rv fin =>
    simp only [applyCall] at h; split at h
    · cases h
    · split at h
      · cases h
      · split at h <;> cases h <;> exact uinv_same rfl hU
  | trialDelete k' =>
    simp only [applyCall] at h; split at h
    · cases h
    · split at h <;> cases h <;> exact uinv_same rfl hU
  | jobCreate k' => simp only [applyCall] at h; split at h <;> cases h; exact uinv_same rfl hU
  | jobDelete k' => simp only [applyCall] at h; split at h <;> cases h; exact uinv_same rfl hU
  | deployCreate k' => simp only [applyCall] at h; split at h <;> cases h; exact uinv_same rfl hU
  | deployDelete k' => simp only [applyCall] at h; split at h <;> cases h; exact uinv_same rfl hU
  | svcCreate k' =>
    simp only [applyCall, createKey] at h; split at h
    · cases h
    · cases h; exact uinv_same rfl hU
  | svcDelete k' => simp only [applyCall] at h; split at h <;> cases h; exact uinv_same rfl hU
  | pvcCreate k' =>
    simp only [applyCall, createKey] at h; split at h
    · cases h
    · cases h; exact uinv_same rfl hU
  | saCreate k' =>
    simp only [applyCall, createKey] at h; split at h
    · cases h
    · cases h; exact uinv_same rfl hU
  | roleCreate k' =>
    simp only [applyCall, createKey] at h; split at h
    · cases h
    · cases h; exact uinv_same rfl hU
  | rbCreate k' =>
    simp only [applyCall, createKey] at h; split at h
    · cases h
    · cases h; exact uinv_same rfl hU
  | rpcValidate e => simp only [applyCall] at h; cases h; exact uinv_same rfl hU
  | rpcValidateES => simp only [applyCall] at h; cases h; exact uinv_same rfl hU
  | rpcGetSuggestions e cur total ts consume ok => simp only [applyCall] at h; split at h <;> cases h; exact uinv_same rfl hU
  | rpcGetRules e ok => simp only [applyCall] at h; split at h <;> cases h; exact uinv_same rfl hU
  | dbGet t => simp only [applyCall] at h; cases h; exact uinv_same rfl hU
  | dbDelete t => simp only [applyCall] at h; cases h; exact uinv_same rfl hU
  | dbReport t e => simp only [applyCall] at h; split at h <;> cases h <;> exact uinv_same rfl hU


theorem ever_push {hs : Array World} {k : Key2} (w : World) (h : EverCompleted hs k) : EverCompleted (hs.push w) k := by
  obtain ⟨i, h0, e, hi, he, hc⟩ := h
  refine ⟨i, h0, e, ?_, he, hc⟩
  rw [Array.getElem?_push]
  have hlt : i < hs.size := by
    cases Nat.lt_or_ge i hs.size with
    | inl h => exact h
    | inr hge => rw [Array.getElem?_eq_none hge] at hi; cases hi
  rw [if_neg (by omega)]; exact hi

theorem uinv_push {hs : Array World} {k : Key2} {w : World} (w' : World) (h : UInv hs k w) : UInv (hs.push w') k w :=
  fun s hs' hsucc => ever_push w' (h s hs' hsucc)

theorem expPlan_ujust (hs : Array World) (k : Key2) (v : World) (k' : Key2) (now : Nat)
    (hview : ∀ e, findExp v k = some e → isCompleted e.st.conds = true → EverCompleted hs k) : (expPlan v k' now).All (UJust hs k) := by
  cases he : findExp v k' with
  | none => unfold expPlan; rw [he]; trivial
  | some e =>
    have hkey := findExp_key he
    refine (expPlan_guard v k' now e he).mono ?_
    intro c hc
    cases c with
    | sugCreate s' =>
      obtain ⟨_, _, h3, _⟩ := hc
      intro _
      unfold sHas; rw [h3]; rfl
    | sugStatus k'' _ _ =>
      obtain ⟨_, _, h2, _, _, _, hcompl⟩ := hc
      intro hkk _
      have : k' = k := by rw [← hkey, ← h2, hkk]
      subst this
      exact hview e he hcompl
    | _ => trivial

theorem sugPlan_ujust (hs : Array World) (k : Key2) (v : World) (k' : Key2) (env : SugEnv) (now : Nat) (hv : UInv hs k v) :
    (sugPlan v k' env now).All (UJust hs k) := by
  cases hsg : findSug v k' with
  | none => unfold sugPlan; rw [hsg]; trivial
  | some s =>
    have hkey := findSug_key hsg
    cases hsucc : sHas s .succeeded with
    | true =>
      refine (sugPlan_guard v k' env now s hsg).mono ?_
      intro c hc
      cases c with
      | sugCreate _ => exact absurd hc id
      | sugStatus k'' _ _ =>
        intro hkk _
        have : k' = k := by rw [← hkey, ← hc.1, hkk]
        subst this
        exact hv s hsg hsucc
      | _ => trivial
    | false =>
      refine (Prog.All.and (sugPlan_guard v k' env now s hsg) (sugPlan_nosucc v k' env now s hsg hsucc)).mono ?_
      intro c hc
      cases c with
      | sugCreate _ => exact absurd hc.1 id
      | sugStatus _ _ _ => intro _ h; rw [hc.2] at h; cases h
      | _ => trivial

theorem trialPlan_ujust (hs : Array World) (k : Key2) (v : World) (k' : Key2) (now : Nat) : (trialPlan v k' now).All (UJust hs k) :=
  (trialPlan_noinfra v k' now).mono (fun c hc => by cases c <;> first | trivial | exact absurd hc id)

def SInvU (k : Key2) (s : Sim) : Prop :=
  (∀ (i : Nat) (h : World), s.hist[i]? = some h → UInv s.hist k h) ∧ UInv s.hist k s.cur ∧ s.hist[s.hist.size - 1]? = some s.cur

theorem snap_goodU {k : Key2} {s : Sim} (hI : SInvU k s) (i : Nat) : UInv s.hist k (snapAt s i) := by
  unfold snapAt
  cases h : s.hist[i]? with
  | none => exact hI.2.1
  | some w => exact hI.1 i w h

theorem snap_completed {k : Key2} {s : Sim} (hI : SInvU k s) (i : Nat) :
    ∀ e, findExp (snapAt s i) k = some e → isCompleted e.st.conds = true → EverCompleted s.hist k := by
  intro e he hc
  unfold snapAt at he
  cases h : s.hist[i]? with
  | none => rw [h] at he; exact ⟨s.hist.size - 1, s.cur, e, hI.2.2, he, hc⟩
  | some w => rw [h] at he; exact ⟨i, w, e, h, he, hc⟩

theorem exec_U {hs : Array World} {k : Key2} {w0 : World} (f : Faults) (p : Prog) (hp : p.All (UJust hs k)) (hU : UInv hs k w0) :
    UInv hs k (exec f p w0 0 []).w :=
  exec_preserves (I := UInv hs k) (P := UJust hs k) f (fun _ _ _ hI hc happ => apply_pres_U hI hc happ) p w0 0 [] hp hU

theorem stepWorld_okU {k : Key2} {s : Sim} (hI : SInvU k s) (op : Op) : UInv s.hist k (stepWorld s op).1 := by
  have hU := hI.2.1
  cases op with
  | recExp k' vE vT vS f =>
    refine exec_U f _ (expPlan_ujust s.hist k _ k' s.opIndex ?_) hU
    exact snap_completed hI vE
  | recSug k' vS vE vT vD f env =>
    refine exec_U f _ (sugPlan_ujust s.hist k _ k' env s.opIndex ?_) hU
    exact snap_goodU hI vS
  | recTrial k' vT f => exact exec_U f _ (trialPlan_ujust s.hist k _ k' s.opIndex) hU
  | job k' ok => simp only [stepWorld]; split <;> first | exact hU | exact uinv_same rfl hU
  | metric t text key nm => simp only [stepWorld]; split <;> exact uinv_same rfl hU
  | earlyStop k' =>
    simp only [stepWorld]
    split
    · exact hU
    · split <;> first | exact hU | exact uinv_same rfl hU
  | deployReady k' => simp only [stepWorld]; split <;> first | exact hU | exact uinv_same rfl hU
  | editMax k' n => simp only [stepWorld]; split <;> first | exact hU | exact uinv_same rfl hU
  | jobGone k' =>
    simp only [stepWorld]
    split
    · exact hU
    · split <;> first | exact hU | exact uinv_same rfl hU
  | userDelete k' =>
    simp only [stepWorld]
    split
    · exact hU
    · split
      · exact hU
      · split <;> exact uinv_same rfl hU
  | noop => exact hU

theorem step_invU {k : Key2} {s : Sim} (hI : SInvU k s) (op : Op) : SInvU k (step s op).1 := by
  have hW := stepWorld_okU hI op
  unfold step
  refine ⟨?_, uinv_push _ hW, ?_⟩
  · intro i h hh
    rw [Array.getElem?_push] at hh
    by_cases hi : i = s.hist.size
    · rw [if_pos hi] at hh; cases hh; exact uinv_push _ hW
    · rw [if_neg hi] at hh; exact uinv_push _ (hI.1 i h hh)
  · simp only [Array.size_push, Nat.add_sub_cancel]
    rw [Array.getElem?_push, if_pos rfl]

theorem run_invU {k : Key2} (ops : List Op) : ∀ {s : Sim}, SInvU k s → SInvU k (run s ops) := by
  induction ops with
  | nil => intro s h; exact h
  | cons op r ih => intro s h; exact ih (step_invU h op)

theorem init_invU (k : Key2) (es : List ExpInit) : SInvU k (Sim.init es) := by
  have hU : UInv (Sim.init es).hist k (Sim.init es).cur := fun s h => by simp [Sim.init, findSug] at h
  refine ⟨?_, hU, by simp [Sim.init]⟩
  intro i h hh
  simp only [Sim.init] at hh
  have : h = (Sim.init es).cur := by
    cases i with
    | zero => simp at hh; exact hh.symm
    | succ j => simp at hh
  rw [this]; exact hU

/-- **C16_succeeded_only_after_verdict**: over every schedule (no hypothesis): if the Suggestion of `k` is Succeeded, some
    snapshot of the history shows the Experiment `k` with a Succeeded or Failed verdict. -/
theorem C16_succeeded_only_after_verdict (k : Key2) (es : List ExpInit) (ops : List Op) :
    let s := run (Sim.init es) ops
    ∀ sg, findSug s.cur k = some sg → sHas sg .succeeded = true →
      ∃ (i : Nat) (h : World) (e : ExpO), s.hist[i]? = some h ∧ findExp h k = some e ∧ isCompleted e.st.conds = true := by
  intro s
  exact (run_invU ops (init_invU k es)).2.1

end Katib.Ctl
