import Katib.Props.C03Frozen
/-!
# C04 on schedules for the resume policies Never and LongRunning: no assumption about the Suggestion is left

`C04_quiescent_verdict_on_schedules_full` still assumed that the Suggestion is not Succeeded.  For an Experiment created with
resume policy LongRunning the Suggestion is never Succeeded (`C16_longrunning_service_kept`).  Under Never a Succeeded
Suggestion means that some snapshot showed the Experiment with a verdict (`C16_succeeded_only_after_verdict`); a completed
Experiment is Created (`XI` below), no verdict is restartable under Never, so that verdict is frozen
(`C03_frozen_verdict_world`) and the Experiment is completed now — which is what was to be shown.  What remains are the
hypotheses of the property itself: nothing writes any more, jobs have finished, metrics are in, the Deployment is ready.
-/
namespace Katib.Ctl
open Katib Katib.Exp

def Cr (cs : List ECond) : Prop := Cond.has cs .created = true

theorem cr_runningFalse {cs : List ECond} (now : Nat) (h : Cr cs) : Cr (runningFalse cs now) := by
  unfold Cr; rw [has_runningFalse_other cs now (by decide)]; exact h

theorem cr_markSucceeded {cs : List ECond} (r : String) (now : Nat) (h : Cr cs) : Cr (markSucceeded cs r now) := by
  unfold Cr markSucceeded; rw [Cond.has_set_other _ (by decide)]; exact cr_runningFalse now h

theorem cr_markFailed {cs : List ECond} (r : String) (now : Nat) (h : Cr cs) : Cr (markFailed cs r now) := by
  unfold Cr markFailed; rw [Cond.has_set_other _ (by decide)]; exact cr_runningFalse now h

theorem cr_markRunning {cs : List ECond} (now : Nat) (h : Cr cs) : Cr (markRunning cs now) := by
  unfold Cr markRunning; rw [Cond.has_set_other _ (by decide)]; exact h

theorem cr_markRestarting {cs : List ECond} (now : Nat) (h : Cr cs) : Cr (markRestarting cs now) := by
  unfold Cr markRestarting
  rw [Cond.has_set_other _ (by decide), Cond.has_remove_other _ (by decide), Cond.has_remove_other _ (by decide)]; exact h

theorem cr_updateCondition (b : Budget) (c : Counts) (s : Status) (g d : Bool) (now : Nat) (h : Cr s.conds) :
    Cr (updateCondition b c s g d now).conds := by
  unfold updateCondition
  split
  · exact cr_markSucceeded _ _ h
  · split
    · exact cr_markFailed _ _ h
    · split
      · exact cr_markSucceeded _ _ h
      · split
        · exact cr_markSucceeded _ _ h
        · exact cr_markRunning _ h

theorem cr_expUpdateStatus (e : ExpO) (st : ExpSt) (ts : List TrialO) (now : Nat) (h : Cr st.conds) :
    Cr (expUpdateStatus e st ts now).conds := by
  unfold expUpdateStatus updateStatus
  simp only []
  split
  · exact h
  · exact cr_updateCondition _ _ _ _ _ _ h

/-- every status the experiment controller writes carries Created -/
def CrJust : Call → Prop
  | .expStatus _ _ st' => Cr st'.conds
  | _ => True

theorem cj_expFinish (e : ExpO) (st : ExpSt) (h : Cr st.conds) : (expFinish e st).All CrJust := by
  unfold expFinish; split
  · trivial
  · exact ⟨h, trivial, trivial⟩

theorem cj_creates (e : ExpO) (l : List String) (k : Prog) (hk : k.All CrJust) :
    (l.foldr (fun a k => Prog.step (.trialCreate (mkTrial e a)) k k) k).All CrJust := by
  induction l with
  | nil => exact hk
  | cons a l ih => exact ⟨trivial, ih, ih⟩

theorem cj_expReconcileTrials (v : World) (e : ExpO) (st : ExpSt) (ts : List TrialO) (now : Nat) (h : Cr st.conds) :
    (expReconcileTrials v e st ts now).All CrJust := by
  unfold expReconcileTrials
  split
  · trivial
  · split
    · split
      · unfold expCreateTrials
        simp only []
        split
        · exact ⟨trivial, cj_expFinish e st h, trivial⟩
        · split
          · exact cj_expFinish e _ (cr_markFailed _ _ h)
          · split
            · exact ⟨trivial, cj_creates e _ _ (cj_expFinish e st h), trivial⟩
            · exact cj_creates e _ _ (cj_expFinish e st h)
      · exact cj_expFinish e st h
    · exact cj_expFinish e st h

theorem cj_expMain (v : World) (e : ExpO) (st : ExpSt) (now : Nat) : (expMain v e st now).All CrJust := by
  unfold expMain
  split
  · exact cj_expFinish e _ (Cond.has_set_self _ _ _ _ _)
  · rename_i hcr
    have hc : Cr st.conds := by simpa [Cr] using hcr
    simp only []
    have h1 : Cr (if (trialsOf v e.key).isEmpty = true then st else expUpdateStatus e st (trialsOf v e.key) now).conds := by
      split
      · exact hc
      · exact cr_expUpdateStatus e st _ now hc
    generalize (if (trialsOf v e.key).isEmpty = true then st else expUpdateStatus e st (trialsOf v e.key) now) = st1 at h1
    split
    · exact cj_expReconcileTrials v e st1 _ now h1
    · exact cj_expFinish e st1 h1

theorem expPlan_crjust (v : World) (k : Key2) (now : Nat) : (expPlan v k now).All CrJust := by
  cases he : findExp v k with
  | none => unfold expPlan; rw [he]; trivial
  | some e =>
    unfold expPlan
    rw [he]
    simp only []
    split
    · exact ⟨trivial, trivial, trivial⟩
    · split
      · exact ⟨trivial, trivial, trivial⟩
      · split
        · have cleanupOk : ∀ next : Prog, next.All CrJust →
              (if e.cfg.resume = Resume.never ∨ e.cfg.resume = Resume.fromVolume then
                match findSug v k with
                | none => next
                | some s =>
                  if (sCompleted s || sRestarting s) = true then next
                  else Prog.step (Call.sugStatus k s.rv { s.st with conds := sugMarkSucceeded s.st.conds rSugExpSucceeded now }) next (Prog.done Res.err)
               else next).All CrJust := by
            intro next hn
            split
            · split
              · exact hn
              · split
                · exact hn
                · exact ⟨trivial, hn, trivial⟩
            · exact hn
          split
          · apply cleanupOk
            split
            · split
              · exact cj_expMain v e _ now
              · split
                · exact cj_expMain v e _ now
                · exact ⟨trivial, cj_expMain v e _ now, trivial⟩
            · exact cj_expMain v e _ now
          · split
            · exact cleanupOk _ trivial
            · exact cleanupOk _ (cj_expMain v e _ now)
        · exact cj_expMain v e _ now

theorem sugPlan_crjust (v : World) (k : Key2) (env : SugEnv) (now : Nat) : (sugPlan v k env now).All CrJust := by
  cases hsg : findSug v k with
  | none => unfold sugPlan; rw [hsg]; trivial
  | some s =>
    refine (sugPlan_guard v k env now s hsg).mono ?_
    intro c hc
    cases c <;> first | trivial | exact absurd hc id

theorem trialPlan_crjust (v : World) (k : Key2) (now : Nat) : (trialPlan v k now).All CrJust :=
  (trialPlan_calls v k now).mono (fun c hc => by cases c <;> first | trivial | exact absurd hc id)

/-- the Experiment `k` carries resume policy `r` (when one is named), and a completed Experiment is Created -/
def XI (k : Key2) (r : Option Resume) (w : World) : Prop :=
  ∀ e ∈ w.exps, (e.key = k → ∀ r', r = some r' → e.cfg.resume = r') ∧ (isCompleted e.st.conds = true → Cr e.st.conds)

theorem xi_same {k : Key2} {r : Option Resume} {w w' : World} (e : w'.exps = w.exps) (h : XI k r w) : XI k r w' := by
  unfold XI; rw [e]; exact h

theorem xi_upd {k : Key2} {r : Option Resume} {w : World} (k' : Key2) (f : ExpO → ExpO) (hkey : ∀ e, (f e).key = e.key)
    (hcfg : ∀ e, (f e).cfg = e.cfg) (hcr : ∀ e, (isCompleted e.st.conds = true → Cr e.st.conds) → isCompleted (f e).st.conds = true → Cr (f e).st.conds)
    (h : XI k r w) : XI k r (updExp w k' f) := by
  intro e' he'
  unfold updExp at he'
  simp only [List.mem_map] at he'
  obtain ⟨e, he, rfl⟩ := he'
  split
  · exact ⟨fun hk r' hr' => by rw [hcfg]; exact (h e he).1 (by rw [← hkey]; exact hk) r' hr', hcr e (h e he).2⟩
  · exact h e he

theorem apply_pres_XI {k : Key2} {r : Option Resume} {w w' : World} {c : Call} (hX : XI k r w) (hJ : CrJust c)
    (h : applyCall w c = .ok w') : XI k r w' := by
  cases c with
  | expStatus k' rv st =>
    simp only [applyCall] at h; split at h
    · cases h
    · split at h <;> cases h
      exact xi_upd _ _ (fun _ => rfl) (fun _ => rfl) (fun _ _ _ => hJ) hX
  | expUpdateFin k' rv fin =>
    simp only [applyCall] at h; split at h
    · cases h
    · split at h <;> cases h
      exact xi_upd _ _ (fun _ => rfl) (fun _ => rfl) (fun _ he => he) hX
  | sugCreate s' => exact xi_same (apply_exps_same h trivial) hX
  | sugUpdateReq k' rv req => exact xi_same (apply_exps_same h trivial) hX
  | sugStatus k' rv st => exact xi_same (apply_exps_same h trivial) hX
  | trialCreate t => exact xi_same (apply_exps_same h trivial) hX
  | trialStatus k' rv st => exact xi_same (apply_exps_same h trivial) hX
  | trialUpdateFin k' rv fin => exact xi_same (apply_exps_same h trivial) hX
  | trialDelete k' => exact xi_same (apply_exps_same h trivial) hX
  | jobCreate k' => exact xi_same (apply_exps_same h trivial) hX
  | jobDelete k' => exact xi_same (apply_exps_same h trivial) hX
  | deployCreate k' => exact xi_same (apply_exps_same h trivial) hX
  | deployDelete k' => exact xi_same (apply_exps_same h trivial) hX
  | svcCreate k' => exact xi_same (apply_exps_same h trivial) hX
  | svcDelete k' => exact xi_same (apply_exps_same h trivial) hX
  | pvcCreate k' => exact xi_same (apply_exps_same h trivial) hX
  | saCreate k' => exact xi_same (apply_exps_same h trivial) hX
  | roleCreate k' => exact xi_same (apply_exps_same h trivial) hX
  | rbCreate k' => exact xi_same (apply_exps_same h trivial) hX
  | rpcValidate e => exact xi_same (apply_exps_same h trivial) hX
  | rpcValidateES => exact xi_same (apply_exps_same h trivial) hX
  | rpcGetSuggestions e cur total ts consume ok => exact xi_same (apply_exps_same h trivial) hX
  | rpcGetRules e ok => exact xi_same (apply_exps_same h trivial) hX
  | dbGet t => exact xi_same (apply_exps_same h trivial) hX
  | dbDelete t => exact xi_same (apply_exps_same h trivial) hX
  | dbReport t e => exact xi_same (apply_exps_same h trivial) hX

def SInvX (k : Key2) (r : Option Resume) (s : Sim) : Prop := XI k r s.cur ∧ ∀ (i : Nat) (h : World), s.hist[i]? = some h → XI k r h

theorem exec_XI {k : Key2} {r : Option Resume} {w0 : World} (f : Faults) (p : Prog) (hp : p.All CrJust) (hX : XI k r w0) :
    XI k r (exec f p w0 0 []).w :=
  exec_preserves (I := XI k r) (P := CrJust) f (fun _ _ _ hI hc happ => apply_pres_XI hI hc happ) p w0 0 [] hp hX

theorem stepWorld_okX {k : Key2} {r : Option Resume} {s : Sim} (hI : SInvX k r s) (op : Op) : XI k r (stepWorld s op).1 := by
  have hX := hI.1
  cases op with
  | recExp k' vE vT vS f => exact exec_XI f _ (expPlan_crjust _ k' s.opIndex) hX
  | recSug k' vS vE vT vD f env => exact exec_XI f _ (sugPlan_crjust _ k' env s.opIndex) hX
  | recTrial k' vT f => exact exec_XI f _ (trialPlan_crjust _ k' s.opIndex) hX
  | job k' ok => simp only [stepWorld]; split <;> first | exact hX | exact xi_same rfl hX
  | metric t text key nm => simp only [stepWorld]; split <;> exact xi_same rfl hX
  | earlyStop k' =>
    simp only [stepWorld]
    split
    · exact hX
    · split <;> first | exact hX | exact xi_same rfl hX
  | deployReady k' => simp only [stepWorld]; split <;> first | exact hX | exact xi_same rfl hX
  | editMax k' n =>
    simp only [stepWorld]
    split
    · exact hX
    · exact xi_upd _ _ (fun _ => rfl) (fun _ => rfl) (fun _ he => he) hX
  | jobGone k' =>
    simp only [stepWorld]
    split
    · exact hX
    · split <;> first | exact hX | exact xi_same rfl hX
  | userDelete k' =>
    simp only [stepWorld]
    split
    · exact hX
    · split
      · exact hX
      · split <;> exact xi_same rfl hX
  | noop => exact hX

theorem step_invX {k : Key2} {r : Option Resume} {s : Sim} (hI : SInvX k r s) (op : Op) : SInvX k r (step s op).1 := by
  have hW := stepWorld_okX hI op
  unfold step
  refine ⟨hW, ?_⟩
  intro i h hh
  rw [Array.getElem?_push] at hh
  by_cases hi : i = s.hist.size
  · rw [if_pos hi] at hh; cases hh; exact hW
  · rw [if_neg hi] at hh; exact hI.2 i h hh

theorem run_invX {k : Key2} {r : Option Resume} (ops : List Op) : ∀ {s : Sim}, SInvX k r s → SInvX k r (run s ops) := by
  induction ops with
  | nil => intro s h; exact h
  | cons op r' ih => intro s h; exact ih (step_invX h op)

theorem init_invX (k : Key2) (r : Option Resume) (es : List ExpInit)
    (hres : ∀ ei ∈ es, ei.key = k → ∀ r', r = some r' → ei.cfg.resume = r') : SInvX k r (Sim.init es) := by
  have hX : XI k r (Sim.init es).cur := by
    intro e he
    simp only [Sim.init, List.mem_map] at he
    obtain ⟨ei, hei, rfl⟩ := he
    exact ⟨fun hk r' hr' => hres ei hei hk r' hr', fun hc => by cases hc⟩
  refine ⟨hX, ?_⟩
  intro i h hh
  simp only [Sim.init] at hh
  have : h = (Sim.init es).cur := by
    cases i with
    | zero => simp at hh; exact hh.symm
    | succ j => simp at hh
  rw [this]; exact hX

/-- **C03_completed_is_created_world**: over every schedule (no hypothesis) an Experiment that carries a verdict is Created. -/
theorem C03_completed_is_created_world (es : List ExpInit) (ops : List Op) :
    let s := run (Sim.init es) ops
    (∀ e ∈ s.cur.exps, isCompleted e.st.conds = true → Cond.has e.st.conds .created = true) ∧
    (∀ (i : Nat) (h : World), s.hist[i]? = some h → ∀ e ∈ h.exps, isCompleted e.st.conds = true → Cond.has e.st.conds .created = true) := by
  intro s
  have hX : SInvX { ns := "", name := "" } none s := run_invX ops (init_invX _ none es (fun _ _ _ _ hr' => by cases hr'))
  exact ⟨fun e he => (hX.1 e he).2, fun i h hh e he => (hX.2 i h hh e he).2⟩

/-- **C03_frozen_verdict_world_created**: `C03_frozen_verdict_world` without its Created premise. -/
theorem C03_frozen_verdict_world_created (k : Key2) (es : List ExpInit) (ops : List Op) :
    let s := run (Sim.init es) ops
    ∀ (i : Nat) (h : World) (eh : ExpO), s.hist[i]? = some h → findExp h k = some eh →
      isCompleted eh.st.conds = true → restartable eh.st.conds eh.cfg.resume = false →
      ∃ ec, findExp s.cur k = some ec ∧ ec.st.conds = eh.st.conds ∧ ec.st.completion = eh.st.completion ∧ ec.cfg = eh.cfg := by
  intro s i h eh hh he h2 h3
  exact C03_frozen_verdict_world k es ops i h eh hh he
    ((C03_completed_is_created_world es ops).2 i h hh eh (findExp_mem he) h2) h2 h3

/-- **C04_quiescent_verdict_on_schedules_resume**: for an Experiment created with resume policy Never or LongRunning and a
    `maxTrialCount ≥ 1` that is not edited, on every schedule without Trial deletions: if in the reached store no controller
    writes any more, no job is running, every successful job's metrics are in, the algorithm Deployment (if any) is ready and no
    Trial is early-stopped without observation, then the Experiment carries a verdict.  Nothing else is assumed about the store. -/
theorem C04_quiescent_verdict_on_schedules_resume (k : Key2) (m : Int) (hm1 : 1 ≤ m) (r : Resume) (hr : r ≠ .fromVolume)
    (es : List ExpInit) (ops : List Op)
    (hinit : ∀ e ∈ es, e.key = k → e.maxT = some m) (hres : ∀ e ∈ es, e.key = k → e.cfg.resume = r)
    (hops : ∀ op ∈ ops, ∀ n, op ≠ .editMax k n) (hopd : ∀ op ∈ ops, ∀ k', op ≠ .userDelete k')
    (now : Nat) (e : ExpO) :
    let w := (run (Sim.init es) ops).cur
    findExp w k = some e → 1 ≤ e.par → e.deleted = false →
    (expPlan w k now).noWrites → (sugPlan w k {} now).noWrites → (∀ t ∈ trialsOf w k, (trialPlan w t.key now).noWrites) →
    (∀ t ∈ trialsOf w k, ∀ j, findJob w t.key = some j → j.state ≠ .running) →
    (∀ t ∈ trialsOf w k, ∀ j, findJob w t.key = some j → j.state = .succeeded →
      (t.push = false → (dbOf w t.key.name).isEmpty = false) ∧
      ((dbOf w t.key.name).isEmpty = false → (Metrics.getMetrics (dbOf w t.key.name) [objMetric]).isSome = true)) →
    (∀ d, findDeploy w (infraKey k) = some d → d.ready = true) →
    (∀ t ∈ trialsOf w k, (!obsAvailable t.st && tHas t .earlyStopped) = false) →
    isCompleted e.st.conds = true := by
  intro w he hpar hdel qE qS qT envJ envM envD nw
  -- either the Suggestion is not Succeeded (then the `_full` theorem applies) or the Experiment's verdict is frozen
  by_cases hS : ∀ s, findSug w k = some s → sHas s .succeeded = false
  · exact C04_quiescent_verdict_on_schedules_full k m hm1 es ops hinit hops hopd now e he hpar hdel qE qS qT envJ envM envD nw hS
  · have hS' : ∃ s, findSug w k = some s ∧ sHas s .succeeded = true := by
      apply Classical.byContradiction
      intro hno
      apply hS
      intro s hs
      cases hh : sHas s .succeeded with
      | false => rfl
      | true => exact absurd ⟨s, hs, hh⟩ hno
    obtain ⟨sg, hsg, hsucc⟩ := hS'
    cases r with
    | fromVolume => exact absurd rfl hr
    | longRunning =>
      have := (C16_longrunning_service_kept k es ops hres).1 sg hsg
      rw [this.2] at hsucc; cases hsucc
    | never =>
      obtain ⟨i, h, eh, hh, heh, hcompl⟩ := C16_succeeded_only_after_verdict k es ops sg hsg hsucc
      have hX : SInvX k (some .never) (run (Sim.init es) ops) :=
        run_invX ops (init_invX k (some .never) es (fun ei hei hk r' hr' => by cases hr'; exact hres ei hei hk))
      have hmem : eh ∈ h.exps := findExp_mem heh
      obtain ⟨hpol, hcr⟩ := hX.2 i h hh eh hmem
      have hnr : restartable eh.st.conds eh.cfg.resume = false := by
        rw [hpol (findExp_key heh) _ rfl]; unfold restartable; simp
      obtain ⟨ec, hec, hconds, _, _⟩ := C03_frozen_verdict_world k es ops i h eh hh heh (hcr hcompl) hcompl hnr
      have : ec = e := by
        have h1 : findExp w k = some ec := hec
        rw [he] at h1; cases h1; rfl
      rw [← this, hconds]; exact hcompl

end Katib.Ctl
