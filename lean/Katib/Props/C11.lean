import Katib.Lemmas.Metrics
/-!
# C11 — Trial observation = per-metric min / max / latest of the reported log

Theorems about `Katib.Metrics.getMetrics` (model of `getMetrics` in trial_controller_util.go).
`key`/`ts` are the ParseFloat / time.Parse oracles carried by each entry (NaN/Inf excluded: `key` is
then not order-isomorphic and the harness never generates them).
-/
namespace Katib.Metrics

/-- every result record is the independent fold over the entries of its own metric, started from
    the all-`unavailable` record -/
theorem C11_decompose {es : List Entry} {s : List String} {ms : List Metric}
    (h : getMetrics es s = some ms) :
    ∀ r, r ∈ ms ↔ ∃ n ∈ s.eraseDups, runOne (initMetric n) (own n es) = some r := by
  unfold getMetrics at h
  rw [run_eq_optMap] at h
  intro r
  rw [optMap_some_mem h r]
  simp only [initMetrics, List.mem_map]
  constructor
  · rintro ⟨m, ⟨n, hn, rfl⟩, hr⟩; exact ⟨n, hn, hr⟩
  · rintro ⟨n, hn, hr⟩; exact ⟨initMetric n, ⟨n, hn, rfl⟩, hr⟩

/-- C11_names: exactly one summary per distinct named metric, in strategy order; unnamed metrics ignored -/
theorem C11_names {es : List Entry} {s : List String} {ms : List Metric}
    (h : getMetrics es s = some ms) : ms.map (·.name) = s.eraseDups := by
  unfold getMetrics at h
  rw [run_eq_optMap] at h
  have := optMap_map_fst (f := fun m => runOne m (own m.name es)) (·.name) (·.name)
    (fun a b hab => runOne_name hab) h
  rw [this, initMetrics, List.map_map]
  have : ((fun m : Metric => m.name) ∘ initMetric) = id := by funext n; rfl
  rw [this, List.map_id]

/-- the error return happens exactly when an entry of a *named* metric has an unparsable timestamp -/
theorem C11_error_iff (es : List Entry) (s : List String) :
    getMetrics es s = none ↔ ∃ e ∈ es, e.metric ∈ s ∧ e.ts = none := by
  unfold getMetrics
  rw [run_eq_optMap, optMap_none_iff]
  simp only [initMetrics, List.mem_map, List.mem_eraseDups]
  constructor
  · rintro ⟨m, ⟨n, hn, rfl⟩, hr⟩
    obtain ⟨e, he, hts⟩ := runOne_none_iff.mp hr
    simp only [own, initMetric, List.mem_filter] at he
    have he2 : e.metric = n := of_decide_eq_true he.2
    exact ⟨e, he.1, he2 ▸ hn, hts⟩
  · rintro ⟨e, he, hn, hts⟩
    refine ⟨initMetric e.metric, ⟨e.metric, hn, rfl⟩, ?_⟩
    apply runOne_none_iff.mpr
    exact ⟨e, by simp [own, initMetric, he], hts⟩

/-- what a result record says, in terms of the metric's own entries `l` (in log order) -/
structure Summary (l : List Entry) (r : Metric) : Prop where
  /-- no numeric value reported ⇒ min and max are `unavailable` -/
  unreported_minmax : (∀ e ∈ l, e.key = none) → r.min = unavailable ∧ r.max = unavailable
  /-- min is the text of the first entry with the smallest key; nothing reported is smaller -/
  min : ∀ e ∈ l, e.key ≠ none → ∃ k, FirstExt (· < ·) l r.min k ∧ ∀ e' ∈ l, ∀ k', e'.key = some k' → k ≤ k'
  /-- max is the text of the first entry with the largest key; nothing reported is larger -/
  max : ∀ e ∈ l, e.key ≠ none → ∃ k, FirstExt (fun a b => b < a) l r.max k ∧ ∀ e' ∈ l, ∀ k', e'.key = some k' → k' ≤ k
  /-- never reported ⇒ latest is `unavailable` -/
  unreported_latest : l = [] → r.latest = unavailable
  /-- latest is the text of the last entry among those with the greatest timestamp -/
  latest : l ≠ [] → ∃ t, LastLatest l r.latest t ∧ ∀ e' ∈ l, ∀ t', e'.ts = some t' → t' ≤ t

theorem summary_of_runOne {n : String} {l : List Entry} {r : Metric}
    (h : runOne (initMetric n) l = some r) : Summary l r := by
  obtain ⟨hmm, hts, hall⟩ := inv_runOne h (mmInv_init n) (tsInv_init n)
  simp only [List.nil_append] at hmm hts
  have keyed_of : ∀ e ∈ l, e.key ≠ none → r.minK ≠ none := by
    intro e he hk hn
    exact hk ((hmm.none_min hn).1 e he)
  constructor
  · intro hnone
    cases hk : r.minK with
    | none => exact (hmm.none_min hk).2
    | some k =>
      obtain ⟨pre, e0, post, hp, hk0, _⟩ := hmm.some_min k hk
      have := hnone e0 (by simp [hp])
      rw [hk0] at this; cases this
  · intro e he hk
    cases hmk : r.minK with
    | none => exact absurd hmk (keyed_of e he hk)
    | some k => exact ⟨k, hmm.some_min k hmk, (hmm.some_min k hmk).all_ge⟩
  · intro e he hk
    cases hmk : r.maxK with
    | none =>
      have h1 := keyed_of e he hk
      have h2 := hmm.keyed
      cases h3 : r.minK with
      | none => exact absurd h3 h1
      | some _ => simp [h3, hmk] at h2
    | some k => exact ⟨k, hmm.some_max k hmk, (hmm.some_max k hmk).all_le⟩
  · intro hl
    cases ht : r.lastTs with
    | none => exact (hts.none_ts ht).2
    | some t =>
      obtain ⟨pre, e0, post, hp, _⟩ := hts.some_ts t ht
      simp [hl] at hp
  · intro hl
    cases ht : r.lastTs with
    | none => exact absurd (hts.none_ts ht).1 hl
    | some t => exact ⟨t, hts.some_ts t ht, (hts.some_ts t ht).all_le⟩

/-- C11_min / C11_max / C11_latest / C11_unreported: every record of the result summarises exactly the
    entries of its own metric. -/
theorem C11_summary {es : List Entry} {s : List String} {ms : List Metric}
    (h : getMetrics es s = some ms) : ∀ r ∈ ms, Summary (own r.name es) r := by
  intro r hr
  obtain ⟨n, _, hn⟩ := (C11_decompose h r).mp hr
  have : r.name = n := by rw [runOne_name hn]; rfl
  rw [this]
  exact summary_of_runOne hn

/-- C11_interleaving: the result depends only on each metric's own sub-log (any interleaving of the
    per-metric sequences gives the same observation, error included). -/
theorem C11_interleaving (l₁ l₂ : List Entry) (s : List String)
    (h : ∀ n, own n l₁ = own n l₂) : getMetrics l₁ s = getMetrics l₂ s := by
  unfold getMetrics
  rw [run_eq_optMap, run_eq_optMap]
  apply optMap_congr
  intro m _
  rw [h]

/-- entries of metrics that are not named in the strategies are ignored altogether -/
theorem C11_unnamed_ignored (es : List Entry) (s : List String) :
    getMetrics es s = getMetrics (es.filter (fun e => e.metric ∈ s)) s := by
  unfold getMetrics
  rw [run_eq_optMap, run_eq_optMap]
  apply optMap_congr
  intro m hm
  simp only [initMetrics, List.mem_map, List.mem_eraseDups] at hm
  obtain ⟨n, hn, rfl⟩ := hm
  congr 1
  simp only [own, initMetric, List.filter_filter]
  apply List.filter_congr
  intro e _
  by_cases h : e.metric = n
  · simp [h, hn]
  · simp [h]

/-! Non-vacuity: a concrete log meets the hypotheses and produces the expected summary. -/
example :
    getMetrics
      [⟨"acc", "0.5", some 5, some 10⟩, ⟨"loss", "x", none, some 11⟩, ⟨"acc", "0.7", some 7, some 9⟩,
       ⟨"acc", "0.50", some 5, some 10⟩, ⟨"other", "1", some 1, none⟩]
      ["acc", "loss", "acc", "f1"]
    = some [⟨"acc", "0.5", "0.7", "0.50", some 5, some 7, some 10, some 5⟩,
            ⟨"loss", "unavailable", "unavailable", "x", none, none, some 11, none⟩,
            ⟨"f1", "unavailable", "unavailable", "unavailable", none, none, none, none⟩] := by decide

end Katib.Metrics
