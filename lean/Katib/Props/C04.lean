import Katib.Lemmas.ExpPlan
import Katib.Lemmas.SugPlan
import Katib.Props.C07
/-!
# C04 — Experiments cannot wedge: quiescence implies a verdict; no hot loop  (partial)

Proved here, for every view / fault mask / abort point: no reconcile ever issues a status write that would leave the
status as it read it (`C04_no_noop_status_write_*`), so in a state that no reconcile changes no status write is
attempted at all — the "no hot loop" half.  The liveness half (`quiescent ⇒ verdict`) is *false* of the code for
early-stopped trials whose objective value never becomes available: `C04_wedge_counterexample` is a machine-checked
witness (the known finding C04-early-stopped-without-observation); for the other configurations it is checked by the
correspondence runs' quiescence probe, not yet by a theorem (`C04_no_wedge` is open; see DESIGN.md).
-/
namespace Katib.Ctl
open Katib Katib.Exp

/-- C04_no_noop_status_write_exp: an Experiment status write always changes the status the reconcile read. -/
theorem C04_no_noop_status_write_exp (v : World) (k : Key2) (now : Nat) (e : ExpO) (he : findExp v k = some e) :
    (expPlan v k now).All (fun c => match c with | .expStatus _ _ st' => st' ≠ e.st | _ => True) := by
  apply (expPlan_guard v k now e he).mono
  intro c hc
  cases c <;> try trivial
  exact hc.2.2

theorem noop_trialFinish (t : TrialO) (st : TrialSt) :
    (trialFinish t st).All (fun c => match c with | .trialStatus _ _ st' => st' ≠ t.st | _ => True) := by
  unfold trialFinish; split
  · trivial
  · rename_i h; exact ⟨h, trivial, trivial⟩

/-- the same for Suggestion status writes on the success path (`updateStatus` compares with the object read) -/
theorem C04_no_noop_status_write_sug (s : SugO) (st : SugSt) :
    (sugFinish s st).All (fun c => match c with | .sugStatus _ _ st' => st' ≠ s.st | _ => True) := by
  unfold sugFinish; split
  · trivial
  · rename_i h; exact ⟨h, trivial, trivial⟩

/-- … and on the error path only changed conditions are persisted -/
theorem C04_no_noop_condition_write_sug (s : SugO) (st : SugSt) :
    (sugErr s st).All (fun c => match c with | .sugStatus _ _ st' => st'.conds ≠ s.st.conds | _ => True) := by
  unfold sugErr; split
  · trivial
  · rename_i h; exact ⟨h, trivial, trivial⟩

/-- `C04_wedge_counterexample` (known finding): maxTrialCount 2, parallel 1, early stopping, one early-stopped trial
    whose observation holds no objective value (also marked metrics-unavailable), job finished, deployment ready,
    suggestion running with requests = count = 1.  No reconcile of any of the three controllers issues a single call,
    and the Experiment has no verdict: the state is quiescent and wedged. -/
def wedgeWorld : World :=
  let k : Key2 := ⟨"ns", "exp"⟩
  let t : TrialO :=
    { key := ⟨"ns", "exp-t1"⟩, exp := "exp", fin := true, retain := true, push := false, objType := .maximize,
      st := { conds := [⟨.created, true, rTrialCreated, 1⟩, ⟨.earlyStopped, true, rTrialES, 2⟩, ⟨.running, false, rTrialRunning, 3⟩,
                        ⟨.metricsUnavailable, true, rTrialMU, 3⟩],
              completion := some 3, started := true,
              obs := (Metrics.getMetrics [{ metric := "acc", text := "unavailable", key := none, ts := some 2 }] ["acc"]).map
                       (fun ms => ms.map (fun m => { m with lastTs := none })) } }
  { exps := [{ key := k, fin := true, par := 1, maxT := some 2, maxF := none,
               cfg := { goal := none, objType := .maximize, resume := .longRunning, es := true, retain := true, push := false, labels := false },
               st := { conds := [⟨.created, true, rCreated, 1⟩, ⟨.running, true, rRunning, 2⟩], started := true,
                       lists := { earlyStopped := ["exp-t1"] }, trials := 1, counts := [0, 0, 0, 1, 0, 0, 0] } }],
    trials := [t],
    sugs := [{ key := k, requests := 1, resume := .longRunning, es := true,
               st := { conds := [⟨.created, true, rSugCreated, 1⟩, ⟨.deploymentReady, true, rSugDeployReady, 2⟩, ⟨.running, true, rSugRunning, 2⟩],
                       names := ["exp-t1"], count := 1, started := true } }],
    jobs := [{ key := ⟨"ns", "exp-t1"⟩, state := .succeeded }],
    deploys := [{ key := ⟨"ns", "exp-random"⟩, ready := true }],
    svcs := [⟨"ns", "exp-random"⟩], sas := [⟨"ns", "exp-random"⟩], roles := [⟨"ns", "exp-random"⟩], rbs := [⟨"ns", "exp-random"⟩],
    db := [("exp-t1", [{ metric := "acc", text := "unavailable", key := none, ts := some 2 }])], algoN := 1 }

def isWrite : Call → Bool
  | .dbGet _ => false
  | _ => true

theorem C04_wedge_counterexample :
    ((expPlan wedgeWorld ⟨"ns", "exp"⟩ 9).calls.filter isWrite).isEmpty = true ∧
    ((sugPlan wedgeWorld ⟨"ns", "exp"⟩ {} 9).calls.filter isWrite).isEmpty = true ∧
    ((trialPlan wedgeWorld ⟨"ns", "exp-t1"⟩ 9).calls.filter isWrite).isEmpty = true ∧
    (findExp wedgeWorld ⟨"ns", "exp"⟩).any (fun e => !isCompleted e.st.conds && e.maxT == some 2) = true := by
  decide

end Katib.Ctl
