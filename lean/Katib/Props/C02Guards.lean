import Katib.Gen.Guards
import Katib.Model.Template
/-!
# C02: one iteration of the model of `applyParameters` decides under the source's path conditions

`Katib/Gen/Guards.lean` (regenerated on every run by `kvh extract guards`, loop entered, expression switch included) holds the
conditions under which one iteration of the loop over `trialParameters` in `DefaultGenerator.applyParameters`
(pkg/controller.v1beta1/experiment/manifest/generator.go) consumes an assignment, takes the Trial's name / namespace / kind /
apiVersion / an annotation / a label, and returns each of its errors.  How a `reference` parses (the two regular expressions)
is an oracle of the model (`Ref`); this file ties what is *done* with the parsed reference to the source.
-/
namespace Katib.Gen
open Katib.Tpl

theorem C02_apply_guards_known :
    consumeGuardUnknown = [] ∧ errNotAssignedGuardUnknown = [] ∧ errIllegalRefGuardUnknown = [] ∧ errNoAnnotationGuardUnknown = [] ∧
    errNoLabelGuardUnknown = [] ∧ useFoundValueGuardUnknown = [] ∧ useNameGuardUnknown = [] ∧ useNamespaceGuardUnknown = [] ∧
    useKindGuardUnknown = [] ∧ useAPIVersionGuardUnknown = [] ∧ consumeGuardSites = 1 ∧ errNotAssignedGuardSites = 1 ∧
    errIllegalRefGuardSites = 2 ∧ errNoAnnotationGuardSites = 1 ∧ errNoLabelGuardSites = 1 ∧ useFoundValueGuardSites = 3 ∧
    useNameGuardSites = 1 ∧ useNamespaceGuardSites = 1 ∧ useKindGuardSites = 1 ∧ useAPIVersionGuardSites = 1 := by decide

abbrev TplG := Bool → Bool → Bool → Bool → Bool → Bool → Bool → Bool → Bool → Bool → Bool → Bool → Bool → Bool → Bool → Bool → Bool

/-- the value a reference looks up (assignment map, annotations, labels) -/
def found (m : Meta) (asg : List (String × String)) : Ref → Option String
  | .assign r => lookupLast asg r
  | .metaAnnotation k => lookupS m.annotations k
  | .metaLabel k => lookupS m.labels k
  | _ => none

/-- the atoms for a parsed reference (template read and parsed without error).  An `illegal` reference is one with a malformed
    index (`viaIndex`) or one whose key is none of the six; `d` stands for lookups that are not made -/
def tplG (m : Meta) (asg : List (String × String)) (ref : Ref) (viaIndex d : Bool) (g : TplG) : Bool :=
  let f := (found m asg ref).isSome
  match ref with
  | .assign _ => g false false false true f d d d d d d d d d d false
  | .metaName => g false false false false d d d false d true false false false false false false
  | .metaNamespace => g false false false false d d d false d false true false false false false false
  | .metaKind => g false false false false d d d false d false false true false false false false
  | .metaAPIVersion => g false false false false d d d false d false false false true false false false
  | .metaAnnotation _ => g false false false false d f d true false false false false false true false false
  | .metaLabel _ => g false false false false d d f true false false false false false false true false
  | .illegal => g false false false false d d d viaIndex true false false false false false false false

/-- one iteration written with the generated guards: the error, or the placeholder's value and what it adds to the count -/
def stepGen (m : Meta) (asg : List (String × String)) (ref : Ref) (viaIndex d : Bool) : Except Err (String × Nat) :=
  let G := tplG m asg ref viaIndex d
  if G errNotAssignedGuard then .error .notInAssignment
  else if G errIllegalRefGuard || G errNoAnnotationGuard || G errNoLabelGuard then .error .illegalMeta
  else
    let v := if G useFoundValueGuard then (found m asg ref).getD ""
      else if G useNameGuard then m.trialName
      else if G useNamespaceGuard then m.trialNamespace
      else if G useKindGuard then m.kind
      else if G useAPIVersionGuard then m.apiVersion
      else ""
    .ok (v, if G consumeGuard then 1 else 0)

set_option linter.unusedSimpArgs false in
/-- **C02_iteration_is_source** -/
theorem C02_iteration_is_source (m : Meta) (asg : List (String × String)) (name : String) (ref : Ref) (viaIndex d : Bool) :
    buildMap m asg [(name, ref)] =
      match stepGen m asg ref viaIndex d with
      | .error e => .error e
      | .ok (v, c) => .ok ([(name, v)], c) := by
  unfold stepGen tplG consumeGuard errNotAssignedGuard errIllegalRefGuard errNoAnnotationGuard errNoLabelGuard useFoundValueGuard
    useNameGuard useNamespaceGuard useKindGuard useAPIVersionGuard
  cases ref with
  | assign r => cases h : lookupLast asg r <;> simp [buildMap, found, h]
  | metaName => simp [buildMap, found]
  | metaNamespace => simp [buildMap, found]
  | metaKind => simp [buildMap, found]
  | metaAPIVersion => simp [buildMap, found]
  | metaAnnotation k => cases h : lookupS m.annotations k <;> simp [buildMap, found, h]
  | metaLabel k => cases h : lookupS m.labels k <;> simp [buildMap, found, h]
  | illegal => cases viaIndex <;> simp [buildMap, found]

/-- the whole loop written with the generated guards: every declared parameter (with what its reference parsed to and how) is one
    `stepGen`; the first error ends the loop, otherwise the entries are kept in declaration order and the counts add up -/
def loopGen (m : Meta) (asg : List (String × String)) (d : Bool) : List ((String × Ref) × Bool) → Except Err (List (String × String) × Nat)
  | [] => .ok ([], 0)
  | ((name, ref), viaIndex) :: rest =>
    match stepGen m asg ref viaIndex d with
    | .error e => .error e
    | .ok (v, c) =>
      match loopGen m asg d rest with
      | .error e => .error e
      | .ok (ps, n) => .ok ((name, v) :: ps, n + c)

set_option linter.unusedSimpArgs false in
/-- one step of the model's loop is the step written with the generated guards, with the rest of the loop left open -/
theorem buildMap_cons_stepGen (m : Meta) (asg : List (String × String)) (name : String) (ref : Ref) (viaIndex d : Bool)
    (rest : List (String × Ref)) :
    buildMap m asg ((name, ref) :: rest) =
      match stepGen m asg ref viaIndex d with
      | .error e => .error e
      | .ok (v, c) =>
        match buildMap m asg rest with
        | .error e => .error e
        | .ok (ps, n) => .ok ((name, v) :: ps, n + c) := by
  unfold stepGen tplG consumeGuard errNotAssignedGuard errIllegalRefGuard errNoAnnotationGuard errNoLabelGuard useFoundValueGuard
    useNameGuard useNamespaceGuard useKindGuard useAPIVersionGuard
  cases ref with
  | assign r => cases h : lookupLast asg r <;> simp [buildMap, found, h] <;> (rcases buildMap m asg rest with e | ⟨ps, n⟩ <;> rfl)
  | metaName => simp [buildMap, found] <;> (rcases buildMap m asg rest with e | ⟨ps, n⟩ <;> rfl)
  | metaNamespace => simp [buildMap, found] <;> (rcases buildMap m asg rest with e | ⟨ps, n⟩ <;> rfl)
  | metaKind => simp [buildMap, found] <;> (rcases buildMap m asg rest with e | ⟨ps, n⟩ <;> rfl)
  | metaAPIVersion => simp [buildMap, found] <;> (rcases buildMap m asg rest with e | ⟨ps, n⟩ <;> rfl)
  | metaAnnotation k => cases h : lookupS m.annotations k <;> simp [buildMap, found, h] <;> (rcases buildMap m asg rest with e | ⟨ps, n⟩ <;> rfl)
  | metaLabel k => cases h : lookupS m.labels k <;> simp [buildMap, found, h] <;> (rcases buildMap m asg rest with e | ⟨ps, n⟩ <;> rfl)
  | illegal => cases viaIndex <;> simp [buildMap, found] <;> (rcases buildMap m asg rest with e | ⟨ps, n⟩ <;> rfl)

/-- **C02_loop_is_source**: for every list of declared parameters (any length, any mix of references, any way an illegal
    reference came about, any value of the lookups that are not made) the model's loop is the iteration of the step that decides
    under the regenerated path conditions -/
theorem C02_loop_is_source (m : Meta) (asg : List (String × String)) (d : Bool) (ps : List ((String × Ref) × Bool)) :
    buildMap m asg (ps.map (·.1)) = loopGen m asg d ps := by
  induction ps with
  | nil => simp [buildMap, loopGen]
  | cons p rest ih =>
    obtain ⟨⟨name, ref⟩, viaIndex⟩ := p
    simp only [List.map_cons]
    rw [buildMap_cons_stepGen m asg name ref viaIndex d, loopGen, ih]

/-- **C02_placeholders_is_source**: `applyParameters` as a whole — the loop of generated steps, then the count check against the
    number of assignments (the check after the loop is the model's; see DESIGN §10) -/
theorem C02_placeholders_is_source (m : Meta) (asg : List (String × String)) (d : Bool) (ps : List ((String × Ref) × Bool)) :
    placeholders m asg (ps.map (·.1)) =
      match loopGen m asg d ps with
      | .error e => .error e
      | .ok (es, n) => if asg.length ≠ n then .error .notInTrialParameters else .ok (dedupLast es) := by
  unfold placeholders; rw [C02_loop_is_source m asg d ps]
  rcases loopGen m asg d ps with e | ⟨es, n⟩ <;> rfl

/-- non-vacuity: a two-parameter loop with one assignment and one metadata reference goes through both steps -/
example : loopGen { trialName := "t", trialNamespace := "ns", kind := "Job", apiVersion := "batch/v1", annotations := [], labels := [] }
    [("lr", "0.1")] false [(("a", .assign "lr"), false), (("b", .metaName), false)] = .ok ([("a", "0.1"), ("b", "t")], 1) := by rfl

/-! ### after the loop

`errCountGuard`, `replaceAllGuard` and `returnTemplateGuard` are the regenerated conditions of the three sites that follow the loop
(the count error, the replacement of the placeholders, the successful return).  The loop itself is passed under the atom
`loopDone` = "it ran to its end without returning", which on the model is `buildMap … = .ok _` (and the loop is the iteration of
the generated step by `C02_loop_is_source`); `countMismatch` = `len(assignments) != nonMetaParamCount`. -/

theorem C02_after_loop_guards_known :
    errCountGuardUnknown = [] ∧ replaceAllGuardUnknown = [] ∧ returnTemplateGuardUnknown = [] ∧
    errCountGuardSites = 1 ∧ replaceAllGuardSites = 1 ∧ returnTemplateGuardSites = 1 := by decide

/-- what follows the loop, written with the generated guards (template read and parsed without error; `specNil` = whether it had
    to be parsed here; `d` = the count comparison that is not reached when the loop returned) -/
def afterLoopGen (r : Except Err (List (String × String) × Nat)) (asgLen : Nat) (specNil d : Bool) : Except Err (List (String × String)) :=
  let done := match r with | .ok _ => true | .error _ => false
  let mism := match r with | .ok (_, n) => decide (asgLen ≠ n) | .error _ => d
  let G (g : Bool → Bool → Bool → Bool → Bool → Bool → Bool) := g false false specNil done mism false
  if G errCountGuard then .error .notInTrialParameters
  else match r with
    | .error e => .error e
    | .ok (ps, _) => if G replaceAllGuard && G returnTemplateGuard then .ok (dedupLast ps) else .error .notInTrialParameters

/-- **C02_after_loop_is_source**: the count error is returned, and the placeholders are replaced and the template returned, under
    exactly the regenerated path conditions of the three sites after the loop -/
theorem C02_after_loop_is_source (m : Meta) (asg : List (String × String)) (params : List (String × Ref)) (specNil d : Bool) :
    placeholders m asg params = afterLoopGen (buildMap m asg params) asg.length specNil d := by
  unfold placeholders afterLoopGen errCountGuard replaceAllGuard returnTemplateGuard
  rcases buildMap m asg params with e | ⟨ps, n⟩
  · cases specNil <;> simp
  · by_cases h : asg.length = n <;> cases specNil <;> simp [h]

/-- the template is returned exactly when the loop ended without an error and the counts agree; after a loop that returned,
    none of the three sites is reached -/
theorem C02_return_guard_exact (specNil d : Bool) (r : Except Err (List (String × String) × Nat)) (asgLen : Nat) :
    (∀ e, r = .error e → errCountGuard false false specNil false d false = false ∧
      replaceAllGuard false false specNil false d false = false ∧ returnTemplateGuard false false specNil false d false = false) ∧
    (∀ ps n, r = .ok (ps, n) →
      (returnTemplateGuard false false specNil true (decide (asgLen ≠ n)) false = true ↔ asgLen = n) ∧
      replaceAllGuard false false specNil true (decide (asgLen ≠ n)) false =
        returnTemplateGuard false false specNil true (decide (asgLen ≠ n)) false) := by
  unfold errCountGuard replaceAllGuard returnTemplateGuard
  constructor
  · intro e _; cases specNil <;> simp
  · intro ps n _; cases specNil <;> simp

/-- **C02_applyParameters_is_source**: the loop of generated steps followed by the generated sites after it — every decision of
    the model of `applyParameters` is made under a path condition regenerated from the source -/
theorem C02_applyParameters_is_source (m : Meta) (asg : List (String × String)) (specNil d : Bool) (ps : List ((String × Ref) × Bool)) :
    placeholders m asg (ps.map (·.1)) = afterLoopGen (loopGen m asg d ps) asg.length specNil d := by
  rw [C02_after_loop_is_source m asg _ specNil d, C02_loop_is_source m asg d ps]

end Katib.Gen
