import Katib.Lemmas.ExpPlan
import Katib.Lemmas.SugPlan
/-!
# C16 — Resume policy governs algorithm-service lifetime; restart only when allowed

Statements about `Katib.Ctl.expPlan` (clean-up, restart) and `Katib.Ctl.sugPlan` (what a Succeeded Suggestion does),
for every view, fault mask and abort point.
-/
namespace Katib.Ctl
open Katib Katib.Exp

/-- C16_cleanup: for a completed Experiment with resumePolicy Never or FromVolume whose Suggestion is neither completed
    nor restarting, the reconcile starts by marking the Suggestion Succeeded (and stops if that write fails). -/
theorem C16_cleanup (v : World) (k : Key2) (now : Nat) (e : ExpO) (s : SugO) (he : findExp v k = some e)
    (hs : findSug v k = some s) (hfin : e.fin = true) (hdel : e.deleted = false)
    (hc : isCompleted e.st.conds = true) (hres : e.cfg.resume = .never ∨ e.cfg.resume = .fromVolume)
    (hopen : (sCompleted s || sRestarting s) = false) :
    ∃ next, expPlan v k now =
      .step (.sugStatus k s.rv { s.st with conds := sugMarkSucceeded s.st.conds rSugExpSucceeded now }) next (.done .err) := by
  unfold expPlan
  rw [he]
  simp only [hfin, hdel, hc, hs, hres, hopen, Bool.not_true, Bool.and_false, Bool.false_eq_true, if_false, Bool.false_and, if_true]
  split
  · exact ⟨_, rfl⟩
  · split <;> exact ⟨_, rfl⟩

theorem sHas_markSucceeded (cs : List SCond) (r : String) (now : Nat) :
    Cond.has (sugMarkSucceeded cs r now) .succeeded = true := by
  unfold sugMarkSucceeded; exact Cond.has_set_self _ _ _ _ _

/-- C16_longrunning: with resumePolicy LongRunning the experiment controller never touches the Suggestion's status. -/
theorem C16_longrunning (v : World) (k : Key2) (now : Nat) (e : ExpO) (he : findExp v k = some e)
    (hres : e.cfg.resume = .longRunning) :
    (expPlan v k now).All (fun c => match c with | .sugStatus _ _ _ => False | _ => True) := by
  have fin : ∀ st, (expFinish e st).All (fun c => match c with | .sugStatus _ _ _ => False | _ => True) := by
    intro st; unfold expFinish; split
    · trivial
    · exact ⟨trivial, trivial, trivial⟩
  have creates : ∀ (l : List String) (k : Prog), k.All (fun c => match c with | .sugStatus _ _ _ => False | _ => True) →
      (l.foldr (fun a k => Prog.step (.trialCreate (mkTrial e a)) k k) k).All (fun c => match c with | .sugStatus _ _ _ => False | _ => True) := by
    intro l k hk
    induction l with
    | nil => exact hk
    | cons a l ih => exact ⟨trivial, ih, ih⟩
  have main : ∀ st, (expMain v e st now).All (fun c => match c with | .sugStatus _ _ _ => False | _ => True) := by
    intro st
    unfold expMain
    split
    · exact fin _
    · simp only []
      generalize (if (trialsOf v e.key).isEmpty = true then st else expUpdateStatus e st (trialsOf v e.key) now) = st1
      split
      · unfold expReconcileTrials
        split
        · trivial
        · split
          · split
            · unfold expCreateTrials
              simp only []
              split
              · exact ⟨trivial, fin _, trivial⟩
              · split
                · exact fin _
                · split
                  · exact ⟨trivial, creates _ _ (fin _), trivial⟩
                  · exact creates _ _ (fin _)
            · exact fin _
          · exact fin _
      · exact fin _
  unfold expPlan
  rw [he]
  simp only [hres]
  split
  · exact ⟨trivial, trivial, trivial⟩
  · split
    · exact ⟨trivial, trivial, trivial⟩
    · split
      · simp only [reduceCtorEq, or_self, if_false]
        split
        · exact main _
        · split
          · trivial
          · exact main _
      · exact main _

/-- C16_restart_only_if: a reconcile withdraws or changes the verdict of a completed Experiment only under the restart
    guard: restartable (Succeeded by MaxTrialsReached under LongRunning / FromVolume) and maxTrialCount raised above the
    number of trials (or removed). -/
theorem C16_restart_only_if (v : World) (k : Key2) (now : Nat) (e : ExpO) (he : findExp v k = some e)
    (hfin : e.fin = true) (hdel : e.deleted = false) (hc : isCompleted e.st.conds = true)
    (hcr : Cond.has e.st.conds .created = true)
    (hchange : ¬ (expPlan v k now).All (fun c => match c with
      | .expStatus _ _ st' => st'.conds = e.st.conds ∧ st'.completion = e.st.completion | _ => True)) :
    restartGuard e = true ∧ restartable e.st.conds e.cfg.resume = true := by
  cases hr : restartGuard e with
  | false =>
    exfalso
    apply hchange
    apply (expPlan_frozen v k now e he hfin hdel hc hcr hr).mono
    intro c hc
    cases c <;> first | trivial | exact hc
  | true =>
    refine ⟨rfl, ?_⟩
    unfold restartGuard at hr
    simp only [Bool.and_eq_true] at hr
    exact hr.1

/-- restartable = Succeeded with reason MaxTrialsReached under LongRunning or FromVolume -/
theorem C16_restartable_iff (cs : List ECond) (r : Resume) :
    restartable cs r = true ↔ isSucceeded cs = true ∧ Cond.reasonOf cs .succeeded = some rMaxTrials ∧ (r = .longRunning ∨ r = .fromVolume) := by
  unfold restartable
  cases r <;> simp

/-- C16_no_rpc_when_succeeded: a Succeeded Suggestion causes no algorithm call; its reconcile only removes the
    Deployment and the Service it still sees. -/
theorem C16_no_rpc_when_succeeded (v : World) (k : Key2) (env : SugEnv) (now : Nat) (s : SugO)
    (hs : findSug v k = some s) (hsucc : sHas s .succeeded = true) :
    (sugPlan v k env now).All (fun c => match c with
      | .deployDelete k' => k' = infraKey k
      | .svcDelete k' => k' = infraKey k
      | _ => False) := by
  unfold sugPlan
  rw [hs]
  simp only [hsucc, if_true]
  split
  · split
    · exact ⟨rfl, ⟨rfl, trivial, trivial⟩, trivial⟩
    · exact ⟨rfl, trivial, trivial⟩
  · split
    · exact ⟨rfl, trivial, trivial⟩
    · trivial

/-- the algorithm service of a Suggestion that is not Succeeded is never torn down -/
theorem C16_delete_only_when_succeeded (v : World) (k : Key2) (env : SugEnv) (now : Nat) (s : SugO)
    (hs : findSug v k = some s) (hns : sHas s .succeeded = false) :
    (sugPlan v k env now).All (fun c => match c with
      | .deployDelete _ => False
      | .svcDelete _ => False
      | _ => True) := by
  apply (sugPlan_guard v k env now s hs).mono
  intro c hc
  cases c <;> first | trivial | (simp only [SugCallGuard, hns, Bool.false_eq_true, false_and] at hc)

/-- with FromVolume the volume claim is only ever created, never deleted: no call of any controller deletes a PVC
    (there is no such call in the model's vocabulary), and the suggestion reconcile creates it before anything else -/
theorem C16_volume_first (v : World) (s : SugO) (env : SugEnv) (now : Nat) (hres : s.resume = .fromVolume)
    (habs : v.pvcs.contains (infraKey s.key) = false) :
    ∃ next, sugReconcile v s env now = .step (.pvcCreate (infraKey s.key)) next (sugErr s s.st) := by
  unfold sugReconcile
  simp only [hres, if_true]
  unfold createIfAbsent
  simp only [habs, Bool.false_eq_true, if_false]
  exact ⟨_, rfl⟩

/-! Non-vacuity -/
example : restartable [⟨.created, true, rCreated, 0⟩, ⟨.running, false, rRunning, 3⟩, ⟨.succeeded, true, rMaxTrials, 3⟩] .fromVolume = true := by
  decide
example : restartable [⟨.created, true, rCreated, 0⟩, ⟨.running, false, rRunning, 3⟩, ⟨.succeeded, true, rGoal, 3⟩] .fromVolume = false := by
  decide

end Katib.Ctl
