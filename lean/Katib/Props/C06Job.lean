import Katib.Model.JobStatus
/-!
# C06 on job status documents: the verdict is decided by which condition expression matched, failure first

For every list of condition entries (any members, any order, any number) and every pair of expressions of the modelled
shapes.
-/
namespace Katib.Job

/-- **failure is checked first**: an entry satisfying the failure condition makes the job Failed whatever else the
    document holds (also an entry satisfying the success condition). -/
theorem C06J_failure_first (conds : List Entry) (fe se : Expr) (r n : Bool) (e : Entry) (he : e ∈ conds) (hm : fe.matches e = true) :
    ∃ s, jobStatus conds fe se r n = some s ∧ s.verdict = .failed := by
  unfold jobStatus Expr.eval
  cases h : conds.find? fe.matches with
  | some e' => exact ⟨_, rfl, rfl⟩
  | none =>
    rw [List.find?_eq_none] at h
    exact absurd hm (by simpa using h e he)

/-- **Succeeded only from the success condition**: a Succeeded verdict means that some entry satisfies the success
    condition and that no entry satisfies the failure condition. -/
theorem C06J_succeeded_iff (conds : List Entry) (fe se : Expr) (r n : Bool) :
    (∃ s, jobStatus conds fe se r n = some s ∧ s.verdict = .succeeded) ↔
      ((∀ e ∈ conds, fe.matches e = false) ∧ ∃ e ∈ conds, se.matches e = true) := by
  unfold jobStatus Expr.eval
  constructor
  · rintro ⟨s, hs, hv⟩
    cases hf : conds.find? fe.matches with
    | some e' => rw [hf] at hs; simp at hs; subst hs; simp at hv
    | none =>
      rw [hf] at hs
      refine ⟨by simpa using List.find?_eq_none.1 hf, ?_⟩
      cases hsu : conds.find? se.matches with
      | some e' => exact ⟨e', List.mem_of_find?_eq_some hsu, List.find?_some hsu⟩
      | none =>
        rw [hsu] at hs
        by_cases hc : (!r && n) = true
        · simp [hc] at hs; subst hs; simp at hv
        · simp [hc] at hs
  · rintro ⟨hf, e, he, hm⟩
    have hf' : conds.find? fe.matches = none := by rw [List.find?_eq_none]; simpa using hf
    rw [hf']
    cases hsu : conds.find? se.matches with
    | some e' => exact ⟨_, rfl, rfl⟩
    | none =>
      rw [List.find?_eq_none] at hsu
      exact absurd hm (by simpa using hsu e he)

/-- members of the entries that neither expression reads and that are not `reason` / `message` cannot influence the
    result: rewriting every entry with a function that preserves the members read leaves the status unchanged.
    (In particular a member called `condition` inside the matched entry does not decide the verdict.) -/
theorem C06J_only_expression_members_matter (conds : List Entry) (f : Entry → Entry) (fe se : Expr) (r n : Bool)
    (hfe : ∀ e, fe.matches (f e) = fe.matches e) (hse : ∀ e, se.matches (f e) = se.matches e)
    (hr : ∀ e, (f e).get "reason" = e.get "reason") (hmsg : ∀ e, (f e).get "message" = e.get "message") :
    jobStatus (conds.map f) fe se r n = jobStatus conds fe se r n := by
  have key : ∀ (x : Expr), (∀ e, x.matches (f e) = x.matches e) → (conds.map f).find? x.matches = (conds.find? x.matches).map f := by
    intro x hx
    induction conds with
    | nil => rfl
    | cons a t ih =>
      simp only [List.map_cons, List.find?_cons, hx a]
      cases x.matches a <;> simp [ih]
  unfold jobStatus Expr.eval
  rw [key fe hfe, key se hse]
  cases conds.find? fe.matches with
  | some e => simp [hr, hmsg]
  | none =>
    cases conds.find? se.matches with
    | some e => simp [hr, hmsg]
    | none => simp

/-- a job that satisfies neither condition is reported Running once (when the Trial is not Running yet and the object has
    a name) and otherwise leaves the Trial untouched -/
theorem C06J_neither (conds : List Entry) (fe se : Expr) (r n : Bool)
    (hf : ∀ e ∈ conds, fe.matches e = false) (hs : ∀ e ∈ conds, se.matches e = false) :
    jobStatus conds fe se r n = if !r && n then some { verdict := .running } else none := by
  have h1 : conds.find? fe.matches = none := by rw [List.find?_eq_none]; simpa using hf
  have h2 : conds.find? se.matches = none := by rw [List.find?_eq_none]; simpa using hs
  unfold jobStatus Expr.eval
  rw [h1, h2]

/-- non-vacuity: a document with both a Failed and a Complete entry (and a stray `condition` member) is Failed -/
example :
    jobStatus [[("type", "Complete"), ("status", "True")], [("type", "Failed"), ("status", "True"), ("condition", "Succeeded"), ("reason", "BackoffLimitExceeded")]]
      (.all "type" "Failed" "status" "True") (.all "type" "Complete" "status" "True") true true
      = some { verdict := .failed, reason := "BackoffLimitExceeded" } := by decide

end Katib.Job
