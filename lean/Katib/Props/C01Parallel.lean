import Katib.Props.C07World
/-!
# C01 (parallel part) over whole schedules

`C01_parallel`: for **every** list of simulator operations (arbitrarily lagging reads, fault masks, abort points, any
environment events) an experiment whose budget fields nobody edits never has more than `parallelTrialCount` trials that
are not completed: `#trials ≤ #assignments ≤ #completed trials + parallelTrialCount` at every moment.  The proof uses that
completion is permanent (`TPast`), so a stale view can only under-count completed trials.
-/
namespace Katib.Ctl
open Katib Katib.Exp

/-! ### counting completed trials of an experiment -/

def mine (k : Key2) (t : TrialO) : Bool := decide (t.key.ns = k.ns ∧ t.exp = k.name)

def doneOf (k : Key2) (w : World) : List TrialO := w.trials.filter (fun t => mine k t && tCompleted t)

def doneCount (k : Key2) (w : World) : Int := ((doneOf k w).length : Nat)

theorem findTrial_of_mem {w : World} (hK : KInv w) {t : TrialO} (ht : t ∈ w.trials) : findTrial w t.key = some t := by
  cases hf : findTrial w t.key with
  | none =>
    unfold findTrial at hf
    have := List.find?_eq_none.1 hf t ht
    simp at this
  | some t' =>
    have hk := findTrial_key hf
    have hm := findTrial_mem hf
    rw [nodup_map_inj hK hm ht hk]

/-- completion is permanent and trials never disappear: a later store has at least as many completed trials -/
theorem doneCount_mono {k : Key2} {h c : World} (hKh : KInv h) (hKc : KInv c) (hP : TPast h c) : doneCount k h ≤ doneCount k c := by
  unfold doneCount
  have hnd : ((doneOf k h).map (·.key)).Nodup := (List.Sublist.map _ List.filter_sublist).nodup hKh
  have hsub : (doneOf k h).map (·.key) ⊆ (doneOf k c).map (·.key) := by
    intro key hkey
    obtain ⟨th, hth, e⟩ := List.mem_map.1 hkey
    obtain ⟨hmem, hp⟩ := List.mem_filter.1 hth
    simp only [Bool.and_eq_true] at hp
    obtain ⟨tc, htc, _, _, hexp, hmono⟩ := hP th.key th (findTrial_of_mem hKh hmem)
    have hck : tc.key = th.key := findTrial_key htc
    refine List.mem_map.2 ⟨tc, List.mem_filter.2 ⟨findTrial_mem htc, ?_⟩, by rw [hck, e]⟩
    simp only [Bool.and_eq_true]
    refine ⟨?_, tCompleted_mono hmono hp.2⟩
    unfold mine at hp ⊢
    simp only [decide_eq_true_eq] at hp ⊢
    rw [hck, ← hexp]; exact hp.1
  have := List.Nodup.length_le_of_subset hnd hsub
  simp only [List.length_map] at this
  omega

theorem doneCount_nonneg (k : Key2) (w : World) : 0 ≤ doneCount k w := by unfold doneCount; exact Int.natCast_nonneg _

theorem doneCount_congr {k : Key2} {w w' : World} (e : w'.trials = w.trials) : doneCount k w' = doneCount k w := by
  unfold doneCount doneOf; rw [e]

/-! ### the classification counters under-count completed trials -/

def cls5 (t : TrialV) : Bool :=
  classify t = .killed || classify t = .failed || classify t = .succeeded || classify t = .earlyStopped || classify t = .metricsUnavailable

theorem cls5_completed (t : TrialO) (h : cls5 (toTrialV t) = true) : tCompleted t = true := by
  unfold cls5 classify at h
  unfold tCompleted
  simp only [toTrialV] at h
  cases h1 : tHas t .killed <;> cases h2 : tHas t .failed <;> cases h3 : tHas t .succeeded <;> cases h4 : tHas t .earlyStopped <;>
    cases h5 : tHas t .running <;> cases h6 : tHas t .metricsUnavailable <;> simp_all

theorem filter_cls_len (ts : List TrialV) :
    (ts.filter (fun t => classify t = .killed)).length + (ts.filter (fun t => classify t = .failed)).length +
      (ts.filter (fun t => classify t = .succeeded)).length + (ts.filter (fun t => classify t = .earlyStopped)).length +
      (ts.filter (fun t => classify t = .metricsUnavailable)).length = (ts.filter cls5).length := by
  induction ts with
  | nil => rfl
  | cons t r ih =>
    simp only [List.filter_cons]
    cases hc : classify t <;> simp [cls5, hc] <;> omega

theorem completedCount_le (e : ExpO) (st : ExpSt) (ts : List TrialO) (now : Nat) :
    completedCount (expUpdateStatus e st ts now) ≤ ((ts.filter tCompleted).length : Nat) := by
  have hcounts : (expUpdateStatus e st ts now).counts =
      countsOfLists (summarise { ty := e.cfg.objType, goal := e.cfg.goal } (ts.map toTrialV)).lists := by
    unfold expUpdateStatus updateStatus
    simp only []
    split <;> rfl
  unfold completedCount
  rw [hcounts]
  have hl := fun c => C05_lists { ty := e.cfg.objType, goal := e.cfg.goal } (ts.map toTrialV) c
  have h0 := hl .killed; have h1 := hl .failed; have h2 := hl .succeeded; have h3 := hl .earlyStopped; have h5 := hl .metricsUnavailable
  simp only [Lists.get] at h0 h1 h2 h3 h5
  simp only [cnt, countsOfLists, List.getD_cons_zero, List.getD_cons_succ, h0, h1, h2, h3, h5, List.length_map]
  have hsum := filter_cls_len (ts.map toTrialV)
  have hle : ((ts.map toTrialV).filter cls5).length ≤ (ts.filter tCompleted).length := by
    rw [List.filter_map, List.length_map]
    -- every trial counted in one of the five classes is completed
    have : ∀ l : List TrialO, (l.filter (cls5 ∘ toTrialV)).length ≤ (l.filter tCompleted).length := by
      intro l
      induction l with
      | nil => exact Nat.le_refl _
      | cons t r ih =>
        simp only [List.filter_cons, Function.comp]
        by_cases hc : cls5 (toTrialV t) = true
        · rw [if_pos hc, if_pos (cls5_completed t hc)]
          simp only [List.length_cons]; exact Nat.succ_le_succ ih
        · rw [if_neg hc]
          by_cases hd : tCompleted t = true
          · rw [if_pos hd]; simp only [List.length_cons]; exact Nat.le_succ_of_le ih
          · rw [if_neg hd]; exact ih
    exact this ts
  omega

/-! ### the request bound: `requests ≤ completed trials seen + parallelTrialCount` -/

theorem required_le_par (e : ExpO) (st : ExpSt) : addCount e st ≤ max 0 (e.par - activeCount st) := by
  unfold addCount
  cases e.maxT with
  | none => simp only []; split <;> omega
  | some m => simp only []; split <;> split <;> omega

theorem addCount_pos_eq (e : ExpO) (st : ExpSt) (h : addCount e st > 0) : addCount e st ≤ e.par - activeCount st := by
  have := required_le_par e st; omega

theorem reqpar_expMain (v : World) (e : ExpO) (st : ExpSt) (now : Nat) (p : Int) (hp : e.par = p) :
    (expMain v e st now).All (ReqBound ((((trialsOf v e.key).filter tCompleted).length : Nat) + p)) := by
  unfold expMain
  split
  · exact reqbound_expFinish _ e _
  · simp only []
    generalize hst1 : (if (trialsOf v e.key).isEmpty = true then st else expUpdateStatus e st (trialsOf v e.key) now) = st1
    split
    · unfold expReconcileTrials
      split
      · trivial
      · split
        · split
          · rename_i hact hadd
            have hform := C01_requests_formula v e st1 (trialsOf v e.key) (addCount e st1) now
            refine hform.mono ?_
            have hadd' := addCount_pos_eq e st1 hadd
            have hies : (0 : Int) ≤ (((trialsOf v e.key).filter (fun t => !obsAvailable t.st && tHas t .earlyStopped)).length : Int) :=
              Int.natCast_nonneg _
            have key : ((trialsOf v e.key).length : Int) + addCount e st1 ≤ (((trialsOf v e.key).filter tCompleted).length : Nat) + p := by
              by_cases hemp : (trialsOf v e.key).isEmpty = true
              · have h0 : trialsOf v e.key = [] := List.isEmpty_iff.1 hemp
                have ha := active_nonneg st1
                rw [h0]; simp only [List.length_nil, List.filter_nil, Int.natCast_zero, Int.zero_add]; omega
              · rw [if_neg hemp] at hst1
                have ht := counts_total e st (trialsOf v e.key) now
                have hc := completedCount_le e st (trialsOf v e.key) now
                rw [hst1] at ht hc
                omega
            intro c hc
            cases c <;> first | trivial | (simp only [ReqFormula] at hc; simp only [ReqBound]; omega)
          · exact reqbound_expFinish _ e _
        · exact reqbound_expFinish _ e _
    · exact reqbound_expFinish _ e _

/-- the completed trials a view shows are among the completed trials of the store the view's trials come from -/
theorem view_done_le (k : Key2) (v hT : World) (htr : v.trials = hT.trials) :
    ((((trialsOf v k).filter tCompleted).length : Nat) : Int) = doneCount k hT := by
  unfold doneCount doneOf trialsOf
  rw [htr]
  -- filtering commutes with the sort up to length
  have : ∀ l : List TrialO, ((sortByName l).filter tCompleted).length = (l.filter tCompleted).length := by
    intro l
    induction l with
    | nil => rfl
    | cons a r ih =>
      have hs : sortByName (a :: r) = insertByName a (sortByName r) := rfl
      rw [hs]
      have hins : ∀ (x : TrialO) (m : List TrialO), ((insertByName x m).filter tCompleted).length = ((x :: m).filter tCompleted).length := by
        intro x m
        induction m with
        | nil => rfl
        | cons y ys ihm =>
          simp only [insertByName]
          split
          · rfl
          · simp only [List.filter_cons] at ihm ⊢
            cases hx : tCompleted x <;> cases hy : tCompleted y <;> simp_all <;> omega
      rw [hins, List.filter_cons, List.filter_cons]
      split <;> simp [ih]
  rw [this, List.filter_filter]
  congr 2
  apply List.filter_congr
  intro t _
  simp only [mine, Bool.and_comm]

/-- the experiment plan's requests are bounded by the completed trials of the store its trial list came from -/
theorem expPlan_vjust_par {k : Key2} {p : Int} (v hS hT : World) (k' : Key2) (now : Nat)
    (hsugs : v.sugs = hS.sugs) (htr : v.trials = hT.trials) (hexp : ∀ e, findExp v k = some e → e.par = p) :
    (expPlan v k' now).All (VJust k (doneCount k hT + p) hS) := by
  cases he : findExp v k' with
  | none => unfold expPlan; rw [he]; trivial
  | some e =>
    have hkey : e.key = k' := findExp_key he
    have g := expPlan_guard v k' now e he
    have rb : (expPlan v k' now).All (fun c => k' = k → ReqBound (doneCount k hT + p) c) := by
      apply expPlan_all
      · intro _ _ _ _; trivial
      · intro _ _ _ _; trivial
      · intro e' st he'
        by_cases hk : k' = k
        · subst hk
          have hk' : e'.key = k' := findExp_key he'
          have := reqpar_expMain v e' st now p (hexp e' he')
          rw [hk', view_done_le k' v hT htr] at this
          exact this.mono (fun c hc _ => hc)
        · exact Prog.all_of_forall (fun c h => absurd h hk) _
    refine (Prog.All.and g rb).mono ?_
    intro c ⟨hg, hr⟩
    cases c with
    | sugCreate s =>
      obtain ⟨_, h2, h3, _, _⟩ := hg
      intro hsk
      have hk : k' = k := by rw [← hkey, ← h2]; exact hsk
      exact ⟨by rw [h3], by rw [h3], hr hk⟩
    | sugUpdateReq k'' rv req =>
      obtain ⟨s, _, h2, _, _⟩ := hg
      intro hkk
      exact hr (by rw [← hkey, ← h2]; exact hkk)
    | sugStatus k'' rv st =>
      obtain ⟨s, h1, h2, h3, h4, h5, _⟩ := hg
      intro hkk
      have hek : e.key = k := h2 ▸ hkk
      refine ⟨s, ?_, h3, Or.inl ⟨h4, h5⟩⟩
      rw [← findSug_congr hsugs, ← hek]; exact h1
    | trialCreate t =>
      obtain ⟨h1, h2, ⟨s, h3, h4⟩, _⟩ := hg
      intro hns hexp'
      have hek : e.key = k := key2_ext (h1 ▸ hns) (h2 ▸ hexp')
      refine ⟨s, ?_, h4⟩
      rw [← findSug_congr hsugs, ← hek]; exact h3
    | _ => trivial

end Katib.Ctl

namespace Katib.Ctl
open Katib Katib.Exp

/-! ### whole schedules -/

/-- the bound that holds in the store `w`: completed trials plus `parallelTrialCount` -/
def parBound (k : Key2) (p : Int) (w : World) : Int := doneCount k w + p

def PI (k : Key2) (p : Int) (w : World) : Prop :=
  WInv k (parBound k p w) w ∧ (∃ mx, XInv k mx p w) ∧ TInv w ∧ KInv w

theorem exec_par {k : Key2} {p : Int} (hp0 : 0 ≤ p) {hS hTr hTj w0 : World} (f : Faults) (pr : Prog)
    (hpr : pr.All (fun c => VJust k (parBound k p hTr) hS c ∧ TJust hTj c))
    (hI : PI k p w0) (hPS : Past k hS w0) (hKr : KInv hTr) (hPr : TPast hTr w0) (hPj : TPast hTj w0) :
    PI k p (exec f pr w0 0 []).w ∧ Past k w0 (exec f pr w0 0 []).w ∧ TPast w0 (exec f pr w0 0 []).w := by
  have := exec_preserves (I := fun w => PI k p w ∧ Past k w0 w ∧ TPast w0 w)
    (P := fun c => VJust k (parBound k p hTr) hS c ∧ TJust hTj c) f
    (by
      intro w c w' hIw hc happ
      obtain ⟨⟨hW, ⟨mx, hX⟩, hT, hK⟩, hP, hTP⟩ := hIw
      obtain ⟨t1, t2⟩ := apply_pres_trial hT (TPast.trans hPj hTP) hc.2 happ
      have hK' := apply_pres_keys hK happ
      have hb1 : parBound k p hTr ≤ parBound k p w := by
        unfold parBound; have := doneCount_mono (k := k) hKr hK (TPast.trans hPr hTP); omega
      have hb2 : parBound k p w ≤ parBound k p w' := by
        unfold parBound; have := doneCount_mono (k := k) hK hK' t2; omega
      have hb0 : 0 ≤ parBound k p w := by unfold parBound; have := doneCount_nonneg k w; omega
      obtain ⟨w1, w2⟩ := apply_pres hb0 hW (Past.trans hPS hP) (VJust.mono hb1 hc.1) happ
      exact ⟨⟨w1.mono hb2, ⟨mx, apply_pres_x hX happ⟩, t1, hK'⟩, Past.trans hP w2, TPast.trans hTP t2⟩)
    pr w0 0 [] hpr ⟨hI, Past.refl k w0, TPast.refl w0⟩
  exact this

def SInvP (k : Key2) (p : Int) (s : Sim) : Prop :=
  PI k p s.cur ∧ ∀ (i : Nat) (h : World), s.hist[i]? = some h → PI k p h ∧ Past k h s.cur ∧ TPast h s.cur

theorem snap_goodP {k : Key2} {p : Int} {s : Sim} (hI : SInvP k p s) (i : Nat) :
    PI k p (snapAt s i) ∧ Past k (snapAt s i) s.cur ∧ TPast (snapAt s i) s.cur := by
  unfold snapAt
  cases h : s.hist[i]? with
  | none => exact ⟨hI.1, Past.refl k _, TPast.refl _⟩
  | some w => exact hI.2 i w h

theorem stepWorld_okP {k : Key2} {p : Int} (hp0 : 0 ≤ p) {s : Sim} (hI : SInvP k p s) (op : Op) (hop : ∀ n, op ≠ .editMax k n)
    (hopd : ∀ k', op ≠ .userDelete k') :
    PI k p (stepWorld s op).1 ∧ Past k s.cur (stepWorld s op).1 ∧ TPast s.cur (stepWorld s op).1 := by
  obtain ⟨hW, ⟨mx, hX⟩, hT, hK⟩ := hI.1
  -- the trial part of every operation (from C06)
  have hST : SInvT s := ⟨⟨hT, hK⟩, fun i h hh => ⟨(hI.2 i h hh).1.2.2.1, (hI.2 i h hh).2.2⟩⟩
  obtain ⟨⟨t1, t2⟩, t3⟩ := stepWorld_okT hST op hopd
  have hb0 : 0 ≤ parBound k p s.cur := by unfold parBound; have := doneCount_nonneg k s.cur; omega
  have hb2 : parBound k p s.cur ≤ parBound k p (stepWorld s op).1 := by
    unfold parBound; have := doneCount_mono (k := k) hK t2 t3; omega
  -- operations that leave suggestions and experiments alone and keep every trial's key and experiment
  have envOp : (stepWorld s op).1.sugs = s.cur.sugs → (stepWorld s op).1.exps = s.cur.exps →
      (∀ t' ∈ (stepWorld s op).1.trials, ∃ t ∈ s.cur.trials, t'.key = t.key ∧ t'.exp = t.exp) →
      PI k p (stepWorld s op).1 ∧ Past k s.cur (stepWorld s op).1 ∧ TPast s.cur (stepWorld s op).1 := by
    intro e1 e2 e3
    obtain ⟨a, b⟩ := frame_trials hW e1 e2 t2 e3
    exact ⟨⟨a.mono hb2, ⟨mx, fun e he => by unfold findExp at he; rw [e2] at he; exact hX e he⟩, t1, t2⟩, b, t3⟩
  have sameTrials : (stepWorld s op).1.trials = s.cur.trials →
      ∀ t' ∈ (stepWorld s op).1.trials, ∃ t ∈ s.cur.trials, t'.key = t.key ∧ t'.exp = t.exp :=
    fun e t' ht' => ⟨t', by rw [← e]; exact ht', rfl, rfl⟩
  cases op with
  | recExp k' vE vT vS f =>
    have hS := snap_goodP hI vS
    have hE := snap_goodP hI vE
    have hTr := snap_goodP hI vT
    obtain ⟨mxE, hXE⟩ := hE.1.2.1
    have hp := expPlan_vjust_par (k := k) (p := p) (assemble s vE vT vS (s.hist.size - 1)) (snapAt s vS) (snapAt s vT) k' s.opIndex rfl rfl
      (by intro e he; rw [findExp_assemble] at he; exact (hXE e he).2)
    have hj := expPlan_tjust (assemble s vE vT vS (s.hist.size - 1)) (snapAt s vT) k' s.opIndex
    exact exec_par hp0 f _ (Prog.All.and hp hj) hI.1 hS.2.1 hTr.1.2.2.2 hTr.2.2 hTr.2.2
  | recSug k' vS vE vT vD f env =>
    have hS := snap_goodP hI vS
    have hp := sugPlan_vjust (k := k) (m := parBound k p s.cur) (assemble s vE vT vS vD) (snapAt s vS) k' env s.opIndex rfl
    have hj := sugPlan_tjust (assemble s vE vT vS vD) s.cur k' env s.opIndex
    exact exec_par hp0 f _ (Prog.All.and hp hj) hI.1 hS.2.1 hK (TPast.refl _) (TPast.refl _)
  | recTrial k' vT f =>
    have hTr := snap_goodP hI vT
    have hp := trialPlan_vjust (k := k) (m := parBound k p s.cur) (assemble s (s.hist.size - 1) vT (s.hist.size - 1) (s.hist.size - 1)) s.cur k' s.opIndex
    have hj := trialPlan_tjust (assemble s (s.hist.size - 1) vT (s.hist.size - 1) (s.hist.size - 1)) (snapAt s vT) k' s.opIndex rfl hTr.1.2.2.1
    exact exec_par hp0 f _ (Prog.All.and hp hj) hI.1 (Past.refl k _) hK (TPast.refl _) hTr.2.2
  | job k' ok =>
    have e : (stepWorld s (.job k' ok)).1.trials = s.cur.trials := by simp only [stepWorld]; split <;> rfl
    exact envOp (by simp only [stepWorld]; split <;> rfl) (by simp only [stepWorld]; split <;> rfl) (sameTrials e)
  | metric t text key nm =>
    have e : (stepWorld s (.metric t text key nm)).1.trials = s.cur.trials := by simp only [stepWorld]; split <;> rfl
    exact envOp (by simp only [stepWorld]; split <;> rfl) (by simp only [stepWorld]; split <;> rfl) (sameTrials e)
  | earlyStop k' =>
    refine envOp ?_ ?_ ?_
    · simp only [stepWorld]; split
      · rfl
      · split <;> rfl
    · simp only [stepWorld]; split
      · rfl
      · split <;> rfl
    · simp only [stepWorld]; split
      · exact fun t' ht' => ⟨t', ht', rfl, rfl⟩
      · split
        · exact fun t' ht' => ⟨t', ht', rfl, rfl⟩
        · intro t' ht'
          exact mem_upd ht' (fun _ => ⟨rfl, rfl⟩)
  | deployReady k' =>
    have e : (stepWorld s (.deployReady k')).1.trials = s.cur.trials := by simp only [stepWorld]; split <;> rfl
    exact envOp (by simp only [stepWorld]; split <;> rfl) (by simp only [stepWorld]; split <;> rfl) (sameTrials e)
  | editMax k' n =>
    have hk : k' ≠ k := fun e => hop n (by rw [e])
    have e : (stepWorld s (.editMax k' n)).1.trials = s.cur.trials := by simp only [stepWorld]; split <;> rfl
    have es : (stepWorld s (.editMax k' n)).1.sugs = s.cur.sugs := by simp only [stepWorld]; split <;> rfl
    -- experiments change, but not `k`'s
    have hX' : XInv k mx p (stepWorld s (.editMax k' n)).1 := by
      simp only [stepWorld]
      split
      · exact hX
      · intro e0 he
        have hfe := findExp_updExp s.cur k k' (fun e => { e with maxT := some n, rv := e.rv + 1 }) (fun _ => rfl)
        change findExp (updExp s.cur k' (fun e => { e with maxT := some n, rv := e.rv + 1 })) k = some e0 at he
        rw [hfe] at he
        cases h0 : findExp s.cur k with
        | none => rw [h0] at he; cases he
        | some e1 =>
          rw [h0] at he
          simp only [Option.map_some, Option.some.injEq] at he
          have hne : ¬ e1.key = k' := fun e => hk (e.symm.trans (findExp_key h0))
          simp only [hne, if_false] at he
          subst he
          exact hX e1 h0
    have hfs : ∀ k0, findSug (stepWorld s (.editMax k' n)).1 k0 = findSug s.cur k0 := fun k0 => by unfold findSug; rw [es]
    refine ⟨⟨⟨t2, ?_, ?_⟩, ⟨mx, hX'⟩, t1, t2⟩, ?_, t3⟩
    · intro t ht; rw [e] at ht; rw [hfs]; exact hW.tnames t ht
    · intro sg hsg; rw [hfs] at hsg
      obtain ⟨a, b, c⟩ := hW.sug sg hsg
      exact ⟨Int.le_trans a hb2, Int.le_trans b hb2, c⟩
    · intro sh hh; exact ⟨sh, by rw [hfs]; exact hh, List.prefix_refl _, Nat.le_refl _, fun _ => rfl⟩
  | jobGone k' =>
    have e : (stepWorld s (.jobGone k')).1.trials = s.cur.trials := by
      simp only [stepWorld]; split
      · rfl
      · split <;> rfl
    refine envOp ?_ ?_ (sameTrials e)
    · simp only [stepWorld]; split
      · rfl
      · split <;> rfl
    · simp only [stepWorld]; split
      · rfl
      · split <;> rfl
  | userDelete k' => exact absurd rfl (hopd k')
  | noop => exact ⟨hI.1, Past.refl k _, TPast.refl _⟩

theorem step_invP {k : Key2} {p : Int} (hp0 : 0 ≤ p) {s : Sim} (hI : SInvP k p s) (op : Op) (hop : ∀ n, op ≠ .editMax k n)
    (hopd : ∀ k', op ≠ .userDelete k') : SInvP k p (step s op).1 := by
  obtain ⟨hW, hP, hT⟩ := stepWorld_okP hp0 hI op hop hopd
  unfold step
  refine ⟨hW, ?_⟩
  intro i h hh
  rw [Array.getElem?_push] at hh
  by_cases hi : i = s.hist.size
  · rw [if_pos hi] at hh
    cases hh; exact ⟨hW, Past.refl k _, TPast.refl _⟩
  · rw [if_neg hi] at hh
    obtain ⟨h1, h2, h3⟩ := hI.2 i h hh
    exact ⟨h1, Past.trans h2 hP, TPast.trans h3 hT⟩

theorem run_invP {k : Key2} {p : Int} (hp0 : 0 ≤ p) (ops : List Op) : ∀ {s : Sim}, SInvP k p s → (∀ op ∈ ops, ∀ n, op ≠ .editMax k n) →
    (∀ op ∈ ops, ∀ k', op ≠ .userDelete k') → SInvP k p (run s ops) := by
  induction ops with
  | nil => intro s h _ _; exact h
  | cons op r ih =>
    intro s h hops hopd
    exact ih (step_invP hp0 h op (hops op List.mem_cons_self) (hopd op List.mem_cons_self)) (fun o ho => hops o (List.mem_cons_of_mem _ ho))
      (fun o ho => hopd o (List.mem_cons_of_mem _ ho))

theorem init_invP (k : Key2) (p : Int) (hp0 : 0 ≤ p) (es : List ExpInit) (hinit : ∀ e ∈ es, e.key = k → e.par = p) : SInvP k p (Sim.init es) := by
  have hPI : PI k p (Sim.init es).cur := by
    refine ⟨⟨List.nodup_nil, fun t h => by simp [Sim.init] at h, fun s h => by simp [Sim.init, findSug] at h⟩, ?_, fun t h => by simp [Sim.init] at h, List.nodup_nil⟩
    cases hf : findExp (Sim.init es).cur k with
    | none => exact ⟨none, fun e he => by rw [hf] at he; cases he⟩
    | some e0 =>
      refine ⟨e0.maxT, ?_⟩
      intro e he
      rw [hf] at he; cases he
      have hk := findExp_key hf
      unfold findExp at hf
      have hmem := List.mem_of_find?_eq_some hf
      simp only [Sim.init, List.mem_map] at hmem
      obtain ⟨ei, hei, rfl⟩ := hmem
      exact ⟨rfl, hinit ei hei hk⟩
  refine ⟨hPI, ?_⟩
  intro i h hh
  simp only [Sim.init] at hh
  have : h = (Sim.init es).cur := by
    cases i with
    | zero => simp at hh; exact hh.symm
    | succ j => simp at hh
  rw [this]
  exact ⟨hPI, Past.refl k _, TPast.refl _⟩

theorem length_filter_split {α : Type} (q : α → Bool) (l : List α) : l.length = (l.filter q).length + (l.filter (fun x => !q x)).length := by
  induction l with
  | nil => rfl
  | cons a r ih =>
    simp only [List.filter_cons, List.length_cons]
    cases q a <;> simp <;> omega

/-- **C01_parallel**: over every schedule, the trials of an experiment that are not completed never exceed
    `parallelTrialCount` (and `#trials ≤ #assignments ≤ #completed + parallelTrialCount`). -/
theorem C01_parallel (k : Key2) (p : Int) (hp0 : 0 ≤ p) (es : List ExpInit) (ops : List Op)
    (hinit : ∀ e ∈ es, e.key = k → e.par = p) (hops : ∀ op ∈ ops, ∀ n, op ≠ .editMax k n)
    (hopd : ∀ op ∈ ops, ∀ k', op ≠ .userDelete k') :
    let s := run (Sim.init es) ops
    ((((trialsOf s.cur k).filter (fun t => !tCompleted t)).length : Nat) : Int) ≤ p ∧
    (∀ sg, findSug s.cur k = some sg → (sg.st.names.length : Int) ≤ doneCount k s.cur + p ∧ sg.requests ≤ doneCount k s.cur + p) := by
  intro s
  have hI : SInvP k p s := run_invP hp0 ops (init_invP k p hp0 es hinit) hops hopd
  obtain ⟨hW, _, _, _⟩ := hI.1
  have hb0 : 0 ≤ parBound k p s.cur := by unfold parBound; have := doneCount_nonneg k s.cur; omega
  have htot := trialsOf_le hb0 hW
  have hdone := view_done_le k s.cur s.cur rfl
  have hsplit := length_filter_split tCompleted (trialsOf s.cur k)
  refine ⟨?_, ?_⟩
  · unfold parBound at htot
    omega
  · intro sg hsg
    obtain ⟨a, b, _⟩ := hW.sug sg hsg
    exact ⟨a, b⟩

end Katib.Ctl
