import Katib.Model.JobStatus
import Katib.Model.Reconcile
/-!
# The controller model's job states are the batch/v1 documents of the job-status model

The controller model (`Katib.Ctl`) abstracts a run object to a `JobState`; `jsOf` is its reading of `GetDeployedJobStatus`.
`Katib.Job.jobStatus` is the document-level model of the same function (stream C06J).  For the documents a batch/v1 Job
carries — no condition, Complete, Failed, both in either order — and Katib's default condition expressions the two agree:
the abstraction the whole-schedule theorems rest on is the document model restricted to these documents.
-/
namespace Katib.Ctl
open Katib Katib.Job

def completeEntry : Entry := [("type", "Complete"), ("status", "True")]
def failedEntry : Entry := [("type", "Failed"), ("status", "True")]

/-- the documents of a batch/v1 Job in each abstract state (for `both`: in either order) -/
def docsOf : JobState → List (List Entry)
  | .running => [[], [[("type", "Complete"), ("status", "False")]], [[("type", "Suspended"), ("status", "True")]]]
  | .succeeded => [[completeEntry]]
  | .failed => [[failedEntry]]
  | .both => [[completeEntry, failedEntry], [failedEntry, completeEntry]]

def stdFailure : Expr := .all "type" "Failed" "status" "True"
def stdSuccess : Expr := .all "type" "Complete" "status" "True"

def verdictOfCond : JobCond → Verdict
  | .succeeded => .succeeded
  | .failed => .failed
  | .running => .running

/-- **C06_jobstate_is_document_model**: on every document of a state, the document model's verdict is `jsOf`'s (for a named run
    object) -/
theorem C06_jobstate_is_document_model (st : JobState) (running : Bool) :
    ∀ d ∈ docsOf st, (jobStatus d stdFailure stdSuccess running true).map (·.verdict) = (jsOf st running).map verdictOfCond := by
  cases st <;> cases running <;> decide

end Katib.Ctl
