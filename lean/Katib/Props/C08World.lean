import Katib.Props.C16Succeeded
import Katib.Props.C08
/-!
# C08 over whole schedules: `suggestionCount` equals the number of assignments, which never exceeds a number that was requested

`C08_count_and_bound_world`: for every list of simulator operations (no hypothesis on the schedule — budget edits, Trial
deletions, arbitrary lagging views, faults): the Suggestion of `k` in the current store has `suggestionCount = |assignments|`,
and either no assignment at all or some snapshot of the history in which `spec.requests` of that Suggestion was at least
`|assignments|`.  A status write carries the whole list: it is the list of the (possibly stale) Suggestion that was read,
or that list extended to exactly the `requests` of that same copy (`C08_sync_guard`), and every copy that can be read is a
snapshot of the history.
-/
namespace Katib.Ctl
open Katib Katib.Exp

/-- some snapshot of `hs` holds the Suggestion `k` with at least `n` requests -/
def EverRequested (hs : Array World) (k : Key2) (n : Nat) : Prop :=
  n = 0 ∨ ∃ (i : Nat) (h : World) (sh : SugO), hs[i]? = some h ∧ findSug h k = some sh ∧ (n : Int) ≤ sh.requests

def ROk (hs : Array World) (k : Key2) (st : SugSt) : Prop :=
  st.count = (st.names.length : Int) ∧ EverRequested hs k st.names.length

def RInv (hs : Array World) (k : Key2) (w : World) : Prop := ∀ s, findSug w k = some s → ROk hs k s.st

def RJust (hs : Array World) (k : Key2) : Call → Prop
  | .sugCreate s' => s'.key = k → ROk hs k s'.st
  | .sugStatus k' _ st' => k' = k → ROk hs k st'
  | _ => True

theorem rinv_same {hs : Array World} {k : Key2} {w w' : World} (hs' : w'.sugs = w.sugs) (h : RInv hs k w) : RInv hs k w' := by
  unfold RInv findSug at *
  rw [hs']; exact h

theorem apply_pres_R {hs : Array World} {k : Key2} {w w' : World} {c : Call} (hU : RInv hs k w) (hJ : RJust hs k c)
    (h : applyCall w c = .ok w') : RInv hs k w' := by
  cases c with
  | sugCreate s' =>
    simp only [applyCall] at h; split at h
    · cases h
    · cases h
      intro s hsg
      unfold findSug at hsg
      simp only [List.find?_append] at hsg
      cases hf : List.find? (fun x => decide (x.key = k)) w.sugs with
      | some s0 =>
        rw [hf] at hsg; simp only [Option.some_or, Option.some.injEq] at hsg; subst hsg
        exact hU s0 hf
      | none =>
        rw [hf] at hsg
        simp only [Option.none_or, List.find?_cons, List.find?_nil] at hsg
        split at hsg
        · rename_i hk
          simp only [Option.some.injEq] at hsg; subst hsg
          exact hJ (by simpa using hk)
        · cases hsg
  | sugUpdateReq k' rv req =>
    simp only [applyCall] at h; split at h
    · cases h
    · split at h <;> cases h
      intro s hsg
      rw [findSug_updSug w k k' (fun s => { s with requests := req, rv := s.rv + 1 }) (fun _ => rfl)] at hsg
      cases h0 : findSug w k with
      | none => rw [h0] at hsg; cases hsg
      | some s0 =>
        rw [h0] at hsg
        simp only [Option.map_some, Option.some.injEq] at hsg
        subst hsg
        have := hU s0 h0
        split <;> exact this
  | sugStatus k' rv st =>
    simp only [applyCall] at h; split at h
    · cases h
    · split at h <;> cases h
      intro s hsg
      rw [findSug_updSug w k k' (fun s => { s with st := st, rv := s.rv + 1 }) (fun _ => rfl)] at hsg
      cases h0 : findSug w k with
      | none => rw [h0] at hsg; cases hsg
      | some s0 =>
        rw [h0] at hsg
        simp only [Option.map_some, Option.some.injEq] at hsg
        subst hsg
        have hk0 := findSug_key h0
        split
        · rename_i hkk
          exact hJ (by rw [← hkk, hk0])
        · exact hU s0 h0
  | expUpdateFin k' rv fin =>
    simp only [applyCall] at h; split at h
    · cases h
    · split at h <;> cases h; exact rinv_same rfl hU
  | expStatus k' rv st =>
    simp only [applyCall] at h; split at h
    · cases h
    · split at h <;> cases h; exact rinv_same rfl hU
  | trialCreate t => simp only [applyCall] at h; split at h <;> cases h; exact rinv_same rfl hU
  | trialStatus k' rv st =>
    simp only [applyCall] at h; split at h
    · cases h
    · split at h <;> cases h; exact rinv_same rfl hU
  | trialUpdateFin k' rv fin =>
    simp only [applyCall] at h; split at h
    · cases h
    · split at h
      · cases h
      · split at h <;> cases h <;> exact rinv_same rfl hU
  | trialDelete k' =>
    simp only [applyCall] at h; split at h
    · cases h
    · split at h <;> cases h <;> exact rinv_same rfl hU
  | jobCreate k' => simp only [applyCall] at h; split at h <;> cases h; exact rinv_same rfl hU
  | jobDelete k' => simp only [applyCall] at h; split at h <;> cases h; exact rinv_same rfl hU
  | deployCreate k' => simp only [applyCall] at h; split at h <;> cases h; exact rinv_same rfl hU
  | deployDelete k' => simp only [applyCall] at h; split at h <;> cases h; exact rinv_same rfl hU
  | svcCreate k' =>
    simp only [applyCall, createKey] at h; split at h
    · cases h
    · cases h; exact rinv_same rfl hU
  | svcDelete k' => simp only [applyCall] at h; split at h <;> cases h; exact rinv_same rfl hU
  | pvcCreate k' =>
    simp only [applyCall, createKey] at h; split at h
    · cases h
    · cases h; exact rinv_same rfl hU
  | saCreate k' =>
    simp only [applyCall, createKey] at h; split at h
    · cases h
    · cases h; exact rinv_same rfl hU
  | roleCreate k' =>
    simp only [applyCall, createKey] at h; split at h
    · cases h
    · cases h; exact rinv_same rfl hU
  | rbCreate k' =>
    simp only [applyCall, createKey] at h; split at h
    · cases h
    · cases h; exact rinv_same rfl hU
  | rpcValidate e => simp only [applyCall] at h; cases h; exact rinv_same rfl hU
  | rpcValidateES => simp only [applyCall] at h; cases h; exact rinv_same rfl hU
  | rpcGetSuggestions e cur total ts consume ok => simp only [applyCall] at h; split at h <;> cases h; exact rinv_same rfl hU
  | rpcGetRules e ok => simp only [applyCall] at h; split at h <;> cases h; exact rinv_same rfl hU
  | dbGet t => simp only [applyCall] at h; cases h; exact rinv_same rfl hU
  | dbDelete t => simp only [applyCall] at h; cases h; exact rinv_same rfl hU
  | dbReport t e => simp only [applyCall] at h; split at h <;> cases h <;> exact rinv_same rfl hU


theorem everreq_push {hs : Array World} {k : Key2} {n : Nat} (w : World) (h : EverRequested hs k n) : EverRequested (hs.push w) k n := by
  rcases h with h | ⟨i, h0, sh, hi, hsg, hle⟩
  · exact Or.inl h
  · refine Or.inr ⟨i, h0, sh, ?_, hsg, hle⟩
    rw [Array.getElem?_push]
    have hlt : i < hs.size := by
      cases Nat.lt_or_ge i hs.size with
      | inl h => exact h
      | inr hge => rw [Array.getElem?_eq_none hge] at hi; cases hi
    rw [if_neg (by omega)]; exact hi

theorem rinv_push {hs : Array World} {k : Key2} {w : World} (w' : World) (h : RInv hs k w) : RInv (hs.push w') k w :=
  fun s hs' => ⟨(h s hs').1, everreq_push w' (h s hs').2⟩

/-- the view's Suggestion is a Suggestion of some snapshot of the history -/
def InHist (hs : Array World) (k : Key2) (s : SugO) : Prop := ∃ (i : Nat) (h : World), hs[i]? = some h ∧ findSug h k = some s

theorem expPlan_rjust (hs : Array World) (k : Key2) (v : World) (k' : Key2) (now : Nat) (hv : RInv hs k v) :
    (expPlan v k' now).All (RJust hs k) := by
  cases he : findExp v k' with
  | none => unfold expPlan; rw [he]; trivial
  | some e =>
    have hkey := findExp_key he
    refine (expPlan_guard v k' now e he).mono ?_
    intro c hc
    cases c with
    | sugCreate s' =>
      obtain ⟨_, _, h3, _⟩ := hc
      intro _
      rw [h3]; exact ⟨rfl, Or.inl rfl⟩
    | sugStatus k'' _ st' =>
      obtain ⟨s, hs0, h2, _, hn, hcnt, _⟩ := hc
      intro hkk
      have : k' = k := by rw [← hkey, ← h2, hkk]
      subst this
      rw [hkey] at hs0
      have := hv s hs0
      unfold ROk at this ⊢
      rw [hn, hcnt]; exact this
    | _ => trivial

theorem sugPlan_rjust (hs : Array World) (k : Key2) (v : World) (k' : Key2) (env : SugEnv) (now : Nat) (hv : RInv hs k v)
    (hin : ∀ s, findSug v k = some s → InHist hs k s) : (sugPlan v k' env now).All (RJust hs k) := by
  cases hsg : findSug v k' with
  | none => unfold sugPlan; rw [hsg]; trivial
  | some s =>
    have hkey := findSug_key hsg
    refine (Prog.All.and (sugPlan_guard v k' env now s hsg) (C08_sync_guard v k' env now s hsg)).mono ?_
    intro c hc
    cases c with
    | sugCreate _ => exact absurd hc.1 id
    | sugStatus k'' _ st' =>
      intro hkk
      have : k' = k := by rw [← hkey, ← hc.1.1, hkk]
      subst this
      obtain ⟨hcount, hever⟩ := hv s hsg
      rcases hc.2 with ⟨hn, hcnt⟩ | ⟨n, hn, hreq, hpos, hcnt⟩
      · unfold ROk; rw [hn, hcnt]; exact ⟨hcount, hever⟩
      · refine ⟨by rw [hcnt], Or.inr ?_⟩
        obtain ⟨i, h0, hi, hfound⟩ := hin s hsg
        refine ⟨i, h0, s, hi, hfound, ?_⟩
        rw [hn, List.length_append, length_freshNames]
        simp only [Int.natCast_add]
        omega
    | _ => trivial

theorem trialPlan_rjust (hs : Array World) (k : Key2) (v : World) (k' : Key2) (now : Nat) : (trialPlan v k' now).All (RJust hs k) :=
  (trialPlan_noinfra v k' now).mono (fun c hc => by cases c <;> first | trivial | exact absurd hc id)

def SInvR (k : Key2) (s : Sim) : Prop :=
  (∀ (i : Nat) (h : World), s.hist[i]? = some h → RInv s.hist k h) ∧ RInv s.hist k s.cur ∧ s.hist[s.hist.size - 1]? = some s.cur

theorem snap_goodR {k : Key2} {s : Sim} (hI : SInvR k s) (i : Nat) : RInv s.hist k (snapAt s i) := by
  unfold snapAt
  cases h : s.hist[i]? with
  | none => exact hI.2.1
  | some w => exact hI.1 i w h

theorem snap_inhist {k : Key2} {s : Sim} (hI : SInvR k s) (i : Nat) : ∀ sg, findSug (snapAt s i) k = some sg → InHist s.hist k sg := by
  intro sg hsg
  unfold snapAt at hsg
  cases h : s.hist[i]? with
  | none => rw [h] at hsg; exact ⟨s.hist.size - 1, s.cur, hI.2.2, hsg⟩
  | some w => rw [h] at hsg; exact ⟨i, w, h, hsg⟩

theorem exec_R {hs : Array World} {k : Key2} {w0 : World} (f : Faults) (p : Prog) (hp : p.All (RJust hs k)) (hU : RInv hs k w0) :
    RInv hs k (exec f p w0 0 []).w :=
  exec_preserves (I := RInv hs k) (P := RJust hs k) f (fun _ _ _ hI hc happ => apply_pres_R hI hc happ) p w0 0 [] hp hU

theorem stepWorld_okR {k : Key2} {s : Sim} (hI : SInvR k s) (op : Op) : RInv s.hist k (stepWorld s op).1 := by
  have hU := hI.2.1
  cases op with
  | recExp k' vE vT vS f =>
    refine exec_R f _ (expPlan_rjust s.hist k _ k' s.opIndex ?_) hU
    exact snap_goodR hI vS
  | recSug k' vS vE vT vD f env =>
    refine exec_R f _ (sugPlan_rjust s.hist k _ k' env s.opIndex ?_ ?_) hU
    · exact snap_goodR hI vS
    · exact snap_inhist hI vS
  | recTrial k' vT f => exact exec_R f _ (trialPlan_rjust s.hist k _ k' s.opIndex) hU
  | job k' ok => simp only [stepWorld]; split <;> first | exact hU | exact rinv_same rfl hU
  | metric t text key nm => simp only [stepWorld]; split <;> exact rinv_same rfl hU
  | earlyStop k' =>
    simp only [stepWorld]
    split
    · exact hU
    · split <;> first | exact hU | exact rinv_same rfl hU
  | deployReady k' => simp only [stepWorld]; split <;> first | exact hU | exact rinv_same rfl hU
  | editMax k' n => simp only [stepWorld]; split <;> first | exact hU | exact rinv_same rfl hU
  | jobGone k' =>
    simp only [stepWorld]
    split
    · exact hU
    · split <;> first | exact hU | exact rinv_same rfl hU
  | userDelete k' =>
    simp only [stepWorld]
    split
    · exact hU
    · split
      · exact hU
      · split <;> exact rinv_same rfl hU
  | noop => exact hU

theorem step_invR {k : Key2} {s : Sim} (hI : SInvR k s) (op : Op) : SInvR k (step s op).1 := by
  have hW := stepWorld_okR hI op
  unfold step
  refine ⟨?_, rinv_push _ hW, ?_⟩
  · intro i h hh
    rw [Array.getElem?_push] at hh
    by_cases hi : i = s.hist.size
    · rw [if_pos hi] at hh; cases hh; exact rinv_push _ hW
    · rw [if_neg hi] at hh; exact rinv_push _ (hI.1 i h hh)
  · simp only [Array.size_push, Nat.add_sub_cancel]
    rw [Array.getElem?_push, if_pos rfl]

theorem run_invR {k : Key2} (ops : List Op) : ∀ {s : Sim}, SInvR k s → SInvR k (run s ops) := by
  induction ops with
  | nil => intro s h; exact h
  | cons op r ih => intro s h; exact ih (step_invR h op)

theorem init_invR (k : Key2) (es : List ExpInit) : SInvR k (Sim.init es) := by
  have hU : RInv (Sim.init es).hist k (Sim.init es).cur := fun s h => by simp [Sim.init, findSug] at h
  refine ⟨?_, hU, by simp [Sim.init]⟩
  intro i h hh
  simp only [Sim.init] at hh
  have : h = (Sim.init es).cur := by
    cases i with
    | zero => simp at hh; exact hh.symm
    | succ j => simp at hh
  rw [this]; exact hU

/-- **C08_count_and_bound_world**: over every schedule (no hypothesis): `suggestionCount` equals the number of assignments,
    and that number is 0 or was requested — some snapshot of the history holds the Suggestion with at least that many
    `spec.requests`. -/
theorem C08_count_and_bound_world (k : Key2) (es : List ExpInit) (ops : List Op) :
    let s := run (Sim.init es) ops
    ∀ sg, findSug s.cur k = some sg →
      sg.st.count = (sg.st.names.length : Int) ∧
      (sg.st.names.length = 0 ∨ ∃ (i : Nat) (h : World) (sh : SugO), s.hist[i]? = some h ∧ findSug h k = some sh ∧
        (sg.st.names.length : Int) ≤ sh.requests) := by
  intro s
  exact (run_invR ops (init_invR k es)).2.1

end Katib.Ctl
