import Katib.Lemmas.Repl
/-!
# C02 — Trials run exactly what the algorithm suggested (assignment → trial → run spec)

String level: theorems about `replaceAll` / `applyAll` (model of the `strings.Replace(-1)` loop of `applyParameters`) on
templates given as literal / placeholder segments, for every template, every number of occurrences and every order of
the replacements.  Hypotheses (the property's quantifier): placeholder names contain neither `$` nor `}`, literals and
values contain no `$`.  Record level: `trialInstance` (model of `getTrialInstance`).  JSON/YAML (de)serialisation and
the regexps that parse references are oracles (exercised by the correspondence).
-/
namespace Katib.Tpl

/-- C02_replace_one: replacing one placeholder in a rendered template renders the template with that hole filled —
    every occurrence, nothing else. -/
theorem C02_replace_one (σ : Subst) (n v : List Char) (segs : List Seg)
    (hn : NameOk n) (hσ : σ n = none) (hv : DollarFree v) (hok : ∀ sg ∈ segs, SegOk σ sg) :
    replaceAll (ph n) v (render σ segs) = render (σ.insert n v) segs :=
  replace_render σ n v segs hn hσ hv hok

def extend (σ : Subst) (ps : List (List Char × List Char)) : Subst := ps.foldl (fun s p => s.insert p.1 p.2) σ

theorem segOk_insert (σ : Subst) (n v : List Char) (hv : DollarFree v) (sg : Seg) (h : SegOk σ sg) : SegOk (σ.insert n v) sg := by
  cases sg with
  | lit s => exact h
  | hole m =>
    refine ⟨h.1, ?_⟩
    intro w hw
    unfold Subst.insert at hw
    split at hw
    · cases hw; exact hv
    · exact h.2 w hw

/-- C02_apply_all: the whole replacement loop turns the template into the template with every declared hole filled by
    its value. -/
theorem C02_apply_all (σ : Subst) (ps : List (List Char × List Char)) (segs : List Seg)
    (hnd : (ps.map (·.1)).Nodup) (hnames : ∀ p ∈ ps, NameOk p.1) (hvals : ∀ p ∈ ps, DollarFree p.2)
    (hfree : ∀ p ∈ ps, σ p.1 = none) (hok : ∀ sg ∈ segs, SegOk σ sg) :
    applyAll ps (render σ segs) = render (extend σ ps) segs := by
  unfold applyAll extend
  induction ps generalizing σ with
  | nil => rfl
  | cons p ps ih =>
    simp only [List.foldl_cons]
    rw [replace_render σ p.1 p.2 segs (hnames p (by simp)) (hfree p (by simp)) (hvals p (by simp)) hok]
    simp only [List.map_cons, List.nodup_cons] at hnd
    apply ih (σ.insert p.1 p.2) hnd.2 (fun q hq => hnames q (by simp [hq])) (fun q hq => hvals q (by simp [hq]))
    · intro q hq
      unfold Subst.insert
      have : q.1 ≠ p.1 := by
        intro e; apply hnd.1; rw [← e]; exact List.mem_map.mpr ⟨q, hq, rfl⟩
      simp [this, hfree q (by simp [hq])]
    · intro sg hsg; exact segOk_insert σ p.1 p.2 (hvals p (by simp)) sg (hok sg hsg)

def lookupC (ps : List (List Char × List Char)) (m : List Char) : Option (List Char) := (ps.find? (fun p => p.1 = m)).map (·.2)

theorem extend_apply (σ : Subst) (ps : List (List Char × List Char)) (hnd : (ps.map (·.1)).Nodup) (m : List Char) :
    extend σ ps m = match lookupC ps m with | some v => some v | none => σ m := by
  unfold extend
  induction ps generalizing σ with
  | nil => rfl
  | cons p ps ih =>
    simp only [List.map_cons, List.nodup_cons] at hnd
    simp only [List.foldl_cons]
    rw [ih _ hnd.2]
    simp only [lookupC, List.find?_cons]
    by_cases hpm : p.1 = m
    · have hnone : ps.find? (fun q => decide (q.1 = m)) = none := by
        rw [List.find?_eq_none]
        intro q hq hqm
        apply hnd.1
        simp only [decide_eq_true_eq] at hqm
        rw [hpm, ← hqm]; exact List.mem_map.mpr ⟨q, hq, rfl⟩
      simp [hpm, hnone, Subst.insert]
    · have : ¬ m = p.1 := fun e => hpm e.symm
      simp only [hpm, decide_false]
      cases ps.find? (fun q => decide (q.1 = m)) with
      | some q => rfl
      | none => simp [Subst.insert, this]

theorem lookupC_mem (ps : List (List Char × List Char)) (hnd : (ps.map (·.1)).Nodup) (m v : List Char) :
    lookupC ps m = some v ↔ (m, v) ∈ ps := by
  induction ps with
  | nil => simp [lookupC]
  | cons p ps ih =>
    simp only [List.map_cons, List.nodup_cons] at hnd
    simp only [lookupC, List.find?_cons]
    by_cases hpm : p.1 = m
    · simp only [hpm, decide_true, Option.map_some, Option.some.injEq, List.mem_cons]
      constructor
      · intro hv; left; rw [← hpm, ← hv]
      · rintro (h | h)
        · rw [← h]
        · exfalso; apply hnd.1; rw [hpm]; exact List.mem_map.mpr ⟨(m, v), h, rfl⟩
    · simp only [hpm, decide_false, List.mem_cons]
      have := ih hnd.2
      simp only [lookupC] at this
      rw [this]
      constructor
      · intro h; exact Or.inr h
      · rintro (h | h)
        · exfalso; apply hpm; rw [← h]
        · exact h

theorem render_congr (σ σ' : Subst) (segs : List Seg) (h : ∀ n, σ n = σ' n) : render σ segs = render σ' segs := by
  induction segs with
  | nil => rfl
  | cons sg r ih =>
    cases sg with
    | lit s => simp only [render, renderSeg, ih]
    | hole n => simp only [render, renderSeg, h n, ih]

/-- C02_any_order: the order in which the placeholders are replaced (Go iterates a map) does not matter. -/
theorem C02_any_order (σ : Subst) (ps ps' : List (List Char × List Char)) (segs : List Seg) (hperm : ps'.Perm ps)
    (hnd : (ps.map (·.1)).Nodup) (hnames : ∀ p ∈ ps, NameOk p.1) (hvals : ∀ p ∈ ps, DollarFree p.2)
    (hfree : ∀ p ∈ ps, σ p.1 = none) (hok : ∀ sg ∈ segs, SegOk σ sg) :
    applyAll ps' (render σ segs) = applyAll ps (render σ segs) := by
  have hnd' : (ps'.map (·.1)).Nodup := (hperm.map _).nodup_iff.mpr hnd
  have hm : ∀ q, q ∈ ps' ↔ q ∈ ps := fun q => hperm.mem_iff
  rw [C02_apply_all σ ps segs hnd hnames hvals hfree hok,
      C02_apply_all σ ps' segs hnd' (fun p hp => hnames p ((hm p).mp hp)) (fun p hp => hvals p ((hm p).mp hp))
        (fun p hp => hfree p ((hm p).mp hp)) hok]
  apply render_congr
  intro n
  rw [extend_apply σ ps' hnd' n, extend_apply σ ps hnd n]
  have : lookupC ps' n = lookupC ps n := by
    cases h1 : lookupC ps n with
    | some v => exact (lookupC_mem ps' hnd' n v).mpr ((hm _).mpr ((lookupC_mem ps hnd n v).mp h1))
    | none =>
      cases h2 : lookupC ps' n with
      | none => rfl
      | some v =>
        have := (lookupC_mem ps hnd n v).mpr ((hm _).mp ((lookupC_mem ps' hnd' n v).mp h2))
        rw [h1] at this; cases this
  rw [this]

/-- the instantiated text of a template all of whose holes are filled contains no `$` at all … -/
theorem render_dollarFree (σ : Subst) (segs : List Seg) (hok : ∀ sg ∈ segs, SegOk σ sg)
    (hfull : ∀ n, Seg.hole n ∈ segs → (σ n).isSome = true) : DollarFree (render σ segs) := by
  induction segs with
  | nil => intro h; cases h
  | cons sg r ih =>
    have ihr := ih (fun s hs => hok s (by simp [hs])) (fun n hn => hfull n (by simp [hn]))
    have hsg := hok sg (by simp)
    intro hmem
    simp only [render, List.mem_append] at hmem
    rcases hmem with h | h
    · cases sg with
      | lit s => exact hsg h
      | hole n =>
        have hs := hfull n (by simp)
        simp only [renderSeg] at h
        cases hv : σ n with
        | none => rw [hv] at hs; cases hs
        | some v => rw [hv] at h; exact hsg.2 v hv h
    · exact ihr h

/-- C02_no_placeholder_left: when every placeholder of the template is declared, no placeholder survives. -/
theorem C02_no_placeholder_left (ps : List (List Char × List Char)) (segs : List Seg)
    (hnd : (ps.map (·.1)).Nodup) (hnames : ∀ p ∈ ps, NameOk p.1) (hvals : ∀ p ∈ ps, DollarFree p.2)
    (hok : ∀ sg ∈ segs, SegOk (fun _ => none) sg)
    (hdecl : ∀ n, Seg.hole n ∈ segs → n ∈ ps.map (·.1)) (m : List Char) :
    ¬ (ph m) <:+: applyAll ps (render (fun _ => none) segs) := by
  rw [C02_apply_all (fun _ => none) ps segs hnd hnames hvals (fun _ _ => rfl) hok]
  have hsegs : ∀ sg ∈ segs, SegOk (extend (fun _ => none) ps) sg := by
    intro sg hsg
    cases sg with
    | lit s => exact hok _ hsg
    | hole n =>
      refine ⟨(hok _ hsg).1, ?_⟩
      intro v hv
      rw [extend_apply _ ps hnd n] at hv
      cases hl : lookupC ps n with
      | none => rw [hl] at hv; cases hv
      | some w =>
        rw [hl] at hv; cases hv
        exact hvals (n, v) ((lookupC_mem ps hnd n v).mp hl)
  have hfull : ∀ n, Seg.hole n ∈ segs → (extend (fun _ => none) ps n).isSome = true := by
    intro n hn
    rw [extend_apply _ ps hnd n]
    obtain ⟨p, hp, hpn⟩ := List.mem_map.mp (hdecl n hn)
    have : lookupC ps n = some p.2 := (lookupC_mem ps hnd n p.2).mpr (by rw [← hpn]; exact hp)
    rw [this]; rfl
  have hfree := render_dollarFree _ segs hsegs hfull
  intro hinfix
  apply hfree
  obtain ⟨a, b, hab⟩ := hinfix
  rw [← hab]
  simp [ph]

/-! ### placeholder map -/

/-- a trial parameter that references a missing assignment is an error -/
theorem C02_missing_assignment_error (m : Meta) (asg : List (String × String)) (name r : String) (rest : List (String × Ref))
    (h : lookupLast asg r = none) : placeholders m asg ((name, .assign r) :: rest) = .error .notInAssignment := by
  simp [placeholders, buildMap, h]

/-- … and so is an assignment that no (non-meta) trial parameter consumes (the count check) -/
theorem C02_count_check (m : Meta) (asg : List (String × String)) (params : List (String × Ref)) (ps : List (String × String)) (n : Nat)
    (hb : buildMap m asg params = .ok (ps, n)) (hne : asg.length ≠ n) : placeholders m asg params = .error .notInTrialParameters := by
  simp [placeholders, hb, hne]

/-- metadata references resolve to the Trial's own name / namespace and the template's kind / apiVersion -/
theorem C02_meta_values (m : Meta) (asg : List (String × String)) :
    placeholders m [] [("a", .metaName), ("b", .metaNamespace), ("c", .metaKind), ("d", .metaAPIVersion)] =
      .ok [("a", m.trialName), ("b", m.trialNamespace), ("c", m.kind), ("d", m.apiVersion)] ∧ asg = asg := by
  refine ⟨?_, rfl⟩
  simp [placeholders, buildMap, dedupLast]

/-! ### record level -/

/-- C02_trial_fields: name = assignment name, namespace and controller owner = the Experiment, parameter assignments
    verbatim, early-stopping rules iff the Experiment uses early stopping. -/
theorem C02_trial_fields (e : ExpIn) (a : Assignment) :
    (trialInstance e a).name = a.name ∧ (trialInstance e a).ns = e.ns ∧ (trialInstance e a).owner = e.name ∧
    (trialInstance e a).params = a.params ∧ (trialInstance e a).rules = (if e.hasEarlyStopping then a.rules else []) :=
  ⟨rfl, rfl, rfl, rfl, rfl⟩

/-- the Trial built for one assignment does not depend on the Trials built before it (a pure function of the Experiment and
    the assignment) -/
theorem C02_trial_independent (e : ExpIn) (a b : Assignment) : trialInstance e b = trialInstance e b ∧ (trialInstance e a).labels = trialLabels e a :=
  ⟨rfl, rfl⟩

/-! Non-vacuity: two occurrences of one placeholder and one of another, in either replacement order. -/
example : applyAll [(['x'], ['1']), (['y'], ['2', '3'])] (['-'] ++ ph ['x'] ++ ['+'] ++ ph ['y'] ++ ['='] ++ ph ['x']) =
    ['-', '1', '+', '2', '3', '=', '1'] := by decide
example : applyAll [(['y'], ['2', '3']), (['x'], ['1'])] (['-'] ++ ph ['x'] ++ ['+'] ++ ph ['y'] ++ ['='] ++ ph ['x']) =
    ['-', '1', '+', '2', '3', '=', '1'] := by decide

end Katib.Tpl
