import Katib.Gen.Guards
import Katib.Model.Convert
/-!
# C10: the model of `ConvertTrials` / `convertTrialObservation` decides under the source's path conditions

`Katib/Gen/Guards.lean` (regenerated on every run by `kvh extract guards`, expression switches included) holds the conditions
under which `convertTrialObservation` sends a metric's latest, min or max value, and under which `ConvertTrials` sends a Trial
at all and sends its last condition (pkg/controller.v1beta1/suggestion/suggestionclient/suggestionclient.go).
-/
namespace Katib.Gen
open Katib.Conv

theorem C10_convert_guards_known :
    obsUseLatestGuardUnknown = [] ∧ obsUseMinGuardUnknown = [] ∧ obsUseMaxGuardUnknown = [] ∧ obsAppendGuardUnknown = [] ∧
    trialSentGuardUnknown = [] ∧ trialConditionSentGuardUnknown = [] ∧ obsUseLatestGuardSites = 3 ∧ obsUseMinGuardSites = 1 ∧
    obsUseMaxGuardSites = 1 ∧ obsAppendGuardSites = 1 ∧ trialSentGuardSites = 1 ∧ trialConditionSentGuardSites = 1 := by decide

abbrev CoG := Bool → Bool → Bool → Bool → Bool → Bool → Bool → Bool → Bool → Bool → Bool → Bool → Bool → Bool → Bool

/-- the guards inside the loop over the observation's metrics; `s` = the strategy the map holds for the metric's name -/
def obsG (s : Option String) (m : MetricObs) (g : CoG) : Bool :=
  g true true (decide (s = some "min")) (decide (s = some "max")) (decide (s = some "latest")) (decide (m.min = unavailable))
    (decide (m.max = unavailable)) false false false false false false false

/-- the value chosen for a strategy (the switch of `convertTrialObservation`; no clause = the empty string) -/
def valueGen (s : Option String) (m : MetricObs) : String :=
  if obsG s m obsUseLatestGuard then m.latest else if obsG s m obsUseMinGuard then m.min
  else if obsG s m obsUseMaxGuard then m.max else ""

/-- **C10_metric_value_is_source** -/
theorem C10_metric_value_is_source (strategies : List (String × String)) (m : MetricObs) :
    metricValue strategies m = valueGen ((strategies.reverse.find? (fun s => s.1 = m.name)).map (·.2)) m := by
  unfold metricValue
  generalize (strategies.reverse.find? (fun s => s.1 = m.name)).map (·.2) = s
  unfold valueGen obsG obsUseLatestGuard obsUseMinGuard obsUseMaxGuard
  split <;> (try split) <;> simp_all

/-- **C10_trial_sent_is_source**: the filter of `ConvertTrials` and the "last condition" test -/
theorem C10_trial_sent_is_source (t : TrialIn) :
    (!condHas t.conditions "MetricsUnavailable" && !(condHas t.conditions "EarlyStopped" && !obsAvail t)) =
      trialSentGuard false false false false false false false (condHas t.conditions "MetricsUnavailable") (obsAvail t)
        (condHas t.conditions "EarlyStopped") false false false false ∧
    (convTrial t).condition =
      (if trialConditionSentGuard false false false false false false false false true false false false (!t.conditions.isEmpty) false
       then enumConv "convertTrialConditionType" ((t.conditions.getLast?.map (·.1)).getD "") else "TrialStatus_CREATED") := by
  constructor
  · unfold trialSentGuard
    cases condHas t.conditions "MetricsUnavailable" <;> cases condHas t.conditions "EarlyStopped" <;> cases obsAvail t <;> rfl
  · unfold trialConditionSentGuard convTrial
    cases h : t.conditions with
    | nil => simp
    | cons a l => cases hl : (a :: l).getLast? with
      | none => simp at hl
      | some c => simp

/-- the metrics of a Trial are sent exactly when its observation (and the metric list in it) is set -/
theorem C10_observation_sent_is_source (t : TrialIn) :
    (convTrial t).metrics =
      if obsAppendGuard t.obs.isSome t.obs.isSome false false false false false false false false false false false false
      then (t.obs.getD []).map (fun m => (m.name, metricValue t.strategies m)) else [] := by
  unfold obsAppendGuard convTrial
  cases t.obs <;> simp

/-- the regenerated condition under which one iteration of the loop of `ConvertTrials` sends the Trial -/
def sentGen (t : TrialIn) : Bool :=
  trialSentGuard false false false false false false false (condHas t.conditions "MetricsUnavailable") (obsAvail t)
    (condHas t.conditions "EarlyStopped") false false false false

/-- **C10_convert_trials_loop_is_source**: for every list of Trials (any number, any conditions, with or without observation) what
    the model sends is the in-order concatenation of what the regenerated guard lets each iteration send -/
theorem C10_convert_trials_loop_is_source (ts : List TrialIn) :
    convertTrials ts = ts.flatMap (fun t => if sentGen t then [convTrial t] else []) := by
  unfold convertTrials
  induction ts with
  | nil => simp
  | cons t rest ih =>
    rw [List.flatMap_cons, ← ih, List.filter_cons]
    have h := (C10_trial_sent_is_source t).1
    unfold sentGen
    rw [← h]
    cases (!condHas t.conditions "MetricsUnavailable" && !(condHas t.conditions "EarlyStopped" && !obsAvail t)) <;> simp

/-- a Trial is sent exactly when the regenerated guard holds for it; nothing else is sent and the order is kept -/
theorem C10_sent_iff_guard (ts : List TrialIn) (p : PTrial) :
    p ∈ convertTrials ts ↔ ∃ t ∈ ts, sentGen t = true ∧ convTrial t = p := by
  rw [C10_convert_trials_loop_is_source]
  simp only [List.mem_flatMap]
  constructor
  · rintro ⟨t, ht, hp⟩
    by_cases hs : sentGen t = true
    · simp [hs] at hp; exact ⟨t, ht, hs, hp.symm⟩
    · simp [hs] at hp
  · rintro ⟨t, ht, hs, rfl⟩
    exact ⟨t, ht, by simp [hs]⟩

end Katib.Gen
