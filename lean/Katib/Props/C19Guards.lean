import Katib.Gen.Guards
import Katib.Model.DB
/-!
# C19: the model of `GetObservationLog` decides under the source's path conditions, for both back ends

`Katib/Gen/Guards.lean` (regenerated on every run by `kvh extract guards`) holds, for `GetObservationLog` of the MySQL and of the
PostgreSQL back end (pkg/db/v1beta1/{mysql/mysql.go, postgres/postgres.go}), the conditions under which the metric name, the
start time and the end time are appended to the statement's arguments, the two time errors and the query error are returned,
the query is issued and a row is appended to the result.
-/
namespace Katib.Gen
open Katib.DB

theorem C19_get_guards_known :
    myAddMetricGuardUnknown = [] ∧ myErrStartGuardUnknown = [] ∧ myAddStartGuardUnknown = [] ∧ myErrEndGuardUnknown = [] ∧
    myAddEndGuardUnknown = [] ∧ myQueryGuardUnknown = [] ∧ myErrQueryGuardUnknown = [] ∧ myRowGuardUnknown = [] ∧
    pgAddMetricGuardUnknown = [] ∧ pgErrStartGuardUnknown = [] ∧ pgAddStartGuardUnknown = [] ∧ pgErrEndGuardUnknown = [] ∧
    pgAddEndGuardUnknown = [] ∧ pgQueryGuardUnknown = [] ∧ pgErrQueryGuardUnknown = [] ∧ pgRowGuardUnknown = [] ∧
    myAddMetricGuardSites = 1 ∧ myErrStartGuardSites = 1 ∧ myAddStartGuardSites = 1 ∧ myErrEndGuardSites = 1 ∧
    myAddEndGuardSites = 1 ∧ myQueryGuardSites = 1 ∧ myErrQueryGuardSites = 1 ∧ myRowGuardSites = 1 ∧
    pgAddMetricGuardSites = 1 ∧ pgErrStartGuardSites = 1 ∧ pgAddStartGuardSites = 1 ∧ pgErrEndGuardSites = 1 ∧
    pgAddEndGuardSites = 1 ∧ pgQueryGuardSites = 1 ∧ pgErrQueryGuardSites = 1 ∧ pgRowGuardSites = 1 := by decide

/-- **C19_backends_agree**: the two back ends build and run the query under the same conditions -/
theorem C19_backends_agree :
    myAddMetricGuard = pgAddMetricGuard ∧ myErrStartGuard = pgErrStartGuard ∧ myAddStartGuard = pgAddStartGuard ∧
    myErrEndGuard = pgErrEndGuard ∧ myAddEndGuard = pgAddEndGuard ∧ myQueryGuard = pgQueryGuard ∧
    myErrQueryGuard = pgErrQueryGuard ∧ myRowGuard = pgRowGuard :=
  ⟨rfl, rfl, rfl, rfl, rfl, rfl, rfl, rfl⟩

abbrev DbG := Bool → Bool → Bool → Bool → Bool → Bool → Bool → Bool → Bool → Bool

def filterText : Filter → String | .ok f => f | _ => ""

/-- the atoms on a request: a filter is present when its text is non-empty, `bad` when it does not parse -/
def getG (metric : String) (start end_ : Filter) (queryFails scanFails parseFails : Bool) (g : DbG) : Bool :=
  g (decide (metric ≠ "")) (decide (start ≠ .absent)) (decide (end_ ≠ .absent)) (decide (start = .bad)) (decide (end_ = .bad))
    queryFails scanFails parseFails false

def getGen (d : Dialect) (trial metric : String) (start end_ : Filter) : Except Err Stmt :=
  let G := getG metric start end_ false false false
  if G myErrStartGuard || G myErrEndGuard then .error .badTime
  else .ok { sql := selectSql d (G myAddMetricGuard) (G myAddStartGuard) (G myAddEndGuard),
             args := trial :: ((if G myAddMetricGuard then [metric] else []) ++ (if G myAddStartGuard then [filterText start] else []) ++
                               (if G myAddEndGuard then [filterText end_] else [])) }

set_option linter.unusedSimpArgs false in
/-- **C19_get_is_source**: the statement and its arguments are assembled, and the time errors returned, under the source's
    conditions (by `C19_backends_agree`, those of either back end); the statement is issued exactly when no error was returned -/
theorem C19_get_is_source (d : Dialect) (trial metric : String) (start end_ : Filter) :
    DB.get d trial metric start end_ = getGen d trial metric start end_ ∧
    ((DB.get d trial metric start end_).toBool = getG metric start end_ false false false myQueryGuard) := by
  unfold DB.get getGen getG myErrStartGuard myErrEndGuard myAddMetricGuard myAddStartGuard myAddEndGuard myQueryGuard
  by_cases hm : metric = "" <;> cases start <;> cases end_ <;> simp [hm, filterText, Except.toBool]

/-- a row is appended exactly when the query, the scan and the time parse succeed (`Row.time` of the model is `some` exactly
    when scan and parse succeed) -/
theorem C19_row_is_source (r : Row) (metric : String) (scanFails parseFails : Bool) (h : r.time.isSome = (!scanFails && !parseFails)) :
    (r.time.map (fun t => (t, r.name, r.value))).toList =
      if getG metric .absent .absent false scanFails parseFails myRowGuard then [(r.time.getD "", r.name, r.value)] else [] := by
  unfold getG myRowGuard
  cases ht : r.time <;> cases scanFails <;> cases parseFails <;> simp_all

/-- **C19_rows_loop_is_source**: for every result set (any number of rows, any of them failing to scan or to parse), the rows the
    model reads back are the concatenation, in order, of what the generated row guard lets each iteration append -/
theorem C19_rows_loop_is_source (rows : List Row) (metric : String) (sf pf : Row → Bool)
    (h : ∀ r ∈ rows, r.time.isSome = (!sf r && !pf r)) :
    readRows rows =
      rows.flatMap (fun r => if getG metric .absent .absent false (sf r) (pf r) myRowGuard
        then [(r.time.getD "", r.name, r.value)] else []) := by
  induction rows with
  | nil => simp [readRows]
  | cons r rest ih =>
    have hr := C19_row_is_source r metric (sf r) (pf r) (h r (by simp))
    have ih' := ih (fun x hx => h x (by simp [hx]))
    unfold readRows at ih' ⊢
    rw [List.flatMap_cons, ← hr, ← ih', List.filterMap_cons]
    cases r.time <;> simp

end Katib.Gen
