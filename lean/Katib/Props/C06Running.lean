import Katib.Props.C06World
/-!
# A MetricsUnavailable Trial is never Running — over every schedule

`C06_unavailable_not_running`: for every list of simulator operations (no hypothesis on the schedule), every Trial of the
current store that carries MetricsUnavailable = True has Running ≠ True.  It is one of the facts about reachable stores that
`C04_quiescent_verdict_partial` assumes; `C04_quiescent_verdict_on_schedules` takes it from here.
-/
namespace Katib.Ctl
open Katib Katib.Exp

def MUOk (cs : List TCond) : Prop := Cond.has cs .metricsUnavailable = true → Cond.has cs .running = false

def MInv (w : World) : Prop := ∀ t ∈ w.trials, MUOk t.st.conds

def MJust : Call → Prop
  | .trialStatus _ _ st => MUOk st.conds
  | .trialCreate t => MUOk t.st.conds
  | _ => True

theorem has_trialRunningFalse_self (cs : List TCond) (now : Nat) : Cond.has (trialRunningFalse cs now) .running = false := by
  unfold trialRunningFalse
  cases h : Cond.get cs .running with
  | some c => simp only []; exact Cond.has_set_self _ _ _ _ _
  | none => simp only []; unfold Cond.has; rw [h]

theorem muok_tMark (cs : List TCond) (ty : TCT) (r : String) (now : Nat) (h : ty ≠ .running) : MUOk (tMark cs ty r now) := by
  intro _
  unfold tMark
  rw [Cond.has_set_other _ (fun e => h e.symm), has_trialRunningFalse_self]

theorem mu_finish (t : TrialO) (st : TrialSt) (h : MUOk st.conds) : (trialFinish t st).All MJust := by
  unfold trialFinish; split
  · trivial
  · exact ⟨h, trivial, trivial⟩

theorem mu_updateCondition (t : TrialO) (st : TrialSt) (js : JobCond) (now : Nat) (hst : st.conds = t.st.conds)
    (hv : MUOk t.st.conds) (hg : tCompleted t = false ∨ tHas t .earlyStopped = true) :
    (trialUpdateCondition t st js now).All MJust := by
  have keep : (trialFinish t st).All MJust := mu_finish t st (by rw [hst]; exact hv)
  have mark : ∀ (ty : TCT) (r : String) (c : Option Nat), ty ≠ .running →
      (trialFinish t { st with conds := tMark st.conds ty r now, completion := c }).All MJust :=
    fun ty r c hne => mu_finish t _ (muok_tMark _ _ _ _ hne)
  unfold trialUpdateCondition
  simp only []
  cases js with
  | succeeded =>
    simp only []
    split
    · split
      · exact mark _ _ _ (by decide)
      · exact keep
    · split
      · split
        · exact ⟨trivial, mark _ _ _ (by decide), trivial⟩
        · exact mark _ _ _ (by decide)
      · exact keep
  | failed =>
    simp only []
    split
    · exact mark _ _ _ (by decide)
    · exact keep
  | running =>
    simp only []
    split
    · rename_i hc
      apply mu_finish
      intro hmu
      exfalso
      simp only [Cond.has_set_other _ (show TCT.metricsUnavailable ≠ TCT.running by decide), hst] at hmu
      simp only [Bool.and_eq_true, Bool.not_eq_true', hst] at hc
      rcases hg with hg | hg
      · unfold tCompleted tHas at hg
        simp only [Bool.or_eq_false_iff] at hg
        rw [hg.2] at hmu; cases hmu
      · unfold tHas at hg; rw [hg] at hc; cases hc.2
    · exact keep

theorem mu_observe (v : World) (t : TrialO) (js : JobCond) (now : Nat) (hv : MUOk t.st.conds)
    (hg : tCompleted t = false ∨ tHas t .earlyStopped = true) : (trialObserve v t js now).All MJust := by
  have cont : ∀ st : TrialSt, st.conds = t.st.conds →
      (if (js = .succeeded && st.obs.isNone && !t.push) = true then Prog.done .requeueAfter else trialUpdateCondition t st js now).All MJust := by
    intro st hst
    split
    · trivial
    · exact mu_updateCondition t st js now hst hv hg
  unfold trialObserve
  simp only []
  split
  · split
    · exact ⟨trivial, cont _ rfl, trivial⟩
    · split
      · refine ⟨trivial, ?_, trivial⟩
        exact cont { t.st with obs := some _ } rfl
      · exact ⟨trivial, trivial, trivial⟩
  · exact cont _ rfl

theorem mu_afterJob (v : World) (t : TrialO) (state : JobState) (now : Nat) (hv : MUOk t.st.conds) :
    (trialAfterJob v t state now).All MJust := by
  unfold trialAfterJob
  split
  · exact mu_finish t _ hv
  · rename_i hc
    have hg : tCompleted t = false ∨ tHas t .earlyStopped = true := by
      cases h1 : tCompleted t with
      | false => exact Or.inl rfl
      | true =>
        cases h2 : tHas t .earlyStopped with
        | true => exact Or.inr rfl
        | false => simp [h1, h2] at hc
    split
    · exact mu_finish t _ hv
    · exact mu_observe v t _ now hv hg

theorem trialPlan_mu (v : World) (k : Key2) (now : Nat) (hv : MInv v) : (trialPlan v k now).All MJust := by
  cases ht : findTrial v k with
  | none => unfold trialPlan; rw [ht]; trivial
  | some t =>
    have hvt : MUOk t.st.conds := hv t (findTrial_mem ht)
    unfold trialPlan
    rw [ht]
    simp only []
    split
    · exact ⟨trivial, trivial, trivial⟩
    · split
      · exact ⟨trivial, ⟨trivial, trivial, trivial⟩, trivial⟩
      · split
        · apply mu_finish
          intro hmu
          simp only [Cond.has_set_other _ (show TCT.metricsUnavailable ≠ TCT.created by decide)] at hmu
          rw [Cond.has_set_other _ (show TCT.running ≠ TCT.created by decide)]
          exact hvt hmu
        · split
          · split
            · exact mu_finish t _ hvt
            · exact ⟨trivial, mu_afterJob v t .running now hvt, trivial⟩
          · split
            · exact ⟨trivial, trivial, trivial⟩
            · exact mu_afterJob v t _ now hvt


theorem expPlan_mu (v : World) (k : Key2) (now : Nat) : (expPlan v k now).All MJust := by
  cases he : findExp v k with
  | none => unfold expPlan; rw [he]; trivial
  | some e =>
    refine (expPlan_guard v k now e he).mono ?_
    intro c hc
    cases c with
    | trialCreate t' =>
      obtain ⟨_, _, _, _, h5, _⟩ := hc
      show MUOk t'.st.conds
      rw [h5]; intro h; cases h
    | trialStatus _ _ _ => exact absurd hc id
    | _ => trivial

theorem sugPlan_mu (v : World) (k : Key2) (env : SugEnv) (now : Nat) : (sugPlan v k env now).All MJust := by
  cases hs : findSug v k with
  | none => unfold sugPlan; rw [hs]; trivial
  | some s =>
    refine (sugPlan_target v k env now s hs).mono ?_
    intro c hc
    cases c with
    | trialCreate _ => exact absurd hc id
    | trialStatus _ _ _ => exact absurd hc id
    | _ => trivial

theorem minv_same {w w' : World} (e : w'.trials = w.trials) (h : MInv w) : MInv w' := by
  unfold MInv; rw [e]; exact h

theorem minv_upd {w : World} (k : Key2) (f : TrialO → TrialO) (hf : ∀ t, MUOk t.st.conds → MUOk (f t).st.conds) (h : MInv w) :
    MInv (updTrial w k f) := by
  intro t' ht'
  unfold updTrial at ht'
  simp only [List.mem_map] at ht'
  obtain ⟨t, ht, rfl⟩ := ht'
  split
  · exact hf t (h t ht)
  · exact h t ht

theorem minv_filter {w : World} (p : TrialO → Bool) (h : MInv w) : MInv { w with trials := w.trials.filter p } :=
  fun t ht => h t (List.mem_filter.1 ht).1

theorem apply_pres_M {w w' : World} {c : Call} (hM : MInv w) (hJ : MJust c) (h : applyCall w c = .ok w') : MInv w' := by
  cases c with
  | trialCreate t =>
    simp only [applyCall] at h; split at h <;> cases h
    intro t' ht'
    simp only [List.mem_append, List.mem_singleton] at ht'
    rcases ht' with ht' | ht'
    · exact hM t' ht'
    · subst ht'; exact hJ
  | trialStatus k' rv st =>
    simp only [applyCall] at h; split at h
    · cases h
    · split at h <;> cases h
      exact minv_upd _ _ (fun _ _ => hJ) hM
  | trialUpdateFin k' rv fin =>
    simp only [applyCall] at h; split at h
    · cases h
    · split at h
      · cases h
      · split at h <;> cases h
        · exact minv_filter _ hM
        · exact minv_upd _ _ (fun _ ht => ht) hM
  | trialDelete k' =>
    simp only [applyCall] at h; split at h
    · cases h
    · split at h <;> cases h
      · exact minv_upd _ _ (fun _ ht => ht) hM
      · exact minv_filter _ hM
  | expUpdateFin k' rv fin =>
    simp only [applyCall] at h; split at h
    · cases h
    · split at h <;> cases h; exact minv_same rfl hM
  | expStatus k' rv st =>
    simp only [applyCall] at h; split at h
    · cases h
    · split at h <;> cases h; exact minv_same rfl hM
  | sugCreate s => simp only [applyCall] at h; split at h <;> cases h; exact minv_same rfl hM
  | sugUpdateReq k' rv req =>
    simp only [applyCall] at h; split at h
    · cases h
    · split at h <;> cases h; exact minv_same rfl hM
  | sugStatus k' rv st =>
    simp only [applyCall] at h; split at h
    · cases h
    · split at h <;> cases h; exact minv_same rfl hM
  | jobCreate k' => simp only [applyCall] at h; split at h <;> cases h; exact minv_same rfl hM
  | jobDelete k' => simp only [applyCall] at h; split at h <;> cases h; exact minv_same rfl hM
  | deployCreate k' => simp only [applyCall] at h; split at h <;> cases h; exact minv_same rfl hM
  | deployDelete k' => simp only [applyCall] at h; split at h <;> cases h; exact minv_same rfl hM
  | svcCreate k' =>
    simp only [applyCall, createKey] at h; split at h
    · cases h
    · cases h; exact minv_same rfl hM
  | svcDelete k' => simp only [applyCall] at h; split at h <;> cases h; exact minv_same rfl hM
  | pvcCreate k' =>
    simp only [applyCall, createKey] at h; split at h
    · cases h
    · cases h; exact minv_same rfl hM
  | saCreate k' =>
    simp only [applyCall, createKey] at h; split at h
    · cases h
    · cases h; exact minv_same rfl hM
  | roleCreate k' =>
    simp only [applyCall, createKey] at h; split at h
    · cases h
    · cases h; exact minv_same rfl hM
  | rbCreate k' =>
    simp only [applyCall, createKey] at h; split at h
    · cases h
    · cases h; exact minv_same rfl hM
  | rpcValidate e => simp only [applyCall] at h; cases h; exact minv_same rfl hM
  | rpcValidateES => simp only [applyCall] at h; cases h; exact minv_same rfl hM
  | rpcGetSuggestions e cur total ts consume ok => simp only [applyCall] at h; split at h <;> cases h; exact minv_same rfl hM
  | rpcGetRules e ok => simp only [applyCall] at h; split at h <;> cases h; exact minv_same rfl hM
  | dbGet t => simp only [applyCall] at h; cases h; exact minv_same rfl hM
  | dbDelete t => simp only [applyCall] at h; cases h; exact minv_same rfl hM
  | dbReport t e => simp only [applyCall] at h; split at h <;> cases h <;> exact minv_same rfl hM

/-! ### whole schedules -/

def SInvM (s : Sim) : Prop := MInv s.cur ∧ ∀ (i : Nat) (h : World), s.hist[i]? = some h → MInv h

theorem snap_goodM {s : Sim} (hI : SInvM s) (i : Nat) : MInv (snapAt s i) := by
  unfold snapAt
  cases h : s.hist[i]? with
  | none => exact hI.1
  | some w => exact hI.2 i w h

theorem exec_M {w0 : World} (f : Faults) (p : Prog) (hp : p.All MJust) (hM : MInv w0) : MInv (exec f p w0 0 []).w :=
  exec_preserves (I := MInv) (P := MJust) f (fun _ _ _ hI hc happ => apply_pres_M hI hc happ) p w0 0 [] hp hM

theorem stepWorld_okM {s : Sim} (hI : SInvM s) (op : Op) : MInv (stepWorld s op).1 := by
  have hM := hI.1
  cases op with
  | recExp k' vE vT vS f => exact exec_M f _ (expPlan_mu _ k' s.opIndex) hM
  | recSug k' vS vE vT vD f env => exact exec_M f _ (sugPlan_mu _ k' env s.opIndex) hM
  | recTrial k' vT f =>
    refine exec_M f _ (trialPlan_mu _ k' s.opIndex ?_) hM
    exact snap_goodM hI vT
  | job k' ok => simp only [stepWorld]; split <;> first | exact hM | exact minv_same rfl hM
  | metric t text key nm => simp only [stepWorld]; split <;> exact minv_same rfl hM
  | earlyStop k' =>
    simp only [stepWorld]
    split
    · exact hM
    · split
      · exact hM
      · refine minv_upd _ _ ?_ hM
        intro t ht hmu
        simp only [] at hmu ⊢
        rw [has_append_other _ _ _ (by simp)] at hmu
        rw [has_append_other _ _ _ (by simp)]
        exact ht hmu
  | deployReady k' => simp only [stepWorld]; split <;> first | exact hM | exact minv_same rfl hM
  | editMax k' n => simp only [stepWorld]; split <;> first | exact hM | exact minv_same rfl hM
  | jobGone k' =>
    simp only [stepWorld]
    split
    · exact hM
    · split <;> first | exact hM | exact minv_same rfl hM
  | userDelete k' =>
    simp only [stepWorld]
    split
    · exact hM
    · split
      · exact hM
      · split
        · exact minv_upd _ _ (fun _ ht => ht) hM
        · exact minv_filter _ hM
  | noop => exact hM


theorem step_invM {s : Sim} (hI : SInvM s) (op : Op) : SInvM (step s op).1 := by
  have hW := stepWorld_okM hI op
  unfold step
  refine ⟨hW, ?_⟩
  intro i h hh
  rw [Array.getElem?_push] at hh
  by_cases hi : i = s.hist.size
  · rw [if_pos hi] at hh; cases hh; exact hW
  · rw [if_neg hi] at hh; exact hI.2 i h hh

theorem run_invM (ops : List Op) : ∀ {s : Sim}, SInvM s → SInvM (run s ops) := by
  induction ops with
  | nil => intro s h; exact h
  | cons op r ih => intro s h; exact ih (step_invM h op)

theorem init_invM (es : List ExpInit) : SInvM (Sim.init es) := by
  have hM : MInv (Sim.init es).cur := fun t h => by simp [Sim.init] at h
  refine ⟨hM, ?_⟩
  intro i h hh
  simp only [Sim.init] at hh
  have : h = (Sim.init es).cur := by
    cases i with
    | zero => simp at hh; exact hh.symm
    | succ j => simp at hh
  rw [this]; exact hM

/-- **C06_unavailable_not_running**: over every schedule (no hypothesis), a Trial that is MetricsUnavailable is not Running. -/
theorem C06_unavailable_not_running (es : List ExpInit) (ops : List Op) :
    ∀ t ∈ (run (Sim.init es) ops).cur.trials, tHas t .metricsUnavailable = true → tHas t .running = false :=
  (run_invM ops (init_invM es)).1

end Katib.Ctl
