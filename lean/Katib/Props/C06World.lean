import Katib.Lemmas.Verdict
import Katib.Props.C01World
/-!
# C06 over whole schedules: trial verdicts are permanent, Succeeded excludes EarlyStopped

`C06_permanent`: for **every** list of simulator operations (any reconciles with arbitrarily lagging reads, fault masks,
abort points, any environment events; the only hypothesis is that nobody deletes Trials): every trial of every earlier snapshot
still exists, and every condition other than Running that was True then is True now (Succeeded, Failed, Killed,
EarlyStopped, MetricsUnavailable and Created are never withdrawn); no trial is ever both Succeeded and EarlyStopped.
-/
namespace Katib.Ctl
open Katib Katib.Exp

/-- trial keys are unique (needs no justification of the calls) -/
def KInv (w : World) : Prop := (w.trials.map (·.key)).Nodup

theorem apply_pres_keys {w w' : World} {c : Call} (hK : KInv w) (h : applyCall w c = .ok w') : KInv w' := by
  have same : w'.trials = w.trials → KInv w' := fun e => by unfold KInv; rw [e]; exact hK
  cases c with
  | trialCreate t =>
    simp only [applyCall] at h
    split at h
    · cases h
    · rename_i hnone
      cases h
      unfold KInv
      simp only [List.map_append, List.map_cons, List.map_nil]
      rw [List.nodup_append]
      refine ⟨hK, by simp, ?_⟩
      intro a ha b hb
      simp only [List.mem_singleton] at hb
      subst hb
      intro e
      subst e
      obtain ⟨t0, ht0, e0⟩ := List.mem_map.1 ha
      unfold findTrial at hnone
      have := List.find?_eq_none.1 hnone t0 ht0
      simp [e0] at this
  | trialUpdateFin k' rv fin =>
    simp only [applyCall] at h
    split at h
    · cases h
    · split at h
      · cases h
      · split at h
        · cases h; exact (List.Sublist.map _ List.filter_sublist).nodup hK
        · cases h
          unfold KInv updTrial
          simp only []
          rw [map_key_upd]
          · exact hK
          · intro _; rfl
  | trialStatus k' rv st =>
    simp only [applyCall] at h
    split at h
    · cases h
    · split at h
      · cases h
      · cases h
        unfold KInv updTrial
        simp only []
        rw [map_key_upd]
        · exact hK
        · intro _; rfl
  | trialDelete k' =>
    simp only [applyCall] at h
    split at h
    · cases h
    · split at h
      · cases h
        unfold KInv updTrial
        simp only []
        rw [map_key_upd]
        · exact hK
        · intro _; rfl
      · cases h; exact (List.Sublist.map _ List.filter_sublist).nodup hK
  | expUpdateFin k' rv fin =>
    simp only [applyCall] at h; split at h
    · cases h
    · split at h <;> cases h; exact same (by rfl)
  | expStatus k' rv st =>
    simp only [applyCall] at h; split at h
    · cases h
    · split at h <;> cases h; exact same (by rfl)
  | sugCreate s => simp only [applyCall] at h; split at h <;> cases h; exact same (by rfl)
  | sugUpdateReq k' rv req =>
    simp only [applyCall] at h; split at h
    · cases h
    · split at h <;> cases h; exact same (by rfl)
  | sugStatus k' rv st =>
    simp only [applyCall] at h; split at h
    · cases h
    · split at h <;> cases h; exact same (by rfl)
  | jobCreate k' => simp only [applyCall] at h; split at h <;> cases h; exact same (by rfl)
  | jobDelete k' => simp only [applyCall] at h; split at h <;> cases h; exact same (by rfl)
  | deployCreate k' => simp only [applyCall] at h; split at h <;> cases h; exact same (by rfl)
  | deployDelete k' => simp only [applyCall] at h; split at h <;> cases h; exact same (by rfl)
  | svcCreate k' =>
    simp only [applyCall, createKey] at h; split at h
    · cases h
    · cases h; exact same (by rfl)
  | svcDelete k' => simp only [applyCall] at h; split at h <;> cases h; exact same (by rfl)
  | pvcCreate k' =>
    simp only [applyCall, createKey] at h; split at h
    · cases h
    · cases h; exact same (by rfl)
  | saCreate k' =>
    simp only [applyCall, createKey] at h; split at h
    · cases h
    · cases h; exact same (by rfl)
  | roleCreate k' =>
    simp only [applyCall, createKey] at h; split at h
    · cases h
    · cases h; exact same (by rfl)
  | rbCreate k' =>
    simp only [applyCall, createKey] at h; split at h
    · cases h
    · cases h; exact same (by rfl)
  | rpcValidate e => simp only [applyCall] at h; cases h; exact same (by rfl)
  | rpcValidateES => simp only [applyCall] at h; cases h; exact same (by rfl)
  | rpcGetSuggestions e cur total ts consume ok => simp only [applyCall] at h; split at h <;> cases h; exact same (by rfl)
  | rpcGetRules e ok => simp only [applyCall] at h; split at h <;> cases h; exact same (by rfl)
  | dbGet t => simp only [applyCall] at h; cases h; exact same (by rfl)
  | dbDelete t => simp only [applyCall] at h; cases h; exact same (by rfl)
  | dbReport t e => simp only [applyCall] at h; split at h <;> cases h <;> exact same (by rfl)

theorem exec_keys {w0 : World} (f : Faults) (p : Prog) (hK : KInv w0) : KInv (exec f p w0 0 []).w :=
  exec_preserves (I := KInv) (P := fun _ => True) f (fun _ _ _ hI _ happ => apply_pres_keys hI happ) p w0 0 []
    (Prog.all_of_forall (fun _ => trivial) p) hK

theorem has_append_mono {τ : Type} [DecidableEq τ] (cs : List (Cond τ)) (c : Cond τ) (t : τ) (h : Cond.has cs t = true) :
    Cond.has (cs ++ [c]) t = true := by
  unfold Cond.has at h ⊢
  rw [Cond.get_append_single]
  cases hg : Cond.get cs t with
  | none => rw [hg] at h; cases h
  | some x => rw [hg] at h; exact h

theorem has_append_other {τ : Type} [DecidableEq τ] (cs : List (Cond τ)) (c : Cond τ) (t : τ) (hne : c.ty ≠ t) :
    Cond.has (cs ++ [c]) t = Cond.has cs t := by
  unfold Cond.has
  rw [Cond.get_append_single]
  cases hg : Cond.get cs t with
  | none => simp [hne]
  | some x => rfl

def SInvT (s : Sim) : Prop :=
  (TInv s.cur ∧ KInv s.cur) ∧ ∀ (i : Nat) (h : World), s.hist[i]? = some h → TInv h ∧ TPast h s.cur

theorem snap_goodT {s : Sim} (hI : SInvT s) (i : Nat) : TInv (snapAt s i) ∧ TPast (snapAt s i) s.cur := by
  unfold snapAt
  cases h : s.hist[i]? with
  | none => exact ⟨hI.1.1, TPast.refl _⟩
  | some w => exact hI.2 i w h

theorem stepWorld_okT {s : Sim} (hI : SInvT s) (op : Op) (hop : ∀ k, op ≠ .userDelete k) :
    (TInv (stepWorld s op).1 ∧ KInv (stepWorld s op).1) ∧ TPast s.cur (stepWorld s op).1 := by
  have hW := hI.1.1
  have hK := hI.1.2
  cases op with
  | recExp k' vE vT vS f =>
    have := exec_verdict f _ (expPlan_tjust (assemble s vE vT vS (s.hist.size - 1)) s.cur k' s.opIndex) hW (TPast.refl _)
    exact ⟨⟨this.1, exec_keys f _ hK⟩, this.2⟩
  | recSug k' vS vE vT vD f env =>
    have := exec_verdict f _ (sugPlan_tjust (assemble s vE vT vS vD) s.cur k' env s.opIndex) hW (TPast.refl _)
    exact ⟨⟨this.1, exec_keys f _ hK⟩, this.2⟩
  | recTrial k' vT f =>
    have hT := snap_goodT hI vT
    have := exec_verdict f _ (trialPlan_tjust (assemble s (s.hist.size - 1) vT (s.hist.size - 1) (s.hist.size - 1)) (snapAt s vT) k' s.opIndex rfl hT.1) hW hT.2
    exact ⟨⟨this.1, exec_keys f _ hK⟩, this.2⟩
  | job k' ok =>
    simp only [stepWorld]
    split
    · exact ⟨⟨hW, hK⟩, TPast.refl _⟩
    · have := tframe (w' := { s.cur with jobs := s.cur.jobs.map (fun j => if j.key = k' then { j with state := jobAfter j.state ok } else j) }) hW (by rfl)
      exact ⟨⟨this.1, hK⟩, this.2⟩
  | metric t text key nm =>
    simp only [stepWorld]
    split
    · have := tframe (w := s.cur) (w' := { s.cur with db := _ }) hW (by rfl)
      exact ⟨⟨this.1, hK⟩, this.2⟩
    · have := tframe (w := s.cur) (w' := { s.cur with db := _ }) hW (by rfl)
      exact ⟨⟨this.1, hK⟩, this.2⟩
  | earlyStop k' =>
    simp only [stepWorld]
    split
    · exact ⟨⟨hW, hK⟩, TPast.refl _⟩
    · rename_i t ht
      split
      · exact ⟨⟨hW, hK⟩, TPast.refl _⟩
      · rename_i hcond
        simp only [Bool.or_eq_true, Bool.not_eq_true', not_or, Bool.not_eq_true, Bool.not_eq_false] at hcond
        have hnc : tCompleted t = false := hcond.1
        have htmem := findTrial_mem ht
        have htkey := findTrial_key ht
        have fs := fun k0 => findTrial_updTrial s.cur k0 k'
          (fun t => { t with rv := t.rv + 1, st := { t.st with conds := t.st.conds ++ [{ ty := TCT.earlyStopped, st := true, reason := rTrialES, tt := s.opIndex }] } }) (fun _ => rfl)
        refine ⟨⟨?_, ?_⟩, ?_⟩
        · intro t' ht'
          unfold updTrial at ht'
          obtain ⟨t1, h1, e⟩ := List.mem_map.1 ht'
          subst e
          have h1' := hW t1 h1
          split
          · rename_i hk1
            have ht1 : t1 = t := nodup_map_inj hK h1 htmem (hk1.trans htkey.symm)
            subst ht1
            refine ⟨h1'.1, ?_⟩
            intro hs
            have hs' : tHas t1 .succeeded = true := by
              unfold tHas at hs ⊢
              simp only [] at hs
              rw [has_append_other _ _ _ (by simp)] at hs
              exact hs
            unfold tCompleted at hnc
            rw [hs'] at hnc; simp at hnc
          · exact h1'
        · unfold KInv updTrial
          simp only []
          rw [map_key_upd]
          · exact hK
          · intro _; rfl
        · intro k th hh
          rw [fs, hh]
          refine ⟨_, rfl, ?_⟩
          dsimp only
          split
          · refine ⟨Nat.le_succ _, fun e => absurd e (by simp), rfl, ?_⟩
            intro ct _ hx
            unfold tHas at hx ⊢
            exact has_append_mono _ _ _ hx
          · exact ⟨Nat.le_refl _, fun _ => rfl, rfl, fun _ _ x => x⟩
  | deployReady k' =>
    simp only [stepWorld]
    split
    · exact ⟨⟨hW, hK⟩, TPast.refl _⟩
    · have := tframe (w := s.cur) (w' := { s.cur with deploys := _ }) hW (by rfl)
      exact ⟨⟨this.1, hK⟩, this.2⟩
  | editMax k' n =>
    simp only [stepWorld]
    split
    · exact ⟨⟨hW, hK⟩, TPast.refl _⟩
    · have := tframe (w := s.cur) (w' := updExp s.cur k' (fun e => { e with maxT := some n, rv := e.rv + 1 })) hW (by rfl)
      exact ⟨⟨this.1, hK⟩, this.2⟩
  | jobGone k' =>
    simp only [stepWorld]
    split
    · exact ⟨⟨hW, hK⟩, TPast.refl _⟩
    · split
      · have := tframe (w := s.cur) (w' := { s.cur with jobs := s.cur.jobs.filter (fun j => ¬ j.key = k') }) hW (by rfl)
        exact ⟨⟨this.1, hK⟩, this.2⟩
      · exact ⟨⟨hW, hK⟩, TPast.refl _⟩
  | userDelete k' => exact absurd rfl (hop k')
  | noop => exact ⟨⟨hW, hK⟩, TPast.refl _⟩

theorem step_invT {s : Sim} (hI : SInvT s) (op : Op) (hop : ∀ k, op ≠ .userDelete k) : SInvT (step s op).1 := by
  obtain ⟨hW, hP⟩ := stepWorld_okT hI op hop
  unfold step
  refine ⟨hW, ?_⟩
  intro i h hh
  rw [Array.getElem?_push] at hh
  by_cases hi : i = s.hist.size
  · rw [if_pos hi] at hh
    cases hh; exact ⟨hW.1, TPast.refl _⟩
  · rw [if_neg hi] at hh
    obtain ⟨h1, h2⟩ := hI.2 i h hh
    exact ⟨h1, TPast.trans h2 hP⟩

theorem run_invT (ops : List Op) : ∀ {s : Sim}, SInvT s → (∀ op ∈ ops, ∀ k, op ≠ .userDelete k) → SInvT (run s ops) := by
  induction ops with
  | nil => intro s h _; exact h
  | cons op r ih =>
    intro s h hops
    exact ih (step_invT h op (hops op List.mem_cons_self)) (fun o ho => hops o (List.mem_cons_of_mem _ ho))

theorem init_invT (es : List ExpInit) : SInvT (Sim.init es) := by
  have hW : TInv (Sim.init es).cur ∧ KInv (Sim.init es).cur :=
    ⟨fun t h => by simp [Sim.init] at h, List.nodup_nil⟩
  refine ⟨hW, ?_⟩
  intro i h hh
  simp only [Sim.init] at hh
  have : h = (Sim.init es).cur := by
    cases i with
    | zero => simp at hh; exact hh.symm
    | succ j => simp at hh
  rw [this]
  exact ⟨hW.1, TPast.refl _⟩

/-- **C06_permanent**: over every schedule, terminal conditions are never withdrawn, a trial never disappears, and
    Succeeded excludes EarlyStopped. -/
theorem C06_permanent (es : List ExpInit) (ops : List Op) (hops : ∀ op ∈ ops, ∀ k, op ≠ .userDelete k) :
    let s := run (Sim.init es) ops
    (∀ t ∈ s.cur.trials, tHas t .succeeded = true → tHas t .earlyStopped = false) ∧
    (∀ (i : Nat) (h : World), s.hist[i]? = some h → ∀ k th, findTrial h k = some th →
      ∃ tc, findTrial s.cur k = some tc ∧ ∀ ct, ct ≠ TCT.running → tHas th ct = true → tHas tc ct = true) := by
  intro s
  have hI : SInvT s := run_invT ops (init_invT es) hops
  refine ⟨fun t ht => (hI.1.1 t ht).2, ?_⟩
  intro i h hh k th hth
  obtain ⟨tc, h1, _, _, h4⟩ := (hI.2 i h hh).2 k th hth
  exact ⟨tc, h1, h4.2⟩

end Katib.Ctl
