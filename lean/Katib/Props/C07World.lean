import Katib.Props.C06World
import Katib.Props.C07
/-!
# C07 over whole schedules: a run object disappears only when its Trial is completed

`C07_deleted_only_when_completed`: for every list of simulator operations in which nobody deletes Trials: if the run object
of a Trial existed in some earlier snapshot and does not exist now, then the Trial exists now and carries a terminal
condition; run-object keys are unique at all times.  (That a run object is not *re-created* after completion needs
per-kind monotone caches and stays a plan-level theorem: `C07_run_object_guard`.)
-/
namespace Katib.Ctl
open Katib Katib.Exp

def JInv (w : World) : Prop := (w.jobs.map (·.key)).Nodup

def JPast (h c : World) : Prop :=
  ∀ k, (findJob h k).isSome = true → findJob c k = none → ∃ tc, findTrial c k = some tc ∧ tCompleted tc = true

theorem tCompleted_mono {a b : TrialO} (h : ∀ ct, ct ≠ TCT.running → tHas a ct = true → tHas b ct = true) (ha : tCompleted a = true) :
    tCompleted b = true := by
  unfold tCompleted at ha ⊢
  simp only [Bool.or_eq_true] at ha ⊢
  rcases ha with (((h1 | h1) | h1) | h1) | h1
  · exact Or.inl (Or.inl (Or.inl (Or.inl (h _ (by decide) h1))))
  · exact Or.inl (Or.inl (Or.inl (Or.inr (h _ (by decide) h1))))
  · exact Or.inl (Or.inl (Or.inr (h _ (by decide) h1)))
  · exact Or.inl (Or.inr (h _ (by decide) h1))
  · exact Or.inr (h _ (by decide) h1)

theorem JPast.trans {a b c : World} (hj1 : JPast a b) (hj2 : JPast b c) (ht2 : TPast b c) : JPast a c := by
  intro k hk hnone
  cases hb : findJob b k with
  | none =>
    obtain ⟨tb, h1, h2⟩ := hj1 k hk hb
    obtain ⟨tc, h3, _, _, h4⟩ := ht2 k tb h1
    exact ⟨tc, h3, tCompleted_mono h4.2 h2⟩
  | some j => exact hj2 k (by rw [hb]; rfl) hnone

theorem jobs_same {w w' : World} (e : w'.jobs = w.jobs) : JPast w w' ∧ (JInv w → JInv w') := by
  refine ⟨?_, fun h => by unfold JInv; rw [e]; exact h⟩
  intro k hk hnone
  unfold findJob at hk hnone
  rw [e] at hnone; rw [hnone] at hk; cases hk

/-- what the plans guarantee about run-object deletions, in terms of the store `hT` the Trial was read from -/
def JJust (hT : World) : Call → Prop
  | .jobDelete k => ∃ tv, findTrial hT k = some tv ∧ tCompleted tv = true
  | _ => True

theorem map_jobkey_filter (l : List JobO) (p : JobO → Bool) : ((l.filter p).map (·.key)).Sublist (l.map (·.key)) :=
  List.Sublist.map _ List.filter_sublist

theorem apply_pres_job {hT w w' : World} {c : Call} (hP : TPast hT w) (hJ : JJust hT c) (h : applyCall w c = .ok w') :
    JPast w w' ∧ (JInv w → JInv w') := by
  cases c with
  | jobDelete k' =>
    simp only [applyCall] at h
    split at h
    · cases h
    · cases h
      obtain ⟨tv, htv, hcomp⟩ := hJ
      obtain ⟨tc, htc, _, _, hmono⟩ := hP k' tv htv
      refine ⟨?_, fun hI => (map_jobkey_filter _ _).nodup hI⟩
      intro k hk hnone
      by_cases hkk : k = k'
      · subst hkk
        exact ⟨tc, htc, tCompleted_mono hmono.2 hcomp⟩
      · -- another key: filtering by key k' does not remove it
        exfalso
        unfold findJob at hk hnone
        simp only [] at hnone
        obtain ⟨j, hj⟩ := Option.isSome_iff_exists.1 hk
        have hjmem := List.mem_of_find?_eq_some hj
        have hjk : j.key = k := by simpa using List.find?_some hj
        have := List.find?_eq_none.1 hnone j (List.mem_filter.2 ⟨hjmem, by simp [hjk, hkk]⟩)
        simp [hjk] at this
  | jobCreate k' =>
    simp only [applyCall] at h
    split at h
    · cases h
    · rename_i hnone
      cases h
      refine ⟨?_, ?_⟩
      · intro k hk hn
        exfalso
        unfold findJob at hk hn
        simp only [List.find?_append] at hn
        cases hf : List.find? (fun j => decide (j.key = k)) w.jobs with
        | none => rw [hf] at hk; cases hk
        | some j => rw [hf] at hn; simp at hn
      · intro hI
        unfold JInv
        simp only [List.map_append, List.map_cons, List.map_nil]
        rw [List.nodup_append]
        refine ⟨hI, by simp, ?_⟩
        intro a ha b hb
        simp only [List.mem_singleton] at hb
        subst hb
        intro e
        subst e
        obtain ⟨j0, hj0, e0⟩ := List.mem_map.1 ha
        unfold findJob at hnone
        have := List.find?_eq_none.1 hnone j0 hj0
        simp [e0] at this
  | trialCreate t => simp only [applyCall] at h; split at h <;> cases h; exact jobs_same (by rfl)
  | trialUpdateFin k' rv fin =>
    simp only [applyCall] at h; split at h
    · cases h
    · split at h
      · cases h
      · split at h <;> cases h <;> exact jobs_same (by rfl)
  | trialStatus k' rv st =>
    simp only [applyCall] at h; split at h
    · cases h
    · split at h <;> cases h; exact jobs_same (by rfl)
  | trialDelete k' =>
    simp only [applyCall] at h; split at h
    · cases h
    · split at h <;> cases h <;> exact jobs_same (by rfl)
  | expUpdateFin k' rv fin =>
    simp only [applyCall] at h; split at h
    · cases h
    · split at h <;> cases h; exact jobs_same (by rfl)
  | expStatus k' rv st =>
    simp only [applyCall] at h; split at h
    · cases h
    · split at h <;> cases h; exact jobs_same (by rfl)
  | sugCreate s => simp only [applyCall] at h; split at h <;> cases h; exact jobs_same (by rfl)
  | sugUpdateReq k' rv req =>
    simp only [applyCall] at h; split at h
    · cases h
    · split at h <;> cases h; exact jobs_same (by rfl)
  | sugStatus k' rv st =>
    simp only [applyCall] at h; split at h
    · cases h
    · split at h <;> cases h; exact jobs_same (by rfl)
  | deployCreate k' => simp only [applyCall] at h; split at h <;> cases h; exact jobs_same (by rfl)
  | deployDelete k' => simp only [applyCall] at h; split at h <;> cases h; exact jobs_same (by rfl)
  | svcCreate k' =>
    simp only [applyCall, createKey] at h; split at h
    · cases h
    · cases h; exact jobs_same (by rfl)
  | svcDelete k' => simp only [applyCall] at h; split at h <;> cases h; exact jobs_same (by rfl)
  | pvcCreate k' =>
    simp only [applyCall, createKey] at h; split at h
    · cases h
    · cases h; exact jobs_same (by rfl)
  | saCreate k' =>
    simp only [applyCall, createKey] at h; split at h
    · cases h
    · cases h; exact jobs_same (by rfl)
  | roleCreate k' =>
    simp only [applyCall, createKey] at h; split at h
    · cases h
    · cases h; exact jobs_same (by rfl)
  | rbCreate k' =>
    simp only [applyCall, createKey] at h; split at h
    · cases h
    · cases h; exact jobs_same (by rfl)
  | rpcValidate e => simp only [applyCall] at h; cases h; exact jobs_same (by rfl)
  | rpcValidateES => simp only [applyCall] at h; cases h; exact jobs_same (by rfl)
  | rpcGetSuggestions e cur total ts consume ok => simp only [applyCall] at h; split at h <;> cases h; exact jobs_same (by rfl)
  | rpcGetRules e ok => simp only [applyCall] at h; split at h <;> cases h; exact jobs_same (by rfl)
  | dbGet t => simp only [applyCall] at h; cases h; exact jobs_same (by rfl)
  | dbDelete t => simp only [applyCall] at h; cases h; exact jobs_same (by rfl)
  | dbReport t e => simp only [applyCall] at h; split at h <;> cases h <;> exact jobs_same (by rfl)

/-- execution of a plan whose Trial calls and run-object deletions are justified by the store `hT` -/
theorem exec_jobs {hT w0 : World} (f : Faults) (p : Prog) (hp : p.All (fun c => TJust hT c ∧ JJust hT c))
    (hW : TInv w0) (hP : TPast hT w0) (hJ : JInv w0) :
    (TInv (exec f p w0 0 []).w ∧ TPast w0 (exec f p w0 0 []).w) ∧ JPast w0 (exec f p w0 0 []).w ∧ JInv (exec f p w0 0 []).w := by
  have := exec_preserves (I := fun w => (TInv w ∧ TPast w0 w) ∧ JPast w0 w ∧ JInv w) (P := fun c => TJust hT c ∧ JJust hT c) f
    (by
      intro w c w' hI hc happ
      obtain ⟨⟨i1, i2⟩, i3, i4⟩ := hI
      obtain ⟨h1, h2⟩ := apply_pres_trial i1 (TPast.trans hP i2) hc.1 happ
      obtain ⟨h3, h4⟩ := apply_pres_job (TPast.trans hP i2) hc.2 happ
      exact ⟨⟨h1, TPast.trans i2 h2⟩, JPast.trans i3 h3 h2, h4 i4⟩)
    p w0 0 [] hp ⟨⟨hW, TPast.refl w0⟩, (fun k hk hn => by rw [hn] at hk; cases hk), hJ⟩
  exact this

/-! ### only the trial plan deletes run objects, and only for a completed Trial -/

def JobDel (t : TrialO) : Call → Prop
  | .jobDelete k => k = t.key ∧ tCompleted t = true
  | _ => True

def NoJobDel : Call → Prop
  | .jobDelete _ => False
  | _ => True

theorem nojd_trialFinish (t : TrialO) (st : TrialSt) : (trialFinish t st).All NoJobDel := by
  unfold trialFinish; split
  · trivial
  · exact ⟨trivial, trivial, trivial⟩

theorem nojd_trialUpdateCondition (t : TrialO) (st : TrialSt) (js : JobCond) (now : Nat) : (trialUpdateCondition t st js now).All NoJobDel := by
  unfold trialUpdateCondition
  simp only []
  repeat' first
    | exact nojd_trialFinish _ _
    | split
    | (refine ⟨trivial, ?_, ?_⟩)
    | trivial

theorem nojd_trialObserve (v : World) (t : TrialO) (js : JobCond) (now : Nat) : (trialObserve v t js now).All NoJobDel := by
  unfold trialObserve
  simp only []
  repeat' first
    | exact nojd_trialUpdateCondition _ _ _ _
    | split
    | (refine ⟨trivial, ?_, ?_⟩)
    | trivial

theorem nojd_trialAfterJob (v : World) (t : TrialO) (state : JobState) (now : Nat) : (trialAfterJob v t state now).All NoJobDel := by
  unfold trialAfterJob
  repeat' first
    | exact nojd_trialFinish _ _
    | exact nojd_trialObserve _ _ _ _
    | split
    | trivial

theorem nojd_jobdel (t : TrialO) {p : Prog} (h : p.All NoJobDel) : p.All (JobDel t) :=
  h.mono (fun c hc => by cases c <;> first | trivial | exact absurd hc id)

theorem trialPlan_jobdel (v : World) (k : Key2) (now : Nat) (t : TrialO) (ht : findTrial v k = some t) : (trialPlan v k now).All (JobDel t) := by
  have hkey : t.key = k := findTrial_key ht
  unfold trialPlan
  rw [ht]
  simp only []
  split
  · exact ⟨trivial, trivial, trivial⟩
  · split
    · exact ⟨trivial, ⟨trivial, trivial, trivial⟩, trivial⟩
    · split
      · exact nojd_jobdel t (nojd_trialFinish _ _)
      · split
        · split
          · exact nojd_jobdel t (nojd_trialFinish _ _)
          · exact ⟨trivial, nojd_jobdel t (nojd_trialAfterJob v t .running now), trivial⟩
        · split
          · rename_i hc
            simp only [Bool.and_eq_true] at hc
            exact ⟨⟨hkey.symm, hc.1⟩, trivial, trivial⟩
          · exact nojd_jobdel t (nojd_trialAfterJob v t _ now)

theorem trialPlan_jjust (v hT : World) (k : Key2) (now : Nat) (htr : v.trials = hT.trials) : (trialPlan v k now).All (JJust hT) := by
  cases ht : findTrial v k with
  | none => unfold trialPlan; rw [ht]; trivial
  | some t =>
    refine (trialPlan_jobdel v k now t ht).mono ?_
    intro c hc
    cases c with
    | jobDelete k' =>
      obtain ⟨h1, h2⟩ := hc
      have hkey : t.key = k := findTrial_key ht
      exact ⟨t, by rw [← findTrial_congr htr, h1, hkey]; exact ht, h2⟩
    | _ => trivial

theorem expPlan_jjust (v hT : World) (k : Key2) (now : Nat) : (expPlan v k now).All (JJust hT) := by
  cases he : findExp v k with
  | none => unfold expPlan; rw [he]; trivial
  | some e =>
    refine (expPlan_guard v k now e he).mono ?_
    intro c hc
    cases c with
    | jobDelete _ => exact absurd hc id
    | _ => trivial

theorem sugPlan_jjust (v hT : World) (k : Key2) (env : SugEnv) (now : Nat) : (sugPlan v k env now).All (JJust hT) := by
  cases hs : findSug v k with
  | none => unfold sugPlan; rw [hs]; trivial
  | some s =>
    refine (sugPlan_target v k env now s hs).mono ?_
    intro c hc
    cases c with
    | jobDelete _ => exact absurd hc id
    | _ => trivial

/-! ### whole schedules -/

def SInvJ (s : Sim) : Prop :=
  (TInv s.cur ∧ KInv s.cur ∧ JInv s.cur) ∧
  ∀ (i : Nat) (h : World), s.hist[i]? = some h → TInv h ∧ TPast h s.cur ∧ JPast h s.cur

theorem stepWorld_okJ {s : Sim} (hI : SInvJ s) (op : Op) (hop : ∀ k, op ≠ .userDelete k) :
    (TInv (stepWorld s op).1 ∧ KInv (stepWorld s op).1 ∧ JInv (stepWorld s op).1) ∧
    TPast s.cur (stepWorld s op).1 ∧ JPast s.cur (stepWorld s op).1 := by
  have hT : SInvT s := ⟨⟨hI.1.1, hI.1.2.1⟩, fun i h hh => ⟨(hI.2 i h hh).1, (hI.2 i h hh).2.1⟩⟩
  obtain ⟨⟨t1, t2⟩, t3⟩ := stepWorld_okT hT op hop
  have hJ := hI.1.2.2
  have hW := hI.1.1
  have same : (stepWorld s op).1.jobs = s.cur.jobs → JPast s.cur (stepWorld s op).1 ∧ JInv (stepWorld s op).1 :=
    fun e => ⟨(jobs_same e).1, (jobs_same e).2 hJ⟩
  cases op with
  | recExp k' vE vT vS f =>
    have := exec_jobs f _ (Prog.All.and (expPlan_tjust (assemble s vE vT vS (s.hist.size - 1)) s.cur k' s.opIndex)
      (expPlan_jjust (assemble s vE vT vS (s.hist.size - 1)) s.cur k' s.opIndex)) hW (TPast.refl _) hJ
    exact ⟨⟨t1, t2, this.2.2⟩, t3, this.2.1⟩
  | recSug k' vS vE vT vD f env =>
    have := exec_jobs f _ (Prog.All.and (sugPlan_tjust (assemble s vE vT vS vD) s.cur k' env s.opIndex)
      (sugPlan_jjust (assemble s vE vT vS vD) s.cur k' env s.opIndex)) hW (TPast.refl _) hJ
    exact ⟨⟨t1, t2, this.2.2⟩, t3, this.2.1⟩
  | recTrial k' vT f =>
    have hS := snap_goodT hT vT
    have := exec_jobs f _ (Prog.All.and
      (trialPlan_tjust (assemble s (s.hist.size - 1) vT (s.hist.size - 1) (s.hist.size - 1)) (snapAt s vT) k' s.opIndex rfl hS.1)
      (trialPlan_jjust (assemble s (s.hist.size - 1) vT (s.hist.size - 1) (s.hist.size - 1)) (snapAt s vT) k' s.opIndex rfl)) hW hS.2 hJ
    exact ⟨⟨t1, t2, this.2.2⟩, t3, this.2.1⟩
  | job k' ok =>
    refine ⟨⟨t1, t2, ?_⟩, t3, ?_⟩
    · simp only [stepWorld]
      split
      · exact hJ
      · unfold JInv
        simp only []
        rw [List.map_map]
        have : ((fun x : JobO => x.key) ∘ fun j : JobO => if j.key = k' then { j with state := jobAfter j.state ok } else j) = (fun x => x.key) := by
          funext j; simp only [Function.comp]; split <;> rfl
        rw [this]; exact hJ
    · simp only [stepWorld]
      split
      · intro k hk hn; rw [hn] at hk; cases hk
      · intro k hk hn
        exfalso
        unfold findJob at hk hn
        simp only [] at hn
        rw [find?_map_upd (·.key) s.cur.jobs k k' (fun j => { j with state := jobAfter j.state ok }) (fun _ => rfl)] at hn
        cases hf : List.find? (fun x => decide (x.key = k)) s.cur.jobs with
        | none => rw [hf] at hk; cases hk
        | some j => rw [hf] at hn; cases hn
  | metric t text key nm =>
    have : (stepWorld s (.metric t text key nm)).1.jobs = s.cur.jobs := by simp only [stepWorld]; split <;> rfl
    exact ⟨⟨t1, t2, (same this).2⟩, t3, (same this).1⟩
  | earlyStop k' =>
    have : (stepWorld s (.earlyStop k')).1.jobs = s.cur.jobs := by
      simp only [stepWorld]; split
      · rfl
      · split <;> rfl
    exact ⟨⟨t1, t2, (same this).2⟩, t3, (same this).1⟩
  | deployReady k' =>
    have : (stepWorld s (.deployReady k')).1.jobs = s.cur.jobs := by simp only [stepWorld]; split <;> rfl
    exact ⟨⟨t1, t2, (same this).2⟩, t3, (same this).1⟩
  | editMax k' n =>
    have : (stepWorld s (.editMax k' n)).1.jobs = s.cur.jobs := by simp only [stepWorld]; split <;> rfl
    exact ⟨⟨t1, t2, (same this).2⟩, t3, (same this).1⟩
  | jobGone k' =>
    refine ⟨⟨t1, t2, ?_⟩, t3, ?_⟩
    · simp only [stepWorld]
      split
      · exact hJ
      · split
        · exact (map_jobkey_filter _ _).nodup hJ
        · exact hJ
    · simp only [stepWorld]
      split
      · intro k hk hn; rw [hn] at hk; cases hk
      · rename_i t ht
        split
        · rename_i hc
          simp only [Bool.and_eq_true] at hc
          intro k hk hnone
          by_cases hkk : k = k'
          · subst hkk
            exact ⟨t, ht, hc.1⟩
          · exfalso
            unfold findJob at hk hnone
            simp only [] at hnone
            obtain ⟨j, hj⟩ := Option.isSome_iff_exists.1 hk
            have hjmem := List.mem_of_find?_eq_some hj
            have hjk : j.key = k := by simpa using List.find?_some hj
            have := List.find?_eq_none.1 hnone j (List.mem_filter.2 ⟨hjmem, by simp [hjk, hkk]⟩)
            simp [hjk] at this
        · intro k hk hn; rw [hn] at hk; cases hk
  | userDelete k' => exact absurd rfl (hop k')
  | noop => exact ⟨⟨t1, t2, hJ⟩, t3, fun k hk hn => by rw [show findJob (stepWorld s .noop).1 k = findJob s.cur k from rfl] at hn; rw [hn] at hk; cases hk⟩

theorem step_invJ {s : Sim} (hI : SInvJ s) (op : Op) (hop : ∀ k, op ≠ .userDelete k) : SInvJ (step s op).1 := by
  obtain ⟨hW, hP, hJ⟩ := stepWorld_okJ hI op hop
  unfold step
  refine ⟨hW, ?_⟩
  intro i h hh
  rw [Array.getElem?_push] at hh
  by_cases hi : i = s.hist.size
  · rw [if_pos hi] at hh
    cases hh; exact ⟨hW.1, TPast.refl _, (fun k hk hn => by rw [hn] at hk; cases hk)⟩
  · rw [if_neg hi] at hh
    obtain ⟨h1, h2, h3⟩ := hI.2 i h hh
    exact ⟨h1, TPast.trans h2 hP, JPast.trans h3 hJ hP⟩

theorem run_invJ (ops : List Op) : ∀ {s : Sim}, SInvJ s → (∀ op ∈ ops, ∀ k, op ≠ .userDelete k) → SInvJ (run s ops) := by
  induction ops with
  | nil => intro s h _; exact h
  | cons op r ih =>
    intro s h hops
    exact ih (step_invJ h op (hops op List.mem_cons_self)) (fun o ho => hops o (List.mem_cons_of_mem _ ho))

theorem init_invJ (es : List ExpInit) : SInvJ (Sim.init es) := by
  have hW : TInv (Sim.init es).cur ∧ KInv (Sim.init es).cur ∧ JInv (Sim.init es).cur :=
    ⟨fun t h => by simp [Sim.init] at h, List.nodup_nil, List.nodup_nil⟩
  refine ⟨hW, ?_⟩
  intro i h hh
  simp only [Sim.init] at hh
  have : h = (Sim.init es).cur := by
    cases i with
    | zero => simp at hh; exact hh.symm
    | succ j => simp at hh
  rw [this]
  exact ⟨hW.1, TPast.refl _, (fun k hk hn => by rw [hn] at hk; cases hk)⟩

/-- **C07_deleted_only_when_completed**: over every schedule a Trial's run object that existed and is gone belongs to a
    Trial that is completed; a Trial has at most one run object at any time (run objects are keyed by the Trial's key and the
    keys are unique). -/
theorem C07_deleted_only_when_completed (es : List ExpInit) (ops : List Op) (hops : ∀ op ∈ ops, ∀ k, op ≠ .userDelete k) :
    let s := run (Sim.init es) ops
    (s.cur.jobs.map (·.key)).Nodup ∧
    (∀ (i : Nat) (h : World), s.hist[i]? = some h → ∀ k, (findJob h k).isSome = true → findJob s.cur k = none →
      ∃ tc, findTrial s.cur k = some tc ∧ tCompleted tc = true) := by
  intro s
  have hI : SInvJ s := run_invJ ops (init_invJ es) hops
  exact ⟨hI.1.2.2, fun i h hh => (hI.2 i h hh).2.2⟩

end Katib.Ctl

namespace Katib.Ctl
open Katib Katib.Exp

/-- C07_release_cleans_db: run the trial reconcile of a Trial that is under deletion and still holds the finalizer, from any
    (possibly stale) view `v`, against any store `w`, under any fault mask and abort point.  Afterwards either no Trial object
    was touched at all (the finalizer is still there), or the metrics database holds no row of that Trial: the finalizer is
    never released, and the Trial never disappears, while its observation log remains. -/
theorem C07_release_cleans_db (v w : World) (k : Key2) (now : Nat) (f : Faults) (i : Nat) (log : List String) (t : TrialO)
    (ht : findTrial v k = some t) (hd : t.deleted = true) (hf : t.fin = true) :
    let o := exec f (trialPlan v k now) w i log
    o.w.trials = w.trials ∨ (o.w.db.any (fun p => p.1 = k.name) = false) := by
  intro o
  have hp := C07_db_before_finalizer v k now t ht hd hf
  simp only [o, hp, exec]
  split
  · left; rfl
  · simp only [applyCall]
    split
    · left; rfl
    · split
      · rename_i w' hw
        right
        have hdb : w'.db = w.db.filter (fun p => ¬ p.1 = k.name) := by
          revert hw
          split
          · intro h; cases h
          · split
            · intro h; cases h
            · split
              · intro h; cases h; rfl
              · intro h; cases h; rfl
        rw [hdb]
        simp [List.any_filter]
      · left; rfl

/-- Non-vacuity of `C07_release_cleans_db`: with no fault the Trial goes away and its two rows with it; with the database
    call failing the Trial (and its finalizer) stay. -/
example :
    let t : TrialO := { key := ⟨"ns", "t1"⟩, exp := "e", fin := true, deleted := true, retain := false, push := false, objType := .maximize, rv := 3 }
    let w : World := { trials := [t], db := [("t1", []), ("t2", [])] }
    ((exec {} (trialPlan w t.key 0) w 0 []).w.trials = [] ∧ (exec {} (trialPlan w t.key 0) w 0 []).w.db = [("t2", [])]) ∧
    ((exec { mask := 1 } (trialPlan w t.key 0) w 0 []).w.trials = [t] ∧ (exec { mask := 1 } (trialPlan w t.key 0) w 0 []).w.db = w.db) := by
  decide

end Katib.Ctl

namespace Katib.Ctl
open Katib Katib.Exp

def rcBefore : TrialO :=
  { key := ⟨"ns", "t1"⟩, exp := "e", fin := true, retain := true, push := false, objType := .maximize, rv := 4,
    st := { conds := [⟨.created, true, rTrialCreated, 1⟩, ⟨.running, true, rTrialRunning, 2⟩], started := true } }
def rcAfter : TrialO :=
  { rcBefore with
    rv := 5,
    st := { rcBefore.st with
            conds := [⟨.created, true, rTrialCreated, 1⟩, ⟨.running, false, rTrialRunning, 3⟩, ⟨.succeeded, true, rTrialSucceeded, 3⟩] } }

/-- `C07_recreate_counterexample` (known finding): the live Trial is Succeeded and its run object has been removed by
    someone else; a trial reconcile that still reads the Trial copy from before the completion (a lagging cache; the job
    lookup is live) creates the run object again — for a Trial that is completed.  "Never creates one for a completed
    Trial" therefore holds only for reconciles that read the live Trial (`C07_run_object_guard`: the *viewed* Trial is
    not completed). -/
theorem C07_recreate_counterexample :
    let k : Key2 := ⟨"ns", "t1"⟩
    let view : World := { trials := [rcBefore] }     -- what the cache serves; the job lookup is live: no run object
    let live : World := { trials := [rcAfter] }
    tCompleted rcAfter = true ∧ (findJob live k).isNone = true ∧
    (findJob (exec {} (trialPlan view k 9) live 0 []).w k).isSome = true := by
  decide

end Katib.Ctl
