import Katib.Model.Admission
/-!
# C14 — Admission soundness: an admitted Experiment can actually run

Theorems about `Katib.Adm.validate ∘ Exp.setDefault` (model of the defaulting + validating webhooks for creation) for every
Experiment skeleton and every value of the engine oracles, and about the derived resource names for every name.
Known findings (see known_findings.json) are stated as counterexample theorems; the positive template theorem is
`…_partial` because it excludes exactly their regions.
-/
namespace Katib.Adm
open Katib

/-! ### names -/

theorem tailOk_append (r a : List Char) (hr : r.all labelChar = true) (ha : a ≠ []) (hta : tailOk a = true) :
    tailOk (r ++ '-' :: a) = true := by
  unfold tailOk at *
  simp only [Bool.and_eq_true] at hta ⊢
  refine ⟨?_, ?_⟩
  · simp only [List.all_append, List.all_cons, Bool.and_eq_true]
    exact ⟨hr, by decide, hta.1⟩
  · have hl : (r ++ '-' :: a).getLast? = a.getLast? := by
      rw [List.getLast?_append, List.getLast?_cons_of_ne_nil ha]
      cases h : a.getLast? with
      | none => exact absurd (List.getLast?_eq_none_iff.1 h) ha
      | some x => rfl
    rw [hl]; exact hta.2

theorem tailOk_all (r : List Char) (h : tailOk r = true) : r.all labelChar = true := by
  unfold tailOk at h; simp only [Bool.and_eq_true] at h; exact h.1

/-- C14_names: an admitted Experiment name and an algorithm name of the legal shape give an RFC 1035 label
    `<name>-<algorithm>` — a legal Service, Deployment, PVC and RBAC name. -/
theorem C14_names (n a : List Char) (hn : nameAdmitted n = true) (ha : algoOk a = true) :
    dns1035 (suggestionName n a) = true := by
  unfold nameAdmitted at hn; unfold algoOk at ha; unfold dns1035 suggestionName
  simp only [Bool.and_eq_true, decide_eq_true_eq, Bool.not_eq_true', List.isEmpty_eq_false_iff] at hn ha ⊢
  obtain ⟨hre, hlen⟩ := hn
  obtain ⟨⟨hne, hta⟩, halen⟩ := ha
  cases n with
  | nil => simp [nameRe] at hre
  | cons c r =>
    simp only [nameRe, Bool.and_eq_true] at hre
    refine ⟨?_, ?_⟩
    · show nameRe (c :: (r ++ '-' :: a)) = true
      simp only [nameRe, Bool.and_eq_true]
      exact ⟨hre.1, tailOk_append r a (tailOk_all r hre.2) hne hta⟩
    · simp only [List.length_append, List.length_cons] at hlen ⊢; omega

/-- C14_trial_names: `<name>-<suffix>` with a non-empty suffix of at most 22 lower-case alphanumerics (the generator uses 8)
    is an RFC 1123 label: a legal Trial / Job name and label value. -/
theorem C14_trial_names (n sfx : List Char) (hn : nameAdmitted n = true) (hs : sfx ≠ []) (hall : sfx.all alnum = true) (hl : sfx.length ≤ 22) :
    dns1123Label (trialName n sfx) = true := by
  have hta : tailOk sfx = true := by
    unfold tailOk
    simp only [Bool.and_eq_true]
    refine ⟨?_, ?_⟩
    · rw [List.all_eq_true] at hall ⊢
      intro x hx; simp [labelChar, hall x hx]
    · cases h : sfx.getLast? with
      | none => rfl
      | some l =>
        have : l ∈ sfx := List.mem_of_getLast? h
        exact List.all_eq_true.1 hall l this
  unfold nameAdmitted at hn; unfold trialName
  simp only [Bool.and_eq_true, decide_eq_true_eq] at hn
  cases n with
  | nil => simp [nameRe] at hn
  | cons c r =>
    simp only [nameRe, Bool.and_eq_true] at hn
    show dns1123Label (c :: (r ++ '-' :: sfx)) = true
    simp only [dns1123Label, Bool.and_eq_true, decide_eq_true_eq]
    refine ⟨⟨?_, tailOk_append r sfx (tailOk_all r hn.1.2) hs hta⟩, ?_⟩
    · simp [alnum, hn.1.1]
    · simp only [List.length_append, List.length_cons] at hn ⊢; omega

/-- the unrepaired rule: without the end anchor `a.b` was admitted; with it, a name with a dot is not -/
example : nameAdmitted "a.b".toList = false ∧ nameAdmitted "my-exp-1".toList = true ∧ nameAdmitted "exp-".toList = false := by decide

/-- known finding C14-algorithm-name-unconstrained: katib-config may name an algorithm so that the derived name is illegal -/
theorem C14_algorithm_name_counterexample :
    nameAdmitted "exp".toList = true ∧ dns1035 (suggestionName "exp".toList "My_Algo".toList) = false ∧
    dns1035 (suggestionName "a234567890123456789012345678901234567890".toList "a-very-long-algorithm-name-for-katib".toList) = false := by decide

/-! ### budget -/

/-- C14_budget: after defaulting, an Experiment without budget errors runs at least one Trial at a time, has a positive
    trial budget (when bounded) that the parallelism and the failure budget respect, and a non-negative failure budget. -/
theorem not_of_ite_nil {c : Prop} [Decidable c] {x : String} (h : (if c then [x] else []) = []) : ¬ c := by
  intro hc; simp [hc] at h

theorem C14_budget (b : Budget) (h : budgetErrs b.setDefault = []) :
    ∃ p, b.setDefault.parallel = some p ∧ 1 ≤ p ∧
      (∀ m, b.max = some m → 1 ≤ m ∧ p ≤ m) ∧
      (∀ f, b.maxFailed = some f → 0 ≤ f ∧ ∀ m, b.max = some m → f ≤ m) := by
  obtain ⟨mx, par, mf⟩ := b
  refine ⟨par.getD defaultParallel, rfl, ?_⟩
  simp only [Budget.setDefault, budgetErrs, List.append_eq_nil_iff] at h
  obtain ⟨⟨⟨⟨h1, h2⟩, h3⟩, h4⟩, h5⟩ := h
  generalize par.getD defaultParallel = p at *
  have hp := not_of_ite_nil h3
  refine ⟨by omega, ?_, ?_⟩
  · intro m hm
    subst hm
    simp only [] at h2 h5
    have := not_of_ite_nil h2
    have := not_of_ite_nil h5
    omega
  · intro f hf
    subst hf
    simp only [] at h1
    have := not_of_ite_nil h1
    refine ⟨by omega, ?_⟩
    intro m hm
    subst hm
    simp only [] at h4
    have := not_of_ite_nil h4
    omega

example : budgetErrs ({ max := some 6, parallel := none, maxFailed := some 3 } : Budget).setDefault = [] := by decide
example : budgetErrs ({ max := some 2, parallel := none, maxFailed := none } : Budget).setDefault ≠ [] := by decide

/-! ### crash freedom and pointers -/

/-- the defaulter leaves the collector set and, per kind, the source pointers the validator and the sidecar webhook dereference -/
theorem setDefaultMC_pointers (m : Option MC) :
    ∃ col, (setDefaultMC m).collector = some col ∧
      (col.kind = "File" ∨ col.kind = "TensorFlowEvent" → ∃ s f, (setDefaultMC m).source = some s ∧ s.fsp = some f) ∧
      (col.kind = "PrometheusMetric" → ∃ s h, (setDefaultMC m).source = some s ∧ s.httpGet = some h) := by
  unfold setDefaultMC
  simp only []
  split
  · rename_i hk
    exact ⟨_, rfl, fun h => by rcases h with h | h <;> rw [hk] at h <;> exact absurd h (by decide), fun _ => ⟨_, _, rfl, rfl⟩⟩
  · split
    · rename_i hk1 hk
      exact ⟨_, rfl, fun _ => ⟨_, _, rfl, rfl⟩, fun h => absurd h hk1⟩
    · split
      · rename_i hk1 hk2 hk
        exact ⟨_, rfl, fun _ => ⟨_, _, rfl, rfl⟩, fun h => absurd h hk1⟩
      · rename_i hk1 hk2 hk3
        exact ⟨_, rfl, fun h => by rcases h with h | h; exact absurd h hk2; exact absurd h hk3, fun h => absurd h hk1⟩

/-- C14_no_crash (collector part): validating a defaulted metrics-collector spec never dereferences nil, whatever its content -/
theorem validateMC_default_no_crash (m : Option MC) (known : Bool) : validateMC (some (setDefaultMC m)) known ≠ .crash := by
  obtain ⟨col, hcol, hfs, hprom⟩ := setDefaultMC_pointers m
  unfold validateMC
  simp only [hcol]
  split
  · intro h; cases h
  · split
    · rename_i hk
      obtain ⟨s, f, hs, hf⟩ := hfs (Or.inl hk)
      simp only [hs, hf]; intro h; cases h
    · split
      · rename_i hk
        obtain ⟨s, f, hs, hf⟩ := hfs (Or.inr hk)
        simp only [hs, hf]; intro h; cases h
      · split
        · rename_i hk
          obtain ⟨s, hh, hs, hht⟩ := hprom hk
          simp only [hs, hht]; intro h; cases h
        · split <;> (intro h; cases h)

/-- C14_no_crash: validation of a defaulted Experiment never crashes, whatever its content and whatever the engines answer -/
theorem C14_no_crash (e : Exp) : validate e.setDefault ≠ .crash := by
  unfold validate
  simp only [Exp.setDefault]
  split
  · intro h; cases h
  · split
    · intro h; cases h
    · have := validateMC_default_no_crash e.mc e.mcCfgKnown
      split
      · rename_i hc; exact absurd hc this
      · intro h; cases h

/-- without the defaulter the validator does crash (a Prometheus collector without `httpGet`): the defaulter is load-bearing -/
example : validateMC (some { collector := some { kind := "PrometheusMetric", custom := false }, source := none }) true = .crash := by decide

theorem errs_append_nil {a b : List String} (h : a ++ b = []) : a = [] ∧ b = [] := List.append_eq_nil_iff.1 h

/-- C14_pointers: an admitted Experiment has every object the controllers dereference: objective, algorithm, trial template with
    its trial parameters and exactly one source, the parallel trial count, the collector and its kind-specific source;
    a custom collector has its container. -/
theorem C14_pointers (e : Exp) (h : validate e.setDefault = .errs []) :
    e.objective.isSome ∧ e.algorithm.isSome ∧ e.setDefault.budget.parallel.isSome ∧
    (∃ t tps, e.setDefault.template = some t ∧ t.tparams = some tps ∧ (t.hasSpec ≠ t.hasCM) ∧ t.primary ≠ "" ∧ t.success ≠ "" ∧ t.failure ≠ "") ∧
    (∃ col, (setDefaultMC e.mc).collector = some col ∧ (col.kind = "Custom" → col.custom = true)) := by
  unfold validate at h
  simp only [Exp.setDefault] at h ⊢
  cases ho : e.objective with
  | none => simp [ho, objectiveErrs] at h
  | some o =>
    simp only [ho] at h
    split at h
    · rename_i hne
      simp only [Outcome.errs.injEq, List.append_eq_nil_iff] at h
      exact absurd h.2 hne
    · cases hmc : validateMC (some (setDefaultMC e.mc)) e.mcCfgKnown with
      | crash => simp [hmc] at h
      | errs l =>
        simp only [hmc, Outcome.errs.injEq, List.append_eq_nil_iff] at h
        obtain ⟨⟨⟨⟨⟨⟨⟨⟨_, halg⟩, _⟩, _⟩, htpl⟩, _⟩, _⟩, _⟩, hl⟩ := h
        refine ⟨rfl, ?_, rfl, ?_, ?_⟩
        · cases ha : e.algorithm with
          | none => simp [ha, algorithmErrs] at halg
          | some _ => rfl
        · cases ht : e.template with
          | none => simp [ht, templateErrs] at htpl
          | some t =>
            simp only [ht, Option.map_some, templateErrs, List.append_eq_nil_iff] at htpl
            obtain ⟨⟨hp, hsf⟩, htail⟩ := htpl
            have hp := not_of_ite_nil hp
            have hsf := not_of_ite_nil hsf
            cases htp : (Tmpl.setDefault t).tparams with
            | none => simp [htp] at htail
            | some tps =>
              simp only [htp] at htail
              refine ⟨_, tps, rfl, htp, ?_, hp, fun h => hsf (Or.inl h), fun h => hsf (Or.inr h)⟩
              intro heq
              unfold templateTail at htail
              cases hs : (Tmpl.setDefault t).hasSpec <;> rw [hs] at heq <;> simp [hs, ← heq] at htail
        · subst hl
          obtain ⟨col, hcol, _, _⟩ := setDefaultMC_pointers e.mc
          refine ⟨col, hcol, ?_⟩
          intro hk
          unfold validateMC at hmc
          simp only [hcol, hk] at hmc
          simp only [show ¬("Custom" = "Push" ∨ "Custom" = "StdOut") by decide, show ¬("Custom" = "File") by decide,
            show ¬("Custom" = "TensorFlowEvent") by decide, show ¬("Custom" = "PrometheusMetric") by decide, if_false, if_true] at hmc
          cases hc : col.custom with
          | true => rfl
          | false => simp [hc] at hmc

end Katib.Adm
