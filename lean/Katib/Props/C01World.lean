import Katib.Lemmas.BudgetPlans
/-!
# C01 / C08 over whole schedules of the controller model

`C01_total`: for **every** list of simulator operations — reconciles of the three controllers in any order, each reading
every typed kind from an arbitrary earlier snapshot (independently lagging caches), under any fault mask and abort point,
interleaved with any environment events — an experiment with `maxTrialCount = m` that nobody edits never has more than `m`
trials, its suggestion never holds more than `m` assignments nor asks for more, every trial is named by an assignment, and
the assignment list only ever grows by appending (so the bound covers every trial that *ever* existed).
-/
namespace Katib.Ctl
open Katib Katib.Exp

/-- the invariant of the simulator state: the live store and every snapshot satisfy `WInv`, and every snapshot is in the
    past of the live store -/
def SInv (k : Key2) (m : Int) (s : Sim) : Prop :=
  (WInv k m s.cur ∧ ∃ p, XInv k (some m) p s.cur) ∧
  ∀ (i : Nat) (h : World), s.hist[i]? = some h → (WInv k m h ∧ ∃ p, XInv k (some m) p h) ∧ Past k h s.cur

theorem snap_good {k : Key2} {m : Int} {s : Sim} (hI : SInv k m s) (i : Nat) :
    (WInv k m (snapAt s i) ∧ ∃ p, XInv k (some m) p (snapAt s i)) ∧ Past k (snapAt s i) s.cur := by
  unfold snapAt
  cases h : s.hist[i]? with
  | none => exact ⟨hI.1, Past.refl k _⟩
  | some w => exact hI.2 i w h

theorem findExp_assemble (s : Sim) (vE vT vS vD : Nat) (k : Key2) : findExp (assemble s vE vT vS vD) k = findExp (snapAt s vE) k := rfl
theorem trialsOf_assemble (s : Sim) (vE vT vS vD : Nat) (k : Key2) : trialsOf (assemble s vE vT vS vD) k = trialsOf (snapAt s vT) k := rfl

/-- what one operation does to the live store -/
theorem stepWorld_ok {k : Key2} {m : Int} (hm : 0 ≤ m) {s : Sim} (hI : SInv k m s) (op : Op) (hop : ∀ n, op ≠ .editMax k n) :
    (WInv k m (stepWorld s op).1 ∧ ∃ p, XInv k (some m) p (stepWorld s op).1) ∧ Past k s.cur (stepWorld s op).1 := by
  obtain ⟨hW, p, hX⟩ := hI.1
  have sameX : ∀ w' : World, w'.exps = s.cur.exps → ∃ p, XInv k (some m) p w' := fun w' e =>
    ⟨p, fun e0 he => by unfold findExp at he; rw [e] at he; exact hX e0 he⟩
  have fr : ∀ w' : World, w'.trials = s.cur.trials → w'.sugs = s.cur.sugs → w'.exps = s.cur.exps →
      (WInv k m w' ∧ ∃ p, XInv k (some m) p w') ∧ Past k s.cur w' :=
    fun w' a b c => ⟨⟨(frame hW a b c).1, sameX w' c⟩, (frame hW a b c).2⟩
  cases op with
  | recExp k' vE vT vS f =>
    have hS := snap_good hI vS
    have hE := snap_good hI vE
    have hT := snap_good hI vT
    obtain ⟨pE, hXE⟩ := hE.1.2
    have hp := expPlan_vjust (k := k) (m := m) hm (assemble s vE vT vS (s.hist.size - 1)) (snapAt s vS) k' s.opIndex rfl
      (by intro e he; rw [findExp_assemble] at he; exact (hXE e he).1)
      (by rw [trialsOf_assemble]; exact trialsOf_le hm hT.1.1)
    have := exec_budget hm f _ hp hW hS.2
    exact ⟨⟨this.1, p, exec_x f _ hX⟩, this.2⟩
  | recSug k' vS vE vT vD f env =>
    have hS := snap_good hI vS
    have hp := sugPlan_vjust (k := k) (m := m) (assemble s vE vT vS vD) (snapAt s vS) k' env s.opIndex rfl
    have := exec_budget hm f _ hp hW hS.2
    exact ⟨⟨this.1, p, exec_x f _ hX⟩, this.2⟩
  | recTrial k' vT f =>
    have hp := trialPlan_vjust (k := k) (m := m) (assemble s (s.hist.size - 1) vT (s.hist.size - 1) (s.hist.size - 1)) s.cur k' s.opIndex
    have := exec_budget hm f _ hp hW (Past.refl k _)
    exact ⟨⟨this.1, p, exec_x f _ hX⟩, this.2⟩
  | job k' ok =>
    simp only [stepWorld]
    split
    · exact ⟨⟨hW, p, hX⟩, Past.refl k _⟩
    · exact fr _ (by rfl) (by rfl) (by rfl)
  | metric t text key nm =>
    simp only [stepWorld]
    split
    · exact fr _ (by rfl) (by rfl) (by rfl)
    · exact fr _ (by rfl) (by rfl) (by rfl)
  | earlyStop k' =>
    simp only [stepWorld]
    split
    · exact ⟨⟨hW, p, hX⟩, Past.refl k _⟩
    · split
      · exact ⟨⟨hW, p, hX⟩, Past.refl k _⟩
      · refine (fun (x : WInv k m _ ∧ Past k s.cur _) => ⟨⟨x.1, sameX _ (by rfl)⟩, x.2⟩) (frame_trials hW (by rfl) (by rfl) ?_ ?_)
        · unfold updTrial
          simp only []
          rw [map_key_upd]
          · exact hW.tkeys
          · intro _; rfl
        · intro t' ht'
          exact mem_upd ht' (fun _ => ⟨rfl, rfl⟩)
  | deployReady k' =>
    simp only [stepWorld]
    split
    · exact ⟨⟨hW, p, hX⟩, Past.refl k _⟩
    · exact fr _ (by rfl) (by rfl) (by rfl)
  | editMax k' n =>
    have hk : k' ≠ k := fun e => hop n (by rw [e])
    simp only [stepWorld]
    split
    · exact ⟨⟨hW, p, hX⟩, Past.refl k _⟩
    · refine ⟨⟨⟨hW.tkeys, hW.tnames, hW.sug⟩, p, ?_⟩, fun sh hh => ⟨sh, hh, List.prefix_refl _, Nat.le_refl _, fun _ => rfl⟩⟩
      intro e he
      have hfe := findExp_updExp s.cur k k' (fun e => { e with maxT := some n, rv := e.rv + 1 }) (fun _ => rfl)
      change findExp (updExp s.cur k' (fun e => { e with maxT := some n, rv := e.rv + 1 })) k = some e at he
      rw [hfe] at he
      cases h0 : findExp s.cur k with
      | none => rw [h0] at he; cases he
      | some e0 =>
        rw [h0] at he
        simp only [Option.map_some, Option.some.injEq] at he
        have hne : ¬ e0.key = k' := fun e => hk (e.symm.trans (findExp_key h0))
        simp only [hne, if_false] at he
        subst he
        exact hX e0 h0
  | jobGone k' =>
    simp only [stepWorld]
    split
    · exact ⟨⟨hW, p, hX⟩, Past.refl k _⟩
    · split
      · exact fr _ (by rfl) (by rfl) (by rfl)
      · exact ⟨⟨hW, p, hX⟩, Past.refl k _⟩
  | userDelete k' =>
    simp only [stepWorld]
    split
    · exact ⟨⟨hW, p, hX⟩, Past.refl k _⟩
    · split
      · exact ⟨⟨hW, p, hX⟩, Past.refl k _⟩
      · split
        · refine (fun (x : WInv k m _ ∧ Past k s.cur _) => ⟨⟨x.1, sameX _ (by rfl)⟩, x.2⟩) (frame_trials hW (by rfl) (by rfl) ?_ ?_)
          · unfold updTrial
            simp only []
            rw [map_key_upd]
            · exact hW.tkeys
            · intro _; rfl
          · intro t' ht'
            exact mem_upd ht' (fun _ => ⟨rfl, rfl⟩)
        · refine (fun (x : WInv k m _ ∧ Past k s.cur _) => ⟨⟨x.1, sameX _ (by rfl)⟩, x.2⟩) (frame_trials hW (by rfl) (by rfl) ?_ ?_)
          · exact (List.Sublist.map _ List.filter_sublist).nodup hW.tkeys
          · intro t' ht'
            exact ⟨t', (List.mem_filter.1 ht').1, rfl, rfl⟩
  | noop => exact ⟨⟨hW, p, hX⟩, Past.refl k _⟩

theorem step_inv {k : Key2} {m : Int} (hm : 0 ≤ m) {s : Sim} (hI : SInv k m s) (op : Op) (hop : ∀ n, op ≠ .editMax k n) :
    SInv k m (step s op).1 := by
  obtain ⟨hW, hP⟩ := stepWorld_ok hm hI op hop
  unfold step
  refine ⟨hW, ?_⟩
  intro i h hh
  rw [Array.getElem?_push] at hh
  by_cases hi : i = s.hist.size
  · rw [if_pos hi] at hh
    cases hh; exact ⟨hW, Past.refl k _⟩
  · rw [if_neg hi] at hh
    obtain ⟨h1, h2⟩ := hI.2 i h hh
    exact ⟨h1, Past.trans h2 hP⟩

def run (s : Sim) (ops : List Op) : Sim := ops.foldl (fun s op => (step s op).1) s

theorem run_inv {k : Key2} {m : Int} (hm : 0 ≤ m) (ops : List Op) : ∀ {s : Sim}, SInv k m s → (∀ op ∈ ops, ∀ n, op ≠ .editMax k n) → SInv k m (run s ops) := by
  induction ops with
  | nil => intro s h _; exact h
  | cons op r ih =>
    intro s h hops
    exact ih (step_inv hm h op (hops op List.mem_cons_self)) (fun o ho => hops o (List.mem_cons_of_mem _ ho))

theorem init_inv (k : Key2) (m : Int) (es : List ExpInit) (hinit : ∀ e ∈ es, e.key = k → e.maxT = some m) : SInv k m (Sim.init es) := by
  have hW : WInv k m (Sim.init es).cur :=
    ⟨List.nodup_nil, fun t h => by simp [Sim.init] at h, fun s h => by simp [Sim.init, findSug] at h⟩
  have hX : ∃ p, XInv k (some m) p (Sim.init es).cur := by
    cases hf : findExp (Sim.init es).cur k with
    | none => exact ⟨0, fun e he => by rw [hf] at he; cases he⟩
    | some e0 =>
      refine ⟨e0.par, ?_⟩
      intro e he
      rw [hf] at he; cases he
      have hk := findExp_key hf
      unfold findExp at hf
      have hmem := List.mem_of_find?_eq_some hf
      simp only [Sim.init, List.mem_map] at hmem
      obtain ⟨ei, hei, rfl⟩ := hmem
      exact ⟨hinit ei hei hk, rfl⟩
  refine ⟨⟨hW, hX⟩, ?_⟩
  intro i h hh
  simp only [Sim.init] at hh
  have : h = (Sim.init es).cur := by
    cases i with
    | zero => simp at hh; exact hh.symm
    | succ j => simp at hh
  rw [this]
  exact ⟨⟨hW, hX⟩, Past.refl k _⟩

/-- **C01_total** (with C08's append-only assignments at world level). -/
theorem C01_total (k : Key2) (m : Int) (hm : 0 ≤ m) (es : List ExpInit) (ops : List Op)
    (hinit : ∀ e ∈ es, e.key = k → e.maxT = some m) (hops : ∀ op ∈ ops, ∀ n, op ≠ .editMax k n) :
    let s := run (Sim.init es) ops
    ((trialsOf s.cur k).length : Int) ≤ m ∧
    (∀ sg, findSug s.cur k = some sg →
      (sg.st.names.length : Int) ≤ m ∧ sg.requests ≤ m ∧ sg.st.count = (sg.st.names.length : Int) ∧
      ∀ t ∈ trialsOf s.cur k, t.key.name ∈ sg.st.names) ∧
    (∀ (i : Nat) (h : World), s.hist[i]? = some h →
      ((trialsOf h k).length : Int) ≤ m ∧
      ∀ sh, findSug h k = some sh → ∃ sc, findSug s.cur k = some sc ∧ sh.st.names <+: sc.st.names) := by
  intro s
  have hI : SInv k m s := run_inv hm ops (init_inv k m es hinit) hops
  refine ⟨trialsOf_le hm hI.1.1, ?_, ?_⟩
  · intro sg hsg
    obtain ⟨a, b, c⟩ := hI.1.1.sug sg hsg
    refine ⟨a, b, c, ?_⟩
    intro t ht
    obtain ⟨h1, h2, h3⟩ := mem_trialsOf.1 ht
    obtain ⟨s', hs', hmem⟩ := hI.1.1.tnames t h1 h2 h3
    rw [hsg] at hs'; cases hs'; exact hmem
  · intro i h hh
    obtain ⟨⟨hW, _⟩, hP⟩ := hI.2 i h hh
    refine ⟨trialsOf_le hm hW, ?_⟩
    intro sh hsh
    obtain ⟨sc, h1, h2, _, _⟩ := hP sh hsh
    exact ⟨sc, h1, h2⟩

/-- non-vacuity: a concrete schedule (experiment created, suggestion created, two assignments synced, trials created) ends
    with two trials for `maxTrialCount = 2` — the bound is attained -/
example :
    let k : Key2 := { ns := "ns", name := "exp" }
    let cfg : ExpCfg := { goal := none, objType := .maximize, resume := .never, es := false, retain := false, push := false, labels := false }
    let s := run (Sim.init [{ key := k, par := 2, maxT := some 2, maxF := none, cfg := cfg }])
      [.recExp k 100 100 100 {}, .recExp k 100 100 100 {}, .recExp k 100 100 100 {}, .recSug k 100 100 100 100 {} {}, .recSug k 100 100 100 100 {} {},
       .deployReady k, .recSug k 100 100 100 100 {} {}, .recExp k 100 100 100 {}]
    (trialsOf s.cur k).length = 2 := by decide

end Katib.Ctl
