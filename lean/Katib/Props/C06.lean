import Katib.Lemmas.Prog
/-!
# C06 — Trial verdicts: Succeeded needs an objective value; terminal states permanent

Statements about every Trial status write on every path of `Katib.Ctl.trialPlan` (any view, faults, abort point).
-/
namespace Katib.Ctl
open Katib

theorem has_trialRunningFalse_other (cs : List TCond) (now : Nat) {c : TCT} (h : c ≠ .running) :
    Cond.has (trialRunningFalse cs now) c = Cond.has cs c := by
  unfold trialRunningFalse
  cases Cond.get cs .running with
  | some x => simp only []; exact Cond.has_set_other cs h false x.reason now
  | none => rfl

theorem has_tMark_self (cs : List TCond) (ty : TCT) (r : String) (now : Nat) : Cond.has (tMark cs ty r now) ty = true :=
  Cond.has_set_self _ _ _ _ _

theorem has_tMark_other (cs : List TCond) {ty c : TCT} (r : String) (now : Nat) (h1 : c ≠ ty) (h2 : c ≠ .running) :
    Cond.has (tMark cs ty r now) c = Cond.has cs c := by
  unfold tMark
  rw [Cond.has_set_other _ h1, has_trialRunningFalse_other _ _ h2]

/-- what a Trial status write may do, given the state of the run object the reconcile looked at (`none`: no run object) -/
def VerdictGuard (t : TrialO) (state : Option JobState) : Call → Prop
  | .trialStatus _ _ st' =>
    -- no condition other than Running is ever withdrawn
    (∀ c, c ≠ .running → Cond.has t.st.conds c = true → Cond.has st'.conds c = true) ∧
    -- Succeeded: the job met the success condition, an objective value is in the observation, no other verdict present
    (Cond.has st'.conds .succeeded = true → Cond.has t.st.conds .succeeded = false →
        state = some .succeeded ∧ obsAvailable st' = true ∧ tCompleted t = false ∧
        Cond.has st'.conds .failed = false ∧ Cond.has st'.conds .metricsUnavailable = false ∧ Cond.has st'.conds .earlyStopped = false) ∧
    -- Failed: the job met the failure condition (checked first)
    (Cond.has st'.conds .failed = true → Cond.has t.st.conds .failed = false →
        (state = some .failed ∨ state = some .both) ∧ Cond.has t.st.conds .succeeded = false) ∧
    -- MetricsUnavailable: the job succeeded and no objective value was collected
    (Cond.has st'.conds .metricsUnavailable = true → Cond.has t.st.conds .metricsUnavailable = false →
        state = some .succeeded ∧ obsAvailable st' = false)
  | _ => True

theorem guard_unchanged_conds (t : TrialO) (state : Option JobState) (st' : TrialSt) (h : st'.conds = t.st.conds) :
    VerdictGuard t state (.trialStatus t.key t.rv st') := by
  refine ⟨?_, ?_, ?_, ?_⟩
  · intro c _ hc; rw [h]; exact hc
  · intro h1 h2; rw [h, h2] at h1; cases h1
  · intro h1 h2; rw [h, h2] at h1; cases h1
  · intro h1 h2; rw [h, h2] at h1; cases h1

theorem guard_finish (t : TrialO) (state : Option JobState) (st' : TrialSt)
    (h : VerdictGuard t state (.trialStatus t.key t.rv st')) : (trialFinish t st').All (VerdictGuard t state) := by
  unfold trialFinish; split
  · trivial
  · exact ⟨h, trivial, trivial⟩

theorem guard_updateCondition (t : TrialO) (st : TrialSt) (state : JobState) (js : JobCond) (now : Nat)
    (hconds : st.conds = t.st.conds) (hjs : jsOf state (tHas t .running) = some js)
    (hopen : tCompleted t = false ∨ tHas t .earlyStopped = true)
    (hexcl : tHas t .succeeded = true → tHas t .earlyStopped = false) :
    (trialUpdateCondition t st js now).All (VerdictGuard t (some state)) := by
  have hstate : (js = .succeeded → state = .succeeded) ∧ (js = .failed → state = .failed ∨ state = .both) := by
    unfold jsOf at hjs
    cases state <;> simp at hjs <;> (try (obtain ⟨_, rfl⟩ := hjs)) <;> (try subst hjs) <;> simp
  have keep : ∀ st2 : TrialSt, st2.conds = t.st.conds → (trialFinish t st2).All (VerdictGuard t (some state)) :=
    fun st2 h => guard_finish t _ st2 (guard_unchanged_conds t _ st2 h)
  have hasOld : ∀ c, Cond.has st.conds c = tHas t c := by intro c; rw [hconds]; rfl
  -- a completed trial that is here must be early-stopped
  have notSucc : Cond.has t.st.conds .earlyStopped = false →
      Cond.has t.st.conds .succeeded = false ∧ Cond.has t.st.conds .failed = false ∧
      Cond.has t.st.conds .metricsUnavailable = false ∧ tCompleted t = false := by
    intro hes
    cases hopen with
    | inl h =>
      unfold tCompleted tHas at h
      simp only [Bool.or_eq_false_iff] at h
      exact ⟨h.1.1.1.1, h.1.1.1.2, h.2, by unfold tCompleted tHas; simp [h]⟩
    | inr h => unfold tHas at h; rw [hes] at h; cases h
  unfold trialUpdateCondition
  cases js with
  | succeeded =>
    have hs := hstate.1 rfl
    simp only []
    split
    · rename_i h1
      simp only [Bool.and_eq_true, Bool.not_eq_true'] at h1
      split
      · rename_i h2
        simp only [Bool.not_eq_true'] at h2
        rw [hasOld] at h2
        obtain ⟨n1, n2, n3, n4⟩ := notSucc h2
        apply guard_finish
        refine ⟨?_, ?_, ?_, ?_⟩
        · intro c hc hold
          by_cases hcs : c = .succeeded
          · subst hcs; exact has_tMark_self _ _ _ _
          · rw [has_tMark_other _ _ _ hcs hc, hconds]; exact hold
        · intro _ _
          refine ⟨by rw [hs], h1.1, n4, ?_, ?_, ?_⟩
          · rw [has_tMark_other _ _ _ (by decide) (by decide), hconds]; exact n2
          · rw [has_tMark_other _ _ _ (by decide) (by decide), hconds]; exact n3
          · rw [has_tMark_other _ _ _ (by decide) (by decide), hconds]; exact h2
        · intro h3 h4
          rw [has_tMark_other _ _ _ (by decide) (by decide), hconds, h4] at h3; cases h3
        · intro h3 h4
          rw [has_tMark_other _ _ _ (by decide) (by decide), hconds, h4] at h3; cases h3
      · exact keep _ hconds
    · rename_i h1
      split
      · rename_i h2
        simp only [Bool.not_eq_true'] at h2
        have g : VerdictGuard t (some state) (.trialStatus t.key t.rv
            { st with conds := tMark st.conds .metricsUnavailable rTrialMU now, completion := some now }) := by
          refine ⟨?_, ?_, ?_, ?_⟩
          · intro c hc hold
            by_cases hcs : c = .metricsUnavailable
            · subst hcs; exact has_tMark_self _ _ _ _
            · rw [has_tMark_other _ _ _ hcs hc, hconds]; exact hold
          · intro h3 h4
            rw [has_tMark_other _ _ _ (by decide) (by decide), hconds, h4] at h3; cases h3
          · intro h3 h4
            rw [has_tMark_other _ _ _ (by decide) (by decide), hconds, h4] at h3; cases h3
          · intro _ _
            refine ⟨by rw [hs], ?_⟩
            -- not (obsAvailable ∧ ¬succeeded): either no objective value, or already succeeded (impossible for an open trial
            -- that is not early-stopped; for an early-stopped one Succeeded is never set)
            simp only [Bool.and_eq_true, Bool.not_eq_true', not_and, Bool.not_eq_false] at h1
            show obsAvailable { st with conds := _, completion := _ } = false
            cases ho : obsAvailable st with
            | false => unfold obsAvailable at ho ⊢; exact ho
            | true =>
              have hsucc := h1 ho
              rw [hasOld] at hsucc
              -- then the trial already carries Succeeded: excluded by `hopen` unless early-stopped, and by `hexcl` if it is
              exfalso
              cases hopen with
              | inl h => unfold tCompleted at h; simp [hsucc] at h
              | inr h => rw [hexcl hsucc] at h; cases h
        split
        · exact ⟨trivial, guard_finish _ _ _ g, trivial⟩
        · exact guard_finish _ _ _ g
      · exact keep _ hconds
  | failed =>
    simp only []
    split
    · rename_i h1
      simp only [Bool.and_eq_true, Bool.not_eq_true'] at h1
      rw [hasOld, hasOld] at h1
      obtain ⟨n1, _, _, _⟩ := notSucc (by unfold tHas at h1; exact h1.2)
      apply guard_finish
      refine ⟨?_, ?_, ?_, ?_⟩
      · intro c hc hold
        by_cases hcs : c = .failed
        · subst hcs; exact has_tMark_self _ _ _ _
        · rw [has_tMark_other _ _ _ hcs hc, hconds]; exact hold
      · intro h3 h4
        rw [has_tMark_other _ _ _ (by decide) (by decide), hconds, h4] at h3; cases h3
      · intro _ _; exact ⟨(hstate.2 rfl).elim (fun h => Or.inl (by rw [h])) (fun h => Or.inr (by rw [h])), n1⟩
      · intro h3 h4
        rw [has_tMark_other _ _ _ (by decide) (by decide), hconds, h4] at h3; cases h3
    · exact keep _ hconds
  | running =>
    simp only []
    split
    · apply guard_finish
      refine ⟨?_, ?_, ?_, ?_⟩
      · intro c hc hold
        show Cond.has (Cond.set st.conds .running true rTrialRunning now) c = true
        rw [Cond.has_set_other _ hc, hconds]; exact hold
      all_goals
        intro h3 h4
        have : Cond.has (Cond.set st.conds TCT.running true rTrialRunning now) _ = _ := h3
        rw [Cond.has_set_other _ (by decide), hconds, h4] at this; cases this
    · exact keep _ hconds

theorem guard_afterJob (v : World) (t : TrialO) (state : JobState) (now : Nat)
    (hexcl : tHas t .succeeded = true → tHas t .earlyStopped = false) :
    (trialAfterJob v t state now).All (VerdictGuard t (some state)) := by
  have keep : ∀ st2 : TrialSt, st2.conds = t.st.conds → (trialFinish t st2).All (VerdictGuard t (some state)) :=
    fun st2 h => guard_finish t _ st2 (guard_unchanged_conds t _ st2 h)
  unfold trialAfterJob
  split
  · exact keep _ rfl
  · rename_i hopen0
    have hopen : tCompleted t = false ∨ tHas t .earlyStopped = true := by
      cases h1 : tCompleted t <;> cases h2 : tHas t .earlyStopped <;> simp_all
    cases hj : jsOf state (tHas t .running) with
    | none => exact keep _ rfl
    | some js =>
      have upd : ∀ st : TrialSt, st.conds = t.st.conds → (trialUpdateCondition t st js now).All (VerdictGuard t (some state)) :=
        fun st h => guard_updateCondition t st state js now h hj hopen hexcl
      simp only []
      unfold trialObserve
      simp only []
      split
      · split
        · refine ⟨trivial, ?_, trivial⟩
          split
          · trivial
          · exact upd _ rfl
        · split
          · refine ⟨trivial, ?_, trivial⟩
            split
            · trivial
            · exact upd _ rfl
          · exact ⟨trivial, trivial, trivial⟩
      · split
        · trivial
        · exact upd _ rfl

/-- C06_verdict_guard: every Trial status write of a reconcile respects the verdict rules (see `VerdictGuard`):
    terminal conditions are never withdrawn, Succeeded needs job success *and* an objective value and excludes the
    other verdicts, Failed needs the failure condition, MetricsUnavailable needs job success without objective value.
    Hypothesis: the Trial the controller sees is not both Succeeded and EarlyStopped (an invariant of the model's
    worlds: see `C06_exclusive_preserved`). -/
theorem C06_verdict_guard (v : World) (k : Key2) (now : Nat) (t : TrialO) (ht : findTrial v k = some t)
    (hexcl : tHas t .succeeded = true → tHas t .earlyStopped = false) :
    (trialPlan v k now).All (VerdictGuard t ((findJob v k).map (·.state) |>.orElse (fun _ => some .running))) := by
  have keep : ∀ (s : Option JobState) (st2 : TrialSt), st2.conds = t.st.conds → (trialFinish t st2).All (VerdictGuard t s) :=
    fun s st2 h => guard_finish t _ st2 (guard_unchanged_conds t _ st2 h)
  unfold trialPlan
  rw [ht]
  simp only []
  split
  · exact ⟨trivial, trivial, trivial⟩
  · split
    · exact ⟨trivial, ⟨trivial, trivial, trivial⟩, trivial⟩
    · split
      · -- first reconcile: only Created is added
        apply guard_finish
        refine ⟨?_, ?_, ?_, ?_⟩
        · intro c _ hold
          show Cond.has (Cond.set t.st.conds .created true rTrialCreated now) c = true
          by_cases hc : c = .created
          · subst hc; exact Cond.has_set_self _ _ _ _ _
          · rw [Cond.has_set_other _ hc]; exact hold
        all_goals
          intro h3 h4
          have : Cond.has (Cond.set t.st.conds TCT.created true rTrialCreated now) _ = _ := h3
          rw [Cond.has_set_other _ (by decide), h4] at this; cases this
      · split
        · rename_i hj
          simp only [hj, Option.map_none, Option.orElse_none]
          split
          · exact keep _ _ rfl
          · exact ⟨trivial, guard_afterJob v t .running now hexcl, trivial⟩
        · rename_i j hj
          simp only [hj, Option.map_some, Option.orElse_some]
          split
          · exact ⟨trivial, trivial, trivial⟩
          · exact guard_afterJob v t j.state now hexcl

/-! Non-vacuity: job succeeded, objective value in the DB, created+running trial ⇒ the status write marks Succeeded. -/
example :
    let t : TrialO := { key := ⟨"ns", "t1"⟩, exp := "e", fin := true, retain := true, push := false, objType := .maximize,
                        st := { conds := [⟨.created, true, rTrialCreated, 0⟩, ⟨.running, true, rTrialRunning, 1⟩] } }
    let v : World := { trials := [t], jobs := [{ key := ⟨"ns", "t1"⟩, state := .succeeded }],
                       db := [("t1", [⟨"acc", "0.5", some 5, some 3⟩])] }
    (trialPlan v ⟨"ns", "t1"⟩ 9).calls.any (fun c => match c with
      | .trialStatus _ _ st => Cond.has st.conds .succeeded && obsAvailable st | _ => false) = true := by decide

end Katib.Ctl
