import Katib.Gen.Guards
import Katib.Model.Goptuna
/-!
# C18: one iteration of the model of `syncTrials` decides under the source's path conditions

`Katib/Gen/Guards.lean` (regenerated on every run by `kvh extract guards`, loop entered) holds the conditions under which one
iteration of the loop in `SuggestionService.syncTrials` (pkg/suggestion/v1beta1/goptuna/service.go) looks the Trial up by its
parameters, records the mapping, sets the Goptuna trial's value and state, and returns an error.  The in-memory storage of the
model fails only by not having the trial (`GetTrial`); `SetTrialValue` / `SetTrialState` on a trial that was just read do not
fail (their `err != nil` atoms are false), and the value itself is not modelled.
-/
namespace Katib.Gen
open Katib.Gop

theorem C18_sync_guards_known :
    mapByParamGuardUnknown = [] ∧ recordMappingGuardUnknown = [] ∧ setTrialValueGuardUnknown = [] ∧ setTrialStateGuardUnknown = [] ∧
    errFindGuardUnknown = [] ∧ syncErrorGuardUnknown = [] ∧ mapByParamGuardSites = 1 ∧ recordMappingGuardSites = 1 ∧
    setTrialValueGuardSites = 1 ∧ setTrialStateGuardSites = 1 ∧ errFindGuardSites = 1 ∧ syncErrorGuardSites = 4 := by decide

abbrev GsG := Bool → Bool → Bool → Bool → Bool → Bool → Bool → Bool → Bool → Bool

/-- the Goptuna trial id the iteration works on: the mapped one, else the one found by parameters -/
def syncId (s : Svc) (k : KTrial) : Option Nat :=
  match mapOf s.mapping k.name with
  | some id => some id
  | none => findId s k.params

/-- the atoms of one iteration; `d` stands for tests that are not reached -/
def gsG (s : Svc) (k : KTrial) (d : Bool) (g : GsG) : Bool :=
  let found := (mapOf s.mapping k.name).isSome
  let failed1 := if found then d else (findId s k.params).isNone
  match (syncId s k).bind (getTrial s.trials) with
  | none => g found failed1 true false false d d d false
  | some t => g found failed1 false false false t.state.finished (decide (toG k.state = t.state))
      (decide (toG k.state = .complete)) false

/-- the iteration written with the generated guards -/
def syncGen (s : Svc) (k : KTrial) (d : Bool) : Except Err Svc :=
  let G := gsG s k d
  if G syncErrorGuard then (if G errFindGuard then .error .notFound else .error .storage)
  else
    let id := (syncId s k).getD 0
    .ok { mapping := if G recordMappingGuard then (k.name, id) :: s.mapping else s.mapping,
          trials := if G setTrialStateGuard then setState s.trials id (toG k.state) else s.trials }

set_option linter.unusedSimpArgs false in
/-- **C18_iteration_is_source** -/
theorem C18_iteration_is_source (s : Svc) (k : KTrial) (d : Bool) : syncOne s k = syncGen s k d := by
  unfold syncOne syncGen gsG syncId syncErrorGuard errFindGuard recordMappingGuard setTrialStateGuard
  cases hm : mapOf s.mapping k.name with
  | some id =>
    cases hg : getTrial s.trials id with
    | none => simp [hm, hg]
    | some g => cases hf : g.state.finished <;> by_cases he : toG k.state = g.state <;> simp [hm, hg, hf, he]
  | none =>
    cases hp : findId s k.params with
    | none => simp [hm, hp]
    | some id =>
      cases hg : getTrial s.trials id with
      | none => simp [hm, hp, hg]
      | some g => cases hf : g.state.finished <;> by_cases he : toG k.state = g.state <;> simp [hm, hp, hg, hf, he]

set_option linter.unusedSimpArgs false in
/-- the lookup by parameters is made exactly for a Trial name the mapping does not hold; the value is set only together with a
    state change, for a succeeded Trial -/
theorem C18_lookup_and_value_guards (s : Svc) (k : KTrial) (d : Bool) :
    gsG s k d mapByParamGuard = (mapOf s.mapping k.name).isNone ∧
    (gsG s k d setTrialValueGuard = true → gsG s k d setTrialStateGuard = true ∧ toG k.state = .complete) := by
  unfold gsG mapByParamGuard setTrialValueGuard setTrialStateGuard
  cases hm : mapOf s.mapping k.name <;> cases hb : (syncId s k).bind (getTrial s.trials) <;> simp [hm, hb] <;> grind

/-- the loop of `syncTrials` written with the generated guards: the first error ends it, each later Trial sees what the
    earlier ones left -/
def syncAllGen (d : Bool) (s : Svc) : List KTrial → Except Err Svc
  | [] => .ok s
  | k :: r => match syncGen s k d with
    | .error e => .error e
    | .ok s1 => syncAllGen d s1 r

/-- **C18_loop_is_source**: for every request (any number of Trials, in any states, mapped or not) and every state of the
    service, the model's loop is the iteration of the step that decides under the regenerated path conditions -/
theorem C18_loop_is_source (d : Bool) (s : Svc) (ks : List KTrial) : syncAll s ks = syncAllGen d s ks := by
  induction ks generalizing s with
  | nil => simp [syncAll, syncAllGen]
  | cons k r ih =>
    simp only [syncAll, syncAllGen, C18_iteration_is_source s k d]
    cases syncGen s k d with
    | error e => rfl
    | ok s1 => exact ih s1

/-- **C18_request_is_source**: `GetSuggestions` after the study exists — conversion, the loop of generated steps, sampling -/
theorem C18_request_is_source (d : Bool) (s : Svc) (ks : List KTrial) (sampled : List Params) :
    request s ks sampled =
      if ks.any (fun k => !k.convertible) then .error .convert
      else match syncAllGen d s ks with
        | .error e => .error e
        | .ok s1 => .ok (sample s1 sampled) := by
  unfold request; rw [C18_loop_is_source d s ks]
  split
  · rfl
  · cases syncAllGen d s ks <;> rfl

end Katib.Gen
