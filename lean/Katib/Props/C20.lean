import Katib.Model.Ui
/-!
# C20 — UI backend: every data endpoint is authorised per user and namespace  (partial)

`C20_guarded_sound` (semantic, for every event list): a handler that passes the static check touches data only in
namespaces its gates got an allowing review for, and answers 401/403 at the first failing gate before any later access.
`C20_all_routes` (`decide` over the table regenerated from the sources on every run): every route passes the static check,
except the trial-template routes — the known finding `C20_template_routes`.  Partial: `fetch_trial_logs` needs a real
clientset and is covered statically only.
-/
namespace Katib.Ui
open Katib.Gen

/-- C20_guarded_sound: under any RBAC oracle, every access performed by a statically guarded handler is either derived
    (object built from the authorised request / DB keyed by trial name, after some gate passed) or in a namespace for which
    a gate obtained an allowing review; without user header or with a denying review nothing after the gate runs. -/
theorem C20_guarded_sound (hdr : Bool) (allow : String → Bool) (evs : List UiEv) (authed : List String)
    (hg : guardedFrom authed evs = true) (ha : ∀ n ∈ authed, hdr = true ∧ allow n = true) :
    ∀ a ∈ exec hdr allow evs, (hdr = true ∧ allow a.ns = true) ∨ (derivedNs a.ns = true ∧ hdr = true ∧ ∃ n, allow n = true) := by
  induction evs generalizing authed with
  | nil => intro a ha'; cases ha'
  | cons e r ih =>
    intro a hmem
    simp only [guardedFrom] at hg
    simp only [exec] at hmem
    cases hgate : isGate e with
    | true =>
      simp only [hgate, if_true] at hg hmem
      cases hok : (hdr && allow e.ns) with
      | true =>
        simp only [hok, if_true] at hmem
        simp only [Bool.and_eq_true] at hok
        apply ih (e.ns :: authed) hg _ a hmem
        intro n hn
        simp only [List.mem_cons] at hn
        rcases hn with rfl | hn
        · exact hok
        · exact ha n hn
      | false =>
        simp only [hok, Bool.false_eq_true, if_false] at hmem
        cases hmem
    | false =>
      simp only [hgate, Bool.false_eq_true, if_false] at hg hmem
      cases hd : isData e with
      | true =>
        simp only [hd, if_true, Bool.and_eq_true, Bool.or_eq_true] at hg
        simp only [hd, if_true, List.mem_cons] at hmem
        rcases hmem with rfl | hmem
        · rcases hg.1 with h1 | h1
          · left
            have : a.ns ∈ authed := by simpa using h1
            exact ha _ this
          · right
            obtain ⟨h2, h3⟩ := h1
            cases hau : authed with
            | nil => simp [hau] at h3
            | cons n rest =>
              have hn : n ∈ authed := by rw [hau]; simp
              exact ⟨h2, (ha n hn).1, n, (ha n hn).2⟩
        · exact ih authed hg.2 ha a hmem
      | false =>
        simp only [hd, Bool.false_eq_true, if_false] at hg hmem
        exact ih authed hg ha a hmem

/-- without a user header a statically guarded handler performs no access at all -/
theorem C20_no_header_no_access (allow : String → Bool) (evs : List UiEv) (hg : guardedFrom [] evs = true) :
    exec false allow evs = [] := by
  induction evs with
  | nil => rfl
  | cons e r ih =>
    simp only [guardedFrom] at hg
    simp only [exec]
    cases hgate : isGate e with
    | true => simp
    | false =>
      simp only [hgate, Bool.false_eq_true, if_false] at hg ⊢
      cases hd : isData e with
      | true => simp [hd, derivedNs] at hg
      | false =>
        simp only [hd, Bool.false_eq_true, if_false] at hg ⊢
        exact ih hg

/-- C20_all_routes: every route registered by the UI server is statically guarded, except the trial-template routes. -/
theorem C20_all_routes : uiRoutes.all (fun r => guarded r || templateRoute r) = true := by decide

/-- C20_template_routes (known finding): exactly these routes list ConfigMaps of every namespace before any review
    (and serve the katib namespace's templates unreviewed). -/
theorem C20_template_routes :
    (uiRoutes.filter (fun r => !guarded r)).map (·.path) =
      ["/katib/add_template/", "/katib/delete_template/", "/katib/edit_template/", "/katib/fetch_trial_templates/"] := by decide

/-- the repaired routes are guarded now -/
theorem C20_repaired_routes_guarded :
    (uiRoutes.filter (fun r => r.path == "/katib/fetch_nas_job_info/" || r.path == "/katib/delete_experiment/")).all guarded = true := by decide

/-- the table is not empty: the translator found the routes -/
theorem C20_routes_found : 15 ≤ uiRoutes.length := by decide

end Katib.Ui
