import Katib.Props.C08World
import Std.Data.String.ToNat
/-!
# C08 over whole schedules: the names of a Suggestion's assignments are unique

`C08_names_unique_world`: for every list of simulator operations (no hypothesis on the schedule — lagging views, fault masks,
abort points, budget edits, Trial deletions, several experiments sharing one algorithm service) the assignment list of every
Suggestion is duplicate-free.

The model's algorithm service hands out names from one counter (`freshNames e n j` = `e-t(n+1) … e-t(n+j)`, the assumption
"the algorithm service returns fresh names" of the trusted base); what is proved is that the *controller* never duplicates:
a status write carries the list of a Suggestion that was read (any snapshot of the history) or that list extended by the
names of one reply, and the reply's names come from above the counter value at planning time, which bounds every name in
every snapshot.  The appending write comes after the RPC on the plan (`Prog.NamesB`: a sequencing-aware plan predicate — the
bound a write may rely on grows by what the calls before it on the path consumed).
-/
namespace Katib.Ctl
open Katib Katib.Exp

theorem freshName_inj {e : String} {i j : Nat} (h : freshName e i = freshName e j) : i = j := by
  unfold freshName at h
  have h1 := (String.append_right_inj (e ++ "-t")).1 h
  exact Nat.repr_injective h1

/-- every name is `e-t<i>` for some `i ≤ n` -/
def Bounded (e : String) (n : Nat) (names : List String) : Prop := ∀ x ∈ names, ∃ i, i ≤ n ∧ x = freshName e i

def NOk (e : String) (n : Nat) (names : List String) : Prop := names.Nodup ∧ Bounded e n names

theorem NOk.mono {e : String} {n m : Nat} {l : List String} (h : NOk e n l) (hnm : n ≤ m) : NOk e m l :=
  ⟨h.1, fun x hx => by obtain ⟨i, hi, rfl⟩ := h.2 x hx; exact ⟨i, by omega, rfl⟩⟩

theorem nok_nil (e : String) (n : Nat) : NOk e n [] := ⟨List.nodup_nil, fun _ h => by cases h⟩

theorem freshNames_nodup (e : String) (n k : Nat) : (freshNames e n k).Nodup := by
  induction k generalizing n with
  | zero => exact List.nodup_nil
  | succ k ih =>
    simp only [freshNames, List.nodup_cons]
    refine ⟨?_, ih (n + 1)⟩
    intro hmem
    obtain ⟨i, h1, _, h3⟩ := freshNames_mem e (n + 1) k _ hmem
    have := freshName_inj h3
    omega

/-- the list of one Suggestion extended by the names of one reply taken at counter value `n` -/
theorem nok_append {e : String} {n : Nat} {l : List String} (h : NOk e n l) (j : Nat) : NOk e (n + j) (l ++ freshNames e n j) := by
  refine ⟨?_, ?_⟩
  · rw [List.nodup_append]
    refine ⟨h.1, freshNames_nodup e n j, ?_⟩
    intro a ha b hb hab
    obtain ⟨i, hi, rfl⟩ := h.2 a ha
    obtain ⟨i', h1, _, h3⟩ := freshNames_mem e n j b hb
    rw [h3] at hab
    have := freshName_inj hab
    omega
  · intro x hx
    rcases List.mem_append.1 hx with hx | hx
    · obtain ⟨i, hi, rfl⟩ := h.2 x hx; exact ⟨i, by omega, rfl⟩
    · obtain ⟨i, _, h2, h3⟩ := freshNames_mem e n j x hx; exact ⟨i, h2, h3⟩

def NInv (k : Key2) (w : World) : Prop := ∀ s, findSug w k = some s → NOk k.name w.algoN s.st.names

/-- what a call may write into Suggestion `k` when the counter stands at `n` or above -/
def Pn (k : Key2) (n : Nat) : Call → Prop
  | .sugCreate s' => s'.key = k → s'.st.names = []
  | .sugStatus k' _ st' => k' = k → NOk k.name n st'.names
  | _ => True

theorem Pn.mono {k : Key2} {n m : Nat} {c : Call} (h : Pn k n c) (hnm : n ≤ m) : Pn k m c := by
  cases c <;> first | trivial | exact h | exact fun hk => (h hk).mono hnm

/-- names the call takes from the algorithm service when it succeeds -/
def Call.consumed : Call → Nat
  | .rpcGetSuggestions _ _ _ _ c true => c
  | _ => 0

/-- sequencing-aware plan predicate: a call may rely on the counter having passed `n`, and on the success branch of a call
    everything may rely on what that call consumed as well -/
def Prog.NamesB (k : Key2) : Prog → Nat → Prop
  | .done _, _ => True
  | .step c ok fail, n => Pn k n c ∧ ok.NamesB k (n + c.consumed) ∧ fail.NamesB k n

theorem Prog.NamesB.mono {k : Key2} : ∀ {p : Prog} {n m : Nat}, p.NamesB k n → n ≤ m → p.NamesB k m
  | .done _, _, _, _, _ => trivial
  | .step _ _ _, _, _, ⟨h1, h2, h3⟩, hnm => ⟨h1.mono hnm, Prog.NamesB.mono h2 (by omega), Prog.NamesB.mono h3 hnm⟩

theorem namesB_of_all {k : Key2} : ∀ {p : Prog} {n : Nat}, p.All (Pn k n) → p.NamesB k n
  | .done _, _, _ => trivial
  | .step _ _ _, _, ⟨h1, h2, h3⟩ => ⟨h1, (namesB_of_all h2).mono (by omega), namesB_of_all h3⟩

theorem ninv_same {k : Key2} {w w' : World} (hs' : w'.sugs = w.sugs) (ha : w.algoN ≤ w'.algoN) (h : NInv k w) : NInv k w' := by
  intro s hs
  unfold findSug at hs
  rw [hs'] at hs
  exact (h s hs).mono ha

theorem apply_algoN {w w' : World} {c : Call} (h : applyCall w c = .ok w') : w'.algoN = w.algoN + c.consumed := by
  cases c with
  | sugCreate s' => simp only [applyCall] at h; split at h <;> cases h; rfl
  | sugUpdateReq k' rv req =>
    simp only [applyCall] at h; split at h
    · cases h
    · split at h <;> cases h; rfl
  | sugStatus k' rv st =>
    simp only [applyCall] at h; split at h
    · cases h
    · split at h <;> cases h; rfl
  | expUpdateFin k' rv fin =>
    simp only [applyCall] at h; split at h
    · cases h
    · split at h <;> cases h; rfl
  | expStatus k' rv st =>
    simp only [applyCall] at h; split at h
    · cases h
    · split at h <;> cases h; rfl
  | trialCreate t => simp only [applyCall] at h; split at h <;> cases h; rfl
  | trialStatus k' rv st =>
    simp only [applyCall] at h; split at h
    · cases h
    · split at h <;> cases h; rfl
  | trialUpdateFin k' rv fin =>
    simp only [applyCall] at h; split at h
    · cases h
    · split at h
      · cases h
      · split at h <;> cases h <;> rfl
  | trialDelete k' =>
    simp only [applyCall] at h; split at h
    · cases h
    · split at h <;> cases h <;> rfl
  | jobCreate k' => simp only [applyCall] at h; split at h <;> cases h; rfl
  | jobDelete k' => simp only [applyCall] at h; split at h <;> cases h; rfl
  | deployCreate k' => simp only [applyCall] at h; split at h <;> cases h; rfl
  | deployDelete k' => simp only [applyCall] at h; split at h <;> cases h; rfl
  | svcCreate k' =>
    simp only [applyCall, createKey] at h; split at h
    · cases h
    · cases h; rfl
  | svcDelete k' => simp only [applyCall] at h; split at h <;> cases h; rfl
  | pvcCreate k' =>
    simp only [applyCall, createKey] at h; split at h
    · cases h
    · cases h; rfl
  | saCreate k' =>
    simp only [applyCall, createKey] at h; split at h
    · cases h
    · cases h; rfl
  | roleCreate k' =>
    simp only [applyCall, createKey] at h; split at h
    · cases h
    · cases h; rfl
  | rbCreate k' =>
    simp only [applyCall, createKey] at h; split at h
    · cases h
    · cases h; rfl
  | rpcValidate e => simp only [applyCall] at h; cases h; rfl
  | rpcValidateES => simp only [applyCall] at h; cases h; rfl
  | rpcGetSuggestions e cur total ts consume ok =>
    simp only [applyCall] at h; split at h
    · rename_i hok; cases h; subst hok; rfl
    · cases h
  | rpcGetRules e ok => simp only [applyCall] at h; split at h <;> cases h; rfl
  | dbGet t => simp only [applyCall] at h; cases h; rfl
  | dbDelete t => simp only [applyCall] at h; cases h; rfl
  | dbReport t e => simp only [applyCall] at h; split at h <;> cases h <;> rfl

theorem apply_sugs_same {w w' : World} {c : Call} (h : applyCall w c = .ok w')
    (hc : match c with | .sugCreate _ => False | .sugUpdateReq _ _ _ => False | .sugStatus _ _ _ => False | _ => True) :
    w'.sugs = w.sugs := by
  cases c with
  | sugCreate s' => exact absurd hc id
  | sugUpdateReq k' rv req => exact absurd hc id
  | sugStatus k' rv st => exact absurd hc id
  | expUpdateFin k' rv fin =>
    simp only [applyCall] at h; split at h
    · cases h
    · split at h <;> cases h; rfl
  | expStatus k' rv st =>
    simp only [applyCall] at h; split at h
    · cases h
    · split at h <;> cases h; rfl
  | trialCreate t => simp only [applyCall] at h; split at h <;> cases h; rfl
  | trialStatus k' rv st =>
    simp only [applyCall] at h; split at h
    · cases h
    · split at h <;> cases h; rfl
  | trialUpdateFin k' rv fin =>
    simp only [applyCall] at h; split at h
    · cases h
    · split at h
      · cases h
      · split at h <;> cases h <;> rfl
  | trialDelete k' =>
    simp only [applyCall] at h; split at h
    · cases h
    · split at h <;> cases h <;> rfl
  | jobCreate k' => simp only [applyCall] at h; split at h <;> cases h; rfl
  | jobDelete k' => simp only [applyCall] at h; split at h <;> cases h; rfl
  | deployCreate k' => simp only [applyCall] at h; split at h <;> cases h; rfl
  | deployDelete k' => simp only [applyCall] at h; split at h <;> cases h; rfl
  | svcCreate k' =>
    simp only [applyCall, createKey] at h; split at h
    · cases h
    · cases h; rfl
  | svcDelete k' => simp only [applyCall] at h; split at h <;> cases h; rfl
  | pvcCreate k' =>
    simp only [applyCall, createKey] at h; split at h
    · cases h
    · cases h; rfl
  | saCreate k' =>
    simp only [applyCall, createKey] at h; split at h
    · cases h
    · cases h; rfl
  | roleCreate k' =>
    simp only [applyCall, createKey] at h; split at h
    · cases h
    · cases h; rfl
  | rbCreate k' =>
    simp only [applyCall, createKey] at h; split at h
    · cases h
    · cases h; rfl
  | rpcValidate e => simp only [applyCall] at h; cases h; rfl
  | rpcValidateES => simp only [applyCall] at h; cases h; rfl
  | rpcGetSuggestions e cur total ts consume ok => simp only [applyCall] at h; split at h <;> cases h; rfl
  | rpcGetRules e ok => simp only [applyCall] at h; split at h <;> cases h; rfl
  | dbGet t => simp only [applyCall] at h; cases h; rfl
  | dbDelete t => simp only [applyCall] at h; cases h; rfl
  | dbReport t e => simp only [applyCall] at h; split at h <;> cases h <;> rfl

theorem apply_pres_N {k : Key2} {n : Nat} {w w' : World} {c : Call} (hU : NInv k w) (hJ : Pn k n c) (hn : n ≤ w.algoN)
    (h : applyCall w c = .ok w') : NInv k w' := by
  have hA := apply_algoN h
  cases c with
  | sugCreate s' =>
    simp only [applyCall] at h; split at h
    · cases h
    · cases h
      intro s hsg
      unfold findSug at hsg
      simp only [List.find?_append] at hsg
      cases hf : List.find? (fun x => decide (x.key = k)) w.sugs with
      | some s0 =>
        rw [hf] at hsg; simp only [Option.some_or, Option.some.injEq] at hsg; subst hsg
        exact hU s0 hf
      | none =>
        rw [hf] at hsg
        simp only [Option.none_or, List.find?_cons, List.find?_nil] at hsg
        split at hsg
        · rename_i hk
          simp only [Option.some.injEq] at hsg; subst hsg
          rw [hJ (by simpa using hk)]; exact nok_nil _ _
        · cases hsg
  | sugUpdateReq k' rv req =>
    simp only [applyCall] at h; split at h
    · cases h
    · split at h <;> cases h
      intro s hsg
      rw [findSug_updSug w k k' (fun s => { s with requests := req, rv := s.rv + 1 }) (fun _ => rfl)] at hsg
      cases h0 : findSug w k with
      | none => rw [h0] at hsg; cases hsg
      | some s0 =>
        rw [h0] at hsg
        simp only [Option.map_some, Option.some.injEq] at hsg
        subst hsg
        have := hU s0 h0
        split <;> exact this
  | sugStatus k' rv st =>
    simp only [applyCall] at h; split at h
    · cases h
    · split at h <;> cases h
      intro s hsg
      rw [findSug_updSug w k k' (fun s => { s with st := st, rv := s.rv + 1 }) (fun _ => rfl)] at hsg
      cases h0 : findSug w k with
      | none => rw [h0] at hsg; cases hsg
      | some s0 =>
        rw [h0] at hsg
        simp only [Option.map_some, Option.some.injEq] at hsg
        subst hsg
        have hk0 := findSug_key h0
        split
        · rename_i hkk
          exact (hJ (by rw [← hkk, hk0])).mono hn
        · exact hU s0 h0
  | expUpdateFin k' rv fin => exact ninv_same (apply_sugs_same h trivial) (by omega) hU
  | expStatus k' rv st => exact ninv_same (apply_sugs_same h trivial) (by omega) hU
  | trialCreate t => exact ninv_same (apply_sugs_same h trivial) (by omega) hU
  | trialStatus k' rv st => exact ninv_same (apply_sugs_same h trivial) (by omega) hU
  | trialUpdateFin k' rv fin => exact ninv_same (apply_sugs_same h trivial) (by omega) hU
  | trialDelete k' => exact ninv_same (apply_sugs_same h trivial) (by omega) hU
  | jobCreate k' => exact ninv_same (apply_sugs_same h trivial) (by omega) hU
  | jobDelete k' => exact ninv_same (apply_sugs_same h trivial) (by omega) hU
  | deployCreate k' => exact ninv_same (apply_sugs_same h trivial) (by omega) hU
  | deployDelete k' => exact ninv_same (apply_sugs_same h trivial) (by omega) hU
  | svcCreate k' => exact ninv_same (apply_sugs_same h trivial) (by omega) hU
  | svcDelete k' => exact ninv_same (apply_sugs_same h trivial) (by omega) hU
  | pvcCreate k' => exact ninv_same (apply_sugs_same h trivial) (by omega) hU
  | saCreate k' => exact ninv_same (apply_sugs_same h trivial) (by omega) hU
  | roleCreate k' => exact ninv_same (apply_sugs_same h trivial) (by omega) hU
  | rbCreate k' => exact ninv_same (apply_sugs_same h trivial) (by omega) hU
  | rpcValidate e => exact ninv_same (apply_sugs_same h trivial) (by omega) hU
  | rpcValidateES => exact ninv_same (apply_sugs_same h trivial) (by omega) hU
  | rpcGetSuggestions e cur total ts consume ok => exact ninv_same (apply_sugs_same h trivial) (by omega) hU
  | rpcGetRules e ok => exact ninv_same (apply_sugs_same h trivial) (by omega) hU
  | dbGet t => exact ninv_same (apply_sugs_same h trivial) (by omega) hU
  | dbDelete t => exact ninv_same (apply_sugs_same h trivial) (by omega) hU
  | dbReport t e => exact ninv_same (apply_sugs_same h trivial) (by omega) hU

/-- the executor keeps the invariant along any path of a plan satisfying `NamesB`, and the counter never goes back -/
theorem exec_names {k : Key2} (f : Faults) :
    ∀ (p : Prog) (n : Nat) (w : World) (i : Nat) (log : List String), p.NamesB k n → NInv k w → n ≤ w.algoN →
      NInv k (exec f p w i log).w ∧ w.algoN ≤ (exec f p w i log).w.algoN
  | .done _, _, _, _, _, _, hi, _ => ⟨hi, Nat.le_refl _⟩
  | .step c ok fail, n, w, i, log, ⟨hc, hok, hfail⟩, hi, hn => by
    unfold exec
    split
    · exact exec_names f fail n w (i + 1) _ hfail hi hn
    · split
      · rename_i w' hw'
        have hA := apply_algoN hw'
        have := exec_names f ok (n + c.consumed) w' (i + 1) (log ++ [c.what ++ ":ok"]) hok (apply_pres_N hi hc hn hw') (by omega)
        exact ⟨this.1, by omega⟩
      · exact exec_names f fail n w (i + 1) _ hfail hi hn

/-! ## the three plans -/

theorem expPlan_namesB (k : Key2) (v : World) (k' : Key2) (now : Nat)
    (hv : ∀ s, findSug v k = some s → NOk k.name v.algoN s.st.names) : (expPlan v k' now).NamesB k v.algoN := by
  apply namesB_of_all
  cases he : findExp v k' with
  | none => unfold expPlan; rw [he]; trivial
  | some e =>
    have hkey := findExp_key he
    refine (expPlan_guard v k' now e he).mono ?_
    intro c hc
    cases c with
    | sugCreate s' =>
      obtain ⟨_, _, h3, _⟩ := hc
      intro _
      rw [h3]
    | sugStatus k'' _ st' =>
      obtain ⟨s, hs0, h2, _, hn, _, _⟩ := hc
      intro hkk
      have : k' = k := by rw [← hkey, ← h2, hkk]
      subst this
      rw [hkey] at hs0
      show NOk k'.name v.algoN st'.names
      rw [hn]; exact hv s hs0
    | _ => trivial

theorem trialPlan_namesB (k : Key2) (v : World) (k' : Key2) (now : Nat) : (trialPlan v k' now).NamesB k v.algoN :=
  namesB_of_all ((trialPlan_noinfra v k' now).mono (fun c hc => by cases c <;> first | trivial | exact absurd hc id))

section SugWalk
variable (k : Key2) (v : World) (s : SugO) (hk : s.key = k)

theorem nb_sugFinish_keep {n : Nat} (st : SugSt) (h1 : st.names = s.st.names) (hs : NOk k.name n s.st.names) :
    (sugFinish s st).NamesB k n := by
  unfold sugFinish; split
  · trivial
  · exact ⟨fun _ => by rw [h1]; exact hs, trivial, trivial⟩

theorem nb_sugErr {n : Nat} (st : SugSt) (hs : NOk k.name n s.st.names) : (sugErr s st).NamesB k n := by
  unfold sugErr; split
  · trivial
  · exact ⟨fun _ => hs, trivial, trivial⟩

theorem nb_createIfAbsent {n : Nat} (b : Bool) (c : Call) (next fail : Prog) (hc : Pn k n c) (hc0 : c.consumed = 0)
    (h1 : next.NamesB k n) (h2 : fail.NamesB k n) : (createIfAbsent b c next fail).NamesB k n := by
  unfold createIfAbsent; split
  · exact h1
  · exact ⟨hc, by rw [hc0]; exact h1, h2⟩

include hk in
theorem nb_sugAfterReply (st : SugSt) (env : SugEnv) (j : Nat) (cur : Int) (h1 : st.names = s.st.names)
    (hs : NOk k.name v.algoN s.st.names) : (sugAfterReply v s st env j cur).NamesB k (v.algoN + j) := by
  have hs' : NOk k.name (v.algoN + j) s.st.names := hs.mono (by omega)
  have fin : (sugFinish s (sugAppend v s st j)).NamesB k (v.algoN + j) := by
    unfold sugFinish; split
    · trivial
    · refine ⟨fun _ => ?_, trivial, trivial⟩
      show NOk k.name (v.algoN + j) (st.names ++ freshNames s.key.name v.algoN j)
      rw [h1, hk]; exact nok_append hs j
  unfold sugAfterReply
  split
  · exact nb_sugErr k s st hs'
  · split
    · exact ⟨trivial, fin, nb_sugErr k s st hs'⟩
    · exact fin

include hk in
theorem nb_sugSync (st : SugSt) (ts : List TrialO) (env : SugEnv) (h1 : st.names = s.st.names)
    (hs : NOk k.name v.algoN s.st.names) : (sugSync v s st ts env).NamesB k v.algoN := by
  unfold sugSync
  simp only []
  split
  · exact nb_sugFinish_keep k s st h1 hs
  · split
    · exact ⟨trivial, (nb_sugErr k s st hs).mono (by omega), nb_sugErr k s st hs⟩
    · exact ⟨trivial, nb_sugAfterReply k v s hk st env _ _ h1 hs, nb_sugErr k s st hs⟩

include hk in
theorem nb_sugTail (st1 : SugSt) (env : SugEnv) (now : Nat) (h1 : st1.names = s.st.names)
    (hs : NOk k.name v.algoN s.st.names) : (sugTail v s st1 env now).NamesB k v.algoN := by
  unfold sugTail
  split
  · exact nb_sugErr k s _ hs
  · simp only []
    split
    · refine ⟨trivial, ?_, nb_sugFinish_keep k s _ h1 hs⟩
      simp only [Call.consumed, Nat.add_zero]
      split
      · exact ⟨trivial, nb_sugSync k v s hk _ _ env h1 hs, nb_sugFinish_keep k s _ h1 hs⟩
      · exact nb_sugSync k v s hk _ _ env h1 hs
    · exact nb_sugSync k v s hk _ _ env h1 hs

include hk in
theorem nb_sugDeploy (env : SugEnv) (now : Nat) (hs : NOk k.name v.algoN s.st.names) : (sugDeploy v s env now).NamesB k v.algoN := by
  unfold sugDeploy
  simp only []
  split
  · exact ⟨trivial, nb_sugFinish_keep k s _ rfl hs, nb_sugErr k s _ hs⟩
  · split
    · exact nb_sugFinish_keep k s _ rfl hs
    · exact nb_sugTail k v s hk _ env now rfl hs

include hk in
theorem nb_sugReconcile (env : SugEnv) (now : Nat) (hs : NOk k.name v.algoN s.st.names) :
    (sugReconcile v s env now).NamesB k v.algoN := by
  have errK : ∀ st, (sugErr s st).NamesB k v.algoN := fun st => nb_sugErr k s st hs
  have rbac : (sugRbac v s env now).NamesB k v.algoN := by
    unfold sugRbac
    simp only []
    split
    · exact nb_createIfAbsent k _ _ _ _ trivial rfl (nb_createIfAbsent k _ _ _ _ trivial rfl
        (nb_createIfAbsent k _ _ _ _ trivial rfl (nb_sugDeploy k v s hk env now hs) (errK _)) (errK _)) (errK _)
    · exact nb_sugDeploy k v s hk env now hs
  unfold sugReconcile
  simp only []
  split
  · exact nb_createIfAbsent k _ _ _ _ trivial rfl (nb_createIfAbsent k _ _ _ _ trivial rfl rbac (errK _)) (errK _)
  · exact nb_createIfAbsent k _ _ _ _ trivial rfl rbac (errK _)

end SugWalk

theorem sugPlan_namesB (k : Key2) (v : World) (k' : Key2) (env : SugEnv) (now : Nat)
    (hv : ∀ s, findSug v k = some s → NOk k.name v.algoN s.st.names) : (sugPlan v k' env now).NamesB k v.algoN := by
  cases hsg : findSug v k' with
  | none => unfold sugPlan; rw [hsg]; trivial
  | some s =>
    have hkey := findSug_key hsg
    by_cases hkk : k' = k
    · subst hkk
      have hs := hv s hsg
      unfold sugPlan
      rw [hsg]
      simp only []
      split
      · split
        · split
          · exact ⟨trivial, ⟨trivial, trivial, trivial⟩, trivial⟩
          · exact ⟨trivial, trivial, trivial⟩
        · split
          · exact ⟨trivial, trivial, trivial⟩
          · trivial
      · split
        · exact nb_sugFinish_keep k' s _ rfl hs
        · exact nb_sugReconcile k' v s hkey env now hs
    · apply namesB_of_all
      refine (sugPlan_guard v k' env now s hsg).mono ?_
      intro c hc
      cases c with
      | sugCreate _ => exact absurd hc id
      | sugStatus k'' _ st' =>
        intro h2
        exact absurd (by rw [← hkey, ← hc.1, h2]) hkk
      | _ => trivial

/-! ## the schedule invariant -/

def SInvN (k : Key2) (s : Sim) : Prop :=
  (∀ (i : Nat) (h : World), s.hist[i]? = some h → NInv k h ∧ h.algoN ≤ s.cur.algoN) ∧ NInv k s.cur ∧
    s.hist[s.hist.size - 1]? = some s.cur

theorem snap_goodN {k : Key2} {s : Sim} (hI : SInvN k s) (i : Nat) :
    ∀ sg, findSug (snapAt s i) k = some sg → NOk k.name s.cur.algoN sg.st.names := by
  intro sg hsg
  unfold snapAt at hsg
  cases h : s.hist[i]? with
  | none => rw [h] at hsg; exact hI.2.1 sg hsg
  | some w => rw [h] at hsg; exact ((hI.1 i w h).1 sg hsg).mono (hI.1 i w h).2

theorem stepWorld_okN {k : Key2} {s : Sim} (hI : SInvN k s) (op : Op) :
    NInv k (stepWorld s op).1 ∧ s.cur.algoN ≤ (stepWorld s op).1.algoN := by
  have hU := hI.2.1
  have same : ∀ w' : World, w'.sugs = s.cur.sugs → w'.algoN = s.cur.algoN → NInv k w' ∧ s.cur.algoN ≤ w'.algoN :=
    fun w' h1 h2 => ⟨ninv_same h1 (by omega) hU, by omega⟩
  cases op with
  | recExp k' vE vT vS f =>
    exact exec_names f _ _ _ 0 [] (expPlan_namesB k (assemble s vE vT vS (s.hist.size - 1)) k' s.opIndex (snap_goodN hI vS)) hU (Nat.le_refl _)
  | recSug k' vS vE vT vD f env =>
    exact exec_names f _ _ _ 0 [] (sugPlan_namesB k (assemble s vE vT vS vD) k' env s.opIndex (snap_goodN hI vS)) hU (Nat.le_refl _)
  | recTrial k' vT f =>
    exact exec_names f _ _ _ 0 [] (trialPlan_namesB k (assemble s (s.hist.size - 1) vT (s.hist.size - 1) (s.hist.size - 1)) k' s.opIndex) hU (Nat.le_refl _)
  | job k' ok => simp only [stepWorld]; split <;> first | exact ⟨hU, Nat.le_refl _⟩ | exact same _ rfl rfl
  | metric t text key nm => simp only [stepWorld]; split <;> exact same _ rfl rfl
  | earlyStop k' =>
    simp only [stepWorld]
    split
    · exact ⟨hU, Nat.le_refl _⟩
    · split <;> first | exact ⟨hU, Nat.le_refl _⟩ | exact same _ rfl rfl
  | deployReady k' => simp only [stepWorld]; split <;> first | exact ⟨hU, Nat.le_refl _⟩ | exact same _ rfl rfl
  | editMax k' n => simp only [stepWorld]; split <;> first | exact ⟨hU, Nat.le_refl _⟩ | exact same _ rfl rfl
  | jobGone k' =>
    simp only [stepWorld]
    split
    · exact ⟨hU, Nat.le_refl _⟩
    · split <;> first | exact ⟨hU, Nat.le_refl _⟩ | exact same _ rfl rfl
  | userDelete k' =>
    simp only [stepWorld]
    split
    · exact ⟨hU, Nat.le_refl _⟩
    · split
      · exact ⟨hU, Nat.le_refl _⟩
      · split <;> exact same _ rfl rfl
  | noop => exact ⟨hU, Nat.le_refl _⟩

theorem step_invN {k : Key2} {s : Sim} (hI : SInvN k s) (op : Op) : SInvN k (step s op).1 := by
  obtain ⟨hW, hA⟩ := stepWorld_okN hI op
  unfold step
  refine ⟨?_, hW, ?_⟩
  · intro i h hh
    rw [Array.getElem?_push] at hh
    by_cases hi : i = s.hist.size
    · rw [if_pos hi] at hh; cases hh; exact ⟨hW, Nat.le_refl _⟩
    · rw [if_neg hi] at hh
      exact ⟨(hI.1 i h hh).1, Nat.le_trans (hI.1 i h hh).2 hA⟩
  · simp only [Array.size_push, Nat.add_sub_cancel]
    rw [Array.getElem?_push, if_pos rfl]

theorem run_invN {k : Key2} (ops : List Op) : ∀ {s : Sim}, SInvN k s → SInvN k (run s ops) := by
  induction ops with
  | nil => intro s h; exact h
  | cons op r ih => intro s h; exact ih (step_invN h op)

theorem init_invN (k : Key2) (es : List ExpInit) : SInvN k (Sim.init es) := by
  have hU : NInv k (Sim.init es).cur := fun s h => by simp [Sim.init, findSug] at h
  refine ⟨?_, hU, by simp [Sim.init]⟩
  intro i h hh
  simp only [Sim.init] at hh
  have : h = (Sim.init es).cur := by
    cases i with
    | zero => simp at hh; exact hh.symm
    | succ j => simp at hh
  rw [this]; exact ⟨hU, Nat.le_refl _⟩

/-- **C08_names_unique_world**: over every schedule (no hypothesis) the assignment names of every Suggestion are pairwise
    distinct — now and in every snapshot of the history. -/
theorem C08_names_unique_world (k : Key2) (es : List ExpInit) (ops : List Op) :
    let s := run (Sim.init es) ops
    (∀ sg, findSug s.cur k = some sg → sg.st.names.Nodup) ∧
    (∀ (i : Nat) (h : World) (sh : SugO), s.hist[i]? = some h → findSug h k = some sh → sh.st.names.Nodup) := by
  intro s
  have hI : SInvN k s := run_invN ops (init_invN k es)
  exact ⟨fun sg h => (hI.2.1 sg h).1, fun i h sh hh hs => ((hI.1 i h hh).1 sh hs).1⟩

/-- non-vacuity: a concrete schedule (experiment, suggestion, deployment ready, one sync of two assignments) ends with the
    two distinct names `exp-t1`, `exp-t2` -/
example :
    let k : Key2 := { ns := "ns", name := "exp" }
    let cfg : ExpCfg := { goal := none, objType := .maximize, resume := .never, es := false, retain := false, push := false, labels := false }
    let s := run (Sim.init [{ key := k, par := 2, maxT := some 2, maxF := none, cfg := cfg }])
      [.recExp k 100 100 100 {}, .recExp k 100 100 100 {}, .recExp k 100 100 100 {}, .recSug k 100 100 100 100 {} {}, .recSug k 100 100 100 100 {} {},
       .deployReady k, .recSug k 100 100 100 100 {} {}]
    (findSug s.cur k).map (·.st.names) = some ["exp-t1", "exp-t2"] := by decide

end Katib.Ctl
