import Katib.Model.DB
import Katib.Gen.DbSites
/-!
# C19 — Observation-log storage treats all strings as data and never crashes

Theorems about `Katib.DB.register/get/delete` for both dialects and every request, plus `C19_sites_constant` over the
table of database call sites that the translator regenerates from pkg/db on every run (`Katib/Gen/DbSites.lean`).
-/
namespace Katib.DB

theorem collect_length (trial : String) (es : List LogEntry) (args : List String) (h : collect trial es = .ok args) :
    args.length = 4 * (es.filter (fun e => e.ts ≠ .empty)).length := by
  induction es generalizing args with
  | nil => simp [collect] at h; subst h; rfl
  | cons e es ih =>
    simp only [collect] at h
    cases hts : e.ts with
    | empty => simp only [hts] at h; simp [List.filter_cons, hts, ih args h]
    | bad => simp only [hts] at h; split at h <;> cases h
    | ok f =>
      simp only [hts] at h
      cases hm : e.metric with
      | none => simp only [hm] at h; cases h
      | some nv =>
        obtain ⟨n, v⟩ := nv
        simp only [hm] at h
        cases hc : collect trial es with
        | error x => simp only [hc] at h; cases h
        | ok r =>
          simp only [hc] at h
          cases h
          simp [List.filter_cons, hts, ih r hc]
          omega

/-- C19_insert_text: the INSERT text depends only on the number of timestamped entries — never on any string of the request. -/
theorem C19_insert_text (d : Dialect) (trial : String) (es : List LogEntry) (s : Stmt)
    (h : register d trial (some es) = .ok s) :
    s.sql = insertSql d (es.filter (fun e => e.ts ≠ .empty)).length ∧ s.args.length = 4 * (es.filter (fun e => e.ts ≠ .empty)).length := by
  unfold register at h
  simp only at h
  cases hc : collect trial es with
  | error x => simp only [hc] at h; cases h
  | ok args =>
    simp only [hc] at h
    cases h
    have := collect_length trial es args hc
    simp only [this]
    constructor
    · congr 1; omega
    · trivial

/-- two requests with equally many timestamped entries issue the same statement text (content-independence) -/
theorem C19_insert_text_independent (d : Dialect) (t1 t2 : String) (es1 es2 : List LogEntry) (s1 s2 : Stmt)
    (h1 : register d t1 (some es1) = .ok s1) (h2 : register d t2 (some es2) = .ok s2)
    (hn : (es1.filter (fun e => e.ts ≠ .empty)).length = (es2.filter (fun e => e.ts ≠ .empty)).length) : s1.sql = s2.sql := by
  rw [(C19_insert_text d t1 es1 s1 h1).1, (C19_insert_text d t2 es2 s2 h2).1, hn]

/-- C19_insert_args: one row per timestamped entry, in order, carrying trial name, formatted UTC time, metric name and value. -/
theorem C19_insert_args (d : Dialect) (trial : String) (es : List LogEntry) (s : Stmt)
    (h : register d trial (some es) = .ok s) :
    s.args = (es.filter (fun e => e.ts ≠ .empty)).flatMap (fun e =>
      match e.ts, e.metric with
      | .ok f, some (n, v) => [trial, f, n, v]
      | _, _ => []) ∧
    ∀ e ∈ es, e.ts ≠ .empty → ∃ f n v, e.ts = .ok f ∧ e.metric = some (n, v) := by
  unfold register at h
  simp only at h
  cases hc : collect trial es with
  | error x => simp only [hc] at h; cases h
  | ok args =>
    simp only [hc] at h
    cases h
    simp only
    induction es generalizing args with
    | nil => simp [collect] at hc; subst hc; simp
    | cons e es ih =>
      simp only [collect] at hc
      cases hts : e.ts with
      | empty =>
        simp only [hts] at hc
        obtain ⟨h1, h2⟩ := ih args hc
        refine ⟨by simp [List.filter_cons, hts, h1], ?_⟩
        intro e' he' hne
        simp only [List.mem_cons] at he'
        cases he' with
        | inl h => subst h; exact absurd hts hne
        | inr h => exact h2 e' h hne
      | bad => simp only [hts] at hc; split at hc <;> cases hc
      | ok f =>
        simp only [hts] at hc
        cases hm : e.metric with
        | none => simp only [hm] at hc; cases hc
        | some nv =>
          obtain ⟨n, v⟩ := nv
          simp only [hm] at hc
          cases hcr : collect trial es with
          | error x => simp only [hcr] at hc; cases hc
          | ok r =>
            simp only [hcr] at hc
            cases hc
            obtain ⟨h1, h2⟩ := ih r hcr
            refine ⟨by simp [List.filter_cons, hts, hm, h1], ?_⟩
            intro e' he' hne
            simp only [List.mem_cons] at he'
            cases he' with
            | inl h => subst h; exact ⟨f, n, v, hts, hm⟩
            | inr h => exact h2 e' h hne

/-- C19_parse_error_no_statement: a missing sub-message or an unparsable timestamp yields an error and no statement. -/
theorem C19_parse_error_no_statement (d : Dialect) (trial : String) (log : Option (List LogEntry)) :
    (log = none ∨ ∃ es, log = some es ∧ ∃ e ∈ es, e.ts = .bad ∨ (e.ts ≠ .empty ∧ e.metric = none)) →
    ∃ x, register d trial log = .error x := by
  rintro (h | ⟨es, h, e, he, hbad⟩)
  · subst h; exact ⟨_, rfl⟩
  · subst h
    unfold register
    simp only
    suffices ∃ x, collect trial es = .error x by
      obtain ⟨x, hx⟩ := this; rw [hx]; exact ⟨_, rfl⟩
    induction es with
    | nil => cases he
    | cons e0 es ih =>
      simp only [List.mem_cons] at he
      simp only [collect]
      cases hts : e0.ts with
      | empty =>
        simp only []
        cases he with
        | inl h => subst h; rcases hbad with h | ⟨h, _⟩ <;> simp [hts] at h
        | inr h => exact ih h
      | bad => simp only []; split <;> exact ⟨_, rfl⟩
      | ok f =>
        simp only []
        cases hm : e0.metric with
        | none => exact ⟨_, rfl⟩
        | some nv =>
          obtain ⟨n, v⟩ := nv
          simp only []
          cases he with
          | inl h =>
            subst h
            rcases hbad with h | ⟨_, h⟩
            · rw [hts] at h; cases h
            · rw [hm] at h; cases h
          | inr h =>
            obtain ⟨x, hx⟩ := ih h
            rw [hx]; exact ⟨_, rfl⟩

/-- C19_get_text: the SELECT text depends only on which filters are present; the arguments are the trial name followed by
    the present filters in the order metric, start, end. -/
theorem C19_get_text (d : Dialect) (trial metric : String) (start end_ : Filter) (s : Stmt)
    (h : get d trial metric start end_ = .ok s) :
    s.sql = selectSql d (metric ≠ "") (start ≠ .absent) (end_ ≠ .absent) ∧
    s.args = trial :: ((if metric = "" then [] else [metric]) ++
      (match start with | .ok f => [f] | _ => []) ++ (match end_ with | .ok f => [f] | _ => [])) := by
  unfold get at h
  cases start <;> cases end_ <;> simp at h <;> (try cases h) <;> simp

/-- an unparsable time filter yields an error and no statement -/
theorem C19_get_bad_filter (d : Dialect) (trial metric : String) (start end_ : Filter) (h : start = .bad ∨ end_ = .bad) :
    get d trial metric start end_ = .error .badTime := by
  unfold get
  rcases h with h | h <;> subst h
  · rfl
  · cases start <;> rfl

/-- C19_delete: a constant statement with the trial name as its only argument -/
theorem C19_delete (d : Dialect) (t1 t2 : String) : (delete d t1).sql = (delete d t2).sql ∧ (delete d t1).args = [t1] := ⟨rfl, rfl⟩

/-- C19_sites_constant: every database call site of pkg/db (regenerated table) passes a statement text that is built from
    string literals and integer counters only — no request string flows into SQL text. -/
theorem C19_sites_constant : Katib.Gen.dbSites.all (fun s => s.textClass != "tainted") = true := by decide

/-- … and the table is not empty: the translator found the call sites (12 on the pinned tree). -/
theorem C19_sites_found : 10 ≤ Katib.Gen.dbSites.length := by decide

/-! Non-vacuity -/
set_option maxRecDepth 8000 in
example : (register .postgres "t" (some [⟨.ok "T1", some ("acc", "0.5")⟩, ⟨.empty, none⟩, ⟨.ok "T2", some ("x'; DROP TABLE--", "1")⟩])).toOption =
    some ⟨"INSERT INTO observation_logs (trial_name, time, metric_name, value) VALUES ($1, $2, $3, $4),($5, $6, $7, $8)",
         ["t", "T1", "acc", "0.5", "t", "T2", "x'; DROP TABLE--", "1"]⟩ := by decide
set_option maxRecDepth 8000 in
example : (get .mysql "t" "" .absent (.ok "E")).toOption.map (·.sql) =
    some "SELECT time, metric_name, value FROM observation_logs WHERE trial_name = ? AND time <= ? ORDER BY time" := by decide

end Katib.DB
