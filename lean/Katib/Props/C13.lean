import Katib.Model.LogParse
/-!
# C13 — Log parsing reports exactly the tracked metrics, in order, never crashing  (partial)

Theorems about `Katib.Log.parseText / parseJson`.  Partial: regexp, JSON decoding and time parsing are oracles; the
epoch clause of the property is *false* of the code for numeric timestamps with 1–8 fractional digits
(`C13_epoch_order_counterexample`; pinned by an existing upstream test, hence a known finding), and holds for 0 or 9
digits (`C13_epoch_partial`).
-/
namespace Katib.Log

/-- an occurrence is reported iff the filter produced both groups and its name is tracked -/
theorem firstTracked_spec (metrics : List String) (ts : String) (m : Match) :
    firstTracked metrics ts m = if m.name ∈ metrics then [{ ts := ts, name := m.name, value := m.value }] else [] := by
  induction metrics with
  | nil => simp [firstTracked]
  | cons x xs ih =>
    simp only [firstTracked, List.mem_cons]
    by_cases h : m.name = x
    · simp [h]
    · simp [h, ih]

/-- C13_text: exactly the occurrences of tracked names, in line order → filter order → match order, each once, with
    the matched value and the line's timestamp (first token when it is RFC3339, else the zero time). -/
theorem C13_text (lines : List TextLine) (metrics : List String) :
    lines.flatMap (lineRecs metrics) =
    lines.flatMap (fun l =>
      if l.isMetricLine then
        l.found.flatMap (fun ms => ms.flatMap (fun m =>
          if 3 ≤ m.groups ∧ m.name ∈ metrics then [{ ts := (l.firstToken.getD zeroTime), name := m.name, value := m.value }] else []))
      else []) := by
  congr 1
  funext l
  unfold lineRecs
  cases l.isMetricLine with
  | false => simp
  | true =>
    simp only [Bool.not_true, Bool.false_eq_true, if_false, if_true]
    congr 1
    funext ms
    congr 1
    funext m
    rw [firstTracked_spec]
    cases l.firstToken <;> by_cases h1 : m.groups < 3 <;> by_cases h2 : m.name ∈ metrics <;> simp [h1, h2] <;> omega

/-- every reported record names a tracked metric -/
theorem C13_only_tracked (lines : List TextLine) (metrics : List String) :
    ∀ r ∈ lines.flatMap (lineRecs metrics), r.name ∈ metrics := by
  intro r hr
  rw [C13_text] at hr
  simp only [List.mem_flatMap] at hr
  obtain ⟨l, _, hl⟩ := hr
  split at hl
  · simp only [List.mem_flatMap] at hl
    obtain ⟨ms, _, m, _, hm⟩ := hl
    split at hm
    · rename_i h; simp only [List.mem_singleton] at hm; subst hm; exact h.2
    · cases hm
  · cases hl

/-- C13_fallback: if the objective metric (first tracked name) never occurs, a single `unavailable` record with the zero
    time is reported for it; otherwise the records are reported as found. -/
theorem C13_fallback (recs : List Rec) (obj : String) (rest : List String) :
    finish recs (obj :: rest) =
      if recs.any (fun r => r.name = obj) then some recs else some [{ ts := zeroTime, name := obj, value := unavailable }] := rfl

/-- C13_total: with at least one tracked metric the parser always answers (the only crash outcome of the model is the
    empty metric list, which the collector's `main` never passes: the objective metric is always first). -/
theorem C13_total (lines : List TextLine) (metrics : List String) (h : metrics ≠ []) : (parseText lines metrics).isSome = true := by
  unfold parseText finish
  cases metrics with
  | nil => exact absurd rfl h
  | cons a r => simp only []; split <;> rfl

theorem C13_total_json (lines : List JLine) (metrics : List String) (h : metrics ≠ []) :
    parseJson lines metrics = none ∨ ∃ r, parseJson lines metrics = some (some r) := by
  unfold parseJson
  cases parseJson.go metrics lines with
  | none => exact Or.inl rfl
  | some recs =>
    right
    cases metrics with
    | nil => exact absurd rfl h
    | cons a r => simp only []; split <;> exact ⟨_, rfl⟩

/-- C13_json: a JSON line contributes, for each tracked metric in tracking order whose value is a JSON string, one record. -/
theorem C13_json_line (metrics : List String) (ts : JTs) (vals : List (Option String)) :
    (jsonLineRecs metrics ts vals).map (fun r => (r.name, r.value)) =
    (metrics.zip vals).filterMap (fun p => p.2.map (fun v => (p.1, v))) := by
  unfold jsonLineRecs
  induction metrics.zip vals with
  | nil => rfl
  | cons p r ih =>
    cases h : p.2 with
    | none => simp [List.filterMap_cons, h, ih]
    | some v => simp [List.filterMap_cons, h, ih]

/-- a line that is not a JSON object makes the whole collection fail (no partial report) -/
theorem C13_json_invalid (pre post : List JLine) (metrics : List String) :
    parseJson (pre ++ .invalid :: post) metrics = none := by
  unfold parseJson
  suffices parseJson.go metrics (pre ++ .invalid :: post) = none by rw [this]
  induction pre with
  | nil => rfl
  | cons l r ih =>
    cases l with
    | empty => simpa [parseJson.go] using ih
    | invalid => rfl
    | obj ts vals => simp [parseJson.go, ih]

/-- the instant a decimal epoch string `i.f` denotes, in nanoseconds (fraction padded / cut to 9 digits); `i ≥ 0` -/
def specNanos (intPart : Nat) (fracDigits : List Nat) : Int :=
  let padded := (fracDigits ++ List.replicate 9 0).take 9
  (intPart : Int) * 1000000000 + (padded.foldl (fun acc d => acc * 10 + d) 0 : Nat)

def digitsVal (ds : List Nat) : Nat := ds.foldl (fun acc d => acc * 10 + d) 0

/-- C13_epoch_partial: when the fraction has exactly nine digits (or there is none) the conversion denotes the same
    instant — and so preserves order. -/
theorem C13_epoch_partial (sec : Nat) (ds : List Nat) (h : ds.length = 9 ∨ ds = []) :
    unixNanos sec (digitsVal ds) = specNanos sec ds := by
  unfold unixNanos specNanos digitsVal
  rcases h with h | h
  · have : (ds ++ List.replicate 9 0).take 9 = ds := by
      rw [List.take_append_of_le_length (by omega)]
      exact List.take_of_length_le (by omega)
    simp only [this]
  · subst h; simp [List.replicate]

/-- C13_epoch_order_counterexample (known finding): 1.5 s is converted to 1 s + 5 ns and 1.25 s to 1 s + 25 ns, so the
    later instant sorts first. -/
theorem C13_epoch_order_counterexample :
    epochNanos (some 1) (some (some 5)) = some 1000000005 ∧ epochNanos (some 1) (some (some 25)) = some 1000000025 ∧
    specNanos 1 [5] = 1500000000 ∧ specNanos 1 [2, 5] = 1250000000 := by decide

/-! Non-vacuity -/
example :
    parseText [⟨true, some "2024-01-01T00:00:00Z", [[⟨3, "acc", "0.5"⟩, ⟨3, "other", "1"⟩, ⟨2, "acc", "9"⟩]]⟩,
               ⟨false, none, [[⟨3, "acc", "0.7"⟩]]⟩, ⟨true, none, [[⟨3, "loss", "2"⟩], [⟨3, "acc", "0.6"⟩]]⟩] ["acc", "loss"]
    = some [⟨"2024-01-01T00:00:00Z", "acc", "0.5"⟩, ⟨zeroTime, "loss", "2"⟩, ⟨zeroTime, "acc", "0.6"⟩] := by decide

end Katib.Log
