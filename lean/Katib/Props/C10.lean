import Katib.Model.Convert
/-!
# C10 — Experiment/Trial resources reach algorithm services without loss

Theorems about `Katib.Conv.convertExperiment/convertTrials` (models of `ConvertExperiment/ConvertTrials`) and, by
`decide`, about the enum tables that the translator regenerates from the converter's `switch` statements on every run.
-/
namespace Katib.Conv
open Katib.Gen

/-! ### enum tables (regenerated) -/

/-- a row maps a constant to the constant of the same name on the other side (names compared on their upper-cased
    alphanumeric characters, which the translator emits as `goNorm` / `protoNorm`) -/
def rowNamed (r : EnumRow) : Bool := r.goNorm.isSuffixOf r.protoNorm || r.protoNorm.isSuffixOf r.goNorm

/-- C10_enum_named: every `case` of every converter switch returns the equally named constant. -/
theorem C10_enum_named : enumRows.all rowNamed = true := by decide

/-- C10_enum_injective: within one switch no two cases share a source or a target constant. -/
theorem C10_enum_injective :
    enumRows.all (fun r => (enumRows.filter (fun r' => r'.fn = r.fn ∧ (r'.goValue = r.goValue ∨ r'.proto = r.proto))).length == 1) = true := by
  decide

/-- C10_enum_roundtrip: reading the proto constant back yields the source value (the conversion loses nothing on the
    declared constants that have a case). -/
theorem C10_enum_roundtrip : enumRows.all (fun r => enumBack r.fn (enumConv r.fn r.goValue) == some r.goValue) = true := by decide

/-- declared constants that deliberately have no case: the `unknown` members, and MetricsUnavailable (such Trials are not sent) -/
def uncoveredAllowed : List String := ["ParameterTypeUnknown", "DistributionUnknown", "ObjectiveTypeUnknown", "TrialMetricsUnavailable"]

def fnOfType : String → String
  | "ParameterType" => "convertParameterType"
  | "Distribution" => "convertDistribution"
  | "ObjectiveType" => "convertObjectiveType"
  | "TrialConditionType" => "convertTrialConditionType"
  | _ => ""

/-- C10_enum_total: every declared constant of the four source enum types has a case, except the allow-listed ones. -/
theorem C10_enum_total :
    (goConsts.filter (fun c => fnOfType c.1 != "")).all (fun c =>
      uncoveredAllowed.contains c.2.1 || enumRows.any (fun r => r.fn = fnOfType c.1 ∧ r.goConst = c.2.1 ∧ r.goValue = c.2.2)) = true := by
  decide

/-- every target constant exists in api.proto -/
theorem C10_enum_targets_exist :
    (enumRows.filter (fun r => r.fn != "convertComparison")).all (fun r =>
      protoEnums.any (fun e => e.2.contains r.protoSuffix)) = true := by decide

/-! ### settings: what the service returned earlier overrides the spec -/

def lookup (l : List (String × String)) (n : String) : Option String := (l.find? (fun a => a.1 = n)).map (·.2)

theorem lookup_setFirst (l : List (String × String)) (n v m : String) (h : l.any (fun a => a.1 = n) = true) :
    lookup (setFirst n v l) m = if m = n then some v else lookup l m := by
  induction l with
  | nil => simp at h
  | cons a r ih =>
    simp only [setFirst]
    by_cases ha : a.1 = n
    · simp only [ha, if_true, lookup, List.find?_cons]
      by_cases hm : m = n
      · simp [hm]
      · have : ¬ n = m := fun e => hm e.symm
        simp [hm, this, ha]
    · simp only [ha, if_false]
      have h' : r.any (fun a => a.1 = n) = true := by simpa [List.any_cons, ha] using h
      have := ih h'
      simp only [lookup, List.find?_cons] at this ⊢
      by_cases hm : a.1 = m
      · have : ¬ m = n := fun e => ha (hm.trans e)
        simp [hm, this]
      · simp only [hm, decide_false]
        exact this

theorem lookup_append_single (l : List (String × String)) (s : String × String) (m : String) :
    lookup (l ++ [s]) m = match lookup l m with | some v => some v | none => if s.1 = m then some s.2 else none := by
  simp only [lookup, List.find?_append]
  cases h : l.find? (fun a => decide (a.1 = m)) with
  | some x => simp
  | none => by_cases hs : s.1 = m <;> simp [List.find?_cons, hs]

theorem lookup_overlayStep (acc : List (String × String)) (s : String × String) (m : String) :
    lookup (overlayStep acc s) m = if m = s.1 then some s.2 else lookup acc m := by
  unfold overlayStep
  split
  · rename_i h; exact lookup_setFirst acc s.1 s.2 m h
  · rename_i h
    rw [lookup_append_single]
    by_cases hm : m = s.1
    · subst hm
      have : lookup acc s.1 = none := by
        simp only [lookup, Option.map_eq_none_iff, List.find?_eq_none]
        intro x hx hx'
        apply h
        simp only [List.any_eq_true]
        exact ⟨x, hx, hx'⟩
      simp [this]
    · have : ¬ s.1 = m := fun e => hm e.symm
      simp only [hm, this, if_false]
      cases lookup acc m <;> rfl

/-- C10_settings_override: in the request, a setting carries the value the service returned last for it, else the
    Experiment's own value. -/
theorem C10_settings_override (spec sug : List (String × String)) (m : String) :
    lookup (overlaySettings spec sug) m = match lookup sug.reverse m with | some v => some v | none => lookup spec m := by
  unfold overlaySettings
  induction sug generalizing spec with
  | nil => simp [lookup]
  | cons s sug ih =>
    simp only [List.foldl_cons, List.reverse_cons]
    rw [ih, lookup_append_single, lookup_overlayStep]
    cases lookup sug.reverse m with
    | some v => rfl
    | none =>
      by_cases hm : m = s.1
      · simp [hm]
      · have : ¬ s.1 = m := fun e => hm e.symm
        simp [hm, this]

def names (l : List (String × String)) : List String := l.map (·.1)

theorem names_setFirst (n v : String) (l : List (String × String)) : names (setFirst n v l) = names l := by
  induction l with
  | nil => rfl
  | cons a r ih =>
    simp only [setFirst]
    split
    · simp [names]
    · simp only [names, List.map_cons] at ih ⊢; rw [ih]

theorem nodup_overlayStep (acc : List (String × String)) (s : String × String) (h : (names acc).Nodup) :
    (names (overlayStep acc s)).Nodup := by
  unfold overlayStep
  split
  · rw [names_setFirst]; exact h
  · rename_i hn
    simp only [names, List.map_append, List.map_cons, List.map_nil]
    rw [List.nodup_append]
    refine ⟨h, by simp, ?_⟩
    intro a ha b hb
    simp only [List.mem_singleton] at hb
    subst hb
    intro hab
    apply hn
    simp only [List.any_eq_true, decide_eq_true_eq]
    obtain ⟨x, hx, hx'⟩ := List.mem_map.mp ha
    exact ⟨x, hx, hx'.trans hab⟩

theorem nodup_overlay (spec sug : List (String × String)) (h : (names spec).Nodup) : (names (overlaySettings spec sug)).Nodup := by
  unfold overlaySettings
  induction sug generalizing spec with
  | nil => exact h
  | cons s sug ih => exact ih _ (nodup_overlayStep spec s h)

theorem lookup_iff_mem (l : List (String × String)) (h : (names l).Nodup) (m v : String) : lookup l m = some v ↔ (m, v) ∈ l := by
  induction l with
  | nil => simp [lookup]
  | cons a r ih =>
    simp only [names, List.map_cons, List.nodup_cons] at h
    simp only [lookup, List.find?_cons]
    by_cases ha : a.1 = m
    · simp only [ha, decide_true, Option.map_some, Option.some.injEq, List.mem_cons]
      constructor
      · intro hv; left; rw [← ha, ← hv]
      · rintro (hmv | hmv)
        · rw [← hmv]
        · exfalso; apply h.1
          exact List.mem_map.mpr ⟨(m, v), hmv, ha.symm⟩
    · simp only [ha, decide_false, List.mem_cons]
      have := ih h.2
      simp only [lookup] at this
      rw [this]
      constructor
      · intro hh; exact Or.inr hh
      · rintro (hh | hh)
        · exfalso; apply ha; rw [← hh]
        · exact hh

theorem nodup_rev {α : Type} (l : List α) (h : l.Nodup) : l.reverse.Nodup := by
  unfold List.Nodup at *
  rw [List.pairwise_reverse]
  exact h.imp (fun hab => fun e => hab e.symm)

theorem lookup_reverse (l : List (String × String)) (h : (names l).Nodup) (m : String) : lookup l.reverse m = lookup l m := by
  have hr : (names l.reverse).Nodup := by
    simp only [names, List.map_reverse]; exact nodup_rev _ h
  cases h1 : lookup l m with
  | some v =>
    rw [lookup_iff_mem l.reverse hr]
    exact List.mem_reverse.mpr ((lookup_iff_mem l h m v).mp h1)
  | none =>
    cases h2 : lookup l.reverse m with
    | none => rfl
    | some v =>
      have := (lookup_iff_mem l h m v).mpr (List.mem_reverse.mp ((lookup_iff_mem l.reverse hr m v).mp h2))
      rw [h1] at this; cases this

/-- C10_settings_rounds: across sync rounds — the status merges what the service returned (`updateAlgorithmSettings`), the
    next request overlays it on the spec: for every name the service returned in its last reply, the next request
    carries exactly that value (the status holding one entry per name). -/
theorem C10_settings_rounds (spec status reply : List (String × String)) (m v : String)
    (hst : (names status).Nodup) (h : lookup reply.reverse m = some v) :
    lookup (overlaySettings spec (updateSettings status reply)) m = some v := by
  have hu : lookup (updateSettings status reply) m = some v := by
    unfold updateSettings
    rw [C10_settings_override, h]
  have hnd : (names (updateSettings status reply)).Nodup := nodup_overlay status reply hst
  rw [C10_settings_override, lookup_reverse _ hnd, hu]

/-- the status keeps one entry per name -/
theorem C10_status_names_nodup (status reply : List (String × String)) (hst : (names status).Nodup) :
    (names (updateSettings status reply)).Nodup := nodup_overlay status reply hst

/-! ### field-by-field fidelity -/

/-- C10_fields: names, metric names, settings of early stopping, budget numbers arrive unchanged (absent numbers as 0). -/
theorem C10_fields (e : ExpSpec) (s : List (String × String)) :
    let p := convertExperiment e s
    p.name = e.name ∧ p.algorithm = e.algorithm ∧ p.metric = e.objective.metric ∧ p.additional = e.objective.additional ∧
    p.earlyStopping = e.earlyStopping ∧ p.parallel = e.parallel.getD 0 ∧ p.maxTrials = e.maxTrials.getD 0 ∧
    p.goal = e.objective.goal.getD "0" := by
  simp [convertExperiment]

/-- C10_params: every parameter arrives, in order, with its name, min, max, step and list unchanged. -/
theorem C10_params (e : ExpSpec) (s : List (String × String)) :
    (convertExperiment e s).params.map (fun p => (p.name, p.fs.min, p.fs.max, p.fs.step, p.fs.list)) =
    e.params.map (fun p => (p.name, p.fs.min, p.fs.max, p.fs.step, p.fs.list)) ∧
    (convertExperiment e s).params.map (fun p => (p.ptype, p.fs.distribution)) =
    e.params.map (fun p => (enumConv "convertParameterType" p.ptype, enumConv "convertDistribution" p.fs.distribution)) := by
  simp [convertExperiment, List.map_map, Function.comp_def, convParam, convFS]

/-- C10_nas: the NAS configuration arrives with layers (absent = 0), sizes and every operation's type and parameters in order. -/
theorem C10_nas (e : ExpSpec) (s : List (String × String)) (n : NasConfig) (h : e.nas = some n) :
    ∃ pn, (convertExperiment e s).nas = some pn ∧ pn.numLayers = some (n.numLayers.getD 0) ∧ pn.inputSizes = n.inputSizes ∧
      pn.outputSizes = n.outputSizes ∧ pn.operations.map (·.opType) = n.operations.map (·.opType) ∧
      pn.operations.map (fun o => o.params.map (·.name)) = n.operations.map (fun o => o.params.map (·.name)) := by
  refine ⟨convNas n, by simp [convertExperiment, h], rfl, rfl, rfl, ?_, ?_⟩
  · simp [convNas, List.map_map, Function.comp_def]
  · simp [convNas, List.map_map, Function.comp_def, convParam]

/-- C10_metric_value: a trial metric is reported with the value its strategy selects, falling back to latest. -/
theorem C10_metric_value (strategies : List (String × String)) (m : MetricObs) (st : String)
    (h : (strategies.reverse.find? (fun s => s.1 = m.name)).map (·.2) = some st) :
    metricValue strategies m =
      if st = "min" then (if m.min = unavailable then m.latest else m.min)
      else if st = "max" then (if m.max = unavailable then m.latest else m.max)
      else if st = "latest" then m.latest else "" := by
  unfold metricValue
  rw [h]
  by_cases h1 : st = "min"
  · subst h1; simp
  · by_cases h2 : st = "max"
    · subst h2; simp
    · by_cases h3 : st = "latest"
      · subst h3; simp
      · simp only [h1, h2, h3, if_false]
        split <;> simp_all

/-- C10_trials: the eligible trials arrive in order with name, assignments, labels, and their last condition. -/
theorem C10_trials (ts : List TrialIn) :
    (convertTrials ts).map (fun p => (p.name, p.assignments, p.labels)) =
    ((ts.filter (fun t => !condHas t.conditions "MetricsUnavailable" && !(condHas t.conditions "EarlyStopped" && !obsAvail t))).map
      (fun t => (t.name, t.assignments, t.labels))) := by
  simp [convertTrials, List.map_map, Function.comp_def, convTrial]

theorem C10_last_condition (t : TrialIn) (c : String × Bool) (h : t.conditions.getLast? = some c) :
    (convTrial t).condition = enumConv "convertTrialConditionType" c.1 := by
  simp [convTrial, h]

/-! Non-vacuity -/
example : enumConv "convertParameterType" "double" = "ParameterType_DOUBLE" := by decide
example : overlaySettings [("a", "1"), ("b", "2")] [("b", "9"), ("c", "3"), ("b", "7")] = [("a", "1"), ("b", "7"), ("c", "3")] := by decide

end Katib.Conv
